(* Specification: a conforming SGR terminal.  Independent of /repo's tables and of the model:
   this file is what "displays", "effective style" and "a terminal's reading" MEAN in the
   property statements.  (ECMA-48 8.3.117 plus the de-facto 38/48/58 and 90-97/100-107 extensions.) *)
From AS Require Import Base Effects.
Local Open Scope N_scope.

Definition spec_class (c : N) : cls :=
  match c with
  | 0 => CReset
  | 1 | 2 => CSet BOLDNESS          | 22 => CClr BOLDNESS
  | 3 => CSet ITALICS               | 23 => CClr ITALICS
  | 4 | 21 => CSet UNDERLINE        | 24 => CClr UNDERLINE
  | 5 | 6 => CSet BLINKING          | 25 => CClr BLINKING
  | 7 => CSet SWAP_BG_FG            | 27 => CClr SWAP_BG_FG
  | 8 => CSet VISIBILITY            | 28 => CClr VISIBILITY
  | 9 => CSet CROSSED_OUT           | 29 => CClr CROSSED_OUT
  | 11 | 12 | 13 | 14 | 15 | 16 | 17 | 18 | 19 | 20 => CSet FONT_TYPE       | 10 => CClr FONT_TYPE   (* 10 = primary font *)
  | 26 => CSet SPACING              | 50 => CClr SPACING
  | 51 | 52 => CSet BOXING          | 54 => CClr BOXING
  | 53 => CSet OVERLINE             | 55 => CClr OVERLINE
  | 30 | 31 | 32 | 33 | 34 | 35 | 36 | 37 | 90 | 91 | 92 | 93 | 94 | 95 | 96 | 97 => CSet FG_COLOR
  | 38 => CIntro FG_COLOR           | 39 => CClr FG_COLOR
  | 40 | 41 | 42 | 43 | 44 | 45 | 46 | 47 | 100 | 101 | 102 | 103 | 104 | 105 | 106 | 107 => CSet BG_COLOR
  | 48 => CIntro BG_COLOR           | 49 => CClr BG_COLOR
  | 58 => CIntro UL_COLOR           | 59 => CClr UL_COLOR
  | _ => CUnknown
  end.

(* the displayed parameter group of every effect; None = default rendition *)
Definition tstate := effect -> option (list N).
Definition tdefault : tstate := fun _ => None.
Definition tset (t : tstate) (e : effect) (g : option (list N)) : tstate :=
  fun e' => if effect_beq e e' then g else t e'.
Inductive act := AReset | ASet (e : effect) (g : list N) | AClr (e : effect) | ANone.
Definition apply_act (t : tstate) (a : act) : tstate :=
  match a with AReset => tdefault | ASet e g => tset t e (Some g) | AClr e => tset t e None | ANone => t end.
Definition ok255 (l : list N) : bool := forallb (fun x => x <=? 255) l.
Definition teq (a b : tstate) : Prop := forall e, a e = b e.

(* Selecting the primary font (10) is the default rendition of FONT_TYPE: display equivalence
   identifies the two.  Everything else is compared exactly. *)
Definition norm_group (e : effect) (g : option (list N)) : option (list N) :=
  match e, g with FONT_TYPE, Some [10] => None | _, _ => g end.
Definition teq_disp (a b : tstate) : Prop := forall e, norm_group e (a e) = norm_group e (b e).

Section WithClass.
(* parametric in the classification so that the same definitions serve the specification
   (class := spec_class) and the statements about the repository's own table *)
Variable class : N -> cls.

(* One parameter group.  The flag says whether the group was complete, i.e. not cut off by the
   end of the list (a cut-off group could still become a different group if more codes followed). *)
Definition next_act (p : list N) : act * list N * bool :=
  match p with
  | [] => (ANone, [], true)
  | c :: r =>
    match class c with
    | CReset => (AReset, r, true)
    | CSet e => (ASet e [c], r, true)
    | CClr e => (AClr e, r, true)
    | CUnknown => (ANone, r, true)
    | CIntro e =>
      match r with
      | 5 :: r1 => match r1 with
                   | n :: r2 => ((if ok255 [n] then ASet e [c; 5; n] else ANone), r2, true)
                   | [] => (ANone, [], false) end
      | 2 :: r1 => match r1 with
                   | a :: b :: d :: r2 => ((if ok255 [a; b; d] then ASet e [c; 2; a; b; d] else ANone), r2, true)
                   | _ => (ANone, [], false) end
      | [] => (ANone, [], false)
      | _ => (ANone, r, true)
      end
    end
  end.

Fixpoint acts_fuel (fuel : nat) (p : list N) : list act * bool :=
  match fuel with
  | O => ([], true)
  | S f => match p with
           | [] => ([], true)
           | _ => let '(a, r, ok) := next_act p in
                  let '(l, ok') := acts_fuel f r in (a :: l, ok && ok') end
  end.
Definition acts (p : list N) : list act := fst (acts_fuel (length p) p).
Definition complete (p : list N) : bool := snd (acts_fuel (length p) p).
Definition run (t : tstate) (l : list act) : tstate := fold_left apply_act l t.
Definition sgr (t : tstate) (p : list N) : tstate := run t (acts p).
End WithClass.

(* ---------- from characters to parameters ---------- *)
(* A sequence body is interpreted only when it is [0-9;]*; an empty parameter is 0, an empty body
   is [0]. *)
Definition all_digits (s : str) : bool := forallb is_digit s.
Definition num_of (s : str) : N := fold_left (fun acc c => acc * 10 + digit_val c) s 0.
Definition params_of (body : str) : option (list N) :=
  let items := split_char SEMI body in
  if forallb all_digits items then Some (map num_of items) else None.


(* maximal run of non-final characters *)
Fixpoint span_body (s : str) : str * str :=
  match s with
  | [] => ([], [])
  | c :: r => if is_final c then ([], s) else let '(b, r') := span_body r in (c :: b, r')
  end.

(* the terminal: characters displayed with their state, and the final state *)
Fixpoint term_run_fuel (fuel : nat) (t : tstate) (s : str) : list (char * tstate) * tstate :=
  match fuel with
  | O => ([], t)
  | S f =>
    match s with
    | [] => ([], t)
    | c1 :: r1 =>
      match r1 with
      | c2 :: r2 =>
        if (c1 =? ESC) && (c2 =? LBR) then
          let '(b, r3) := span_body r2 in
          match r3 with
          | [] => ([], t)                              (* unterminated: swallowed *)
          | fin :: r4 =>
            let t' := if fin =? CH_m then
                        match params_of b with Some p => sgr spec_class t p | None => t end
                      else t in
            term_run_fuel f t' r4
          end
        else let '(d, tf) := term_run_fuel f t r1 in ((c1, t) :: d, tf)
      | [] => ([(c1, t)], t)
      end
    end
  end.
Definition term_run (t : tstate) (s : str) := term_run_fuel (length s) t s.

(* "the effective style obtained from the settings the object reports for that character
   (a later setting overriding earlier ones of the same effect)" *)
Definition codes_of_texts (l : list str) : list N :=
  concat (map (fun t => match params_of t with Some p => p | None => [] end) l).
Definition style_of (l : list str) : tstate := sgr spec_class tdefault (codes_of_texts l).

(* "well-formed SGR parameter groups": a numeric text whose codes form complete groups *)
Definition wf_setting (t : str) : bool :=
  match params_of t with
  | Some p => negb (is_nil t) && complete spec_class p
  | None => false
  end.

(* the single effect group a setting text addresses, when it is exactly one known group *)
Definition single_effect (t : str) : option effect :=
  match params_of t with
  | Some p =>
    match next_act spec_class p with
    | (ASet e _, [], true) => Some e
    | (AClr e, [], true) => Some e
    | _ => None end
  | None => None
  end.

(* observable form of a state, for the executable oracle *)
Definition tstate_obs (t : tstate) : list (option (list N)) := map (fun e => norm_group e (t e)) all_effects.
