(* Specification of the Python str methods that AnsiString re-implements on top of slicing.
   Independent of the model: only Base (characters, strings, starts_with/ends_with, str_slice, join)
   is imported.  Every function is a plain structural recursion over the string. *)
From AS Require Import Base.

(* sub occurs in s at offset i *)
Definition occurs_at (sub s : str) (i : nat) : Prop :=
  exists a b, s = a ++ sub ++ b /\ length a = i.

(* ---------- str.lstrip / rstrip / strip (chars) ---------- *)
(* drop the longest prefix made of characters of chars *)
Fixpoint py_lstrip (chars s : str) : str :=
  match s with
  | [] => []
  | c :: r => if mem_char c chars then py_lstrip chars r else s
  end.
Definition py_rstrip (chars s : str) : str := rev (py_lstrip chars (rev s)).
Definition py_strip (chars s : str) : str := py_lstrip chars (py_rstrip chars s).

(* ---------- str.removeprefix / removesuffix ---------- *)
Definition py_removeprefix (p s : str) : str :=
  if starts_with s p then skipn (length p) s else s.
(* s[:-len(p)] when s ends with a non-empty p; removesuffix("") leaves s alone (firstn (len - 0)) *)
Definition py_removesuffix (p s : str) : str :=
  if ends_with s p then firstn (length s - length p) s else s.

(* ---------- str.partition / rpartition ---------- *)
(* cut s at the first occurrence of sep: Some (before, after) *)
Fixpoint cut_first (sep s : str) : option (str * str) :=
  if starts_with s sep then Some ([], skipn (length sep) s)
  else match s with
       | [] => None
       | c :: r => match cut_first sep r with
                   | Some (a, b) => Some (c :: a, b)
                   | None => None
                   end
       end.
(* cut s at the last occurrence of sep *)
Fixpoint cut_last (sep s : str) : option (str * str) :=
  match s with
  | [] => if is_nil sep then Some ([], []) else None
  | c :: r => match cut_last sep r with
              | Some (a, b) => Some (c :: a, b)
              | None => if starts_with s sep then Some ([], skipn (length sep) s) else None
              end
  end.

Definition py_partition (sep s : str) : str * str * str :=
  match cut_first sep s with Some (a, b) => (a, sep, b) | None => (s, [], []) end.
(* As the library documents rpartition: "If the separator is not found, returns a 3-tuple containing
   the original string and two empty strings", i.e. (s, "", "") -- NOT str.rpartition's ("", "", s). *)
Definition py_rpartition (sep s : str) : str * str * str :=
  match cut_last sep s with Some (a, b) => (a, sep, b) | None => (s, [], []) end.
(* (str.partition("") raises ValueError; the library does not: see the report.) *)

(* ---------- str.split(sep, maxsplit), non-empty sep ---------- *)
(* One left-to-right scan.  off/len: offset and length so far of the piece being read;
   skip: characters of an already recognised separator still to be passed over;
   m: splits still allowed (negative = unlimited).  Result: (offset, length) of every piece. *)
Fixpoint split_scan (sep : str) (m : Z) (s : str) (off len skip : nat) : list (nat * nat) :=
  match s with
  | [] => [(off, len)]
  | _ :: r =>
    match skip with
    | S k => split_scan sep m r off len k
    | O => if negb (m =? 0)%Z && starts_with s sep
           then (off, len) :: split_scan sep (m - 1) r (off + len + length sep) 0 (length sep - 1)
           else split_scan sep m r off (S len) 0
    end
  end.
Definition py_split_offsets (sep : str) (maxsplit : Z) (s : str) : list (nat * nat) :=
  split_scan sep maxsplit s 0 0 0.
Definition py_split_texts (sep : str) (maxsplit : Z) (s : str) : list str :=
  map (fun ol => str_slice s (fst ol) (fst ol + snd ol)) (py_split_offsets sep maxsplit s).

(* str.rsplit(sep, maxsplit): the same scan over the reversed string, offsets mirrored back *)
Definition py_rsplit_offsets (sep : str) (maxsplit : Z) (s : str) : list (nat * nat) :=
  rev (map (fun ol => (length s - (fst ol + snd ol), snd ol))
           (py_split_offsets (rev sep) maxsplit (rev s))).
Definition py_rsplit_texts (sep : str) (maxsplit : Z) (s : str) : list str :=
  map (fun ol => str_slice s (fst ol) (fst ol + snd ol)) (py_rsplit_offsets sep maxsplit s).

(* ---------- sanity examples ("ab", "aa" as separators; " x" as chars) ---------- *)
Local Definition S_ (x : String.string) : str := str_of_string x.
Import String.StringSyntax.
Local Open Scope string_scope.
Example ex_lstrip : py_lstrip (S_ " x") (S_ " x ab x ") = S_ "ab x ". Proof. reflexivity. Qed.
Example ex_rstrip : py_rstrip (S_ " x") (S_ " x ab x ") = S_ " x ab". Proof. reflexivity. Qed.
Example ex_strip_all : py_strip (S_ " x") (S_ " x x ") = []. Proof. reflexivity. Qed.
Example ex_rmpre : py_removeprefix (S_ "ab") (S_ "abab") = S_ "ab". Proof. reflexivity. Qed.
Example ex_rmpre_no : py_removeprefix (S_ "b") (S_ "abab") = S_ "abab". Proof. reflexivity. Qed.
Example ex_rmsuf : py_removesuffix (S_ "ab") (S_ "abab") = S_ "ab". Proof. reflexivity. Qed.
Example ex_rmsuf_empty : py_removesuffix [] (S_ "abab") = S_ "abab". Proof. reflexivity. Qed.
Example ex_part : py_partition (S_ "aa") (S_ "baaab") = (S_ "b", S_ "aa", S_ "ab"). Proof. reflexivity. Qed.
Example ex_rpart : py_rpartition (S_ "aa") (S_ "baaab") = (S_ "ba", S_ "aa", S_ "b"). Proof. reflexivity. Qed.
Example ex_part_no : py_partition (S_ "c") (S_ "ab") = (S_ "ab", [], []). Proof. reflexivity. Qed.
Example ex_rpart_no : py_rpartition (S_ "c") (S_ "ab") = (S_ "ab", [], []). Proof. reflexivity. Qed.
(* "aaaa".split("aa") = ['', '', ''];  ",a,,b,".split(",") = ['', 'a', '', 'b', ''] *)
Example ex_split_aa : py_split_texts (S_ "aa") (-1) (S_ "aaaa") = [[]; []; []]. Proof. reflexivity. Qed.
Example ex_split_aaa : py_split_texts (S_ "aa") (-1) (S_ "aaa") = [[]; S_ "a"]. Proof. reflexivity. Qed.
Example ex_split_ends : py_split_texts (S_ ",") (-1) (S_ ",a,,b,") = [[]; S_ "a"; []; S_ "b"; []]. Proof. reflexivity. Qed.
Example ex_split_max : py_split_texts (S_ ",") 2 (S_ ",a,,b,") = [[]; S_ "a"; S_ ",b,"]. Proof. reflexivity. Qed.
Example ex_rsplit_max : py_rsplit_texts (S_ ",") 2 (S_ ",a,,b,") = [S_ ",a,"; S_ "b"; []]. Proof. reflexivity. Qed.
Example ex_rsplit_aaa : py_rsplit_texts (S_ "aa") (-1) (S_ "aaa") = [S_ "a"; []]. Proof. reflexivity. Qed.
Example ex_split_offs : py_split_offsets (S_ ", ") (-1) (S_ "a, bc, d") = [(0, 1); (3, 2); (7, 1)]. Proof. reflexivity. Qed.

(* ---------- what the definitions above mean, in terms of occurrences ---------- *)
Lemma starts_with_iff s p : starts_with s p = true <-> exists b, s = p ++ b.
Proof.
  revert s; induction p as [|y p IH]; intros s.
  - split; [exists s; reflexivity|now destruct s].
  - destruct s as [|x s]; simpl.
    + split; [discriminate|intros (b & E); discriminate].
    + rewrite andb_true_iff, N.eqb_eq, IH. split.
      * intros (-> & b & ->). now exists b.
      * intros (b & E). inversion E; subst. split; auto. now exists b.
Qed.

Lemma occurs_at_0 sub s : occurs_at sub s 0 <-> starts_with s sub = true.
Proof.
  rewrite starts_with_iff. split.
  - intros (a & b & E & Hl). destruct a; [|discriminate]. now exists b.
  - intros (b & E). now exists [], b.
Qed.

Lemma occurs_at_S sub c s i : occurs_at sub (c :: s) (S i) <-> occurs_at sub s i.
Proof.
  split; intros (a & b & E & Hl).
  - destruct a as [|x a]; [discriminate|]. simpl in *. inversion E; subst. exists a, b. split; auto.
  - exists (c :: a), b. simpl. split; congruence.
Qed.

(* lstrip removes a prefix made of chars only, and what remains does not start with one *)
Theorem py_lstrip_spec chars s :
  exists pre, s = pre ++ py_lstrip chars s /\
    forallb (fun c => mem_char c chars) pre = true /\
    match py_lstrip chars s with c :: _ => mem_char c chars = false | [] => True end.
Proof.
  induction s as [|c s (pre & E & Hp & Hh)]; simpl.
  - now exists [].
  - destruct (mem_char c chars) eqn:Ec.
    + exists (c :: pre). simpl. rewrite Ec. repeat split; auto. now f_equal.
    + exists []. simpl. repeat split; auto.
Qed.

(* cut_first cuts at the first occurrence, cut_last at the last one; None = no occurrence *)
Theorem cut_first_spec sep s :
  match cut_first sep s with
  | Some (a, b) => s = a ++ sep ++ b /\ forall i, occurs_at sep s i -> length a <= i
  | None => forall i, ~ occurs_at sep s i
  end.
Proof.
  induction s as [|c s IH].
  - cbn [cut_first]. destruct (starts_with [] sep) eqn:E.
    + split; [|intros; simpl; lia]. apply starts_with_iff in E as (b & E).
      destruct sep; [|discriminate]. destruct b; [reflexivity|discriminate].
    + intros i (a & b & E' & Hl). destruct a; [|discriminate]. destruct sep; discriminate.
  - cbn [cut_first]. destruct (starts_with (c :: s) sep) eqn:E.
    + split; [|intros; simpl; lia]. apply starts_with_iff in E as (b & E). rewrite E at 1. simpl. f_equal.
      rewrite E. clear. induction sep; simpl; auto.
    + destruct (cut_first sep s) as [[a b]|].
      * destruct IH as [IH1 IH2]. split; [simpl; congruence|].
        intros [|i] Hi; [apply (proj1 (occurs_at_0 _ _)) in Hi; congruence|].
        apply (proj1 (occurs_at_S _ _ _ _)) in Hi. apply IH2 in Hi. simpl. lia.
      * intros [|i] Hi; [apply (proj1 (occurs_at_0 _ _)) in Hi; congruence|].
        apply (proj1 (occurs_at_S _ _ _ _)) in Hi. now apply IH in Hi.
Qed.

Theorem cut_last_spec sep s :
  match cut_last sep s with
  | Some (a, b) => s = a ++ sep ++ b /\ forall i, occurs_at sep s i -> i <= length a
  | None => forall i, ~ occurs_at sep s i
  end.
Proof.
  induction s as [|c s IH].
  - cbn [cut_last]. destruct sep as [|y sep]; cbn [is_nil].
    + split; auto. intros i (a & b & E & Hl). destruct a; [simpl in Hl; lia|discriminate].
    + intros i (a & b & E & Hl). destruct a; discriminate.
  - cbn [cut_last]. destruct (cut_last sep s) as [[a b]|].
    + destruct IH as [IH1 IH2]. split; [simpl; congruence|].
      intros [|i] Hi; [simpl; lia|]. apply (proj1 (occurs_at_S _ _ _ _)) in Hi. apply IH2 in Hi. simpl. lia.
    + destruct (starts_with (c :: s) sep) eqn:E.
      * split.
        -- apply starts_with_iff in E as (b & E). rewrite E at 1. simpl. f_equal.
           rewrite E. clear. induction sep; simpl; auto.
        -- intros [|i] Hi; [simpl; lia|]. apply (proj1 (occurs_at_S _ _ _ _)) in Hi. now apply IH in Hi.
      * intros [|i] Hi; [apply (proj1 (occurs_at_0 _ _)) in Hi; congruence|].
        apply (proj1 (occurs_at_S _ _ _ _)) in Hi. now apply IH in Hi.
Qed.

Print Assumptions py_lstrip_spec.
Print Assumptions cut_first_spec.
Print Assumptions cut_last_spec.
