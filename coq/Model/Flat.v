(* A flat encoding of answer trees, used only by the extraction cross-check: the same requests are
   evaluated inside Coq (vm_compute) and by the extracted OCaml driver, and the two results compared. *)
From AS Require Import Base.
From AS.Model Require Import Entry.
Local Open Scope Z_scope.

Fixpoint sxflat (x : sx) : list Z :=
  match x with
  | A z => [0; z]
  | L l => 1 :: Z.of_nat (length l) :: flat_map sxflat l
  end.
Definition run_flat (reqs : list sx) : list Z := flat_map (fun r => sxflat (run_request r)) reqs.
