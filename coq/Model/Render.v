(* Model of AnsiString.to_str without a format spec (ansi_string.py:730-849, as repaired F1),
   is_formatting_valid / is_formatting_parsable. *)
From AS Require Import Base Effects.
From AS.Model Require Import Sgr Table.

Inductive otok := OText (s : str) | OSgr (codes : str).        (* ESC [ codes m *)

Definition bytes_of_tok (t : otok) : str :=
  match t with OText s => s | OSgr c => ESC :: LBR :: c ++ [CH_m] end.
Definition bytes_of (l : list otok) : str := flat_map bytes_of_tok l.

Definition all_adds (t : fmts) : list setting := flat_map (fun kp => padd (snd kp)) t.
Definition is_valid_tbl (t : fmts) : bool := forallb (fun x => valid (stxt x)) (all_adds t).
Definition is_parsable_tbl (t : fmts) : bool := forallb (fun x => parsable (stxt x)) (all_adds t).

Definition sdict := dict str.      (* effect -> setting text *)

(* the optimiser's difference between two effect dictionaries *)
Definition diff_codes (old new : sdict) : list str :=
  flat_map (fun kv => match dget new (fst kv) with
                      | Some _ => []
                      | None => match clear_code (fst kv) with Some c => [decN c] | None => [] end
                      end) old
  ++ flat_map (fun kv => match dget old (fst kv) with
                         | Some v => if str_eqb v (snd kv) then [] else [snd kv]
                         | None => [snd kv] end) new.

Record rstate := { r_out : list otok; r_last : nat; r_dict : sdict; r_exist : bool; r_first : bool }.

(* one iteration of the rendering loop, for a point with idx < len *)
Definition render_point (s : str) (optimize reset_start : bool) (st : rstate)
           (idx : nat) (p : point) (cur : list setting) : rstate :=
  let pre := if r_first st && (0 <? idx) && reset_start then [OSgr []] else [] in
  let text := str_slice s (r_last st) idx in
  let to_apply := map stxt cur in
  let to_apply := if negb (is_nil (prem p)) && negb (is_nil to_apply) then [CH_0] :: to_apply else to_apply in
  let codes := join [SEMI] to_apply in
  let new_dict := if optimize then s2d (fun x => x) (map stxt cur) [] else r_dict st in
  let '(apply_, codes) :=
    if optimize then
      let opt := join [SEMI] (diff_codes (r_dict st) new_dict) in
      if is_nil opt then (false, codes)
      else if length opt <? length codes then (true, opt) else (true, codes)
    else (true, codes) in
  let '(apply_, codes) :=
    if Nat.eqb idx 0 && reset_start then
      if apply_ && negb (is_nil codes) then (true, CH_0 :: SEMI :: codes) else (true, [CH_0])
    else (apply_, codes) in
  {| r_out := r_out st ++ pre ++ (if is_nil text then [] else [OText text]) ++ (if apply_ then [OSgr codes] else []);
     r_last := idx;
     r_dict := new_dict;
     r_exist := negb (is_nil cur);
     r_first := false |}.

Fixpoint render_loop (s : str) (optimize reset_start : bool) (states : list (nat * point * list setting))
         (st : rstate) : rstate :=
  match states with
  | [] => st
  | (idx, p, cur) :: r =>
    if length s <=? idx then st                                   (* idx >= len(obj): break *)
    else render_loop s optimize reset_start r (render_point s optimize reset_start st idx p cur)
  end.

Definition to_str_toks (a : astr) (optimize reset_start reset_end : bool) : list otok :=
  let s := base a in
  if is_nil (tbl a) && negb reset_start then (if is_nil s then [] else [OText s])
  else
    let optimize := optimize && is_parsable_tbl (tbl a) in
    let st := render_loop s optimize reset_start (iter_states (tbl a) [])
                          {| r_out := []; r_last := 0; r_dict := []; r_exist := false; r_first := true |} in
    let tail := skipn (r_last st) s in
    r_out st
    ++ (if r_first st && reset_start then [OSgr []] else [])
    ++ (if is_nil tail then [] else [OText tail])
    ++ (if r_exist st && reset_end then [OSgr []] else []).

Definition to_str (a : astr) (optimize reset_start reset_end : bool) : str :=
  bytes_of (to_str_toks a optimize reset_start reset_end).

Definition render (a : astr) : str := to_str a true false true.    (* str(), format(s, None) *)
