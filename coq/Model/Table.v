(* The change-point table of an AnsiString and its replay semantics
   (_AnsiSettingPoint, _AnsiSettingsIterator, ansi_settings_at in ansi_string.py). *)
From AS Require Import Base.

(* An AnsiSetting object: Python object identity + its text.  `is` compares sid, `==` compares stxt. *)
Record setting := mkS { sid : nat; stxt : str }.
Record point := mkP { padd : list setting; prem : list setting }.
Definition fmts := list (nat * point).          (* the _fmts dict as a key-sorted association list *)
Record astr := mkA { base : str; tbl : fmts }.

Definition empty_point : point := mkP [] [].
Definition point_is_empty (p : point) : bool := is_nil (padd p) && is_nil (prem p).   (* not bool(point) *)

Definition same_ref (a b : setting) : bool := Nat.eqb (sid a) (sid b).
Definition same_val (a b : setting) : bool := str_eqb (stxt a) (stxt b).

(* ---------- dict operations on the sorted association list ---------- *)
Fixpoint tget (k : nat) (t : fmts) : option point :=
  match t with
  | [] => None
  | (k', p) :: r => if Nat.eqb k k' then Some p else if k <? k' then None else tget k r
  end.
Fixpoint tput (k : nat) (p : point) (t : fmts) : fmts :=
  match t with
  | [] => [(k, p)]
  | (k', p') :: r => if Nat.eqb k k' then (k, p) :: r
                     else if k <? k' then (k, p) :: t
                     else (k', p') :: tput k p r
  end.
Fixpoint tdel (k : nat) (t : fmts) : fmts :=
  match t with
  | [] => []
  | (k', p') :: r => if Nat.eqb k k' then r else (k', p') :: tdel k r
  end.
Definition tmem (k : nat) (t : fmts) : bool := match tget k t with Some _ => true | None => false end.
Definition tensure (k : nat) (t : fmts) : fmts := if tmem k t then t else tput k empty_point t.
Definition tget_or_empty (k : nat) (t : fmts) : point := match tget k t with Some p => p | None => empty_point end.
(* self._fmts[new] = self._fmts.pop(old), when old is present *)
Definition tmove (old new : nat) (t : fmts) : fmts :=
  match tget old t with Some p => tput new p (tdel old t) | None => t end.

(* ---------- _find_setting_reference and friends ---------- *)
Fixpoint find_ref (x : setting) (l : list setting) : option nat :=
  match l with
  | [] => None
  | y :: r => if same_ref x y then Some 0 else option_map S (find_ref x r)
  end.
Definition in_ref (x : setting) (l : list setting) : bool := match find_ref x l with Some _ => true | None => false end.
Fixpoint remove_ref (x : setting) (l : list setting) : list setting :=
  match l with
  | [] => []
  | y :: r => if same_ref x y then r else y :: remove_ref x r
  end.

(* ---------- the iterator ---------- *)
(* lenient replay (WITH_ASSERTIONS = False): a stop marker that matches nothing is ignored *)
Definition step (act : list setting) (p : point) : list setting :=
  fold_left (fun a s => remove_ref s a) (prem p) act ++ padd p.

(* (idx, point, current_settings) for every point, in key order *)
Fixpoint iter_states (t : fmts) (act : list setting) : list (nat * point * list setting) :=
  match t with
  | [] => []
  | (k, p) :: r => let act' := step act p in (k, p, act') :: iter_states r act'
  end.

(* the list active after replaying every point with key <= i *)
Fixpoint active_upto (t : fmts) (i : nat) (act : list setting) : list setting :=
  match t with
  | [] => act
  | (k, p) :: r => if k <=? i then active_upto r i (step act p) else act
  end.
Definition active_at (t : fmts) (i : nat) : list setting := active_upto t i [].

(* ansi_settings_at *)
Definition settings_at (s : astr) (i : Z) : list setting :=
  if (0 <=? i)%Z && (i <? Z.of_nat (length (base s)))%Z then active_at (tbl s) (Z.to_nat i) else [].
Definition settings_at_nat (s : astr) (i : nat) : list setting :=
  if i <? length (base s) then active_at (tbl s) i else [].

(* the self-check: strict replay (WITH_ASSERTIONS = True) succeeds on the whole table *)
Fixpoint strict_rems (rems : list setting) (act : list setting) : option (list setting) :=
  match rems with
  | [] => Some act
  | s :: r => if in_ref s act then strict_rems r (remove_ref s act) else None
  end.
Fixpoint strict_ok_from (t : fmts) (act : list setting) : bool :=
  match t with
  | [] => true
  | (k, p) :: r => match strict_rems (prem p) act with
                   | Some a => strict_ok_from r (a ++ padd p)
                   | None => false end
  end.
Definition strict_ok (t : fmts) : bool := strict_ok_from t [].

(* the list active after the whole table *)
Definition final_active (t : fmts) : list setting := fold_left (fun a kp => step a (snd kp)) t [].

(* equality as AnsiString.__eq__: same text, same keys, same marker texts in the same order *)
Definition point_eqb (p q : point) : bool :=
  list_eqb same_val (padd p) (padd q) && list_eqb same_val (prem p) (prem q).
Definition fmts_eqb (a b : fmts) : bool :=
  list_eqb (fun x y => Nat.eqb (fst x) (fst y) && point_eqb (snd x) (snd y)) a b.
(* as repaired (F58): equal markers may pair up differently (a marker ends the setting OBJECT it refers to), so equality also
   requires the same setting texts, in the same order, in effect after every marker *)
Definition states_eqb (a b : fmts) : bool :=
  list_eqb (list_eqb same_val) (map (fun x => snd x) (iter_states a [])) (map (fun x => snd x) (iter_states b [])).
Definition astr_eqb (a b : astr) : bool :=
  str_eqb (base a) (base b) && fmts_eqb (tbl a) (tbl b) && states_eqb (tbl a) (tbl b).
