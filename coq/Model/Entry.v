(* Single entry point of the extracted driver: one request (an S-expression) in, one answer out.
   Decoding and encoding are done here, in Gallina, so that the hand-written OCaml driver only
   reads and prints trees of integers and the same function can be evaluated inside Coq
   (vm_compute) to cross-check extraction. *)
From AS Require Import Base Effects.
From AS.Spec Require Import Terminal PyStr.
From AS.Model Require Import Sgr Tokenizer Table Ops Render Scrub Parse StrOps FormatSpec Exec.
Local Open Scope Z_scope.

Definition sx_of_res {T} (f : T -> sx) (r : res T) : sx :=
  match r with OK a => L [A 0; f a] | Err e => L [A 1; A (errcode e)] end.
Definition sx_of_strs (l : list str) : sx := L (map sx_of_str l).
Definition sx_of_optchar (o : option char) : sx := match o with Some c => L [A (Z.of_N c)] | None => L [] end.
Definition sx_of_N (n : N) : sx := A (Z.of_N n).

Fixpoint effect_index (e : effect) (l : list effect) (i : Z) : Z :=
  match l with [] => -1 | x :: r => if effect_beq e x then i else effect_index e r (i + 1) end.
Definition sx_of_effect (e : effect) : sx := A (effect_index e all_effects 0).
Definition effect_of_sx (x : sx) : option effect := nth_error all_effects (nat_of_sx x).

Definition sx_of_tstate (t : tstate) : sx :=
  L (map (fun g => match g with Some l => L [L (map sx_of_N l)] | None => L [] end) (tstate_obs t)).

Definition item_of_sx (x : sx) : item := match x with A z => IInt z | L _ => IStr (str_of_sx x) end.

Definition run_request (req : sx) : sx :=
  match req with
  | L (A c :: args) =>
    if c =? 0 then                                   (* history *)
      match args with [L ops] => L (run_history empty_pool ops) | _ => A (-1) end
    else if c =? 1 then                              (* tokenizer: allow_empty, acceptable (opt), s *)
      match args with
      | [ae; acc; s] =>
        let toks := tokenize (bool_of_sx ae) (optstr_of_sx acc) (str_of_sx s) in
        L [ sx_of_str (unformatted toks);
            L (map (fun kv => L [sx_of_nat (fst kv);
                                 L (map (fun q => L [sx_of_str (cs_body q); sx_of_optchar (cs_term q)]) (snd kv))])
                   (sequences toks));
            sx_of_str (formatted toks);
            sx_of_str (render_toks toks) ]
      | _ => A (-1) end
    else if c =? 2 then                              (* parse_graphic_sequence: mode(0 str,1 list), input, ae *)
      match args with
      | [A 0; s; ae] => sx_of_res sx_of_strs (pgs_str (str_of_sx s) (bool_of_sx ae))
      | [A 1; L items; ae] => sx_of_res sx_of_strs (pgs_items (map item_of_sx items) (bool_of_sx ae))
      | _ => A (-1) end
    else if c =? 3 then                              (* settings_to_dict: texts, old dict [(effect, text)] *)
      match args with
      | [L texts; L old] =>
        let d0 := flat_map (fun kv => match kv with
                                      | L [e; t] => match effect_of_sx e with Some e => [(e, str_of_sx t)] | None => [] end
                                      | _ => [] end) old in
        L (map (fun kv => L [sx_of_effect (fst kv); sx_of_str (snd kv)])
               (s2d (fun x => x) (map str_of_sx texts) d0))
      | _ => A (-1) end
    else if c =? 4 then                              (* terminal: bytes -> displayed chars with states, final state *)
      match args with
      | [s] =>
        let '(d, tf) := term_run tdefault (str_of_sx s) in
        L [L (map (fun cs => L [sx_of_N (fst cs); sx_of_tstate (snd cs)]) d); sx_of_tstate tf]
      | _ => A (-1) end
    else if c =? 5 then                              (* style_of texts *)
      match args with
      | [L texts] => sx_of_tstate (style_of (map str_of_sx texts))
      | _ => A (-1) end
    else if c =? 6 then                              (* AnsiSetting flags *)
      match args with
      | [t] => L [sx_of_bool (valid (str_of_sx t)); sx_of_bool (parsable (str_of_sx t));
                  match single_effect (str_of_sx t) with Some e => sx_of_effect e | None => A (-1) end;
                  sx_of_bool (wf_setting (str_of_sx t))]
      | _ => A (-1) end
    else if c =? 7 then                              (* scrub form *)
      match args with
      | [f] => sx_of_res sx_of_strs (scrub (form_of_sx f))
      | _ => A (-1) end
    else if c =? 8 then                              (* cursor helpers: [n; final] or [r; c; final] *)
      match args with
      | [A n; A f] => sx_of_str (helper1 n (Z.to_N f))
      | [A r; A cc; A f] => sx_of_str (helper2 r cc (Z.to_N f))
      | _ => A (-1) end
    else if c =? 9 then                              (* str.split / rsplit spec *)
      match args with
      | [s; sep; A m; r] =>
        sx_of_strs ((if bool_of_sx r then py_rsplit else py_split) (str_of_sx s) (str_of_sx sep) m)
      | _ => A (-1) end
    else if c =? 10 then                             (* format-spec recognisers *)
      match args with
      | [s] =>
        L [ match split_spec (str_of_sx s) with
            | Some (a, b) => L [sx_of_str a; match b with Some x => L [sx_of_str x] | None => L [] end]
            | None => L [] end;
            match parse_string_format (str_of_sx s) with
            | SFok f => L [sx_of_optchar (sf_fill f); sx_of_optchar (sf_flag f);
                           A (match sf_align f with ALeft => 0 | ARight => 1 | ACenter => 2 end);
                           sx_of_str (sf_width f)]
            | SFerr => L [] end ]
      | _ => A (-1) end
    else if c =? 11 then                             (* Spec/PyStr.v functions, validated against CPython's str *)
      match args with
      | [A which; a; b; A m] =>
        let x := str_of_sx a in let y := str_of_sx b in
        let trip (t : str * str * str) := L [sx_of_str (fst (fst t)); sx_of_str (snd (fst t)); sx_of_str (snd t)] in
        let offs (l : list (nat * nat)) := L (map (fun ol => L [sx_of_nat (fst ol); sx_of_nat (snd ol)]) l) in
        if which =? 0 then sx_of_str (py_lstrip x y)
        else if which =? 1 then sx_of_str (py_rstrip x y)
        else if which =? 2 then sx_of_str (py_strip x y)
        else if which =? 3 then sx_of_str (py_removeprefix x y)
        else if which =? 4 then sx_of_str (py_removesuffix x y)
        else if which =? 5 then trip (py_partition x y)
        else if which =? 6 then trip (py_rpartition x y)
        else if which =? 7 then L [sx_of_strs (py_split_texts x m y); offs (py_split_offsets x m y)]
        else if which =? 8 then L [sx_of_strs (py_rsplit_texts x m y); offs (py_rsplit_offsets x m y)]
        else A (-1)
      | _ => A (-1) end
    else if c =? 12 then                             (* slice bound normalisation: len, bound (or []), default *)
      match args with
      | [A ln; v; A d] => sx_of_nat (slice_idx (Z.to_nat ln) (optz_of_sx v) (Z.to_nat d))
      | _ => A (-1) end
    else A (-1)
  | _ => A (-1)
  end.
