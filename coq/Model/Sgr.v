(* Model of the SGR-level code: AnsiSetting.valid/parsable/to_list/get_initial_param
   (ansi_format.py), parse_graphic_sequence and settings_to_dict (ansi_parsing.py).
   The code classification comes from the tables GENERATED from /repo (Gen/). *)
From AS Require Import Base Effects.
From AS.Gen Require Import CodeTable ClearDict CtrlFns.
Local Open Scope N_scope.

(* ---------- classification from the repository's tables ---------- *)
Fixpoint assoc_N {V} (c : N) (l : list (N * V)) : option V :=
  match l with [] => None | (k, v) :: r => if k =? c then Some v else assoc_N c r end.
Definition is_param (c : N) : bool := existsb (fun kv => snd kv =? c) gen_params.      (* AnsiParam(c) exists *)
Definition is_intro (c : N) : bool :=
  existsb (fun fn => match fst fn with s0 :: _ => s0 =? c | [] => false end) gen_ctrl_fns.
Definition gen_class (c : N) : cls :=
  if is_param c then
    match assoc_N c gen_code_table with
    | Some (GReset, RESET_ALL) => CReset
    | Some (GEff e, APPLY_SETTING) => if is_intro c then CIntro e else CSet e
    | Some (GEff e, CLEAR_SETTING) => CClr e
    | _ => CUnknown
    end
  else CUnknown.

Definition geffect_eqb (a b : geffect) : bool :=
  match a, b with GReset, GReset => true | GEff x, GEff y => effect_beq x y | _, _ => false end.
Fixpoint assoc_ge {V} (e : geffect) (l : list (geffect * V)) : option V :=
  match l with [] => None | (k, v) :: r => if geffect_eqb k e then Some v else assoc_ge e r end.
Definition clear_code (e : effect) : option N := assoc_ge (GEff e) gen_clear.   (* EFFECT_CLEAR_DICT[e].value *)

(* ---------- AnsiSetting ---------- *)
Definition valid (t : str) : bool := negb (existsb is_final t).

Inductive item := IInt (z : Z) | IStr (s : str).
Definition norm_item (it : item) : item :=
  match it with
  | IInt z => IInt z
  | IStr s => match parse_int s with Some z => IInt z | None => IStr s end
  end.

(* AnsiSetting.to_list *)
Definition to_list (t : str) : list item := map (fun s => norm_item (IStr (strip_ws s))) (split_char SEMI t).

Definition item_code (it : item) : option N :=
  match it with IInt z => if (0 <=? z)%Z && (z <=? 255)%Z then Some (Z.to_N z) else None | IStr _ => None end.
Fixpoint all_codes (l : list item) : option (list N) :=
  match l with
  | [] => Some []
  | it :: r => match item_code it, all_codes r with Some c, Some cs => Some (c :: cs) | _, _ => None end
  end.

(* the shape test shared by parsable and by the grouping loop; tied to _AnsiControlFn by the
   obligation Proofs/GenTables.ctrl_fns_expected *)
Definition group_ok (g : list N) : bool :=
  match g with
  | [v] => match gen_class v with CSet _ | CClr _ => true | _ => false end
  | [v; 5; _] => match gen_class v with CIntro _ => true | _ => false end
  | [v; 2; _; _; _] => match gen_class v with CIntro _ => true | _ => false end
  | _ => false
  end.

(* as repaired (F21): only decimal digits and ';' - int() alone is more lenient *)
Definition strict_chars (t : str) : bool := forallb (fun c => is_digit c || (c =? SEMI)) t.
Definition parsable (t : str) : bool :=
  valid t && strict_chars t && match all_codes (to_list t) with Some g => group_ok g | None => false end.

(* AnsiSetting.get_initial_param: the AnsiParam of the first ';'-item, if any *)
(* as repaired (F60): only decimal digits, blanks around them tolerated - int() alone would also accept a sign, underscores
   and non-ASCII digits *)
Definition initial_code (t : str) : option N :=
  match split_char SEMI t with
  | s :: _ => let s' := strip_ws s in
              if negb (is_nil s') && forallb is_digit s' then
                match parse_int s' with
                | Some z => if (0 <=? z)%Z then (let c := Z.to_N z in if is_param c then Some c else None) else None
                | None => None end
              else None
  | [] => None
  end.

(* ---------- parse_graphic_sequence (as repaired: F2 items[idx:], F3 '' -> 0, F4 parsable-only) ---------- *)
Definition text_of_items (l : list Z) : str := join [SEMI] (map dec l).

Inductive ik := FnMatch (total : nat) | FnFoundOnly | NotFn.
Definition z_is (it : item) (n : Z) : bool := match it with IInt z => (z =? n)%Z | IStr _ => false end.
Definition item_is_intro (it : item) : bool :=
  match it with IInt z => (0 <=? z)%Z && is_intro (Z.to_N z) | IStr _ => false end.
Definition intro_kind (items : list item) : ik :=
  match items with
  | v :: r => if item_is_intro v then
                match r with
                | x :: _ => if z_is x 5 then FnMatch 3 else if z_is x 2 then FnMatch 5 else FnFoundOnly
                | [] => FnFoundOnly end
              else NotFn
  | [] => NotFn
  end.

Definition keep_group (ae : bool) (g : list Z) : bool :=
  ae || parsable (text_of_items g) || match g with [z] => (z =? 0)%Z | _ => false end.

(* token conversion of parse_graphic_sequence (as repaired, F33): only decimal digits - blanks around them tolerated -
   become a number; int() alone would also accept signs, underscores and non-ASCII digits *)
Definition norm_item_pgs (it : item) : item :=
  match it with
  | IInt z => IInt z
  | IStr s => let s' := strip_ws s in
              if negb (is_nil s') && forallb is_digit s' then norm_item (IStr s') else IStr s
  end.

(* the token loop; left = left_in_set, cur = current_set; output = setting texts, or ValueError
   when an empty string token would have to become a setting.  A token that is not a number ends the set being
   collected (as repaired, F34): the incomplete set is dropped, or reported first when add_erroneous is set *)
Fixpoint pgs_loop (items : list item) (left : nat) (cur : list Z) (ae : bool) : res (list str) :=
  match items with
  | [] => OK (if ae && negb (is_nil cur) then [text_of_items cur] else [])
  | IStr s :: rest =>
      if ae then
        if is_nil s then Err ValueError
        else do r <- pgs_loop rest 0 [] ae; OK ((if is_nil cur then [] else [text_of_items cur]) ++ s :: r)
      else pgs_loop rest 0 [] ae
  | IInt v :: rest =>
      let go (left : nat) :=
        let cur' := cur ++ [v] in
        match left with
        | S (S l) => pgs_loop rest (S l) cur' ae
        | _ => do r <- pgs_loop rest 0 [] ae;
               OK ((if keep_group ae cur' then [text_of_items cur'] else []) ++ r)
        end in
      match cur with
      | [] => match intro_kind items with
              | FnMatch total => go total
              | FnFoundOnly => if ae then go 1%nat else pgs_loop rest 0 [] ae
              | NotFn => go 1%nat end
      | _ => go left
      end
  end.

(* a string item of a list is normalised like a field of the ';'-separated form (as repaired, F36): blanks stripped, empty = 0 *)
Definition prep_item (it : item) : item :=
  match it with
  | IInt z => IInt z
  | IStr s => let s' := strip_ws s in IStr (if is_nil s' then [CH_0] else s')
  end.
Definition pgs_items (items : list item) (ae : bool) : res (list str) :=
  match items with [] => OK [[CH_0]] | _ => pgs_loop (map norm_item_pgs (map prep_item items)) 0 [] ae end.
Definition items_of_str (w : str) : list item :=
  map (fun s => let s' := strip_ws s in IStr (if is_nil s' then [CH_0] else s')) (split_char SEMI w).
Definition pgs_str (w : str) (ae : bool) : res (list str) :=
  match w with [] => OK [[CH_0]] | _ => pgs_loop (map norm_item_pgs (items_of_str w)) 0 [] ae end.
Definition pgs_codes (cs : list N) (ae : bool) : res (list str) :=
  pgs_items (map (fun c => IInt (Z.of_N c)) cs) ae.

(* ---------- settings_to_dict: a Python dict keyed by effect, insertion ordered ---------- *)
Section Dict.
Context {V : Type}.
Definition dict := list (effect * V).
Fixpoint dset (d : dict) (e : effect) (v : V) : dict :=
  match d with
  | [] => [(e, v)]
  | (e', v') :: r => if effect_beq e e' then (e, v) :: r else (e', v') :: dset r e v
  end.
Fixpoint ddel (d : dict) (e : effect) : dict :=
  match d with
  | [] => []
  | (e', v') :: r => if effect_beq e e' then r else (e', v') :: ddel r e
  end.
Fixpoint dget (d : dict) (e : effect) : option V :=
  match d with
  | [] => None
  | (e', v') :: r => if effect_beq e' e then Some v' else dget r e
  end.
Variable txt : V -> str.
Definition s2d_step (d : dict) (v : V) : dict :=
  match initial_code (txt v) with
  | Some c => match gen_class c with
              | CSet e | CIntro e => dset d e v
              | CClr e => ddel d e
              | CReset => []
              | CUnknown => d end
  | None => d
  end.
Definition s2d (l : list V) (d : dict) : dict := fold_left s2d_step l d.
End Dict.
Arguments dict V : clear implicits.

(* AnsiSetting.to_effect *)
Definition to_effect (t : str) : option geffect :=
  match initial_code t with
  | Some c => match gen_class c with
              | CSet e | CIntro e | CClr e => Some (GEff e)
              | CReset => Some GReset
              | CUnknown => None end
  | None => None
  end.
