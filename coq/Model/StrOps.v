(* Model of the str-like editing methods re-implemented on top of slicing and concatenation
   (ansi_string.py: _strip, partition, rpartition, removeprefix, removesuffix, replace,
   expandtabs, _split, splitlines; as repaired F15 F16 F17 F23). *)
From AS Require Import Base.
From AS.Model Require Import Table Ops Parse.

(* ---------- strip family ---------- *)
Fixpoint count_leading (chars : str) (s : str) : nat :=
  match s with c :: r => if mem_char c chars then S (count_leading chars r) else 0 | [] => 0 end.

Definition strip_bounds (s : str) (chars : str) (do_l do_r : bool) : nat * option Z :=
  let lcount := if do_l then count_leading chars s else 0 in
  let rcount :=
    if do_r && (lcount <? length s) then
      let n := count_leading chars (rev s) in
      if Nat.eqb n 0 then None else Some (- Z.of_nat n)%Z
    else None in
  (lcount, rcount).

Definition strip (s : astr) (chars : str) (do_l do_r : bool) : astr :=
  let '(l, r) := strip_bounds (base s) chars do_l do_r in
  getitem_slice s (Some (Z.of_nat l)) r.
(* inplace with nothing to strip returns self untouched *)
Definition strip_is_noop (s : astr) (chars : str) (do_l do_r : bool) : bool :=
  let '(l, r) := strip_bounds (base s) chars do_l do_r in
  Nat.eqb l 0 && match r with None => true | Some _ => false end.

(* ---------- partition / rpartition ---------- *)
Definition partition_at (s : astr) (idx : option nat) (seplen : nat) : astr * astr * astr :=
  match idx with
  | Some i =>
    let e := i + seplen in
    (getitem_slice s (Some 0%Z) (Some (Z.of_nat i)),
     getitem_slice s (Some (Z.of_nat i)) (Some (Z.of_nat e)),
     getitem_slice s (Some (Z.of_nat e)) None)
  | None => (s, mkA [] [], mkA [] [])
  end.
Definition partition (s : astr) (sep : str) := partition_at s (find_from (base s) sep 0) (length sep).
Definition rpartition (s : astr) (sep : str) := partition_at s (rfind (base s) sep) (length sep).

(* ---------- removeprefix / removesuffix ---------- *)
Definition removeprefix (s : astr) (p : str) : astr :=
  if starts_with (base s) p then getitem_slice s (Some (Z.of_nat (length p))) None else s.
Definition removesuffix (s : astr) (p : str) : astr :=
  if is_nil p || negb (ends_with (base s) p) then s
  else getitem_slice s None (Some (- Z.of_nat (length p))%Z).

(* ---------- replace ---------- *)
Inductive repl :=
| RStr (raw : str)          (* a plain str: parsed, then given the settings of the match's first character *)
| RObj (a : astr).          (* an AnsiString / AnsiStr: its own settings; len(new) = len of its text *)

Definition repl_len (r : repl) : nat := match r with RStr raw => length raw | RObj a => length (base a) end.

Definition repl_value (obj : astr) (idx : nat) (r : repl) (nid : nat) : astr * nat :=
  match r with
  | RObj a => (a, nid)
  | RStr raw =>
    let '(p, nid) := parse raw nid in
    let texts := map stxt (settings_at_nat obj idx) in
    if is_nil texts then (p, nid)
    else let '(news, nid) := fresh texts nid in (apply_fmt p news (Some 0%Z) None true, nid)
  end.

Fixpoint replace_loop (fuel : nat) (obj : astr) (old : str) (r : repl) (count : Z) (idx : option nat) (nid : nat)
  : res (astr * nat) :=
  match fuel with
  | O => Err ValueError      (* out of fuel: excluded by replace_fuel_enough *)
  | S f =>
    match idx with
    | None => OK (obj, nid)
    | Some i =>
      if (count =? 0)%Z then OK (obj, nid)
      else
        let '(rv, nid) := repl_value obj i r nid in
        do lft <- add (getitem_slice obj None (Some (Z.of_nat i))) rv;
        do obj' <- add lft (getitem_slice obj (Some (Z.of_nat (i + length old))) None);
        let count' := if (0 <? count)%Z then (count - 1)%Z else count in
        let start := i + length (base rv) + (if is_nil old then 1 else 0) in      (* as repaired, F27 *)
        replace_loop f obj' old r count' (find_from (base obj') old start) nid
    end
  end.

Definition replace (s : astr) (old : str) (r : repl) (count : Z) (nid : nat) : res (astr * nat) :=
  replace_loop (length (base s) + 2) s old r count (find_from (base s) old 0) nid.

(* ---------- split / rsplit with an explicit separator ---------- *)
Fixpoint split_fuel (fuel : nat) (s sep : str) (maxsplit : Z) : list str :=
  match fuel with
  | O => [s]
  | S f =>
    if (maxsplit =? 0)%Z then [s]
    else match find_from s sep 0 with
         | None => [s]
         | Some i => firstn i s :: split_fuel f (skipn (i + length sep) s) sep (maxsplit - 1)
         end
  end.
Definition py_split (s sep : str) (maxsplit : Z) : list str := split_fuel (S (length s)) s sep maxsplit.
Definition py_rsplit (s sep : str) (maxsplit : Z) : list str :=
  rev (map (@rev char) (py_split (rev s) (rev sep) maxsplit)).

(* pieces located cumulatively (explicit separator) *)
Fixpoint slices_cumulative (s : astr) (pieces : list str) (seplen : nat) (idx : nat) : list astr :=
  match pieces with
  | [] => []
  | p :: r => getitem_slice s (Some (Z.of_nat idx)) (Some (Z.of_nat (idx + length p)))
              :: slices_cumulative s r seplen (idx + length p + seplen)
  end.
(* pieces located with find (sep=None, splitlines); pieces come from Python's str itself *)
Fixpoint slices_by_find (s : astr) (pieces : list str) (idx : nat) : list astr :=
  match pieces with
  | [] => []
  | p :: r =>
    (* str.find returns -1 when absent: cannot happen for genuine pieces; model -1 as Python does *)
    match find_from (base s) p idx with
    | Some i => getitem_slice s (Some (Z.of_nat i)) (Some (Z.of_nat (i + length p)))
                :: slices_by_find s r (i + length p)
    | None => getitem_slice s (Some (-1)%Z) (Some (Z.of_nat (length p) - 1)%Z)
              :: slices_by_find s r (length p - 1)
    end
  end.

Definition split_sep (s : astr) (sep : str) (maxsplit : Z) (right : bool) : res (list astr) :=
  if is_nil sep then Err ValueError
  else OK (slices_cumulative s ((if right then py_rsplit else py_split) (base s) sep maxsplit) (length sep) 0).
