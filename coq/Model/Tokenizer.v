(* Model of ParsedAnsiControlSequenceString (ansi_parsing.py) and of the cursor/erase/scroll
   helpers (ansi_string.py:42-135). *)
From AS Require Import Base.
Local Open Scope N_scope.


Record cseq := { cs_body : str; cs_term : option char }.     (* None = unterminated *)

Fixpoint span_body (s : str) : str * str :=
  match s with
  | [] => ([], [])
  | c :: r => if is_final c then ([], s) else let '(b, r') := span_body r in (c :: b, r')
  end.

Inductive tok := TChar (c : char) | TSeq (q : cseq).

(* (terminator or allow_empty_terminator) and (acceptable is None or terminator in acceptable);
   note '' in acceptable is True in Python *)
Definition accept (allow_empty : bool) (acc : option str) (t : option char) : bool :=
  (match t with Some _ => true | None => allow_empty end) &&
  (match acc with
   | None => true
   | Some l => match t with Some c => mem_char c l | None => true end
   end).

Definition term_chars (t : option char) : str := match t with Some x => [x] | None => [] end.

Fixpoint tokenize_fuel (fuel : nat) (ae : bool) (acc : option str) (s : str) : list tok :=
  match fuel with
  | O => []
  | S f =>
    match s with
    | [] => []
    | c1 :: r1 =>
      match r1 with
      | c2 :: r2 =>
        if (c1 =? ESC) && (c2 =? LBR) then
          let '(b, r3) := span_body r2 in
          let '(t, r4) := match r3 with [] => (None, []) | t :: r4 => (Some t, r4) end in
          if accept ae acc t then TSeq {| cs_body := b; cs_term := t |} :: tokenize_fuel f ae acc r4
          else map TChar (ESC :: LBR :: b ++ term_chars t) ++ tokenize_fuel f ae acc r4
        else TChar c1 :: tokenize_fuel f ae acc r1
      | [] => [TChar c1]
      end
    end
  end.
Definition tokenize (ae : bool) (acc : option str) (s : str) : list tok := tokenize_fuel (length s) ae acc s.

Definition render_seq (q : cseq) : str := ESC :: LBR :: cs_body q ++ term_chars (cs_term q).
Definition render_tok (t : tok) : str := match t with TChar c => [c] | TSeq q => render_seq q end.
Definition render_toks (l : list tok) : str := flat_map render_tok l.

(* unformatted_str *)
Definition unformatted (l : list tok) : str :=
  flat_map (fun t => match t with TChar c => [c] | TSeq _ => [] end) l.

(* the sequences dict: removal point -> sequences removed there, in order of insertion (increasing) *)
Fixpoint seq_add (k : nat) (q : cseq) (d : list (nat * list cseq)) : list (nat * list cseq) :=
  match d with
  | [] => [(k, [q])]
  | (k', l) :: r => if Nat.eqb k k' then (k', l ++ [q]) :: r else (k', l) :: seq_add k q r
  end.
Fixpoint sequences_from (l : list tok) (pos : nat) (d : list (nat * list cseq)) : list (nat * list cseq) :=
  match l with
  | [] => d
  | TChar _ :: r => sequences_from r (S pos) d
  | TSeq q :: r => sequences_from r pos (seq_add pos q d)
  end.
Definition sequences (l : list tok) : list (nat * list cseq) := sequences_from l 0 [].

(* formatted_str (as repaired, F22): re-insert every sequence, terminator included, at its point *)
Fixpoint formatted_loop (u : str) (d : list (nat * cseq)) (last : nat) : str :=
  match d with
  | [] => skipn last u
  | (k, q) :: r => str_slice u last k ++ render_seq q ++ formatted_loop u r k
  end.
Definition flat_sequences (d : list (nat * list cseq)) : list (nat * cseq) :=
  flat_map (fun kv => map (fun q => (fst kv, q)) (snd kv)) d.
Definition formatted (l : list tok) : str := formatted_loop (unformatted l) (flat_sequences (sequences l)) 0.

(* cursor_* / erase_* / scroll_* helpers *)
Definition helper1 (n : Z) (final : char) : str := ESC :: LBR :: dec n ++ [final].
Definition helper2 (r c : Z) (final : char) : str := ESC :: LBR :: dec r ++ [SEMI] ++ dec c ++ [final].
