(* An operation language over a pool of AnsiString / AnsiStr objects, with its wire format
   (S-expressions) - the executable model that the correspondence check runs side by side with
   the implementation.  exec never mutates anything but the target of an in-place operation:
   value semantics hold here by construction; what is CHECKED is that the implementation
   behaves the same on whole pools. *)
From AS Require Import Base Effects.
From AS.Spec Require Import Terminal.
From AS.Gen Require Consts.
From AS.Model Require Import Sgr Tokenizer Table Ops Render Scrub Parse StrOps FormatSpec.
Local Open Scope Z_scope.

Inductive kind := KString | KStr.                    (* AnsiString | AnsiStr *)
Record obj := mkO { o_kind : kind; o_val : astr; o_payload : str }.
Record pool := mkPool { objs : list obj; next_id : nat }.
Definition empty_pool : pool := mkPool [] 0.

Definition mk_obj (k : kind) (a : astr) : obj :=
  mkO k a (match k with KStr => render a | KString => [] end).

Definition get (p : pool) (i : nat) : option obj := nth_error (objs p) i.
Definition push (p : pool) (o : obj) : pool * nat := (mkPool (objs p ++ [o]) (next_id p), length (objs p)).
Definition put (p : pool) (i : nat) (o : obj) : pool := mkPool (set_nth i o (objs p)) (next_id p).
Definition with_id (p : pool) (n : nat) : pool := mkPool (objs p) n.

(* result of a step: indices of the returned objects and an extra observation *)
Definition step_res := res (pool * list nat * sx).

(* store the result of a method: in place (AnsiString with inplace=True) or as a new object *)
Definition store (p : pool) (i : nat) (o : obj) (inplace : bool) (a : astr) : step_res :=
  match o_kind o with
  | KString => if inplace then OK (put p i (mk_obj KString a), [i], L [])
               else let '(p', j) := push p (mk_obj KString a) in OK (p', [j], L [])
  | KStr => let '(p', j) := push p (mk_obj KStr a) in OK (p', [j], L [])
  end.
Definition store_many (p : pool) (k : kind) (l : list astr) : step_res :=
  let '(p', idxs) := fold_left (fun '(p, acc) a => let '(p', j) := push p (mk_obj k a) in (p', acc ++ [j])) l (p, []) in
  OK (p', idxs, L []).

(* ---------- decoding ---------- *)
Fixpoint form_of_sx (x : sx) : form :=
  match x with
  | L [A 0; n] => FMember (str_of_sx n)
  | L [A 1; s] => FStr (str_of_sx s)
  | L [A 2; A z] => FInt z
  | L [A 3; s] => FSetting (str_of_sx s)
  | L [A 4; L l] => FList (map form_of_sx l)
  | L [A 5] => FSelfRef
  | L [A 6; A t] => FOther (negb (t =? 0))
  | _ => FOther true
  end.
Definition optstr_of_sx (x : sx) : option str := match x with L [s] => Some (str_of_sx s) | _ => None end.
Definition optform_of_sx (x : sx) : option form := match x with L [f] => Some (form_of_sx f) | _ => None end.

(* apply_formatting(settings, start, end, topmost) on a value, allocating identities *)
Definition do_apply (a : astr) (f : form) (st en : option Z) (top : bool) (nid : nat) : res (astr * nat) :=
  let len := length (base a) in
  if form_falsy f || range_empty len (slice_idx len st 0) (slice_idx len en len) then OK (a, nid)
  else do texts <- scrub f;
       let '(news, nid') := fresh texts nid in
       OK (apply_fmt a news st en top, nid').

Definition do_remove (a : astr) (f : option form) (st en : option Z) : res astr :=
  let len := length (base a) in
  let falsy := match f with Some f => form_falsy f | None => false end in
  if falsy || range_empty len (slice_idx len st 0) (slice_idx len en len) then OK a
  else match f with
       | None => OK (remove_fmt a None st en)
       | Some f => do texts <- scrub f; OK (remove_fmt a (Some texts) st en)
       end.

(* AnsiString(text, *settings) *)
Definition construct (text : str) (forms : list form) (nid : nat) : res (astr * nat) :=
  let '(a, nid) := parse text nid in
  if is_nil forms then OK (a, nid) else do_apply a (FList forms) None None true nid.

Definition operand (p : pool) (x : sx) (nid : nat) : res (astr * nat) :=
  (* an object index (A i) or a plain str (L [str]) which __iadd__ parses *)
  match x with
  | A i => match get p (Z.to_nat i) with Some o => OK (o_val o, nid) | None => Err TypeError end
  | L [s] => OK (parse (str_of_sx s) nid)
  | _ => Err TypeError
  end.

Definition one_char (s : str) : res char := match s with [c] => OK c | _ => Err ValueError end.

(* ---------- observations ---------- *)
Definition sx_of_setting (x : setting) : sx := L [sx_of_nat (sid x); sx_of_str (stxt x)].
Definition flags8 : list (bool * bool * bool) :=
  [(true, false, true); (true, false, false); (true, true, true); (true, true, false);
   (false, false, true); (false, false, false); (false, true, true); (false, true, false)].
Definition probe (a : astr) : sx :=
  match iadd a (plain [120%N]) with
  | OK r => L (map sx_of_setting (settings_at_nat r (length (base a))))
  | Err _ => A (-1)
  end.
Definition obs_obj (o : obj) : sx :=
  let a := o_val o in
  L [ A (match o_kind o with KString => 0 | KStr => 1 end);
      sx_of_str (base a);
      L (map (fun i => L (map sx_of_setting (settings_at_nat a i))) (seq 0 (length (base a))));
      L (map (fun '(o_, rs, re) => sx_of_str (to_str a o_ rs re)) flags8);
      sx_of_bool (is_valid_tbl (tbl a));
      sx_of_bool (is_parsable_tbl (tbl a));
      sx_of_bool (strict_ok (tbl a));
      probe a;
      sx_of_str (o_payload o);
      L (map (fun kp => L [sx_of_nat (fst kp); L (map sx_of_setting (padd (snd kp))); L (map sx_of_setting (prem (snd kp)))]) (tbl a)) ].

(* ---------- the step function: one definition per operation ---------- *)
  (* 0: New kind text forms *)
Definition op_0 (p : pool) (nid : nat) (args : list sx) : step_res :=
  match args with
  | [A k; text; L forms] =>
    do (a, nid') <- construct (str_of_sx text) (map form_of_sx forms) nid;
    let '(p', j) := push (with_id p nid') (mk_obj (if k =? 0 then KString else KStr) a) in
    OK (p', [j], L [])
  | _ => Err TypeError
  end.

  (* 1: From kind i forms  (copy / conversion constructor) *)
Definition op_1 (p : pool) (nid : nat) (args : list sx) : step_res :=
  match args with
  | [A k; A i; L forms] =>
    match get p (Z.to_nat i) with
    | None => Err TypeError
    | Some o =>
      do (a, nid') <- (if is_nil forms then OK (o_val o, nid)
                        else do_apply (o_val o) (FList (map form_of_sx forms)) None None true nid);
      let '(p', j) := push (with_id p nid') (mk_obj (if k =? 0 then KString else KStr) a) in
      OK (p', [j], L [])
    end
  | _ => Err TypeError
  end.

  (* 2: Apply i form st en top *)
Definition op_2 (p : pool) (nid : nat) (args : list sx) : step_res :=
  match args with
  | [A i; f; st; en; top] =>
    match get p (Z.to_nat i) with
    | None => Err TypeError
    | Some o =>
      do (a, nid') <- do_apply (o_val o) (form_of_sx f) (optz_of_sx st) (optz_of_sx en) (bool_of_sx top) nid;
      store (with_id p nid') (Z.to_nat i) o true a
    end
  | _ => Err TypeError
  end.

  (* 3: Remove i optform st en *)
Definition op_3 (p : pool) (nid : nat) (args : list sx) : step_res :=
  match args with
  | [A i; f; st; en] =>
    match get p (Z.to_nat i) with
    | None => Err TypeError
    | Some o =>
      do a <- do_remove (o_val o) (optform_of_sx f) (optz_of_sx st) (optz_of_sx en);
      store p (Z.to_nat i) o true a
    end
  | _ => Err TypeError
  end.

  (* 4: Clear i *)
Definition op_4 (p : pool) (nid : nat) (args : list sx) : step_res :=
  match args with
  | [A i] =>
    match get p (Z.to_nat i) with
    | None => Err TypeError
    | Some o =>
      match o_kind o with
      | KString => store p (Z.to_nat i) o true (clear_fmt (o_val o))
      | KStr => store p (Z.to_nat i) o true (clear_fmt (o_val o))    (* as repaired (F44): a cleared copy, not a re-parse of the text *)
      end
    end
  | _ => Err TypeError
  end.

  (* 5: Slice i a b *)
Definition op_5 (p : pool) (nid : nat) (args : list sx) : step_res :=
  match args with
  | [A i; a; b] =>
    match get p (Z.to_nat i) with
    | None => Err TypeError
    | Some o => store p (Z.to_nat i) o false (getitem_slice (o_val o) (optz_of_sx a) (optz_of_sx b))
    end
  | _ => Err TypeError
  end.

  (* 6: Index i k *)
Definition op_6 (p : pool) (nid : nat) (args : list sx) : step_res :=
  match args with
  | [A i; A k] =>
    match get p (Z.to_nat i) with
    | None => Err TypeError
    | Some o => do a <- getitem_int (o_val o) k; store p (Z.to_nat i) o false a
    end
  | _ => Err TypeError
  end.

  (* 7: Clip i a b inplace *)
Definition op_7 (p : pool) (nid : nat) (args : list sx) : step_res :=
  match args with
  | [A i; a; b; ip] =>
    match get p (Z.to_nat i) with
    | None => Err TypeError
    | Some o => store p (Z.to_nat i) o (bool_of_sx ip) (getitem_slice (o_val o) (optz_of_sx a) (optz_of_sx b))
    end
  | _ => Err TypeError
  end.

  (* 8: Add i operand ; 9: IAdd i operand *)
Definition op_8 (p : pool) (nid : nat) (args : list sx) : step_res :=
  match args with
  | [A i; x] =>
    match get p (Z.to_nat i) with
    | None => Err TypeError
    | Some o =>
      do (b, nid') <- operand p x nid;
      do r <- add (o_val o) b;
      store (with_id p nid') (Z.to_nat i) o false r
    end
  | _ => Err TypeError
  end.

Definition op_9 (p : pool) (nid : nat) (args : list sx) : step_res :=
  match args with
  | [A i; x] =>
    match get p (Z.to_nat i) with
    | None => Err TypeError
    | Some o =>
      do (b, nid') <- operand p x nid;
      do r <- iadd (o_val o) b;
      store (with_id p nid') (Z.to_nat i) o true r
    end
  | _ => Err TypeError
  end.

  (* 10: Join kind operands *)
Definition op_10 (p : pool) (nid : nat) (args : list sx) : step_res :=
  match args with
  | [A k; L xs] =>
    do (vals, nid') <- fold_left (fun acc x => do (l, n) <- acc; do (v, n') <- operand p x n; OK (l ++ [v], n'))
                                  xs (OK ([], nid));
    do r <- join_astr vals;
    let '(p', j) := push (with_id p nid') (mk_obj (if k =? 0 then KString else KStr) r) in
    OK (p', [j], L [])
  | _ => Err TypeError
  end.

  (* 11: Pad which i width fill inplace ext   (0 ljust, 1 rjust, 2 center) *)
Definition op_11 (p : pool) (nid : nat) (args : list sx) : step_res :=
  match args with
  | [A which; A i; A w; fill; ip; ext] =>
    match get p (Z.to_nat i) with
    | None => Err TypeError
    | Some o =>
      do c <- one_char (str_of_sx fill);
      let e := bool_of_sx ext in
      let a := o_val o in
      store p (Z.to_nat i) o (bool_of_sx ip)
            (if which =? 0 then ljust a w c e else if which =? 1 then rjust a w c e else center a w c e)
    end
  | _ => Err TypeError
  end.

  (* 12: Replace i old new count inplace ; new = A j | L [str] *)
Definition op_12 (p : pool) (nid : nat) (args : list sx) : step_res :=
  match args with
  | [A i; old; new; A count; ip] =>
    match get p (Z.to_nat i) with
    | None => Err TypeError
    | Some o =>
      do r <- match new with
              | A j => match get p (Z.to_nat j) with Some oj => OK (RObj (o_val oj)) | None => Err TypeError end
              | L [s] => OK (RStr (str_of_sx s))
              | _ => Err TypeError end;
      do (a, nid') <- replace (o_val o) (str_of_sx old) r count nid;
      store (with_id p nid') (Z.to_nat i) o (bool_of_sx ip) a
    end
  | _ => Err TypeError
  end.

  (* 13: Strip i optchars do_l do_r inplace *)
Definition op_13 (p : pool) (nid : nat) (args : list sx) : step_res :=
  match args with
  | [A i; chars; dl; dr; ip] =>
    match get p (Z.to_nat i) with
    | None => Err TypeError
    | Some o =>
      let cs := match optstr_of_sx chars with Some c => c | None => AS.Gen.Consts.gen_whitespace_chars end in
      let a := o_val o in
      if bool_of_sx ip && strip_is_noop a cs (bool_of_sx dl) (bool_of_sx dr)
      then store p (Z.to_nat i) o true a
      else store p (Z.to_nat i) o (bool_of_sx ip) (strip a cs (bool_of_sx dl) (bool_of_sx dr))
    end
  | _ => Err TypeError
  end.

  (* 14: RemovePrefix i s inplace ; 15: RemoveSuffix *)
Definition op_14 (p : pool) (nid : nat) (args : list sx) : step_res :=
  match args with
  | [A i; s; ip] =>
    match get p (Z.to_nat i) with
    | None => Err TypeError
    | Some o => store p (Z.to_nat i) o (bool_of_sx ip) (removeprefix (o_val o) (str_of_sx s))
    end
  | _ => Err TypeError
  end.

Definition op_15 (p : pool) (nid : nat) (args : list sx) : step_res :=
  match args with
  | [A i; s; ip] =>
    match get p (Z.to_nat i) with
    | None => Err TypeError
    | Some o => store p (Z.to_nat i) o (bool_of_sx ip) (removesuffix (o_val o) (str_of_sx s))
    end
  | _ => Err TypeError
  end.

  (* 16: SplitSep i sep maxsplit right *)
Definition op_16 (p : pool) (nid : nat) (args : list sx) : step_res :=
  match args with
  | [A i; sep; A m; r] =>
    match get p (Z.to_nat i) with
    | None => Err TypeError
    | Some o => do l <- split_sep (o_val o) (str_of_sx sep) m (bool_of_sx r); store_many p (o_kind o) l
    end
  | _ => Err TypeError
  end.

  (* 17: SplitPieces i pieces   (sep=None / splitlines: piece texts supplied by Python's str) *)
Definition op_17 (p : pool) (nid : nat) (args : list sx) : step_res :=
  match args with
  | [A i; L pieces] =>
    match get p (Z.to_nat i) with
    | None => Err TypeError
    | Some o => store_many p (o_kind o) (slices_by_find (o_val o) (map str_of_sx pieces) 0)
    end
  | _ => Err TypeError
  end.

  (* 18: Partition i sep right *)
Definition op_18 (p : pool) (nid : nat) (args : list sx) : step_res :=
  match args with
  | [A i; sep; r] =>
    match get p (Z.to_nat i) with
    | None => Err TypeError
    | Some o =>
      let '(x, y, z) := (if bool_of_sx r then rpartition else partition) (o_val o) (str_of_sx sep) in
      store_many p (o_kind o) [x; y; z]
    end
  | _ => Err TypeError
  end.

  (* 19: Assign i text *)
Definition op_19 (p : pool) (nid : nat) (args : list sx) : step_res :=
  match args with
  | [A i; t] =>
    match get p (Z.to_nat i) with
    | None => Err TypeError
    | Some o => store p (Z.to_nat i) o true (assign (o_val o) (str_of_sx t))
    end
  | _ => Err TypeError
  end.

  (* 20: Case i newtext inplace   (text supplied by Python's str method) *)
Definition op_20 (p : pool) (nid : nat) (args : list sx) : step_res :=
  match args with
  | [A i; t; ip] =>
    match get p (Z.to_nat i) with
    | None => Err TypeError
    | Some o => store p (Z.to_nat i) o (bool_of_sx ip) (mkA (str_of_sx t) (tbl (o_val o)))
    end
  | _ => Err TypeError
  end.

  (* 21: Simplify i *)
Definition op_21 (p : pool) (nid : nat) (args : list sx) : step_res :=
  match args with
  | [A i] =>
    match get p (Z.to_nat i) with
    | None => Err TypeError
    | Some o => let '(a, nid') := simplify (o_val o) nid in store (with_id p nid') (Z.to_nat i) o true a
    end
  | _ => Err TypeError
  end.

  (* 22: FormatMatching i spans form ; spans = L [L [A s; A e]; ...] already cut to count *)
Definition op_22 (p : pool) (nid : nat) (args : list sx) : step_res :=
  match args with
  | [A i; L spans; f] =>
    match get p (Z.to_nat i) with
    | None => Err TypeError
    | Some o =>
      do (a, nid') <- fold_left (fun acc sp =>
                                    do (a, n) <- acc;
                                    match sp with
                                    | L [A s; A e] => do_apply a (form_of_sx f) (Some s) (Some e) true n
                                    | _ => Err TypeError end) spans (OK (o_val o, nid));
      store (with_id p nid') (Z.to_nat i) o true a
    end
  | _ => Err TypeError
  end.

  (* 23: UnformatMatching i spans optform *)
Definition op_23 (p : pool) (nid : nat) (args : list sx) : step_res :=
  match args with
  | [A i; L spans; f] =>
    match get p (Z.to_nat i) with
    | None => Err TypeError
    | Some o =>
      do a <- fold_left (fun acc sp =>
                           do a <- acc;
                           match sp with
                           | L [A s; A e] => do_remove a (optform_of_sx f) (Some s) (Some e)
                           | _ => Err TypeError end) spans (OK (o_val o));
      store p (Z.to_nat i) o true a
    end
  | _ => Err TypeError
  end.

  (* 24: ToStr i optspec optimize reset_start reset_end : observation only *)
Definition op_24 (p : pool) (nid : nat) (args : list sx) : step_res :=
  match args with
  | [A i; spec; o_; rs; re] =>
    match get p (Z.to_nat i) with
    | None => Err TypeError
    | Some o =>
      do s <- to_str_spec (o_val o) (optstr_of_sx spec) (bool_of_sx o_) (bool_of_sx rs) (bool_of_sx re) nid;
      OK (p, [], sx_of_str s)
    end
  | _ => Err TypeError
  end.

  (* 25: SettingsAt i k *)
Definition op_25 (p : pool) (nid : nat) (args : list sx) : step_res :=
  match args with
  | [A i; A k] =>
    match get p (Z.to_nat i) with
    | None => Err TypeError
    | Some o => OK (p, [], L (map sx_of_setting (settings_at (o_val o) k)))
    end
  | _ => Err TypeError
  end.

  (* 26: FindSettings i form st en reverse *)
Definition op_26 (p : pool) (nid : nat) (args : list sx) : step_res :=
  match args with
  | [A i; f; st; en; r] =>
    match get p (Z.to_nat i) with
    | None => Err TypeError
    | Some o =>
      let a := o_val o in
      let len := length (base a) in
      if Nat.ltb (slice_idx len (optz_of_sx en) len) (slice_idx len (optz_of_sx st) 0) then OK (p, [], L [L []; L []])
      else do texts <- scrub (form_of_sx f);
           let '(x, y) := find_settings a texts (optz_of_sx st) (optz_of_sx en) (bool_of_sx r) in
           OK (p, [], L [sx_of_optnat x; sx_of_optnat y])
    end
  | _ => Err TypeError
  end.

  (* 27: Eq i j *)
Definition op_27 (p : pool) (nid : nat) (args : list sx) : step_res :=
  match args with
  | [A i; A j] =>
    match get p (Z.to_nat i), get p (Z.to_nat j) with
    | Some a, Some b =>
      OK (p, [], sx_of_bool
            match o_kind a, o_kind b with
            | KString, KString => astr_eqb (o_val a) (o_val b)
            | KStr, KStr => astr_eqb (o_val a) (o_val b)      (* as repaired (F52): text and settings, like AnsiString *)
            | KString, KStr => false          (* AnsiString.__eq__(AnsiStr): not an AnsiString *)
            | KStr, KString => false end)
    | _, _ => Err TypeError
    end
  | _ => Err TypeError
  end.

  (* 28: Iter i : the characters as objects *)
Definition op_28 (p : pool) (nid : nat) (args : list sx) : step_res :=
  match args with
  | [A i] =>
    match get p (Z.to_nat i) with
    | None => Err TypeError
    | Some o => store_many p (o_kind o) (iterate (o_val o))
    end
  | _ => Err TypeError
  end.

Definition exec (p : pool) (op : sx) : step_res :=
  let nid := next_id p in
  match op with
  | L (A c :: args) =>
    if c =? 0 then op_0 p nid args
    else if c =? 1 then op_1 p nid args
    else if c =? 2 then op_2 p nid args
    else if c =? 3 then op_3 p nid args
    else if c =? 4 then op_4 p nid args
    else if c =? 5 then op_5 p nid args
    else if c =? 6 then op_6 p nid args
    else if c =? 7 then op_7 p nid args
    else if c =? 8 then op_8 p nid args
    else if c =? 9 then op_9 p nid args
    else if c =? 10 then op_10 p nid args
    else if c =? 11 then op_11 p nid args
    else if c =? 12 then op_12 p nid args
    else if c =? 13 then op_13 p nid args
    else if c =? 14 then op_14 p nid args
    else if c =? 15 then op_15 p nid args
    else if c =? 16 then op_16 p nid args
    else if c =? 17 then op_17 p nid args
    else if c =? 18 then op_18 p nid args
    else if c =? 19 then op_19 p nid args
    else if c =? 20 then op_20 p nid args
    else if c =? 21 then op_21 p nid args
    else if c =? 22 then op_22 p nid args
    else if c =? 23 then op_23 p nid args
    else if c =? 24 then op_24 p nid args
    else if c =? 25 then op_25 p nid args
    else if c =? 26 then op_26 p nid args
    else if c =? 27 then op_27 p nid args
    else if c =? 28 then op_28 p nid args
    else Err TypeError
  | _ => Err TypeError
  end.

(* ---------- running a history ---------- *)
Definition errcode (e : err) : Z := match e with TypeError => 1 | ValueError => 2 | IndexError => 3 end.

(* which objects differ (structurally) between two pools; new objects always count *)
Definition setting_same (a b : setting) : bool := Nat.eqb (sid a) (sid b) && str_eqb (stxt a) (stxt b).
Definition point_same (a b : point) : bool :=
  list_eqb setting_same (padd a) (padd b) && list_eqb setting_same (prem a) (prem b).
Definition astr_same (a b : astr) : bool :=
  str_eqb (base a) (base b)
  && list_eqb (fun x y => Nat.eqb (fst x) (fst y) && point_same (snd x) (snd y)) (tbl a) (tbl b).
Definition obj_same (a b : obj) : bool :=
  match o_kind a, o_kind b with KString, KString | KStr, KStr => true | _, _ => false end
  && astr_same (o_val a) (o_val b) && str_eqb (o_payload a) (o_payload b).

Fixpoint changed_from (i : nat) (old new : list obj) : list (nat * obj) :=
  match new with
  | [] => []
  | n :: nr =>
    match old with
    | o :: or => (if obj_same o n then [] else [(i, n)]) ++ changed_from (S i) or nr
    | [] => (i, n) :: changed_from (S i) [] nr
    end
  end.

Definition step_out (p : pool) (op : sx) : pool * sx :=
  match exec p op with
  | Err e => (p, L [A 1; A (errcode e)])
  | OK (p', idxs, extra) =>
    (p', L [A 0; L (map sx_of_nat idxs); extra;
            L (map (fun io => L [sx_of_nat (fst io); obs_obj (snd io)]) (changed_from 0 (objs p) (objs p')))])
  end.

Fixpoint run_history (p : pool) (ops : list sx) : list sx :=
  match ops with
  | [] => []
  | op :: r => let '(p', out) := step_out p op in out :: run_history p' r
  end.
