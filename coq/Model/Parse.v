(* Model of AnsiString.set_ansi_str (as repaired F20: changed settings applied in sequence
   order) and simplify (ansi_string.py:240-291). *)
From AS Require Import Base Effects.
From AS.Model Require Import Sgr Tokenizer Table Ops Render.

(* fresh AnsiSetting objects for a list of texts *)
Definition fresh (texts : list str) (nid : nat) : list setting * nat :=
  (map (fun it => mkS (nid + fst it) (snd it)) (combine (seq 0 (length texts)) texts), nid + length texts).

Definition vset := (nat * str)%type.          (* a setting inside the effect dictionary: (identity, text) *)

Definition effect_of (t : str) : option effect :=
  match to_effect t with Some (GEff e) => Some e | _ => None end.

(* one SGR sequence at index key *)
Definition parse_step (s : astr) (cur : dict vset) (key : nat) (body : str) (nid : nat)
  : astr * dict vset * nat :=
  match pgs_str body false with
  | Err _ => (s, cur, nid)
  | OK texts =>
    let settings : list vset := combine (seq nid (length texts)) texts in
    let nid := nid + length texts in
    let new := s2d (@snd nat str) settings cur in
    let '(to_rem, to_app) :=
      fold_left (fun '(rm, ap) (sv : vset) =>
                   match effect_of (snd sv) with
                   | Some e =>
                     match dget new e with
                     | Some v => if Nat.eqb (fst v) (fst sv) then
                                   match dget cur e with
                                   | Some o => if str_eqb (snd o) (snd sv) then (rm, ap)
                                               else (rm ++ [snd o], ap ++ [snd sv])
                                   | None => (rm, ap ++ [snd sv]) end
                                 else (rm, ap)
                     | None => (rm, ap) end
                   | None => (rm, ap) end) settings ([], []) in
    let to_rem := to_rem ++ flat_map (fun kv => match dget new (fst kv) with
                                                | Some _ => [] | None => [snd (snd kv)] end) cur in
    let s1 := if is_nil to_rem then s else remove_fmt s (Some to_rem) (Some (Z.of_nat key)) None in
    let '(news, nid) := if is_nil to_app then ([], nid) else fresh to_app nid in
    let s2 := if is_nil to_app then s1 else apply_fmt s1 news (Some (Z.of_nat key)) None true in
    (s2, new, nid)
  end.

Definition parse (w : str) (nid : nat) : astr * nat :=
  let toks := tokenize false (Some [CH_m]) w in
  let text := unformatted toks in
  let seqs := flat_sequences (sequences toks) in
  let '(s, _, nid) :=
    fold_left (fun '(s, cur, nid) kq =>
                 if length text <=? fst kq then (s, cur, nid)
                 else parse_step s cur (fst kq) (cs_body (snd kq)) nid)
              seqs (mkA text [], [], nid) in
  (s, nid).

Definition drop_invalid (t : fmts) : fmts :=
  map (fun kp => (fst kp, mkP (filter (fun x => valid (stxt x)) (padd (snd kp)))
                              (filter (fun x => valid (stxt x)) (prem (snd kp))))) t.

Definition simplify (s : astr) (nid : nat) : astr * nat :=
  parse (render (mkA (base s) (drop_invalid (tbl s)))) nid.
