(* Model of the table-rewriting operations of AnsiString (ansi_string.py):
   apply_formatting, remove_formatting, __getitem__/clip, __iadd__/__add__/join, padding,
   assign_str, find_settings.  Settings arrive already scrubbed (Model/Scrub.v) and, for
   apply_formatting, already carrying fresh identities (make_unique=True). *)
From AS Require Import Base.
From AS.Model Require Import Table.

(* ---------- apply_formatting (as repaired: F8 clamp, F9 identity + order) ---------- *)
Fixpoint insert_at {A} (n : nat) (x : list A) (l : list A) : list A :=
  match n, l with
  | O, _ => x ++ l
  | S n', [] => x
  | S n', y :: r => y :: insert_at n' x r
  end.

Definition apply_core (s : astr) (new : list setting) (start en : nat) (top : bool) : astr :=
  let t := tensure start (tbl s) in
  let p := tget_or_empty start t in
  let p1 := if top then mkP (padd p ++ new) (prem p) else mkP (new ++ padd p) (prem p) in
  let t1 := tput start p1 t in
  let t2 :=
    if top then t1 else
      let at_start := active_at t1 start in
      let carried := filter (fun x => negb (in_ref x (padd p1))) at_start in
      if is_nil carried then t1
      else tput start (mkP (insert_at (length new) carried (padd p1)) (prem p1 ++ carried)) t1 in
  let t3 := tensure en t2 in
  let q := tget_or_empty en t3 in
  let q1 := if top then mkP (padd q) (prem q ++ new) else mkP (padd q) (new ++ prem q) in
  mkA (base s) (tput en q1 t3).

(* range test shared by apply/remove: "start >= len(self._s) or end <= start" *)
Definition range_empty (len start en : nat) : bool := (len <=? start) || (en <=? start).

Definition apply_fmt (s : astr) (new : list setting) (st en : option Z) (top : bool) : astr :=
  let len := length (base s) in
  let start := slice_idx len st 0 in
  let e := slice_idx len en len in
  if range_empty len start e || is_nil new then s else apply_core s new start e top.

(* ---------- remove_formatting (as repaired: F8 clamp, F10 order restoration) ---------- *)
Definition selected (sel : option (list str)) (x : setting) : bool :=
  match sel with None => true | Some l => existsb (str_eqb (stxt x)) l end.

(* idx == start: every selected active setting is stopped here (or its start marker deleted) *)
Definition remove_at_start (sel : option (list str)) (cur : list setting) (p : point) (removed : list setting)
  : point * list setting :=
  fold_left (fun '(p, rd) x =>
               if selected sel x then
                 match find_ref x (padd p) with
                 | Some i => (mkP (remove_nth i (padd p)) (prem p), rd ++ [x])
                 | None => (mkP (padd p) (prem p ++ [x]), rd ++ [x])
                 end
               else (p, rd)) cur (p, removed).

(* for i in reversed(range(len(rem))): drop stop markers of settings that are already removed *)
Definition rem_pass (rems removed : list setting) : list setting * list setting :=
  fold_right (fun x '(keep, rd) =>
                match find_ref x rd with
                | Some i => (keep, remove_nth i rd)
                | None => (x :: keep, rd)
                end) ([], removed) rems.

(* for i in reversed(range(len(add))): drop start markers of selected settings, remember them *)
Definition add_pass (sel : option (list str)) (adds removed : list setting) : list setting * list setting :=
  fold_right (fun x '(keep, rd) =>
                if selected sel x then (keep, rd ++ [x]) else (x :: keep, rd)) ([], removed) adds.

Definition min_pos (removed original : list setting) : option nat :=
  (* None = some element is missing (Python's -1) *)
  fold_left (fun m x => match m, find_ref x original with
                        | Some a, Some b => Some (Nat.min a b)
                        | _, _ => None end) removed (Some (length original)).

Definition remove_at_end (len en : nat) (cur : list setting) (p_orig : point) (rem' : list setting)
           (removed : list setting) : point :=
  if negb (Nat.eqb en len) && negb (is_nil removed) then
    let original := firstn (length cur - length (padd p_orig)) cur in
    let restart := match min_pos removed original with
                   | Some f => skipn f original
                   | None => match last_opt original with Some x => [x] | None => [] end
                   end in
    mkP (restart ++ padd p_orig) (rem' ++ filter (fun x => negb (in_ref x removed)) restart)
  else mkP (padd p_orig) rem'.

Fixpoint remove_loop (states : list (nat * point * list setting)) (len start en : nat)
         (sel : option (list str)) (removed : list setting) : fmts :=
  match states with
  | [] => []
  | (k, p, cur) :: r =>
    if k <? start then (k, p) :: remove_loop r len start en sel removed
    else if en <? k then (k, p) :: map (fun x => (fst (fst x), snd (fst x))) r
    else if Nat.eqb k start then
      let '(p', removed') := remove_at_start sel cur p removed in
      (k, p') :: remove_loop r len start en sel removed'
    else
      let '(rem', removed1) := rem_pass (prem p) removed in
      if Nat.eqb k en then
        (k, remove_at_end len en cur p rem' removed1) :: remove_loop r len start en sel removed1
      else
        let '(add', removed2) := add_pass sel (padd p) removed1 in
        (k, mkP add' rem') :: remove_loop r len start en sel removed2
  end.

Definition cleanup (t : fmts) : fmts := filter (fun kp => negb (point_is_empty (snd kp))) t.

Definition remove_core (s : astr) (sel : option (list str)) (start en : nat) : astr :=
  let t := tensure en (tensure start (tbl s)) in
  mkA (base s) (cleanup (remove_loop (iter_states t []) (length (base s)) start en sel [])).

Definition remove_fmt (s : astr) (sel : option (list str)) (st en : option Z) : astr :=
  let len := length (base s) in
  let start := slice_idx len st 0 in
  let e := slice_idx len en len in
  if range_empty len start e then s else remove_core s sel start e.

Definition clear_fmt (s : astr) : astr := mkA (base s) [].

(* ---------- __getitem__ (as repaired: F5 negative index, F6 copies, F7 identity) ---------- *)
Definition between (a b : nat) (t : fmts) : fmts := filter (fun kp => (a <? fst kp) && (fst kp <? b)) t.
Definition shift_down (d : nat) (t : fmts) : fmts := map (fun kp => (fst kp - d, snd kp)) t.

(* 0 <= st < en <= len *)
Definition slice_tbl (t : fmts) (st en : nat) : fmts :=
  let seed := active_at t st in
  let prev := active_at t (en - 1) in
  let rem_en := match tget en t with Some p => prem p | None => [] end in
  let closing := rem_en ++ filter (fun x => negb (in_ref x rem_en)) prev in
  (match seed with [] => [] | _ => [(0, mkP seed [])] end)
  ++ shift_down st (between st en t)
  ++ (match closing with [] => [] | _ => [(en - st, mkP [] closing)] end).

Definition slice_core (s : astr) (st en : nat) : astr :=
  (* st, en already normalised by slice_idx, so both <= len *)
  if en <=? st then mkA [] []
  else mkA (str_slice (base s) st en) (slice_tbl (tbl s) st en).

Definition getitem_slice (s : astr) (a b : option Z) : astr :=
  let len := length (base s) in
  slice_core s (slice_idx len a 0) (slice_idx len b len).

Definition getitem_int (s : astr) (k : Z) : res astr :=
  let len := Z.of_nat (length (base s)) in
  if ((- len <=? k) && (k <? len))%Z then
    let st := Z.to_nat (if (k <? 0)%Z then len + k else k)%Z in
    OK (slice_core s st (S st))
  else Err IndexError.

(* _AnsiCharIterator *)
Definition iterate (s : astr) : list astr :=
  map (fun i => slice_core s i (S i)) (seq 0 (length (base s))).

(* ---------- __iadd__ (as repaired: F11 no mutation of the operand, F12 order test) ---------- *)
Definition positions_sorted (refs in_list : list setting) : bool :=
  (* [find_ref ...] == sorted(...) with -1 for "missing": encode as 0 / S n *)
  let pos := map (fun x => match find_ref x in_list with Some n => S n | None => O end) refs in
  (fix sorted (l : list nat) : bool :=
     match l with
     | a :: ((b :: _) as r) => (a <=? b) && sorted r
     | _ => true end) pos.

(* pairs (i, i2) with find_list[i] is in_list[i2], in the order the nested loops produce them *)
Definition find_refs (find_list in_list : list setting) : list (nat * nat) :=
  flat_map (fun '(i, x) =>
              flat_map (fun '(i2, y) => if same_ref x y then [(i, i2)] else [])
                       (combine (seq 0 (length in_list)) in_list))
           (combine (seq 0 (length find_list)) find_list).

Fixpoint retarget (pairs : list (nat * nat)) (rems find repl : list setting)
  : res (list setting * list setting * list setting) :=
  match pairs with
  | [] => OK (rems, find, repl)
  | (fi, ai) :: r =>
    match nth_error repl fi with
    | Some x => if (fi <? length find) && (ai <? length rems)
                then retarget r (set_nth ai x rems) (remove_nth fi find) (remove_nth fi repl)
                else Err IndexError
    | None => Err IndexError
    end
  end.

(* as repaired (F26): an object of the left operand that is about to stand in for an object of the right
   operand must not also occur, as itself, elsewhere in the right operand *)
Definition seam_fresh_check (pairs : list (setting * setting)) (inc : fmts) : bool :=
  forallb (fun kp =>
    forallb (fun y => forallb (fun '(mine, theirs) => negb (same_ref y mine) || same_ref y theirs) pairs)
            (padd (snd kp) ++ prem (snd kp))) inc.

Fixpoint iadd_loop (inc : fmts) (shift : nat) (seam_act : list setting) (t : fmts)
         (find repl : list setting) : res fmts :=
  match inc with
  | [] => OK t
  | (k0, ip) :: rest =>
    let key := k0 + shift in
    match tget key t with
    | Some mine =>
      let n := length (padd ip) in
      if Nat.eqb key shift && negb (is_nil (padd ip))
         && list_eqb same_val (firstn n (prem mine)) (padd ip)
         && positions_sorted (firstn n (prem mine)) seam_act
         && seam_fresh_check (combine (prem mine) (padd ip)) inc
      then
        let mine' := mkP (padd mine) (skipn n (prem mine) ++ prem ip) in
        let t' := if point_is_empty mine' then tdel key t else tput key mine' t in
        iadd_loop rest shift seam_act t' (padd ip) (firstn n (prem mine))
      else
        iadd_loop rest shift seam_act (tput key (mkP (padd mine ++ padd ip) (prem mine ++ prem ip)) t) find repl
    | None =>
      match retarget (rev (find_refs find (prem ip))) (prem ip) find repl with
      | OK (rems, find', repl') => iadd_loop rest shift seam_act (tput key (mkP (padd ip) rems) t) find' repl'
      | Err e => Err e
      end
    end
  end.

Definition iadd (a b : astr) : res astr :=
  let shift := length (base a) in
  let newbase := base a ++ base b in
  let seam_act := match shift with
                  | O => []
                  | S i => if i <? length newbase then active_at (tbl a) i else [] end in
  do t <- iadd_loop (tbl b) shift seam_act (tbl a) [] [];
  OK (mkA newbase t).

Definition add (a b : astr) : res astr := iadd a b.          (* copy, then += *)
Definition plain (t : str) : astr := mkA t [].
Fixpoint join_from (acc : astr) (l : list astr) : res astr :=
  match l with [] => OK acc | x :: r => do acc' <- iadd acc x; join_from acc' r end.
Definition join_astr (l : list astr) : res astr :=
  match l with [] => OK (mkA [] []) | x :: r => join_from x r end.

(* ---------- padding (center as repaired, F14) ---------- *)
Definition shift_idx (num : nat) (keep_origin : bool) (t : fmts) : fmts :=
  map (fun kp => if keep_origin && Nat.eqb (fst kp) 0 then kp else (fst kp + num, snd kp)) t.

Definition ljust (s : astr) (width : Z) (fill : char) (ext : bool) : astr :=
  let old := length (base s) in
  let num := (width - Z.of_nat old)%Z in
  if (0 <? num)%Z then
    let n := Z.to_nat num in
    mkA (base s ++ repeat fill n) (if ext then tmove old (old + n) (tbl s) else tbl s)
  else s.

Definition rjust (s : astr) (width : Z) (fill : char) (ext : bool) : astr :=
  let old := length (base s) in
  let num := (width - Z.of_nat old)%Z in
  if (0 <? num)%Z then
    let n := Z.to_nat num in
    mkA (repeat fill n ++ base s) (shift_idx n ext (tbl s))
  else s.

Definition center (s : astr) (width : Z) (fill : char) (ext : bool) : astr :=
  let old := length (base s) in
  let num := (width - Z.of_nat old)%Z in
  if (0 <? num)%Z then
    let n := Z.to_nat num in
    let left := Nat.div2 n in
    let right := n - left in
    let t1 := shift_idx left ext (tbl s) in
    mkA (repeat fill left ++ base s ++ repeat fill right)
        (if ext then tmove (old + left) (old + n) t1 else t1)
  else s.

(* ---------- assign_str ---------- *)
Definition assign (s : astr) (t : str) : astr :=
  let old := length (base s) in
  let new := length t in
  if old <? new then mkA t (tmove old new (tbl s))
  else if new <? old then mkA t (tbl (slice_core s 0 new))
  else mkA t (tbl s).

(* ---------- find_settings ---------- *)
Definition has_all (want : list str) (cur : list setting) : bool :=
  forallb (fun w => existsb (fun x => str_eqb (stxt x) w) cur) want.

Definition find_settings (s : astr) (want : list str) (st en : option Z) (rev_ : bool)
  : option nat * option nat :=
  let len := length (base s) in
  let start := slice_idx len st 0 in
  let e := slice_idx len en len in
  if e <? start then (None, None)
  else if is_nil want then (Some start, Some e)
  else
    let table := filter (fun x => (start <=? fst (fst x)) && (fst (fst x) <=? e)) (iter_states (tbl s) []) in
    let idxs := map (fun x => (fst (fst x), snd x)) table in
    let found0 :=
      if existsb (fun x => Nat.eqb (fst x) start) idxs then None
      else if has_all want (settings_at_nat s start) then Some start else None in
    let found :=
      match found0 with
      | Some a => Some a
      | None => option_map fst (List.find (fun x => has_all want (snd x)) (if rev_ then rev idxs else idxs))
      end in
    match found with
    | None => (None, None)
    | Some a =>
      (Some a, option_map fst (List.find (fun x => (a <? fst x) && negb (has_all want (snd x))) idxs))
    end.
