(* Model of the settings scrubber (_AnsiSettingPoint._scrub_ansi_settings and friends,
   ansi_string.py:1731-1872, as repaired F19) and of the rgb()/color256() builders
   (ansi_format.py:250-371).  Input forms are an AST of the documented argument shapes. *)
From AS Require Import Base Effects.
From AS.Gen Require Import Formats.
From AS.Model Require Import Sgr.
Local Open Scope Z_scope.

Inductive form :=
| FMember (name : str)            (* AnsiFormat.<name> *)
| FStr (s : str)
| FInt (z : Z)
| FSetting (t : str)              (* an AnsiSetting object with this text *)
| FList (l : list form)           (* list or tuple *)
| FSelfRef                        (* a list that (transitively) contains itself, at the point of recurrence *)
| FOther (truthy : bool).         (* None, float, ...: unsupported type *)

(* "not settings" as evaluated by apply_formatting / remove_formatting before scrubbing; a bare integer is wrapped in a
   list first (as repaired, known_findings F45: the integer 0 is the reset code, not "nothing given") *)
Definition form_falsy (f : form) : bool :=
  match f with
  | FStr [] => true | FList [] => true | FOther false => true | _ => false
  end.

(* ---------- builders ---------- *)
Inductive component := FG | BG | UL | DUL.
Definition clamp255 (z : Z) : Z := Z.min 255 (Z.max 0 z).
Definition color_texts (comp : component) (tail : list Z) : list str :=
  match comp with
  | UL => [dec 4; text_of_items (58 :: tail)]
  | DUL => [dec 21; text_of_items (58 :: tail)]
  | BG => [text_of_items (48 :: tail)]
  | FG => [text_of_items (38 :: tail)]
  end.
Definition rgb3 (r g b : Z) (comp : component) : list str :=
  color_texts comp [2; clamp255 r; clamp255 g; clamp255 b].
Definition rgb1 (v : Z) (comp : component) : list str :=
  color_texts comp [2; Z.shiftr (Z.land v 16711680) 16; Z.shiftr (Z.land v 65280) 8; Z.land v 255].
Definition color256 (v : Z) (comp : component) : list str := color_texts comp [5; v].

Definition helper_component (h : helper) : component :=
  match h with
  | H_rgb | H_fg_rgb | H_color256 | H_fg_color256 => FG
  | H_bg_rgb | H_bg_color256 => BG
  | H_ul_rgb | H_ul_color256 => UL
  | H_dul_rgb | H_dul_color256 => DUL
  end.
Definition helper_is_rgb (h : helper) : bool :=
  match h with H_rgb | H_fg_rgb | H_bg_rgb | H_ul_rgb | H_dul_rgb => true | _ => false end.
Definition call_helper (h : helper) (args : list Z) : option (list str) :=
  if helper_is_rgb h then
    match args with
    | [r; g; b] => Some (rgb3 r g b (helper_component h))
    | [v] => Some (rgb1 v (helper_component h))
    | _ => None end
  else match args with [v] => Some (color256 v (helper_component h)) | _ => None end.

(* ---------- the AnsiFormat member table ---------- *)
Fixpoint lookup_format_in (tbl : list (String.string * fmt_expr)) (name : str) : option fmt_expr :=
  match tbl with
  | [] => None
  | (n, e) :: r => if str_eqb (str_of_string n) name then Some e else lookup_format_in r name
  end.
Definition member_texts (name : str) : option (list str) :=
  match lookup_format_in gen_formats name with
  | Some (FParam c) => Some [decN c]
  | Some (FAlias n) => match lookup_format_in gen_formats (str_of_string n) with
                       | Some (FParam c) => Some [decN c]
                       | Some (FCall h args) => call_helper h args
                       | Some (FAlias n2) => match lookup_format_in gen_formats (str_of_string n2) with
                                             | Some (FParam c) => Some [decN c]
                                             | Some (FCall h args) => call_helper h args
                                             | _ => None end
                       | None => None end
  | Some (FCall h args) => call_helper h args
  | None => None
  end.

(* format.upper().replace(' ', '_').replace('-', '_') on ASCII *)
Definition norm_name_char (c : char) : char :=
  if ((97 <=? c) && (c <=? 122))%N then (c - 32)%N
  else if ((c =? 32) || (c =? 45))%N then 95%N else c.
Definition norm_name (s : str) : str := map norm_name_char s.

(* ---------- the rgb(...) / color256(...) string forms ---------- *)
Definition is_hex (c : char) : bool :=
  (is_digit c || ((97 <=? c) && (c <=? 102)) || ((65 <=? c) && (c <=? 70)))%N.
Definition hex_val (c : char) : N :=
  (if is_digit c then c - 48 else if (97 <=? c) then c - 87 else c - 55)%N.
Definition is_re_space (c : char) : bool :=       (* \s, ASCII part *)
  match c with 32 | 9 | 10 | 11 | 12 | 13 | 28 | 29 | 30 | 31 => true | _ => false end%N.
Fixpoint skip_space (s : str) : str := match s with c :: r => if is_re_space c then skip_space r else s | [] => [] end.
Fixpoint span_hex (s : str) : str * str :=
  match s with
  | c :: r => if is_hex c then let '(a, b) := span_hex r in (c :: a, b) else ([], s)
  | [] => ([], [])
  end.
(* (0x)?([0-9a-fA-F]+) : Some (Some value | None when int() would fail, rest) *)
Definition read_num (s : str) : option (option Z * str) :=
  let plain (s : str) :=
    let '(d, r) := span_hex s in
    if is_nil d then None
    else Some ((if forallb is_digit d then Some (Z.of_N (fold_left (fun a c => a * 10 + digit_val c)%N d 0%N)) else None), r) in
  match s with
  | 48%N :: 120%N :: r =>
      let '(d, r') := span_hex r in
      if is_nil d then plain s
      else Some (Some (Z.of_N (fold_left (fun a c => a * 16 + hex_val c)%N d 0%N)), r')
  | _ => plain s
  end.
(* tail after the last number:  \s*[\)\]]?\)\Z , the bracket being the counterpart of the opening one (as repaired:
   known_findings F31 - unbalanced / mismatched brackets, F32 - trailing newline) *)
Definition close_ok (ob : option char) (s : str) : bool :=
  let s := skip_space s in
  match ob with
  | None => str_eqb s [41%N]
  | Some c => if (c =? 91)%N then str_eqb s [93%N; 41%N] else str_eqb s [41%N; 41%N]
  end.
Definition strip_prefix (p s : str) : option str := if starts_with s p then Some (skipn (length p) s) else None.
Definition read_component (s : str) : component * str :=
  match strip_prefix [102; 103; 95]%N s with Some r => (FG, r) | None =>
  match strip_prefix [98; 103; 95]%N s with Some r => (BG, r) | None =>
  match strip_prefix [117; 108; 95]%N s with Some r => (UL, r) | None =>
  match strip_prefix [100; 117; 108; 95]%N s with Some r => (DUL, r) | None => (FG, s) end end end end.
(* the optional opening bracket: '[' or '(' *)
Definition open_bracket (s : str) : option char * str :=
  match s with c :: r => if ((c =? 91) || (c =? 40))%N then (Some c, r) else (None, s) | [] => (None, []) end.

Inductive rgbres := RNoMatch | RBad | RTexts (l : list str).

Definition parse_rgb_string (s : str) : rgbres :=
  let '(comp, r0) := read_component s in
  let after_fn :=
    match strip_prefix [114; 103; 98; 40]%N r0 with
    | Some r => Some (true, r)
    | None => match strip_prefix [99; 111; 108; 111; 114; 50; 53; 54; 40]%N r0 with
              | Some r => Some (false, r)
              | None => match strip_prefix [99; 111; 108; 111; 117; 114; 50; 53; 54; 40]%N r0 with
                        | Some r => Some (false, r) | None => None end end end in
  match after_fn with
  | None => RNoMatch
  | Some (is_rgb, r1) =>
    let '(ob, r1') := open_bracket r1 in
    match read_num (skip_space r1') with
    | None => RNoMatch
    | Some (v1, r2) =>
      let three :=
        if is_rgb then
          match skip_space r2 with
          | 44%N :: r3 =>
            match read_num (skip_space r3) with
            | Some (v2, r4) =>
              match skip_space r4 with
              | 44%N :: r5 =>
                match read_num (skip_space r5) with
                | Some (v3, r6) => if close_ok ob r6 then Some (v1, v2, v3) else None
                | None => None end
              | _ => None end
            | None => None end
          | _ => None end
        else None in
      match three with
      | Some (Some a, Some b, Some c) => RTexts (rgb3 a b c comp)
      | Some _ => RBad
      | None =>
        if close_ok ob r2 then
          match v1 with
          | Some v => RTexts (if is_rgb then rgb1 v comp else color256 v comp)
          | None => RBad end
        else RNoMatch
      end
    end
  end.

(* ---------- the scrubber ---------- *)
Inductive sitem := SSet (t : str) | SInt (z : Z).

Definition scrub_int (z : Z) : res sitem := if z <? 0 then Err ValueError else OK (SInt z).

Fixpoint scrub_names (formats : list str) : res (list sitem) :=
  match formats with
  | [] => OK []
  | f :: r =>
    do here <-
      match member_texts (norm_name f) with
      | Some ts => OK (map SSet ts)
      | None =>
        match parse_rgb_string f with
        | RTexts ts => OK (map SSet ts)
        | RBad => Err ValueError
        | RNoMatch =>
          if is_nil f then OK []
          else (* as repaired (F37): a code is made of decimal digits only, blanks around them tolerated *)
               let f' := strip_ws f in
               if negb (is_nil f') && forallb is_digit f' then
                 match parse_int f' with
                 | Some z => do i <- scrub_int z; OK [i]
                 | None => Err ValueError end
               else Err ValueError
        end
      end;
    do rest <- scrub_names r;
    OK (here ++ rest)
  end.

Definition scrub_string (s : str) : res (list sitem) :=
  match s with
  | [] => OK []
  | 91%N :: rest => if is_nil rest then Err ValueError else OK [SSet rest]
  | _ => scrub_names (split_char SEMI s)
  end.

Fixpoint scrub_form (f : form) : res (list sitem) :=
  match f with
  | FSetting t => OK [SSet t]
  | FStr s => scrub_string s
  | FInt z => do i <- scrub_int z; OK [i]
  | FMember n => match member_texts n with Some ts => OK (map SSet ts) | None => Err ValueError end
  | FOther _ => Err TypeError
  | FSelfRef => Err ValueError
  | FList l =>
    (fix go (l : list form) : res (list sitem) :=
       match l with
       | [] => OK []
       | x :: r => do a <- scrub_form x; do b <- go r; OK (a ++ b)
       end) l
  end.

(* integer runs -> parse_graphic_sequence(run, add_erroneous=True), done once by the outermost call *)
Fixpoint group_ints (l : list sitem) (cur : list Z) : res (list str) :=
  let flush (cur : list Z) : res (list str) :=
    if is_nil cur then OK [] else pgs_items (map IInt cur) true in
  match l with
  | [] => flush cur
  | SInt z :: r => group_ints r (cur ++ [z])
  | SSet t :: r => do a <- flush cur; do b <- group_ints r []; OK (a ++ t :: b)
  end.

(* _scrub_ansi_settings(settings): a non-list argument is wrapped in a list first *)
Definition scrub (f : form) : res (list str) :=
  do items <- scrub_form (match f with FList _ => f | _ => FList [f] end);
  group_ints items [].
