(* Model of the format-spec part of to_str / __format__ (ansi_string.py:632-700, 751-776):
   hand-written recognisers for the four regular expressions (as repaired, F29 / F30: the expressions match the whole
   spec and '.' matches every character, so a newline is a character like any other). *)
From AS Require Import Base Effects.
From AS.Model Require Import Sgr Table Ops Render Scrub Parse.

Definition is_sign (c : char) : bool := (c =? 43)%N || (c =? 45)%N.            (* + - *)
Definition is_align (c : char) : bool := (c =? 60)%N || (c =? 62)%N || (c =? 94)%N.   (* < > ^ *)
Fixpoint span_digits (s : str) : str * str :=
  match s with
  | c :: r => if is_digit c then let '(a, b) := span_digits r in (c :: a, b) else ([], s)
  | [] => ([], [])
  end.
Definition nat_of_digits (d : str) : Z := Z.of_N (fold_left (fun a c => a * 10 + digit_val c)%N d 0%N).

(* take an optional element: the alternatives in regex priority order (greedy first) *)
Definition opt_take (p : char -> bool) (s : str) : list (option char * str) :=
  match s with
  | c :: r => if p c then [(Some c, r); (None, s)] else [(None, s)]
  | [] => [(None, s)]
  end.

(* the colon-splitting regex of to_str (as repaired, F25), used with re.match:
   group 1 = optionally (optional any char, optional sign, alignment char), then digits;
   group 2 = optional ':' followed by anything; returns (group 1, group 2 without its colon) *)
Definition split_spec (spec : str) : option (str * option str) :=
  let finish (s3 : str) := let '(d, rest) := span_digits s3 in (length spec - length rest, rest) in
  let tries :=
    flat_map (fun '(f, s1) =>
      flat_map (fun '(sg, s2) =>
        match s2 with
        | c :: s3 => if is_align c then [finish s3] else []
        | [] => [] end)
        (opt_take is_sign s1)) (opt_take (fun _ => true) spec)
    ++ [finish spec] in
  match List.find (fun '(n, rest) => match rest with [] => true | c :: _ => (c =? CH_COLON)%N end) tries with
  | Some (n, rest) => Some (firstn n spec, match rest with [] => None | _ :: r => Some r end)
  | None => None
  end.

Inductive align := ALeft | ARight | ACenter.
Record sfmt := { sf_fill : option char; sf_flag : option char; sf_align : align; sf_width : str }.

(* the alignment regex  ^(.?)([+-]?)X([0-9] * )$  for a given alignment character X *)
Definition match_align (x : char) (s : str) : option (option char * option char * str) :=
  let tries :=
    flat_map (fun '(f, s1) =>
      map (fun '(sg, s2) => (f, sg, s2)) (opt_take is_sign s1)) (opt_take (fun _ => true) s) in
  match List.find (fun '(f, sg, s2) =>
                     match s2 with
                     | c :: r => (c =? x)%N && is_nil (snd (span_digits r))
                     | [] => false end) tries with
  | Some (f, sg, s2) => Some (f, sg, fst (span_digits (tl s2)))
  | None => None
  end.

Inductive sf_result := SFok (f : sfmt) | SFerr.

Definition parse_string_format (s : str) : sf_result :=
  (* the left-justify regex: either all digits, or the '<' form *)
  if is_nil (snd (span_digits s)) then
    SFok {| sf_fill := None; sf_flag := None; sf_align := ALeft; sf_width := s |}
  else match match_align 60%N s with
  | Some (f, sg, w) => SFok {| sf_fill := f; sf_flag := sg; sf_align := ALeft; sf_width := w |}
  | None =>
  match match_align 62%N s with
  | Some (f, sg, w) => SFok {| sf_fill := f; sf_flag := sg; sf_align := ARight; sf_width := w |}
  | None =>
  match match_align 94%N s with
  | Some (f, sg, w) => SFok {| sf_fill := f; sf_flag := sg; sf_align := ACenter; sf_width := w |}
  | None => SFerr
  end end end.

(* apply a settings string to the whole current text: obj.apply_formatting(settings) *)
Definition apply_spec_settings (s : astr) (settings : option str) (nid : nat) : res (astr * nat) :=
  match settings with
  | None => OK (s, nid)
  | Some w =>
    if is_nil w then OK (s, nid)          (* "and settings": empty string is falsy *)
    else if range_empty (length (base s)) 0 (length (base s)) then OK (s, nid)
    else do texts <- scrub (FStr w);
         let '(news, nid) := fresh texts nid in
         OK (apply_fmt s news (Some 0%Z) None true, nid)
  end.

Definition apply_string_format (s : astr) (fmt : str) (settings : option str) (nid : nat) : res (astr * nat) :=
  match parse_string_format fmt with
  | SFerr => Err ValueError
  | SFok f =>
    let ext := match sf_flag f with Some c => (c =? 43)%N | None => true end in
    let fill := match sf_fill f with Some c => c | None => SPACE end in
    do (s1, nid) <- (if ext then OK (s, nid) else apply_spec_settings s settings nid);
    let s2 := if is_nil (sf_width f) then s1
              else let w := nat_of_digits (sf_width f) in
                   match sf_align f with
                   | ALeft => ljust s1 w fill ext
                   | ARight => rjust s1 w fill ext
                   | ACenter => center s1 w fill ext end in
    if ext then apply_spec_settings s2 settings nid else OK (s2, nid)
  end.

(* the object that to_str(format_spec, ...) renders *)
Definition spec_object (s : astr) (spec : str) (nid : nat) : res (astr * nat) :=
  match split_spec spec with
  | None => apply_string_format s spec None nid
  | Some (part0, settings) =>
    if negb (is_nil part0) then apply_string_format s part0 settings nid
    else apply_spec_settings s settings nid
  end.

Definition to_str_spec (s : astr) (spec : option str) (optimize reset_start reset_end : bool) (nid : nat)
  : res str :=
  match spec with
  | None => OK (to_str s optimize reset_start reset_end)
  | Some sp =>
    if is_nil sp then OK (to_str s optimize reset_start reset_end)
    else do (obj, _) <- spec_object s sp nid;
         (* "not format_spec and not self._fmts and not reset_start" is false here: always the loop *)
         OK (if is_nil (tbl obj) && negb reset_start
             then bytes_of (if is_nil (base obj) then [] else [OText (base obj)])
             else to_str obj optimize reset_start reset_end)
  end.
