(* C11 - Substring and editing methods keep the style of every surviving character.
   Statements only.  Every piece-returning method of the model is a slice of the original at the
   piece's true offset, so it inherits C04: `piece_at s off p` says p's text is base s [off, off+len)
   and character q of p reports the same setting OBJECTS, in the same order, as character off+q of s;
   `slice_of s (off, len) p` additionally says p IS s[off:off+len].  `wf_piece`: sorted and closed.
   `styles s` = the texts of the settings each character reports, in precedence order. *)
From AS Require Import Base.
From AS.Spec Require Import PyStr.
From AS.Model Require Import Table Ops Parse StrOps.
From AS.Proofs Require Import TableProofs SliceProofs PadProofs StrOpsProofs ConcatProofs EditProofs.

(* strip / lstrip / rstrip: offset = number of stripped leading characters *)
Theorem C11_strip : forall s chars dl dr, ssorted (tbl s) ->
  piece_at s (strip_off s chars dl) (strip s chars dl dr).
Proof. exact strip_piece_at. Qed.
Print Assumptions C11_strip.

Theorem C11_removeprefix : forall s p, ssorted (tbl s) -> piece_at s (removeprefix_off s p) (removeprefix s p).
Proof. exact removeprefix_piece. Qed.
Theorem C11_removesuffix : forall s p, ssorted (tbl s) -> piece_at s 0 (removesuffix s p).
Proof. exact removesuffix_piece. Qed.
Print Assumptions C11_removeprefix.
Print Assumptions C11_removesuffix.

(* partition / rpartition: three pieces at offsets 0, |before|, |before| + |sep| where `before` is the
   text in front of the FIRST / LAST occurrence; absent separator: (s, '', '') *)
Theorem C11_partition : forall s sep, ssorted (tbl s) ->
  match cut_first sep (base s) with
  | Some (a, _) => pieces3 s 0 (length a) (length a + length sep) (partition s sep)
  | None => partition s sep = (s, mkA [] [], mkA [] [])
  end.
Proof. exact partition_pieces. Qed.
Theorem C11_rpartition : forall s sep, ssorted (tbl s) ->
  match cut_last sep (base s) with
  | Some (a, _) => pieces3 s 0 (length a) (length a + length sep) (rpartition s sep)
  | None => rpartition s sep = (s, mkA [] [], mkA [] [])
  end.
Proof. exact rpartition_pieces. Qed.
Print Assumptions C11_partition.
Print Assumptions C11_rpartition.

(* split / rsplit with an explicit separator: piece k is the slice at the cumulative offset
   off_{k+1} = off_k + len_k + |sep| - for multi-character, self-overlapping separators too *)
Theorem C11_split : forall s sep m right, ssorted (tbl s) -> sep <> [] ->
  exists ps, split_sep s sep m right = OK ps /\
    let texts := split_texts right (base s) sep m in
    map base ps = texts /\ join sep texts = base s
    /\ Forall2 (slice_of s) (cum_offs (length sep) 0 texts) ps.
Proof. exact split_sep_spec. Qed.
Print Assumptions C11_split.

(* split(None) / splitlines: the piece texts come from Python's str; when each piece starts at the
   first occurrence at or after the end of the previous one (`located`: true for split(None), whose
   pieces start with a non-blank after a blank gap, and for splitlines), piece k is the slice there *)
Theorem C11_pieces_by_find : forall s pieces offs, ssorted (tbl s) -> located (base s) 0 pieces offs ->
  map base (slices_by_find s pieces 0) = pieces /\
  Forall2 (slice_of s) offs (slices_by_find s pieces 0).
Proof. exact slices_by_find_spec. Qed.
Print Assumptions C11_pieces_by_find.

(* every piece is complete in itself *)
Theorem C11_pieces_closed : forall s sep m right ps, ssorted (tbl s) -> StrOpsProofs.nodup_active s ->
  split_sep s sep m right = OK ps -> Forall wf_piece ps.
Proof. exact split_sep_wf. Qed.
Print Assumptions C11_pieces_closed.


(* ---------- assign_str ---------- *)
(* the settings at every surviving position are kept (same objects) ... *)
Theorem C11_assign_keep : forall s t k, ssorted (tbl s) -> keys_le (tbl s) (length (base s)) ->
  k < Nat.min (length (base s)) (length t) -> active_at (tbl (assign s t)) k = active_at (tbl s) k.
Proof. exact assign_keep. Qed.
(* ... the last character's settings are extended over added characters ... *)
Theorem C11_assign_extend : forall s t k, ssorted (tbl s) -> keys_le (tbl s) (length (base s)) ->
  0 < length (base s) -> length (base s) <= k < length t ->
  active_at (tbl (assign s t)) k = active_at (tbl s) (length (base s) - 1).
Proof. exact assign_extend. Qed.
(* ... those of removed characters are dropped (nothing stays open), and the value stays well formed *)
Theorem C11_assign_shrink : forall s t, ssorted (tbl s) -> ApplyProofs.nodup_active (tbl s) ->
  length t < length (base s) -> forall k, length t <= k -> active_at (tbl (assign s t)) k = [].
Proof. exact assign_shrink_closed. Qed.
Theorem C11_assign_text_wf : forall s t, base (assign s t) = t /\ (ConcatProofs.WF s -> ConcatProofs.WF (assign s t)).
Proof. intros s t. split; [apply assign_base | apply assign_WF]. Qed.
Print Assumptions C11_assign_keep.
Print Assumptions C11_assign_extend.
Print Assumptions C11_assign_shrink.

(* ---------- replace (and expandtabs = replace of "\t" by spaces) ----------
   replace_styles walks the original text and the original per-character styles together: unmatched
   stretches keep their styles; every match - each one - gets, for a plain-str replacement, the styles
   of the first character of THAT match repeated over the replacement's length, and for an
   AnsiString/AnsiStr replacement the replacement's own styles.  The text is str.replace's. *)
Theorem C11_replace : forall s old r count nid, old <> [] -> repl_ok r -> repl_inv r s nid ->
  exists s' nid',
    replace s old r count nid = OK (s', nid')
    /\ base s' = py_replace (base s) old (repl_text r) count
    /\ styles s' = replace_styles (base s) (styles s) old r count
    /\ repl_inv r s' nid'.
Proof. exact replace_spec. Qed.
Print Assumptions C11_replace.
(* the text clause holds for EVERY replacement string, ANSI-coded ones included (repair F27) *)
Theorem C11_replace_text : forall s old r count nid s' nid', old <> [] ->
  replace s old r count nid = OK (s', nid') -> base s' = py_replace (base s) old (repl_text r) count.
Proof. exact replace_text. Qed.
Print Assumptions C11_replace_text.
(* nothing to replace: the value is returned as it is *)
Theorem C11_replace_absent : forall s old r count nid, (forall i, ~ AS.Spec.PyStr.occurs_at old (base s) i) ->
  replace s old r count nid = OK (s, nid).
Proof. exact replace_absent. Qed.
Print Assumptions C11_replace_absent.

(* case conversions keep the table as it is (Exec.op_20 stores the new text with the old table), so
   when the length is preserved every position keeps its settings *)
Theorem C11_case : forall (a : astr) (t : str) k, active_at (tbl (mkA t (tbl a))) k = active_at (tbl a) k.
Proof. reflexivity. Qed.
Print Assumptions C11_case.

Example C11_example := ex_hyps.
