(* C19 - Control-sequence parser is lossless; cursor/erase helpers emit one sequence.
   This file contains statements only; every proof is `exact <lemma>`. *)
From AS Require Import Base.
From AS.Model Require Import Tokenizer.
From AS.Proofs Require Import TokenizerProofs.

(* re-inserting the removed sequences reproduces the input: for every string and every flag set *)
Theorem C19_lossless : forall (ae : bool) (acc : option str) (s : str),
  render_toks (tokenize ae acc s) = s.
Proof. exact tokenize_lossless. Qed.
Print Assumptions C19_lossless.

(* formatted_str / str() / repr(): rebuilt from unformatted_str and the sequences dict alone *)
Theorem C19_formatted : forall (ae : bool) (acc : option str) (s : str),
  formatted (tokenize ae acc s) = s.
Proof. exact formatted_roundtrip. Qed.
Print Assumptions C19_formatted.

(* the sequences dict maps each removal point - the number of text characters that precede the
   sequence, i.e. its index into unformatted_str - to the removed sequences in order *)
Theorem C19_sequences : forall (ae : bool) (acc : option str) (s : str),
  flat_sequences (sequences (tokenize ae acc s)) = seqs_flat (tokenize ae acc s) 0.
Proof. intros; exact (sequences_flat _). Qed.
Print Assumptions C19_sequences.

(* exactly the recognised sequences are removed: each has a body without final byte, a terminator
   in 0x40-0x7E (or none, only when allowed) that the acceptable-terminator set admits *)
Theorem C19_recognised : forall (ae : bool) (acc : option str) (s : str),
  Forall (wf_tok ae acc) (tokenize ae acc s).
Proof. exact tokenize_wf. Qed.
Print Assumptions C19_recognised.

(* cursor_* / erase_* / scroll_* : one sequence, decimal argument, documented final byte, empty text *)
Theorem C19_helper1 : forall (n : Z) (f : char), is_final f = true -> forall ae,
  tokenize ae None (helper1 n f) = [TSeq {| cs_body := dec n; cs_term := Some f |}].
Proof. exact helper1_one_sequence. Qed.
Print Assumptions C19_helper1.

Theorem C19_helper2 : forall (r c : Z) (f : char), is_final f = true -> forall ae,
  tokenize ae None (helper2 r c f) = [TSeq {| cs_body := dec r ++ [SEMI] ++ dec c; cs_term := Some f |}].
Proof. exact helper2_one_sequence. Qed.
Print Assumptions C19_helper2.

(* non-vacuity: a concrete mixed input exercises acceptance, rejection and an unterminated tail *)
Example C19_example :
  let s := [97; 27; 91; 49; 109; 98; 27; 91; 50; 74; 27; 91; 51]%N in
  unformatted (tokenize false (Some [CH_m]) s) = [97; 98; 27; 91; 50; 74; 27; 91; 51]%N
  /\ formatted (tokenize false (Some [CH_m]) s) = s.
Proof. vm_compute. split; reflexivity. Qed.
