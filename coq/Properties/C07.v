(* C07 - remove_formatting.  Statements only.  remove_fmt models AnsiString.remove_formatting after the
   settings have been scrubbed (as repaired, known_findings F8 F10 F24); clear_fmt models clear_formatting. *)
From AS Require Import Base.
From AS.Model Require Import Table Ops.
From AS.Proofs Require Import TableProofs BasicProofs.

Theorem C07_text : forall s sel st en, base (remove_fmt s sel st en) = base s.
Proof. exact remove_fmt_base. Qed.
Print Assumptions C07_text.

Theorem C07_noop : forall s sel st en,
  let len := length (base s) in
  let i := slice_idx len st 0 in let j := slice_idx len en len in
  (len <= i \/ j <= i) -> remove_fmt s sel st en = s.
Proof. intros s sel st en len i j H. apply remove_fmt_noop_range. apply range_empty_spec. exact H. Qed.
Print Assumptions C07_noop.

(* clear_formatting(): same text, no settings on any character *)
Theorem C07_clear : forall s, base (clear_fmt s) = base s /\ forall k, active_at (tbl (clear_fmt s)) k = [].
Proof. exact clear_fmt_spec. Qed.
Print Assumptions C07_clear.
