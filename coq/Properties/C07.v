(* C07 - remove_formatting removes exactly the requested settings, only inside the range.
   Statements only.  remove_fmt models AnsiString.remove_formatting after the settings have been
   scrubbed (as repaired, known_findings F8 F10 F24); clear_fmt models clear_formatting.
   rm_wf is the reachable-value invariant: change points strictly increasing, no object active twice,
   the library's strict self-check passes, no change point beyond the text, nothing left open.
   `keep sel l` = l without every setting whose text equals one of the given ones (all, when sel = None),
   in the old relative order; active_at (tbl s) k is what ansi_settings_at(k) reports. *)
From AS Require Import Base.
From AS.Model Require Import Table Ops.
From AS Require Import Effects.
From AS.Model Require Import Sgr Tokenizer Render Scrub Parse StrOps FormatSpec Exec.
From AS.Proofs Require Import TableProofs SliceProofs PadProofs RemoveProofs GenFns ExecProofs InvariantProofs ReachableCorollaries.
From AS.Proofs Require GenGuards.

Theorem C07_text : forall s sel st en, base (remove_fmt s sel st en) = base s.
Proof.
  intros. unfold remove_fmt. destruct (range_empty _ _ _); [reflexivity | apply remove_core_base].
Qed.
Print Assumptions C07_text.

(* an empty slice-normalised range is a no-op *)
Theorem C07_noop : forall s sel st en,
  range_empty (length (base s)) (slice_idx (length (base s)) st 0)
              (slice_idx (length (base s)) en (length (base s))) = true ->
  remove_fmt s sel st en = s.
Proof. exact remove_fmt_noop. Qed.
Print Assumptions C07_noop.

(* inside [i, j): the previous settings minus the selected ones, the remaining OBJECTS in their old
   order; outside (before and after): the same objects in the same order - hence the same precedence
   and the same displayed style; and the result satisfies the invariant again *)
Theorem C07_remove : forall s sel st en,
  let len := length (base s) in
  let i := slice_idx len st 0 in
  let j := slice_idx len en len in
  let r := remove_fmt s sel st en in
  rm_wf s -> range_empty len i j = false ->
  base r = base s
  /\ (forall k, k < i -> active_at (tbl r) k = active_at (tbl s) k)
  /\ (forall k, i <= k < j -> active_at (tbl r) k = keep sel (active_at (tbl s) k))
  /\ (forall k, j <= k -> active_at (tbl r) k = active_at (tbl s) k)
  /\ rm_wf r.
Proof. exact remove_fmt_spec. Qed.
Print Assumptions C07_remove.

(* settings=None removes everything inside the range *)
Theorem C07_remove_all : forall s start en, rm_hyps s start en ->
  forall k, start <= k < en -> active_at (tbl (remove_core s None start en)) k = [].
Proof. exact remove_core_all. Qed.
Print Assumptions C07_remove_all.

(* clear_formatting(): same text, no settings on any character, invariant holds *)
Theorem C07_clear : forall s,
  base (clear_fmt s) = base s /\ (forall k, active_at (tbl (clear_fmt s)) k = []) /\ rm_wf (clear_fmt s).
Proof. exact clear_fmt_full. Qed.
Print Assumptions C07_clear.

(* non-vacuity: a table with two equal-valued settings of different identity and a third one,
   range [1,4) cutting through all of them *)
Example C07_example := Ex.s0_hyps.
Example C07_example_result := Ex.s0_result.

(* the range normalisation (negative, omitted, too large bounds) IS the code's _slice_val_to_idx: its body
   is re-translated from the Python source on every run (Gen/Fns.v) and shown equal to slice_idx *)
Theorem C07_bounds_are_code : forall (len : nat) (v : option Z) (d : nat),
  Z.of_nat (slice_idx len v d) = AS.Gen.Fns.gen_slice_val_to_idx (Z.of_nat len) v (Z.of_nat d).
Proof. exact slice_idx_is_code. Qed.
Print Assumptions C07_bounds_are_code.

(* ... and the "empty range is a no-op" test IS the code's guard (`if (settings is not None and not settings) or
   start >= len(self._s) or end <= start: return`, re-translated on every run): for settings=None or a truthy
   selection it is Ops.range_empty; a selection that is given and falsy always returns at once *)
Theorem C07_guard_is_code : forall (len start e : nat) (none truthy : bool),
  none = true \/ truthy = true ->
  range_empty len start e = AS.Gen.Fns.gen_remove_skip none truthy (Z.of_nat start) (Z.of_nat e) (Z.of_nat len).
Proof. exact GenGuards.remove_guard_is_code. Qed.
Theorem C07_guard_falsy : forall start e len : Z, AS.Gen.Fns.gen_remove_skip false false start e len = true.
Proof. exact GenGuards.remove_guard_falsy. Qed.
Print Assumptions C07_guard_is_code.
Print Assumptions C07_guard_falsy.

(* FOR EVERY REACHABLE VALUE, every selection and every range *)
Theorem C07_reachable : forall p o sel st en, reachable_ok p -> In o (objs p) ->
  let s := o_val o in
  let len := length (base s) in
  let i := slice_idx len st 0 in let j := slice_idx len en len in
  let r := remove_fmt s sel st en in
  base r = base s /\ rm_wf r /\
  (range_empty len i j = true -> r = s) /\
  (range_empty len i j = false ->
     (forall k, k < i -> active_at (tbl r) k = active_at (tbl s) k)
     /\ (forall k, i <= k < j -> active_at (tbl r) k = keep sel (active_at (tbl s) k))
     /\ (forall k, j <= k -> active_at (tbl r) k = active_at (tbl s) k)).
Proof.
  intros p o sel st en Hr Hin s len i j r.
  destruct (reachable_value p o Hr Hin) as (_ & _ & W & _).
  split; [apply C07_text|].
  destruct (range_empty len i j) eqn:E.
  - assert (Er : r = s) by (apply remove_fmt_noop; exact E). split; [now rewrite Er|]. split; [auto | discriminate].
  - destruct (remove_fmt_spec s sel st en W E) as (_ & A & B & C & D). split; [exact D|]. split; [discriminate|]. auto.
Qed.
Print Assumptions C07_reachable.
