(* C13 - AnsiStr is equivalent to AnsiString; its str payload equals its rendering.
   Statements only.  In the model an object is (kind, value, payload); every method of an AnsiStr
   receiver is "the AnsiString operation on a copy, wrapped" by construction of Exec.store, so the
   discriminating half of the property - the real AnsiStr class really behaves like that for every
   shared method - is decided by the check's twin runs (every shared public method, computed from the
   classes at run time, on an AnsiString and an AnsiStr built by the same history) and by the
   correspondence on histories over both kinds.  Proved here: the payload invariant over all reachable
   pools, and that an AnsiStr receiver is never modified. *)
From AS Require Import Base Effects.
From AS.Model Require Import Sgr Tokenizer Table Ops Render Scrub Parse StrOps FormatSpec Exec.
From AS.Proofs Require Import ExecProofs.

(* one step keeps "payload = own rendering" for every AnsiStr object in the pool *)
Theorem C13_payload_step : forall p op p' idxs extra,
  Forall payload_ok (objs p) -> exec p op = OK (p', idxs, extra) -> Forall payload_ok (objs p').
Proof. exact exec_payload. Qed.
Print Assumptions C13_payload_step.

(* hence for every pool reachable by any sequence of operations, and for every history *)
Theorem C13_payload : forall p, reachable p -> Forall payload_ok (objs p).
Proof. exact reachable_payload. Qed.
Theorem C13_payload_history : forall ops, Forall payload_ok (objs (run_pool empty_pool ops)).
Proof. exact history_payload. Qed.
Print Assumptions C13_payload.
Print Assumptions C13_payload_history.

(* an AnsiStr receiver is immutable: every one of its methods returns new objects *)
Theorem C13_immutable : forall p op p' idxs extra o,
  exec p op = OK (p', idxs, extra) -> get p (target op) = Some o -> o_kind o = KStr -> unchanged p p'.
Proof. exact exec_kstr_unchanged. Qed.
Print Assumptions C13_immutable.

(* payload_ok means what it should *)
Theorem C13_payload_meaning : forall o, payload_ok o <->
  o_payload o = match o_kind o with KStr => render (o_val o) | KString => [] end.
Proof. intros o. unfold payload_ok. tauto. Qed.
Print Assumptions C13_payload_meaning.

Example C13_example := Examples.p2_payload.
