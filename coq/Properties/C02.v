(* C02 - Parsing ANSI-coded input.  Statements only.  parse models AnsiString.set_ansi_str (as repaired,
   known_findings F2 F3 F20) on top of the tokenizer of C19 restricted to the terminator 'm'. *)
From AS Require Import Base Effects.
From AS.Model Require Import Sgr Tokenizer Table Ops Render Parse.
From AS.Proofs Require Import TokenizerProofs ParseBasics.

(* base_str is the input with exactly the accepted sequences removed; by C19 (tokenize_wf) every
   accepted sequence is ESC [ body m with a body free of final bytes, and re-inserting them restores
   the input (tokenize_lossless), so every other character is kept verbatim and in place *)
Theorem C02_text : forall w nid, base (fst (parse w nid)) = unformatted (tokenize false (Some [CH_m]) w).
Proof. exact parse_base. Qed.
Print Assumptions C02_text.

Theorem C02_only_sgr_removed : forall w,
  Forall (wf_tok false (Some [CH_m])) (tokenize false (Some [CH_m]) w)
  /\ render_toks (tokenize false (Some [CH_m]) w) = w.
Proof. intros w. split; [apply tokenize_wf | apply tokenize_lossless]. Qed.
Print Assumptions C02_only_sgr_removed.

(* text without ESC is kept unchanged and unformatted *)
Theorem C02_plain : forall w nid, no_esc w = true -> parse w nid = (mkA w [], nid).
Proof. exact parse_plain. Qed.
Print Assumptions C02_plain.
