(* C02 - Parsing ANSI-coded input preserves text and appearance.
   Statements only.  parse models AnsiString.set_ansi_str (as repaired, known_findings F2 F3 F20) on top
   of the tokenizer of C19 restricted to the terminator 'm'.  The terminal (term_run, style_of, teq) is
   the SPECIFICATION of Spec/Terminal.v.  Input hypotheses of the style clause, both forced:
     numeric_toks : every SGR sequence body is [0-9;]*  - for any other body a terminal ignores the whole
                    sequence while the library keeps what Python's int() can read (Examples
                    non_numeric_differs / lenient_int_repaired in Proofs/ParseProofs.v);
     only_sgr     : no ESC [ is left in the text, i.e. every control sequence of the input ends in 'm'
                    - other control sequences are kept verbatim in base_str (as the statement says) but a
                    terminal swallows them (Example not_only_sgr_differs). *)
From AS Require Import Base Effects.
From AS.Spec Require Import Terminal.
From AS.Model Require Import Sgr Tokenizer Table Ops Render Parse.
From AS.Proofs Require Import TokenizerProofs ParseBasics RemoveProofs ApplyProofs ParseProofs ParsePosition.

(* base_str is the input with exactly the accepted sequences removed; by C19 (tokenize_wf) every
   accepted sequence is ESC [ body m with a body free of final bytes, and re-inserting them restores
   the input (tokenize_lossless), so every other character is kept verbatim and in place *)
Theorem C02_text : forall w nid, base (fst (parse w nid)) = unformatted (tokenize false (Some [CH_m]) w).
Proof. exact parse_base. Qed.
Print Assumptions C02_text.

Theorem C02_only_sgr_removed : forall w,
  Forall (wf_tok false (Some [CH_m])) (tokenize false (Some [CH_m]) w)
  /\ render_toks (tokenize false (Some [CH_m]) w) = w.
Proof. intros w. split; [apply tokenize_wf | apply tokenize_lossless]. Qed.
Print Assumptions C02_only_sgr_removed.

(* text without ESC is kept unchanged and unformatted *)
Theorem C02_plain : forall w nid, no_esc w = true -> parse w nid = (mkA w [], nid).
Proof. exact parse_plain. Qed.
Print Assumptions C02_plain.

(* THE STYLE CLAUSE: the terminal displays exactly base_str, and every character reports settings whose
   effective style is exactly the state the terminal has when it displays that character - known codes
   applied in order, extended-colour groups recognised wherever they occur, clear codes and reset
   honoured, unknown codes and incomplete groups ignored, an empty parameter read as 0, several
   sequences at one position, sequences at the very start or end *)
Theorem C02_style : forall w nid,
  let toks := tokenize false (Some [CH_m]) w in
  numeric_toks toks = true -> only_sgr toks = true ->
  let s := fst (parse w nid) in
  let disp := fst (term_run tdefault w) in
  map fst disp = base s
  /\ forall i c ti, nth_error disp i = Some (c, ti) ->
       teq ti (style_of (map stxt (active_at (tbl s) i))).
Proof. exact parse_style. Qed.
Print Assumptions C02_style.

(* THE POSITION CLAUSE, without only_sgr: control sequences that are not accepted (another final byte than m, or
   unterminated at the end) stay in the text as characters, and EVERY character of the text, theirs included,
   reports the style reached by the accepted sequences in front of it, in order.  tk_run is the specification
   terminal run over the token list (a character token is displayed with the current state, a sequence token
   moves the state); with only_sgr it is the terminal run on the raw input (term_tok_bridge'), which gives
   C02_style.  The state a character is displayed with depends only on how many characters precede it and on
   the sequences, not on which characters they are (C02_position_blank): a rejected sequence counts as that
   many ordinary characters. *)
Theorem C02_style_tokens : forall w nid,
  let toks := tokenize false (Some [CH_m]) w in
  numeric_toks toks = true ->
  let s := fst (parse w nid) in
  let disp := fst (tk_run tdefault toks) in
  map fst disp = base s
  /\ forall i c ti, nth_error disp i = Some (c, ti) ->
       teq ti (style_of (map stxt (active_at (tbl s) i))).
Proof. exact parse_style_tokens. Qed.
Print Assumptions C02_style_tokens.

Theorem C02_position_blank : forall c0 l t,
  map snd (fst (tk_run t (map (blank c0) l))) = map snd (fst (tk_run t l))
  /\ snd (tk_run t (map (blank c0) l)) = snd (tk_run t l).
Proof. exact tk_run_blank. Qed.
Print Assumptions C02_position_blank.

(* one sequence moves the effect dictionary exactly as it moves the terminal state *)
Theorem C02_sequence : forall s cur key body nid p, params_of body = Some p -> AS.Proofs.SgrProofs.nodupk cur ->
  let new := snd (fst (parse_step s cur key body nid)) in
  teq (as_t' new) (sgr spec_class (as_t' cur) p) /\ AS.Proofs.SgrProofs.nodupk new.
Proof. exact parse_step_dict. Qed.
Print Assumptions C02_sequence.

(* the constructed value satisfies the reachable-value invariant, for EVERY input string, and the
   identities it allocates are exactly the fresh ones *)
Theorem C02_wf : forall w nid,
  rm_wf (fst (parse w nid)) /\ nid <= snd (parse w nid) /\ ids_lt (tbl (fst (parse w nid))) (snd (parse w nid)).
Proof. exact parse_wf. Qed.
Print Assumptions C02_wf.

(* non-vacuity and the necessity of the hypotheses *)
Example C02_example_hyps := ParseExamples.hyps_ok.
Example C02_example_agree := ParseExamples.agree_ok.
Example C02_needs_numeric := ParseExamples.non_numeric_differs.
Example C02_needs_only_sgr := ParseExamples.not_only_sgr_differs.
Example C02_rejected_counts_as_text := PositionExamples.rejected_counts_as_text.
