(* C12 - Padding: text as format(), fill styled only when extending.
   Statements only.  ljust / rjust / center model AnsiString.ljust/rjust/center (center as repaired,
   known_findings F14); zfill(w) is rjust(w, '0') with extension (Exec.op_11 / impl.py).  `wf` is the
   part of the reachable-value invariant these theorems need: change points strictly increasing, none
   beyond the text, nothing left open after the last one, no stop marker at index 0. *)
From AS Require Import Base.
From AS.Model Require Import Table Ops.
From AS Require Import Effects.
From AS.Model Require Import Sgr Render Scrub Parse FormatSpec.
From AS.Proofs Require Import TableProofs SliceProofs PadProofs FormatSpecProofs.
From AS.Proofs Require GenGuards.

(* width not above the length: nothing happens *)
Theorem C12_noop : forall s width fill ext, (width <= Z.of_nat (length (base s)))%Z ->
  ljust s width fill ext = s /\ rjust s width fill ext = s /\ center s width fill ext = s.
Proof. intros; repeat split; [apply ljust_noop | apply rjust_noop | apply center_noop]; assumption. Qed.
Print Assumptions C12_noop.

(* ljust: fill on the right; original characters keep their settings (same objects, same order);
   fill characters take the settings of the last original character iff formatting is extended;
   the result is again well formed, so text appended to it is not styled by it *)
Theorem C12_ljust : forall (s : astr) (width : Z) (fill : char) (ext : bool),
  wf s -> 0 < length (base s) -> (Z.of_nat (length (base s)) < width)%Z ->
  let len := length (base s) in
  let n := Z.to_nat (width - Z.of_nat len) in
  let r := ljust s width fill ext in
  base r = base s ++ repeat fill n
  /\ (forall k, k < len -> active_at (tbl r) k = active_at (tbl s) k)
  /\ (forall k, len <= k < len + n ->
        active_at (tbl r) k = if ext then active_at (tbl s) (len - 1) else [])
  /\ ssorted (tbl r) /\ keys_le (tbl r) (len + n) /\ final_active (tbl r) = []
  /\ wf r.
Proof. exact ljust_spec. Qed.
Print Assumptions C12_ljust.

Theorem C12_rjust : forall (s : astr) (width : Z) (fill : char) (ext : bool),
  wf s -> 0 < length (base s) -> (Z.of_nat (length (base s)) < width)%Z ->
  let len := length (base s) in
  let n := Z.to_nat (width - Z.of_nat len) in
  let r := rjust s width fill ext in
  base r = repeat fill n ++ base s
  /\ (forall k, k < len -> active_at (tbl r) (n + k) = active_at (tbl s) k)
  /\ (forall k, k < n -> active_at (tbl r) k = if ext then active_at (tbl s) 0 else [])
  /\ ssorted (tbl r) /\ keys_le (tbl r) (len + n) /\ final_active (tbl r) = []
  /\ wf r.
Proof. exact rjust_spec. Qed.
Print Assumptions C12_rjust.

(* center pads like format()'s '^': floor(n/2) on the left, the rest on the right *)
Theorem C12_center : forall (s : astr) (width : Z) (fill : char) (ext : bool),
  wf s -> 0 < length (base s) -> (Z.of_nat (length (base s)) < width)%Z ->
  let len := length (base s) in
  let n := Z.to_nat (width - Z.of_nat len) in
  let left := Nat.div2 n in
  let right := n - left in
  let r := center s width fill ext in
  base r = repeat fill left ++ base s ++ repeat fill right
  /\ (forall k, k < len -> active_at (tbl r) (left + k) = active_at (tbl s) k)
  /\ (forall k, k < left -> active_at (tbl r) k = if ext then active_at (tbl s) 0 else [])
  /\ (forall k, left + len <= k < len + n ->
        active_at (tbl r) k = if ext then active_at (tbl s) (len - 1) else [])
  /\ ssorted (tbl r) /\ keys_le (tbl r) (len + n) /\ final_active (tbl r) = []
  /\ wf r.
Proof. exact center_spec. Qed.
Print Assumptions C12_center.

(* the division of the fill in center() (left = n div 2, right = n - left: the extra character of an odd surplus goes
   to the right) IS the code's `left_spaces = math.floor(num / 2); right_spaces = num - left_spaces`, re-translated from
   the Python source on every run (math.floor of a float quotient: the integer quotient for surpluses below 2^53) *)
Theorem C12_center_split_is_code : forall n : nat,
  AS.Gen.Fns.gen_center_split (Z.of_nat n) = (Z.of_nat (Nat.div2 n), Z.of_nat (n - Nat.div2 n)).
Proof. exact GenGuards.center_split_is_code. Qed.
Print Assumptions C12_center_split_is_code.

(* ---------- the format specification  [string_format[:ansi_format]]  ----------
   string_format = [[fill][+|-]align][width]; the recognisers of Model/FormatSpec.v stand for the
   repository's four regular expressions (tied to Python's re by the correspondence check on generated
   specs, newline fills and trailing newlines included since the repairs F29 / F30). *)

(* printer / recogniser round trip for every fill character (':', '+', '-', '<', '>', '^' and digits
   included), flag, alignment and width; the documented reading is greedy: without a fill character a
   lone +/- before the alignment character IS the fill *)
Theorem C12_spec_roundtrip : forall fill flag al w, flag_ok flag -> digits w ->
  parse_string_format (print_sf fill flag al w) =
  SFok {| sf_fill := greedy_fill fill flag; sf_flag := greedy_flag fill flag; sf_align := al; sf_width := w |}.
Proof. exact parse_print_sf. Qed.
Theorem C12_spec_bare_width : forall w, digits w -> parse_string_format w = SFok (bare w).
Proof. exact parse_string_format_digits. Qed.
Print Assumptions C12_spec_roundtrip.

(* exactly the grammar is accepted; anything else raises ValueError *)
Theorem C12_spec_grammar : forall s, (exists f, parse_string_format s = SFok f) <-> in_grammar s.
Proof. exact parse_string_format_grammar. Qed.
Theorem C12_spec_error : forall s fmt settings nid,
  ~ in_grammar fmt -> apply_string_format s fmt settings nid = Err ValueError.
Proof. exact apply_string_format_outside_grammar. Qed.
Print Assumptions C12_spec_grammar.
Print Assumptions C12_spec_error.

(* the second colon: a string_format of the grammar, followed by ':' and any ansi part, is split there
   - also when the fill character is itself ':' *)
Theorem C12_spec_split : forall fill flag al w o, flag_ok flag -> digits w ->
  split_spec (print_sf fill flag al w ++ colon_tail o) = Some (print_sf fill flag al w, o).
Proof. exact split_spec_print_sf. Qed.
Theorem C12_spec_split_sound : forall spec p0 o,
  split_spec spec = Some (p0, o) -> spec = p0 ++ colon_tail o /\ in_grammar p0.
Proof. exact split_spec_sound. Qed.
Print Assumptions C12_spec_split.

(* format(s, spec) = padding and apply_formatting on a copy: when extending (no flag or '+') pad first
   (fill styled like the adjacent character) and apply the ansi part to the whole padded result;
   with '-' apply the ansi part to the original characters only, then pad without styling the fill *)
Theorem C12_format : forall s spec p0 o nid, split_spec spec = Some (p0, o) ->
  exists f, parse_string_format p0 = SFok f /\
  spec_object s spec nid =
  if ext_of (sf_flag f)
  then apply_spec_settings (pad_width (sf_align f) s (sf_width f) (fill_of (sf_fill f)) true) o nid
  else do (s1, nid1) <- apply_spec_settings s o nid;
       OK (pad_width (sf_align f) s1 (sf_width f) (fill_of (sf_fill f)) false, nid1).
Proof. exact spec_object_sem. Qed.
Theorem C12_format_renders_object : forall s sp optimize reset_start reset_end nid, sp <> [] ->
  to_str_spec s (Some sp) optimize reset_start reset_end nid =
  do (obj, _) <- spec_object s sp nid; OK (to_str obj optimize reset_start reset_end).
Proof. exact to_str_spec_spec_object. Qed.
Theorem C12_format_error : forall s spec nid, split_spec spec = None -> spec_object s spec nid = Err ValueError.
Proof. exact spec_object_no_match. Qed.
Print Assumptions C12_format.
Print Assumptions C12_format_renders_object.

(* non-vacuity: a value with two overlapping settings satisfies wf, and is padded as stated *)
Example C12_example :
  let red := mkS 1 [51; 49]%N in let bold := mkS 2 [49]%N in
  let s := mkA [97; 98; 99]%N [(0, mkP [red] []); (1, mkP [bold] []); (3, mkP [] [red; bold])] in
  wf s /\ center s 6%Z 42%N true
          = mkA [42; 97; 98; 99; 42; 42]%N [(0, mkP [red] []); (2, mkP [bold] []); (6, mkP [] [red; bold])].
Proof.
  cbv zeta. split; [|vm_compute; reflexivity].
  unfold wf. cbn [tbl base]. repeat split.
  - repeat constructor; simpl; intros kp H; repeat destruct H as [<-|H]; simpl; try lia; tauto.
  - intros kp H. simpl in H. repeat destruct H as [<-|H]; simpl; try lia; tauto.
  - intros p H. vm_compute in H. inversion H. reflexivity.
Qed.
