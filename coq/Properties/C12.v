(* C12 - Padding: text as format(), fill styled only when extending.
   Statements only.  ljust / rjust / center model AnsiString.ljust/rjust/center (center as repaired,
   known_findings F14); zfill(w) is rjust(w, '0') with extension (Exec.op_11 / impl.py).  `wf` is the
   part of the reachable-value invariant these theorems need: change points strictly increasing, none
   beyond the text, nothing left open after the last one, no stop marker at index 0. *)
From AS Require Import Base.
From AS.Model Require Import Table Ops.
From AS.Proofs Require Import TableProofs SliceProofs PadProofs.

(* width not above the length: nothing happens *)
Theorem C12_noop : forall s width fill ext, (width <= Z.of_nat (length (base s)))%Z ->
  ljust s width fill ext = s /\ rjust s width fill ext = s /\ center s width fill ext = s.
Proof. intros; repeat split; [apply ljust_noop | apply rjust_noop | apply center_noop]; assumption. Qed.
Print Assumptions C12_noop.

(* ljust: fill on the right; original characters keep their settings (same objects, same order);
   fill characters take the settings of the last original character iff formatting is extended;
   the result is again well formed, so text appended to it is not styled by it *)
Theorem C12_ljust : forall (s : astr) (width : Z) (fill : char) (ext : bool),
  wf s -> 0 < length (base s) -> (Z.of_nat (length (base s)) < width)%Z ->
  let len := length (base s) in
  let n := Z.to_nat (width - Z.of_nat len) in
  let r := ljust s width fill ext in
  base r = base s ++ repeat fill n
  /\ (forall k, k < len -> active_at (tbl r) k = active_at (tbl s) k)
  /\ (forall k, len <= k < len + n ->
        active_at (tbl r) k = if ext then active_at (tbl s) (len - 1) else [])
  /\ ssorted (tbl r) /\ keys_le (tbl r) (len + n) /\ final_active (tbl r) = []
  /\ wf r.
Proof. exact ljust_spec. Qed.
Print Assumptions C12_ljust.

Theorem C12_rjust : forall (s : astr) (width : Z) (fill : char) (ext : bool),
  wf s -> 0 < length (base s) -> (Z.of_nat (length (base s)) < width)%Z ->
  let len := length (base s) in
  let n := Z.to_nat (width - Z.of_nat len) in
  let r := rjust s width fill ext in
  base r = repeat fill n ++ base s
  /\ (forall k, k < len -> active_at (tbl r) (n + k) = active_at (tbl s) k)
  /\ (forall k, k < n -> active_at (tbl r) k = if ext then active_at (tbl s) 0 else [])
  /\ ssorted (tbl r) /\ keys_le (tbl r) (len + n) /\ final_active (tbl r) = []
  /\ wf r.
Proof. exact rjust_spec. Qed.
Print Assumptions C12_rjust.

(* center pads like format()'s '^': floor(n/2) on the left, the rest on the right *)
Theorem C12_center : forall (s : astr) (width : Z) (fill : char) (ext : bool),
  wf s -> 0 < length (base s) -> (Z.of_nat (length (base s)) < width)%Z ->
  let len := length (base s) in
  let n := Z.to_nat (width - Z.of_nat len) in
  let left := Nat.div2 n in
  let right := n - left in
  let r := center s width fill ext in
  base r = repeat fill left ++ base s ++ repeat fill right
  /\ (forall k, k < len -> active_at (tbl r) (left + k) = active_at (tbl s) k)
  /\ (forall k, k < left -> active_at (tbl r) k = if ext then active_at (tbl s) 0 else [])
  /\ (forall k, left + len <= k < len + n ->
        active_at (tbl r) k = if ext then active_at (tbl s) (len - 1) else [])
  /\ ssorted (tbl r) /\ keys_le (tbl r) (len + n) /\ final_active (tbl r) = []
  /\ wf r.
Proof. exact center_spec. Qed.
Print Assumptions C12_center.

(* non-vacuity: a value with two overlapping settings satisfies wf, and is padded as stated *)
Example C12_example :
  let red := mkS 1 [51; 49]%N in let bold := mkS 2 [49]%N in
  let s := mkA [97; 98; 99]%N [(0, mkP [red] []); (1, mkP [bold] []); (3, mkP [] [red; bold])] in
  wf s /\ center s 6%Z 42%N true
          = mkA [42; 97; 98; 99; 42; 42]%N [(0, mkP [red] []); (2, mkP [bold] []); (6, mkP [] [red; bold])].
Proof.
  cbv zeta. split; [|vm_compute; reflexivity].
  unfold wf. cbn [tbl base]. repeat split.
  - repeat constructor; simpl; intros kp H; repeat destruct H as [<-|H]; simpl; try lia; tauto.
  - intros kp H. simpl in H. repeat destruct H as [<-|H]; simpl; try lia; tauto.
  - intros p H. vm_compute in H. inversion H. reflexivity.
Qed.
