(* C03 - Render / re-parse round trip and simplify().  Statements only (initial set).
   simplify models AnsiString.simplify: drop invalid settings, render, parse the rendering. *)
From AS Require Import Base Effects.
From AS.Model Require Import Sgr Tokenizer Table Ops Render Parse.
From AS.Proofs Require Import TokenizerProofs ParseBasics.

Theorem C03_simplify_def : forall s nid,
  simplify s nid = parse (render (mkA (base s) (drop_invalid (tbl s)))) nid.
Proof. exact simplify_def. Qed.
Print Assumptions C03_simplify_def.

(* invalid settings are gone before the value is rendered *)
Theorem C03_invalid_dropped : forall t, is_valid_tbl (drop_invalid t) = true.
Proof. exact drop_invalid_valid. Qed.
Print Assumptions C03_invalid_dropped.

(* the text of a re-parsed rendering is the rendering minus its SGR sequences *)
Theorem C03_reparse_text : forall s nid,
  base (fst (parse (render s) nid)) = unformatted (tokenize false (Some [CH_m]) (render s)).
Proof. intros. apply parse_base. Qed.
Print Assumptions C03_reparse_text.
