(* C03 - Render / re-parse round trip and simplify() preserve appearance and are stable.
   Statements only.  render s = str(s) = to_str(optimize, no reset_start, reset_end); parse models
   AnsiString(text) (set_ansi_str); simplify models AnsiString.simplify: drop the invalid settings,
   render, parse the rendering (as repaired: known_findings F2 F3 F4 F20 F28).
   style s i := style_of (texts of the settings character i reports) - the effective style on the
   SPECIFICATION terminal; teq is exact equality of terminal states.  Hypotheses:
     ssorted          - change points strictly increasing (reachable-value invariant, C09);
     no_esc (base s)  - no ESC in the base text (known finding K1); the round trip itself is proved under the
                        weaker cuts_closed s (C03_roundtrip_esc below): embedded control sequences are allowed when
                        they are complete, not SGR, and no change point lies strictly inside one;
     adds_wf / valid_adds_wf - the (valid) setting texts are well-formed SGR parameter groups, the
                        premise of the property;
     coh_marks        - an object identity determines its text (true of Python objects; needed because
                        model settings are (identity, text) pairs). *)
From AS Require Import Base Effects.
From AS.Spec Require Import Terminal.
From AS.Model Require Import Sgr Tokenizer Table Ops Render Parse.
From AS.Proofs Require Import TableProofs TokenizerProofs ParseBasics RemoveProofs RenderProofs ParseProofs RoundTripProofs RoundTripEsc SimplifyEsc.

Theorem C03_simplify_def : forall s nid,
  simplify s nid = parse (render (mkA (base s) (drop_invalid (tbl s)))) nid.
Proof. exact simplify_def. Qed.
Print Assumptions C03_simplify_def.

(* AnsiString(str(s)): same text, EXACTLY the same effective style on every character; the re-parsed
   value is well formed, parsable and valid; and its own str() is a fixed point of parse-then-render *)
Theorem C03_roundtrip : forall s nid,
  ssorted (tbl s) -> no_esc (base s) = true -> adds_wf (tbl s) ->
  let s' := fst (parse (render s) nid) in
  base s' = base s
  /\ (forall i, i < length (base s) -> teq (style s' i) (style s i))
  /\ rm_wf s' /\ is_parsable_tbl (tbl s') = true /\ is_valid_tbl (tbl s') = true
  /\ (forall n, render (fst (parse (render s') n)) = render s').
Proof. exact RoundTripProofs.C03_roundtrip. Qed.
Print Assumptions C03_roundtrip.

(* the same for to_str under every combination of optimize / reset_start / reset_end *)
Theorem C03_roundtrip_all_flags : forall s opt rs re nid,
  ssorted (tbl s) -> no_esc (base s) = true -> adds_wf (tbl s) ->
  let s' := fst (parse (to_str s opt rs re) nid) in
  base s' = base s /\ forall i, i < length (base s) -> teq (style s' i) (style s i).
Proof. exact roundtrip_to_str_exact. Qed.
Print Assumptions C03_roundtrip_all_flags.

(* THE ROUND TRIP WITH EMBEDDED CONTROL SEQUENCES.  no_esc is stronger than needed: the library keeps control
   sequences that are not SGR verbatim in the text, and str() / re-parse is correct for such a value as long as the
   text is "closed" - every ESC [ in it starts a COMPLETE sequence with a final byte other than m, and it does not
   end in ESC (closed_text, a three-state reader) - and so is its prefix up to every change point, i.e. no style
   change lies strictly inside an embedded sequence (cuts_closed).  What falls outside is exactly known finding K1
   (Examples C03_cut_inside_breaks, C03_open_end_breaks).  A closed text tokenises to its own characters in every
   context (C03_closed_tokenises). *)
Theorem C03_closed_tokenises : forall x rest, closed_text x = true ->
  Tokenizer.tokenize false (Some [CH_m]) (x ++ rest) = map TChar x ++ Tokenizer.tokenize false (Some [CH_m]) rest.
Proof. exact tkz_closed. Qed.
Print Assumptions C03_closed_tokenises.

Theorem C03_roundtrip_esc : forall s opt rs re nid,
  ssorted (tbl s) -> adds_wf (tbl s) -> cuts_closed s = true ->
  let s' := fst (parse (to_str s opt rs re) nid) in
  base s' = base s /\ forall i, i < length (base s) -> teq (style s' i) (style s i).
Proof. exact roundtrip_esc. Qed.
Print Assumptions C03_roundtrip_esc.

Theorem C03_roundtrip_esc_wf : forall s nid,
  ssorted (tbl s) -> adds_wf (tbl s) -> cuts_closed s = true ->
  let s' := fst (parse (render s) nid) in
  base s' = base s /\ (forall i, i < length (base s) -> teq (style s' i) (style s i))
  /\ rm_wf s' /\ is_parsable_tbl (tbl s') = true /\ is_valid_tbl (tbl s') = true.
Proof. exact roundtrip_esc_render. Qed.
Print Assumptions C03_roundtrip_esc_wf.

(* ... with the stability clause: the re-parsed value is a fixed point of parse-then-render and satisfies cuts_closed again *)
Theorem C03_roundtrip_esc_full : forall s nid,
  ssorted (tbl s) -> cuts_closed s = true -> adds_wf (tbl s) ->
  let s' := fst (parse (render s) nid) in
  base s' = base s
  /\ (forall i, i < length (base s) -> teq (style s' i) (style s i))
  /\ rm_wf s' /\ is_parsable_tbl (tbl s') = true /\ is_valid_tbl (tbl s') = true
  /\ (forall n, render (fst (parse (render s') n)) = render s')
  /\ cuts_closed s' = true.
Proof. exact SimplifyEsc.C03_roundtrip_esc_full. Qed.
Print Assumptions C03_roundtrip_esc_full.

(* simplify() on a text with embedded control sequences: ALL clauses of C03_simplify below with cuts_closed in place of no_esc
   (text, style over the valid settings, parsable, valid, well formed, idempotence, fixed point), and the simplified value
   satisfies the hypotheses again *)
Theorem C03_simplify_esc : forall s n1,
  ssorted (tbl s) -> cuts_closed s = true -> valid_adds_wf (tbl s) ->
  let s1 := fst (simplify s n1) in
  base s1 = base s
  /\ (forall i, i < length (base s) -> teq (style s1 i) (style_of (map stxt (active_at (drop_invalid (tbl s)) i))))
  /\ (coh_marks (tbl s) -> forall i, i < length (base s) -> teq (style s1 i) (style_valid s i))
  /\ is_parsable_tbl (tbl s1) = true /\ is_valid_tbl (tbl s1) = true /\ rm_wf s1
  /\ (forall n2, render (fst (simplify s1 n2)) = render s1)
  /\ (forall n, render (fst (parse (render s1) n)) = render s1)
  /\ cuts_closed s1 = true /\ valid_adds_wf (tbl s1) /\ ssorted (tbl s1).
Proof. exact SimplifyEsc.C03_simplify_esc. Qed.
Print Assumptions C03_simplify_esc.

Example C03_simplify_esc_example := SimplifyEsc.ex_ei_simplify.
Example C03_simplify_cut_inside_breaks := SimplifyEsc.simplify_cut_inside_breaks.

(* it covers the ESC-free case *)
Theorem C03_no_esc_is_closed : forall s, no_esc (base s) = true -> cuts_closed s = true.
Proof. exact no_esc_cuts_closed. Qed.

Example C03_esc_example_hyps := ex_e_hyps.
Example C03_esc_example_roundtrip := ex_e_roundtrip.
Example C03_cut_inside_breaks := cut_inside_breaks.
Example C03_open_end_breaks := open_end_breaks.

(* simplify(): the text and the effective style of every character (computed from the VALID settings:
   invalid ones are dropped by definition) are unchanged; afterwards is_formatting_parsable() and
   is_formatting_valid() are True and the value is well formed; a second simplify() leaves str()
   unchanged (idempotence); str() of the simplified value is a fixed point:
   str(AnsiString(str(s1))) == str(s1) *)
Theorem C03_simplify : forall s n1,
  ssorted (tbl s) -> no_esc (base s) = true -> valid_adds_wf (tbl s) ->
  let s1 := fst (simplify s n1) in
  base s1 = base s
  /\ (forall i, i < length (base s) -> teq (style s1 i) (style_of (map stxt (active_at (drop_invalid (tbl s)) i))))
  /\ (coh_marks (tbl s) -> forall i, i < length (base s) -> teq (style s1 i) (style_valid s i))
  /\ is_parsable_tbl (tbl s1) = true /\ is_valid_tbl (tbl s1) = true /\ rm_wf s1
  /\ (forall n2, render (fst (simplify s1 n2)) = render s1)
  /\ (forall n, render (fst (parse (render s1) n)) = render s1).
Proof. exact RoundTripProofs.C03_simplify. Qed.
Print Assumptions C03_simplify.

(* parsing ANY input yields only parsable, valid settings *)
Theorem C03_parse_parsable : forall w nid,
  is_parsable_tbl (tbl (fst (parse w nid))) = true /\ is_valid_tbl (tbl (fst (parse w nid))) = true.
Proof. exact parse_parsable. Qed.
Print Assumptions C03_parse_parsable.

(* invalid settings are gone before the value is rendered; dropping them is filtering, per character *)
Theorem C03_invalid_dropped : forall t, is_valid_tbl (drop_invalid t) = true.
Proof. exact drop_invalid_valid. Qed.
Theorem C03_drop_invalid_active : forall t i, coh_marks t ->
  active_at (drop_invalid t) i = filter validS (active_at t i).
Proof. exact drop_invalid_active. Qed.
Print Assumptions C03_drop_invalid_active.

(* regression of finding F28 (clear code 10 re-parsed as a font setting) and further concrete values *)
Example C03_f28_regression := simplify_stable_regression.
Example C03_stability_examples := StabilityExamples.stability_examples.
