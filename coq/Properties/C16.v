(* C16 - format_matching / unformat_matching equal apply / remove over the re matches.
   Statements only.  The match spans are DATA here: the harness computes them with Python's re exactly
   as the property says (pattern escaped unless regex=True, IGNORECASE unless match_case=True, first
   `count` non-overlapping matches) and the correspondence check compares the implementation's own
   format_matching / unformat_matching with this model on the same spans.  What is proved is that the
   model's operation IS the explicit loop, that the text never changes, that without a match nothing
   changes, that characters outside all matches keep their settings (the same objects in the same
   order), and what the characters of each match gain / lose.  `good f nid a` is the reachable-value
   invariant of C09 for one value (well formed, identities below the allocation counter, coherent). *)
From AS Require Import Base Effects.
From AS.Model Require Import Sgr Table Ops Scrub Parse Exec.
From AS.Proofs Require Import BasicProofs MatchProofs InvariantProofs RemoveProofs MatchProofs2.
Local Open Scope Z_scope.

Theorem C16_format_is_loop : forall p nid i spans fx o, get p (Z.to_nat i) = Some o ->
  op_22 p nid [A i; L (map sx_of_span spans); fx]
  = (do (a, nid') <- apply_spans (o_val o) (form_of_sx fx) spans nid;
     store (with_id p nid') (Z.to_nat i) o true a).
Proof. exact op_22_is_loop. Qed.
Print Assumptions C16_format_is_loop.

Theorem C16_unformat_is_loop : forall p nid i spans fx o, get p (Z.to_nat i) = Some o ->
  op_23 p nid [A i; L (map sx_of_span spans); fx]
  = (do a <- remove_spans (o_val o) (optform_of_sx fx) spans; store p (Z.to_nat i) o true a).
Proof. exact op_23_is_loop. Qed.
Print Assumptions C16_unformat_is_loop.

(* the text never changes *)
Theorem C16_text_format : forall f spans a nid a' nid',
  apply_spans a f spans nid = OK (a', nid') -> base a' = base a.
Proof. exact apply_spans_base. Qed.
Print Assumptions C16_text_format.
Theorem C16_text_unformat : forall f spans a a', remove_spans a f spans = OK a' -> base a' = base a.
Proof. exact remove_spans_base. Qed.
Print Assumptions C16_text_unformat.

(* count = 0 or no match: the object is left as it was *)
Theorem C16_no_match : forall a f g nid, apply_spans a f [] nid = OK (a, nid) /\ remove_spans a g [] = OK a.
Proof. intros; split; reflexivity. Qed.
Print Assumptions C16_no_match.

(* characters outside all matches keep their settings; the value stays well formed *)
Theorem C16_format_outside : forall f nid a fm spans a' nid', good f nid a ->
  apply_spans a fm spans nid = OK (a', nid') ->
  base a' = base a /\ (exists f', ext nid f f' /\ (nid <= nid')%nat /\ good f' nid' a')
  /\ forall k, outside (length (base a)) spans k -> active_at (tbl a') k = active_at (tbl a) k.
Proof. exact format_matching_outside. Qed.
Theorem C16_unformat_outside : forall f n a fm spans a', good f n a ->
  remove_spans a fm spans = OK a' ->
  base a' = base a /\ good f n a'
  /\ forall k, outside (length (base a)) spans k -> active_at (tbl a') k = active_at (tbl a) k.
Proof. exact unformat_matching_outside. Qed.
Print Assumptions C16_format_outside.
Print Assumptions C16_unformat_outside.

(* inside a match, for non-overlapping matches in increasing order (what re.finditer yields): the
   characters of match sp lose exactly the selected settings (all of them for no format / None) ... *)
Theorem C16_unformat_inside : forall f n a fm sel pre sp post a', good f n a ->
  optform_falsy fm = false -> sel_of fm sel -> ordered (length (base a)) (pre ++ sp :: post) ->
  range_empty (length (base a)) (span_lo (length (base a)) sp) (span_hi (length (base a)) sp) = false ->
  remove_spans a fm (pre ++ sp :: post) = OK a' ->
  forall k, inside (length (base a)) sp k -> active_at (tbl a') k = RemoveProofs.keep sel (active_at (tbl a) k).
Proof. exact unformat_matching_inside. Qed.
Print Assumptions C16_unformat_inside.
(* ... and gain exactly the new settings, as one block on top at the first character of the match *)
Theorem C16_format_inside : forall f nid a fm texts pre sp post a' nid', good f nid a ->
  form_falsy fm = false -> scrub fm = OK texts -> texts <> [] ->
  ordered (length (base a)) (pre ++ sp :: post) ->
  range_empty (length (base a)) (span_lo (length (base a)) sp) (span_hi (length (base a)) sp) = false ->
  apply_spans a fm (pre ++ sp :: post) nid = OK (a', nid') ->
  let n1 := (nid + length texts * nonempty_count (length (base a)) pre)%nat in
  let new := fst (fresh texts n1) in
  (n1 + length texts <= nid')%nat /\ map stxt new = texts /\
  forall k, inside (length (base a)) sp k ->
    exists l1 l2, active_at (tbl a) k = l1 ++ l2 /\ active_at (tbl a') k = l1 ++ new ++ l2
      /\ (forall x, In x l1 -> In x (active_at (tbl a) (span_lo (length (base a)) sp)))
      /\ (k = span_lo (length (base a)) sp -> l2 = []).
Proof. exact format_matching_inside. Qed.
Print Assumptions C16_format_inside.

Example C16_example := MatchExamples.ex_apply_spans.
