(* C16 - format_matching / unformat_matching equal apply / remove over the re matches.
   Statements only.  The match spans are DATA here: the harness computes them with Python's re exactly
   as the property says (pattern escaped unless regex=True, IGNORECASE unless match_case=True, first
   `count` non-overlapping matches) and the correspondence check compares the implementation's own
   format_matching / unformat_matching with this model on the same spans.  What is proved is that the
   model's operation IS the explicit loop, that the text never changes, and that without a match
   nothing changes. *)
From AS Require Import Base Effects.
From AS.Model Require Import Sgr Table Ops Scrub Parse Exec.
From AS.Proofs Require Import BasicProofs MatchProofs.
Local Open Scope Z_scope.

Theorem C16_format_is_loop : forall p nid i spans fx o, get p (Z.to_nat i) = Some o ->
  op_22 p nid [A i; L (map sx_of_span spans); fx]
  = (do (a, nid') <- apply_spans (o_val o) (form_of_sx fx) spans nid;
     store (with_id p nid') (Z.to_nat i) o true a).
Proof. exact op_22_is_loop. Qed.
Print Assumptions C16_format_is_loop.

Theorem C16_unformat_is_loop : forall p nid i spans fx o, get p (Z.to_nat i) = Some o ->
  op_23 p nid [A i; L (map sx_of_span spans); fx]
  = (do a <- remove_spans (o_val o) (optform_of_sx fx) spans; store p (Z.to_nat i) o true a).
Proof. exact op_23_is_loop. Qed.
Print Assumptions C16_unformat_is_loop.

(* the text never changes *)
Theorem C16_text_format : forall f spans a nid a' nid',
  apply_spans a f spans nid = OK (a', nid') -> base a' = base a.
Proof. exact apply_spans_base. Qed.
Print Assumptions C16_text_format.
Theorem C16_text_unformat : forall f spans a a', remove_spans a f spans = OK a' -> base a' = base a.
Proof. exact remove_spans_base. Qed.
Print Assumptions C16_text_unformat.

(* count = 0 or no match: the object is left as it was *)
Theorem C16_no_match : forall a f g nid, apply_spans a f [] nid = OK (a, nid) /\ remove_spans a g [] = OK a.
Proof. intros; split; reflexivity. Qed.
Print Assumptions C16_no_match.
