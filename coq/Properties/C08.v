(* C08 - Value semantics: arguments and receivers not mutated, results not aliased.
   Statements only.  `exec` (Model/Exec.v) is a store-passing interpreter over a pool of objects, so the
   theorems below are facts about how the model is written: no operation touches any pool object other
   than its own receiver, non-in-place forms and every AnsiStr method touch nothing, results are new
   objects, in-place and copying forms compute the same value.  What a pure model cannot express is
   Python list aliasing; THAT half of the property is decided by the correspondence check, which after
   every step of every generated history compares the observation (text, per-character settings with
   identities, 8 renderings, self-check, append probe) of EVERY pool object - untouched operands
   included - with this model, and keeps mutating results and sources afterwards. *)
From AS Require Import Base Effects.
From AS.Model Require Import Sgr Tokenizer Table Ops Render Scrub Parse StrOps FormatSpec Exec.
From AS.Proofs Require Import TableProofs SliceProofs ExecProofs.
From AS.Proofs Require EqProofs.

(* frame: existing objects other than the receiver are untouched; objects are only ever appended *)
Theorem C08_frame : forall p op p' idxs extra,
  exec p op = OK (p', idxs, extra) ->
  length (objs p) <= length (objs p') /\
  forall j, j < length (objs p) -> j <> target op -> nth_error (objs p') j = nth_error (objs p) j.
Proof. exact exec_frame. Qed.
Print Assumptions C08_frame.

(* the only object that can change is the receiver of an in-place operation, and only if it is an
   AnsiString *)
Theorem C08_only_receiver : forall p op p' idxs extra,
  exec p op = OK (p', idxs, extra) ->
  forall j, j < length (objs p) -> nth_error (objs p') j <> nth_error (objs p) j ->
    mut_target op = Some j /\ j = target op /\ exists o, get p j = Some o /\ o_kind o = KString.
Proof. exact exec_frame_strong. Qed.
Print Assumptions C08_only_receiver.

(* constructors, copies, slicing, +, join, split, partition, rendering, queries, ==, iteration:
   nothing existing changes (right operands and replacement values included) *)
Theorem C08_pure : forall p op p' idxs extra,
  exec p op = OK (p', idxs, extra) -> memz (code op) pure_codes = true -> unchanged p p'.
Proof. exact exec_pure_unchanged. Qed.
(* methods with an inplace flag, called with inplace=False *)
Theorem C08_not_inplace : forall p op p' idxs extra,
  exec p op = OK (p', idxs, extra) -> memz (code op) flagged = true -> flag op = false -> unchanged p p'.
Proof. exact exec_flag_false_unchanged. Qed.
(* every method of an AnsiStr receiver *)
Theorem C08_ansistr_receiver : forall p op p' idxs extra o,
  exec p op = OK (p', idxs, extra) -> get p (target op) = Some o -> o_kind o = KStr -> unchanged p p'.
Proof. exact exec_kstr_unchanged. Qed.
Print Assumptions C08_pure.
Print Assumptions C08_not_inplace.
Print Assumptions C08_ansistr_receiver.

(* returned objects exist; in-place variants return the receiver itself and store the value the
   copying variant returns (clip; pad, replace, removeprefix, removesuffix, case are analogous:
   ic_pad, ic_replace, ic_removeprefix, ic_removesuffix, ic_case in Proofs/ExecProofs.v) *)
Theorem C08_results_exist : forall p op p' idxs extra,
  exec p op = OK (p', idxs, extra) -> Forall (fun i => i < length (objs p')) idxs.
Proof. exact exec_idxs_valid. Qed.
Theorem C08_inplace_same_value : forall p i o ipT ipF,
  get p (Z.to_nat i) = Some o -> o_kind o = KString -> bool_of_sx ipT = true -> bool_of_sx ipF = false ->
  forall a b, ic_rel p (Z.to_nat i) (exec p (L [A 7; A i; a; b; ipT])) (exec p (L [A 7; A i; a; b; ipF])).
Proof. exact ic_clip. Qed.
Print Assumptions C08_results_exist.
Print Assumptions C08_inplace_same_value.

(* a raised error leaves the whole pool as it was *)
Theorem C08_error_unchanged : forall p op e, exec p op = Err e -> fst (step_out p op) = p.
Proof. exact step_out_err. Qed.
Print Assumptions C08_error_unchanged.

(* "COMPARE EQUAL" MEANS INDISTINGUISHABLE.  astr_eqb is == as repaired (known finding F58): same text, same marker texts, and
   the same setting texts in effect after every marker.  Values that compare equal report the same settings on every
   character, have the same flags and render to the same string under every flag set - identities never show; == is an
   equivalence.  Before the repair the third condition was missing: C08_old_eq_differs shows two tables with equal marker
   texts whose stop markers pair up with different objects, reporting different settings on one character and rendering
   differently. *)
Theorem C08_eq_same_settings : forall a b, astr_eqb a b = true ->
  base a = base b /\ forall i, map stxt (active_at (tbl a) i) = map stxt (active_at (tbl b) i).
Proof. exact EqProofs.eq_same_texts_gen. Qed.
Print Assumptions C08_eq_same_settings.

Theorem C08_eq_same_render : forall a b opt rs re, astr_eqb a b = true -> to_str a opt rs re = to_str b opt rs re.
Proof. exact EqProofs.eq_same_render. Qed.
Print Assumptions C08_eq_same_render.

Theorem C08_eq_same_flags : forall a b, astr_eqb a b = true ->
  is_valid_tbl (tbl a) = is_valid_tbl (tbl b) /\ is_parsable_tbl (tbl a) = is_parsable_tbl (tbl b).
Proof. exact EqProofs.eq_same_flags. Qed.

Theorem C08_eq_equivalence :
  (forall a, astr_eqb a a = true) /\ (forall a b, astr_eqb a b = astr_eqb b a)
  /\ (forall a b c, astr_eqb a b = true -> astr_eqb b c = true -> astr_eqb a c = true).
Proof. split; [exact EqProofs.astr_eqb_refl|]. split; [exact EqProofs.astr_eqb_sym|exact EqProofs.astr_eqb_trans]. Qed.
Print Assumptions C08_eq_equivalence.

Example C08_old_eq_differs := (EqProofs.old_eq_holds, EqProofs.new_eq_rejects, EqProofs.old_eq_texts_differ, EqProofs.old_eq_render_differ).
Example C08_fresh_copy_equal := EqProofs.fresh_copy_equal.
