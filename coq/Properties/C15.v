(* C15 - valid / parsable flags are exact.
   Statements only.  `valid` / `parsable` model AnsiSetting.valid / .parsable (ansi_format.py; parsable
   as repaired, known_findings F21).  The code classification behind `parsable` comes from the tables
   regenerated from /repo; Proofs/GenCodeTable.v shows it equal to the specification's on every code. *)
From Coq Require Import String.
From AS Require Import Base Effects.
From AS.Spec Require Import Terminal.
From AS.Model Require Import Sgr Table Render Scrub.
From AS.Proofs Require Import GenConsts GenCodeTable SgrProofs ScrubProofs FlagsProofs GenFns.
Local Open Scope list_scope.
Local Open Scope N_scope.

(* valid: exactly when no character lies in 0x40 - 0x7E *)
Theorem C15_valid : forall t, valid t = true <-> forall c, In c t -> ~ (64 <= c <= 126).
Proof. exact valid_spec. Qed.
Print Assumptions C15_valid.

(* the model's `valid` IS the code's AnsiSetting.valid: the loop is re-translated from the Python source on
   every run (Gen/Fns.v, over code points as integers) and shown equal *)
Theorem C15_valid_is_code : forall t : str, valid t = AS.Gen.Fns.gen_valid (map Z.of_N t).
Proof. exact valid_is_code. Qed.
Print Assumptions C15_valid_is_code.

(* parsable: exactly when the text is in the decimal grammar [0-9]+(;[0-9]+)* and the parameters a
   terminal reads from it (params_of, from the specification) are one complete known group other than
   reset - a single set/clear code, or 38/48/58 followed by 5;n or 2;r;g;b - with all values <= 255 *)
Theorem C15_parsable : forall t,
  parsable t = strict_grammar t &&
               match params_of t with Some g => ok255 g && spec_group_ok g | None => false end.
Proof. exact parsable_exact. Qed.
Print Assumptions C15_parsable.

(* is_formatting_valid / is_formatting_parsable: the conjunction over the settings in the table *)
Theorem C15_conj : forall t,
  is_valid_tbl t = forallb (fun x => valid (stxt x)) (all_adds t)
  /\ is_parsable_tbl t = forallb (fun x => parsable (stxt x)) (all_adds t).
Proof. split; reflexivity. Qed.
Print Assumptions C15_conj.

(* settings of every AnsiFormat member (hence of every name spelling, C14) are valid and parsable:
   by computation over the member table regenerated from /repo *)
Theorem C15_members :
  forallb (fun n => match member_texts n with
                    | Some ts => forallb (fun t => valid t && parsable t) ts
                    | None => false end) names = true.
Proof. exact members_valid_parsable. Qed.
Print Assumptions C15_members.

(* rgb helper results (components are clamped) are valid and parsable for all integer arguments *)
Theorem C15_rgb : forall r g b comp, forallb (fun t => valid t && parsable t) (rgb3 r g b comp) = true.
Proof. exact rgb3_valid_parsable. Qed.
Print Assumptions C15_rgb.

(* the final-byte range used by `valid` is the repository's ansi_term_ord_range *)
Theorem C15_range : forall c, is_final c = ((AS.Gen.Consts.gen_term_lo <=? c) && (c <=? AS.Gen.Consts.gen_term_hi)).
Proof. exact consts_final_range. Qed.
Print Assumptions C15_range.

Example C15_example :
  parsable (str_of_string "38;5;214"%string) = true /\ parsable (str_of_string "38;5;256"%string) = false
  /\ parsable (str_of_string " 1"%string) = false /\ parsable (str_of_string "0"%string) = false
  /\ valid (str_of_string "1;~"%string) = false /\ strict_grammar (str_of_string "1;;2"%string) = false.
Proof. vm_compute. repeat split. Qed.
