(* C15 - valid / parsable flags are exact.
   Statements only.  `valid` / `parsable` model AnsiSetting.valid / .parsable (ansi_format.py; parsable
   as repaired, known_findings F21).  The code classification behind `parsable` comes from the tables
   regenerated from /repo; Proofs/GenCodeTable.v shows it equal to the specification's on every code. *)
From Coq Require Import String.
From AS Require Import Base Effects.
From AS.Spec Require Import Terminal.
From AS.Model Require Import Sgr Table Render Scrub.
From AS.Model Require Import Tokenizer.
From AS.Proofs Require Import GenConsts GenCodeTable SgrProofs ScrubProofs FlagsProofs GenFns.
From AS.Proofs Require TableProofs RenderProofs RenderStrip InvariantProofs RoundTripEsc RenderStripEsc.
Local Open Scope list_scope.
Local Open Scope N_scope.

(* valid: exactly when no character lies in 0x40 - 0x7E *)
Theorem C15_valid : forall t, valid t = true <-> forall c, In c t -> ~ (64 <= c <= 126).
Proof. exact valid_spec. Qed.
Print Assumptions C15_valid.

(* the model's `valid` IS the code's AnsiSetting.valid: the loop is re-translated from the Python source on
   every run (Gen/Fns.v, over code points as integers) and shown equal *)
Theorem C15_valid_is_code : forall t : str, valid t = AS.Gen.Fns.gen_valid (map Z.of_N t).
Proof. exact valid_is_code. Qed.
Print Assumptions C15_valid_is_code.

(* parsable: exactly when the text is in the decimal grammar [0-9]+(;[0-9]+)* and the parameters a
   terminal reads from it (params_of, from the specification) are one complete known group other than
   reset - a single set/clear code, or 38/48/58 followed by 5;n or 2;r;g;b - with all values <= 255 *)
Theorem C15_parsable : forall t,
  parsable t = strict_grammar t &&
               match params_of t with Some g => ok255 g && spec_group_ok g | None => false end.
Proof. exact parsable_exact. Qed.
Print Assumptions C15_parsable.

(* is_formatting_valid / is_formatting_parsable: the conjunction over the settings in the table *)
Theorem C15_conj : forall t,
  is_valid_tbl t = forallb (fun x => valid (stxt x)) (all_adds t)
  /\ is_parsable_tbl t = forallb (fun x => parsable (stxt x)) (all_adds t).
Proof. split; reflexivity. Qed.
Print Assumptions C15_conj.

(* settings of every AnsiFormat member (hence of every name spelling, C14) are valid and parsable:
   by computation over the member table regenerated from /repo *)
Theorem C15_members :
  forallb (fun n => match member_texts n with
                    | Some ts => forallb (fun t => valid t && parsable t) ts
                    | None => false end) names = true.
Proof. exact members_valid_parsable. Qed.
Print Assumptions C15_members.

(* rgb helper results (components are clamped) are valid and parsable for all integer arguments *)
Theorem C15_rgb : forall r g b comp, forallb (fun t => valid t && parsable t) (rgb3 r g b comp) = true.
Proof. exact rgb3_valid_parsable. Qed.
Print Assumptions C15_rgb.

(* The rendering clause.  Whenever every setting in use is valid and the base text has no ESC, removing every
   'ESC [ parameter-bytes m' sequence (the C19 tokenizer restricted to the terminator m, unterminated sequences allowed
   or not) from ANY rendering - all eight flag sets, optimiser included - leaves exactly the base text ... *)
Theorem C15_render_strip : forall a o rs re ae,
  TableProofs.ssorted (tbl a) -> is_valid_tbl (tbl a) = true -> RenderProofs.no_esc (base a) = true ->
  unformatted (tokenize ae (Some [CH_m]) (to_str a o rs re)) = base a.
Proof. exact RenderStrip.render_strips_to_base. Qed.
Print Assumptions C15_render_strip.

(* ... for every value that satisfies the invariant kept by all 29 operations (C09), hence for every reachable value *)
Theorem C15_render_strip_reachable : forall a o rs re ae,
  InvariantProofs.WFv a -> is_valid_tbl (tbl a) = true -> RenderProofs.no_esc (base a) = true ->
  unformatted (tokenize ae (Some [CH_m]) (to_str a o rs re)) = base a.
Proof. exact RenderStrip.render_strips_to_base_WFv. Qed.
Print Assumptions C15_render_strip_reachable.

(* ... also when the text itself contains control sequences, as long as they are complete, not SGR, and no change point
   lies strictly inside one (RoundTripEsc.cuts_closed - what falls outside is known finding K1): they stay in the text,
   only the emitted SGR sequences are removed; for both values of allow_empty_terminator *)
Theorem C15_render_strip_esc : forall a o rs re ae,
  TableProofs.ssorted (tbl a) -> is_valid_tbl (tbl a) = true -> RoundTripEsc.cuts_closed a = true ->
  unformatted (tokenize ae (Some [CH_m]) (to_str a o rs re)) = base a.
Proof. exact RenderStripEsc.render_strips_to_base_esc. Qed.
Print Assumptions C15_render_strip_esc.

Theorem C15_render_strip_esc_reachable : forall a o rs re ae,
  InvariantProofs.WFv a -> is_valid_tbl (tbl a) = true -> RoundTripEsc.cuts_closed a = true ->
  unformatted (tokenize ae (Some [CH_m]) (to_str a o rs re)) = base a.
Proof. exact RenderStripEsc.render_strips_to_base_esc_WFv. Qed.
Print Assumptions C15_render_strip_esc_reachable.

Theorem C15_render_sequences_esc : forall a o rs re ae,
  is_valid_tbl (tbl a) = true -> RoundTripEsc.cuts_closed a = true ->
  RenderStrip.seqs_of (tokenize ae (Some [CH_m]) (to_str a o rs re))
  = map RenderStrip.sgr_seq (RenderStrip.codes_of (to_str_toks a o rs re)).
Proof. exact RenderStripEsc.render_sequences_esc. Qed.
Print Assumptions C15_render_sequences_esc.

Example C15_esc_example := RenderStripEsc.ex_ev_stripped.
Example C15_cuts_closed_needed := RenderStripEsc.cuts_closed_needed.

(* ... the removed sequences are exactly the emitted SGR sequences, each ended by m ... *)
Theorem C15_render_sequences : forall a o rs re ae,
  is_valid_tbl (tbl a) = true -> RenderProofs.no_esc (base a) = true ->
  RenderStrip.seqs_of (tokenize ae (Some [CH_m]) (to_str a o rs re))
  = map RenderStrip.sgr_seq (RenderStrip.codes_of (to_str_toks a o rs re)).
Proof. exact RenderStrip.render_sequences. Qed.
Print Assumptions C15_render_sequences.

(* ... and every (non-empty) setting text in use on a character appears intact - as a whole ';'-delimited item - in
   one of those sequences, in every rendering that does not go through the optimiser (optimize=False, or some setting
   unparsable, which is the case for every multi-effect verbatim setting).  The optimiser legitimately drops a
   parsable setting hidden below a later one of the same effect (RenderStrip.optimiser_drops_overridden); an EMPTY
   setting text cannot be told from the reset at index 0 (RenderStrip.render_intact_counterexample). *)
Theorem C15_render_intact : forall a o rs re i x,
  TableProofs.ssorted (tbl a) -> (o = false \/ is_parsable_tbl (tbl a) = false) ->
  (i < length (base a))%nat -> In x (active_at (tbl a) i) -> stxt x <> [] ->
  exists codes, In (OSgr codes) (to_str_toks a o rs re) /\ RenderStrip.item_in (stxt x) codes.
Proof. exact RenderStrip.render_intact_at. Qed.
Print Assumptions C15_render_intact.

Example C15_render_example := RenderStrip.ex_v_rendered.

(* the final-byte range used by `valid` is the repository's ansi_term_ord_range *)
Theorem C15_range : forall c, is_final c = ((AS.Gen.Consts.gen_term_lo <=? c) && (c <=? AS.Gen.Consts.gen_term_hi)).
Proof. exact consts_final_range. Qed.
Print Assumptions C15_range.

Example C15_example :
  parsable (str_of_string "38;5;214"%string) = true /\ parsable (str_of_string "38;5;256"%string) = false
  /\ parsable (str_of_string " 1"%string) = false /\ parsable (str_of_string "0"%string) = false
  /\ valid (str_of_string "1;~"%string) = false /\ strict_grammar (str_of_string "1;;2"%string) = false.
Proof. vm_compute. repeat split. Qed.
