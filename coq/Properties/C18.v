(* C18 - SGR code-list parsing agrees with a terminal's reading of the same codes.
   Statements only; every proof is `exact <lemma>`.  pgs_* model parse_graphic_sequence (as
   repaired, see known_findings.json F2/F3/F4), s2d models settings_to_dict; both use the code
   table GENERATED from /repo, which Proofs/GenCodeTable ties to the terminal specification. *)
From AS Require Import Base Effects.
From AS.Spec Require Import Terminal.
From AS.Model Require Import Sgr.
From AS.Proofs Require Import GenCodeTable SgrProofs GenFns.
From AS.Proofs Require SgrJunk.
From AS.Proofs Require FrakturScope.

(* the repository's code table and the specification's terminal classify every code alike *)
Theorem C18_table : forall c : N, gen_class c = spec_class c.
Proof. exact gen_class_spec. Qed.
Print Assumptions C18_table.

(* reducing the parsed settings in order gives exactly the state a conforming terminal reaches
   from its default state on the same code list - any length, any mixture, groups at any position *)
Theorem C18_parse : forall cs : list N, cs <> [] ->
  exists texts, pgs_codes cs false = OK texts
    /\ teq (as_t (s2d (fun x => x) texts [])) (sgr spec_class tdefault cs).
Proof. exact C18_parse_main. Qed.
Print Assumptions C18_parse.

(* KNOWN FINDING K7, delimited.  "A conforming terminal" is Spec/Terminal.v, which - like the library - files SGR 20
   (Fraktur) under the fonts; ECMA-48 8.3.117 lets 23 ("not italicized, not fraktur") switch it off as well.
   FrakturScope.sgr_ecma is the specification terminal with that one difference repaired.  The two agree on every code
   list that does not select Fraktur (when the state it starts from has none), and on every code list without a 23; so
   C18_parse and the other statements made with `sgr spec_class` hold for the ECMA-48 reading outside that class, and
   inside it the difference is real (C18_K7_witness: after 20;23 the library and the specification keep Fraktur). *)
Theorem C18_K7_scope_no_fraktur : forall t p,
  FrakturScope.is_fraktur (t FONT_TYPE) = false -> FrakturScope.fraktur_free (acts spec_class p) = true ->
  FrakturScope.sgr_ecma t p = sgr spec_class t p.
Proof. exact FrakturScope.K7_scope_no_fraktur. Qed.
Print Assumptions C18_K7_scope_no_fraktur.

Theorem C18_K7_scope_no_23 : forall t p, FrakturScope.no_23 (acts spec_class p) = true ->
  FrakturScope.sgr_ecma t p = sgr spec_class t p.
Proof. exact FrakturScope.K7_scope_no_23. Qed.
Print Assumptions C18_K7_scope_no_23.

Example C18_K7_scope_examples := FrakturScope.k7_scope_examples.
Example C18_K7_witness := FrakturScope.k7_witness.

(* an empty sequence means reset *)
Theorem C18_empty : forall ae, pgs_codes [] ae = OK [[CH_0]] /\ pgs_str [] ae = OK [[CH_0]]
  /\ forall d, s2d (fun x => x) [[CH_0]] d = [].
Proof. intros ae. repeat split. Qed.

(* settings_to_dict(settings, old) = applying the same groups on top of old: an apply code replaces
   the entry of its effect group, a clear code deletes it, reset empties the state *)
Theorem C18_dict : forall (gs : list (list N)) (d : dict str),
  Forall (fun g => g <> []) gs -> nodupk d ->
  teq (as_t (s2dN gs d)) (run (as_t d) (map act_of_group gs)) /\ nodupk (s2dN gs d).
Proof. exact C18_dict_main. Qed.
Print Assumptions C18_dict.

(* add_erroneous=True: every integer token of the input appears, in order, in the returned settings *)
Theorem C18_erroneous : forall cs : list N, cs <> [] ->
  exists gs, pgs_codes cs true = OK (map textN gs) /\ concat gs = cs /\ Forall (fun g => g <> []) gs.
Proof. exact C18_erroneous_main. Qed.
Print Assumptions C18_erroneous.

(* a ';'-separated string is read as the list of its integers *)
Theorem C18_string : forall (cs : list N) (ae : bool), cs <> [] -> pgs_str (textN cs) ae = pgs_codes cs ae.
Proof. exact C18_string_main. Qed.
Print Assumptions C18_string.

(* items that are not numbers ('x', '+1', '1.5', non-ASCII digits: as repaired, known_findings F33 / F34) contribute nothing
   AND end an extended-colour group in progress: the numbers between two such items are code lists of their own, parsed
   one after the other - so the reduced state is the one a terminal reaches when it receives the runs as separate
   sequences, on top of any prior state *)
Theorem C18_junk_runs : forall items, SgrJunk.norm_ok items ->
  pgs_loop items 0 [] false = OK (concat (map (fun run => map textN (pgs_gN run 0 [])) (SgrJunk.runs_of items))).
Proof. exact SgrJunk.pgs_loop_runs. Qed.
Print Assumptions C18_junk_runs.

Theorem C18_junk_state : forall items d, SgrJunk.norm_ok items -> nodupk d ->
  exists texts, pgs_loop items 0 [] false = OK texts /\
  teq (as_t (s2d (fun x => x) texts d)) (fold_left (fun t run => sgr spec_class t run) (SgrJunk.runs_of items) (as_t d)).
Proof. exact SgrJunk.pgs_runs_state. Qed.
Print Assumptions C18_junk_state.

(* add_erroneous=True: one chunk per piece of the input, in order - a run of numbers comes back as groups whose
   concatenation is the run, a non-number as itself *)
Theorem C18_junk_erroneous : forall items, SgrJunk.norm_ok items -> SgrJunk.strs_nonempty items ->
  exists chunks, pgs_loop items 0 [] true = OK (concat chunks) /\ Forall2 SgrJunk.renders (SgrJunk.pieces items) chunks.
Proof. exact SgrJunk.pgs_loop_runs_erroneous. Qed.
Print Assumptions C18_junk_erroneous.

(* the ';'-separated string front end *)
Theorem C18_junk_string : forall w, w <> [] ->
  pgs_str w false = OK (concat (map (fun run => map textN (pgs_gN run 0 []))
                                    (SgrJunk.runs_of (map norm_item_pgs (items_of_str w))))).
Proof. exact SgrJunk.pgs_str_runs. Qed.
Print Assumptions C18_junk_string.

(* non-vacuity / regression witnesses: a colour group after another code stays intact (F2), an
   empty parameter is 0 (F3), an out-of-range group is dropped (F4) *)
Example C18_witness_F2 :
  pgs_codes [1; 38; 5; 214]%N false = OK [[49]%N; [51; 56; 59; 53; 59; 50; 49; 52]%N].
Proof. vm_compute. reflexivity. Qed.
Example C18_witness_F3 :
  pgs_str ([50; 59]%N) false = OK [[50]%N; [48]%N].
Proof. vm_compute. reflexivity. Qed.
Example C18_witness_F4 :
  pgs_codes [38; 5; 256; 1]%N false = OK [[49]%N].
Proof. vm_compute. reflexivity. Qed.

(* the test by which the code recognises the start of an extended-colour group
   (_AnsiControlFn.seq_starts_with_fn, re-translated from the Python source on every run) is a prefix test
   against the function's setup sequence *)
Theorem C18_group_start_is_prefix_test : forall setup seq : list Z,
  AS.Gen.Fns.gen_seq_starts_with setup seq = true <-> firstn (length setup) seq = setup.
Proof. exact seq_starts_with_is_prefix. Qed.
Print Assumptions C18_group_start_is_prefix_test.
