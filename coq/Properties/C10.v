(* C10 - str-like methods agree with Python's str on the base text.  Statements only.
   Three kinds of methods:
   * delegated queries and case transforms (len, in, count, find, ..., is*, capitalize ... title): the
     library calls the same str method on the base text; the model receives the str result as data
     (Exec.op_20 stores the new text) - nothing to prove, decided by the check's differential run
     against Python's str, result and exception type;
   * re-implemented methods: strip family, removeprefix/suffix, partition/rpartition, split/rsplit with
     a separator - theorems below, against the specifications of Spec/PyStr.v (plain structural
     recursions, themselves compared with CPython's str on generated arguments by the check);
   * padding (ljust, rjust, center, zfill): texts in C12.
   Documented deviations are part of the statements: rpartition with an absent separator gives
   (s, '', ''), the empty separator is outside the claim, the default strip set is the repository's
   WHITESPACE_CHARS constant. *)
From AS Require Import Base.
From AS.Spec Require Import PyStr.
From AS.Model Require Import Table Ops Parse StrOps.
From AS.Proofs Require Import TableProofs SliceProofs GenConsts StrOpsProofs.

(* strip / lstrip / rstrip(chars) *)
Theorem C10_strip : forall s chars dl dr,
  base (strip s chars dl dr)
  = (if dl then py_lstrip chars else id) ((if dr then py_rstrip chars else id) (base s)).
Proof. exact strip_text. Qed.
Print Assumptions C10_strip.

(* the default strip set is ' \t\n\r\v\f' *)
Theorem C10_default_strip_set : AS.Gen.Consts.gen_whitespace_chars = [32; 9; 10; 13; 11; 12]%N.
Proof. exact consts_whitespace. Qed.
Print Assumptions C10_default_strip_set.

Theorem C10_removeprefix : forall s p, base (removeprefix s p) = py_removeprefix p (base s).
Proof. exact removeprefix_text. Qed.
Theorem C10_removesuffix : forall s p, base (removesuffix s p) = py_removesuffix p (base s).
Proof. exact removesuffix_text. Qed.
Print Assumptions C10_removeprefix.
Print Assumptions C10_removesuffix.

Theorem C10_partition : forall s sep, texts3 (partition s sep) = py_partition sep (base s).
Proof. exact partition_text. Qed.
Theorem C10_rpartition : forall s sep, texts3 (rpartition s sep) = py_rpartition sep (base s).
Proof. exact rpartition_text. Qed.
Print Assumptions C10_partition.
Print Assumptions C10_rpartition.

(* split / rsplit(sep, maxsplit) with a non-empty separator: piece texts as the specification's, and
   the split is lossless; an empty separator raises ValueError as str does *)
Theorem C10_split : forall s sep m right, ssorted (tbl s) -> sep <> [] ->
  exists ps, split_sep s sep m right = OK ps /\
    let texts := split_texts right (base s) sep m in
    map base ps = texts /\ join sep texts = base s
    /\ Forall2 (slice_of s) (cum_offs (length sep) 0 texts) ps.
Proof. exact split_sep_spec. Qed.
Theorem C10_split_left_spec : forall s sep m, ssorted (tbl s) -> sep <> [] ->
  exists ps, split_sep s sep m false = OK ps /\
    map base ps = py_split_texts sep m (base s) /\
    Forall2 (slice_of s) (py_split_offsets sep m (base s)) ps.
Proof. exact split_left_offsets. Qed.
Theorem C10_split_empty_sep : forall s m right, split_sep s [] m right = Err ValueError.
Proof. exact split_sep_empty. Qed.
Print Assumptions C10_split.
Print Assumptions C10_split_left_spec.

(* the specifications say what they should: lstrip removes a prefix of characters from the set and
   stops at the first character outside it; partition cuts at the FIRST occurrence, rpartition at the
   LAST *)
Theorem C10_spec_lstrip : forall chars s,
  exists pre, s = pre ++ py_lstrip chars s /\ forallb (fun c => mem_char c chars) pre = true
              /\ match py_lstrip chars s with [] => True | c :: _ => mem_char c chars = false end.
Proof. exact py_lstrip_spec. Qed.
Print Assumptions C10_spec_lstrip.
