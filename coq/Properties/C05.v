(* C05 - Concatenation keeps each operand's per-character styles; no bleed at the seam.
   Statements only.  iadd models AnsiString.__iadd__ (as repaired, known_findings F8 F11 F12 F16b F26),
   add = copy then +=, join_astr models join.  WF is the reachable-value invariant (change points
   strictly increasing, none beyond the text, the library's strict self-check passes, no object active
   twice, nothing left open); `coherent` says an object identity determines its text - true of Python
   objects, needed because the model's settings are (identity, text) pairs.
   active_at (tbl s) k is what ansi_settings_at(k) reports. *)
From AS Require Import Base.
From AS.Model Require Import Table Ops.
From AS Require Import Effects.
From AS.Model Require Import Sgr Tokenizer Render Scrub Parse StrOps FormatSpec Exec.
From AS.Proofs Require Import TableProofs SliceProofs PadProofs ConcatProofs ExecProofs InvariantProofs ReachableCorollaries.

(* a + b succeeds on well-formed operands (the IndexError branch of the seam re-targeting is
   unreachable), the text is a.text + b.text *)
Theorem C05_total : forall a b, WF a -> WF b -> exists c, iadd a b = OK c.
Proof. exact iadd_ok. Qed.
Theorem C05_text : forall a b, WF a -> WF b -> forall c, iadd a b = OK c -> base c = base a ++ base b.
Proof. exact iadd_base. Qed.
Print Assumptions C05_total.
Print Assumptions C05_text.

(* every character of a keeps exactly its settings - the same objects in the same order *)
Theorem C05_left : forall a b, WF a -> WF b -> forall c, iadd a b = OK c ->
  forall k, k < length (base a) -> active_at (tbl c) k = active_at (tbl a) k.
Proof. exact iadd_left. Qed.
Print Assumptions C05_left.

(* every character of b keeps exactly the texts of its settings, in the same order (same precedence),
   whether the styles at the seam are equal (merged), a prefix, different, nested or overlapping;
   identities are not preserved across a merge (b's objects are replaced by a's), which no public
   query can observe on the result alone *)
Theorem C05_right : forall a b, WF a -> WF b -> forall c, ConcatProofs.coherent (tbl a) -> iadd a b = OK c ->
  forall k, map stxt (active_at (tbl c) (length (base a) + k)) = map stxt (active_at (tbl b) k).
Proof. exact iadd_right. Qed.
Print Assumptions C05_right.

(* without a merge even the objects are b's own *)
Theorem C05_right_identities : forall a b, WF a -> WF b -> forall c, merges a b = false -> iadd a b = OK c ->
  forall k, active_at (tbl c) (length (base a) + k) = active_at (tbl b) k.
Proof. exact iadd_right_ident. Qed.
Print Assumptions C05_right_identities.

(* the result is well formed again (in particular closed: nothing bleeds into text appended later),
   and identities still determine texts *)
Theorem C05_wf : forall a b, WF a -> WF b -> forall c, ConcatProofs.coherent (tbl a) -> iadd a b = OK c -> WF c.
Proof. exact iadd_WF. Qed.
Theorem C05_coherent : forall a b c,
  ConcatProofs.coherent (tbl a) -> ConcatProofs.coherent (tbl b) -> coherent_pair a b -> iadd a b = OK c -> ConcatProofs.coherent (tbl c).
Proof. exact iadd_coherent. Qed.
Print Assumptions C05_wf.
Print Assumptions C05_coherent.

(* a plain str operand has no settings: the table of the left operand is kept as it is *)
Theorem C05_str_operand : forall (a : astr) (t : str), iadd a (plain t) = OK (mkA (base a ++ t) (tbl a)).
Proof. exact iadd_plain. Qed.
Print Assumptions C05_str_operand.

(* a + b is a += b on a copy; join(x1, ..., xn) = ((x1 + x2) + ...) + xn, total and well formed *)
Theorem C05_add : forall a b, add a b = iadd a b.
Proof. exact add_is_iadd. Qed.
Theorem C05_join : forall x xs, join_astr (x :: xs) = fold_left iadd_res xs (OK x).
Proof. exact join_astr_fold. Qed.
Theorem C05_join_wf : forall x xs, Forall WF (x :: xs) -> ConcatProofs.coherent (tbls (x :: xs)) ->
  exists c, join_astr (x :: xs) = OK c /\ WF c /\ base c = concat (map base (x :: xs)) /\ ConcatProofs.coherent (tbl c).
Proof. exact join_WF. Qed.
Print Assumptions C05_join.
Print Assumptions C05_join_wf.

(* FOR EVERY PAIR OF REACHABLE VALUES of one pool - a value with itself included: the concatenation
   succeeds, has the concatenated text, every character of a keeps its setting objects, every character of
   b keeps its setting texts in order, and the result is well formed *)
Theorem C05_reachable : forall p o1 o2, reachable_ok p -> In o1 (objs p) -> In o2 (objs p) ->
  let a := o_val o1 in let b := o_val o2 in
  exists c, iadd a b = OK c /\ base c = base a ++ base b
    /\ (forall k, k < length (base a) -> active_at (tbl c) k = active_at (tbl a) k)
    /\ (forall k, map stxt (active_at (tbl c) (length (base a) + k)) = map stxt (active_at (tbl b) k))
    /\ WF c.
Proof.
  intros p o1 o2 Hr H1 H2 a b.
  destruct (reachable_value p o1 Hr H1) as (_ & Wa & _ & _ & _ & _ & _ & _ & _ & Ca & _).
  destruct (reachable_value p o2 Hr H2) as (_ & Wb & _).
  destruct (iadd_ok a b Wa Wb) as [c E]. exists c. split; [exact E|].
  split; [exact (iadd_base a b Wa Wb c E)|]. split; [exact (iadd_left a b Wa Wb c E)|].
  split; [exact (iadd_right a b Wa Wb c Ca E) | exact (iadd_WF a b Wa Wb c Ca E)].
Qed.
Print Assumptions C05_reachable.

(* non-vacuity: merging, non-merging and shared-identity operands (two halves of one string; the
   repaired F26 configuration) satisfy the hypotheses - see the Examples of Proofs/ConcatProofs.v *)
Example C05_example_halves := ex_merge_halves.
Example C05_example_f26 := ex_shared_identity_repaired.
