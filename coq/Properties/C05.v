(* C05 - Concatenation.  Statements only.  iadd models AnsiString.__iadd__ (as repaired, known_findings
   F8 F11 F12 F16b), add = copy then +=, join_astr models join. *)
From AS Require Import Base.
From AS.Model Require Import Table Ops.
From AS.Proofs Require Import TableProofs SliceProofs BasicProofs.

(* text of a + b / a += b *)
Theorem C05_text : forall a b c, iadd a b = OK c -> base c = base a ++ base b.
Proof. exact iadd_base. Qed.
Print Assumptions C05_text.

(* a plain str operand has no settings: the table of the left operand is kept as it is *)
Theorem C05_str_operand : forall (a : astr) (t : str), iadd a (plain t) = OK (mkA (base a ++ t) (tbl a)).
Proof. exact iadd_plain. Qed.
Print Assumptions C05_str_operand.

(* a + b is a += b on a copy; join(x1, ..., xn) = ((x1 + x2) + ...) + xn *)
Theorem C05_add : forall a b, add a b = iadd a b.
Proof. exact add_is_iadd. Qed.
Theorem C05_join : forall x xs,
  join_astr (x :: xs) = fold_left (fun acc y => do a <- acc; iadd a y) xs (OK x).
Proof. exact join_astr_fold. Qed.
Print Assumptions C05_join.
