(* C09 - Operations terminate, fail cleanly, and keep reachable values consistent.
   Statements only.
   * Termination: every model function is a total Coq function (structural recursion or explicit fuel);
     on the implementation side every call of every generated history runs under a watchdog and a
     time-out is a violation.
   * Clean failure: `exec` returns `Err e` without a pool, so a failed step leaves every object as it
     was (C09_error_unchanged); the error CLASS of every failing call is compared with the
     implementation (and with str itself for the str-like methods) by the check.
   * Consistency: the table-rewriting operations preserve the invariant WF - change points strictly
     increasing, none beyond the text, the library's own strict self-check (WITH_ASSERTIONS) passes,
     no object active twice, nothing left open.  The check runs with WITH_ASSERTIONS = True throughout
     and observes the self-check of every pool object after every step. *)
From AS Require Import Base Effects.
From AS.Model Require Import Sgr Tokenizer Table Ops Render Scrub Parse StrOps FormatSpec Exec.
From AS.Proofs Require Import TableProofs SliceProofs PadProofs ApplyProofs RemoveProofs ConcatProofs ExecProofs InvariantProofs EditProofs ReachableCorollaries.

Theorem C09_error_unchanged : forall p op e, exec p op = Err e -> fst (step_out p op) = p.
Proof. exact step_out_err. Qed.
Print Assumptions C09_error_unchanged.

(* the documented error of an out-of-range integer index *)
Theorem C09_index_error : forall (s : astr) (k : Z),
  let len := Z.of_nat (length (base s)) in
  ~ (- len <= k < len)%Z -> getitem_int s k = Err IndexError.
Proof. intros s k len H. now apply (proj2 (getitem_int_spec s k)). Qed.
Print Assumptions C09_index_error.


(* ---------- THE INVARIANT OVER ALL HISTORIES ----------
   pool_inv p: every object of the pool is well formed (WFv: change points strictly increasing, none
   beyond the text, the library's strict self-check passes, no object active twice, nothing left open),
   every identity in use is below the allocation counter, and one function maps identities to texts for
   the whole pool (an identity determines its text).
   One step of ANY of the 29 operations preserves it.  The only side condition concerns the case
   methods (code 20), whose new text is supplied by Python's str: it must not be SHORTER than the old one
   (str case mappings never shorten; they can lengthen, and then the invariant still holds). *)
Theorem C09_step : forall p op p' idxs extra,
  pool_inv p -> op_ok p op -> exec p op = OK (p', idxs, extra) -> pool_inv p'.
Proof. exact exec_inv. Qed.
Print Assumptions C09_step.

(* every pool reachable from the empty pool by successful operations satisfies the invariant ... *)
Theorem C09_reachable : forall p, reachable_ok p -> pool_inv p.
Proof. exact reachable_ok_inv. Qed.
(* ... in particular no reachable value fails the library's own consistency self-check *)
Theorem C09_self_check : forall p, reachable_ok p ->
  Forall (fun o => strict_ok (tbl (o_val o)) = true) (objs p).
Proof. exact reachable_ok_self_check. Qed.
Print Assumptions C09_reachable.
Print Assumptions C09_self_check.

(* consequently every value of every reachable pool satisfies the hypotheses under which C04 - C07, C11,
   C12, C16, C17 (and the structural premises of C01 / C03) are proved: those theorems speak about every
   reachable value, as the property statements do *)
Theorem C09_reachable_value : forall p o, reachable_ok p -> In o (objs p) ->
  let s := o_val o in
  WFv s /\ ConcatProofs.WF s /\ RemoveProofs.rm_wf s /\ PadProofs.wf s
  /\ ssorted (tbl s) /\ keys_le (tbl s) (length (base s)) /\ strict_ok (tbl s) = true
  /\ ApplyProofs.nodup_active (tbl s) /\ final_active (tbl s) = []
  /\ ConcatProofs.coherent (tbl s) /\ InvariantProofs.ids_below (next_id p) (tbl s).
Proof. exact reachable_value. Qed.
Theorem C09_reachable_pair : forall p o1 o2, reachable_ok p -> In o1 (objs p) -> In o2 (objs p) ->
  ConcatProofs.coherent_pair (o_val o1) (o_val o2).
Proof. exact reachable_pair_coherent. Qed.
Print Assumptions C09_reachable_value.
Print Assumptions C09_reachable_pair.

(* values built from ANY input string are well formed *)
Theorem C09_parse_wf : forall w nid, WFv (fst (parse w nid)).
Proof. exact parse_WFv. Qed.
Print Assumptions C09_parse_wf.

(* termination of replace: the fuel of the model's loop always suffices - it never answers with the
   out-of-fuel error, for any pattern (empty included) and any replacement *)
Theorem C09_replace_terminates : forall s old r count nid e, old <> [] ->
  replace s old r count nid = Err e -> e = IndexError.
Proof. exact replace_fuel_enough. Qed.
Theorem C09_replace_empty_terminates : forall s r count nid e,
  replace s [] r count nid = Err e -> e = IndexError.
Proof. exact replace_empty_fuel_enough. Qed.
Print Assumptions C09_replace_terminates.

(* the side condition is needed in the MODEL (whose Case operation accepts any text): a shorter text
   breaks the self-check after a further remove_formatting *)
Example C09_case_side_condition := InvExamples.case_short_breaks_self_check.

(* ---------- per operation ---------- *)
(* apply_formatting preserves every clause of the invariant *)
Theorem C09_apply_wf : forall s new st en top,
  ssorted (tbl s) -> nodup_active (tbl s) -> fresh_for new (tbl s) ->
  let r := apply_fmt s new st en top in
  ssorted (tbl r) /\ nodup_active (tbl r)
  /\ (keys_le (tbl s) (length (base s)) -> keys_le (tbl r) (length (base r)))
  /\ (strict_ok (tbl s) = true -> strict_ok (tbl r) = true)
  /\ final_active (tbl r) = final_active (tbl s).
Proof.
  intros s new st en top Hs Hnd Hfr r. unfold r. rewrite apply_fmt_base. repeat split.
  - apply apply_fmt_sorted; auto.
  - apply apply_fmt_nodup; auto.
  - apply apply_fmt_keys; auto.
  - apply apply_fmt_strict; auto.
  - apply apply_fmt_final; auto.
Qed.
Print Assumptions C09_apply_wf.

(* remove_formatting / clear_formatting *)
Theorem C09_remove_wf : forall s sel st en, rm_wf s -> rm_wf (remove_fmt s sel st en).
Proof.
  intros s sel st en H.
  destruct (range_empty (length (base s)) (slice_idx (length (base s)) st 0)
                        (slice_idx (length (base s)) en (length (base s)))) eqn:E.
  - now rewrite remove_fmt_noop.
  - now apply (remove_fmt_spec s sel st en H E).
Qed.
Theorem C09_clear_wf : forall s, rm_wf (clear_fmt s).
Proof. intros s. apply (clear_fmt_full s). Qed.
Print Assumptions C09_remove_wf.

(* concatenation never raises on well-formed operands and gives a well-formed result *)
Theorem C09_concat_wf : forall a b, ConcatProofs.WF a -> ConcatProofs.WF b -> ConcatProofs.coherent (tbl a) ->
  exists c, iadd a b = OK c /\ WF c.
Proof.
  intros a b Ha Hb Hc. destruct (iadd_ok a b Ha Hb) as [c E]. exists c. split; [exact E|]. exact (iadd_WF a b Ha Hb c Hc E).
Qed.
Print Assumptions C09_concat_wf.

(* slicing: sorted, and closed *)
Theorem C09_slice_wf : forall (s : astr) (a b : option Z), ssorted (tbl s) ->
  ssorted (tbl (getitem_slice s a b))
  /\ (NoDup (ids (active_at (tbl s) (slice_idx (length (base s)) b (length (base s)) - 1))) ->
      final_active (tbl (getitem_slice s a b)) = []).
Proof. intros s a b Hs. split; [now apply api_sorted | now apply api_closed]. Qed.
Print Assumptions C09_slice_wf.

(* padding *)
Theorem C09_pad_wf : forall s width fill ext,
  wf s -> 0 < length (base s) -> (Z.of_nat (length (base s)) < width)%Z ->
  wf (ljust s width fill ext) /\ wf (rjust s width fill ext) /\ wf (center s width fill ext).
Proof.
  intros s width fill ext H Hl Hw. split; [|split].
  - pose proof (ljust_spec s width fill ext H Hl Hw) as X. cbv zeta in X. tauto.
  - pose proof (rjust_spec s width fill ext H Hl Hw) as X. cbv zeta in X. tauto.
  - pose proof (center_spec s width fill ext H Hl Hw) as X. cbv zeta in X. tauto.
Qed.
Print Assumptions C09_pad_wf.
