(* C17 - Settings queries are mutually consistent.  Statements only.
   settings_at models ansi_settings_at; find_settings models AnsiString.find_settings.
   The range is read inclusively at its end (the code examines the change point at `end`, and the
   unit tests pin find_settings(BOLD) == (0, 4) on a 4-character string); `has k` is "position k has
   all the given settings" in terms of ansi_settings_at. *)
From AS Require Import Base.
From AS.Model Require Import Table Ops.
From AS.Proofs Require Import TableProofs PadProofs FindProofs GenFns.
From AS.Proofs Require GenGuards.

(* ansi_settings_at(i) = [] outside 0..len-1; inside, the replay of the table up to i *)
Theorem C17_out_of_range : forall (s : astr) (k : Z),
  (k < 0 \/ Z.of_nat (length (base s)) <= k)%Z -> settings_at s k = [].
Proof. exact settings_at_out_of_range. Qed.
Print Assumptions C17_out_of_range.

Theorem C17_in_range : forall (s : astr) (k : Z),
  (0 <= k < Z.of_nat (length (base s)))%Z -> settings_at s k = active_at (tbl s) (Z.to_nat k).
Proof. exact settings_at_in_range. Qed.
Print Assumptions C17_in_range.

(* the active list changes only at change points *)
Theorem C17_const_between : forall t a b, ssorted t -> a <= b ->
  (forall kp, In kp t -> ~ (a < fst kp <= b)) -> active_at t b = active_at t a.
Proof. exact active_at_const_between. Qed.
Print Assumptions C17_const_between.

(* find_settings, all clauses of the statement *)
Theorem C17_find : forall (s : astr) (want : list str) (st en : option Z) (rv : bool),
  ssorted (tbl s) ->
  let len := length (base s) in
  let i := slice_idx len st 0 in
  let j := slice_idx len en len in
  let has := fun k => has_all want (settings_at_nat s k) in
  let '(fs, fe) := find_settings s want st en rv in
  (j < i -> (fs, fe) = (None, None)) /\
  (i <= j -> want = [] -> (fs, fe) = (Some i, Some j)) /\
  (fs = None -> fe = None /\ forall k, i <= k <= j -> k < len -> has k = false) /\
  (want <> [] -> forall a, fs = Some a ->
     i <= a <= j /\
     (a < len -> has a = true) /\
     (rv = false -> forall k, i <= k < a -> has k = false) /\
     (fe = None -> forall k, a <= k <= j -> k < len -> has k = true) /\
     (forall e, fe = Some e ->
        a < e <= j /\ (forall k, a <= k < e -> k < len -> has k = true) /\ (e < len -> has e = false))).
Proof. exact find_settings_spec. Qed.
Print Assumptions C17_find.

(* on a closed value (nothing open past the text) found_start is a real position that has them all *)
Theorem C17_find_start_real : forall (s : astr) (want : list str) (st en : option Z) (rv : bool) a fe,
  ssorted (tbl s) -> keys_le (tbl s) (length (base s)) -> final_active (tbl s) = [] -> want <> [] ->
  find_settings s want st en rv = (Some a, fe) ->
  a < length (base s) /\ has_all want (settings_at_nat s a) = true.
Proof. exact find_settings_start_lt_len. Qed.
Print Assumptions C17_find_start_real.

(* the range normalisation (negative, omitted, too large bounds) IS the code's _slice_val_to_idx: its body
   is re-translated from the Python source on every run (Gen/Fns.v) and shown equal to slice_idx *)
Theorem C17_bounds_are_code : forall (len : nat) (v : option Z) (d : nat),
  Z.of_nat (slice_idx len v d) = AS.Gen.Fns.gen_slice_val_to_idx (Z.of_nat len) v (Z.of_nat d).
Proof. exact slice_idx_is_code. Qed.
Print Assumptions C17_bounds_are_code.

(* ... and the validity test of the (inclusive) range IS the code's `if end < start: return (None, None)` *)
Theorem C17_guard_is_code : forall start e : nat,
  (e <? start)%nat = AS.Gen.Fns.gen_find_invalid (Z.of_nat start) (Z.of_nat e).
Proof. exact GenGuards.find_guard_is_code. Qed.
Print Assumptions C17_guard_is_code.
