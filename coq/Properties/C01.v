(* C01 - Rendered output displays the text with exactly the reported per-character styles.
   Statements only.  to_str models AnsiString.to_str without a format spec (as repaired, known_findings
   F1); the terminal (term_run, style_of, teq, teq_disp) is the SPECIFICATION of Spec/Terminal.v and
   knows nothing of the repository's tables.  Hypotheses, all forced by the statement itself:
     ssorted          - change points strictly increasing (reachable-value invariant, C09);
     no_esc (base s)  - the base text contains no ESC (known finding K1: in-band signalling);
     adds_wf          - every setting text is a well-formed SGR parameter group (the property's own premise);
     rs = false -> t0 = tdefault : without reset_start the terminal starts in its default state; WITH
                        reset_start the prior state t0 is arbitrary - the result does not depend on it.
   teq is exact (pointwise) equality of terminal states. *)
From AS Require Import Base Effects.
From AS.Spec Require Import Terminal.
From AS.Model Require Import Sgr Table Render.
From AS.Proofs Require Import TableProofs SgrAlgebra RenderProofs.
From AS.Proofs Require ParseProofs RoundTripEsc DisplayEsc.

(* str() / format(s, '') are to_str with the default flags *)
Theorem C01_str : forall s, render s = to_str s true false true.
Proof. reflexivity. Qed.
Print Assumptions C01_str.

(* a value without settings renders as its text, whatever optimize / reset_end say *)
Theorem C01_plain : forall s opt re, tbl s = [] -> to_str s opt false re = base s.
Proof.
  intros s opt re H. unfold to_str, to_str_toks. rewrite H. cbn [is_nil negb andb].
  destruct (base s) as [|c r]; cbn [is_nil bytes_of flat_map bytes_of_tok]; [reflexivity | now rewrite app_nil_r].
Qed.
Print Assumptions C01_plain.

(* optimize=False, all four reset_start / reset_end combinations, on the emitted BYTES: the terminal
   shows exactly the characters of base_str in order, character i with the style obtained from the
   settings reported for i (a later setting overriding earlier ones of the same effect), and with
   reset_end it is back in its default state afterwards *)
Theorem C01_display_unoptimized : forall s rs re t0,
  ssorted (tbl s) -> no_esc (base s) = true -> adds_wf (tbl s) -> (rs = false -> t0 = tdefault) ->
  exists disp tfin,
    term_run t0 (to_str s false rs re) = (disp, tfin)
    /\ map fst disp = base s
    /\ (forall i, i < length (base s) -> exists st, nth_error (map snd disp) i = Some st /\
          teq st (style_of (map stxt (active_at (tbl s) i))))
    /\ (re = true -> teq tfin tdefault).
Proof. exact render_unopt_display_bytes. Qed.
Print Assumptions C01_display_unoptimized.

(* optimize=True likewise, EXACTLY (the optimiser is used when every setting is parsable, otherwise the
   code falls back to the unoptimised path - both cases are covered; the optimiser's difference codes go
   through the repository's REGENERATED clear table, every entry of which is shown to be the clear code
   of its own effect - since repair F28 also for the font effect) *)
Theorem C01_display_optimized : forall s rs re t0,
  ssorted (tbl s) -> no_esc (base s) = true -> adds_wf (tbl s) -> (rs = false -> t0 = tdefault) ->
  exists disp tfin,
    term_run t0 (to_str s true rs re) = (disp, tfin)
    /\ map fst disp = base s
    /\ (forall i, i < length (base s) -> exists st, nth_error (map snd disp) i = Some st /\
          teq st (style_of (map stxt (active_at (tbl s) i))))
    /\ (re = true -> teq tfin tdefault).
Proof. exact render_opt_display_bytes_exact. Qed.
Print Assumptions C01_display_optimized.

(* optimize=True and optimize=False are display-equivalent: same characters, equal states *)
Theorem C01_optimize_equiv : forall s rs re t0,
  ssorted (tbl s) -> adds_wf (tbl s) -> (rs = false -> t0 = tdefault) ->
  exists d1 f1 d2 f2,
    tok_run t0 (to_str_toks s true rs re) = (d1, f1)
    /\ tok_run t0 (to_str_toks s false rs re) = (d2, f2)
    /\ map fst d1 = map fst d2
    /\ Forall2 teq (map snd d1) (map snd d2)
    /\ (re = true -> teq f1 f2).
Proof. exact render_opt_equiv_exact. Qed.
Print Assumptions C01_optimize_equiv.

(* str() / format(s, '') from a terminal in its default state *)
Theorem C01_str_display : forall s,
  ssorted (tbl s) -> no_esc (base s) = true -> adds_wf (tbl s) ->
  exists disp tfin,
    term_run tdefault (render s) = (disp, tfin)
    /\ map fst disp = base s
    /\ (forall i, i < length (base s) -> exists st, nth_error (map snd disp) i = Some st /\
          teq st (style_of (map stxt (active_at (tbl s) i))))
    /\ teq tfin tdefault.
Proof. exact render_display_exact. Qed.
Print Assumptions C01_str_display.

(* tokens and bytes: the byte-level terminal on the emitted string is the token-level run *)
Theorem C01_bytes_are_tokens : forall toks t, Forall tok_ok toks -> term_run t (bytes_of toks) = tok_run t toks.
Proof. exact term_tok_bridge. Qed.
Print Assumptions C01_bytes_are_tokens.

(* with reset_start the output begins with an SGR sequence whose first parameter is 0 (a reset) *)
Theorem C01_reset_start : forall s opt re, adds_wf (tbl s) ->
  exists codes r p, to_str_toks s opt true re = OSgr codes :: r /\ params_of codes = Some (0%N :: p).
Proof. exact render_starts_reset. Qed.
Print Assumptions C01_reset_start.

(* non-vacuity: the examples of Proofs/RenderProofs.v satisfy every hypothesis and their computed
   renderings display as stated (ex_s_*: unoptimised; ex_o_*: the optimiser really shortens) *)
(* TEXTS WITH EMBEDDED CONTROL SEQUENCES (U+001B in base_str; outside the theorems above, known finding K1).  A real terminal
   swallows an embedded non-SGR sequence, so the byte-level statement has no meaning there.  On the TOKEN level the clause
   holds whenever the text is cuts_closed (complete non-SGR sequences, no change point strictly inside one): reading the
   rendering with the library's control-sequence grammar (C19) and counting the characters of rejected sequences as
   characters, every character of base_str is displayed, in order, with the effective style of the settings it reports,
   for all 8 flag sets; with reset_start from any starting state; with reset_end ending in the default state. *)
Theorem C01_display_tokens_esc : forall s opt rs re t0,
  ssorted (tbl s) -> adds_wf (tbl s) -> RoundTripEsc.cuts_closed s = true -> (rs = false -> t0 = tdefault) ->
  exists disp tfin,
    ParseProofs.tk_run t0 (Tokenizer.tokenize false (Some [CH_m]) (to_str s opt rs re)) = (disp, tfin)
    /\ map fst disp = base s
    /\ (forall i, (i < length (base s))%nat -> exists st, nth_error (map snd disp) i = Some st /\
          teq st (style_of (map stxt (active_at (tbl s) i))))
    /\ (re = true -> teq tfin tdefault).
Proof. exact DisplayEsc.display_tokens_esc. Qed.
Print Assumptions C01_display_tokens_esc.
Example C01_display_tokens_esc_example := DisplayEsc.display_tokens_esc_example.

Example C01_example_hyps := ex_s_hyps.
Example C01_example_opt := ex_o_rendered.
