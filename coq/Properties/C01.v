(* C01 - Rendered output.  Statements only (initial set; the display theorems are added from
   Proofs/RenderProofs.v).  to_str models AnsiString.to_str without a format spec (as repaired, F1). *)
From AS Require Import Base Effects.
From AS.Model Require Import Sgr Table Render.

(* str() / format(s, '') are to_str with the default flags *)
Theorem C01_str : forall s, render s = to_str s true false true.
Proof. reflexivity. Qed.
Print Assumptions C01_str.

(* a value without settings renders as its text, whatever optimize / reset_end say *)
Theorem C01_plain : forall s opt re, tbl s = [] -> to_str s opt false re = base s.
Proof.
  intros s opt re H. unfold to_str, to_str_toks. rewrite H. cbn [is_nil negb andb].
  destruct (base s) as [|c r]; cbn [is_nil bytes_of flat_map bytes_of_tok]; [reflexivity | now rewrite app_nil_r].
Qed.
Print Assumptions C01_plain.
