(* C14 - All documented spellings of a setting give the same codes.
   Statements only.  `scrub` models _AnsiSettingPoint._scrub_ansi_settings (as repaired, F19); the
   AnsiFormat member table `gen_formats` is REGENERATED from /repo/src/ansi_string/ansi_format.py on
   every run, so the computations below are re-done against the current table. *)
From Coq Require Import String.
From AS Require Import Base Effects.
From AS.Gen Require Import Formats.
From AS.Model Require Import Sgr Scrub.
From AS.Proofs Require Import ScrubProofs FlagsProofs ScrubProofs2 GenFnsRgb.
Local Open Scope Z_scope.
Local Open Scope list_scope.

(* A member name given as a string in any letter case, with spaces or hyphens for underscores
   (norm_name = ASCII upper-casing, ' ' and '-' -> '_'), is scrubbed to exactly the member's settings. *)
Theorem C14_names : forall name spelling,
  In name names -> norm_name spelling = name -> scrub (FStr spelling) = scrub (FMember name).
Proof. exact scrub_name_spelling. Qed.
Print Assumptions C14_names.

(* every name of the current table is its own canonical spelling, resolves to settings, contains no
   ';' and does not begin with '[' (so it can never be mistaken for a directive list or a verbatim) *)
Theorem C14_table : forallb (fun n => str_eqb (norm_name n) n
                                    && negb (mem_char SEMI n)
                                    && match member_texts n with Some _ => true | None => false end) names = true.
Proof. vm_compute. reflexivity. Qed.
Print Assumptions C14_table.


(* ---------- nesting: arbitrarily nested lists / tuples are flattened in order ---------- *)
Theorem C14_flatten : forall l, scrub (FList l) = scrub (FList (flat_map flatten l)).
Proof. exact scrub_flatten. Qed.
Theorem C14_same_leaves : forall l1 l2, flat_map flatten l1 = flat_map flatten l2 -> scrub (FList l1) = scrub (FList l2).
Proof. exact scrub_same_leaves. Qed.
Theorem C14_single : forall f, is_list f = false -> scrub f = scrub (FList [f]).
Proof. exact scrub_wrap. Qed.
Print Assumptions C14_flatten.

(* ---------- several ';'-separated directives in one string = the list of the directives
   (each directive without ';' and not starting with '[': a leading '[' makes the WHOLE string a
   verbatim - Examples scrub_join_bracket_counterexample* in Proofs/ScrubProofs2.v) ---------- *)
Theorem C14_directives : forall parts, Forall part_ok parts ->
  scrub (FStr (join [SEMI] parts)) = scrub (FList (map FStr parts)).
Proof. exact scrub_join. Qed.
Print Assumptions C14_directives.

(* ---------- integer codes: as int, as decimal string, verbatim after '[' ---------- *)
Theorem C14_int : forall z, 0 <= z -> scrub (FInt z) = OK [dec z].
Proof. exact scrub_int_nonneg. Qed.
Theorem C14_int_string : forall z, 0 <= z -> scrub (FStr (dec z)) = scrub (FInt z).
Proof. exact scrub_str_dec. Qed.
Theorem C14_verbatim : forall t, t <> [] -> scrub (FStr (LBR :: t)) = OK [t].
Proof. exact scrub_verbatim. Qed.
(* a complete colour group given as ints, as one string or nested gives ONE setting with the joined text *)
Theorem C14_group_ints : forall g, colour_group g -> scrub (FList (map FInt g)) = OK [text_of_items g].
Proof. exact scrub_colour_group_ints. Qed.
Theorem C14_group_string : forall g, colour_group g -> scrub (FStr (text_of_items g)) = OK [text_of_items g].
Proof. exact scrub_colour_group_string. Qed.
Theorem C14_group_nested : forall g l, colour_group g -> flat_map flatten l = map FInt g ->
  scrub (FList l) = OK [text_of_items g].
Proof. exact scrub_colour_group_nested. Qed.
Print Assumptions C14_int.
Print Assumptions C14_group_nested.

(* ---------- rgb / color256: clamping, 24-bit split, ul_/dul_ add 4/21, string forms ---------- *)
Theorem C14_rgb_clamp : forall r g b comp, rgb3 r g b comp = rgb3' (clamp255 r) (clamp255 g) (clamp255 b) comp.
Proof. exact rgb3_clamps. Qed.
Theorem C14_rgb_24bit : forall v comp, 0 <= v < 16777216 ->
  rgb1 v comp = rgb3 (v / 65536) ((v / 256) mod 256) (v mod 256) comp.
Proof. exact rgb1_24bit. Qed.
Theorem C14_rgb_string : forall pre comp r g b, prefix_of pre comp -> 0 <= r -> 0 <= g -> 0 <= b ->
  scrub (FStr (print_rgb pre r g b)) = OK (rgb3 r g b comp).
Proof. exact scrub_print_rgb. Qed.
Theorem C14_rgb24_string : forall pre comp v, prefix_of pre comp -> 0 <= v ->
  scrub (FStr (print_rgb24 pre v)) = OK (rgb1 v comp).
Proof. exact scrub_print_rgb24. Qed.
Theorem C14_color256_string : forall pre comp british v, prefix_of pre comp -> 0 <= v ->
  scrub (FStr (print_color256 pre british v)) = OK (color256 v comp).
Proof. exact scrub_print_color256. Qed.
Theorem C14_components : forall comp tail,
  color_texts comp tail =
  match comp with
  | FG => [text_of_items (38 :: tail)]
  | BG => [text_of_items (48 :: tail)]
  | UL => [dec 4; text_of_items (58 :: tail)]
  | DUL => [dec 21; text_of_items (58 :: tail)]
  end.
Proof. intros comp tail. destruct comp; reflexivity. Qed.
Print Assumptions C14_rgb_string.
Print Assumptions C14_color256_string.

(* ---------- rgb(...) / color256(...) strings, every layout: an optional bracket '[' or '(' around the
   value(s) closed by ITS OWN counterpart (bracket_pair: none/none, "[" "]", "(" ")"), blanks (\s) around
   the numbers, decimal or 0x-hex numbers; hex digits without 0x give RBad (ValueError) ---------- *)
Theorem C14_rgb_layout3 : forall pre comp ob sp0 sp1 sp2 sp3 sp4 sp5 cb t1 t2 t3,
  prefix_of pre comp -> bracket_pair ob cb = true ->
  spaces sp0 = true -> spaces sp1 = true -> spaces sp2 = true ->
  spaces sp3 = true -> spaces sp4 = true -> spaces sp5 = true ->
  tok_wf t1 = true -> tok_wf t2 = true -> tok_wf t3 = true ->
  parse_rgb_string (pre ++ S_ "rgb(" ++ layout3 ob sp0 sp1 sp2 sp3 sp4 sp5 cb t1 t2 t3) =
  match tok_val t1, tok_val t2, tok_val t3 with
  | Some a, Some b, Some c => RTexts (rgb3 a b c comp)
  | _, _, _ => RBad
  end.
Proof. exact parse_rgb_layout3. Qed.
Theorem C14_rgb_layout1 : forall pre comp ob sp0 sp1 cb t,
  prefix_of pre comp -> bracket_pair ob cb = true ->
  spaces sp0 = true -> spaces sp1 = true -> tok_wf t = true ->
  parse_rgb_string (pre ++ S_ "rgb(" ++ layout1 ob sp0 sp1 cb t) =
  match tok_val t with Some v => RTexts (rgb1 v comp) | None => RBad end.
Proof. exact parse_rgb_layout1. Qed.
Theorem C14_color256_layout : forall pre comp (british : bool) ob sp0 sp1 cb t,
  prefix_of pre comp -> bracket_pair ob cb = true ->
  spaces sp0 = true -> spaces sp1 = true -> tok_wf t = true ->
  parse_rgb_string (pre ++ (if british then S_ "colour256(" else S_ "color256(") ++ layout1 ob sp0 sp1 cb t) =
  match tok_val t with Some v => RTexts (color256 v comp) | None => RBad end.
Proof. exact parse_color256_layout. Qed.
Print Assumptions C14_rgb_layout3.
Print Assumptions C14_rgb_layout1.
Print Assumptions C14_color256_layout.

(* the brackets must pair (repair of known finding F31): an opening and a closing that the defective
   pattern took one by one - old_open: none, '[', '(' or ')' ; old_close: none, ')' or ']' - but that do
   not belong together make the string no rgb()/color256() string at all, in every layout *)
Theorem C14_rgb_brackets_must_pair : forall pre comp ob cb,
  prefix_of pre comp -> old_open ob = true -> old_close cb = true -> bracket_pair ob cb = false ->
  (forall sp0 sp1 sp2 sp3 sp4 sp5 t1 t2 t3,
     spaces sp0 = true -> spaces sp1 = true -> spaces sp2 = true ->
     spaces sp3 = true -> spaces sp4 = true -> spaces sp5 = true ->
     tok_wf t1 = true -> tok_wf t2 = true -> tok_wf t3 = true ->
     parse_rgb_string (pre ++ S_ "rgb(" ++ layout3 ob sp0 sp1 sp2 sp3 sp4 sp5 cb t1 t2 t3) = RNoMatch) /\
  (forall sp0 sp1 t, spaces sp0 = true -> spaces sp1 = true -> tok_wf t = true ->
     parse_rgb_string (pre ++ S_ "rgb(" ++ layout1 ob sp0 sp1 cb t) = RNoMatch) /\
  (forall (british : bool) sp0 sp1 t, spaces sp0 = true -> spaces sp1 = true -> tok_wf t = true ->
     parse_rgb_string (pre ++ (if british then S_ "colour256(" else S_ "color256(") ++ layout1 ob sp0 sp1 cb t) = RNoMatch).
Proof. exact parse_rgb_mismatched_brackets. Qed.
Print Assumptions C14_rgb_brackets_must_pair.

(* the string ends right after the final ')' (repair of known finding F32): an accepted string followed by
   one newline is no rgb()/color256() string.  (A newline BEFORE the closing bracket is white space
   and stays accepted: Example newline_inside_ex in Proofs/ScrubProofs2.v.) *)
Theorem C14_rgb_no_trailing_newline : forall pre comp ob cb,
  prefix_of pre comp -> bracket_pair ob cb = true ->
  (forall sp0 sp1 sp2 sp3 sp4 sp5 t1 t2 t3,
     spaces sp0 = true -> spaces sp1 = true -> spaces sp2 = true ->
     spaces sp3 = true -> spaces sp4 = true -> spaces sp5 = true ->
     tok_wf t1 = true -> tok_wf t2 = true -> tok_wf t3 = true ->
     parse_rgb_string ((pre ++ S_ "rgb(" ++ layout3 ob sp0 sp1 sp2 sp3 sp4 sp5 cb t1 t2 t3) ++ [NL]) = RNoMatch) /\
  (forall sp0 sp1 t, spaces sp0 = true -> spaces sp1 = true -> tok_wf t = true ->
     parse_rgb_string ((pre ++ S_ "rgb(" ++ layout1 ob sp0 sp1 cb t) ++ [NL]) = RNoMatch) /\
  (forall (british : bool) sp0 sp1 t, spaces sp0 = true -> spaces sp1 = true -> tok_wf t = true ->
     parse_rgb_string ((pre ++ (if british then S_ "colour256(" else S_ "color256(") ++ layout1 ob sp0 sp1 cb t) ++ [NL]) = RNoMatch).
Proof. exact parse_rgb_trailing_newline. Qed.
Print Assumptions C14_rgb_no_trailing_newline.

(* concrete strings: refused since the repairs (and so invalid names for the scrubber), accepted as before *)
Example C14_rgb_brackets_example :
  parse_rgb_string (S_ "rgb()1,2,3)") = RNoMatch /\ parse_rgb_string (S_ "rgb(1,2,3))") = RNoMatch /\
  parse_rgb_string (S_ "rgb([1,2,3)") = RNoMatch /\ parse_rgb_string (S_ "rgb((1,2,3])") = RNoMatch /\
  parse_rgb_string (S_ "color256(7])") = RNoMatch /\ parse_rgb_string (S_ "rgb(1,2,3)" ++ [NL]) = RNoMatch /\
  scrub (FStr (S_ "rgb([1,2,3)")) = Err ValueError /\ scrub (FStr (S_ "rgb(1,2,3)" ++ [NL])) = Err ValueError /\
  scrub (FStr (S_ "rgb([1,2,3])")) = OK [S_ "38;2;1;2;3"] /\ scrub (FStr (S_ "rgb((1,2,3))")) = OK [S_ "38;2;1;2;3"] /\
  scrub (FStr (S_ "bg_rgb([ 0x1f,  007 ,300 ])")) = OK [S_ "48;2;31;7;255"] /\
  old_open (S_ ")") = true /\ old_close [] = true /\ bracket_pair (S_ ")") [] = false /\
  old_open (S_ "[") = true /\ old_close (S_ ")") = true /\ bracket_pair (S_ "[") (S_ ")") = false /\
  bracket_pair (S_ "[") (S_ "]") = true /\ prefix_of [] FG.
Proof. repeat split; try (vm_compute; reflexivity). now right. Qed.

(* the component arithmetic of the builders IS the code's: the two branches of _AnsiControlFn.rgb are
   re-translated from the Python source on every run (Gen/Fns.v) *)
Theorem C14_rgb_is_code : forall r g b v comp,
  rgb3 r g b comp = (let '(r', g', b') := AS.Gen.Fns.gen_rgb_clamp r g b in color_texts comp [2; r'; g'; b'])
  /\ rgb1 v comp = (let '(r', g', b') := AS.Gen.Fns.gen_rgb_split v in color_texts comp [2; r'; g'; b']).
Proof. intros. split; [apply rgb3_uses_code | apply rgb1_uses_code]. Qed.
Print Assumptions C14_rgb_is_code.

(* ---------- rejected forms ---------- *)
Theorem C14_err_negative : forall z, z < 0 -> scrub (FInt z) = Err ValueError.
Proof. exact scrub_int_neg. Qed.
Theorem C14_err_type : forall b, scrub (FOther b) = Err TypeError.
Proof. exact scrub_other_alone. Qed.
Theorem C14_err_selfref : scrub FSelfRef = Err ValueError.
Proof. exact scrub_selfref_alone. Qed.
(* unknown name: no member, no rgb()/color256() string and no code - a code being, with the surrounding
   blanks stripped, a non-empty string of decimal digits (as repaired, F37; before, the last hypothesis
   was "parse_int s = None", i.e. whatever Python's int() takes was a code) *)
Theorem C14_err_unknown_name : forall s, part_ok s -> s <> [] -> member_texts (norm_name s) = None ->
  parse_rgb_string s = RNoMatch ->
  negb (is_nil (strip_ws s)) && forallb is_digit (strip_ws s) = false -> scrub (FStr s) = Err ValueError.
Proof. exact scrub_unknown_name. Qed.
Theorem C14_err_bad_rgb : forall s, part_ok s -> member_texts (norm_name s) = None ->
  parse_rgb_string s = RBad -> scrub (FStr s) = Err ValueError.
Proof. exact scrub_bad_rgb. Qed.
Print Assumptions C14_err_unknown_name.

(* ---------- an integer directive is made of decimal digits (repair F37) ----------
   Inside a ';'-separated string, a part that is neither a member name nor an rgb()/color256() string with
   convertible numbers and whose stripped text is not a non-empty string of decimal digits makes the
   directive list fail with ValueError, wherever it stands: no sign ("+1", "-0", "-3"), no digit grouping
   ("1_0"), no non-ASCII digit, all of which Python's int() would have taken ... *)
Theorem C14_directive_is_decimal : forall pre f post, f <> [] -> member_texts (norm_name f) = None ->
  (forall ts, parse_rgb_string f <> RTexts ts) ->
  negb (is_nil (strip_ws f)) && forallb is_digit (strip_ws f) = false ->
  scrub_names (pre ++ f :: post) = Err ValueError.
Proof. exact scrub_names_lenient_int_rejected. Qed.
Print Assumptions C14_directive_is_decimal.
(* ... while blanks, decimal digits (leading zeros allowed), blanks are the integer the digits spell *)
Theorem C14_directive_decimal_value : forall w1 d w2,
  forallb is_ws w1 = true -> forallb is_digit d = true -> d <> [] -> forallb is_ws w2 = true ->
  scrub (FStr (w1 ++ d ++ w2)) = OK [dec (Z.of_N (DecProofs.dval d 0))] /\
  scrub (FStr (w1 ++ d ++ w2)) = scrub (FInt (Z.of_N (DecProofs.dval d 0))).
Proof. exact scrub_padded_code. Qed.
Print Assumptions C14_directive_decimal_value.
Example C14_directive_is_decimal_example :
  Forall (fun s => scrub_names [s] = Err ValueError /\ scrub (FStr s) = Err ValueError)
         [S_ "1_0"; S_ "+1"; S_ "-3"; S_ "-0"; [65297%N]] /\
  scrub_names [S_ " 31 "] = OK [SInt 31] /\ scrub_names [S_ "007"] = OK [SInt 7] /\
  scrub (FStr (S_ "1; 31 ;007")) = OK [S_ "1"; S_ "31"; S_ "7"] /\ scrub (FStr (S_ "1;1_0")) = Err ValueError.
Proof.
  split; [repeat (apply Forall_cons; [split; vm_compute; reflexivity|]); apply Forall_nil|].
  repeat split; vm_compute; reflexivity.
Qed.

(* non-vacuity *)
Example C14_example :
  In (str_of_string "BG_RED"%string) names
  /\ norm_name (str_of_string "bg-red"%string) = str_of_string "BG_RED"%string
  /\ scrub (FStr (str_of_string "Bg reD"%string)) = OK [[52; 49]%N].
Proof.
  split; [|split]; [|vm_compute; reflexivity|vm_compute; reflexivity].
  assert (H : existsb (str_eqb (str_of_string "BG_RED"%string)) names = true) by (vm_compute; reflexivity).
  apply existsb_exists in H as (x & Hin & Hx). apply str_eqb_eq in Hx. now subst.
Qed.
