(* C14 - All documented spellings of a setting give the same codes.
   Statements only.  `scrub` models _AnsiSettingPoint._scrub_ansi_settings (as repaired, F19); the
   AnsiFormat member table `gen_formats` is REGENERATED from /repo/src/ansi_string/ansi_format.py on
   every run, so the computations below are re-done against the current table. *)
From Coq Require Import String.
From AS Require Import Base Effects.
From AS.Gen Require Import Formats.
From AS.Model Require Import Sgr Scrub.
From AS.Proofs Require Import ScrubProofs FlagsProofs.
Local Open Scope list_scope.

(* A member name given as a string in any letter case, with spaces or hyphens for underscores
   (norm_name = ASCII upper-casing, ' ' and '-' -> '_'), is scrubbed to exactly the member's settings. *)
Theorem C14_names : forall name spelling,
  In name names -> norm_name spelling = name -> scrub (FStr spelling) = scrub (FMember name).
Proof. exact scrub_name_spelling. Qed.
Print Assumptions C14_names.

(* every name of the current table is its own canonical spelling, resolves to settings, contains no
   ';' and does not begin with '[' (so it can never be mistaken for a directive list or a verbatim) *)
Theorem C14_table : forallb (fun n => str_eqb (norm_name n) n
                                    && negb (mem_char SEMI n)
                                    && match member_texts n with Some _ => true | None => false end) names = true.
Proof. vm_compute. reflexivity. Qed.
Print Assumptions C14_table.

(* non-vacuity *)
Example C14_example :
  In (str_of_string "BG_RED"%string) names
  /\ norm_name (str_of_string "bg-red"%string) = str_of_string "BG_RED"%string
  /\ scrub (FStr (str_of_string "Bg reD"%string)) = OK [[52; 49]%N].
Proof.
  split; [|split]; [|vm_compute; reflexivity|vm_compute; reflexivity].
  assert (H : existsb (str_eqb (str_of_string "BG_RED"%string)) names = true) by (vm_compute; reflexivity).
  apply existsb_exists in H as (x & Hin & Hx). apply str_eqb_eq in Hx. now subst.
Qed.
