(* C06 - apply_formatting.  Statements only.  apply_fmt models AnsiString.apply_formatting after the
   settings have been scrubbed and given fresh identities (as repaired, known_findings F8 F9). *)
From AS Require Import Base.
From AS.Model Require Import Table Ops.
From AS.Proofs Require Import TableProofs BasicProofs.

(* the text never changes *)
Theorem C06_text : forall s new st en top, base (apply_fmt s new st en top) = base s.
Proof. exact apply_fmt_base. Qed.
Print Assumptions C06_text.

(* an empty settings list, or an empty slice-normalised range, is a no-op *)
Theorem C06_noop : forall s new st en top,
  let len := length (base s) in
  let i := slice_idx len st 0 in let j := slice_idx len en len in
  (new = [] \/ len <= i \/ j <= i) -> apply_fmt s new st en top = s.
Proof.
  intros s new st en top len i j [-> | H].
  - apply apply_fmt_noop_settings.
  - apply apply_fmt_noop_range. apply range_empty_spec. exact H.
Qed.
Print Assumptions C06_noop.
