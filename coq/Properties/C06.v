(* C06 - apply_formatting changes exactly the range, with the documented precedence.
   Statements only.  apply_fmt models AnsiString.apply_formatting after the settings have been
   scrubbed and given fresh identities (make_unique=True), as repaired (known_findings F8 F9).
   Hypotheses: change points strictly increasing (ssorted), no setting object active twice at one
   index (nodup_active), the new objects not yet in the table (fresh_for) - all part of the
   reachable-value invariant, see C09.  `active_at (tbl s) k` is what ansi_settings_at(k) reports. *)
From AS Require Import Base.
From AS.Model Require Import Table Ops.
From AS Require Import Effects.
From AS.Spec Require Import Terminal.
From AS.Model Require Import Sgr Tokenizer Render Scrub Parse StrOps FormatSpec Exec.
From AS.Proofs Require Import TableProofs SliceProofs PadProofs ApplyProofs SgrAlgebra ApplyDisplay GenFns ExecProofs InvariantProofs ReachableCorollaries.
From AS.Proofs Require GenGuards.

(* the text never changes *)
Theorem C06_text : forall s new st en top, base (apply_fmt s new st en top) = base s.
Proof. exact apply_fmt_base. Qed.
Print Assumptions C06_text.

(* an empty settings list, or an empty slice-normalised range, is a no-op *)
Theorem C06_noop : forall s new st en top,
  new = [] \/ range_empty (length (base s)) (slice_idx (length (base s)) st 0)
                          (slice_idx (length (base s)) en (length (base s))) = true ->
  apply_fmt s new st en top = s.
Proof. exact apply_fmt_noop. Qed.
Print Assumptions C06_noop.

Section C06.
Variables (s : astr) (new : list setting) (st en : option Z) (top : bool).
Let len := length (base s).
Let i := slice_idx len st 0.           (* Python slice rules for negative / too large bounds *)
Let j := slice_idx len en len.
Let r := apply_fmt s new st en top.
Hypothesis Hs : ssorted (tbl s).
Hypothesis Hnd : nodup_active (tbl s).
Hypothesis Hfr : fresh_for new (tbl s).

(* characters outside [i, j) keep their settings: the same objects in the same order *)
Theorem C06_outside : forall k, k < i \/ j <= k -> active_at (tbl r) k = active_at (tbl s) k.
Proof. apply apply_fmt_outside; assumption. Qed.

Hypothesis Hne : new <> [].
Hypothesis Hre : range_empty len i j = false.

(* topmost=False: every character inside gains exactly the new settings, BELOW everything it had *)
Theorem C06_inside_bottom : top = false -> forall k, i <= k < j ->
  active_at (tbl r) k = new ++ active_at (tbl s) k.
Proof. apply apply_fmt_inside_bottom; assumption. Qed.

(* topmost=True: every character inside gains exactly the new settings, in one block; what it had
   before keeps its order around the block (l1 below, l2 above); on the first character of the range,
   and on each following character for as long as no other setting begins in between, nothing is above
   the new settings *)
Theorem C06_inside_top : top = true -> forall k, i <= k < j ->
  exists l1 l2,
    active_at (tbl s) k = l1 ++ l2
    /\ active_at (tbl r) k = l1 ++ new ++ l2
    /\ (forall x, In x l1 -> In x (active_at (tbl s) i))
    /\ (k = i -> l2 = [])
    /\ ((forall kp, In kp (tbl s) -> i < fst kp <= k -> padd (snd kp) = []) -> l2 = []).
Proof. apply apply_fmt_inside_top; assumption. Qed.
End C06.
Print Assumptions C06_outside.
Print Assumptions C06_inside_bottom.
Print Assumptions C06_inside_top.


(* ---------- the two display clauses, on the specification terminal ----------
   `touches B e`: some setting among the texts B sets, clears or resets effect e.
   topmost=False: on every character of the range, the displayed value of every effect that an existing
   setting on that character sets or clears is unchanged, and where nothing conflicts the new settings
   show. *)
Theorem C06_display_bottom : forall s new st en e k,
  ssorted (tbl s) -> nodup_active (tbl s) -> fresh_for new (tbl s) -> new <> [] ->
  let len := length (base s) in
  let i := slice_idx len st 0 in let j := slice_idx len en len in
  range_empty len i j = false -> i <= k < j ->
  Forall (fun t => wf_setting t = true) (map stxt new) ->
  let before := map stxt (active_at (tbl s) k) in
  let after := map stxt (active_at (tbl (apply_fmt s new st en false)) k) in
  (touches before e -> style_of after e = style_of before e)
  /\ (~ touches before e -> style_of after e = style_of (map stxt new) e).
Proof.
  intros s new st en e k Hs Hnd Hfr Hne len i j Hre Hk Hwf before after.
  assert (E : after = map stxt new ++ before).
  { unfold after, before. rewrite (apply_fmt_inside_bottom s new st en false Hs Hnd Hfr Hne Hre eq_refl k Hk).
    apply map_app. }
  rewrite E. split; intros H.
  - now apply style_below_hidden.
  - now apply style_below_shows.
Qed.
Print Assumptions C06_display_bottom.

(* topmost=True: on the first character of the range, and on each following character for as long as
   no other setting begins in between, the new settings determine the displayed value of every effect
   they touch *)
Theorem C06_display_top : forall s new st en e k,
  ssorted (tbl s) -> nodup_active (tbl s) -> fresh_for new (tbl s) -> new <> [] ->
  let len := length (base s) in
  let i := slice_idx len st 0 in let j := slice_idx len en len in
  range_empty len i j = false -> i <= k < j ->
  (forall kp, In kp (tbl s) -> i < fst kp <= k -> padd (snd kp) = []) ->
  Forall (fun t => wf_setting t = true) (map stxt (active_at (tbl s) k)) ->
  touches (map stxt new) e ->
  style_of (map stxt (active_at (tbl (apply_fmt s new st en true)) k)) e = style_of (map stxt new) e.
Proof.
  intros s new st en e k Hs Hnd Hfr Hne len i j Hre Hk Hno Hwf Ht.
  destruct (apply_fmt_inside_top s new st en true Hs Hfr Hne Hre eq_refl k Hk) as (l1 & l2 & E1 & E2 & _ & _ & H5).
  specialize (H5 Hno). subst l2. rewrite app_nil_r in E1, E2. rewrite E2, map_app.
  apply style_on_top; [|exact Ht]. rewrite <- E1. exact Hwf.
Qed.
Print Assumptions C06_display_top.

(* the result is again well formed (used by C09): sorted, within bounds, passes the library's own
   strict self-check, no object active twice, and closed exactly as before *)
Theorem C06_preserves : forall s new st en top,
  ssorted (tbl s) -> nodup_active (tbl s) -> fresh_for new (tbl s) ->
  let r := apply_fmt s new st en top in
  ssorted (tbl r) /\ nodup_active (tbl r)
  /\ (keys_le (tbl s) (length (base s)) -> keys_le (tbl r) (length (base s)))
  /\ (strict_ok (tbl s) = true -> strict_ok (tbl r) = true)
  /\ final_active (tbl r) = final_active (tbl s).
Proof.
  intros s new st en top Hs Hnd Hfr r. repeat split.
  - apply apply_fmt_sorted; auto.
  - apply apply_fmt_nodup; auto.
  - apply apply_fmt_keys; auto.
  - apply apply_fmt_strict; auto.
  - apply apply_fmt_final; auto.
Qed.
Print Assumptions C06_preserves.

(* non-vacuity: the example of Proofs/ApplyProofs.v satisfies every hypothesis *)
Example C06_example := ApplyExample.ex_hyps.

(* the range normalisation (negative, omitted, too large bounds) IS the code's _slice_val_to_idx: its body
   is re-translated from the Python source on every run (Gen/Fns.v) and shown equal to slice_idx *)
Theorem C06_bounds_are_code : forall (len : nat) (v : option Z) (d : nat),
  Z.of_nat (slice_idx len v d) = AS.Gen.Fns.gen_slice_val_to_idx (Z.of_nat len) v (Z.of_nat d).
Proof. exact slice_idx_is_code. Qed.
Print Assumptions C06_bounds_are_code.

(* ... and the "empty range or empty settings is a no-op" test IS the code's guard (`if not settings or start >= len(self._s)
   or end <= start: return`, re-translated on every run): with a truthy settings argument it is Ops.range_empty, with a
   falsy one the call always returns at once *)
Theorem C06_guard_is_code : forall len start e : nat,
  range_empty len start e = AS.Gen.Fns.gen_apply_skip true (Z.of_nat start) (Z.of_nat e) (Z.of_nat len).
Proof. exact GenGuards.apply_guard_is_code. Qed.
Theorem C06_guard_falsy : forall start e len : Z, AS.Gen.Fns.gen_apply_skip false start e len = true.
Proof. exact GenGuards.apply_guard_falsy. Qed.
Print Assumptions C06_guard_is_code.
Print Assumptions C06_guard_falsy.

(* FOR EVERY REACHABLE VALUE: with the new setting objects allocated as the library does (fresh
   identities, here `fresh texts (next_id p)`), characters outside the range keep their settings and
   characters inside gain exactly the new ones, below (topmost=False) or as one block (topmost=True) *)
Theorem C06_reachable : forall p o texts st en top, reachable_ok p -> In o (objs p) -> texts <> [] ->
  let s := o_val o in
  let new := fst (fresh texts (next_id p)) in
  let len := length (base s) in
  let i := slice_idx len st 0 in let j := slice_idx len en len in
  let r := apply_fmt s new st en top in
  map stxt new = texts /\ base r = base s /\ WFv r
  /\ (forall k, k < i \/ j <= k -> active_at (tbl r) k = active_at (tbl s) k)
  /\ (range_empty len i j = false -> top = false -> forall k, i <= k < j ->
        active_at (tbl r) k = new ++ active_at (tbl s) k)
  /\ (range_empty len i j = false -> top = true -> forall k, i <= k < j ->
        exists l1 l2, active_at (tbl s) k = l1 ++ l2 /\ active_at (tbl r) k = l1 ++ new ++ l2 /\ (k = i -> l2 = [])).
Proof.
  intros p o texts st en top Hr Hin Hne s new len i j r.
  destruct (reachable_value p o Hr Hin) as (W & _ & _ & _ & S & _ & _ & N & _ & _ & B).
  assert (Hfr : fresh_for new (tbl s)) by (apply fresh_fresh_for; exact B).
  assert (Hnew : new <> []) by (unfold new; intros H; apply fresh_is_nil in H; congruence).
  split; [apply fresh_txts|].
  split; [apply C06_text|]. split; [now apply apply_fmt_WFv|].
  split; [apply apply_fmt_outside; assumption|].
  split.
  - intros Hre Ht k Hk. apply apply_fmt_inside_bottom; assumption.
  - intros Hre Ht k Hk. destruct (apply_fmt_inside_top s new st en top S Hfr Hnew Hre Ht k Hk) as (l1 & l2 & A1 & A2 & _ & A4 & _).
    exists l1, l2. auto.
Qed.
Print Assumptions C06_reachable.
