(* C04 - Slicing returns exactly the selected characters and styles, closed at the end.
   Statements only.  getitem_slice / getitem_int / iterate model AnsiString.__getitem__ (as repaired,
   known_findings F5 F6 F7 F8), clip(a, b) is s[a:b] by definition of Exec.op_7.
   `ssorted` (change points strictly increasing) and duplicate-free active lists are part of the
   invariant that C09 shows for every reachable value. *)
From AS Require Import Base.
From AS.Model Require Import Table Ops.
From AS Require Import Effects.
From AS.Model Require Import Sgr Tokenizer Render Scrub Parse StrOps FormatSpec Exec.
From AS.Proofs Require Import TableProofs SliceProofs GenFns PadProofs ExecProofs InvariantProofs ReachableCorollaries.

Section C04.
Variable s : astr.
Variables a b : option Z.
Let len := length (base s).
Let i := slice_idx len a 0.          (* Python's slice rules: negative, omitted, out of range *)
Let j := slice_idx len b len.

(* base_str of s[a:b] is base_str[a:b] *)
Theorem C04_text : base (getitem_slice s a b) = str_slice (base s) i j.
Proof. exact (api_text s a b). Qed.

(* the k-th character reports the same settings - the same objects in the same order, hence the
   same precedence - as character i + k of the source *)
Theorem C04_settings : ssorted (tbl s) -> forall k, k < j - i ->
  settings_at_nat (getitem_slice s a b) k = settings_at_nat s (i + k).
Proof. exact (api_settings s a b). Qed.

(* the slice is again a well-ordered table *)
Theorem C04_sorted : ssorted (tbl s) -> ssorted (tbl (getitem_slice s a b)).
Proof. exact (api_sorted s a b). Qed.

(* complete in itself: after its last change point nothing is active any more *)
Theorem C04_closed : ssorted (tbl s) -> NoDup (ids (active_at (tbl s) (j - 1))) ->
  final_active (tbl (getitem_slice s a b)) = [].
Proof. exact (api_closed s a b). Qed.
End C04.
Print Assumptions C04_text.
Print Assumptions C04_settings.
Print Assumptions C04_sorted.
Print Assumptions C04_closed.

(* the bound normalisation used above IS the code's _slice_val_to_idx: its body is re-translated from the
   Python source on every run (Gen/Fns.v) and shown equal to slice_idx *)
Theorem C04_bounds_are_code : forall (len : nat) (v : option Z) (d : nat),
  Z.of_nat (slice_idx len v d) = AS.Gen.Fns.gen_slice_val_to_idx (Z.of_nat len) v (Z.of_nat d).
Proof. exact slice_idx_is_code. Qed.
Print Assumptions C04_bounds_are_code.

(* text appended to a slice keeps only its own style: every appended position reports nothing *)
Theorem C04_no_bleed : forall (s : astr) (a b : option Z) (t : str),
  ssorted (tbl s) ->
  let len := length (base s) in
  let i := slice_idx len a 0 in let j := slice_idx len b len in
  NoDup (ids (active_at (tbl s) (j - 1))) ->
  exists r, iadd (getitem_slice s a b) (plain t) = OK r
    /\ base r = base (getitem_slice s a b) ++ t
    /\ forall k, length (base (getitem_slice s a b)) <= k -> active_at (tbl r) k = [].
Proof. exact slice_no_bleed. Qed.
Print Assumptions C04_no_bleed.

(* s[k] for a valid index (negative included) is the one-character slice; otherwise IndexError *)
Theorem C04_index : forall (s : astr) (k : Z),
  let len := Z.of_nat (length (base s)) in
  ((- len <= k < len)%Z ->
     getitem_int s k = OK (slice_core s (Z.to_nat (if (k <? 0)%Z then len + k else k)) (S (Z.to_nat (if (k <? 0)%Z then len + k else k)))))
  /\ (~ (- len <= k < len)%Z -> getitem_int s k = Err IndexError).
Proof. exact getitem_int_spec. Qed.
Print Assumptions C04_index.

(* iterating yields s[0], s[1], ... in order *)
Theorem C04_iter : forall s : astr,
  map OK (iterate s) = map (fun n => getitem_int s (Z.of_nat n)) (seq 0 (length (base s))).
Proof.
  intros s. unfold iterate. rewrite map_map. apply map_ext_in. intros n Hn. apply in_seq in Hn.
  destruct (getitem_int_spec s (Z.of_nat n)) as [H _]. rewrite H by lia.
  replace (Z.of_nat n <? 0)%Z with false by (symmetry; apply Z.ltb_ge; lia). now rewrite Nat2Z.id.
Qed.
Print Assumptions C04_iter.

(* non-vacuity: a table with two equal-valued overlapping settings, sliced at a change point *)
Example C04_example :
  let red1 := mkS 1 [51; 49]%N in let red2 := mkS 2 [51; 49]%N in
  let s := mkA [97; 98; 99; 100]%N [(0, mkP [red1] []); (1, mkP [red2] []); (2, mkP [] [red1]); (4, mkP [] [red2])] in
  ssorted (tbl s) /\ NoDup (ids (active_at (tbl s) 1))
  /\ getitem_slice s (Some 0%Z) (Some 2%Z) = mkA [97; 98]%N [(0, mkP [red1] []); (1, mkP [red2] []); (2, mkP [] [red1; red2])].
Proof.
  cbv zeta. split; [|split].
  - repeat constructor; simpl; intros kp H; repeat destruct H as [<-|H]; simpl; try lia; tauto.
  - vm_compute. repeat constructor; simpl; intuition congruence.
  - vm_compute. reflexivity.
Qed.

(* FOR EVERY REACHABLE VALUE (C09_reachable_value discharges the hypotheses): the k-th character of any
   slice reports the same setting objects in the same order as the corresponding character of the source,
   and nothing stays open past the end of the slice *)
Theorem C04_reachable : forall p o (a b : option Z), reachable_ok p -> In o (objs p) ->
  let s := o_val o in
  let i := slice_idx (length (base s)) a 0 in let j := slice_idx (length (base s)) b (length (base s)) in
  base (getitem_slice s a b) = str_slice (base s) i j
  /\ (forall k, k < j - i -> settings_at_nat (getitem_slice s a b) k = settings_at_nat s (i + k))
  /\ final_active (tbl (getitem_slice s a b)) = []
  /\ WFv (getitem_slice s a b).
Proof.
  intros p o a b Hr Hin s i j.
  destruct (reachable_value p o Hr Hin) as (W & _ & _ & _ & S & _ & _ & N & _).
  split; [apply api_text|]. split; [now apply api_settings|]. split.
  - apply api_closed; [exact S | apply N].
  - now apply getitem_slice_WFv.
Qed.
Print Assumptions C04_reachable.
