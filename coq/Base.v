(* Base types and Python-string helpers shared by the specification and the model. *)
From Coq Require Export List NArith ZArith Bool Arith Lia.
From Coq Require String Ascii.
Export ListNotations.

Definition char := N.                 (* a Unicode code point *)
Definition str  := list char.         (* a Python str *)

Definition ESC : char := 27%N.
Definition LBR : char := 91%N.        (* '[' *)
Definition SEMI : char := 59%N.       (* ';' *)
Definition CH_m : char := 109%N.      (* 'm' *)
Definition SPACE : char := 32%N.
Definition CH_0 : char := 48%N.
Definition CH_MINUS : char := 45%N.
Definition CH_PLUS : char := 43%N.
Definition CH_US : char := 95%N.      (* '_' *)
Definition CH_COLON : char := 58%N.

Definition str_of_string (s : String.string) : str :=
  List.map (fun a => Ascii.N_of_ascii a) (String.list_ascii_of_string s).

(* final bytes of a control sequence: 0x40-0x7E *)
Definition is_final (c : char) : bool := (64 <=? c)%N && (c <=? 126)%N.

(* ---------- results with Python exception classes ---------- *)
Inductive err := TypeError | ValueError | IndexError.
Inductive res (A : Type) := OK (a : A) | Err (e : err).
Arguments OK {A} a.
Arguments Err {A} e.
Definition bind {A B} (r : res A) (f : A -> res B) : res B :=
  match r with OK a => f a | Err e => Err e end.
Notation "'do' x <- r ; k" := (bind r (fun x => k)) (at level 200, x pattern, r at level 100, k at level 200).

(* ---------- list helpers ---------- *)
Fixpoint str_eqb (a b : str) : bool :=
  match a, b with
  | [], [] => true
  | x :: a', y :: b' => N.eqb x y && str_eqb a' b'
  | _, _ => false
  end.

Lemma str_eqb_eq a b : str_eqb a b = true <-> a = b.
Proof.
  revert b; induction a as [|x a IH]; destruct b as [|y b]; simpl; split; intros H; try congruence; auto.
  - apply andb_true_iff in H as [H1 H2]. apply N.eqb_eq in H1. apply IH in H2. congruence.
  - inversion H; subst. rewrite N.eqb_refl. simpl. now apply IH.
Qed.
Lemma str_eqb_refl a : str_eqb a a = true. Proof. now apply str_eqb_eq. Qed.

Fixpoint list_eqb {A} (eqb : A -> A -> bool) (a b : list A) : bool :=
  match a, b with
  | [], [] => true
  | x :: a', y :: b' => eqb x y && list_eqb eqb a' b'
  | _, _ => false
  end.

Definition mem_char (c : char) (l : str) : bool := existsb (N.eqb c) l.

Fixpoint remove_nth {A} (n : nat) (l : list A) : list A :=
  match l, n with
  | [], _ => []
  | _ :: r, O => r
  | x :: r, S n' => x :: remove_nth n' r
  end.

Fixpoint set_nth {A} (n : nat) (v : A) (l : list A) : list A :=
  match l, n with
  | [], _ => []
  | _ :: r, O => v :: r
  | x :: r, S n' => x :: set_nth n' v r
  end.

Definition is_nil {A} (l : list A) : bool := match l with [] => true | _ => false end.

Fixpoint last_opt {A} (l : list A) : option A :=
  match l with [] => None | [x] => Some x | _ :: r => last_opt r end.

(* ---------- Python str helpers ---------- *)
Fixpoint starts_with (s p : str) : bool :=
  match p, s with
  | [], _ => true
  | y :: p', x :: s' => N.eqb x y && starts_with s' p'
  | _ :: _, [] => false
  end.

Definition ends_with (s p : str) : bool := starts_with (rev s) (rev p).

(* s.find(sub, start) for 0 <= start; None = -1 *)
Fixpoint find_at (s sub : str) (pos : nat) : option nat :=
  if starts_with s sub then Some pos else
  match s with [] => None | _ :: r => find_at r sub (S pos) end.
Definition find_from (s sub : str) (start : nat) : option nat :=
  if length s <? start then None else find_at (skipn start s) sub start.

(* s.rfind(sub) *)
Fixpoint rfind_at (s sub : str) (pos : nat) : option nat :=
  match s with
  | [] => if is_nil sub then Some pos else None
  | _ :: r => match rfind_at r sub (S pos) with
              | Some k => Some k
              | None => if starts_with s sub then Some pos else None end
  end.
Definition rfind (s sub : str) : option nat := rfind_at s sub 0.

Definition str_slice (s : str) (i j : nat) : str := firstn (j - i) (skipn i s).

Fixpoint join (sep : str) (l : list str) : str :=
  match l with [] => [] | [x] => x | x :: r => x ++ sep ++ join sep r end.

(* split on a single character (str.split(';')) *)
Fixpoint split_char (c : char) (s : str) : list str :=
  match s with
  | [] => [[]]
  | x :: r => if N.eqb x c then [] :: split_char c r
              else match split_char c r with
                   | [] => [[x]]       (* unreachable *)
                   | h :: t => (x :: h) :: t end
  end.

Definition is_ws (c : char) : bool :=
  (* characters str.strip() removes that can occur in our ASCII fragment *)
  match c with 32 | 9 | 10 | 11 | 12 | 13 | 28 | 29 | 30 | 31 | 133 | 160 => true | _ => false end%N.
Fixpoint lstrip_ws (s : str) : str := match s with c :: r => if is_ws c then lstrip_ws r else s | [] => [] end.
Definition strip_ws (s : str) : str := rev (lstrip_ws (rev (lstrip_ws s))).

Definition is_digit (c : char) : bool := (48 <=? c)%N && (c <=? 57)%N.
Definition digit_val (c : char) : N := (c - 48)%N.

(* ---------- decimal printing: Python str(int) ---------- *)
Fixpoint dec_fuel (fuel : nat) (n : N) (acc : str) : str :=
  match fuel with
  | O => acc
  | S f => let d := (48 + n mod 10)%N in
           let q := (n / 10)%N in
           if (q =? 0)%N then d :: acc else dec_fuel f q (d :: acc)
  end.
Definition decN (n : N) : str := dec_fuel (S (N.size_nat n)) n [].
Definition dec (z : Z) : str :=
  match z with
  | Z0 => [CH_0]
  | Zpos p => decN (Npos p)
  | Zneg p => CH_MINUS :: decN (Npos p)
  end.

(* ---------- the ASCII fragment of Python int(str) ---------- *)
(* optional surrounding whitespace, optional sign, digits with single underscores between digits *)
Fixpoint digits_val (s : str) (acc : N) (prev_digit : bool) : option N :=
  match s with
  | [] => if prev_digit then Some acc else None
  | c :: r => if is_digit c then digits_val r (acc * 10 + digit_val c)%N true
              else if N.eqb c CH_US then (if prev_digit then
                                             match r with [] => None | _ => digits_val r acc false end
                                           else None)
              else None
  end.
Definition parse_int (s : str) : option Z :=
  match strip_ws s with
  | [] => None
  | c :: r => if N.eqb c CH_MINUS then option_map (fun n => (- Z.of_N n)%Z) (digits_val r 0%N false)
              else if N.eqb c CH_PLUS then option_map Z.of_N (digits_val r 0%N false)
              else option_map Z.of_N (digits_val (c :: r) 0%N false)
  end.

(* ---------- Python slice index normalisation (AnsiString._slice_val_to_idx) ---------- *)
Definition slice_idx (len : nat) (v : option Z) (default : nat) : nat :=
  match v with
  | None => default
  | Some z => if (z <? 0)%Z then Z.to_nat (Z.max 0 (Z.of_nat len + z))
              else Z.to_nat (Z.min z (Z.of_nat len))
  end.

(* Python's own slice bounds for s[a:b] (both clamped into 0..len) *)
Definition py_bound (len : nat) (v : option Z) (default : nat) : nat :=
  match v with
  | None => default
  | Some z => if (z <? 0)%Z then Z.to_nat (Z.max 0 (Z.of_nat len + z))
              else Z.to_nat (Z.min z (Z.of_nat len))
  end.

(* ---------- S-expression trees: the wire format of the correspondence check ---------- *)
Inductive sx := A (z : Z) | L (l : list sx).

Definition sx_of_str (s : str) : sx := L (List.map (fun c => A (Z.of_N c)) s).
Definition str_of_sx (x : sx) : str :=
  match x with L l => List.map (fun a => match a with A z => Z.to_N z | _ => 0%N end) l | A _ => [] end.
Definition sx_of_nat (n : nat) : sx := A (Z.of_nat n).
Definition sx_of_bool (b : bool) : sx := A (if b then 1 else 0)%Z.
Definition bool_of_sx (x : sx) : bool := match x with A z => negb (z =? 0)%Z | _ => false end.
Definition z_of_sx (x : sx) : Z := match x with A z => z | _ => 0%Z end.
Definition nat_of_sx (x : sx) : nat := Z.to_nat (z_of_sx x).
(* optional int: L [] = None, A z = Some z *)
Definition optz_of_sx (x : sx) : option Z := match x with A z => Some z | L _ => None end.
Definition sx_of_optnat (o : option nat) : sx := match o with Some n => sx_of_nat n | None => L [] end.
Definition list_of_sx (x : sx) : list sx := match x with L l => l | A _ => [] end.
