(* Proofs about the control-sequence tokenizer model (C19). *)
From AS Require Import Base.
From AS.Model Require Import Tokenizer.
Local Open Scope N_scope.

Lemma span_body_app s : let '(b, r) := span_body s in s = b ++ r.
Proof.
  induction s as [|c r IH]; simpl; auto. destruct (is_final c); simpl; auto.
  destruct (span_body r) as [b r']. simpl. now rewrite IH.
Qed.

Lemma span_body_len s : (length (snd (span_body s)) <= length s)%nat.
Proof.
  induction s as [|c r IH]; simpl; auto. destruct (is_final c); simpl; auto.
  destruct (span_body r) as [b r']. simpl in *. lia.
Qed.

Lemma span_body_nonfinal s : forallb (fun c => negb (is_final c)) (fst (span_body s)) = true.
Proof.
  induction s as [|c r IH]; simpl; auto. destruct (is_final c) eqn:E; simpl; auto.
  destruct (span_body r) as [b r']. simpl in *. now rewrite E, IH.
Qed.

Lemma span_body_head s : match snd (span_body s) with [] => True | c :: _ => is_final c = true end.
Proof.
  induction s as [|c r IH]; simpl; auto. destruct (is_final c) eqn:E; simpl; auto.
  destruct (span_body r) as [b r']. simpl in *. exact IH.
Qed.

(* a body without final bytes followed by a final byte is read back exactly *)
Lemma span_body_exact b f r :
  forallb (fun c => negb (is_final c)) b = true -> is_final f = true -> span_body (b ++ f :: r) = (b, f :: r).
Proof.
  induction b as [|c b IH]; simpl; intros Hb Hf.
  - now rewrite Hf.
  - apply andb_true_iff in Hb as [Hc Hb]. apply negb_true_iff in Hc. rewrite Hc. now rewrite IH.
Qed.

Lemma flat_map_TChar l : flat_map render_tok (map TChar l) = l.
Proof. induction l; simpl; congruence. Qed.

Theorem tokenize_fuel_lossless : forall fuel ae acc s,
  (length s <= fuel)%nat -> render_toks (tokenize_fuel fuel ae acc s) = s.
Proof.
  induction fuel as [|f IH]; intros ae acc s Hl.
  - destruct s; simpl in *; auto; lia.
  - destruct s as [|c1 r1]; simpl; auto.
    destruct r1 as [|c2 r2]; simpl; auto.
    destruct ((c1 =? ESC) && (c2 =? LBR)) eqn:E.
    + apply andb_true_iff in E as [E1 E2]. apply N.eqb_eq in E1, E2. subst.
      pose proof (span_body_app r2) as Ha. pose proof (span_body_len r2) as Hb.
      destruct (span_body r2) as [b r3]. simpl in Hb.
      destruct r3 as [|t r4].
      * destruct (accept ae acc None); unfold render_toks; simpl.
        -- rewrite IH by (simpl; lia). simpl. unfold render_seq. simpl. now rewrite Ha, !app_nil_r.
        -- rewrite flat_map_app, flat_map_TChar. fold (render_toks (tokenize_fuel f ae acc [])).
           rewrite IH by (simpl; lia). now rewrite Ha, !app_nil_r.
      * destruct (accept ae acc (Some t)); unfold render_toks; simpl.
        -- fold (render_toks (tokenize_fuel f ae acc r4)). rewrite IH by (simpl in *; lia).
           unfold render_seq. simpl. rewrite Ha. now rewrite <- app_assoc.
        -- rewrite flat_map_app, flat_map_TChar. fold (render_toks (tokenize_fuel f ae acc r4)).
           rewrite IH by (simpl in *; lia). rewrite Ha. now rewrite <- !app_assoc.
    + unfold render_toks. simpl. fold (render_toks (tokenize_fuel f ae acc (c2 :: r2))).
      rewrite IH by (simpl in *; lia). reflexivity.
Qed.

Theorem tokenize_lossless ae acc s : render_toks (tokenize ae acc s) = s.
Proof. apply tokenize_fuel_lossless. apply le_n. Qed.

(* ---------- the sequences dict and re-insertion ---------- *)
(* the removal points in list form: index into the unformatted text, sequence *)
Fixpoint seqs_flat (l : list tok) (pos : nat) : list (nat * cseq) :=
  match l with
  | [] => []
  | TChar _ :: r => seqs_flat r (S pos)
  | TSeq q :: r => (pos, q) :: seqs_flat r pos
  end.

Definition keys_le (d : list (nat * list cseq)) (k : nat) : Prop := forall kv, In kv d -> (fst kv <= k)%nat.
Inductive keys_inc : list (nat * list cseq) -> Prop :=
| ki_nil : keys_inc []
| ki_cons k l d : (forall kv, In kv d -> (k < fst kv)%nat) -> keys_inc d -> keys_inc ((k, l) :: d).

Lemma flat_seq_add k q d : keys_inc d -> keys_le d k ->
  flat_sequences (seq_add k q d) = flat_sequences d ++ [(k, q)] /\ keys_inc (seq_add k q d) /\ keys_le (seq_add k q d) k.
Proof.
  unfold flat_sequences. induction d as [|[k' l] d IH]; intros Hi Hl.
  - simpl. repeat split; auto.
    + constructor; [intros kv []|constructor].
    + intros kv [<-|[]]; simpl; lia.
  - inversion Hi as [|? ? ? Hlt Hi']; subst. simpl.
    destruct (Nat.eqb k k') eqn:E.
    + apply Nat.eqb_eq in E; subst k'.
      assert (d = []) as ->.
      { destruct d as [|kv d]; auto. exfalso.
        assert (fst kv <= k)%nat by (apply Hl; right; now left).
        assert (k < fst kv)%nat by (apply Hlt; now left). lia. }
      simpl. rewrite !app_nil_r, map_app. simpl. repeat split; auto.
      * constructor; [intros kv []|constructor].
      * intros kv [<-|[]]; simpl; lia.
    + apply Nat.eqb_neq in E.
      assert (Hk' : (k' < k)%nat). { assert (k' <= k)%nat by (apply (Hl (k', l)); now left). lia. }
      destruct IH as (IH1 & IH2 & IH3); auto.
      { intros kv Hin. apply Hl. now right. }
      simpl. rewrite IH1. rewrite app_assoc. repeat split; auto.
      * constructor; auto. intros kv Hin.
        assert (Hin' : In kv (seq_add k q d)) by exact Hin.
        clear -Hin' Hlt Hk'. revert Hin'. induction d as [|[a b] d IHd]; simpl.
        -- intros [<-|[]]. simpl. lia.
        -- destruct (Nat.eqb k a) eqn:E.
           ++ apply Nat.eqb_eq in E. subst a. intros [<-|Hin]; simpl; [lia|]. apply Hlt. now right.
           ++ intros [<-|Hin]. apply (Hlt (a, b)). now left. apply IHd; auto. intros; apply Hlt. now right.
      * intros kv [<-|Hin]; simpl; [lia|]. now apply IH3.
Qed.

Lemma sequences_from_flat l : forall pos d, keys_inc d -> keys_le d pos ->
  flat_sequences (sequences_from l pos d) = flat_sequences d ++ seqs_flat l pos.
Proof.
  induction l as [|[c|q] r IH]; intros pos d Hi Hl; simpl.
  - now rewrite app_nil_r.
  - apply IH; auto. intros kv Hin. specialize (Hl kv Hin). lia.
  - destruct (flat_seq_add pos q d Hi Hl) as (H1 & H2 & H3).
    rewrite IH; auto. rewrite H1, <- app_assoc. reflexivity.
Qed.

Corollary sequences_flat l : flat_sequences (sequences l) = seqs_flat l 0.
Proof. unfold sequences. rewrite sequences_from_flat. reflexivity. constructor. intros kv []. Qed.

Lemma str_slice_app_exact (p rest : str) (a : nat) : (a <= length p)%nat ->
  str_slice (p ++ rest) a (length p) = skipn a p.
Proof.
  intros Ha. unfold str_slice. rewrite skipn_app.
  replace (a - length p)%nat with 0%nat by lia. simpl.
  rewrite firstn_app. rewrite skipn_length.
  replace (length p - a - (length p - a))%nat with 0%nat by lia. simpl. rewrite app_nil_r.
  apply firstn_all2. rewrite skipn_length. lia.
Qed.

(* re-insertion: with u = p ++ unformatted l and all remaining removal points at >= length p *)
Lemma formatted_loop_spec l : forall (p : str) (last : nat), (last <= length p)%nat ->
  formatted_loop (p ++ unformatted l) (seqs_flat l (length p)) last = skipn last p ++ render_toks l.
Proof.
  induction l as [|[c|q] r IH]; intros p last Hl; simpl.
  - rewrite app_nil_r. unfold render_toks. simpl. now rewrite app_nil_r.
  - unfold render_toks, unformatted in *. simpl.
    specialize (IH (p ++ [c]) last). rewrite app_length in IH. simpl in IH.
    replace (length p + 1)%nat with (S (length p)) in IH by lia.
    rewrite <- app_assoc in IH. simpl in IH. rewrite IH by lia.
    rewrite skipn_app. replace (last - length p)%nat with 0%nat by lia. simpl. now rewrite <- app_assoc.
  - unfold render_toks, unformatted in *. simpl.
    rewrite str_slice_app_exact by exact Hl.
    specialize (IH p (length p) (le_n _)). rewrite IH. rewrite skipn_all. simpl.
    now rewrite <- app_assoc.
Qed.

Theorem formatted_is_render l : formatted l = render_toks l.
Proof.
  unfold formatted. rewrite sequences_flat.
  exact (formatted_loop_spec l [] 0 (le_n _)).
Qed.

Theorem formatted_roundtrip ae acc s : formatted (tokenize ae acc s) = s.
Proof. rewrite formatted_is_render. apply tokenize_lossless. Qed.

(* ---------- decimal digits never terminate a sequence ---------- *)
Lemma dec_fuel_chars fuel : forall n acc,
  forallb (fun c => negb (is_final c)) acc = true ->
  forallb (fun c => negb (is_final c)) (dec_fuel fuel n acc) = true.
Proof.
  induction fuel as [|f IH]; intros n acc Hacc; cbn [dec_fuel]; auto.
  assert (Hd : negb (is_final (48 + n mod 10)) = true).
  { unfold is_final. pose proof (N.mod_upper_bound n 10). apply negb_true_iff, andb_false_iff. left.
    apply N.leb_gt. lia. }
  destruct (n / 10 =? 0); [cbn [forallb]; now rewrite Hd|]. apply IH. cbn [forallb]. now rewrite Hd.
Qed.

Lemma dec_nonfinal z : forallb (fun c => negb (is_final c)) (dec z) = true.
Proof.
  destruct z as [|p|p]; cbn [dec]; [reflexivity| |].
  - unfold decN. apply dec_fuel_chars. reflexivity.
  - cbn [forallb]. replace (negb (is_final CH_MINUS)) with true by reflexivity. cbn [andb].
    unfold decN. apply dec_fuel_chars. reflexivity.
Qed.

Lemma tokenize_one_seq body f :
  forallb (fun c => negb (is_final c)) body = true -> is_final f = true ->
  forall ae, tokenize ae None (ESC :: LBR :: body ++ [f]) = [TSeq {| cs_body := body; cs_term := Some f |}].
Proof.
  intros Hb Hf ae. unfold tokenize. simpl length. cbn [tokenize_fuel].
  rewrite !N.eqb_refl. cbn [andb].
  rewrite (span_body_exact body f [] Hb Hf).
  unfold accept. cbn. destruct (length (body ++ [f])); reflexivity.
Qed.

Theorem helper1_one_sequence n f : is_final f = true -> forall ae,
  tokenize ae None (helper1 n f) = [TSeq {| cs_body := dec n; cs_term := Some f |}].
Proof. intros Hf ae. unfold helper1. apply tokenize_one_seq; auto. apply dec_nonfinal. Qed.

Theorem helper2_one_sequence r c f : is_final f = true -> forall ae,
  tokenize ae None (helper2 r c f) = [TSeq {| cs_body := dec r ++ [SEMI] ++ dec c; cs_term := Some f |}].
Proof.
  intros Hf ae. unfold helper2.
  replace (dec r ++ [SEMI] ++ dec c ++ [f]) with ((dec r ++ [SEMI] ++ dec c) ++ [f]) by (now rewrite <- !app_assoc).
  apply tokenize_one_seq; auto.
  rewrite !forallb_app, !dec_nonfinal. reflexivity.
Qed.

(* ---------- every recognised sequence has the stated shape ---------- *)
Definition wf_seq (ae : bool) (acc : option str) (q : cseq) : Prop :=
  forallb (fun c => negb (is_final c)) (cs_body q) = true
  /\ (forall f, cs_term q = Some f -> is_final f = true)
  /\ accept ae acc (cs_term q) = true.
Definition wf_tok (ae : bool) (acc : option str) (t : tok) : Prop :=
  match t with TChar _ => True | TSeq q => wf_seq ae acc q end.

Lemma Forall_map_TChar ae acc l : Forall (wf_tok ae acc) (map TChar l).
Proof. induction l; simpl; constructor; simpl; auto. Qed.

Theorem tokenize_fuel_wf : forall fuel ae acc s, Forall (wf_tok ae acc) (tokenize_fuel fuel ae acc s).
Proof.
  induction fuel as [|f IH]; intros ae acc s; cbn [tokenize_fuel]; [constructor|].
  destruct s as [|c1 r1]; [constructor|].
  destruct r1 as [|c2 r2]; [repeat constructor|].
  destruct ((c1 =? ESC) && (c2 =? LBR)) eqn:E.
  - pose proof (span_body_nonfinal r2) as Hn. pose proof (span_body_head r2) as Hh.
    destruct (span_body r2) as [b r3]. simpl in Hn, Hh.
    destruct r3 as [|t r4].
    + destruct (accept ae acc None) eqn:Ea.
      * constructor; [|apply IH]. simpl. repeat split; auto. intros f0 H; discriminate H.
      * apply Forall_app; split; [apply Forall_map_TChar|apply IH].
    + destruct (accept ae acc (Some t)) eqn:Ea.
      * constructor; [|apply IH]. simpl. repeat split; auto. intros f0 H; inversion H; subst; auto.
      * apply Forall_app; split; [apply Forall_map_TChar|apply IH].
  - constructor; simpl; auto.
Qed.

Theorem tokenize_wf ae acc s : Forall (wf_tok ae acc) (tokenize ae acc s).
Proof. apply tokenize_fuel_wf. Qed.
