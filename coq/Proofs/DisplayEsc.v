(* C01 on the TOKEN level, for texts with embedded control sequences.  The byte-level statement of C01 (term_run on the
   rendering) is about texts without U+001B: a real terminal swallows an embedded non-SGR sequence, so "displays the
   characters of base_str" has no meaning for it.  What does hold - for EVERY text - is the statement on the rendering's
   own token list (tok_run over to_str_toks: RenderProofs.render_*_display_strong, no hypothesis on the text), and when
   the text is cuts_closed that token list IS the tokenisation of the rendered string by the library's control-sequence
   grammar (RoundTripEsc.tokenize_to_str_esc).  So: reading the rendering with the documented grammar, counting the
   characters of rejected control sequences as characters, every character of base_str is displayed, in order, with the
   effective style of the settings it reports, for every combination of optimize / reset_start / reset_end; with
   reset_start the starting state does not matter; with reset_end the final state is the default one. *)
From AS Require Import Base Effects.
From AS.Spec Require Import Terminal.
From AS.Model Require Import Sgr Tokenizer Table Ops Render Parse.
From AS.Proofs Require Import TableProofs RenderProofs ParseBasics ParseProofs ParsePosition RoundTripProofs RoundTripEsc.
Local Open Scope nat_scope.

Theorem display_tokens_esc : forall s opt rs re t0,
  ssorted (tbl s) -> adds_wf (tbl s) -> cuts_closed s = true -> (rs = false -> t0 = tdefault) ->
  exists disp tfin,
    tk_run t0 (tokenize false (Some [CH_m]) (to_str s opt rs re)) = (disp, tfin)
    /\ map fst disp = base s
    /\ (forall i, i < length (base s) -> exists st, nth_error (map snd disp) i = Some st /\
          teq st (style_of (map stxt (active_at (tbl s) i))))
    /\ (re = true -> teq tfin tdefault).
Proof.
  intros s opt rs re t0 Hs Hwf Hcc Ht0.
  destruct (tokenize_to_str_esc s opt rs re Hcc Hwf) as (E & _ & _).
  rewrite E, tk_run_toks_of.
  destruct opt; [apply render_opt_display_strong_exact|apply render_unopt_display_strong]; auto.
Qed.

(* the value of RoundTripEsc.ex_e: text A ESC[2J B, bold on A, italic on B *)
Example display_tokens_esc_example :
  ssorted (tbl ex_e) /\ adds_wf (tbl ex_e) /\ cuts_closed ex_e = true /\ no_esc (base ex_e) = false
  /\ map (fun ct => (fst ct, tstate_obs (snd ct))) (fst (tk_run tdefault (tokenize false (Some [CH_m]) (render ex_e))))
     = map (fun i => (nth i (base ex_e) 0%N, tstate_obs (style_of (map stxt (active_at (tbl ex_e) i))))) (seq 0 (length (base ex_e))).
Proof.
  destruct ex_e_hyps as (H1 & H2 & H3 & H4).
  split; [exact H1|]. split; [exact H2|]. split; [exact H3|]. split; [exact H4|]. vm_compute. reflexivity.
Qed.

Print Assumptions display_tokens_esc.
