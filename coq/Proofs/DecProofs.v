(* Decimal printing / reading round trips: Python's str(int) against int(str), against the
   terminal's parameter reader, and through ';'-joined setting texts. *)
From AS Require Import Base.
From Coq Require Import ZifyBool ZifyN.
Local Open Scope N_scope.
Ltac Zify.zify_post_hook ::= Z.div_mod_to_equations.

Definition dval (s : str) (acc : N) : N := fold_left (fun a c => a * 10 + digit_val c) s acc.

Lemma dval_app a b acc : dval (a ++ b) acc = dval b (dval a acc).
Proof. unfold dval. apply fold_left_app. Qed.

Lemma is_digit_spec c : is_digit c = true <-> 48 <= c <= 57.
Proof. unfold is_digit. rewrite andb_true_iff, !N.leb_le. tauto. Qed.

(* the digits produced by dec_fuel *)
Lemma dec_fuel_spec fuel : forall n acc, n < 2 ^ N.of_nat fuel -> (0 < fuel)%nat ->
  exists d, dec_fuel fuel n acc = d ++ acc /\ d <> [] /\ forallb is_digit d = true /\ dval d 0 = n.
Proof.
  induction fuel as [|f IH]; intros n acc Hn Hf; [lia|].
  cbn [dec_fuel].
  assert (Hr : n mod 10 < 10) by (apply N.mod_upper_bound; lia).
  assert (Hd : is_digit (48 + n mod 10) = true) by (apply is_digit_spec; lia).
  destruct (n / 10 =? 0) eqn:E.
  - apply N.eqb_eq in E. exists [48 + n mod 10]. repeat split; try congruence.
    + cbn [forallb]. now rewrite Hd.
    + unfold dval, digit_val. cbn [fold_left]. pose proof (N.div_mod n 10). lia.
  - apply N.eqb_neq in E.
    assert (Hf' : (0 < f)%nat).
    { destruct f; [|lia]. simpl in Hn. assert (n / 10 = 0) by (apply N.div_small; lia). congruence. }
    assert (Hq : n / 10 < 2 ^ N.of_nat f).
    { rewrite Nat2N.inj_succ, N.pow_succ_r' in Hn. set (P := 2 ^ N.of_nat f) in *. lia. }
    destruct (IH (n / 10) ((48 + n mod 10) :: acc) Hq Hf') as (d & H1 & H2 & H3 & H4).
    exists (d ++ [48 + n mod 10]). repeat split.
    + rewrite H1, <- app_assoc. reflexivity.
    + destruct d; simpl; congruence.
    + rewrite forallb_app, H3. cbn [forallb]. now rewrite Hd.
    + rewrite dval_app, H4. unfold dval, digit_val. cbn [fold_left]. pose proof (N.div_mod n 10). lia.
Qed.

Lemma decN_spec n : exists d, decN n = d /\ d <> [] /\ forallb is_digit d = true /\ dval d 0 = n.
Proof.
  unfold decN.
  destruct (dec_fuel_spec (S (N.size_nat n)) n []) as (d & H1 & H2 & H3 & H4).
  - destruct n as [|p]; [simpl; lia|].
    rewrite Nat2N.inj_succ. replace (N.of_nat (N.size_nat (N.pos p))) with (N.size (N.pos p)).
    + pose proof (N.size_gt (N.pos p)). rewrite N.pow_succ_r'. lia.
    + simpl. induction p; simpl; try rewrite SuccNat2Pos.id_succ; auto; lia.
  - lia.
  - exists d. rewrite app_nil_r in H1. auto.
Qed.

Lemma decN_digits n : forallb is_digit (decN n) = true.
Proof. destruct (decN_spec n) as (d & -> & _ & H & _). exact H. Qed.
Lemma decN_val n : dval (decN n) 0 = n.
Proof. destruct (decN_spec n) as (d & -> & _ & _ & H). exact H. Qed.
Lemma decN_nonempty n : decN n <> [].
Proof. destruct (decN_spec n) as (d & -> & H & _). exact H. Qed.

(* ---------- Python int() reads back what str() printed ---------- *)
Lemma digits_val_digits d : forall acc, forallb is_digit d = true -> d <> [] ->
  forall prev, digits_val d acc prev = Some (dval d acc).
Proof.
  induction d as [|c d IH]; intros acc Hd Hne prev; [congruence|].
  simpl in Hd. apply andb_true_iff in Hd as [Hc Hd]. cbn [digits_val]. rewrite Hc.
  destruct d as [|c' d'].
  - reflexivity.
  - rewrite IH; auto. congruence.
Qed.

Lemma digit_not_ws c : is_digit c = true -> is_ws c = false.
Proof.
  intros H. apply is_digit_spec in H. unfold is_ws.
  destruct c as [|p]; [lia|].
  do 8 (destruct p as [p|p|]; try reflexivity; try lia).
Qed.

Lemma lstrip_ws_digits d : forallb is_digit d = true -> lstrip_ws d = d.
Proof. destruct d as [|c d]; simpl; auto. intros H. apply andb_true_iff in H as [H _]. now rewrite (digit_not_ws c H). Qed.

Lemma forallb_rev {A} (f : A -> bool) l : forallb f (rev l) = forallb f l.
Proof. induction l as [|a l IH]; simpl; auto. rewrite forallb_app, IH. simpl. rewrite andb_true_r. apply andb_comm. Qed.

Lemma strip_ws_digits d : forallb is_digit d = true -> strip_ws d = d.
Proof.
  intros H. unfold strip_ws. rewrite (lstrip_ws_digits d H).
  rewrite lstrip_ws_digits by (now rewrite forallb_rev). apply rev_involutive.
Qed.

Lemma parse_int_decN n : parse_int (decN n) = Some (Z.of_N n).
Proof.
  unfold parse_int. pose proof (decN_digits n) as Hd. pose proof (decN_nonempty n) as Hne.
  rewrite (strip_ws_digits _ Hd).
  destruct (decN n) as [|c r] eqn:E; [congruence|].
  assert (Hc : is_digit c = true) by (simpl in Hd; now apply andb_true_iff in Hd as [? _]).
  apply is_digit_spec in Hc.
  replace (c =? CH_MINUS) with false by (symmetry; apply N.eqb_neq; unfold CH_MINUS; lia).
  replace (c =? CH_PLUS) with false by (symmetry; apply N.eqb_neq; unfold CH_PLUS; lia).
  rewrite (digits_val_digits (c :: r) 0 Hd Hne false).
  rewrite <- E, decN_val. reflexivity.
Qed.

Lemma strip_ws_dec_neg p : strip_ws (CH_MINUS :: decN (N.pos p)) = CH_MINUS :: decN (N.pos p).
Proof.
  unfold strip_ws. cbn [lstrip_ws]. replace (is_ws CH_MINUS) with false by reflexivity.
  pose proof (decN_digits (N.pos p)) as Hd. pose proof (decN_nonempty (N.pos p)) as Hne.
  cbn [rev]. destruct (rev (decN (N.pos p))) as [|c r] eqn:E.
  - exfalso. apply Hne. rewrite <- (rev_involutive (decN (N.pos p))), E. reflexivity.
  - assert (Hr : forallb is_digit (c :: r) = true) by (rewrite <- E, forallb_rev; exact Hd).
    simpl in Hr. apply andb_true_iff in Hr as [Hc _].
    cbn [app lstrip_ws]. rewrite (digit_not_ws c Hc).
    change (c :: r ++ [CH_MINUS]) with ((c :: r) ++ [CH_MINUS]). rewrite <- E.
    rewrite rev_app_distr, rev_involutive. reflexivity.
Qed.

Theorem parse_int_dec z : parse_int (dec z) = Some z.
Proof.
  destruct z as [|p|p]; cbn [dec].
  - reflexivity.
  - rewrite parse_int_decN. reflexivity.
  - unfold parse_int. rewrite strip_ws_dec_neg. rewrite N.eqb_refl.
    pose proof (decN_digits (N.pos p)) as Hd. pose proof (decN_nonempty (N.pos p)) as Hne.
    rewrite (digits_val_digits _ 0 Hd Hne false). rewrite decN_val. reflexivity.
Qed.

(* ---------- ';'-joined decimal items split back ---------- *)
Lemma digits_no_semi d : forallb is_digit d = true -> mem_char SEMI d = false.
Proof.
  unfold mem_char. induction d as [|c r IH]; cbn [forallb existsb]; auto.
  intros Hd. apply andb_true_iff in Hd as [Hc Hr]. apply is_digit_spec in Hc.
  rewrite (IH Hr), orb_false_r. apply N.eqb_neq. unfold SEMI. lia.
Qed.

Lemma dec_no_semi z : mem_char SEMI (dec z) = false.
Proof.
  destruct z as [|p|p]; cbn [dec]; [reflexivity| |].
  - apply digits_no_semi, decN_digits.
  - unfold mem_char. cbn [existsb]. replace (SEMI =? CH_MINUS) with false by reflexivity.
    apply (digits_no_semi _ (decN_digits (N.pos p))).
Qed.

Lemma split_char_no_sep c s : mem_char c s = false -> split_char c s = [s].
Proof.
  unfold mem_char. induction s as [|x s IH]; simpl; auto.
  intros H. apply orb_false_iff in H as [H1 H2]. rewrite N.eqb_sym, H1. now rewrite (IH H2).
Qed.

Lemma split_char_app c a b : mem_char c a = false ->
  split_char c (a ++ c :: b) = a :: split_char c b.
Proof.
  unfold mem_char. induction a as [|x a IH]; simpl.
  - intros _. now rewrite N.eqb_refl.
  - intros H. apply orb_false_iff in H as [H1 H2]. rewrite N.eqb_sym, H1. now rewrite (IH H2).
Qed.

Theorem split_join_dec l : l <> [] -> split_char SEMI (join [SEMI] (map dec l)) = map dec l.
Proof.
  induction l as [|z l IH]; [congruence|]. intros _.
  destruct l as [|z' l'].
  - simpl. apply split_char_no_sep, dec_no_semi.
  - change (join [SEMI] (map dec (z :: z' :: l'))) with (dec z ++ SEMI :: join [SEMI] (map dec (z' :: l'))).
    rewrite split_char_app by apply dec_no_semi. rewrite IH by congruence. reflexivity.
Qed.

Lemma strip_ws_dec z : strip_ws (dec z) = dec z.
Proof.
  destruct z as [|p|p]; cbn [dec]; [reflexivity| |apply strip_ws_dec_neg].
  apply strip_ws_digits, decN_digits.
Qed.
