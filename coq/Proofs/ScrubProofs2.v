(* The settings scrubber, part 2 (C14): flattening of nested lists, ';'-separated strings, integer
   codes and colour groups, the rgb()/color256() builders and their string forms, errors, validity. *)
From Coq Require Import String.
From AS Require Import Base Effects.
From AS.Spec Require Import Terminal.
From AS.Gen Require Import Formats.
From AS.Model Require Import Sgr Scrub.
From AS.Proofs Require Import DecProofs TokenizerProofs SgrProofs ScrubProofs FlagsProofs.
Local Open Scope Z_scope.

Definition S_ (s : String.string) : str := str_of_string s.

(* ====================================================================================== *)
(* 0. The monad and the list loop of scrub_form                                            *)
(* ====================================================================================== *)

Fixpoint scrub_list (l : list form) : res (list sitem) :=
  match l with
  | [] => OK []
  | x :: r => do a <- scrub_form x; do b <- scrub_list r; OK (a ++ b)
  end.

Lemma scrub_form_list l : scrub_form (FList l) = scrub_list l.
Proof.
  induction l as [|x r IH]; [reflexivity|].
  cbn [scrub_list]. rewrite <- IH. reflexivity.
Qed.

Lemma bind_ret {A} (r : res (list A)) : (do a <- r; OK (a ++ [])) = r.
Proof. destruct r as [a|e]; cbn [bind]; [now rewrite app_nil_r | reflexivity]. Qed.

Lemma scrub_list_one f : scrub_list [f] = scrub_form f.
Proof. cbn [scrub_list bind]. apply bind_ret. Qed.

Lemma scrub_list_app l1 l2 :
  scrub_list (l1 ++ l2) = do a <- scrub_list l1; do b <- scrub_list l2; OK (a ++ b).
Proof.
  induction l1 as [|x r IH]; cbn [app scrub_list bind].
  - destruct (scrub_list l2); reflexivity.
  - destruct (scrub_form x) as [a|e]; cbn [bind]; [|reflexivity].
    rewrite IH. destruct (scrub_list r) as [b|e]; cbn [bind]; [|reflexivity].
    destruct (scrub_list l2) as [c|e]; cbn [bind]; [|reflexivity].
    now rewrite app_assoc.
Qed.

(* scrub in terms of the list loop *)
Definition wrap (f : form) : list form := match f with FList l => l | _ => [f] end.
Lemma scrub_unfold f : scrub f = do items <- scrub_list (wrap f); group_ints items [].
Proof. unfold scrub. destruct f; cbn [wrap]; rewrite scrub_form_list; reflexivity. Qed.

(* ====================================================================================== *)
(* 1. Flattening                                                                           *)
(* ====================================================================================== *)

Fixpoint flatten (f : form) : list form :=
  match f with
  | FList l => flat_map flatten l
  | _ => [f]
  end.

Definition is_list (f : form) : bool := match f with FList _ => true | _ => false end.

(* induction over forms with the nested list *)
Fixpoint form_ind' (P : form -> Prop)
  (Hleaf : forall f, is_list f = false -> P f)
  (Hlist : forall l, Forall P l -> P (FList l)) (f : form) : P f :=
  match f with
  | FList l => Hlist l ((fix go (l : list form) : Forall P l :=
                           match l with
                           | [] => Forall_nil P
                           | x :: r => Forall_cons x (form_ind' P Hleaf Hlist x) (go r)
                           end) l)
  | f' => Hleaf f' eq_refl
  end.

Lemma flatten_leaves f : Forall (fun x => is_list x = false) (flatten f).
Proof.
  induction f as [f Hf | l IH] using form_ind'.
  - destruct f; try discriminate; cbn [flatten]; repeat constructor.
  - cbn [flatten]. induction IH as [|x r Hx _ IHr]; cbn [flat_map]; [constructor|].
    apply Forall_app. split; assumption.
Qed.

(* the item list of any form is that of its leaves, read left to right *)
Theorem scrub_form_flatten f : scrub_form f = scrub_list (flatten f).
Proof.
  induction f as [f Hf | l IH] using form_ind'.
  - destruct f; try discriminate; cbn [flatten]; now rewrite scrub_list_one.
  - rewrite scrub_form_list. cbn [flatten].
    induction IH as [|x r Hx _ IHr]; [reflexivity|].
    cbn [flat_map scrub_list]. rewrite scrub_list_app, Hx, IHr. reflexivity.
Qed.

(* C14-flatten: the scrubbed result of a list depends only on the left-to-right sequence of its
   leaves - for ALL lists, including those with unsupported or self-referencing leaves (their
   error is the leaf's error, see below) *)
Theorem scrub_flatten l : scrub (FList l) = scrub (FList (flat_map flatten l)).
Proof.
  unfold scrub. f_equal.
  rewrite (scrub_form_flatten (FList l)), scrub_form_list. reflexivity.
Qed.

Theorem scrub_flatten_any f : scrub f = scrub (FList (flatten f)).
Proof.
  destruct f; try (cbn [flatten]; reflexivity). apply scrub_flatten.
Qed.

Theorem scrub_wrap f : is_list f = false -> scrub f = scrub (FList [f]).
Proof. destruct f; try discriminate; reflexivity. Qed.

Corollary scrub_nested_example a b c : scrub (FList [FList [a; b]; c]) = scrub (FList [a; b; c]).
Proof.
  rewrite (scrub_flatten [FList [a; b]; c]), (scrub_flatten [a; b; c]).
  cbn [flat_map flatten]. now rewrite !app_nil_r, <- !app_assoc.
Qed.

(* two lists with the same leaves scrub alike *)
Corollary scrub_same_leaves l1 l2 :
  flat_map flatten l1 = flat_map flatten l2 -> scrub (FList l1) = scrub (FList l2).
Proof. intros H. rewrite (scrub_flatten l1), (scrub_flatten l2), H. reflexivity. Qed.

Example scrub_same_leaves_ex :
  scrub (FList [FInt 38; FList [FInt 5; FList [FStr (S_ "1")]; FList []]; FMember (S_ "BOLD")])
  = scrub (FList [FList [FInt 38; FInt 5]; FStr (S_ "1"); FMember (S_ "BOLD")])
  /\ scrub (FList [FInt 38; FList [FInt 5; FList [FStr (S_ "1")]; FList []]; FMember (S_ "BOLD")])
     = OK [S_ "38;5;1"; S_ "1"].
Proof. split; vm_compute; reflexivity. Qed.

(* pointwise equal leaves give equal lists *)
Lemma scrub_list_ext l1 l2 :
  Forall2 (fun a b => scrub_form a = scrub_form b) l1 l2 -> scrub_list l1 = scrub_list l2.
Proof. induction 1 as [|a b r1 r2 Hab _ IH]; cbn [scrub_list]; [reflexivity|]. now rewrite Hab, IH. Qed.

(* ---------- errors are the first failing leaf's error ---------- *)
Lemma scrub_list_first_error pre x post e :
  Forall (fun y => exists r, scrub_form y = OK r) pre -> scrub_form x = Err e ->
  scrub_list (pre ++ x :: post) = Err e.
Proof.
  intros Hpre Hx. induction Hpre as [|y pre' [r Hy] _ IH]; cbn [app scrub_list].
  - now rewrite Hx.
  - now rewrite Hy, IH.
Qed.

Lemma scrub_list_ok_all l r : scrub_list l = OK r -> Forall (fun y => exists r', scrub_form y = OK r') l.
Proof.
  revert r. induction l as [|x l IH]; intros r H; [constructor|]. cbn [scrub_list] in H.
  destruct (scrub_form x) as [a|e] eqn:Ex; cbn [bind] in H; [|discriminate].
  destruct (scrub_list l) as [b|e] eqn:El; cbn [bind] in H; [|discriminate].
  constructor; eauto.
Qed.

(* an error of the list loop comes from a leaf all of whose predecessors are fine *)
Lemma scrub_list_error_inv l e : scrub_list l = Err e ->
  exists pre x post, l = pre ++ x :: post /\
    Forall (fun y => exists r, scrub_form y = OK r) pre /\ scrub_form x = Err e.
Proof.
  induction l as [|x l IH]; cbn [scrub_list]; [discriminate|]. intros H.
  destruct (scrub_form x) as [a|e'] eqn:Ex; cbn [bind] in H.
  - destruct (scrub_list l) as [b|e'] eqn:El; cbn [bind] in H; [discriminate|].
    injection H as ->. destruct (IH eq_refl) as (pre & y & post & -> & Hpre & Hy).
    exists (x :: pre), y, post. repeat split; auto. constructor; eauto.
  - injection H as ->. exists [], x, l. repeat split; auto.
Qed.

(* the grouping pass over integers never fails *)
Definition is_IInt (it : item) : bool := match it with IInt _ => true | IStr _ => false end.
Lemma pgs_loop_ints_ok items : forallb is_IInt items = true ->
  forall left cur ae, exists r, pgs_loop items left cur ae = OK r.
Proof.
  induction items as [|it rest IH]; intros Hall left cur ae; [cbn [pgs_loop]; eauto|].
  cbn [forallb] in Hall. apply andb_true_iff in Hall as [Hit Hrest]. destruct it as [v|s]; [|discriminate].
  specialize (IH Hrest).
  assert (Hgo : forall l,
    exists r, (let cur' := cur ++ [v] in
       match l with
       | S (S l0) => pgs_loop rest (S l0) cur' ae
       | _ => do r <- pgs_loop rest 0 [] ae;
              OK ((if keep_group ae cur' then [text_of_items cur'] else []) ++ r)
       end) = OK r).
  { intros l. cbv zeta. destruct l as [|[|l0]].
    - destruct (IH 0%nat [] ae) as [r ->]. cbn [bind]. eauto.
    - destruct (IH 0%nat [] ae) as [r ->]. cbn [bind]. eauto.
    - apply IH. }
  cbn [pgs_loop]. destruct cur as [|c0 cur0].
  - destruct (intro_kind (IInt v :: rest)) as [total| |].
    + apply (Hgo total).
    + destruct ae; [apply (Hgo 1%nat) | apply IH].
    + apply (Hgo 1%nat).
  - apply (Hgo left).
Qed.

Lemma pgs_items_ints_ok cur : exists r, pgs_items (map IInt cur) true = OK r.
Proof.
  unfold pgs_items. destruct cur as [|z cur]; [cbn [map]; eauto|].
  rewrite !map_map. cbn [norm_item prep_item norm_item_pgs]. change (fun x : Z => IInt x) with IInt.
  apply pgs_loop_ints_ok. rewrite forallb_forall. intros x Hx. apply in_map_iff in Hx as (y & <- & _). reflexivity.
Qed.

Lemma group_ints_ok items : forall cur, exists r, group_ints items cur = OK r.
Proof.
  induction items as [|it items IH]; intros cur; cbn [group_ints].
  - destruct (is_nil cur); [eauto | apply pgs_items_ints_ok].
  - destruct it as [t|z]; [|apply IH].
    assert (Hf : exists a, (if is_nil cur then OK [] else pgs_items (map IInt cur) true) = OK a)
      by (destruct (is_nil cur); [eauto | apply pgs_items_ints_ok]).
    destruct Hf as [a ->]. destruct (IH []) as [b ->]. cbn [bind]. eauto.
Qed.

(* scrub fails exactly when a leaf fails, with that leaf's exception *)
Theorem scrub_error_iff f e : scrub f = Err e <-> scrub_list (flatten f) = Err e.
Proof.
  rewrite scrub_flatten_any. unfold scrub. rewrite scrub_form_list.
  destruct (scrub_list (flatten f)) as [items|e'] eqn:E; cbn [bind].
  - destruct (group_ints_ok items []) as [r ->]. split; discriminate.
  - split; intros H; injection H as ->; reflexivity.
Qed.

Theorem scrub_first_error f pre x post e :
  flatten f = pre ++ x :: post ->
  Forall (fun y => exists r, scrub_form y = OK r) pre -> scrub_form x = Err e ->
  scrub f = Err e.
Proof. intros Hf Hpre Hx. apply scrub_error_iff. rewrite Hf. now apply scrub_list_first_error. Qed.

(* unsupported type anywhere: TypeError; self-reference anywhere: ValueError - unless an earlier
   leaf already failed *)
Corollary scrub_other f pre b post :
  flatten f = pre ++ FOther b :: post ->
  Forall (fun y => exists r, scrub_form y = OK r) pre -> scrub f = Err TypeError.
Proof. intros Hf Hpre. now apply (scrub_first_error f pre (FOther b) post). Qed.

Corollary scrub_selfref f pre post :
  flatten f = pre ++ FSelfRef :: post ->
  Forall (fun y => exists r, scrub_form y = OK r) pre -> scrub f = Err ValueError.
Proof. intros Hf Hpre. now apply (scrub_first_error f pre FSelfRef post). Qed.

Example scrub_other_ex :
  scrub (FList [FInt 1; FList [FMember (S_ "BOLD"); FOther true]; FSelfRef]) = Err TypeError
  /\ scrub (FList [FInt 1; FList [FSelfRef; FOther true]]) = Err ValueError
  /\ scrub (FList [FInt (-1); FOther true]) = Err ValueError
  /\ scrub (FOther false) = Err TypeError /\ scrub FSelfRef = Err ValueError.
Proof. repeat split; vm_compute; reflexivity. Qed.

(* ====================================================================================== *)
(* Facts about the member table                                                            *)
(* ====================================================================================== *)
Lemma lookup_in_names tbl n e : lookup_format_in tbl n = Some e ->
  In n (map (fun ne => str_of_string (fst ne)) tbl).
Proof.
  induction tbl as [|[k v] tbl IH]; cbn [lookup_format_in map fst]; [discriminate|].
  destruct (str_eqb (str_of_string k) n) eqn:E.
  - intros _. left. now apply str_eqb_eq.
  - intros H. right. now apply IH.
Qed.

Lemma member_in_names n ts : member_texts n = Some ts -> In n names.
Proof.
  unfold member_texts. destruct (lookup_format_in gen_formats n) as [e|] eqn:E; [|discriminate].
  intros _. exact (lookup_in_names _ _ _ E).
Qed.

Lemma not_member (P : str -> bool) n : forallb P names = true -> P n = false -> member_texts n = None.
Proof.
  intros Hall Hn. destruct (member_texts n) as [ts|] eqn:E; [|reflexivity].
  apply member_in_names in E. rewrite (In_names_forallb P n Hall E) in Hn. discriminate.
Qed.

(* all member names are made of A-Z, 0-9 and '_' and start with a letter *)
Definition name_char (c : char) : bool := ((65 <=? c) && (c <=? 90) || is_digit c || (c =? 95))%N.
Definition name_shape (n : str) : bool :=
  match n with c :: _ => ((65 <=? c) && (c <=? 90))%N && forallb name_char n | [] => false end.
Lemma names_shape : forallb name_shape names = true.
Proof. vm_compute. reflexivity. Qed.

Lemma norm_name_cons c s : norm_name (c :: s) = norm_name_char c :: norm_name s.
Proof. reflexivity. Qed.

Lemma not_member_first c s :
  ((65 <=? norm_name_char c) && (norm_name_char c <=? 90))%N = false ->
  member_texts (norm_name (c :: s)) = None.
Proof.
  intros H. apply (not_member name_shape); [exact names_shape|].
  rewrite norm_name_cons. cbn [name_shape]. now rewrite H.
Qed.

Lemma not_member_nil : member_texts (norm_name []) = None.
Proof. apply (not_member name_shape); [exact names_shape | reflexivity]. Qed.

Lemma not_member_char c s :
  In c s -> name_char (norm_name_char c) = false -> member_texts (norm_name s) = None.
Proof.
  intros Hin Hc. apply (not_member name_shape); [exact names_shape|].
  unfold name_shape. destruct (norm_name s) as [|c0 r] eqn:E; [reflexivity|].
  apply andb_false_iff. right. rewrite <- E.
  destruct (forallb name_char (norm_name s)) eqn:F; [|reflexivity].
  rewrite forallb_forall in F. rewrite <- Hc. symmetry. apply F. unfold norm_name. now apply in_map.
Qed.

Lemma norm_digit c : is_digit c = true -> norm_name_char c = c.
Proof.
  intros H. apply is_digit_spec in H. unfold norm_name_char.
  replace ((97 <=? c) && (c <=? 122))%N with false by (symmetry; apply andb_false_iff; left; apply N.leb_gt; lia).
  replace ((c =? 32) || (c =? 45))%N with false; [reflexivity|].
  symmetry. apply orb_false_iff. split; apply N.eqb_neq; lia.
Qed.

(* ====================================================================================== *)
(* parse_rgb_string does not match strings that do not start like one                      *)
(* ====================================================================================== *)
Definition rgb_start (c : char) : bool := existsb (N.eqb c) [102; 98; 117; 100; 114; 99]%N.

Lemma parse_rgb_nomatch_first c r : rgb_start c = false -> parse_rgb_string (c :: r) = RNoMatch.
Proof.
  unfold rgb_start. cbn [existsb]. rewrite !orb_false_iff. intros (H1 & H2 & H3 & H4 & H5 & H6 & _).
  unfold parse_rgb_string, read_component, strip_prefix. cbn [starts_with].
  rewrite H1, H2, H3, H4. cbn [andb starts_with]. rewrite H5, H6. reflexivity.
Qed.
Lemma parse_rgb_nomatch_nil : parse_rgb_string [] = RNoMatch.
Proof. reflexivity. Qed.

Lemma digit_not_rgb_start c : is_digit c = true -> rgb_start c = false.
Proof.
  intros H. apply is_digit_spec in H. unfold rgb_start. cbn [existsb].
  rewrite !orb_false_iff. repeat split; try apply N.eqb_neq; lia.
Qed.

(* ====================================================================================== *)
(* 3. Integer codes                                                                        *)
(* ====================================================================================== *)

Lemma scrub_form_int z : 0 <= z -> scrub_form (FInt z) = OK [SInt z].
Proof. intros H. cbn [scrub_form]. unfold scrub_int. apply Z.ltb_ge in H. now rewrite H. Qed.

Lemma scrub_form_int_neg z : z < 0 -> scrub_form (FInt z) = Err ValueError.
Proof. intros H. cbn [scrub_form]. unfold scrub_int. apply Z.ltb_lt in H. now rewrite H. Qed.

(* a single integer: always its decimal text - also for a lone introducer 38/48/58 and for 0 *)
Lemma pgs_single z : pgs_items [IInt z] true = OK [dec z].
Proof.
  unfold pgs_items. cbn [map norm_item norm_item_pgs prep_item pgs_loop intro_kind].
  destruct (item_is_intro (IInt z)); cbn [andb bind app keep_group orb]; reflexivity.
Qed.

Theorem scrub_int_nonneg z : 0 <= z -> scrub (FInt z) = OK [dec z].
Proof.
  intros H. unfold scrub. rewrite scrub_form_list, scrub_list_one, scrub_form_int by exact H.
  cbn [bind group_ints app is_nil map]. apply pgs_single.
Qed.

Theorem scrub_int_neg z : z < 0 -> scrub (FInt z) = Err ValueError.
Proof.
  intros H. unfold scrub. rewrite scrub_form_list, scrub_list_one, scrub_form_int_neg by exact H. reflexivity.
Qed.

Example scrub_int_ex :
  scrub (FInt 38) = OK [S_ "38"] /\ scrub (FInt 0) = OK [S_ "0"] /\ scrub (FInt 300) = OK [S_ "300"]
  /\ scrub (FInt (-1)) = Err ValueError.
Proof. repeat split; vm_compute; reflexivity. Qed.

(* the decimal string of a non-negative integer is the integer *)
Lemma dec_nonneg_digits z : 0 <= z -> forallb is_digit (dec z) = true.
Proof. intros H. destruct z as [|p|p]; [reflexivity| apply decN_digits | lia]. Qed.

Lemma dec_first_digit z : 0 <= z -> exists c r, dec z = c :: r /\ is_digit c = true.
Proof.
  intros H. pose proof (dec_nonneg_digits z H) as Hd. pose proof (dec_not_nil z) as Hn.
  destruct (dec z) as [|c r]; [congruence|]. cbn [forallb] in Hd. apply andb_true_iff in Hd as [Hc _]. eauto.
Qed.

Lemma digit_not_upper c : is_digit c = true -> ((65 <=? norm_name_char c) && (norm_name_char c <=? 90))%N = false.
Proof.
  intros H. rewrite (norm_digit c H). apply is_digit_spec in H. apply andb_false_iff. left. apply N.leb_gt. lia.
Qed.

(* ---------- which directive of a ';'-separated string is an integer code (as repaired, F37) ----------
   With the surrounding blanks stripped, a NON-EMPTY string of DECIMAL DIGITS - and nothing else: no
   sign, no digit-grouping underscore, no non-ASCII digit (all of which Python's int() would take). *)
Definition decimal_code (f : str) : bool := negb (is_nil (strip_ws f)) && forallb is_digit (strip_ws f).
(* ... and the code it stands for: the digits read in base ten (leading zeros allowed) *)
Definition code_value (f : str) : Z := Z.of_N (dval (strip_ws f) 0).

(* what scrub_names does with ONE directive *)
Definition scrub_name1 (f : str) : res (list sitem) :=
  match member_texts (norm_name f) with
  | Some ts => OK (map SSet ts)
  | None =>
    match parse_rgb_string f with
    | RTexts ts => OK (map SSet ts)
    | RBad => Err ValueError
    | RNoMatch =>
      if is_nil f then OK []
      else if decimal_code f then
             match parse_int (strip_ws f) with
             | Some z => do i <- scrub_int z; OK [i]
             | None => Err ValueError end
           else Err ValueError
    end
  end.

Lemma scrub_names_cons f r :
  scrub_names (f :: r) = do here <- scrub_name1 f; do rest <- scrub_names r; OK (here ++ rest).
Proof. reflexivity. Qed.

Lemma scrub_names_one f : scrub_names [f] = scrub_name1 f.
Proof. rewrite scrub_names_cons. cbn [scrub_names bind]. apply bind_ret. Qed.

Lemma decimal_code_spec f :
  decimal_code f = true <-> strip_ws f <> [] /\ forallb is_digit (strip_ws f) = true.
Proof.
  unfold decimal_code. rewrite andb_true_iff. split; intros [H1 H2]; split; auto.
  - intros E. rewrite E in H1. discriminate.
  - destruct (strip_ws f); [congruence | reflexivity].
Qed.

Lemma decimal_code_nil : decimal_code [] = false.
Proof. reflexivity. Qed.

(* for the text of a code Python's int() - also of the unstripped text - and the digit reading agree *)
Lemma parse_int_all_digits d : forallb is_digit d = true -> d <> [] -> parse_int d = Some (Z.of_N (dval d 0)).
Proof.
  intros Hd Hne. unfold parse_int. rewrite (strip_ws_digits _ Hd).
  destruct d as [|c r] eqn:E; [congruence|].
  assert (Hc : is_digit c = true) by (cbn [forallb] in Hd; now apply andb_true_iff in Hd as [? _]).
  apply is_digit_spec in Hc.
  replace (c =? CH_MINUS)%N with false by (symmetry; apply N.eqb_neq; unfold CH_MINUS; lia).
  replace (c =? CH_PLUS)%N with false by (symmetry; apply N.eqb_neq; unfold CH_PLUS; lia).
  rewrite (digits_val_digits (c :: r) 0%N Hd Hne false). reflexivity.
Qed.

Lemma decimal_code_parse f : decimal_code f = true ->
  parse_int (strip_ws f) = Some (code_value f) /\ parse_int f = Some (code_value f).
Proof.
  intros H. apply decimal_code_spec in H as [Hne Hd].
  assert (E : parse_int (strip_ws f) = Some (code_value f)) by now apply parse_int_all_digits.
  split; [exact E|]. rewrite <- E. unfold parse_int. now rewrite (strip_ws_digits _ Hd).
Qed.

Lemma code_value_nonneg f : 0 <= code_value f.
Proof. unfold code_value. lia. Qed.

(* stripping keeps every character that is not a blank *)
Lemma lstrip_keeps (s : str) x : In x s -> is_ws x = false -> In x (lstrip_ws s).
Proof.
  induction s as [|c s IH]; [intros []|]. intros Hin Hx. cbn [lstrip_ws].
  destruct (is_ws c) eqn:Ec; [|exact Hin].
  destruct Hin as [->|Hin]; [congruence | now apply IH].
Qed.
Lemma strip_keeps (s : str) x : In x s -> is_ws x = false -> In x (strip_ws s).
Proof.
  intros Hin Hx. unfold strip_ws. apply in_rev. rewrite rev_involutive.
  apply lstrip_keeps; [|exact Hx]. apply -> in_rev. now apply lstrip_keeps.
Qed.

(* the characters a code may be written with: decimal digits, and blanks (around them) *)
Definition code_char (x : char) : bool := is_digit x || is_ws x.

Theorem decimal_code_chars s : decimal_code s = true -> forall x, In x s -> code_char x = true.
Proof.
  intros H x Hin. apply decimal_code_spec in H as [_ Hd]. unfold code_char.
  destruct (is_ws x) eqn:Ews; [apply orb_true_r|]. rewrite orb_false_r.
  rewrite forallb_forall in Hd. apply Hd. now apply strip_keeps.
Qed.

Corollary not_decimal_code s x : In x s -> code_char x = false -> decimal_code s = false.
Proof.
  intros Hin Hx. destruct (decimal_code s) eqn:E; [|reflexivity].
  rewrite (decimal_code_chars s E x Hin) in Hx. discriminate.
Qed.

Lemma is_ws_cases c : is_ws c = true -> In c [32; 9; 10; 11; 12; 13; 28; 29; 30; 31; 133; 160]%N.
Proof.
  destruct c as [|p]; [discriminate|].
  do 8 (try (destruct p as [p|p|]; try discriminate)); intros _; cbn [In]; tauto.
Qed.

Lemma code_char_props c : code_char c = true ->
  ((65 <=? norm_name_char c) && (norm_name_char c <=? 90))%N = false /\ rgb_start c = false /\
  (c =? LBR)%N = false /\ (SEMI =? c)%N = false.
Proof.
  unfold code_char. intros H. apply orb_true_iff in H as [H|H].
  - pose proof (proj1 (is_digit_spec c) H) as Hr.
    split; [now apply digit_not_upper|]. split; [now apply digit_not_rgb_start|].
    split; apply N.eqb_neq; [unfold LBR | unfold SEMI]; lia.
  - apply is_ws_cases in H. cbn [In] in H.
    repeat (destruct H as [<-|H]; [repeat split; reflexivity|]). destruct H.
Qed.

(* a code is no member name and no rgb()/color256() string: it is always read as a code *)
Lemma code_not_member f : decimal_code f = true -> member_texts (norm_name f) = None.
Proof.
  intros H. destruct f as [|c r]; [discriminate|]. apply not_member_first.
  apply code_char_props. apply (decimal_code_chars _ H). now left.
Qed.
Lemma code_not_rgb f : decimal_code f = true -> parse_rgb_string f = RNoMatch.
Proof.
  intros H. destruct f as [|c r]; [discriminate|]. apply parse_rgb_nomatch_first.
  apply code_char_props. apply (decimal_code_chars _ H). now left.
Qed.

Theorem scrub_name1_code f : decimal_code f = true -> scrub_name1 f = OK [SInt (code_value f)].
Proof.
  intros H. unfold scrub_name1. rewrite (code_not_member f H), (code_not_rgb f H), H.
  destruct (decimal_code_parse f H) as [-> _].
  destruct f as [|c r]; [discriminate|]. cbn [is_nil]. unfold scrub_int.
  pose proof (code_value_nonneg (c :: r)) as Hz. apply Z.ltb_ge in Hz. rewrite Hz. reflexivity.
Qed.

(* everything else that is no name and no rgb()/color256() string with convertible numbers is refused *)
Theorem scrub_name1_not_code f : f <> [] -> member_texts (norm_name f) = None ->
  (forall ts, parse_rgb_string f <> RTexts ts) -> decimal_code f = false -> scrub_name1 f = Err ValueError.
Proof.
  intros Hne Hm Hr Hc. unfold scrub_name1. rewrite Hm, Hc.
  destruct (parse_rgb_string f) as [| |ts]; [|reflexivity|now destruct (Hr ts)].
  destruct f; [congruence | reflexivity].
Qed.

Lemma decimal_code_dec z : 0 <= z -> decimal_code (dec z) = true /\ code_value (dec z) = z.
Proof.
  intros H. assert (Hc : decimal_code (dec z) = true).
  { apply decimal_code_spec. rewrite strip_ws_dec. split; [apply dec_not_nil | now apply dec_nonneg_digits]. }
  split; [exact Hc|]. destruct (decimal_code_parse _ Hc) as [_ E]. rewrite parse_int_dec in E. congruence.
Qed.

Lemma scrub_names_dec z : 0 <= z -> scrub_names [dec z] = OK [SInt z].
Proof.
  intros H. destruct (decimal_code_dec z H) as [Hc Hv].
  rewrite scrub_names_one, (scrub_name1_code _ Hc), Hv. reflexivity.
Qed.

Lemma scrub_string_nobr (c : char) (r : str) : (c =? LBR)%N = false -> scrub_string (c :: r) = scrub_names (split_char SEMI (c :: r)).
Proof.
  intros Hc. unfold scrub_string. unfold LBR in Hc. apply N.eqb_neq in Hc.
  destruct c as [|p]; [reflexivity|].
  do 7 (destruct p as [p|p|]; try reflexivity). exfalso. apply Hc. reflexivity.
Qed.

Lemma digit_not_lbr c : is_digit c = true -> (c =? LBR)%N = false.
Proof. intros H. apply is_digit_spec in H. apply N.eqb_neq. unfold LBR. lia. Qed.

Lemma scrub_form_str_dec z : 0 <= z -> scrub_form (FStr (dec z)) = scrub_form (FInt z).
Proof.
  intros H. rewrite scrub_form_int by exact H. cbn [scrub_form].
  destruct (dec_first_digit z H) as (c & r & E & Hc). rewrite E.
  rewrite (scrub_string_nobr c r (digit_not_lbr c Hc)). rewrite <- E.
  rewrite split_char_no_sep by apply dec_no_semi. now apply scrub_names_dec.
Qed.

Theorem scrub_str_dec z : 0 <= z -> scrub (FStr (dec z)) = scrub (FInt z).
Proof. intros H. unfold scrub. rewrite !scrub_form_list, !scrub_list_one. now rewrite scrub_form_str_dec. Qed.

Corollary scrub_str_dec_value z : 0 <= z -> scrub (FStr (dec z)) = OK [dec z].
Proof. intros H. rewrite scrub_str_dec by exact H. now apply scrub_int_nonneg. Qed.

Example scrub_str_dec_ex : scrub (FStr (S_ "38")) = OK [S_ "38"] /\ dec 38 = S_ "38".
Proof. split; vm_compute; reflexivity. Qed.

(* verbatim settings text *)
Theorem scrub_verbatim t : t <> [] -> scrub (FStr (LBR :: t)) = OK [t].
Proof. intros H. destruct t as [|c r]; [congruence|]. reflexivity. Qed.
Theorem scrub_verbatim_empty : scrub (FStr [LBR]) = Err ValueError.
Proof. reflexivity. Qed.
Example scrub_verbatim_ex : scrub (FStr (S_ "[38;5;1;zzz")) = OK [S_ "38;5;1;zzz"].
Proof. apply scrub_verbatim. discriminate. Qed.

(* ====================================================================================== *)
(* 2. ';'-separated directives in one string = the list of the directives                  *)
(* ====================================================================================== *)
(* scrub_name1, scrub_names_cons and scrub_names_one: see section 3 *)
Lemma scrub_string_names (s : str) :
  starts_with s [LBR] = false -> scrub_string s = scrub_names (split_char SEMI s).
Proof.
  destruct s as [|c r]; intros H.
  - cbn [split_char scrub_string]. rewrite scrub_names_one. unfold scrub_name1.
    rewrite not_member_nil. reflexivity.
  - apply scrub_string_nobr. cbn [starts_with] in H. destruct r; cbn [starts_with] in H; now rewrite andb_true_r in H.
Qed.

Definition part_ok (p : str) : Prop := mem_char SEMI p = false /\ starts_with p [LBR] = false.

Lemma scrub_form_str_part p : part_ok p -> scrub_form (FStr p) = scrub_name1 p.
Proof.
  intros [Hs Hb]. cbn [scrub_form]. rewrite (scrub_string_names p Hb), split_char_no_sep by exact Hs.
  apply scrub_names_one.
Qed.

Lemma scrub_names_parts parts : Forall part_ok parts -> scrub_names parts = scrub_list (map FStr parts).
Proof.
  induction 1 as [|p ps Hp _ IH]; [reflexivity|].
  rewrite scrub_names_cons. cbn [map scrub_list]. now rewrite (scrub_form_str_part p Hp), IH.
Qed.

Lemma split_join parts : parts <> [] -> Forall (fun p => mem_char SEMI p = false) parts ->
  split_char SEMI (join [SEMI] parts) = parts.
Proof.
  intros Hne Hall. induction Hall as [|p ps Hp Hps IH]; [congruence|].
  destruct ps as [|p' ps'].
  - cbn [join]. now apply split_char_no_sep.
  - change (join [SEMI] (p :: p' :: ps')) with (p ++ SEMI :: join [SEMI] (p' :: ps')).
    rewrite split_char_app by exact Hp. rewrite IH by congruence. reflexivity.
Qed.

Lemma join_first_not_lbr p ps : starts_with p [LBR] = false -> starts_with (join [SEMI] (p :: ps)) [LBR] = false.
Proof.
  intros H. destruct ps as [|p' ps']; [exact H|].
  change (join [SEMI] (p :: p' :: ps')) with (p ++ SEMI :: join [SEMI] (p' :: ps')).
  destruct p as [|c r]; [reflexivity|]. cbn [app starts_with] in *.
  apply andb_false_iff in H as [H|H]; [now rewrite H|]. destruct r; discriminate.
Qed.

Lemma scrub_form_join parts : Forall part_ok parts ->
  scrub_form (FStr (join [SEMI] parts)) = scrub_list (map FStr parts).
Proof.
  intros Hall. destruct parts as [|p ps]; [reflexivity|].
  cbn [scrub_form]. rewrite scrub_string_names.
  - rewrite split_join; [now apply scrub_names_parts | congruence |].
    eapply Forall_impl; [|exact Hall]. now intros a [Ha _].
  - apply join_first_not_lbr. now inversion Hall as [|? ? [_ ?] ?].
Qed.

(* C14-join: "a;b;c" is the list ["a","b","c"].  The parts may even be empty (ignored); they must
   not contain ';' and must not start with '[' *)
Theorem scrub_join parts : Forall part_ok parts ->
  scrub (FStr (join [SEMI] parts)) = scrub (FList (map FStr parts)).
Proof.
  intros Hall. unfold scrub. rewrite !scrub_form_list, scrub_list_one. now rewrite scrub_form_join.
Qed.

Example scrub_join_ex :
  Forall part_ok [S_ "bold"; S_ ""; S_ "bg_rgb(1,2,3)"; S_ "38"; S_ "5"; S_ "7"] /\
  join [SEMI] [S_ "bold"; S_ ""; S_ "bg_rgb(1,2,3)"; S_ "38"; S_ "5"; S_ "7"] = S_ "bold;;bg_rgb(1,2,3);38;5;7" /\
  scrub (FStr (S_ "bold;;bg_rgb(1,2,3);38;5;7")) = OK [S_ "1"; S_ "48;2;1;2;3"; S_ "38;5;7"].
Proof. split; [repeat constructor | split; vm_compute; reflexivity]. Qed.

(* the '[' condition is needed for the parts after the first: inside a ';'-separated string a
   part "[x" is an unknown name (ValueError in Python too), on its own it is the verbatim text x *)
Example scrub_join_bracket_counterexample :
  scrub (FStr (join [SEMI] [S_ "bold"; S_ "[red"])) = Err ValueError /\
  scrub (FList (map FStr [S_ "bold"; S_ "[red"])) = OK [S_ "1"; S_ "red"].
Proof. split; vm_compute; reflexivity. Qed.
(* and for the first part, the whole string becomes verbatim *)
Example scrub_join_bracket_counterexample2 :
  scrub (FStr (join [SEMI] [S_ "[1"; S_ "bold"])) = OK [S_ "1;bold"] /\
  scrub (FList (map FStr [S_ "[1"; S_ "bold"])) = OK [S_ "1"; S_ "1"].
Proof. split; vm_compute; reflexivity. Qed.

(* ====================================================================================== *)
(* 3b. Runs of integers and complete colour groups                                         *)
(* ====================================================================================== *)
Lemma scrub_list_ints g : Forall (fun z => 0 <= z) g -> scrub_list (map FInt g) = OK (map SInt g).
Proof.
  induction 1 as [|z g Hz _ IH]; [reflexivity|].
  cbn [map scrub_list]. rewrite (scrub_form_int z Hz), IH. reflexivity.
Qed.

Definition flush (cur : list Z) : res (list str) :=
  if is_nil cur then OK [] else pgs_items (map IInt cur) true.

Lemma group_ints_ints g : forall cur, group_ints (map SInt g) cur = flush (cur ++ g).
Proof.
  induction g as [|z g IH]; intros cur; cbn [map group_ints].
  - now rewrite app_nil_r.
  - rewrite IH, <- app_assoc. reflexivity.
Qed.

(* a list of non-negative integers is handed to parse_graphic_sequence(..., add_erroneous=True) *)
Theorem scrub_ints g : g <> [] -> Forall (fun z => 0 <= z) g ->
  scrub (FList (map FInt g)) = pgs_items (map IInt g) true.
Proof.
  intros Hne Hall. unfold scrub. rewrite scrub_form_list, (scrub_list_ints g Hall). cbn [bind].
  rewrite group_ints_ints. cbn [app]. unfold flush. destruct g; [congruence | reflexivity].
Qed.

Lemma part_ok_dec z : 0 <= z -> part_ok (dec z).
Proof.
  intros H. split; [apply dec_no_semi|].
  destruct (dec_first_digit z H) as (c & r & -> & Hc). cbn [starts_with].
  now rewrite (digit_not_lbr c Hc).
Qed.

(* ... and so is the string "a;b;c" of their decimal texts *)
Theorem scrub_ints_string g : Forall (fun z => 0 <= z) g ->
  scrub (FStr (text_of_items g)) = scrub (FList (map FInt g)).
Proof.
  intros Hall. unfold text_of_items. rewrite scrub_join.
  - unfold scrub. f_equal. rewrite !scrub_form_list. apply scrub_list_ext.
    induction Hall as [|z g Hz _ IH]; cbn [map]; constructor; auto. now apply scrub_form_str_dec.
  - induction Hall as [|z g Hz _ IH]; cbn [map]; constructor; auto. now apply part_ok_dec.
Qed.

Definition introducer (v : Z) : Prop := v = 38 \/ v = 48 \/ v = 58.

Lemma pgs_group256 v n : introducer v -> pgs_items (map IInt [v; 5; n]) true = OK [text_of_items [v; 5; n]].
Proof. intros [-> | [-> | ->]]; reflexivity. Qed.
Lemma pgs_group_rgb v r g b : introducer v ->
  pgs_items (map IInt [v; 2; r; g; b]) true = OK [text_of_items [v; 2; r; g; b]].
Proof. intros [-> | [-> | ->]]; reflexivity. Qed.

Definition colour_group (g : list Z) : Prop :=
  (exists v n, introducer v /\ 0 <= n /\ g = [v; 5; n]) \/
  (exists v r g' b, introducer v /\ 0 <= r /\ 0 <= g' /\ 0 <= b /\ g = [v; 2; r; g'; b]).

Lemma colour_group_nonneg g : colour_group g -> Forall (fun z => 0 <= z) g.
Proof.
  intros [(v & n & Hv & Hn & ->) | (v & r & g' & b & Hv & Hr & Hg & Hb & ->)];
    repeat constructor; auto; destruct Hv as [-> | [-> | ->]]; lia.
Qed.

(* C14-group: a complete colour group given as ints gives ONE setting with the joined text *)
Theorem scrub_colour_group_ints g : colour_group g -> scrub (FList (map FInt g)) = OK [text_of_items g].
Proof.
  intros Hg. pose proof (colour_group_nonneg g Hg) as Hnn.
  rewrite scrub_ints; [|destruct Hg as [(?&?&?&?&->)|(?&?&?&?&?&?&?&?&->)]; discriminate | exact Hnn].
  destruct Hg as [(v & n & Hv & Hn & ->) | (v & r & g' & b & Hv & Hr & Hg & Hb & ->)].
  - now apply pgs_group256.
  - now apply pgs_group_rgb.
Qed.

(* ... given as one string *)
Theorem scrub_colour_group_string g : colour_group g -> scrub (FStr (text_of_items g)) = OK [text_of_items g].
Proof.
  intros Hg. rewrite scrub_ints_string by now apply colour_group_nonneg. now apply scrub_colour_group_ints.
Qed.

(* ... or spread over nested lists / strings in any way that keeps the order of the leaves *)
Theorem scrub_colour_group_nested g l : colour_group g ->
  flat_map flatten l = map FInt g -> scrub (FList l) = OK [text_of_items g].
Proof. intros Hg Hl. rewrite scrub_flatten, Hl. now apply scrub_colour_group_ints. Qed.

Example colour_group_ex : colour_group [48; 2; 1; 0; 300] /\ colour_group [58; 5; 7].
Proof.
  split; [right; exists 48, 1, 0, 300 | left; exists 58, 7]; unfold introducer; repeat split; auto; lia.
Qed.
Example scrub_colour_group_ex :
  scrub (FList [FInt 48; FList [FInt 2; FList [FInt 1; FInt 0]]; FInt 300]) = OK [S_ "48;2;1;0;300"]
  /\ scrub (FStr (S_ "48;2;1;0;300")) = OK [S_ "48;2;1;0;300"]
  /\ scrub (FList [FInt 48; FStr (S_ "2;1"); FStr (S_ "0"); FInt 300]) = OK [S_ "48;2;1;0;300"].
Proof. repeat split; vm_compute; reflexivity. Qed.

(* an incomplete or unknown group is not rejected: each integer becomes its own setting, the
   known prefix is grouped (add_erroneous=True) *)
Example scrub_incomplete_group_ex :
  scrub (FList [FInt 38; FInt 5]) = OK [S_ "38;5"] /\
  scrub (FList [FInt 38; FInt 7; FInt 1]) = OK [S_ "38"; S_ "7"; S_ "1"] /\
  scrub (FList [FInt 38; FInt 5; FInt 1; FInt 2]) = OK [S_ "38;5;1"; S_ "2"] /\
  (* a setting object between the integers splits the run *)
  scrub (FList [FInt 38; FSetting (S_ "1"); FInt 5]) = OK [S_ "38"; S_ "1"; S_ "5"].
Proof. repeat split; vm_compute; reflexivity. Qed.

(* every integer of a run appears in the output, in order: from C18 (add_erroneous) *)
Theorem scrub_codes_all_kept (cs : list N) : cs <> [] ->
  exists gs, scrub (FList (map (fun c => FInt (Z.of_N c)) cs)) = OK (map textN gs)
             /\ concat gs = cs /\ Forall (fun g => g <> []) gs.
Proof.
  intros Hne. destruct (C18_erroneous_main cs Hne) as (gs & H1 & H2 & H3). exists gs. split; [|auto].
  rewrite <- H1. unfold pgs_codes. rewrite <- (map_map Z.of_N FInt), <- (map_map Z.of_N IInt).
  apply scrub_ints.
  - destruct cs; [congruence | discriminate].
  - clear. induction cs; cbn [map]; constructor; auto. lia.
Qed.

(* ====================================================================================== *)
(* 5. Errors                                                                               *)
(* ====================================================================================== *)
Lemma scrub_single f : is_list f = false -> scrub f = do items <- scrub_form f; group_ints items [].
Proof. intros H. rewrite scrub_unfold. destruct f; try discriminate; cbn [wrap]; now rewrite scrub_list_one. Qed.

Theorem scrub_member_unknown n : member_texts n = None -> scrub (FMember n) = Err ValueError.
Proof. intros H. rewrite scrub_single by reflexivity. cbn [scrub_form]. now rewrite H. Qed.

Theorem scrub_other_alone b : scrub (FOther b) = Err TypeError.
Proof. reflexivity. Qed.
Theorem scrub_selfref_alone : scrub FSelfRef = Err ValueError.
Proof. reflexivity. Qed.

(* one directive (no ';', no leading '['): the complete case table *)
Theorem scrub_directive s : part_ok s ->
  scrub (FStr s) = do items <- scrub_name1 s; group_ints items [].
Proof. intros H. rewrite scrub_single by reflexivity. now rewrite scrub_form_str_part. Qed.

(* unknown name: not a member after normalisation, not an rgb()/color256() string, and not a code, i.e.
   its stripped text is not a non-empty string of decimal digits.  (Before the repair F37 the last
   hypothesis read "parse_int s = None": whatever int() accepted was taken.  That form still holds and
   is the weaker corollary scrub_unknown_name_no_int below.) *)
Theorem scrub_unknown_name s : part_ok s -> s <> [] ->
  member_texts (norm_name s) = None -> parse_rgb_string s = RNoMatch -> decimal_code s = false ->
  scrub (FStr s) = Err ValueError.
Proof.
  intros Hp Hne Hm Hr Hi. rewrite scrub_directive by exact Hp.
  rewrite scrub_name1_not_code; auto. intros ts E. congruence.
Qed.

(* what int() refuses is no code *)
Lemma parse_int_none_not_code s : parse_int s = None -> decimal_code s = false.
Proof.
  intros H. destruct (decimal_code s) eqn:E; [|reflexivity].
  destruct (decimal_code_parse s E) as [_ E2]. congruence.
Qed.
(* nor is a negative number *)
Lemma parse_int_neg_not_code s z : parse_int s = Some z -> z < 0 -> decimal_code s = false.
Proof.
  intros H Hz. destruct (decimal_code s) eqn:E; [|reflexivity].
  destruct (decimal_code_parse s E) as [_ E2]. pose proof (code_value_nonneg s). rewrite E2 in H. injection H as <-. lia.
Qed.

Corollary scrub_unknown_name_no_int s : part_ok s -> s <> [] ->
  member_texts (norm_name s) = None -> parse_rgb_string s = RNoMatch -> parse_int s = None ->
  scrub (FStr s) = Err ValueError.
Proof. intros Hp Hne Hm Hr Hi. apply scrub_unknown_name; auto. now apply parse_int_none_not_code. Qed.

(* malformed rgb()/color256() string: the pattern matches but a number does not convert *)
Theorem scrub_bad_rgb s : part_ok s ->
  member_texts (norm_name s) = None -> parse_rgb_string s = RBad -> scrub (FStr s) = Err ValueError.
Proof.
  intros Hp Hm Hr. rewrite scrub_directive by exact Hp. unfold scrub_name1. now rewrite Hm, Hr.
Qed.

(* negative integer given as text: since the repair F37 refused as an invalid NAME (the '-' is no digit),
   no longer as a negative code; the exception is the same *)
Theorem scrub_negative_text s z : part_ok s -> s <> [] ->
  member_texts (norm_name s) = None -> parse_rgb_string s = RNoMatch -> parse_int s = Some z -> z < 0 ->
  scrub (FStr s) = Err ValueError.
Proof.
  intros Hp Hne Hm Hr Hi Hz. apply scrub_unknown_name; auto. now apply (parse_int_neg_not_code s z).
Qed.

Example scrub_unknown_name_ex :
  let s := S_ "boldd" in
  part_ok s /\ s <> [] /\ member_texts (norm_name s) = None /\ parse_rgb_string s = RNoMatch /\ parse_int s = None
  /\ decimal_code s = false /\ scrub (FStr s) = Err ValueError.
Proof. cbv zeta. repeat split; try discriminate; vm_compute; reflexivity. Qed.
Example scrub_bad_rgb_ex :
  let s := S_ "bg_rgb(ff,2,300)" in
  part_ok s /\ member_texts (norm_name s) = None /\ parse_rgb_string s = RBad /\ scrub (FStr s) = Err ValueError.
Proof. cbv zeta. repeat split; vm_compute; reflexivity. Qed.
Example scrub_negative_text_ex :
  let s := S_ "-1" in
  part_ok s /\ s <> [] /\ member_texts (norm_name s) = None /\ parse_rgb_string s = RNoMatch /\ parse_int s = Some (-1)
  /\ scrub (FStr s) = Err ValueError.
Proof. cbv zeta. repeat split; try discriminate; vm_compute; reflexivity. Qed.
(* what is still NOT rejected: surrounding blanks and leading zeros.  The '+' and the digit-grouping '_'
   that int() takes were accepted before the repair F37 ("+1" was bold, "1_0" code 10) and are refused now *)
Example scrub_lenient_int_ex :
  scrub (FStr (S_ " 1")) = OK [S_ "1"] /\ scrub (FStr (S_ "007")) = OK [S_ "7"] /\
  scrub (FStr (S_ "+1")) = Err ValueError /\ scrub (FStr (S_ "1_0")) = Err ValueError /\
  parse_int (S_ "+1") = Some 1 /\ parse_int (S_ "1_0") = Some 10.
Proof. repeat split; vm_compute; reflexivity. Qed.

(* one bad directive anywhere in a ';'-separated string rejects the whole string *)
Theorem scrub_join_error parts pre p post e : Forall part_ok parts ->
  parts = pre ++ p :: post ->
  Forall (fun q => exists r, scrub_name1 q = OK r) pre -> scrub_name1 p = Err e ->
  scrub (FStr (join [SEMI] parts)) = Err e.
Proof.
  intros Hall -> Hpre Hp. rewrite scrub_join by exact Hall.
  apply Forall_app in Hall as [Hall1 Hall2]. inversion Hall2 as [|? ? Hpp Hpost]; subst.
  apply (scrub_first_error _ (map FStr pre) (FStr p) (map FStr post)).
  - cbn [flatten]. change (FStr p :: map FStr post) with (map FStr (p :: post)). rewrite <- map_app.
    assert (E : forall l, flat_map flatten (map FStr l) = map FStr l)
      by (induction l as [|a l IH]; cbn [map flat_map flatten app]; [reflexivity | now rewrite IH]).
    apply E.
  - clear -Hpre Hall1. induction Hpre as [|q pre' [r Hq] _ IH]; cbn [map]; constructor.
    + exists r. inversion Hall1; subst. now rewrite scrub_form_str_part.
    + apply IH. now inversion Hall1.
  - now rewrite scrub_form_str_part.
Qed.

(* the only source of TypeError is an unsupported leaf *)
Lemma scrub_name1_err f e : scrub_name1 f = Err e -> e = ValueError.
Proof.
  unfold scrub_name1. destruct (member_texts (norm_name f)); [discriminate|].
  destruct (parse_rgb_string f); [|congruence|discriminate].
  destruct (is_nil f); [discriminate|]. destruct (decimal_code f); [|congruence].
  destruct (parse_int (strip_ws f)) as [z|]; [|congruence].
  unfold scrub_int. destruct (z <? 0); cbn [bind]; congruence.
Qed.

Lemma scrub_names_err l e : scrub_names l = Err e -> e = ValueError.
Proof.
  induction l as [|f r IH]; [discriminate|]. rewrite scrub_names_cons.
  destruct (scrub_name1 f) as [a|e'] eqn:E1; cbn [bind].
  - destruct (scrub_names r) as [b|e'']; cbn [bind]; [discriminate|]. intros H. injection H as ->. now apply IH.
  - intros H. injection H as ->. now apply scrub_name1_err in E1.
Qed.

(* C14-decimal (repair F37): inside a ';'-separated string, a part that is neither a member name nor an
   rgb()/color256() string with convertible numbers, and whose stripped text is not a non-empty string of
   decimal digits, makes scrub_names fail with ValueError ("invalid name") - wherever it stands, whatever
   the other parts are.  Before the repair such a part went through Python's int(): "1_0" silently was
   code 10, "+1" bold, "-0" reset, a full-width digit its value; "-3" was refused only as negative. *)
Theorem scrub_names_lenient_int_rejected pre f post : f <> [] -> member_texts (norm_name f) = None ->
  (forall ts, parse_rgb_string f <> RTexts ts) -> decimal_code f = false ->
  scrub_names (pre ++ f :: post) = Err ValueError.
Proof.
  intros Hne Hm Hr Hc. induction pre as [|a pre IH]; cbn [app]; rewrite scrub_names_cons.
  - now rewrite (scrub_name1_not_code f Hne Hm Hr Hc).
  - destruct (scrub_name1 a) as [x|e] eqn:E; cbn [bind]; [now rewrite IH|].
    apply scrub_name1_err in E. now subst.
Qed.

Example scrub_names_lenient_int_rejected_ex :
  Forall (fun s => s <> [] /\ member_texts (norm_name s) = None /\ parse_rgb_string s = RNoMatch /\
                   decimal_code s = false /\ scrub_names [s] = Err ValueError /\
                   scrub_names ([S_ "bold"] ++ s :: [S_ "31"]) = Err ValueError /\
                   scrub (FStr s) = Err ValueError)
         [S_ "1_0"; S_ "+1"; S_ "-3"; S_ "-0"; [65297%N]; S_ "1 0"; S_ " "; S_ "0x1f"; S_ "1e2"] /\
  decimal_code (S_ " 31 ") = true /\ scrub_names [S_ " 31 "] = OK [SInt 31] /\ scrub (FStr (S_ " 31 ")) = OK [S_ "31"] /\
  decimal_code (S_ "007") = true /\ scrub_names [S_ "007"] = OK [SInt 7] /\ scrub (FStr (S_ "007")) = OK [S_ "7"] /\
  scrub_names [S_ "bold"; S_ " 31 "; S_ ""; S_ "007"] = OK [SSet (S_ "1"); SInt 31; SInt 7] /\
  (* what int() makes of the refused ones - and made of them before the repair *)
  parse_int (S_ "1_0") = Some 10 /\ parse_int (S_ "+1") = Some 1 /\ parse_int (S_ "-3") = Some (-3) /\
  parse_int (S_ "-0") = Some 0.
Proof.
  split.
  - repeat (apply Forall_cons; [repeat split; try discriminate; vm_compute; reflexivity|]). apply Forall_nil.
  - repeat split; vm_compute; reflexivity.
Qed.

(* a code - digits, possibly with leading zeros, possibly with blanks around - is the integer *)
Lemma code_part_ok s : decimal_code s = true -> part_ok s.
Proof.
  intros H. split.
  - unfold mem_char. destruct (existsb (N.eqb SEMI) s) eqn:E; [|reflexivity].
    apply existsb_exists in E as (x & Hin & Hx).
    destruct (code_char_props x (decimal_code_chars s H x Hin)) as (_ & _ & _ & Hs). congruence.
  - destruct s as [|c r]; [reflexivity|]. cbn [starts_with].
    destruct (code_char_props c (decimal_code_chars _ H c (or_introl eq_refl))) as (_ & _ & Hl & _).
    now rewrite Hl.
Qed.

Theorem scrub_code_text s : decimal_code s = true ->
  scrub (FStr s) = OK [dec (code_value s)] /\ scrub (FStr s) = scrub (FInt (code_value s)).
Proof.
  intros H. assert (E : scrub (FStr s) = OK [dec (code_value s)]).
  { rewrite scrub_directive by now apply code_part_ok. rewrite (scrub_name1_code s H).
    cbn [bind group_ints app is_nil map]. apply pgs_single. }
  split; [exact E|]. rewrite E. symmetry. apply scrub_int_nonneg, code_value_nonneg.
Qed.

Lemma lstrip_ws_app_blanks w s : forallb is_ws w = true -> lstrip_ws (w ++ s) = lstrip_ws s.
Proof.
  induction w as [|c w IH]; [reflexivity|]. cbn [forallb app lstrip_ws]. intros H.
  apply andb_true_iff in H as [Hc Hw]. rewrite Hc. now apply IH.
Qed.

Lemma strip_ws_padded w1 d w2 : forallb is_ws w1 = true -> forallb is_digit d = true -> d <> [] ->
  forallb is_ws w2 = true -> strip_ws (w1 ++ d ++ w2) = d.
Proof.
  intros H1 Hd Hne H2. unfold strip_ws. rewrite (lstrip_ws_app_blanks w1 _ H1).
  assert (E : lstrip_ws (d ++ w2) = d ++ w2).
  { destruct d as [|c r]; [congruence|]. cbn [forallb] in Hd. apply andb_true_iff in Hd as [Hc _].
    cbn [app lstrip_ws]. now rewrite (digit_not_ws c Hc). }
  rewrite E, rev_app_distr, lstrip_ws_app_blanks by now rewrite forallb_rev.
  rewrite lstrip_ws_digits by now rewrite forallb_rev. apply rev_involutive.
Qed.

Theorem scrub_padded_code w1 d w2 : forallb is_ws w1 = true -> forallb is_digit d = true -> d <> [] ->
  forallb is_ws w2 = true ->
  scrub (FStr (w1 ++ d ++ w2)) = OK [dec (Z.of_N (dval d 0))] /\
  scrub (FStr (w1 ++ d ++ w2)) = scrub (FInt (Z.of_N (dval d 0))).
Proof.
  intros H1 Hd Hne H2. pose proof (strip_ws_padded w1 d w2 H1 Hd Hne H2) as Es.
  assert (Hc : decimal_code (w1 ++ d ++ w2) = true) by (apply decimal_code_spec; rewrite Es; auto).
  replace (Z.of_N (dval d 0)) with (code_value (w1 ++ d ++ w2)) by (unfold code_value; now rewrite Es).
  now apply scrub_code_text.
Qed.

(* CAUTION, a gap between model and Python found while repairing this file: the blanks of the model
   (Base.is_ws) are those str.strip() removes, INCLUDING the separators U+001C..U+001F; Python applies
   str.strip() only for the digit test and then calls int() on the UNSTRIPPED directive, and int() does
   not skip U+001C..U+001F (it skips 9-13, 32 and the non-ASCII blanks).  So for a directive like
   "\x1c7" the model gives code 7 (Example below) while Python raises ValueError ("invalid name").
   For blanks other than 28..31 the theorems above say what Python does. *)
Example code_with_separator_blank_in_model :
  decimal_code [28%N; 55%N] = true /\ scrub_names [[28%N; 55%N]] = OK [SInt 7] /\
  scrub (FStr [28%N; 55%N]) = OK [S_ "7"].
Proof. repeat split; vm_compute; reflexivity. Qed.
Example scrub_padded_code_ex :
  forallb is_ws (S_ "  ") = true /\ forallb is_digit (S_ "0031") = true /\ S_ "0031" <> [] /\
  forallb is_ws [9%N; 10%N] = true /\ Z.of_N (dval (S_ "0031") 0) = 31 /\
  scrub (FStr (S_ "  " ++ S_ "0031" ++ [9%N; 10%N])) = OK [S_ "31"].
Proof. repeat split; try discriminate; vm_compute; reflexivity. Qed.

Lemma leaf_type_error x : is_list x = false -> scrub_form x = Err TypeError -> exists b, x = FOther b.
Proof.
  intros Hl H. destruct x as [n|s|z|t|l| |b]; try discriminate; cbn [scrub_form] in H.
  - destruct (member_texts n); discriminate.
  - unfold scrub_string in H. destruct s as [|c r]; [discriminate|].
    assert (Hn : forall l, scrub_names l <> Err TypeError) by (intros l0 E; apply scrub_names_err in E; discriminate).
    destruct c as [|p]; [now apply Hn in H|].
    do 7 (destruct p as [p|p|]; try (now apply Hn in H)). destruct r; discriminate.
  - unfold scrub_int in H. destruct (z <? 0); discriminate.
  - eauto.
Qed.

Theorem scrub_type_error_iff f :
  scrub f = Err TypeError <->
  exists pre b post, flatten f = pre ++ FOther b :: post /\ Forall (fun y => exists r, scrub_form y = OK r) pre.
Proof.
  split.
  - intros H. apply scrub_error_iff in H. destruct (scrub_list_error_inv _ _ H) as (pre & x & post & E & Hpre & Hx).
    assert (Hleaf : is_list x = false).
    { pose proof (flatten_leaves f) as Hl. rewrite E in Hl. apply Forall_app in Hl as [_ Hl]. now inversion Hl. }
    destruct (leaf_type_error x Hleaf Hx) as [b ->]. eauto.
  - intros (pre & b & post & E & Hpre). now apply (scrub_other f pre b post).
Qed.

(* ====================================================================================== *)
(* 4. The rgb() / color256() builders                                                      *)
(* ====================================================================================== *)
Lemma clamp255_range z : 0 <= clamp255 z <= 255.
Proof. unfold clamp255. lia. Qed.
Lemma clamp255_id z : 0 <= z <= 255 -> clamp255 z = z.
Proof. unfold clamp255. lia. Qed.
Lemma clamp255_low z : z <= 0 -> clamp255 z = 0.
Proof. unfold clamp255. lia. Qed.
Lemma clamp255_high z : 255 <= z -> clamp255 z = 255.
Proof. unfold clamp255. lia. Qed.

(* the introducer and the leading underline code per component *)
Theorem color_texts_spec comp tail :
  color_texts comp tail =
  match comp with
  | FG => [text_of_items (38 :: tail)]
  | BG => [text_of_items (48 :: tail)]
  | UL => [S_ "4"; text_of_items (58 :: tail)]
  | DUL => [S_ "21"; text_of_items (58 :: tail)]
  end.
Proof. destruct comp; reflexivity. Qed.

(* the unclamped text builder *)
Definition rgb3' (r g b : Z) (comp : component) : list str := color_texts comp [2; r; g; b].

Theorem rgb3_clamps r g b comp : rgb3 r g b comp = rgb3' (clamp255 r) (clamp255 g) (clamp255 b) comp.
Proof. reflexivity. Qed.
Theorem rgb3_in_range r g b comp : 0 <= r <= 255 -> 0 <= g <= 255 -> 0 <= b <= 255 ->
  rgb3 r g b comp = rgb3' r g b comp.
Proof. intros Hr Hg Hb. unfold rgb3, rgb3'. now rewrite !clamp255_id. Qed.

Lemma land255 x : Z.land x 255 = x mod 256.
Proof. change 255 with (Z.ones 8). rewrite Z.land_ones by lia. reflexivity. Qed.

(* the single-value form splits a 24-bit value; bits above 23 are dropped (no clamping) *)
Theorem rgb1_split v comp :
  rgb1 v comp = rgb3' ((v / 65536) mod 256) ((v / 256) mod 256) (v mod 256) comp.
Proof.
  unfold rgb1, rgb3'. rewrite !Z.shiftr_land.
  change (Z.shiftr 16711680 16) with 255. change (Z.shiftr 65280 8) with 255.
  rewrite !land255, !Z.shiftr_div_pow2 by lia. reflexivity.
Qed.

Theorem rgb1_24bit v comp : 0 <= v < 16777216 ->
  rgb1 v comp = rgb3 (v / 65536) ((v / 256) mod 256) (v mod 256) comp.
Proof.
  intros Hv. rewrite rgb1_split, rgb3_in_range.
  - f_equal. apply Z.mod_small. split; [apply Z.div_pos; lia | apply Z.div_lt_upper_bound; lia].
  - split; [apply Z.div_pos; lia | ]. assert (v / 65536 < 256) by (apply Z.div_lt_upper_bound; lia). lia.
  - pose proof (Z.mod_pos_bound (v / 256) 256). lia.
  - pose proof (Z.mod_pos_bound v 256). lia.
Qed.

Theorem rgb1_pack r g b comp : 0 <= r <= 255 -> 0 <= g <= 255 -> 0 <= b <= 255 ->
  rgb1 (r * 65536 + g * 256 + b) comp = rgb3 r g b comp.
Proof.
  intros Hr Hg Hb. rewrite rgb1_split, rgb3_in_range by assumption.
  assert (E1 : (r * 65536 + g * 256 + b) mod 256 = b).
  { replace (r * 65536 + g * 256 + b) with (b + (r * 256 + g) * 256) by ring.
    rewrite Z.mod_add by lia. apply Z.mod_small. lia. }
  assert (E2 : (r * 65536 + g * 256 + b) / 256 = r * 256 + g).
  { replace (r * 65536 + g * 256 + b) with (b + (r * 256 + g) * 256) by ring.
    rewrite Z.div_add by lia. rewrite Z.div_small by lia. lia. }
  assert (E3 : (r * 65536 + g * 256 + b) / 65536 = r).
  { replace (r * 65536 + g * 256 + b) with ((g * 256 + b) + r * 65536) by ring.
    rewrite Z.div_add by lia. rewrite Z.div_small by lia. lia. }
  rewrite E1, E2, E3. f_equal.
  - apply Z.mod_small. lia.
  - rewrite Z.add_comm, Z.mod_add by lia. apply Z.mod_small. lia.
Qed.

Example rgb1_ex : rgb1 1056816 UL = [S_ "4"; S_ "58;2;16;32;48"] /\ rgb1 16777216 FG = [S_ "38;2;0;0;0"]
  /\ rgb3 (-5) 128 300 BG = [S_ "48;2;0;128;255"] /\ color256 7 DUL = [S_ "21"; S_ "58;5;7"].
Proof. repeat split; vm_compute; reflexivity. Qed.

(* ====================================================================================== *)
(* 4b. The string forms  rgb(r,g,b) / rgb(v) / colo[u]r256(v)  with component prefixes     *)
(* ====================================================================================== *)
(* --- the lexical pieces --- *)
Definition spaces (s : str) : bool := forallb is_re_space s.
Lemma skip_space_app sp (c : char) (rest : str) :
  spaces sp = true -> is_re_space c = false -> skip_space (sp ++ c :: rest) = c :: rest.
Proof.
  unfold spaces. induction sp as [|x sp IH]; cbn [app skip_space forallb]; intros Hs Hc.
  - now rewrite Hc.
  - apply andb_true_iff in Hs as [Hx Hs]. rewrite Hx. now apply IH.
Qed.

Definition read_plain (s : str) : option (option Z * str) :=
  let '(d, r) := span_hex s in
  if is_nil d then None
  else Some ((if forallb is_digit d then Some (Z.of_N (dval d 0)) else None), r).
Definition hval (d : str) : N := fold_left (fun a c => a * 16 + hex_val c)%N d 0%N.

Lemma read_num_0x (r : str) :
  read_num (48 :: 120 :: r)%N =
  let '(d, r') := span_hex r in
  if is_nil d then read_plain (48 :: 120 :: r)%N else Some (Some (Z.of_N (hval d)), r').
Proof. reflexivity. Qed.

Lemma read_num_plain (s : str) : (forall r, s <> (48 :: 120 :: r)%N) -> read_num s = read_plain s.
Proof.
  intros H. destruct s as [|a [|b r]]; try reflexivity.
  - unfold read_num. destruct a as [|p]; [reflexivity|]. repeat (destruct p as [p|p|]; try reflexivity).
  - destruct (N.eq_dec a 48) as [->|Ha].
    + destruct (N.eq_dec b 120) as [->|Hb]; [exfalso; now apply (H r)|].
      unfold read_num. destruct b as [|p]; [reflexivity|]. repeat (destruct p as [p|p|]; try reflexivity).
      exfalso. now apply Hb.
    + unfold read_num. destruct a as [|p]; [reflexivity|]. repeat (destruct p as [p|p|]; try reflexivity).
      exfalso. now apply Ha.
Qed.

Lemma span_hex_app d (c : char) (rest : str) :
  forallb is_hex d = true -> is_hex c = false -> span_hex (d ++ c :: rest) = (d, c :: rest).
Proof.
  induction d as [|x d IH]; cbn [app span_hex forallb]; intros Hd Hc.
  - now rewrite Hc.
  - apply andb_true_iff in Hd as [Hx Hd]. rewrite Hx, IH by assumption. reflexivity.
Qed.

Lemma digit_is_hex c : is_digit c = true -> is_hex c = true.
Proof. intros H. unfold is_hex. now rewrite H. Qed.
Lemma digits_are_hex d : forallb is_digit d = true -> forallb is_hex d = true.
Proof.
  induction d as [|c d IH]; cbn [forallb]; [reflexivity|]. intros H. apply andb_true_iff in H as [Hc Hd].
  now rewrite (digit_is_hex c Hc), IH.
Qed.

(* number tokens: decimal digits, 0x + hex digits, or (malformed) hex digits without 0x *)
Inductive numtok := NDec (d : str) | NHex (d : str) | NBadHex (d : str).
Definition tok_text (t : numtok) : str :=
  match t with NDec d => d | NHex d => (48 :: 120 :: d)%N | NBadHex d => d end.
Definition tok_val (t : numtok) : option Z :=
  match t with NDec d => Some (Z.of_N (dval d 0)) | NHex d => Some (Z.of_N (hval d)) | NBadHex _ => None end.
Definition tok_wf (t : numtok) : bool :=
  match t with
  | NDec d => negb (is_nil d) && forallb is_digit d
  | NHex d => negb (is_nil d) && forallb is_hex d
  | NBadHex d => negb (is_nil d) && forallb is_hex d && negb (forallb is_digit d)
  end.
(* what may follow a number: not a hex digit and not 'x' *)
Definition delim (c : char) : bool := negb (is_hex c) && negb (c =? 120)%N.

Lemma not_0x_digits d (c : char) (rest : str) : forallb is_hex d = true -> d <> [] -> delim c = true ->
  (forall r, tok_text (NDec d) ++ c :: rest <> (48 :: 120 :: r)%N).
Proof.
  intros Hd Hne Hc r E. cbn [tok_text] in E. destruct d as [|a [|b d']]; [congruence| |].
  - cbn [app] in E. injection E as _ E _. subst c. discriminate.
  - cbn [app] in E. injection E as _ E _. subst b. cbn [forallb] in Hd. rewrite andb_true_iff in Hd.
    destruct Hd as [_ Hd]. discriminate.
Qed.

Lemma read_num_tok t (c : char) (rest : str) : tok_wf t = true -> delim c = true ->
  read_num (tok_text t ++ c :: rest) = Some (tok_val t, c :: rest).
Proof.
  intros Hwf Hc. assert (Hc' : is_hex c = false) by (unfold delim in Hc; apply andb_true_iff in Hc as [A _]; now apply negb_true_iff in A).
  destruct t as [d|d|d]; cbn [tok_wf tok_text tok_val] in *.
  - apply andb_true_iff in Hwf as [Hne Hd]. assert (Hne' : d <> []) by (destruct d; [discriminate | congruence]).
    rewrite read_num_plain by (apply (not_0x_digits d c rest); auto using digits_are_hex).
    unfold read_plain. rewrite span_hex_app by auto using digits_are_hex.
    rewrite Hd. destruct d; [congruence | reflexivity].
  - apply andb_true_iff in Hwf as [Hne Hd]. cbn [app]. rewrite read_num_0x.
    rewrite span_hex_app by assumption. destruct d; [discriminate | reflexivity].
  - apply andb_true_iff in Hwf as [Hwf Hnd]. apply andb_true_iff in Hwf as [Hne Hd].
    assert (Hne' : d <> []) by (destruct d; [discriminate | congruence]).
    rewrite read_num_plain by (apply (not_0x_digits d c rest); auto).
    unfold read_plain. rewrite span_hex_app by assumption. apply negb_true_iff in Hnd. rewrite Hnd.
    destruct d; [congruence | reflexivity].
Qed.

Lemma tok_first t : tok_wf t = true -> exists c r, tok_text t = c :: r /\ is_hex c = true.
Proof.
  destruct t as [d|d|d]; cbn [tok_wf tok_text]; intros H.
  - apply andb_true_iff in H as [Hne Hd]. destruct d as [|c r]; [discriminate|]. exists c, r. split; auto.
    cbn [forallb] in Hd. apply andb_true_iff in Hd as [Hc _]. now apply digit_is_hex.
  - eexists _, _. split; reflexivity.
  - apply andb_true_iff in H as [H _]. apply andb_true_iff in H as [Hne Hd]. destruct d as [|c r]; [discriminate|].
    exists c, r. split; auto. cbn [forallb] in Hd. now apply andb_true_iff in Hd as [Hc _].
Qed.

Lemma hex_not_space c : is_hex c = true -> is_re_space c = false.
Proof.
  unfold is_hex, is_digit. intros H. destruct (is_re_space c) eqn:E; [|reflexivity]. exfalso.
  unfold is_re_space in E.
  assert (Hc : (c < 48)%N).
  { destruct c as [|p]; [lia|]. do 6 (destruct p as [p|p|]; try discriminate; try lia). }
  rewrite !orb_true_iff, !andb_true_iff, !N.leb_le in H. lia.
Qed.
Lemma hex_not_bracket c : is_hex c = true -> ((c =? 91) || (c =? 40) || (c =? 41))%N = false.
Proof.
  unfold is_hex, is_digit. rewrite !orb_true_iff, !andb_true_iff, !N.leb_le. intros H.
  rewrite !orb_false_iff. repeat split; apply N.eqb_neq; lia.
Qed.
Lemma space_not_bracket c : is_re_space c = true -> ((c =? 91) || (c =? 40) || (c =? 41))%N = false.
Proof.
  intros H. rewrite !orb_false_iff. repeat split; apply N.eqb_neq; intros ->; discriminate.
Qed.

(* skip blanks then read a number that is followed by a delimiter *)
Lemma read_tok_after_spaces sp t (c : char) (rest : str) :
  spaces sp = true -> tok_wf t = true -> delim c = true ->
  read_num (skip_space (sp ++ tok_text t ++ c :: rest)) = Some (tok_val t, c :: rest).
Proof.
  intros Hsp Hwf Hc. destruct (tok_first t Hwf) as (c0 & r0 & E & Hc0).
  rewrite E. cbn [app]. rewrite skip_space_app by auto using hex_not_space.
  change (c0 :: r0 ++ c :: rest) with ((c0 :: r0) ++ c :: rest). rewrite <- E. now apply read_num_tok.
Qed.

(* --- the part of parse_rgb_string after the function name --- *)
Definition parse_body (is_rgb : bool) (comp : component) (r1 : str) : rgbres :=
    let '(ob, r1') := open_bracket r1 in
    match read_num (skip_space r1') with
    | None => RNoMatch
    | Some (v1, r2) =>
      let three :=
        if is_rgb then
          match skip_space r2 with
          | 44%N :: r3 =>
            match read_num (skip_space r3) with
            | Some (v2, r4) =>
              match skip_space r4 with
              | 44%N :: r5 =>
                match read_num (skip_space r5) with
                | Some (v3, r6) => if close_ok ob r6 then Some (v1, v2, v3) else None
                | None => None end
              | _ => None end
            | None => None end
          | _ => None end
        else None in
      match three with
      | Some (Some a, Some b, Some c) => RTexts (rgb3 a b c comp)
      | Some _ => RBad
      | None =>
        if close_ok ob r2 then
          match v1 with
          | Some v => RTexts (if is_rgb then rgb1 v comp else color256 v comp)
          | None => RBad end
        else RNoMatch
      end
    end.

Definition comp_prefix (c : component) : str :=
  match c with FG => S_ "fg_" | BG => S_ "bg_" | UL => S_ "ul_" | DUL => S_ "dul_" end.
(* the foreground prefix may be omitted *)
Definition prefix_of (pre : str) (comp : component) : Prop := pre = comp_prefix comp \/ (pre = [] /\ comp = FG).

Lemma parse_rgb_fn_rgb pre comp body : prefix_of pre comp ->
  parse_rgb_string (pre ++ S_ "rgb(" ++ body) = parse_body true comp body.
Proof. intros [-> | [-> ->]]; [destruct comp|]; destruct body; reflexivity. Qed.
Lemma parse_rgb_fn_color pre comp body : prefix_of pre comp ->
  parse_rgb_string (pre ++ S_ "color256(" ++ body) = parse_body false comp body.
Proof. intros [-> | [-> ->]]; [destruct comp|]; destruct body; reflexivity. Qed.
Lemma parse_rgb_fn_colour pre comp body : prefix_of pre comp ->
  parse_rgb_string (pre ++ S_ "colour256(" ++ body) = parse_body false comp body.
Proof. intros [-> | [-> ->]]; [destruct comp|]; destruct body; reflexivity. Qed.

(* --- layouts --- *)
Definition COMMA : char := 44%N.
Definition RPAR : char := 41%N.
Definition NL : char := 10%N.
Definition is_bracket (c : char) : bool := ((c =? 91) || (c =? 40) || (c =? 41))%N.
(* the optional bracket around the value(s) and its counterpart: none/none, '[' ']', '(' ')' *)
Definition bracket_pair (ob cb : str) : bool :=
  match ob, cb with
  | [], [] => true
  | [o], [c] => (((o =? 91) && (c =? 93)) || ((o =? 40) && (c =? 41)))%N
  | _, _ => false
  end.
(* what the pattern admitted before the repair (known_findings F31), each side on its own:
   an optional opening character from [\[\()] - which contains ')' - and an optional closing ')' or ']' *)
Definition old_open (ob : str) : bool := match ob with [] => true | [c] => is_bracket c | _ => false end.
Definition old_close (cb : str) : bool := match cb with [] => true | [c] => ((c =? 41) || (c =? 93))%N | _ => false end.
(* what open_bracket reports for an opening of the layout *)
Definition ob_char (ob : str) : option char := match ob with [c] => Some c | _ => None end.

Lemma bracket_pair_cases ob cb : bracket_pair ob cb = true ->
  (ob = [] /\ cb = []) \/ (ob = [91%N] /\ cb = [93%N]) \/ (ob = [40%N] /\ cb = [41%N]).
Proof.
  destruct ob as [|o [|o' ob']]; destruct cb as [|c [|c' cb']]; cbn [bracket_pair]; try discriminate; auto.
  intros H. apply orb_true_iff in H as [H|H]; apply andb_true_iff in H as [Ho Hc];
    apply N.eqb_eq in Ho; apply N.eqb_eq in Hc; subst; auto.
Qed.
Lemma old_open_cases ob : old_open ob = true -> ob = [] \/ ob = [91%N] \/ ob = [40%N] \/ ob = [41%N].
Proof.
  destruct ob as [|o [|o' ob']]; cbn [old_open]; try discriminate; auto. unfold is_bracket.
  rewrite !orb_true_iff, !N.eqb_eq. intros [[->| ->]| ->]; auto.
Qed.
Lemma old_close_cases cb : old_close cb = true -> cb = [] \/ cb = [41%N] \/ cb = [93%N].
Proof.
  destruct cb as [|c [|c' cb']]; cbn [old_close]; try discriminate; auto.
  rewrite !orb_true_iff, !N.eqb_eq. intros [->| ->]; auto.
Qed.
Lemma bracket_pair_old ob cb : bracket_pair ob cb = true -> old_open ob = true /\ old_close cb = true.
Proof. intros H. destruct (bracket_pair_cases ob cb H) as [[-> ->] | [[-> ->] | [-> ->]]]; split; reflexivity. Qed.

Lemma space_delim c : is_re_space c = true -> delim c = true.
Proof.
  intros H. unfold delim. apply andb_true_iff. split; apply negb_true_iff.
  - destruct (is_hex c) eqn:E; [|reflexivity]. apply hex_not_space in E. congruence.
  - apply N.eqb_neq. intros ->. discriminate.
Qed.

Lemma read_tok_sp sp t sp' (d : char) (Y : str) :
  spaces sp = true -> tok_wf t = true -> spaces sp' = true -> delim d = true ->
  read_num (skip_space (sp ++ tok_text t ++ sp' ++ d :: Y)) = Some (tok_val t, sp' ++ d :: Y).
Proof.
  intros Hsp Hwf Hsp' Hd. destruct sp' as [|c sp'']; cbn [app].
  - now apply read_tok_after_spaces.
  - apply read_tok_after_spaces; auto. apply space_delim. unfold spaces in Hsp'. cbn [forallb] in Hsp'.
    now apply andb_true_iff in Hsp' as [? _].
Qed.

(* an opening '[' or '(' (or none) in front of blanks and a number is taken and reported *)
Lemma open_bracket_app ob sp t (Y : str) : ob = [] \/ ob = [91%N] \/ ob = [40%N] -> spaces sp = true -> tok_wf t = true ->
  open_bracket (ob ++ sp ++ tok_text t ++ Y) = (ob_char ob, sp ++ tok_text t ++ Y).
Proof.
  intros Hob Hsp Hwf.
  assert (Hfirst : exists c r, sp ++ tok_text t ++ Y = c :: r /\ is_bracket c = false).
  { destruct sp as [|c sp'].
    - destruct (tok_first t Hwf) as (c & r & E & Hc). rewrite E. cbn [app]. exists c, (r ++ Y). split; auto.
      now apply hex_not_bracket.
    - cbn [app]. eexists _, _. split; [reflexivity|]. apply space_not_bracket.
      unfold spaces in Hsp. cbn [forallb] in Hsp. now apply andb_true_iff in Hsp as [? _]. }
  destruct Hfirst as (c & r & E & Hc). rewrite E.
  destruct Hob as [-> | [-> | ->]]; cbn [app ob_char]; [|reflexivity..].
  unfold is_bracket in Hc. apply orb_false_iff in Hc as [Hc _]. unfold open_bracket. now rewrite Hc.
Qed.

(* the tail  blanks, closing bracket, ')' :  accepted exactly when the closing bracket is the counterpart *)
Lemma close_ok_layout sp ob cb : spaces sp = true -> ob = [] \/ ob = [91%N] \/ ob = [40%N] -> old_close cb = true ->
  close_ok (ob_char ob) (sp ++ cb ++ [RPAR]) = bracket_pair ob cb.
Proof.
  intros Hsp Hob Hcb. unfold close_ok.
  destruct (old_close_cases cb Hcb) as [-> | [-> | ->]]; cbn [app];
    rewrite skip_space_app by (auto; reflexivity);
    destruct Hob as [-> | [-> | ->]]; reflexivity.
Qed.
(* ... and never when anything - such as a newline - follows the final ')' *)
Lemma close_ok_trailing sp ob cb (x : char) : spaces sp = true -> bracket_pair ob cb = true ->
  close_ok (ob_char ob) (sp ++ cb ++ [RPAR; x]) = false.
Proof.
  intros Hsp Hp. unfold close_ok.
  destruct (bracket_pair_cases ob cb Hp) as [[-> ->] | [[-> ->] | [-> ->]]]; cbn [app];
    rewrite skip_space_app by (auto; reflexivity); cbn [ob_char]; cbn; rewrite ?andb_false_r; reflexivity.
Qed.

Lemma close_first cb (Z : str) : old_close cb = true ->
  exists d Y, cb ++ RPAR :: Z = d :: Y /\ (d = 41%N \/ d = 93%N).
Proof.
  intros Hcb. destruct (old_close_cases cb Hcb) as [-> | [-> | ->]]; cbn [app]; eexists _, _; split; try reflexivity; auto.
Qed.
Lemma close_char_props d : d = 41%N \/ d = 93%N -> delim d = true /\ is_re_space d = false.
Proof. intros [-> | ->]; split; reflexivity. Qed.

(* a tail that begins with a comma is not a closing tail *)
Lemma close_ok_comma ob sp (Y : str) : spaces sp = true -> close_ok ob (sp ++ COMMA :: Y) = false.
Proof.
  intros Hsp. unfold close_ok. rewrite skip_space_app by (auto; reflexivity).
  destruct ob as [c|]; [destruct (c =? 91)%N|]; reflexivity.
Qed.

(* a number cannot begin with ')' *)
Lemma read_num_rpar (Y : str) : read_num (RPAR :: Y) = None.
Proof. reflexivity. Qed.

Section Shape3.
  Variables (ob sp0 sp1 sp2 sp3 sp4 sp5 : str) (t1 t2 t3 : numtok) (comp : component) (d : char) (Y : str).
  Hypothesis (Hob : ob = [] \/ ob = [91%N] \/ ob = [40%N]).
  Hypothesis (H0 : spaces sp0 = true) (H1 : spaces sp1 = true) (H2 : spaces sp2 = true)
             (H3 : spaces sp3 = true) (H4 : spaces sp4 = true) (H5 : spaces sp5 = true).
  Hypothesis (W1 : tok_wf t1 = true) (W2 : tok_wf t2 = true) (W3 : tok_wf t3 = true).
  Hypothesis (Hd : delim d = true).

  (* three numbers with their blanks and commas, then any tail d :: Y: all hinges on close_ok of that tail *)
  Lemma parse_body_shape3 :
    parse_body true comp
      (ob ++ sp0 ++ tok_text t1 ++ sp1 ++ COMMA :: sp2 ++ tok_text t2 ++ sp3 ++ COMMA :: sp4 ++ tok_text t3 ++ sp5 ++ d :: Y) =
    if close_ok (ob_char ob) (sp5 ++ d :: Y) then
      match tok_val t1, tok_val t2, tok_val t3 with
      | Some a, Some b, Some c => RTexts (rgb3 a b c comp)
      | _, _, _ => RBad
      end
    else RNoMatch.
  Proof.
    unfold parse_body.
    rewrite open_bracket_app by assumption.
    rewrite (read_tok_sp sp0 t1 sp1 COMMA) by (auto; reflexivity). cbv beta iota zeta.
    rewrite (skip_space_app sp1 COMMA) by (auto; reflexivity). unfold COMMA at 1. cbv beta iota.
    rewrite (read_tok_sp sp2 t2 sp3 COMMA) by (auto; reflexivity). cbv beta iota.
    rewrite (skip_space_app sp3 COMMA) by (auto; reflexivity). unfold COMMA at 1. cbv beta iota.
    rewrite (read_tok_sp sp4 t3 sp5 d Y) by auto. cbv beta iota.
    destruct (close_ok (ob_char ob) (sp5 ++ d :: Y)).
    - destruct (tok_val t1), (tok_val t2), (tok_val t3); reflexivity.
    - rewrite close_ok_comma by assumption. reflexivity.
  Qed.
End Shape3.

Section Shape1.
  Variables (ob sp0 sp1 : str) (t : numtok) (comp : component) (d : char) (Y : str).
  Hypothesis (Hob : ob = [] \/ ob = [91%N] \/ ob = [40%N]).
  Hypothesis (H0 : spaces sp0 = true) (H1 : spaces sp1 = true) (W : tok_wf t = true).
  Hypothesis (Hd : d = 41%N \/ d = 93%N).

  Lemma parse_body_shape1 is_rgb :
    parse_body is_rgb comp (ob ++ sp0 ++ tok_text t ++ sp1 ++ d :: Y) =
    if close_ok (ob_char ob) (sp1 ++ d :: Y) then
      match tok_val t with
      | Some v => RTexts (if is_rgb then rgb1 v comp else color256 v comp)
      | None => RBad
      end
    else RNoMatch.
  Proof.
    unfold parse_body.
    rewrite open_bracket_app by assumption.
    destruct (close_char_props d Hd) as [Hd1 Hd2].
    rewrite (read_tok_sp sp0 t sp1 d Y) by auto. cbv beta iota zeta.
    rewrite (skip_space_app sp1 d Y) by auto.
    destruct is_rgb; [|reflexivity].
    destruct Hd as [-> | ->]; reflexivity.
  Qed.
End Shape1.

Definition layout3 (ob sp0 sp1 sp2 sp3 sp4 sp5 cb : str) (t1 t2 t3 : numtok) : str :=
  ob ++ sp0 ++ tok_text t1 ++ sp1 ++ COMMA :: sp2 ++ tok_text t2 ++ sp3 ++ COMMA :: sp4 ++ tok_text t3 ++ sp5 ++ cb ++ [RPAR].
Definition layout1 (ob sp0 sp1 cb : str) (t : numtok) : str := ob ++ sp0 ++ tok_text t ++ sp1 ++ cb ++ [RPAR].

(* the layouts followed by one more character *)
Lemma layout3_snoc ob sp0 sp1 sp2 sp3 sp4 sp5 cb t1 t2 t3 (x : char) :
  layout3 ob sp0 sp1 sp2 sp3 sp4 sp5 cb t1 t2 t3 ++ [x] =
  ob ++ sp0 ++ tok_text t1 ++ sp1 ++ COMMA :: sp2 ++ tok_text t2 ++ sp3 ++ COMMA :: sp4 ++ tok_text t3 ++ sp5 ++ cb ++ [RPAR; x].
Proof. unfold layout3. repeat (rewrite <- ?app_assoc, <- ?app_comm_cons). reflexivity. Qed.
Lemma layout1_snoc ob sp0 sp1 cb t (x : char) :
  layout1 ob sp0 sp1 cb t ++ [x] = ob ++ sp0 ++ tok_text t ++ sp1 ++ cb ++ [RPAR; x].
Proof. unfold layout1. repeat (rewrite <- ?app_assoc, <- ?app_comm_cons). reflexivity. Qed.

Section Layout3.
  Variables (ob sp0 sp1 sp2 sp3 sp4 sp5 cb : str) (t1 t2 t3 : numtok) (comp : component).
  Hypothesis (H0 : spaces sp0 = true) (H1 : spaces sp1 = true) (H2 : spaces sp2 = true)
             (H3 : spaces sp3 = true) (H4 : spaces sp4 = true) (H5 : spaces sp5 = true).
  Hypothesis (W1 : tok_wf t1 = true) (W2 : tok_wf t2 = true) (W3 : tok_wf t3 = true).

  (* for every opening / closing the defective pattern admitted: accepted exactly when they pair *)
  Lemma parse_body_layout3_gen : old_open ob = true -> old_close cb = true ->
    parse_body true comp (layout3 ob sp0 sp1 sp2 sp3 sp4 sp5 cb t1 t2 t3) =
    if bracket_pair ob cb then
      match tok_val t1, tok_val t2, tok_val t3 with
      | Some a, Some b, Some c => RTexts (rgb3 a b c comp)
      | _, _, _ => RBad
      end
    else RNoMatch.
  Proof.
    intros Hob Hcb. unfold layout3.
    destruct (old_open_cases ob Hob) as [Hob' | [Hob' | [Hob' | ->]]].
    1-3: destruct (close_first cb [] Hcb) as (d & Y & E & Hd); rewrite E;
         rewrite parse_body_shape3 by (auto; apply (close_char_props d Hd));
         rewrite <- E; rewrite close_ok_layout by auto; reflexivity.
    (* a leading ')' : no number follows "rgb(" *)
    assert (Hp : bracket_pair [41%N] cb = false) by (destruct cb as [|c [|c' cb']]; reflexivity).
    rewrite Hp. unfold parse_body. reflexivity.
  Qed.

  Lemma parse_body_layout3 : bracket_pair ob cb = true ->
    parse_body true comp (layout3 ob sp0 sp1 sp2 sp3 sp4 sp5 cb t1 t2 t3) =
    match tok_val t1, tok_val t2, tok_val t3 with
    | Some a, Some b, Some c => RTexts (rgb3 a b c comp)
    | _, _, _ => RBad
    end.
  Proof.
    intros Hp. destruct (bracket_pair_old ob cb Hp) as [Hob Hcb].
    rewrite parse_body_layout3_gen by assumption. now rewrite Hp.
  Qed.

  Lemma parse_body_layout3_trailing (x : char) : bracket_pair ob cb = true ->
    parse_body true comp (layout3 ob sp0 sp1 sp2 sp3 sp4 sp5 cb t1 t2 t3 ++ [x]) = RNoMatch.
  Proof.
    intros Hp. destruct (bracket_pair_old ob cb Hp) as [_ Hcb].
    assert (Hob : ob = [] \/ ob = [91%N] \/ ob = [40%N])
      by (destruct (bracket_pair_cases ob cb Hp) as [[-> _] | [[-> _] | [-> _]]]; auto).
    rewrite layout3_snoc.
    destruct (close_first cb [x] Hcb) as (d & Y & E & Hd). change [RPAR; x] with (RPAR :: [x]). rewrite E.
    rewrite parse_body_shape3 by (auto; apply (close_char_props d Hd)).
    rewrite <- E. change (RPAR :: [x]) with [RPAR; x]. now rewrite close_ok_trailing by assumption.
  Qed.
End Layout3.

Section Layout1.
  Variables (ob sp0 sp1 cb : str) (t : numtok) (comp : component).
  Hypothesis (H0 : spaces sp0 = true) (H1 : spaces sp1 = true) (W : tok_wf t = true).

  Lemma parse_body_layout1_gen is_rgb : old_open ob = true -> old_close cb = true ->
    parse_body is_rgb comp (layout1 ob sp0 sp1 cb t) =
    if bracket_pair ob cb then
      match tok_val t with
      | Some v => RTexts (if is_rgb then rgb1 v comp else color256 v comp)
      | None => RBad
      end
    else RNoMatch.
  Proof.
    intros Hob Hcb. unfold layout1.
    destruct (old_open_cases ob Hob) as [Hob' | [Hob' | [Hob' | ->]]].
    1-3: destruct (close_first cb [] Hcb) as (d & Y & E & Hd); rewrite E;
         rewrite parse_body_shape1 by auto;
         rewrite <- E; rewrite close_ok_layout by auto; reflexivity.
    assert (Hp : bracket_pair [41%N] cb = false) by (destruct cb as [|c [|c' cb']]; reflexivity).
    rewrite Hp. unfold parse_body. reflexivity.
  Qed.

  Lemma parse_body_layout1 is_rgb : bracket_pair ob cb = true ->
    parse_body is_rgb comp (layout1 ob sp0 sp1 cb t) =
    match tok_val t with
    | Some v => RTexts (if is_rgb then rgb1 v comp else color256 v comp)
    | None => RBad
    end.
  Proof.
    intros Hp. destruct (bracket_pair_old ob cb Hp) as [Hob Hcb].
    rewrite parse_body_layout1_gen by assumption. now rewrite Hp.
  Qed.

  Lemma parse_body_layout1_trailing is_rgb (x : char) : bracket_pair ob cb = true ->
    parse_body is_rgb comp (layout1 ob sp0 sp1 cb t ++ [x]) = RNoMatch.
  Proof.
    intros Hp. destruct (bracket_pair_old ob cb Hp) as [_ Hcb].
    assert (Hob : ob = [] \/ ob = [91%N] \/ ob = [40%N])
      by (destruct (bracket_pair_cases ob cb Hp) as [[-> _] | [[-> _] | [-> _]]]; auto).
    rewrite layout1_snoc.
    destruct (close_first cb [x] Hcb) as (d & Y & E & Hd). change [RPAR; x] with (RPAR :: [x]). rewrite E.
    rewrite parse_body_shape1 by auto.
    rewrite <- E. change (RPAR :: [x]) with [RPAR; x]. now rewrite close_ok_trailing by assumption.
  Qed.
End Layout1.

(* C14-rgb-layout: every layout the pattern admits - an optional opening '[' or '(' closed by its own
   counterpart ']' / ')', blanks around the numbers, decimal or 0x-hex numbers - gives the builder's
   result; hex digits without 0x are rejected (RBad, ValueError in Python) *)
Theorem parse_rgb_layout3 pre comp ob sp0 sp1 sp2 sp3 sp4 sp5 cb t1 t2 t3 :
  prefix_of pre comp -> bracket_pair ob cb = true ->
  spaces sp0 = true -> spaces sp1 = true -> spaces sp2 = true ->
  spaces sp3 = true -> spaces sp4 = true -> spaces sp5 = true ->
  tok_wf t1 = true -> tok_wf t2 = true -> tok_wf t3 = true ->
  parse_rgb_string (pre ++ S_ "rgb(" ++ layout3 ob sp0 sp1 sp2 sp3 sp4 sp5 cb t1 t2 t3) =
  match tok_val t1, tok_val t2, tok_val t3 with
  | Some a, Some b, Some c => RTexts (rgb3 a b c comp)
  | _, _, _ => RBad
  end.
Proof. intros. rewrite (parse_rgb_fn_rgb pre comp) by assumption. now apply parse_body_layout3. Qed.

Theorem parse_rgb_layout1 pre comp ob sp0 sp1 cb t :
  prefix_of pre comp -> bracket_pair ob cb = true ->
  spaces sp0 = true -> spaces sp1 = true -> tok_wf t = true ->
  parse_rgb_string (pre ++ S_ "rgb(" ++ layout1 ob sp0 sp1 cb t) =
  match tok_val t with Some v => RTexts (rgb1 v comp) | None => RBad end.
Proof. intros. rewrite (parse_rgb_fn_rgb pre comp) by assumption. now apply parse_body_layout1. Qed.

Theorem parse_color256_layout pre comp (british : bool) ob sp0 sp1 cb t :
  prefix_of pre comp -> bracket_pair ob cb = true ->
  spaces sp0 = true -> spaces sp1 = true -> tok_wf t = true ->
  parse_rgb_string (pre ++ (if british then S_ "colour256(" else S_ "color256(") ++ layout1 ob sp0 sp1 cb t) =
  match tok_val t with Some v => RTexts (color256 v comp) | None => RBad end.
Proof.
  intros. destruct british; [rewrite (parse_rgb_fn_colour pre comp) | rewrite (parse_rgb_fn_color pre comp)]; try assumption;
    now apply parse_body_layout1.
Qed.

(* C14-rgb-brackets (the repair of F31): the brackets the defective pattern took one by one - an
   opening '[' '(' or ')' and a closing ')' or ']', each optional - are refused unless they form a
   pair; in full generality (blanks anywhere the pattern allows them, any numbers) *)
Theorem parse_rgb_mismatched_brackets pre comp ob cb :
  prefix_of pre comp -> old_open ob = true -> old_close cb = true -> bracket_pair ob cb = false ->
  (forall sp0 sp1 sp2 sp3 sp4 sp5 t1 t2 t3,
     spaces sp0 = true -> spaces sp1 = true -> spaces sp2 = true ->
     spaces sp3 = true -> spaces sp4 = true -> spaces sp5 = true ->
     tok_wf t1 = true -> tok_wf t2 = true -> tok_wf t3 = true ->
     parse_rgb_string (pre ++ S_ "rgb(" ++ layout3 ob sp0 sp1 sp2 sp3 sp4 sp5 cb t1 t2 t3) = RNoMatch) /\
  (forall sp0 sp1 t, spaces sp0 = true -> spaces sp1 = true -> tok_wf t = true ->
     parse_rgb_string (pre ++ S_ "rgb(" ++ layout1 ob sp0 sp1 cb t) = RNoMatch) /\
  (forall (british : bool) sp0 sp1 t, spaces sp0 = true -> spaces sp1 = true -> tok_wf t = true ->
     parse_rgb_string (pre ++ (if british then S_ "colour256(" else S_ "color256(") ++ layout1 ob sp0 sp1 cb t) = RNoMatch).
Proof.
  intros Hpre Hob Hcb Hp. split; [|split].
  - intros. rewrite (parse_rgb_fn_rgb pre comp) by assumption.
    rewrite parse_body_layout3_gen by assumption. now rewrite Hp.
  - intros. rewrite (parse_rgb_fn_rgb pre comp) by assumption.
    rewrite parse_body_layout1_gen by assumption. now rewrite Hp.
  - intros. destruct british; [rewrite (parse_rgb_fn_colour pre comp) | rewrite (parse_rgb_fn_color pre comp)]; try assumption;
      rewrite parse_body_layout1_gen by assumption; now rewrite Hp.
Qed.

(* in particular ')' is no opening bracket, whatever closes *)
Corollary parse_rgb_leading_rparen pre comp cb :
  prefix_of pre comp -> old_close cb = true ->
  (forall sp0 sp1 sp2 sp3 sp4 sp5 t1 t2 t3,
     spaces sp0 = true -> spaces sp1 = true -> spaces sp2 = true ->
     spaces sp3 = true -> spaces sp4 = true -> spaces sp5 = true ->
     tok_wf t1 = true -> tok_wf t2 = true -> tok_wf t3 = true ->
     parse_rgb_string (pre ++ S_ "rgb(" ++ layout3 [RPAR] sp0 sp1 sp2 sp3 sp4 sp5 cb t1 t2 t3) = RNoMatch) /\
  (forall sp0 sp1 t, spaces sp0 = true -> spaces sp1 = true -> tok_wf t = true ->
     parse_rgb_string (pre ++ S_ "rgb(" ++ layout1 [RPAR] sp0 sp1 cb t) = RNoMatch) /\
  (forall (british : bool) sp0 sp1 t, spaces sp0 = true -> spaces sp1 = true -> tok_wf t = true ->
     parse_rgb_string (pre ++ (if british then S_ "colour256(" else S_ "color256(") ++ layout1 [RPAR] sp0 sp1 cb t) = RNoMatch).
Proof.
  intros Hpre Hcb. apply (parse_rgb_mismatched_brackets pre comp [RPAR] cb); auto.
  destruct cb as [|c [|c' cb']]; reflexivity.
Qed.

(* the mismatched combinations: there are exactly nine of them among the twelve the old pattern took *)
Example mismatched_combinations :
  let opens := [[]; S_ "["; S_ "("; S_ ")"] in let closes := [[]; S_ ")"; S_ "]"] in
  forallb old_open opens = true /\ forallb old_close closes = true /\
  length (filter (fun p => negb (bracket_pair (fst p) (snd p))) (list_prod opens closes)) = 9%nat /\
  filter (fun p => bracket_pair (fst p) (snd p)) (list_prod opens closes) = [([], []); (S_ "[", S_ "]"); (S_ "(", S_ ")")].
Proof. cbv zeta. repeat split; vm_compute; reflexivity. Qed.

(* C14-rgb-end (the repair of F32): the string ends right after the final ')'; one more character -
   a newline in particular, which '$' would have let pass - and the string is no rgb()/color256() string *)
Theorem parse_rgb_trailing_char pre comp ob cb (x : char) :
  prefix_of pre comp -> bracket_pair ob cb = true ->
  (forall sp0 sp1 sp2 sp3 sp4 sp5 t1 t2 t3,
     spaces sp0 = true -> spaces sp1 = true -> spaces sp2 = true ->
     spaces sp3 = true -> spaces sp4 = true -> spaces sp5 = true ->
     tok_wf t1 = true -> tok_wf t2 = true -> tok_wf t3 = true ->
     parse_rgb_string ((pre ++ S_ "rgb(" ++ layout3 ob sp0 sp1 sp2 sp3 sp4 sp5 cb t1 t2 t3) ++ [x]) = RNoMatch) /\
  (forall sp0 sp1 t, spaces sp0 = true -> spaces sp1 = true -> tok_wf t = true ->
     parse_rgb_string ((pre ++ S_ "rgb(" ++ layout1 ob sp0 sp1 cb t) ++ [x]) = RNoMatch) /\
  (forall (british : bool) sp0 sp1 t, spaces sp0 = true -> spaces sp1 = true -> tok_wf t = true ->
     parse_rgb_string ((pre ++ (if british then S_ "colour256(" else S_ "color256(") ++ layout1 ob sp0 sp1 cb t) ++ [x]) = RNoMatch).
Proof.
  intros Hpre Hp. split; [|split]; intros.
  - rewrite <- !app_assoc. rewrite (parse_rgb_fn_rgb pre comp) by assumption. now apply parse_body_layout3_trailing.
  - rewrite <- !app_assoc. rewrite (parse_rgb_fn_rgb pre comp) by assumption. now apply parse_body_layout1_trailing.
  - rewrite <- !app_assoc.
    destruct british; [rewrite (parse_rgb_fn_colour pre comp) | rewrite (parse_rgb_fn_color pre comp)]; try assumption;
      now apply parse_body_layout1_trailing.
Qed.

Theorem parse_rgb_trailing_newline pre comp ob cb :
  prefix_of pre comp -> bracket_pair ob cb = true ->
  (forall sp0 sp1 sp2 sp3 sp4 sp5 t1 t2 t3,
     spaces sp0 = true -> spaces sp1 = true -> spaces sp2 = true ->
     spaces sp3 = true -> spaces sp4 = true -> spaces sp5 = true ->
     tok_wf t1 = true -> tok_wf t2 = true -> tok_wf t3 = true ->
     parse_rgb_string ((pre ++ S_ "rgb(" ++ layout3 ob sp0 sp1 sp2 sp3 sp4 sp5 cb t1 t2 t3) ++ [NL]) = RNoMatch) /\
  (forall sp0 sp1 t, spaces sp0 = true -> spaces sp1 = true -> tok_wf t = true ->
     parse_rgb_string ((pre ++ S_ "rgb(" ++ layout1 ob sp0 sp1 cb t) ++ [NL]) = RNoMatch) /\
  (forall (british : bool) sp0 sp1 t, spaces sp0 = true -> spaces sp1 = true -> tok_wf t = true ->
     parse_rgb_string ((pre ++ (if british then S_ "colour256(" else S_ "color256(") ++ layout1 ob sp0 sp1 cb t) ++ [NL]) = RNoMatch).
Proof. intros Hpre Hp. exact (parse_rgb_trailing_char pre comp ob cb NL Hpre Hp). Qed.

(* a newline BEFORE the closing bracket / final ')' is ordinary white space (\s) and stays accepted *)
Example newline_inside_ex :
  spaces [NL] = true /\
  S_ "rgb(" ++ layout3 (S_ "(") [] [] [] [] [] [NL] (S_ ")") (NDec (S_ "1")) (NDec (S_ "2")) (NDec (S_ "3")) = S_ "rgb((1,2,3" ++ NL :: S_ "))" /\
  parse_rgb_string (S_ "rgb((1,2,3" ++ NL :: S_ "))") = RTexts [S_ "38;2;1;2;3"] /\
  parse_rgb_string (S_ "rgb(1,2,3" ++ NL :: S_ ")") = RTexts [S_ "38;2;1;2;3"].
Proof. repeat split; vm_compute; reflexivity. Qed.

Example parse_rgb_layout3_ex :
  let s := S_ "bg_" ++ S_ "rgb(" ++ layout3 (S_ "[") (S_ " ") (S_ "") (S_ "  ") (S_ " ") (S_ "") (S_ " ") (S_ "]")
                                         (NHex (S_ "1f")) (NDec (S_ "007")) (NDec (S_ "300")) in
  bracket_pair (S_ "[") (S_ "]") = true /\
  s = S_ "bg_rgb([ 0x1f,  007 ,300 ])" /\ parse_rgb_string s = RTexts [S_ "48;2;31;7;255"].
Proof. cbv zeta. repeat split; vm_compute; reflexivity. Qed.
Example parse_rgb_badhex_ex :
  tok_wf (NBadHex (S_ "ff")) = true /\
  parse_rgb_string (S_ "rgb(" ++ layout1 [] [] [] [] (NBadHex (S_ "ff"))) = RBad /\
  S_ "rgb(" ++ layout1 [] [] [] [] (NBadHex (S_ "ff")) = S_ "rgb(ff)".
Proof. repeat split; vm_compute; reflexivity. Qed.
(* accepted, as before the repair *)
Example parse_rgb_paired_ex :
  parse_rgb_string (S_ "rgb([1,2,3])") = RTexts [S_ "38;2;1;2;3"] /\
  parse_rgb_string (S_ "rgb((1,2,3))") = RTexts [S_ "38;2;1;2;3"] /\
  parse_rgb_string (S_ "rgb(1,2,3)") = RTexts [S_ "38;2;1;2;3"] /\
  parse_rgb_string (S_ "bg_rgb([ 0x1f,  007 ,300 ])") = RTexts [S_ "48;2;31;7;255"] /\
  parse_rgb_string (S_ "color256([7])") = RTexts [S_ "38;5;7"] /\
  S_ "rgb(" ++ layout3 (S_ "(") [] [] [] [] [] [] (S_ ")") (NDec (S_ "1")) (NDec (S_ "2")) (NDec (S_ "3")) = S_ "rgb((1,2,3))".
Proof. repeat split; vm_compute; reflexivity. Qed.
(* refused since the repair (each of these was accepted by the defective pattern) *)
Example parse_rgb_mismatched_ex :
  parse_rgb_string (S_ "rgb()1,2,3)") = RNoMatch /\
  parse_rgb_string (S_ "rgb(1,2,3))") = RNoMatch /\
  parse_rgb_string (S_ "rgb([1,2,3)") = RNoMatch /\
  parse_rgb_string (S_ "rgb((1,2,3])") = RNoMatch /\
  parse_rgb_string (S_ "rgb(1,2,3])") = RNoMatch /\
  parse_rgb_string (S_ "rgb((1,2,3)") = RNoMatch /\
  parse_rgb_string (S_ "color256(7])") = RNoMatch /\
  parse_rgb_string (S_ "rgb(1,2,3)" ++ [NL]) = RNoMatch /\
  parse_rgb_string (S_ "color256(7)" ++ [NL]) = RNoMatch /\
  (* the layouts behind three of them, and the hypotheses of the rejection theorem *)
  S_ "rgb(" ++ layout3 (S_ ")") [] [] [] [] [] [] [] (NDec (S_ "1")) (NDec (S_ "2")) (NDec (S_ "3")) = S_ "rgb()1,2,3)" /\
  S_ "rgb(" ++ layout3 (S_ "(") [] [] [] [] [] [] (S_ "]") (NDec (S_ "1")) (NDec (S_ "2")) (NDec (S_ "3")) = S_ "rgb((1,2,3])" /\
  S_ "color256(" ++ layout1 [] [] [] (S_ "]") (NDec (S_ "7")) = S_ "color256(7])" /\
  old_open (S_ ")") = true /\ old_open (S_ "(") = true /\ old_close (S_ "]") = true /\ old_close [] = true /\
  bracket_pair (S_ ")") [] = false /\ bracket_pair (S_ "(") (S_ "]") = false /\ bracket_pair [] (S_ "]") = false.
Proof. repeat split; vm_compute; reflexivity. Qed.
(* so the scrubber now reports them as invalid names *)
Example scrub_mismatched_ex :
  scrub (FStr (S_ "rgb([1,2,3)")) = Err ValueError /\ scrub (FStr (S_ "rgb()1,2,3)")) = Err ValueError /\
  scrub (FStr (S_ "color256(7])")) = Err ValueError /\ scrub (FStr (S_ "rgb(1,2,3)" ++ [NL])) = Err ValueError /\
  scrub (FStr (S_ "rgb([1,2,3])")) = OK [S_ "38;2;1;2;3"].
Proof. repeat split; vm_compute; reflexivity. Qed.

(* --- canonical printers --- *)
Definition print_rgb (pre : str) (r g b : Z) : str :=
  pre ++ S_ "rgb(" ++ dec r ++ COMMA :: dec g ++ COMMA :: dec b ++ [RPAR].
Definition print_rgb24 (pre : str) (v : Z) : str := pre ++ S_ "rgb(" ++ dec v ++ [RPAR].
Definition print_color256 (pre : str) (british : bool) (v : Z) : str :=
  pre ++ (if british then S_ "colour256(" else S_ "color256(") ++ dec v ++ [RPAR].

Example print_ex : print_rgb (comp_prefix BG) 1 2 3 = S_ "bg_rgb(1,2,3)" /\ print_rgb24 [] 1056816 = S_ "rgb(1056816)"
  /\ print_color256 (comp_prefix DUL) true 7 = S_ "dul_colour256(7)".
Proof. repeat split; vm_compute; reflexivity. Qed.

Lemma dval_dec z : 0 <= z -> Z.of_N (dval (dec z) 0) = z.
Proof. intros H. destruct z as [|p|p]; [reflexivity| |lia]. cbn [dec]. now rewrite decN_val. Qed.
Lemma tok_wf_dec z : 0 <= z -> tok_wf (NDec (dec z)) = true.
Proof.
  intros H. cbn [tok_wf]. rewrite (dec_nonneg_digits z H), andb_true_r.
  pose proof (dec_not_nil z). destruct (dec z); [congruence | reflexivity].
Qed.
Lemma tok_val_dec z : 0 <= z -> tok_val (NDec (dec z)) = Some z.
Proof. intros H. cbn [tok_val]. now rewrite dval_dec. Qed.

Theorem parse_print_rgb pre comp r g b : prefix_of pre comp -> 0 <= r -> 0 <= g -> 0 <= b ->
  parse_rgb_string (print_rgb pre r g b) = RTexts (rgb3 r g b comp).
Proof.
  intros Hp Hr Hg Hb.
  change (print_rgb pre r g b) with
    (pre ++ S_ "rgb(" ++ layout3 [] [] [] [] [] [] [] [] (NDec (dec r)) (NDec (dec g)) (NDec (dec b))).
  rewrite (parse_rgb_layout3 pre comp) by (auto using tok_wf_dec).
  now rewrite !tok_val_dec.
Qed.

Theorem parse_print_rgb24 pre comp v : prefix_of pre comp -> 0 <= v ->
  parse_rgb_string (print_rgb24 pre v) = RTexts (rgb1 v comp).
Proof.
  intros Hp Hv.
  change (print_rgb24 pre v) with (pre ++ S_ "rgb(" ++ layout1 [] [] [] [] (NDec (dec v))).
  rewrite (parse_rgb_layout1 pre comp) by (auto using tok_wf_dec). now rewrite tok_val_dec.
Qed.

Theorem parse_print_color256 pre comp british v : prefix_of pre comp -> 0 <= v ->
  parse_rgb_string (print_color256 pre british v) = RTexts (color256 v comp).
Proof.
  intros Hp Hv.
  change (print_color256 pre british v) with
    (pre ++ (if british then S_ "colour256(" else S_ "color256(") ++ layout1 [] [] [] [] (NDec (dec v))).
  rewrite (parse_color256_layout pre comp) by (auto using tok_wf_dec). now rewrite tok_val_dec.
Qed.

(* --- from parse_rgb_string to scrub --- *)
Lemma group_ints_sets ts : group_ints (map SSet ts) [] = OK ts.
Proof.
  induction ts as [|t ts IH]; [reflexivity|]. cbn [map group_ints is_nil bind]. rewrite IH. reflexivity.
Qed.

Lemma starts_with_in (p s : str) c : starts_with s p = true -> In c p -> In c s.
Proof.
  revert s. induction p as [|y p IH]; intros s H Hin; [destruct Hin|].
  destruct s as [|x s]; [discriminate|]. cbn [starts_with] in H. apply andb_true_iff in H as [Hx Hs].
  apply N.eqb_eq in Hx. subst y. destruct Hin as [->|Hin]; [now left | right; now apply IH].
Qed.

Lemma in_skipn {A} n (l : list A) x : In x (skipn n l) -> In x l.
Proof. intros H. rewrite <- (firstn_skipn n l). apply in_or_app. now right. Qed.

Lemma strip_prefix_in p s r c : strip_prefix p s = Some r -> In c r -> In c s.
Proof. unfold strip_prefix. destruct (starts_with s p); [|discriminate]. intros [= <-]. apply in_skipn. Qed.
Lemma strip_prefix_in_p p s r c : strip_prefix p s = Some r -> In c p -> In c s.
Proof. unfold strip_prefix. destruct (starts_with s p) eqn:E; [|discriminate]. intros _. now apply starts_with_in. Qed.

Lemma read_component_in s comp r0 c : read_component s = (comp, r0) -> In c r0 -> In c s.
Proof.
  unfold read_component.
  destruct (strip_prefix [102; 103; 95]%N s) eqn:E1; [intros [= _ <-]; now apply (strip_prefix_in _ _ _ _ E1)|].
  destruct (strip_prefix [98; 103; 95]%N s) eqn:E2; [intros [= _ <-]; now apply (strip_prefix_in _ _ _ _ E2)|].
  destruct (strip_prefix [117; 108; 95]%N s) eqn:E3; [intros [= _ <-]; now apply (strip_prefix_in _ _ _ _ E3)|].
  destruct (strip_prefix [100; 117; 108; 95]%N s) eqn:E4; [intros [= _ <-]; now apply (strip_prefix_in _ _ _ _ E4)|].
  now intros [= _ <-].
Qed.

(* a string without '(' is never an rgb()/color256() string *)
Theorem parse_rgb_needs_paren s : ~ In 40%N s -> parse_rgb_string s = RNoMatch.
Proof.
  intros Hn. unfold parse_rgb_string. destruct (read_component s) as [comp r0] eqn:Ec.
  assert (Hr0 : ~ In 40%N r0) by (intros H; apply Hn; now apply (read_component_in s comp r0)).
  assert (Hsp : forall p, In 40%N p -> strip_prefix p r0 = None).
  { intros p Hp. destruct (strip_prefix p r0) eqn:E; [|reflexivity]. exfalso. apply Hr0.
    now apply (strip_prefix_in_p p r0 s0). }
  rewrite !Hsp; [reflexivity| | |]; cbn; tauto.
Qed.

Lemma paren_not_member s : In 40%N s -> member_texts (norm_name s) = None.
Proof. intros H. now apply (not_member_char 40%N s H). Qed.

(* C14-rgb-string: whatever parse_rgb_string builds is what the scrubber returns *)
Theorem scrub_rgb_string s ts : part_ok s -> parse_rgb_string s = RTexts ts -> scrub (FStr s) = OK ts.
Proof.
  intros Hp Hr. rewrite scrub_directive by exact Hp. unfold scrub_name1.
  assert (Hin : In 40%N s).
  { destruct (in_dec N.eq_dec 40%N s) as [H|H]; [exact H|]. rewrite (parse_rgb_needs_paren s H) in Hr. discriminate. }
  rewrite (paren_not_member s Hin), Hr. cbn [bind]. apply group_ints_sets.
Qed.

Theorem scrub_rgb_string_bad s : part_ok s -> parse_rgb_string s = RBad -> scrub (FStr s) = Err ValueError.
Proof.
  intros Hp Hr. apply scrub_bad_rgb; auto.
  destruct (in_dec N.eq_dec 40%N s) as [H|H]; [now apply paren_not_member|].
  rewrite (parse_rgb_needs_paren s H) in Hr. discriminate.
Qed.

(* part_ok of the canonical printers *)
Definition no_semi (s : str) : bool := forallb (fun c => negb (c =? SEMI)%N) s.
Lemma no_semi_mem s : no_semi s = true -> mem_char SEMI s = false.
Proof.
  unfold no_semi, mem_char. induction s as [|c s IH]; cbn [forallb existsb]; [reflexivity|].
  intros H. apply andb_true_iff in H as [Hc Hs]. rewrite (IH Hs), orb_false_r. apply negb_true_iff in Hc.
  now rewrite N.eqb_sym.
Qed.
Lemma no_semi_app a b : no_semi (a ++ b) = no_semi a && no_semi b.
Proof. apply forallb_app. Qed.
Lemma no_semi_dec z : no_semi (dec z) = true.
Proof.
  pose proof (dec_no_semi z) as H. unfold no_semi, mem_char in *. induction (dec z) as [|c s IH]; [reflexivity|].
  cbn [forallb existsb] in *. apply orb_false_iff in H as [Hc Hs]. rewrite (IH Hs), andb_true_r.
  apply negb_true_iff. now rewrite N.eqb_sym.
Qed.
Lemma prefix_no_semi pre comp : prefix_of pre comp -> no_semi pre = true.
Proof. intros [-> | [-> _]]; [destruct comp|]; reflexivity. Qed.
Lemma prefix_first pre comp (c : char) (Y : str) : prefix_of pre comp -> (c =? LBR)%N = false ->
  starts_with (pre ++ c :: Y) [LBR] = false.
Proof.
  intros [-> | [-> _]] Hc; [destruct comp; reflexivity|]. cbn [app starts_with]. now rewrite Hc.
Qed.

Lemma part_ok_print_rgb pre comp r g b : prefix_of pre comp -> part_ok (print_rgb pre r g b).
Proof.
  intros Hp. split.
  - apply no_semi_mem. unfold print_rgb. rewrite !no_semi_app, (prefix_no_semi pre comp Hp).
    change (COMMA :: dec g ++ COMMA :: dec b ++ [RPAR]) with ([COMMA] ++ dec g ++ [COMMA] ++ dec b ++ [RPAR]).
    rewrite !no_semi_app, !no_semi_dec. reflexivity.
  - unfold print_rgb. now apply (prefix_first pre comp).
Qed.
Lemma part_ok_print_rgb24 pre comp v : prefix_of pre comp -> part_ok (print_rgb24 pre v).
Proof.
  intros Hp. split.
  - apply no_semi_mem. unfold print_rgb24. rewrite !no_semi_app, (prefix_no_semi pre comp Hp), no_semi_dec. reflexivity.
  - unfold print_rgb24. now apply (prefix_first pre comp).
Qed.
Lemma part_ok_print_color256 pre comp british v : prefix_of pre comp -> part_ok (print_color256 pre british v).
Proof.
  intros Hp. split.
  - apply no_semi_mem. unfold print_color256. rewrite !no_semi_app, (prefix_no_semi pre comp Hp), no_semi_dec.
    destruct british; reflexivity.
  - unfold print_color256. destruct british; now apply (prefix_first pre comp).
Qed.

(* C14-rgb: the string spelling of rgb()/color256() scrubs to what the builder returns *)
Theorem scrub_print_rgb pre comp r g b : prefix_of pre comp -> 0 <= r -> 0 <= g -> 0 <= b ->
  scrub (FStr (print_rgb pre r g b)) = OK (rgb3 r g b comp).
Proof.
  intros Hp Hr Hg Hb. apply scrub_rgb_string; [now apply (part_ok_print_rgb pre comp) | now apply parse_print_rgb].
Qed.
Theorem scrub_print_rgb24 pre comp v : prefix_of pre comp -> 0 <= v ->
  scrub (FStr (print_rgb24 pre v)) = OK (rgb1 v comp).
Proof.
  intros Hp Hv. apply scrub_rgb_string; [now apply (part_ok_print_rgb24 pre comp) | now apply parse_print_rgb24].
Qed.
Theorem scrub_print_color256 pre comp british v : prefix_of pre comp -> 0 <= v ->
  scrub (FStr (print_color256 pre british v)) = OK (color256 v comp).
Proof.
  intros Hp Hv. apply scrub_rgb_string; [now apply (part_ok_print_color256 pre comp) | now apply parse_print_color256].
Qed.

Example scrub_print_ex :
  prefix_of (S_ "ul_") UL /\ prefix_of [] FG /\
  scrub (FStr (S_ "ul_rgb(1,2,300)")) = OK (rgb3 1 2 300 UL) /\ print_rgb (S_ "ul_") 1 2 300 = S_ "ul_rgb(1,2,300)"
  /\ scrub (FStr (S_ "rgb(1056816)")) = OK [S_ "38;2;16;32;48"]
  /\ scrub (FStr (S_ "colour256(700)")) = OK [S_ "38;5;700"].
Proof. split; [now left|]. split; [now right|]. repeat split; vm_compute; reflexivity. Qed.

(* the same setting, three spellings: builder call, string, integers *)
Corollary rgb_three_spellings r g b : 0 <= r <= 255 -> 0 <= g <= 255 -> 0 <= b <= 255 ->
  scrub (FStr (print_rgb (S_ "bg_") r g b)) = OK (rgb3 r g b BG) /\
  scrub (FList (map FInt [48; 2; r; g; b])) = OK (rgb3 r g b BG) /\
  scrub (FStr (text_of_items [48; 2; r; g; b])) = OK (rgb3 r g b BG).
Proof.
  intros Hr Hg Hb.
  assert (Hcg : colour_group [48; 2; r; g; b]).
  { right. exists 48, r, g, b. unfold introducer. repeat split; auto; lia. }
  assert (E : rgb3 r g b BG = [text_of_items [48; 2; r; g; b]]).
  { rewrite rgb3_in_range by assumption. reflexivity. }
  split; [apply scrub_print_rgb; [now left| lia..] |]. rewrite E. split.
  - now apply scrub_colour_group_ints.
  - now apply scrub_colour_group_string.
Qed.

(* ====================================================================================== *)
(* 6. Validity of what the scrubber returns                                                *)
(* ====================================================================================== *)
Definition clean (it : sitem) : Prop := match it with SSet t => valid t = true | SInt z => 0 <= z end.

Lemma nonneg_as_N l : Forall (fun z => 0 <= z) l -> l = map Z.of_N (map Z.to_N l).
Proof. induction 1 as [|z l Hz _ IH]; [reflexivity|]. cbn [map]. rewrite Z2N.id by exact Hz. now f_equal. Qed.

Lemma forallb_valid_textN gs : forallb valid (map textN gs) = true.
Proof. induction gs as [|g gs IH]; [reflexivity|]. cbn [map forallb]. now rewrite valid_textN, IH. Qed.

Lemma flush_valid cur r : Forall (fun z => 0 <= z) cur -> flush cur = OK r -> forallb valid r = true.
Proof.
  intros Hc. unfold flush. destruct cur as [|z cur']; cbn [is_nil]; [intros [= <-]; reflexivity|].
  rewrite (nonneg_as_N _ Hc). set (cs := map Z.to_N (z :: cur')).
  assert (Hne : cs <> []) by (unfold cs; discriminate).
  destruct (C18_erroneous_main cs Hne) as (gs & H1 & _ & _).
  unfold pgs_codes in H1. rewrite <- (map_map Z.of_N IInt) in H1. rewrite H1. intros [= <-].
  apply forallb_valid_textN.
Qed.

Lemma group_ints_valid items : Forall clean items -> forall cur r,
  Forall (fun z => 0 <= z) cur -> group_ints items cur = OK r -> forallb valid r = true.
Proof.
  induction 1 as [|it items Hit _ IH]; intros cur r Hc; cbn [group_ints].
  - apply flush_valid. exact Hc.
  - destruct it as [t|z]; cbn [clean] in Hit.
    + fold (flush cur). destruct (flush cur) as [a|e] eqn:Ef; cbn [bind]; [|discriminate].
      destruct (group_ints items []) as [b|e] eqn:Eg; cbn [bind]; [|discriminate].
      intros [= <-]. rewrite forallb_app. cbn [forallb].
      rewrite (flush_valid cur a Hc Ef), Hit, (IH [] b (Forall_nil _) Eg). reflexivity.
    + apply IH. apply Forall_app. split; [exact Hc | repeat constructor; exact Hit].
Qed.

(* sources of settings: members, builders, rgb strings *)
Lemma member_texts_valid n ts : member_texts n = Some ts -> forallb valid ts = true.
Proof.
  intros H. pose proof (member_in_names n ts H) as Hin.
  pose proof (In_names_forallb _ n members_valid_parsable Hin) as Hv. cbv beta in Hv. rewrite H in Hv.
  clear -Hv. induction ts as [|t ts IH]; [reflexivity|]. cbn [forallb] in *.
  apply andb_true_iff in Hv as [Ht Hts]. apply andb_true_iff in Ht as [Ht _]. now rewrite Ht, IH.
Qed.

Lemma valid_text_nonneg l : Forall (fun z => 0 <= z) l -> valid (text_of_items l) = true.
Proof. intros H. rewrite (nonneg_as_N l H). apply valid_textN. Qed.

Lemma color_texts_valid comp tail : Forall (fun z => 0 <= z) tail -> forallb valid (color_texts comp tail) = true.
Proof.
  intros H. assert (Hv : forall v, 0 <= v -> valid (text_of_items (v :: tail)) = true)
    by (intros v Hv; apply valid_text_nonneg; now constructor).
  destruct comp; cbn [color_texts forallb]; rewrite Hv by lia; reflexivity.
Qed.

Theorem rgb3_valid r g b comp : forallb valid (rgb3 r g b comp) = true.
Proof.
  apply color_texts_valid. pose proof (clamp255_range r). pose proof (clamp255_range g). pose proof (clamp255_range b).
  repeat constructor; lia.
Qed.
Theorem rgb1_valid v comp : forallb valid (rgb1 v comp) = true.
Proof.
  rewrite rgb1_split. apply color_texts_valid.
  pose proof (Z.mod_pos_bound (v / 65536) 256). pose proof (Z.mod_pos_bound (v / 256) 256).
  pose proof (Z.mod_pos_bound v 256). repeat constructor; lia.
Qed.
Theorem color256_valid v comp : 0 <= v -> forallb valid (color256 v comp) = true.
Proof. intros H. apply color_texts_valid. repeat constructor; lia. Qed.
(* rgb() results are moreover parsable (FlagsProofs.rgb3_valid_parsable); color256(v) is for v <= 255 *)
Example color256_not_parsable : forallb parsable (color256 700 FG) = false /\ forallb valid (color256 700 FG) = true.
Proof. split; vm_compute; reflexivity. Qed.
(* a negative argument of the color256() BUILDER gives an invalid-looking but "valid" text; the
   string form cannot express it *)
Example color256_negative : color256 (-1) FG = [S_ "38;5;-1"] /\ forallb valid (color256 (-1) FG) = true.
Proof. split; vm_compute; reflexivity. Qed.

Lemma read_plain_nonneg s v r : read_plain s = Some (Some v, r) -> 0 <= v.
Proof.
  unfold read_plain. destruct (span_hex s) as [d r']. destruct (is_nil d); [discriminate|].
  destruct (forallb is_digit d); [|discriminate]. intros [= <- _]. lia.
Qed.

Lemma read_num_nonneg s v r : read_num s = Some (Some v, r) -> 0 <= v.
Proof.
  assert (Hdec : {r' | s = (48 :: 120 :: r')%N} + {forall r', s <> (48 :: 120 :: r')%N}).
  { destruct s as [|a [|b r']]; [right; discriminate | right; discriminate |].
    destruct (N.eq_dec a 48) as [->|Ha]; [|right; intros r'' [= ? ? ?]; congruence].
    destruct (N.eq_dec b 120) as [->|Hb]; [left; now exists r' | right; intros r'' [= ? ?]; congruence]. }
  destruct Hdec as [[r' ->] | Hn].
  - rewrite read_num_0x. destruct (span_hex r') as [d r'']. destruct (is_nil d).
    + apply read_plain_nonneg.
    + intros [= <- _]. lia.
  - rewrite (read_num_plain s Hn). apply read_plain_nonneg.
Qed.

Lemma parse_rgb_is_body s : parse_rgb_string s = RNoMatch \/
  exists is_rgb comp r1, parse_rgb_string s = parse_body is_rgb comp r1.
Proof.
  unfold parse_rgb_string. destruct (read_component s) as [comp r0].
  destruct (strip_prefix [114; 103; 98; 40]%N r0) as [r1|]; [right; exists true, comp, r1; reflexivity|].
  destruct (strip_prefix [99; 111; 108; 111; 114; 50; 53; 54; 40]%N r0) as [r1|]; [right; exists false, comp, r1; reflexivity|].
  destruct (strip_prefix [99; 111; 108; 111; 117; 114; 50; 53; 54; 40]%N r0) as [r1|]; [right; exists false, comp, r1; reflexivity|].
  now left.
Qed.

Lemma parse_body_valid is_rgb comp r1 ts : parse_body is_rgb comp r1 = RTexts ts -> forallb valid ts = true.
Proof.
  unfold parse_body. destruct (open_bracket r1) as [ob r1'].
  destruct (read_num (skip_space r1')) as [[v1 r2]|] eqn:E1; [|discriminate].
  cbv zeta.
  match goal with |- match ?three with _ => _ end = _ -> _ => destruct three as [[[[a|] [b|]] [c|]]|] end;
    try discriminate.
  - intros [= <-]. apply rgb3_valid.
  - destruct (close_ok ob r2); [|discriminate]. destruct v1 as [v|]; [|discriminate].
    intros [= <-]. apply read_num_nonneg in E1. destruct is_rgb; [apply rgb1_valid | now apply color256_valid].
Qed.

(* whatever an rgb()/color256() string produces is valid *)
Theorem parse_rgb_valid s ts : parse_rgb_string s = RTexts ts -> forallb valid ts = true.
Proof.
  destruct (parse_rgb_is_body s) as [-> | (is_rgb & comp & r1 & ->)]; [discriminate|]. apply parse_body_valid.
Qed.

Lemma clean_sets ts : forallb valid ts = true -> Forall clean (map SSet ts).
Proof.
  induction ts as [|t ts IH]; cbn [forallb map]; [constructor|]. intros H. apply andb_true_iff in H as [Ht Hts].
  constructor; auto.
Qed.

Lemma scrub_name1_clean f items : scrub_name1 f = OK items -> Forall clean items.
Proof.
  unfold scrub_name1. destruct (member_texts (norm_name f)) as [ts|] eqn:Em.
  - intros [= <-]. apply clean_sets. now apply (member_texts_valid _ _ Em).
  - destruct (parse_rgb_string f) as [| |ts] eqn:Er; [|discriminate|].
    + destruct (is_nil f); [intros [= <-]; constructor|].
      destruct (decimal_code f); [|discriminate].
      destruct (parse_int (strip_ws f)) as [z|]; [|discriminate]. unfold scrub_int.
      destruct (z <? 0) eqn:Ez; cbn [bind]; [discriminate|]. intros [= <-]. apply Z.ltb_ge in Ez. repeat constructor. exact Ez.
    + intros [= <-]. apply clean_sets. now apply (parse_rgb_valid f).
Qed.

Lemma scrub_names_clean l items : scrub_names l = OK items -> Forall clean items.
Proof.
  revert items. induction l as [|f r IH]; intros items; [intros [= <-]; constructor|].
  rewrite scrub_names_cons. destruct (scrub_name1 f) as [a|e] eqn:E1; cbn [bind]; [|discriminate].
  destruct (scrub_names r) as [b|e] eqn:E2; cbn [bind]; [|discriminate]. intros [= <-].
  apply Forall_app. split; [now apply (scrub_name1_clean f) | now apply IH].
Qed.

(* forms that carry no verbatim invalid text: AnsiSetting objects and "[..." strings are the only
   way to hand text to the scrubber unchecked *)
Fixpoint no_raw_invalid (f : form) : bool :=
  match f with
  | FSetting t => valid t
  | FStr s => match s with c :: t => if (c =? LBR)%N then valid t else true | [] => true end
  | FList l => forallb no_raw_invalid l
  | _ => true
  end.

Lemma scrub_form_clean f : no_raw_invalid f = true -> forall items, scrub_form f = OK items -> Forall clean items.
Proof.
  induction f as [f Hf | l IH] using form_ind'.
  - destruct f as [n|s|z|t|l| |b]; try discriminate; cbn [no_raw_invalid scrub_form]; intros Hv items.
    + destruct (member_texts n) as [ts|] eqn:Em; [|discriminate]. intros [= <-].
      apply clean_sets. now apply (member_texts_valid _ _ Em).
    + destruct s as [|c t]; [intros [= <-]; constructor|].
      destruct (c =? LBR)%N eqn:Ec.
      * apply N.eqb_eq in Ec. subst c. unfold scrub_string, LBR. destruct (is_nil t); [discriminate|].
        intros [= <-]. repeat constructor. exact Hv.
      * rewrite (scrub_string_nobr c t Ec). apply scrub_names_clean.
    + unfold scrub_int. destruct (z <? 0) eqn:Ez; cbn [bind]; [discriminate|]. intros [= <-].
      apply Z.ltb_ge in Ez. repeat constructor. exact Ez.
    + intros [= <-]. repeat constructor. exact Hv.
  - cbn [no_raw_invalid]. intros Hv items. rewrite scrub_form_list. revert Hv items.
    induction IH as [|x r Hx _ IHr]; cbn [forallb scrub_list]; intros Hv items; [intros [= <-]; constructor|].
    apply andb_true_iff in Hv as [Hvx Hvr].
    destruct (scrub_form x) as [a|e] eqn:Ex; cbn [bind]; [|discriminate].
    destruct (scrub_list r) as [b|e] eqn:Er; cbn [bind]; [|discriminate]. intros [= <-].
    apply Forall_app. split; [now apply Hx | now apply IHr].
Qed.

(* C14-valid: every setting the scrubber returns is valid text unless invalid text was handed in
   verbatim (as an AnsiSetting object or a "[..." string) *)
Theorem scrub_valid f r : no_raw_invalid f = true -> scrub f = OK r -> forallb valid r = true.
Proof.
  intros Hv. unfold scrub.
  assert (Hv' : no_raw_invalid (match f with FList _ => f | _ => FList [f] end) = true).
  { destruct f; cbn [no_raw_invalid forallb] in *; rewrite ?andb_true_r; auto. }
  destruct (scrub_form _) as [items|e] eqn:E; cbn [bind]; [|discriminate].
  apply (group_ints_valid items (scrub_form_clean _ Hv' items E) [] r). constructor.
Qed.

Example scrub_valid_ex :
  no_raw_invalid (FList [FMember (S_ "BOLD"); FStr (S_ "bg_rgb(1,2,3);red"); FInt 38; FList [FInt 5; FInt 700]]) = true /\
  scrub (FList [FMember (S_ "BOLD"); FStr (S_ "bg_rgb(1,2,3);red"); FInt 38; FList [FInt 5; FInt 700]])
  = OK [S_ "1"; S_ "48;2;1;2;3"; S_ "31"; S_ "38;5;700"].
Proof. split; vm_compute; reflexivity. Qed.
(* the hypothesis is needed *)
Example scrub_invalid_verbatim :
  scrub (FStr (S_ "[1m")) = OK [S_ "1m"] /\ valid (S_ "1m") = false /\
  scrub (FSetting (S_ "x")) = OK [S_ "x"] /\ valid (S_ "x") = false.
Proof. repeat split; vm_compute; reflexivity. Qed.

(* special cases asked for: members, known codes, helper results *)
Corollary scrub_member_valid n r : scrub (FMember n) = OK r -> forallb valid r = true.
Proof. now apply scrub_valid. Qed.
Corollary scrub_member_value n ts : member_texts n = Some ts -> scrub (FMember n) = OK ts.
Proof.
  intros H. rewrite scrub_single by reflexivity. cbn [scrub_form]. rewrite H. cbn [bind]. apply group_ints_sets.
Qed.
Corollary scrub_ints_valid g r : scrub (FList (map FInt g)) = OK r -> forallb valid r = true.
Proof.
  apply scrub_valid. cbn [no_raw_invalid]. induction g; cbn [map forallb]; auto.
Qed.
(* all members: valid and parsable, by computation over the generated table *)
Theorem scrub_all_members_valid_parsable :
  forallb (fun n => match scrub (FMember n) with
                    | OK ts => negb (is_nil ts) && forallb (fun t => valid t && parsable t) ts
                    | Err _ => false end) names = true.
Proof. vm_compute. reflexivity. Qed.

(* ====================================================================================== *)
(* 7. Spellings are interchangeable in any context                                         *)
(* ====================================================================================== *)
(* leaves that contribute the same items may be exchanged anywhere in a (nested) list *)
Theorem scrub_ext l1 l2 :
  Forall2 (fun a b => scrub_form a = scrub_form b) l1 l2 -> scrub (FList l1) = scrub (FList l2).
Proof. intros H. unfold scrub. rewrite !scrub_form_list, (scrub_list_ext l1 l2 H). reflexivity. Qed.

(* item-level versions of the spelling theorems, for use with scrub_ext / scrub_join *)
Lemma names_part_ok name : In name names -> forall spelling, norm_name spelling = name -> part_ok spelling.
Proof.
  intros Hin spelling Hn.
  pose proof (In_names_forallb _ name names_no_sep Hin) as Hsep. apply negb_true_iff in Hsep.
  pose proof (In_names_forallb _ name names_no_bracket Hin) as Hbr. cbv beta in Hsep, Hbr.
  split.
  - rewrite <- mem_semi_norm, Hn. exact Hsep.
  - destruct spelling as [|c r]; [reflexivity|]. cbn [norm_name map] in Hn. subst name.
    apply negb_true_iff in Hbr. rewrite norm_char_lbr in Hbr. cbn [starts_with]. now rewrite Hbr.
Qed.

Theorem scrub_form_name_spelling name spelling : In name names -> norm_name spelling = name ->
  scrub_form (FStr spelling) = scrub_form (FMember name).
Proof.
  intros Hin Hn. rewrite (scrub_form_str_part spelling (names_part_ok name Hin spelling Hn)).
  unfold scrub_name1. rewrite Hn. cbn [scrub_form].
  pose proof (In_names_forallb _ name names_resolve Hin) as Hres. cbv beta in Hres.
  destruct (member_texts name); [reflexivity | discriminate].
Qed.

Theorem scrub_form_rgb_string s ts : part_ok s -> parse_rgb_string s = RTexts ts ->
  scrub_form (FStr s) = OK (map SSet ts).
Proof.
  intros Hp Hr. rewrite (scrub_form_str_part s Hp). unfold scrub_name1.
  assert (Hin : In 40%N s).
  { destruct (in_dec N.eq_dec 40%N s) as [H|H]; [exact H|]. rewrite (parse_rgb_needs_paren s H) in Hr. discriminate. }
  now rewrite (paren_not_member s Hin), Hr.
Qed.

(* C14 capstone example: one formatting, five spellings, mixed into nested lists and ';'-strings *)
Example spellings_agree :
  let r := OK [S_ "1"; S_ "31"; S_ "48;2;1;2;3"; S_ "38;5;7"] in
  scrub (FList [FMember (S_ "BOLD"); FMember (S_ "FG_RED"); FList [FInt 48; FInt 2; FInt 1; FInt 2; FInt 3]; FStr (S_ "38;5;7")]) = r /\
  scrub (FStr (S_ "bold;fg red;bg_rgb(1,2,3);38;5;7")) = r /\
  scrub (FList [FStr (S_ "Bold"); FList [FStr (S_ "fg-red"); FStr (S_ "bg_rgb( 0x1, 2, 3 )")]; FInt 38; FList [FInt 5; FStr (S_ "7")]]) = r /\
  scrub (FList [FInt 1; FInt 31; FStr (S_ "[48;2;1;2;3"); FSetting (S_ "38;5;7")]) = r.
Proof. cbv zeta. repeat split; vm_compute; reflexivity. Qed.

(* the integer spelling of an rgb group is NOT clamped, the rgb() spellings are: the spellings agree
   only for components in 0..255 (same in Python: "bg_rgb(1,0,300)" -> 48;2;1;0;255, [48,2,1,0,300] -> 48;2;1;0;300) *)
Example rgb_spellings_differ_out_of_range :
  scrub (FStr (S_ "bg_rgb(1,0,300)")) = OK [S_ "48;2;1;0;255"] /\
  scrub (FList (map FInt [48; 2; 1; 0; 300])) = OK [S_ "48;2;1;0;300"].
Proof. split; vm_compute; reflexivity. Qed.

(* ---------- further witnesses for the hypotheses used above ---------- *)
Example scrub_wrap_ex : is_list (FInt 5) = false /\ scrub (FInt 5) = scrub (FList [FInt 5]).
Proof. split; reflexivity. Qed.
Example scrub_first_error_ex :
  let f := FList [FInt 1; FList [FMember (S_ "BOLD"); FOther true]; FSelfRef] in
  flatten f = [FInt 1; FMember (S_ "BOLD")] ++ FOther true :: [FSelfRef] /\
  Forall (fun y => exists r, scrub_form y = OK r) [FInt 1; FMember (S_ "BOLD")] /\
  scrub f = Err TypeError.
Proof.
  cbv zeta. split; [reflexivity|]. split; [|vm_compute; reflexivity].
  repeat constructor; eexists; vm_compute; reflexivity.
Qed.
Example scrub_selfref_ex :
  let f := FList [FInt 1; FList [FSelfRef; FOther true]] in
  flatten f = [FInt 1] ++ FSelfRef :: [FOther true] /\
  Forall (fun y => exists r, scrub_form y = OK r) [FInt 1] /\ scrub f = Err ValueError.
Proof.
  cbv zeta. split; [reflexivity|]. split; [|vm_compute; reflexivity].
  repeat constructor; eexists; vm_compute; reflexivity.
Qed.
Example scrub_ints_ex :
  [1; 38; 5; 7; 0] <> [] /\ Forall (fun z => 0 <= z) [1; 38; 5; 7; 0] /\
  scrub (FList (map FInt [1; 38; 5; 7; 0])) = OK [S_ "1"; S_ "38;5;7"; S_ "0"] /\
  scrub (FStr (text_of_items [1; 38; 5; 7; 0])) = OK [S_ "1"; S_ "38;5;7"; S_ "0"].
Proof. split; [discriminate|]. split; [repeat constructor; lia|]. split; vm_compute; reflexivity. Qed.
Example scrub_join_error_ex :
  let parts := [S_ "bold"; S_ "boldd"; S_ "zzz"] in
  Forall part_ok parts /\ parts = [S_ "bold"] ++ S_ "boldd" :: [S_ "zzz"] /\
  Forall (fun q => exists r, scrub_name1 q = OK r) [S_ "bold"] /\ scrub_name1 (S_ "boldd") = Err ValueError /\
  scrub (FStr (S_ "bold;boldd;zzz")) = Err ValueError.
Proof.
  cbv zeta. split; [repeat constructor|]. split; [reflexivity|]. split; [|split; vm_compute; reflexivity].
  repeat constructor. eexists. vm_compute. reflexivity.
Qed.
Example rgb1_24bit_ex : 0 <= 1056816 < 16777216 /\ rgb1 1056816 BG = rgb3 16 32 48 BG.
Proof. split; [lia | vm_compute; reflexivity]. Qed.
Example rgb1_pack_ex : rgb1 (16 * 65536 + 32 * 256 + 48) BG = rgb3 16 32 48 BG.
Proof. apply rgb1_pack; lia. Qed.
Example layout_hyps_ex :
  bracket_pair (S_ "[") (S_ "]") = true /\ bracket_pair (S_ "(") (S_ ")") = true /\ bracket_pair [] [] = true /\
  spaces (S_ "  ") = true /\
  tok_wf (NHex (S_ "1f")) = true /\ tok_wf (NDec (S_ "007")) = true /\ tok_val (NHex (S_ "1f")) = Some 31.
Proof. repeat split; vm_compute; reflexivity. Qed.
Example scrub_rgb_string_ex :
  let s := S_ "bg_rgb([ 0x1f,  007 ,300 ])" in
  part_ok s /\ parse_rgb_string s = RTexts [S_ "48;2;31;7;255"] /\ scrub (FStr s) = OK [S_ "48;2;31;7;255"].
Proof. cbv zeta. repeat split; vm_compute; reflexivity. Qed.
Example scrub_form_name_spelling_ex :
  In (S_ "FG_RED") names /\ norm_name (S_ "fg-Red") = S_ "FG_RED" /\
  scrub (FList [FInt 1; FStr (S_ "fg-Red")]) = scrub (FList [FInt 1; FMember (S_ "FG_RED")]).
Proof.
  split; [|split; [vm_compute; reflexivity|]].
  - assert (H : existsb (str_eqb (S_ "FG_RED")) names = true) by (vm_compute; reflexivity).
    apply existsb_exists in H as (x & Hx & E). apply str_eqb_eq in E. now subst.
  - vm_compute. reflexivity.
Qed.
Example scrub_codes_all_kept_ex :
  scrub (FList (map (fun c => FInt (Z.of_N c)) [38; 5; 7; 38; 9]%N)) = OK (map textN [[38; 5; 7]; [38]; [9]]%N).
Proof. vm_compute. reflexivity. Qed.

(* ====================================================================================== *)
(* 8. Unknown names, without reference to the parsers                                      *)
(* ====================================================================================== *)
(* characters that can occur in a Python int() literal of our fragment *)
Definition int_char (x : char) : bool :=
  (is_digit x || (x =? CH_US) || (x =? CH_MINUS) || (x =? CH_PLUS))%N || is_ws x.

(* lstrip_keeps, strip_keeps: section 3 *)
Lemma digits_val_chars s : forall acc prev n, digits_val s acc prev = Some n ->
  forall x, In x s -> is_digit x = true \/ x = CH_US.
Proof.
  induction s as [|c r IH]; intros acc prev n H x Hin; [destruct Hin|].
  cbn [digits_val] in H. destruct (is_digit c) eqn:Ed.
  - destruct Hin as [<-|Hin]; [now left | now apply (IH _ _ _ H)].
  - destruct (c =? CH_US)%N eqn:Eu; [|discriminate]. apply N.eqb_eq in Eu.
    destruct prev; [|discriminate]. destruct r as [|c' r']; [discriminate|].
    destruct Hin as [<-|Hin]; [now right | now apply (IH _ _ _ H)].
Qed.

Theorem parse_int_chars s z : parse_int s = Some z -> forall x, In x s -> int_char x = true.
Proof.
  intros H x Hin. unfold int_char. destruct (is_ws x) eqn:Ews; [now rewrite orb_true_r|]. rewrite orb_false_r.
  pose proof (strip_keeps s x Hin Ews) as Hx. unfold parse_int in H.
  destruct (strip_ws s) as [|c r]; [discriminate|].
  assert (Hd : forall l acc prev n, digits_val l acc prev = Some n -> In x l ->
               (is_digit x || (x =? CH_US) || (x =? CH_MINUS) || (x =? CH_PLUS))%N = true).
  { intros l acc prev n Hl Hinl. destruct (digits_val_chars l acc prev n Hl x Hinl) as [E | ->].
    - now rewrite E.
    - rewrite orb_true_iff. left. rewrite orb_true_iff. left. rewrite orb_true_iff. now right. }
  destruct (c =? CH_MINUS)%N eqn:Em.
  - apply N.eqb_eq in Em. destruct Hx as [<-|Hx].
    + subst c. rewrite orb_true_iff. left. rewrite orb_true_iff. now right.
    + destruct (digits_val r 0%N false) as [n|] eqn:E; [|discriminate]. now apply (Hd r _ _ n E).
  - destruct (c =? CH_PLUS)%N eqn:Ep.
    + apply N.eqb_eq in Ep. destruct Hx as [<-|Hx].
      * subst c. now rewrite orb_true_r.
      * destruct (digits_val r 0%N false) as [n|] eqn:E; [|discriminate]. now apply (Hd r _ _ n E).
    + destruct (digits_val (c :: r) 0%N false) as [n|] eqn:E; [|discriminate]. now apply (Hd (c :: r) _ _ n E).
Qed.

Corollary parse_int_none s x : In x s -> int_char x = false -> parse_int s = None.
Proof.
  intros Hin Hx. destruct (parse_int s) as [z|] eqn:E; [|reflexivity].
  rewrite (parse_int_chars s z E x Hin) in Hx. discriminate.
Qed.

(* the test for a code (decimal_code, repair F37) is the stricter one: what a code may be written with,
   int() takes too - but '_', '-' and '+' are no longer part of a code *)
Lemma code_char_int_char x : code_char x = true -> int_char x = true.
Proof.
  unfold code_char, int_char. intros H. apply orb_true_iff in H as [H|H]; rewrite H; [reflexivity | apply orb_true_r].
Qed.
Example int_char_not_code_char :
  int_char CH_US = true /\ code_char CH_US = false /\ int_char CH_MINUS = true /\ code_char CH_MINUS = false /\
  int_char CH_PLUS = true /\ code_char CH_PLUS = false.
Proof. repeat split; reflexivity. Qed.

(* C14-reject: a directive that is not a member name after normalisation, contains no '(' and
   contains a character that is neither a decimal digit nor a blank (any letter - and, since the repair
   F37, also '_', '+' and '-': the hypothesis was "int_char x = false" before) is rejected *)
Theorem scrub_unknown_word s x : part_ok s -> ~ In 40%N s -> In x s -> code_char x = false ->
  ~ In (norm_name s) names -> scrub (FStr s) = Err ValueError.
Proof.
  intros Hp Hparen Hin Hx Hnm. apply scrub_unknown_name; auto.
  - intros ->. destruct Hin.
  - destruct (member_texts (norm_name s)) as [ts|] eqn:E; [|reflexivity]. exfalso. apply Hnm.
    now apply (member_in_names _ ts).
  - now apply parse_rgb_needs_paren.
  - now apply (not_decimal_code s x).
Qed.

(* the statement as it stood before the repair follows *)
Corollary scrub_unknown_word_int_char s x : part_ok s -> ~ In 40%N s -> In x s -> int_char x = false ->
  ~ In (norm_name s) names -> scrub (FStr s) = Err ValueError.
Proof.
  intros Hp Hparen Hin Hx Hnm. apply (scrub_unknown_word s x); auto.
  destruct (code_char x) eqn:E; [|reflexivity]. rewrite (code_char_int_char x E) in Hx. discriminate.
Qed.

Lemma not_in_by_existsb (c : char) (s : str) : existsb (N.eqb c) s = false -> ~ In c s.
Proof.
  intros E H. assert (E' : existsb (N.eqb c) s = true) by (apply existsb_exists; exists c; split; [exact H | apply N.eqb_refl]).
  congruence.
Qed.
Lemma not_name_by_existsb (n : str) : existsb (str_eqb n) names = false -> ~ In n names.
Proof.
  intros E H. assert (E' : existsb (str_eqb n) names = true) by (apply existsb_exists; exists n; split; [exact H | apply str_eqb_refl]).
  congruence.
Qed.

Example scrub_unknown_word_ex :
  let s := S_ "fg_redd" in
  part_ok s /\ ~ In 40%N s /\ In 102%N s /\ code_char 102%N = false /\ int_char 102%N = false /\
  ~ In (norm_name s) names /\ scrub (FStr s) = Err ValueError.
Proof.
  cbv zeta. split; [split; vm_compute; reflexivity|]. split; [apply not_in_by_existsb; vm_compute; reflexivity|].
  split; [vm_compute; tauto|]. split; [reflexivity|]. split; [reflexivity|]. split; [|vm_compute; reflexivity].
  apply not_name_by_existsb. vm_compute. reflexivity.
Qed.
(* new since the repair: an underscore between digits *)
Example scrub_unknown_word_ex2 :
  let s := S_ "1_0" in
  part_ok s /\ ~ In 40%N s /\ In CH_US s /\ code_char CH_US = false /\ int_char CH_US = true /\
  ~ In (norm_name s) names /\ scrub (FStr s) = Err ValueError.
Proof.
  cbv zeta. split; [split; vm_compute; reflexivity|]. split; [apply not_in_by_existsb; vm_compute; reflexivity|].
  split; [vm_compute; tauto|]. split; [reflexivity|]. split; [reflexivity|]. split; [|vm_compute; reflexivity].
  apply not_name_by_existsb. vm_compute. reflexivity.
Qed.

(* a directive is accepted exactly when it is a member name, an rgb()/color256() string with
   convertible numbers, empty, or a code: blanks, decimal digits (at least one), blanks.
   (Before the repair F37 the last alternative read "exists z, parse_int s = Some z /\ 0 <= z", which is
   no longer sufficient: Example directive_int_not_enough.) *)
Theorem scrub_directive_ok_iff s : part_ok s ->
  ((exists r, scrub (FStr s) = OK r) <->
   (exists ts, member_texts (norm_name s) = Some ts) \/
   (member_texts (norm_name s) = None /\
    ((exists ts, parse_rgb_string s = RTexts ts) \/
     (parse_rgb_string s = RNoMatch /\ (s = [] \/ decimal_code s = true))))).
Proof.
  intros Hp. rewrite scrub_directive by exact Hp. split.
  - unfold scrub_name1. intros [r H]. destruct (member_texts (norm_name s)) as [ts|]; [left; eauto|]. right. split; [reflexivity|].
    destruct (parse_rgb_string s) as [| |ts]; [|discriminate|left; eauto]. right. split; [reflexivity|].
    destruct s as [|c s']; [now left|]. right. cbn [is_nil] in H.
    destruct (decimal_code (c :: s')); [reflexivity | discriminate].
  - intros [[ts Hm] | [Hm [[ts Hr] | [Hr [-> | Hc]]]]].
    + unfold scrub_name1. rewrite Hm. cbn [bind]. rewrite group_ints_sets. eexists; reflexivity.
    + unfold scrub_name1. rewrite Hm, Hr. cbn [bind]. rewrite group_ints_sets. eexists; reflexivity.
    + eexists; reflexivity.
    + rewrite (scrub_name1_code s Hc). cbn [bind]. apply group_ints_ok.
Qed.

(* ... and then the code is what is returned: the full case table of one directive *)
Theorem scrub_directive_cases s : part_ok s ->
  scrub (FStr s) =
  match member_texts (norm_name s) with
  | Some ts => OK ts
  | None => match parse_rgb_string s with
            | RTexts ts => OK ts
            | RBad => Err ValueError
            | RNoMatch => if is_nil s then OK []
                          else if decimal_code s then OK [dec (code_value s)] else Err ValueError
            end
  end.
Proof.
  intros Hp. destruct (decimal_code s) eqn:Hc.
  - destruct (scrub_code_text s Hc) as [-> _]. rewrite (code_not_member s Hc), (code_not_rgb s Hc).
    destruct s; [discriminate | reflexivity].
  - rewrite scrub_directive by exact Hp. unfold scrub_name1. rewrite Hc.
    destruct (member_texts (norm_name s)) as [ts|]; [cbn [bind]; apply group_ints_sets|].
    destruct (parse_rgb_string s) as [| |ts]; [|reflexivity|cbn [bind]; apply group_ints_sets].
    destruct (is_nil s); reflexivity.
Qed.

Example directive_int_not_enough :
  let s := S_ "+1" in
  part_ok s /\ member_texts (norm_name s) = None /\ parse_rgb_string s = RNoMatch /\
  parse_int s = Some 1 /\ 0 <= 1 /\ decimal_code s = false /\ scrub (FStr s) = Err ValueError.
Proof. cbv zeta. repeat split; try lia; vm_compute; reflexivity. Qed.
Example scrub_directive_ok_iff_ex :
  part_ok (S_ " 31 ") /\ decimal_code (S_ " 31 ") = true /\ scrub (FStr (S_ " 31 ")) = OK [S_ "31"] /\
  part_ok (S_ "fg red") /\ scrub (FStr (S_ "fg red")) = OK [S_ "31"] /\
  part_ok [] /\ scrub (FStr []) = OK [].
Proof. repeat split; vm_compute; reflexivity. Qed.

(* ====================================================================================== *)
Print Assumptions scrub_flatten.
Print Assumptions scrub_flatten_any.
Print Assumptions scrub_nested_example.
Print Assumptions scrub_same_leaves.
Print Assumptions scrub_error_iff.
Print Assumptions scrub_first_error.
Print Assumptions scrub_type_error_iff.
Print Assumptions scrub_join.
Print Assumptions scrub_join_error.
Print Assumptions scrub_int_nonneg.
Print Assumptions scrub_int_neg.
Print Assumptions scrub_str_dec.
Print Assumptions scrub_verbatim.
Print Assumptions scrub_ints.
Print Assumptions scrub_ints_string.
Print Assumptions scrub_colour_group_ints.
Print Assumptions scrub_colour_group_string.
Print Assumptions scrub_colour_group_nested.
Print Assumptions scrub_codes_all_kept.
Print Assumptions scrub_member_unknown.
Print Assumptions scrub_unknown_name.
Print Assumptions scrub_bad_rgb.
Print Assumptions scrub_negative_text.
Print Assumptions rgb1_split.
Print Assumptions rgb1_24bit.
Print Assumptions rgb1_pack.
Print Assumptions parse_rgb_layout3.
Print Assumptions parse_rgb_layout1.
Print Assumptions parse_color256_layout.
Print Assumptions parse_rgb_mismatched_brackets.
Print Assumptions parse_rgb_leading_rparen.
Print Assumptions parse_rgb_trailing_char.
Print Assumptions parse_rgb_trailing_newline.
Print Assumptions parse_print_rgb.
Print Assumptions parse_print_rgb24.
Print Assumptions parse_print_color256.
Print Assumptions parse_rgb_needs_paren.
Print Assumptions scrub_rgb_string.
Print Assumptions scrub_print_rgb.
Print Assumptions scrub_print_rgb24.
Print Assumptions scrub_print_color256.
Print Assumptions rgb_three_spellings.
Print Assumptions parse_rgb_valid.
Print Assumptions scrub_valid.
Print Assumptions scrub_all_members_valid_parsable.
Print Assumptions scrub_ext.
Print Assumptions scrub_form_name_spelling.
Print Assumptions parse_int_chars.
Print Assumptions decimal_code_chars.
Print Assumptions scrub_name1_code.
Print Assumptions scrub_name1_not_code.
Print Assumptions scrub_names_lenient_int_rejected.
Print Assumptions scrub_code_text.
Print Assumptions scrub_padded_code.
Print Assumptions scrub_unknown_name_no_int.
Print Assumptions scrub_unknown_word.
Print Assumptions scrub_unknown_word_int_char.
Print Assumptions scrub_directive_ok_iff.
Print Assumptions scrub_directive_cases.
