(* C03: rendering a value and parsing the rendering back; simplify. *)
From AS Require Import Base Effects.
From AS.Spec Require Import Terminal.
From AS.Model Require Import Sgr Tokenizer Table Ops Render Parse.
From AS.Proofs Require Import TableProofs SliceProofs PadProofs DecProofs GenCodeTable TokenizerProofs
  SgrProofs SgrAlgebra BasicProofs ApplyProofs RemoveProofs RenderProofs FlagsProofs ParseBasics ParseProofs.
Local Open Scope nat_scope.

Notation no_esc := RenderProofs.no_esc.
Notation tkz := (tokenize false (Some [CH_m])).

(* ====================================================================================== *)
(* 1. Tokenising a rendering                                                                *)
(* ====================================================================================== *)
Definition tok_of (k : otok) : list tok :=
  match k with
  | OText s => map TChar s
  | OSgr c => [TSeq {| cs_body := c; cs_term := Some CH_m |}]
  end.
Definition toks_of (l : list otok) : list tok := flat_map tok_of l.

Lemma tkz_fuel_more ae acc : forall f s f', length s <= f -> length s <= f' ->
  tokenize_fuel f ae acc s = tokenize_fuel f' ae acc s.
Proof.
  induction f as [|f IH]; intros s f' Hf Hf'.
  - destruct s; simpl in Hf; [|lia]. destruct f'; reflexivity.
  - destruct s as [|c1 r1]. { destruct f'; reflexivity. }
    destruct f' as [|f']; [simpl in Hf'; lia|]. cbn [tokenize_fuel].
    destruct r1 as [|c2 r2]; [reflexivity|].
    destruct ((c1 =? ESC)%N && (c2 =? LBR)%N).
    + pose proof (span_body_len r2) as Hl.
      destruct (Tokenizer.span_body r2) as [b r3]. cbn [snd] in Hl.
      destruct r3 as [|fin r4].
      * destruct f, f'; reflexivity.
      * rewrite (IH r4 f') by (simpl in *; lia). reflexivity.
    + rewrite (IH (c2 :: r2) f') by (simpl in *; lia). reflexivity.
Qed.

Lemma tkz_plain ae acc c r : (c =? ESC)%N = false ->
  tokenize ae acc (c :: r) = TChar c :: tokenize ae acc r.
Proof.
  intros Hc. unfold tokenize. cbn [length tokenize_fuel]. destruct r as [|c2 r2]; [reflexivity|].
  rewrite Hc. cbn [andb]. reflexivity.
Qed.

Lemma tkz_sgr codes rest : nonfinal codes = true ->
  tkz (ESC :: LBR :: codes ++ CH_m :: rest) = TSeq {| cs_body := codes; cs_term := Some CH_m |} :: tkz rest.
Proof.
  intros Hc. unfold tokenize.
  assert (Hn : exists n, length (ESC :: LBR :: codes ++ CH_m :: rest) = S n /\ length rest <= n).
  { cbn [length]. rewrite app_length. cbn [length]. eexists; split; [reflexivity|lia]. }
  destruct Hn as (n & -> & Hn). cbn [tokenize_fuel].
  change ((ESC =? ESC)%N && (LBR =? LBR)%N) with true. cbv iota.
  rewrite (span_body_exact codes CH_m rest Hc eq_refl).
  change (accept false (Some [CH_m]) (Some CH_m)) with true. cbv iota.
  f_equal. apply tkz_fuel_more; lia.
Qed.

Theorem tokenize_bytes : forall toks, Forall tok_ok toks -> tkz (bytes_of toks) = toks_of toks.
Proof.
  induction toks as [|k toks IH]; intros Hok; [reflexivity|].
  inversion Hok as [|? ? Hk Hr]; subst. destruct k as [s|c]; cbn [tok_ok] in Hk.
  - unfold bytes_of, toks_of. cbn [flat_map bytes_of_tok tok_of]. fold (bytes_of toks) (toks_of toks).
    induction s as [|x s IHs].
    + cbn [app map]. now apply IH.
    + unfold RenderProofs.no_esc in Hk. cbn [forallb] in Hk. apply andb_true_iff in Hk as [H1 H2].
      apply negb_true_iff in H1. cbn [app map]. rewrite (tkz_plain _ _ x _ H1). f_equal. apply IHs.
      * constructor; auto.
      * exact H2.
  - unfold bytes_of, toks_of. cbn [flat_map bytes_of_tok tok_of]. fold (bytes_of toks) (toks_of toks).
    cbn [app]. rewrite <- app_assoc. cbn [app]. rewrite (tkz_sgr c _ Hk). f_equal. now apply IH.
Qed.

(* ---------- the obvious token list has the properties parse_style needs ---------- *)
Definition txt_of (l : list otok) : str := flat_map (fun k => match k with OText s => s | OSgr _ => [] end) l.
Definition tok_num (k : otok) : Prop := match k with OText _ => True | OSgr c => numeric c = true end.

Lemma unformatted_app a b : unformatted (a ++ b) = unformatted a ++ unformatted b.
Proof. unfold unformatted. apply flat_map_app. Qed.

Lemma unformatted_toks_of l : unformatted (toks_of l) = txt_of l.
Proof.
  induction l as [|k l IH]; [reflexivity|]. unfold toks_of, txt_of in *. cbn [flat_map].
  rewrite unformatted_app, IH. f_equal. destruct k as [s|c]; [apply unformatted_plain|reflexivity].
Qed.

Lemma numeric_toks_app a b : numeric_toks (a ++ b) = numeric_toks a && numeric_toks b.
Proof. apply forallb_app. Qed.

Lemma numeric_toks_of l : Forall tok_num l -> numeric_toks (toks_of l) = true.
Proof.
  induction 1 as [|k l Hk Hl IH]; [reflexivity|]. unfold toks_of in *. cbn [flat_map].
  rewrite numeric_toks_app, IH, andb_true_r. destruct k as [s|c]; cbn [tok_of tok_num] in *.
  - unfold numeric_toks. apply forallb_forall. intros x Hx. apply in_map_iff in Hx as (c & <- & _). reflexivity.
  - cbn [numeric_toks forallb cs_body]. now rewrite Hk.
Qed.

(* a token list without a literal ESC character has no raw "ESC [" left *)
Definition no_esc_tok (k : tok) : bool := match k with TChar c => negb (c =? ESC)%N | TSeq _ => true end.
Lemma only_sgr_no_esc l : forallb no_esc_tok l = true -> only_sgr l = true.
Proof.
  induction l as [|k l IH]; [reflexivity|]. cbn [forallb]. intros H. apply andb_true_iff in H as [H1 H2].
  destruct k as [a|q]; cbn [only_sgr]; [|now apply IH]. rewrite (IH H2), andb_true_r.
  destruct l as [|[b|q] l]; auto. cbn [no_esc_tok] in H1. apply negb_true_iff in H1. now rewrite H1.
Qed.

Lemma only_sgr_toks_of l : Forall tok_ok l -> only_sgr (toks_of l) = true.
Proof.
  intros H. apply only_sgr_no_esc. induction H as [|k l Hk Hl IH]; [reflexivity|].
  unfold toks_of in *. cbn [flat_map]. rewrite forallb_app, IH, andb_true_r.
  destruct k as [s|c]; cbn [tok_of tok_ok] in *; [|reflexivity].
  apply forallb_forall. intros x Hx. apply in_map_iff in Hx as (c & <- & Hc). cbn [no_esc_tok].
  unfold RenderProofs.no_esc in Hk. rewrite forallb_forall in Hk. now apply Hk.
Qed.

(* the token-level terminals of RenderProofs and ParseProofs agree *)
Lemma tk_run_app a : forall t b,
  tk_run t (a ++ b) = let '(d1, t1) := tk_run t a in let '(d2, t2) := tk_run t1 b in (d1 ++ d2, t2).
Proof.
  induction a as [|k a IH]; intros t b.
  - cbn [app tk_run]. destruct (tk_run t b); reflexivity.
  - destruct k as [c|q]; cbn [app tk_run].
    + rewrite IH. destruct (tk_run t a) as [d1 t1]. destruct (tk_run t1 b) as [d2 t2]. reflexivity.
    + apply IH.
Qed.

Lemma tk_run_chars t s : tk_run t (map TChar s) = (map (fun c => (c, t)) s, t).
Proof. induction s as [|c s IH]; [reflexivity|]. cbn [map tk_run]. now rewrite IH. Qed.

Theorem tk_run_toks_of : forall l t, tk_run t (toks_of l) = tok_run t l.
Proof.
  induction l as [|k l IH]; intros t; [reflexivity|]. unfold toks_of in *. cbn [flat_map].
  destruct k as [s|c]; cbn [tok_of tok_run].
  - rewrite tk_run_app, tk_run_chars, IH. reflexivity.
  - cbn [app tk_run cs_body]. apply IH.
Qed.

Example toks_of_ex :
  let l := [OSgr [49; 59; 51]%N; OText [65; 66]%N; OSgr []; OText [67]%N] in
  Forall tok_ok l /\ Forall tok_num l
  /\ tkz (bytes_of l) = toks_of l /\ unformatted (tkz (bytes_of l)) = [65; 66; 67]%N
  /\ numeric_toks (tkz (bytes_of l)) = true /\ only_sgr (tkz (bytes_of l)) = true.
Proof. repeat split; repeat constructor. Qed.

(* ---------- the renderer emits numeric sequences ---------- *)
Lemma numeric_of_params c : params_of c <> None -> numeric c = true.
Proof. destruct (params_of c) as [p|] eqn:E; [intros _; exact (params_numeric c p E)|congruence]. Qed.

Lemma numeric_join ts : Forall (fun t => params_of t <> None) ts -> numeric (join [SEMI] ts) = true.
Proof.
  intros H. destruct ts as [|t ts]; [reflexivity|]. apply numeric_of_params.
  rewrite params_of_join; [discriminate|discriminate|exact H].
Qed.

Lemma numeric_pt_codes p cur : set_wf cur -> numeric (pt_codes p cur) = true.
Proof. intros H. apply numeric_of_params. rewrite pt_codes_params by exact H. discriminate. Qed.

Lemma numeric_zero_prefix c : numeric c = true -> numeric (CH_0 :: SEMI :: c) = true.
Proof. intros H. unfold numeric. cbn [forallb]. exact H. Qed.

Lemma numeric_rs_codes idx rs c : numeric c = true -> numeric (rs_codes idx rs c) = true.
Proof.
  intros H. unfold rs_codes. destruct (Nat.eqb idx 0 && rs); auto.
  destruct (negb (is_nil c)); [now apply numeric_zero_prefix|reflexivity].
Qed.

Lemma numeric_opt_pick old cur p : set_parsable cur ->
  numeric (snd (opt_pick old (s2d (fun x => x) (map stxt cur) []) (pt_codes p cur))) = true.
Proof.
  intros Hc. destruct (s2d_of_set cur Hc) as (_ & _ & Hne).
  destruct (acts_of_txt_acts _ _ (diff_txt_acts old _ Hne)) as (_ & Hpar & _).
  assert (Hfull : numeric (pt_codes p cur) = true) by (apply numeric_pt_codes; now apply set_parsable_wf).
  assert (Hdiff : numeric (join [SEMI] (diff_codes old (s2d (fun x => x) (map stxt cur) []))) = true)
    by (apply numeric_join; exact Hpar).
  unfold opt_pick. cbv zeta. destruct (is_nil _); [exact Hfull|]. destruct (_ <? _); assumption.
Qed.

Lemma numeric_rs_wrap k rs ac : numeric (snd ac) = true -> numeric (snd (rs_wrap k rs ac)) = true.
Proof.
  intros H. unfold rs_wrap. destruct (Nat.eqb k 0 && rs); auto.
  destruct (fst ac && negb (is_nil (snd ac))); cbn [snd]; auto.
Qed.

Lemma tok_num_opt_text x : Forall tok_num (if is_nil x then [] else [OText x]).
Proof. destruct (is_nil x); repeat constructor. Qed.

Lemma render_point_unopt_num s rs st idx p cur : set_wf cur ->
  Forall tok_num (r_out st) -> Forall tok_num (r_out (render_point s false rs st idx p cur)).
Proof.
  intros Hc Ho. rewrite render_point_unopt. cbn [r_out].
  apply Forall_app. split; auto. apply Forall_app. split.
  { destruct (r_first st && (0 <? idx) && rs); repeat constructor. }
  apply Forall_app. split; [apply tok_num_opt_text|].
  repeat constructor. cbn [tok_num]. now apply numeric_rs_codes, numeric_pt_codes.
Qed.

Lemma render_point_opt_num s rs st idx p cur : set_parsable cur ->
  Forall tok_num (r_out st) -> Forall tok_num (r_out (render_point s true rs st idx p cur)).
Proof.
  intros Hc Ho. rewrite render_point_opt. cbv zeta. cbn [r_out].
  apply Forall_app. split; auto. apply Forall_app. split.
  { destruct (r_first st && (0 <? idx) && rs); repeat constructor. }
  apply Forall_app. split; [apply tok_num_opt_text|].
  destruct (fst _); [|constructor]. repeat constructor. cbn [tok_num].
  now apply numeric_rs_wrap, numeric_opt_pick.
Qed.

Lemma render_loop_P (P : otok -> Prop) s opt rs (Q : list setting -> Prop)
  (Hpoint : forall st idx p cur, Q cur -> Forall P (r_out st) ->
            Forall P (r_out (render_point s opt rs st idx p cur))) :
  forall states st, (forall idx p cur, In (idx, p, cur) states -> Q cur) ->
  Forall P (r_out st) -> Forall P (r_out (render_loop s opt rs states st)).
Proof.
  induction states as [|[[idx p] cur] states IH]; intros st Hc Ho; cbn [render_loop]; auto.
  destruct (length s <=? idx); auto. apply IH.
  - intros; eapply Hc; right; eauto.
  - apply Hpoint; auto. eapply Hc. left; reflexivity.
Qed.

Lemma to_str_toks_unopt_num s rs re : adds_wf (tbl s) -> Forall tok_num (to_str_toks s false rs re).
Proof.
  intros Hn. unfold to_str_toks. destruct (is_nil (tbl s) && negb rs).
  - apply tok_num_opt_text.
  - cbn [andb]. apply Forall_app. split.
    + apply (render_loop_P tok_num _ _ _ set_wf).
      * intros; now apply render_point_unopt_num.
      * intros idx p cur Hin x Hx. destruct (iter_states_in _ _ _ _ _ x Hin Hx) as [[]|H]. now apply Hn.
      * constructor.
    + apply Forall_app. split. { destruct (_ && rs); repeat constructor. }
      apply Forall_app. split; [apply tok_num_opt_text|].
      destruct (_ && re); repeat constructor.
Qed.

Theorem to_str_toks_num s opt rs re : adds_wf (tbl s) -> Forall tok_num (to_str_toks s opt rs re).
Proof.
  intros Hwf. pose proof (to_str_toks_unopt_num s rs re Hwf) as Hun.
  destruct opt; [|exact Hun]. destruct (is_parsable_tbl (tbl s)) eqn:Ep.
  2:{ replace (to_str_toks s true rs re) with (to_str_toks s false rs re); [exact Hun|].
      unfold to_str_toks. now rewrite Ep. }
  unfold to_str_toks. rewrite Ep. destruct (is_nil (tbl s) && negb rs).
  - apply tok_num_opt_text.
  - cbn [andb]. apply Forall_app. split.
    + apply (render_loop_P tok_num _ _ _ set_parsable).
      * intros; now apply render_point_opt_num.
      * intros idx p cur Hin x Hx. destruct (iter_states_in _ _ _ _ _ x Hin Hx) as [[]|H].
        now apply (is_parsable_tbl_spec _ Ep).
      * constructor.
    + apply Forall_app. split. { destruct (_ && rs); repeat constructor. }
      apply Forall_app. split; [apply tok_num_opt_text|].
      destruct (_ && re); repeat constructor.
Qed.

(* the tokens of a rendering *)
Theorem tokenize_to_str s opt rs re : no_esc (base s) = true -> adds_wf (tbl s) ->
  let toks := tkz (to_str s opt rs re) in
  toks = toks_of (to_str_toks s opt rs re) /\ numeric_toks toks = true /\ only_sgr toks = true
  /\ unformatted toks = txt_of (to_str_toks s opt rs re).
Proof.
  intros He Hwf toks. pose proof (to_str_toks_ok s opt rs re He Hwf) as Hok.
  assert (E : toks = toks_of (to_str_toks s opt rs re)) by (apply tokenize_bytes; exact Hok).
  split; [exact E|]. rewrite E. split; [apply numeric_toks_of; now apply to_str_toks_num|].
  split; [now apply only_sgr_toks_of|apply unformatted_toks_of].
Qed.

(* ====================================================================================== *)
(* 2. Round trip: parse (render s)                                                          *)
(* ====================================================================================== *)
Definition style (s : astr) (i : nat) : tstate := style_of (map stxt (active_at (tbl s) i)).

Lemma nth_error_map_snd {A B} (l : list (A * B)) i b :
  nth_error (map snd l) i = Some b -> exists a, nth_error l i = Some (a, b).
Proof.
  revert i. induction l as [|[a0 b0] l IH]; intros [|i] H; try discriminate.
  - cbn in H. inversion H; subst. now exists a0.
  - apply (IH i H).
Qed.

(* what the terminal shows on w, read back through parse *)
Lemma reparse_generic w s nid disp tfin (R : tstate -> tstate -> Prop) :
  numeric_toks (tkz w) = true -> only_sgr (tkz w) = true ->
  term_run tdefault w = (disp, tfin) -> map fst disp = base s ->
  (forall i, i < length (base s) -> exists st, nth_error (map snd disp) i = Some st /\ R st (style s i)) ->
  base (fst (parse w nid)) = base s
  /\ forall i, i < length (base s) -> exists st, teq st (style (fst (parse w nid)) i) /\ R st (style s i).
Proof.
  intros Hnum Hsgr Hrun Htxt Hsty. destruct (parse_style w nid Hnum Hsgr) as [P1 P2].
  rewrite Hrun in P1, P2. cbn [fst] in P1, P2. split; [congruence|].
  intros i Hi. destruct (Hsty i Hi) as (st & Hn & HR). exists st. split; [|exact HR].
  destruct (nth_error_map_snd _ _ _ Hn) as (c & Hc). exact (P2 i c st Hc).
Qed.

(* any flags, optimised renderer *)
Theorem roundtrip_to_str_opt s rs re nid :
  ssorted (tbl s) -> no_esc (base s) = true -> adds_wf (tbl s) ->
  let s' := fst (parse (to_str s true rs re) nid) in
  base s' = base s /\ forall i, i < length (base s) -> teq_disp (style s' i) (style s i).
Proof.
  intros Hs He Hwf s'.
  destruct (tokenize_to_str s true rs re He Hwf) as (_ & Hnum & Hsgr & _).
  destruct (render_opt_display_bytes s rs re tdefault Hs He Hwf (fun _ => eq_refl)) as (disp & tfin & H1 & H2 & H3 & _).
  destruct (reparse_generic _ s nid disp tfin teq_disp Hnum Hsgr H1 H2 H3) as [B S]. split; [exact B|].
  intros i Hi. destruct (S i Hi) as (st & Ha & Hb).
  eapply teq_disp_trans; [apply teq_disp_sym, teq_teq_disp; exact Ha|exact Hb].
Qed.

(* any flags, unoptimised renderer: the style comes back exactly *)
Theorem roundtrip_to_str_unopt s rs re nid :
  ssorted (tbl s) -> no_esc (base s) = true -> adds_wf (tbl s) ->
  let s' := fst (parse (to_str s false rs re) nid) in
  base s' = base s /\ forall i, i < length (base s) -> teq (style s' i) (style s i).
Proof.
  intros Hs He Hwf s'.
  destruct (tokenize_to_str s false rs re He Hwf) as (_ & Hnum & Hsgr & _).
  destruct (render_unopt_display_bytes s rs re tdefault Hs He Hwf (fun _ => eq_refl)) as (disp & tfin & H1 & H2 & H3 & _).
  destruct (reparse_generic _ s nid disp tfin teq Hnum Hsgr H1 H2 H3) as [B S]. split; [exact B|].
  intros i Hi. destruct (S i Hi) as (st & Ha & Hb).
  eapply teq_trans; [apply teq_sym; exact Ha|exact Hb].
Qed.

(* since F28 (code 10 clears FONT_TYPE) the optimised renderer is exact as well *)
Theorem roundtrip_to_str_opt_exact s rs re nid :
  ssorted (tbl s) -> no_esc (base s) = true -> adds_wf (tbl s) ->
  let s' := fst (parse (to_str s true rs re) nid) in
  base s' = base s /\ forall i, i < length (base s) -> teq (style s' i) (style s i).
Proof.
  intros Hs He Hwf s'.
  destruct (tokenize_to_str s true rs re He Hwf) as (_ & Hnum & Hsgr & _).
  destruct (render_opt_display_bytes_exact s rs re tdefault Hs He Hwf (fun _ => eq_refl)) as (disp & tfin & H1 & H2 & H3 & _).
  destruct (reparse_generic _ s nid disp tfin teq Hnum Hsgr H1 H2 H3) as [B S]. split; [exact B|].
  intros i Hi. destruct (S i Hi) as (st & Ha & Hb).
  eapply teq_trans; [apply teq_sym; exact Ha|exact Hb].
Qed.

Theorem roundtrip_to_str_exact s opt rs re nid :
  ssorted (tbl s) -> no_esc (base s) = true -> adds_wf (tbl s) ->
  let s' := fst (parse (to_str s opt rs re) nid) in
  base s' = base s /\ forall i, i < length (base s) -> teq (style s' i) (style s i).
Proof. destruct opt; [apply roundtrip_to_str_opt_exact|apply roundtrip_to_str_unopt]. Qed.

Theorem roundtrip_style_exact s nid : ssorted (tbl s) -> no_esc (base s) = true -> adds_wf (tbl s) ->
  forall i, i < length (base s) ->
  teq (style_of (map stxt (active_at (tbl (fst (parse (render s) nid))) i)))
      (style_of (map stxt (active_at (tbl s) i))).
Proof. intros Hs He Hwf. exact (proj2 (roundtrip_to_str_exact s true false true nid Hs He Hwf)). Qed.

Theorem roundtrip_to_str s opt rs re nid :
  ssorted (tbl s) -> no_esc (base s) = true -> adds_wf (tbl s) ->
  let s' := fst (parse (to_str s opt rs re) nid) in
  base s' = base s /\ forall i, i < length (base s) -> teq_disp (style s' i) (style s i).
Proof.
  intros Hs He Hwf. destruct opt; [now apply roundtrip_to_str_opt|].
  destruct (roundtrip_to_str_unopt s rs re nid Hs He Hwf) as [B S]. split; [exact B|].
  intros i Hi. apply teq_teq_disp. now apply S.
Qed.

Theorem roundtrip_text s nid : ssorted (tbl s) -> no_esc (base s) = true -> adds_wf (tbl s) ->
  base (fst (parse (render s) nid)) = base s.
Proof. intros Hs He Hwf. exact (proj1 (roundtrip_to_str s true false true nid Hs He Hwf)). Qed.

Theorem roundtrip_style s nid : ssorted (tbl s) -> no_esc (base s) = true -> adds_wf (tbl s) ->
  forall i, i < length (base s) ->
  teq_disp (style_of (map stxt (active_at (tbl (fst (parse (render s) nid))) i)))
           (style_of (map stxt (active_at (tbl s) i))).
Proof. intros Hs He Hwf. exact (proj2 (roundtrip_to_str s true false true nid Hs He Hwf)). Qed.

(* the result of the round trip is a well-formed value with parsable settings only: see section 3 *)

(* non-vacuity: RenderProofs.ex_o ("ABC": bold from 0, italic added at 1, bold off at 2) and ex_f (font) *)
Example roundtrip_ex :
  ssorted (tbl ex_o) /\ no_esc (base ex_o) = true /\ adds_wf (tbl ex_o)
  /\ base (fst (parse (render ex_o) 7)) = base ex_o
  /\ map (fun i => tstate_obs (style (fst (parse (render ex_o) 7)) i)) [0; 1; 2]
     = map (fun i => tstate_obs (style ex_o i)) [0; 1; 2].
Proof.
  destruct ex_o_hyps as (H1 & H2 & H3 & _). repeat split; auto; vm_compute; reflexivity.
Qed.

(* before F28 the optimised renderer's "10" (clear FONT_TYPE) came back as a setting "10" and only teq_disp
   held; now the font is cleared exactly *)
Example roundtrip_font_exact :
  style (fst (parse (render ex_f) 7)) 1 FONT_TYPE = None /\ style ex_f 1 FONT_TYPE = None
  /\ style (fst (parse (render ex_f) 7)) 0 FONT_TYPE = Some [11%N].
Proof. repeat split; vm_compute; reflexivity. Qed.

(* ====================================================================================== *)
(* 3. simplify                                                                               *)
(* ====================================================================================== *)

(* ---------- 3a. every value built by parse has parsable (hence valid) settings only ---------- *)
Definition AP (t : fmts) : Prop := forall k x, In x (active_at t k) -> parsable (stxt x) = true.

Lemma add_active_upto t : ssorted t -> forall k p x act, In (k, p) t -> In x (padd p) -> In x (active_upto t k act).
Proof.
  induction 1 as [|k' p' t Hk Hs IH]; intros k p x act Hin Hx; [destruct Hin|].
  cbn [active_upto]. destruct Hin as [E|Hin].
  - inversion E; subst k' p'. rewrite Nat.leb_refl. rewrite active_upto_all_gt by exact Hk.
    unfold step. apply in_or_app. now right.
  - pose proof (Hk _ Hin) as Hlt. cbn [fst] in Hlt.
    replace (k' <=? k) with true by (symmetry; apply Nat.leb_le; lia). now apply IH with p.
Qed.

Lemma add_active t k p x : ssorted t -> In (k, p) t -> In x (padd p) -> In x (active_at t k).
Proof. intros Hs Hin Hx. unfold active_at. now apply add_active_upto with p. Qed.

Lemma in_all_adds x t : In x (all_adds t) <-> exists k p, In (k, p) t /\ In x (padd p).
Proof.
  unfold all_adds. rewrite in_flat_map. split.
  - intros ([k p] & Hin & Hx). now exists k, p.
  - intros (k & p & Hin & Hx). now exists (k, p).
Qed.

Lemma AP_adds t : ssorted t -> AP t -> adds_parsable t.
Proof. intros Hs H x Hx. apply in_all_adds in Hx as (k & p & Hin & Hx). apply (H k). now apply add_active with p. Qed.

Lemma adds_parsable_tbl t : adds_parsable t -> is_parsable_tbl t = true.
Proof. intros H. unfold is_parsable_tbl. apply forallb_forall. exact H. Qed.

Lemma parsable_valid t : parsable t = true -> valid t = true.
Proof. unfold parsable. intros H. apply andb_true_iff in H as [H _]. now apply andb_true_iff in H as [H _]. Qed.

Lemma adds_parsable_valid_tbl t : adds_parsable t -> is_valid_tbl t = true.
Proof. intros H. unfold is_valid_tbl. apply forallb_forall. intros x Hx. now apply parsable_valid, H. Qed.

Lemma PInv_AP_hi s cur key nid k x : PInv s cur key nid -> key <= k ->
  In x (active_at (tbl s) k) -> parsable (stxt x) = true.
Proof.
  intros (Hwf & _ & (_ & Hok) & Hrep & _) Hk Hx.
  destruct (lt_dec k (length (base s))) as [Hl|Hl].
  - destruct (Hrep k (conj Hk Hl)) as [R1 _]. destruct (R1 x Hx) as (e & i & _ & Hg).
    now destruct (Hok e i _ Hg).
  - destruct Hwf as (Hs & _ & _ & Hkeys & Hfin). rewrite active_beyond in Hx; auto.
    + rewrite Hfin in Hx. destruct Hx.
    + intros kp Hin. specialize (Hkeys kp Hin). lia.
Qed.

Lemma parse_loop_AP text : forall l pos s cur nid,
  PInv s cur pos nid -> base s = text -> AP (tbl s) ->
  AP (tbl (fst (fst (parse_fold text (seqs_flat l pos) (s, cur, nid))))).
Proof.
  induction l as [|[c|q] l IH]; intros pos s cur nid Hinv Hb Hap.
  - exact Hap.
  - cbn [seqs_flat]. apply (IH (S pos) s cur nid); auto. eapply PInv_mono; eauto.
  - cbn [seqs_flat]. rewrite parse_fold_cons. cbn [fst snd].
    destruct (length text <=? pos) eqn:E; [now apply IH|]. apply Nat.leb_gt in E.
    pose proof (parse_step_inv s cur pos (cs_body q) nid Hinv ltac:(now rewrite Hb)) as Hst. cbv zeta in Hst.
    destruct (parse_step s cur pos (cs_body q) nid) as [[s1 cur1] nid1]. cbn [fst snd] in Hst.
    destruct Hst as (Hinv1 & Hn1 & Hb1 & Hlo1).
    apply (IH pos s1 cur1 nid1 Hinv1); [congruence|].
    intros k x Hx. destruct (lt_dec k pos) as [Hl|Hl].
    + rewrite Hlo1 in Hx by exact Hl. now apply (Hap k).
    + apply (PInv_AP_hi s1 cur1 pos nid1 k x Hinv1); [lia|exact Hx].
Qed.

(* whatever the input *)
Theorem parse_adds_parsable w nid : adds_parsable (tbl (fst (parse w nid))).
Proof.
  destruct (parse_wf w nid) as ((Hs & _) & _). apply AP_adds; [exact Hs|].
  rewrite parse_eq. cbv zeta. cbn [fst].
  apply (parse_loop_AP _ _ 0 _ [] nid (PInv_init _ _) eq_refl). intros k x [].
Qed.

Theorem parse_parsable w nid :
  is_parsable_tbl (tbl (fst (parse w nid))) = true /\ is_valid_tbl (tbl (fst (parse w nid))) = true.
Proof. split; [apply adds_parsable_tbl|apply adds_parsable_valid_tbl]; apply parse_adds_parsable. Qed.

(* ---------- 3b. dropping the invalid settings ---------- *)
Definition validS (x : setting) : bool := valid (stxt x).
Definition drop_pt (p : point) : point := mkP (filter validS (padd p)) (filter validS (prem p)).

Lemma drop_invalid_cons k p t : drop_invalid ((k, p) :: t) = (k, drop_pt p) :: drop_invalid t.
Proof. reflexivity. Qed.

Lemma drop_invalid_sorted t : ssorted t -> ssorted (drop_invalid t).
Proof.
  induction 1 as [|k p t Hk Hs IH]; [constructor|]. rewrite drop_invalid_cons. constructor; [|exact IH].
  intros kp Hin. unfold drop_invalid in Hin. apply in_map_iff in Hin as (kp' & <- & Hin'). cbn [fst]. now apply Hk.
Qed.

Lemma drop_invalid_adds x t : In x (all_adds (drop_invalid t)) <-> In x (all_adds t) /\ valid (stxt x) = true.
Proof.
  induction t as [|[k p] t IH]; [cbn; tauto|]. rewrite drop_invalid_cons. unfold all_adds in *.
  cbn [flat_map snd padd drop_pt]. rewrite !in_app_iff, IH, filter_In. unfold validS. tauto.
Qed.

(* identity determines text (true of Python objects: sid models `is`) *)
Definition all_marks (t : fmts) : list setting := flat_map (fun kp => padd (snd kp) ++ prem (snd kp)) t.
Definition cohL (L : list setting) : Prop := forall x y, In x L -> In y L -> sid x = sid y -> stxt x = stxt y.
Definition coh_marks (t : fmts) : Prop := cohL (all_marks t).

Lemma cohL_incl L L' : incl L' L -> cohL L -> cohL L'.
Proof. intros Hi H x y Hx Hy. apply H; now apply Hi. Qed.

Lemma filter_remove_ref r : forall act, (forall y, In y act -> sid r = sid y -> validS y = validS r) ->
  filter validS (remove_ref r act) = if validS r then remove_ref r (filter validS act) else filter validS act.
Proof.
  induction act as [|y l IH]; intros Hc. { cbn. now destruct (validS r). }
  assert (IH' := IH (fun z Hz => Hc z (or_intror Hz))). clear IH.
  cbn [remove_ref]. unfold same_ref. destruct (Nat.eqb_spec (sid r) (sid y)) as [E|E].
  - rewrite <- (Hc y (or_introl eq_refl) E). cbn [filter]. destruct (validS y) eqn:Ey; [|reflexivity].
    cbn [remove_ref]. unfold same_ref. apply Nat.eqb_eq in E. now rewrite E.
  - cbn [filter]. rewrite IH'. destruct (validS y) eqn:Ey; destruct (validS r) eqn:Er; try reflexivity.
    cbn [remove_ref]. unfold same_ref. apply Nat.eqb_neq in E. now rewrite E.
Qed.

Lemma filter_rmall : forall rems act, cohL (act ++ rems) ->
  filter validS (fold_left (fun a s => remove_ref s a) rems act)
  = fold_left (fun a s => remove_ref s a) (filter validS rems) (filter validS act).
Proof.
  induction rems as [|r rems IH]; intros act Hc; [reflexivity|]. cbn [fold_left filter].
  assert (Hr : filter validS (remove_ref r act)
               = if validS r then remove_ref r (filter validS act) else filter validS act).
  { apply filter_remove_ref. intros y Hy E. unfold validS. f_equal. symmetry. apply Hc; auto.
    - apply in_or_app. right. now left.
    - apply in_or_app. now left. }
  rewrite IH.
  - rewrite Hr. destruct (validS r); reflexivity.
  - eapply cohL_incl; [|exact Hc]. intros z Hz. apply in_app_or in Hz as [Hz|Hz]; apply in_or_app.
    + left. eapply in_remove_ref; eauto.
    + right. now right.
Qed.

Lemma filter_step act p : cohL (act ++ prem p) -> filter validS (step act p) = step (filter validS act) (drop_pt p).
Proof. intros Hc. unfold step. rewrite filter_app, filter_rmall by exact Hc. reflexivity. Qed.

Lemma drop_invalid_upto i : forall t act, cohL (act ++ all_marks t) ->
  active_upto (drop_invalid t) i (filter validS act) = filter validS (active_upto t i act).
Proof.
  induction t as [|[k p] t IH]; intros act Hc; [reflexivity|]. rewrite drop_invalid_cons. cbn [active_upto].
  destruct (k <=? i); [|reflexivity]. unfold all_marks in Hc. cbn [flat_map snd] in Hc. fold (all_marks t) in Hc.
  rewrite <- filter_step.
  - apply IH. eapply cohL_incl; [|exact Hc]. intros z Hz. rewrite !in_app_iff in *.
    destruct Hz as [Hz|Hz]; [|tauto]. apply in_step in Hz. tauto.
  - eapply cohL_incl; [|exact Hc]. intros z Hz. rewrite !in_app_iff in *. tauto.
Qed.

Theorem drop_invalid_active t i : coh_marks t ->
  active_at (drop_invalid t) i = filter validS (active_at t i).
Proof. intros Hc. unfold active_at. now apply (drop_invalid_upto i t []). Qed.

(* coherence is needed: a stop marker that shares the identity but not the (in)validity of the
   setting it stops survives or vanishes independently of it *)
Example drop_invalid_needs_coherence :
  let t := [(0, mkP [mkS 1 [49]%N] []); (1, mkP [] [mkS 1 [65]%N])] in
  strict_ok t = true /\ active_at (drop_invalid t) 1 = [mkS 1 [49]%N] /\ filter validS (active_at t 1) = [].
Proof. repeat split. Qed.

(* ---------- 3c. simplify ---------- *)
Definition valid_adds_wf (t : fmts) : Prop :=
  forall x, In x (all_adds t) -> valid (stxt x) = true -> wf_setting (stxt x) = true.
(* the style of the valid settings alone *)
Definition style_valid (s : astr) (i : nat) : tstate :=
  style_of (map stxt (filter validS (active_at (tbl s) i))).

Lemma drop_invalid_wf t : valid_adds_wf t -> adds_wf (drop_invalid t).
Proof. intros H x Hx. apply drop_invalid_adds in Hx as [Hx Hv]. now apply H. Qed.

Theorem simplify_spec s nid :
  ssorted (tbl s) -> no_esc (base s) = true -> valid_adds_wf (tbl s) ->
  let s' := fst (simplify s nid) in
  base s' = base s
  /\ (forall i, i < length (base s) ->
        teq_disp (style s' i) (style_of (map stxt (active_at (drop_invalid (tbl s)) i))))
  /\ (coh_marks (tbl s) -> forall i, i < length (base s) -> teq_disp (style s' i) (style_valid s i))
  /\ is_parsable_tbl (tbl s') = true /\ is_valid_tbl (tbl s') = true
  /\ rm_wf s' /\ nid <= snd (simplify s nid).
Proof.
  intros Hs He Hwf s'. unfold s'. rewrite simplify_def.
  set (s0 := mkA (base s) (drop_invalid (tbl s))).
  assert (H0 : ssorted (tbl s0)) by (apply drop_invalid_sorted; exact Hs).
  assert (H1 : adds_wf (tbl s0)) by (apply drop_invalid_wf; exact Hwf).
  destruct (roundtrip_to_str s0 true false true nid H0 He H1) as [B S]. fold (render s0) in B, S.
  cbn [base] in B, S. split; [exact B|]. split; [exact S|]. split.
  - intros Hc i Hi. unfold style_valid. rewrite <- drop_invalid_active by exact Hc. now apply S.
  - destruct (parse_parsable (render s0) nid) as [P V]. destruct (parse_wf (render s0) nid) as (W & N & _). auto.
Qed.

Theorem simplify_spec_exact s nid :
  ssorted (tbl s) -> no_esc (base s) = true -> valid_adds_wf (tbl s) ->
  let s' := fst (simplify s nid) in
  (forall i, i < length (base s) ->
        teq (style s' i) (style_of (map stxt (active_at (drop_invalid (tbl s)) i))))
  /\ (coh_marks (tbl s) -> forall i, i < length (base s) -> teq (style s' i) (style_valid s i)).
Proof.
  intros Hs He Hwf s'. unfold s'. rewrite simplify_def.
  set (s0 := mkA (base s) (drop_invalid (tbl s))).
  assert (H0 : ssorted (tbl s0)) by (apply drop_invalid_sorted; exact Hs).
  assert (H1 : adds_wf (tbl s0)) by (apply drop_invalid_wf; exact Hwf).
  destruct (roundtrip_to_str_exact s0 true false true nid H0 He H1) as [B S]. fold (render s0) in B, S.
  cbn [base] in B, S. split; [exact S|].
  intros Hc i Hi. unfold style_valid. rewrite <- drop_invalid_active by exact Hc. now apply S.
Qed.

(* a value with one valid and one invalid ("1A") setting; the stop markers share the identities *)
Definition ex_inv : astr :=
  mkA [65; 66; 67]%N
      [(0, mkP [mkS 1 [49]%N; mkS 2 [49; 65]%N] []);
       (1, mkP [mkS 3 [51; 56; 59; 53; 59; 49]%N] [mkS 2 [49; 65]%N]);
       (2, mkP [] [mkS 1 [49]%N]);
       (3, mkP [] [mkS 3 [51; 56; 59; 53; 59; 49]%N])].

Lemma cohL_check L : forallb (fun x => forallb (fun y => negb (Nat.eqb (sid x) (sid y)) || str_eqb (stxt x) (stxt y)) L) L = true
  -> cohL L.
Proof.
  intros H x y Hx Hy E. rewrite forallb_forall in H. specialize (H x Hx). rewrite forallb_forall in H.
  specialize (H y Hy). apply Nat.eqb_eq in E. rewrite E in H. cbn [negb orb] in H. now apply str_eqb_eq.
Qed.

Lemma ssorted_check t : (fix sortedb (l : list nat) : bool :=
                           match l with a :: ((b :: _) as r) => (a <? b) && sortedb r | _ => true end) (map fst t) = true
  -> ssorted t.
Proof.
  induction t as [|[k p] t IH]; intros H; [constructor|]. cbn [map fst] in H.
  destruct t as [|[k2 p2] t2]; [constructor; [intros kp []|constructor]|].
  cbn [map fst] in H. apply andb_true_iff in H as [H1 H2]. apply Nat.ltb_lt in H1.
  specialize (IH H2). constructor; [|exact IH].
  intros kp [<-|Hin]; [exact H1|]. inversion IH as [|? ? ? Hk _]; subst. specialize (Hk kp Hin). cbn [fst]. lia.
Qed.

Example simplify_ex :
  ssorted (tbl ex_inv) /\ no_esc (base ex_inv) = true /\ valid_adds_wf (tbl ex_inv) /\ coh_marks (tbl ex_inv)
  /\ is_valid_tbl (tbl ex_inv) = false
  /\ tbl (fst (simplify ex_inv 10))
     = [(0, mkP [mkS 11 [49]%N] []);
        (1, mkP [mkS 13 [51; 56; 59; 53; 59; 49]%N] []);
        (2, mkP [] [mkS 11 [49]%N]);
        (3, mkP [] [mkS 13 [51; 56; 59; 53; 59; 49]%N])]
  /\ map (fun i => tstate_obs (style (fst (simplify ex_inv 10)) i)) [0; 1; 2]
     = map (fun i => tstate_obs (style_valid ex_inv i)) [0; 1; 2].
Proof.
  split; [apply ssorted_check; reflexivity|]. split; [reflexivity|]. split.
  { intros x H Hv. cbn in H.
    repeat (destruct H as [<-|H]; [first [reflexivity | (exfalso; vm_compute in Hv; discriminate)]|]). destruct H. }
  split; [apply cohL_check; vm_compute; reflexivity|].
  split; [vm_compute; reflexivity|]. split; vm_compute; reflexivity.
Qed.

(* ====================================================================================== *)
(* 4. Stability                                                                              *)
(* ====================================================================================== *)
(* 4a. REGRESSION (finding F28).  Before F28 the clear code of FONT_TYPE (10) was itself a code that SET
   FONT_TYPE, and the stability clauses of C03 were false, in the model and in the Python code:
     s = AnsiString("AB"); s.apply_formatting("[11", 0, 1); s.apply_formatting("[1", 0, 1)
     s.apply_formatting("[3;4;9", 0, 2); s.simplify()
     str(s)                        was  ESC[11;1;3;4;9m A ESC[10;22m B ESC[m
     str(AnsiString(str(s)))       was  ESC[11;1;3;4;9m A ESC[22;10m B ESC[m      (not a fixed point)
     s.simplify(); str(s)          was  ESC[11;1;3;4;9m A ESC[22;10m B ESC[m      (not idempotent)
   (the table is not parsable - "3;4;9" is one setting of three groups - so the first rendering is
   unoptimised and drops font and bold by a reset; the simplified value has no font on "B"; its
   optimised rendering cleared the font with "10", which parsed back as a SETTING "10" appended after
   the others, and the next rendering listed the codes in a different order).
   With 10 = CLEAR of FONT_TYPE the three strings agree: *)
Definition ex_unstable : astr :=
  mkA [65; 66]%N
      [(0, mkP [mkS 1 [49; 49]%N; mkS 2 [49]%N; mkS 3 [51; 59; 52; 59; 57]%N] []);
       (1, mkP [] [mkS 1 [49; 49]%N; mkS 2 [49]%N]);
       (2, mkP [] [mkS 3 [51; 59; 52; 59; 57]%N])].

Example simplify_stable_regression :
  ssorted (tbl ex_unstable) /\ no_esc (base ex_unstable) = true /\ adds_wf (tbl ex_unstable)
  /\ coh_marks (tbl ex_unstable) /\ is_valid_tbl (tbl ex_unstable) = true /\ strict_ok (tbl ex_unstable) = true
  /\ is_parsable_tbl (tbl ex_unstable) = false
  /\ let s1 := fst (simplify ex_unstable 10) in
     render s1 = ESC :: LBR :: [49;49;59;49;59;51;59;52;59;57;109; 65]%N ++ ESC :: LBR :: [49;48;59;50;50;109; 66]%N ++ [ESC; LBR; CH_m]
     /\ render (fst (parse (render s1) 30)) = render s1
     /\ render (fst (simplify s1 30)) = render s1.
Proof.
  split; [apply ssorted_check; reflexivity|]. split; [reflexivity|]. split.
  { intros x H. cbn in H. repeat (destruct H as [<-|H]; [reflexivity|]). destruct H. }
  split; [apply cohL_check; vm_compute; reflexivity|]. split; [reflexivity|]. split; [reflexivity|].
  split; [reflexivity|].
  cbv zeta. split; [vm_compute; reflexivity|]. split; vm_compute; reflexivity.
Qed.

(* 4b. OUTLINE of the proof of the stability clauses (carried out in 4c).
   Write A_c(k) := map stxt (active_at (tbl c) k) for the list of active texts at position k, A_c(-1) := [].
   Canonical form of a value c (what `parse` produces from a rendering):
     (K1) rm_wf c, and every add text is parsable;
     (K2) every A_c(k) is a list of normal-form texts `textN g` of parsable groups that SET an effect
          (tk t = KSet e), with pairwise different effects (one setting per effect: ParseProofs.Rep);
     (K3) for every k < length (base c):  A_c(k) = filter (fun t => mem t (A_c(k))) (A_c(k-1))
                                                   ++ filter (fun t => negb (mem t (A_c(k-1)))) (A_c(k)),
          i.e. the kept settings keep their relative order and the new ones are appended.
          (K3) holds for parse w when w has at most one sequence per text position - renderings do.
   Steps:
     (R)  for canonical c, to_str c true false true = prender (base c) A_c, a function of the base and of the
          lists A_c(k) only: at position k it emits nothing if A_c(k) = A_c(k-1), else ESC [ em m where
          em = the shorter of join (clears of the effects that disappear ++ new texts) and
          join ("0" :: A_c(k)); the choice does not depend on whether the point has stop markers,
          because under strict_ok a point without stop markers only appends and a point with stop
          markers has a non-empty predecessor list.
     (S)  exact form of one parse step on the active lists:
          A_new(k) = filter (fun t => negb (mem t to_rem)) (A_old(k)) ++ to_app   for key <= k < len
          (from ParseProofs.step_remove / step_apply with no_mid).
     (C)  if A_old = L and the body is em(L, L') with (K2),(K3) for (L, L'), then A_new = L'
          (pgs_str on a join of normal-form groups returns the groups; s2d on them; Rep_step).
          This is where the clear code must re-parse as a clear: with 10 = CSet FONT_TYPE it failed (F28).
     Hence A_{parse (render c)} = A_c pointwise, parse (render c) is canonical, and by (R) it renders as c.
     Idempotence of simplify follows: drop_invalid is the identity on a table whose markers are valid. *)

(* 4c. The proof. *)
(* ---------- canonical lists of setting texts ---------- *)
Definition eff0 (t : str) : effect := match tk t with KSet e => e | _ => BOLDNESS end.
Definition canonL (L : list str) : Prop :=
  NoDup (map eff0 L) /\ forall t, In t L -> parsable t = true /\ tk t = KSet (eff0 t).
Definition dl (L : list str) : sdict := map (fun t => (eff0 t, t)) L.
Definition mem (t : str) (L : list str) : bool := existsb (str_eqb t) L.

Lemma mem_In t L : mem t L = true <-> In t L.
Proof.
  unfold mem. rewrite existsb_exists. split.
  - intros (x & Hx & E). apply str_eqb_eq in E. now subst.
  - intros H. exists t. split; auto. apply str_eqb_refl.
Qed.
Lemma mem_false t L : mem t L = false <-> ~ In t L.
Proof. rewrite <- mem_In. destruct (mem t L); split; intros; try congruence; tauto. Qed.

Lemma canonL_nil : canonL [].
Proof. split; [constructor|intros t []]. Qed.

Lemma canonL_tail t L : canonL (t :: L) -> canonL L.
Proof. intros [H1 H2]. inversion H1; subst. split; auto. intros x Hx. apply H2. now right. Qed.

Lemma canonL_texts_nodup L : canonL L -> NoDup L.
Proof. intros [H _]. eapply NoDup_map_inv; eauto. Qed.

Lemma canonL_eff_inj L a b : canonL L -> In a L -> In b L -> eff0 a = eff0 b -> a = b.
Proof.
  intros [Hnd _]. induction L as [|x L IH]; intros Ha Hb E; [destruct Ha|].
  cbn [map] in Hnd. inversion Hnd as [|? ? Hn Hd]; subst.
  destruct Ha as [->|Ha], Hb as [->|Hb]; auto.
  - exfalso. apply Hn. rewrite E. now apply in_map.
  - exfalso. apply Hn. rewrite <- E. now apply in_map.
Qed.

Lemma dl_keys L : map fst (dl L) = map eff0 L.
Proof. unfold dl. rewrite map_map. reflexivity. Qed.

Lemma dl_nodupk L : canonL L -> nodupk (dl L).
Proof. intros [H _]. unfold nodupk. now rewrite dl_keys. Qed.

Lemma dget_dl_in L t : canonL L -> In t L -> dget (dl L) (eff0 t) = Some t.
Proof. intros Hc Hin. apply in_dget; [now apply dl_nodupk|]. unfold dl. apply in_map_iff. now exists t. Qed.

Lemma dget_dl_some L e t : dget (dl L) e = Some t -> In t L /\ eff0 t = e.
Proof. intros H. apply dget_in in H. unfold dl in H. apply in_map_iff in H as (x & E & Hx). inversion E; subst. auto. Qed.

Lemma dget_dl_none L e : dget (dl L) e = None -> forall t, In t L -> eff0 t <> e.
Proof.
  induction L as [|x L IH]; intros H t Hin; [destruct Hin|]. cbn [dl map dget] in H.
  destruct (effect_beq (eff0 x) e) eqn:E; [discriminate|]. destruct Hin as [->|Hin]; [|now apply IH].
  intros E'. rewrite E', effect_beq_refl in E. discriminate.
Qed.

(* settings_to_dict of a canonical list is the list itself, keyed by effect *)
Lemma dset_fresh {V} (d : dict V) e v : ~ In e (map fst d) -> dset d e v = d ++ [(e, v)].
Proof.
  induction d as [|[e' v'] r IH]; intros H; [reflexivity|]. cbn [dset app map fst In] in *.
  destruct (effect_beq e e') eqn:E.
  - apply effect_beq_eq in E. subst. tauto.
  - rewrite IH by tauto. reflexivity.
Qed.

Lemma s2d_canon_gen L : forall d, NoDup (map fst d ++ map eff0 L) ->
  (forall t, In t L -> tk t = KSet (eff0 t)) ->
  s2d (fun x : str => x) L d = d ++ dl L.
Proof.
  induction L as [|t L IH]; intros d Hnd Hk; [cbn; now rewrite app_nil_r|].
  change (s2d (fun x : str => x) (t :: L) d) with (s2d (fun x : str => x) L (s2d_step (fun x : str => x) d t)).
  rewrite s2d_step_tk, (Hk t (or_introl eq_refl)).
  assert (Hfresh : ~ In (eff0 t) (map fst d)).
  { intros Hin. cbn [map] in Hnd. apply NoDup_remove_2 in Hnd. apply Hnd. apply in_or_app. now left. }
  rewrite dset_fresh by exact Hfresh. rewrite IH.
  - rewrite <- app_assoc. reflexivity.
  - rewrite map_app. cbn [map fst app]. rewrite <- app_assoc. cbn [app]. cbn [map] in Hnd. exact Hnd.
  - intros x Hx. apply Hk. now right.
Qed.

Lemma s2d_canon L : canonL L -> s2d (fun x : str => x) L [] = dl L.
Proof. intros [H1 H2]. apply (s2d_canon_gen L []); [exact H1|]. intros t Ht. now apply H2. Qed.

(* ---------- the optimiser's difference on canonical lists ---------- *)
Definition clears (Lp Ln : list str) : list str :=
  flat_map (fun t => match dget (dl Ln) (eff0 t) with
                     | Some _ => []
                     | None => match clear_code (eff0 t) with Some c => [decN c] | None => [] end end) Lp.
Definition news (Lp Ln : list str) : list str := filter (fun t => negb (mem t Lp)) Ln.
Definition dcodes (Lp Ln : list str) : list str := clears Lp Ln ++ news Lp Ln.

Lemma flat_map_map {A B C} (f : B -> list C) (g : A -> B) l : flat_map f (map g l) = flat_map (fun x => f (g x)) l.
Proof. induction l as [|a l IH]; [reflexivity|]. cbn [map flat_map]. now rewrite IH. Qed.

Lemma flat_map_filter {A} (f : A -> list A) (p : A -> bool) l :
  (forall x, In x l -> f x = if p x then [x] else []) -> flat_map f l = filter p l.
Proof.
  induction l as [|a l IH]; intros H; [reflexivity|]. cbn [flat_map filter].
  rewrite (H a (or_introl eq_refl)), IH by (intros; apply H; now right). now destruct (p a).
Qed.

Lemma diff_codes_dl Lp Ln : canonL Lp -> canonL Ln -> diff_codes (dl Lp) (dl Ln) = dcodes Lp Ln.
Proof.
  intros Hp Hn. unfold diff_codes, dcodes. f_equal.
  - unfold dl at 2. rewrite flat_map_map. reflexivity.
  - unfold dl at 2. rewrite flat_map_map. cbn [fst snd]. apply flat_map_filter. intros t Ht.
    destruct (dget (dl Lp) (eff0 t)) as [v|] eqn:E.
    + destruct (dget_dl_some _ _ _ E) as [Hv Ev]. destruct (str_eqb v t) eqn:Es.
      * apply str_eqb_eq in Es. subst v. assert (M : mem t Lp = true) by now apply mem_In. now rewrite M.
      * assert (M : mem t Lp = false).
        { apply mem_false. intros Hin. rewrite (dget_dl_in Lp t Hp Hin) in E. inversion E; subst.
          rewrite str_eqb_refl in Es. discriminate. }
        now rewrite M.
    + assert (M : mem t Lp = false).
      { apply mem_false. intros Hin. exact (dget_dl_none _ _ E t Hin eq_refl). }
      now rewrite M.
Qed.

(* ---------- what one change point emits ---------- *)
Definition jn (l : list str) : str := join [SEMI] l.
Definition em (pn : bool) (Lp Ln : list str) : option str :=
  let opt := jn (dcodes Lp Ln) in
  let codes := jn (if pn && negb (is_nil Ln) then [CH_0] :: Ln else Ln) in
  if is_nil opt then None else Some (if length opt <? length codes then opt else codes).
Definition emc (Lp Ln : list str) : option str := em (negb (is_nil Lp)) Lp Ln.
Definition emit (o : option str) : str := match o with Some b => ESC :: LBR :: b ++ [CH_m] | None => [] end.

Lemma jn_cons x L : L <> [] -> jn (x :: L) = x ++ SEMI :: jn L.
Proof. destruct L; [congruence|reflexivity]. Qed.

Lemma jn_app_longer Lp A : Lp <> [] -> A <> [] -> length (jn A) < length (jn (Lp ++ A)).
Proof.
  induction Lp as [|x Lp IH]; intros H HA; [congruence|]. cbn [app].
  rewrite jn_cons by (destruct Lp; [exact HA|discriminate]). rewrite app_length. cbn [length].
  destruct Lp as [|y Lp]; [cbn [app]; lia|]. specialize (IH ltac:(discriminate) HA). lia.
Qed.

Lemma nodup_app_l {A} (a b : list A) : NoDup (a ++ b) -> NoDup a.
Proof.
  induction a as [|x a IH]; intros H; [constructor|]. cbn [app] in H. inversion H; subst.
  constructor; [|now apply IH]. intros Hin. apply H2. apply in_or_app. now left.
Qed.

Lemma canonL_app_l a b : canonL (a ++ b) -> canonL a.
Proof.
  intros [H1 H2]. split.
  - rewrite map_app in H1. eapply nodup_app_l; eauto.
  - intros t Ht. apply H2. apply in_or_app. now left.
Qed.

Lemma dcodes_append Lp A : canonL (Lp ++ A) -> dcodes Lp (Lp ++ A) = A.
Proof.
  intros Hc. pose proof (canonL_texts_nodup _ Hc) as Hnd. unfold dcodes.
  assert (Hcl : clears Lp (Lp ++ A) = []).
  { unfold clears. rewrite (flat_map_filter _ (fun _ => false)).
    - now apply filter_none.
    - intros t Ht. now rewrite (dget_dl_in (Lp ++ A) t Hc) by (apply in_or_app; now left). }
  rewrite Hcl. cbn [app]. unfold news. rewrite filter_app.
  rewrite filter_none by (intros t Ht; apply negb_false_iff; now apply mem_In).
  cbn [app]. apply filter_all. intros t Ht. apply negb_true_iff, mem_false. intros Hin.
  clear -Hnd Ht Hin. induction Lp as [|x Lp IH]; [destruct Hin|]. cbn [app] in Hnd. inversion Hnd; subst.
  destruct Hin as [->|Hin]; [|now apply IH]. apply H1. apply in_or_app. now right.
Qed.

Lemma em_indep Lp A : canonL (Lp ++ A) -> Lp <> [] -> em false Lp (Lp ++ A) = em true Lp (Lp ++ A).
Proof.
  intros Hc Hne. unfold em. cbv zeta. rewrite dcodes_append by exact Hc.
  destruct A as [|a A]; [reflexivity|].
  destruct (is_nil (jn (a :: A))); [reflexivity|]. f_equal.
  assert (Hn : is_nil (Lp ++ a :: A) = false) by (destruct Lp; [congruence|reflexivity]).
  rewrite Hn. cbn [andb negb].
  pose proof (jn_app_longer Lp (a :: A) Hne ltac:(discriminate)) as Hl.
  assert (Hl2 : length (jn (Lp ++ a :: A)) < length (jn ([CH_0] :: Lp ++ a :: A))).
  { rewrite jn_cons by (destruct Lp; discriminate). rewrite app_length. cbn [length]. lia. }
  replace (length (jn (a :: A)) <? length (jn (Lp ++ a :: A))) with true by (symmetry; apply Nat.ltb_lt; lia).
  replace (length (jn (a :: A)) <? length (jn ([CH_0] :: Lp ++ a :: A))) with true by (symmetry; apply Nat.ltb_lt; lia).
  reflexivity.
Qed.

Lemma em_emc pn Lp Ln : canonL Ln -> (pn = false -> exists A, Ln = Lp ++ A) -> (pn = true -> Lp <> []) ->
  em pn Lp Ln = emc Lp Ln.
Proof.
  intros Hc H0 H1. unfold emc. destruct pn, Lp as [|x Lp]; cbn [is_nil negb]; auto.
  - exfalso. now apply H1.
  - destruct (H0 eq_refl) as (A & ->). apply em_indep; [exact Hc|discriminate].
Qed.

(* the optimised renderer at one point, in these terms *)
Lemma opt_pick_em Lp p cur : canonL Lp -> canonL (map stxt cur) ->
  let Ln := map stxt cur in
  let ac := opt_pick (dl Lp) (dl Ln) (pt_codes p cur) in
  bytes_of (if fst ac then [OSgr (snd ac)] else []) = emit (em (negb (is_nil (prem p))) Lp Ln).
Proof.
  intros Hp Hn Ln ac. unfold ac, opt_pick, em, pt_codes. cbv zeta. fold Ln.
  rewrite diff_codes_dl by assumption. fold (jn (dcodes Lp Ln)).
  fold (jn (if negb (is_nil (prem p)) && negb (is_nil Ln) then [CH_0] :: Ln else Ln)).
  destruct (is_nil (jn (dcodes Lp Ln))); [reflexivity|].
  destruct (_ <? _); cbn [fst snd bytes_of flat_map bytes_of_tok emit]; now rewrite app_nil_r.
Qed.

(* ---------- the rendering as a function of the base text and the active texts per position ---------- *)
Fixpoint prender (s : str) (k : nat) (Lp : list str) (A : nat -> list str) : str :=
  match s with
  | [] => if is_nil Lp then [] else [ESC; LBR; CH_m]
  | ch :: s' => emit (emc Lp (A k)) ++ ch :: prender s' (S k) (A k) A
  end.

Lemma emc_same L : canonL L -> emc L L = None.
Proof.
  intros Hc. unfold emc, em. cbv zeta.
  pose proof (dcodes_append L [] ltac:(now rewrite app_nil_r)) as H. rewrite app_nil_r in H. rewrite H. reflexivity.
Qed.

Lemma skipn_S_nth (s : str) a : a < length s -> exists ch, skipn a s = ch :: skipn (S a) s.
Proof.
  revert a. induction s as [|x s IH]; intros a Ha; [cbn in Ha; lia|].
  destruct a as [|a]; [now exists x|]. cbn [length] in Ha. destruct (IH a ltac:(lia)) as (ch & E).
  exists ch. exact E.
Qed.

Lemma slice_S (s : str) a ch : skipn a s = ch :: skipn (S a) s -> str_slice s a (S a) = [ch].
Proof. intros E. unfold str_slice. rewrite E. replace (S a - a) with 1 by lia. reflexivity. Qed.

Lemma firstn_add {A} m n : forall (l : list A), firstn (m + n) l = firstn m l ++ firstn n (skipn m l).
Proof.
  induction m as [|m IH]; intros l; [reflexivity|]. destruct l as [|x l].
  - cbn [plus firstn skipn app]. now rewrite firstn_nil.
  - cbn [plus firstn skipn app]. now rewrite IH.
Qed.
Lemma skipn_add {A} a m : forall (l : list A), skipn m (skipn a l) = skipn (a + m) l.
Proof.
  induction a as [|a IH]; intros l; [reflexivity|]. destruct l as [|x l]; [now rewrite !skipn_nil|].
  cbn [plus skipn]. apply IH.
Qed.
Lemma slice_cat (s : str) a b c : a <= b -> b <= c -> str_slice s a b ++ str_slice s b c = str_slice s a c.
Proof.
  intros Hab Hbc. unfold str_slice. replace (c - a) with ((b - a) + (c - b)) by lia.
  rewrite firstn_add, skipn_add. replace (a + (b - a)) with b by lia. reflexivity.
Qed.
Lemma slice_to_end (s : str) a : str_slice s a (length s) = skipn a s.
Proof. unfold str_slice. apply firstn_all2. rewrite skipn_length. lia. Qed.
Lemma slice_empty (s : str) a : str_slice s a a = [].
Proof. unfold str_slice. now rewrite Nat.sub_diag. Qed.

Section Render.
Variable s : str.
Variable A : nat -> list str.
Hypothesis HA : forall k, canonL (A k).

Definition P (a : nat) (L : list str) : str := prender (skipn a s) a L A.

Lemma P_step a L : a < length s -> P a L = emit (emc L (A a)) ++ str_slice s a (S a) ++ P (S a) (A a).
Proof.
  intros Ha. unfold P. destruct (skipn_S_nth s a Ha) as (ch & E). rewrite (slice_S s a ch E), E. reflexivity.
Qed.

Lemma P_end a L : length s <= a -> P a L = if is_nil L then [] else [ESC; LBR; CH_m].
Proof. intros Ha. unfold P. rewrite skipn_all2 by exact Ha. reflexivity. Qed.

(* no change, no output *)
Lemma P_const L : canonL L -> forall n a b, b - a <= n -> a <= b -> b <= length s ->
  (forall j, a <= j < b -> A j = L) -> P a L = str_slice s a b ++ P b L.
Proof.
  intros Hc. induction n as [|n IH]; intros a b Hn Hab Hb Hj.
  - assert (a = b) by lia. subst. now rewrite slice_empty.
  - destruct (Nat.eq_dec a b) as [->|Hne]; [now rewrite slice_empty|].
    rewrite P_step by lia. rewrite (Hj a) by lia. rewrite (emc_same L Hc). cbn [emit app].
    rewrite (IH (S a) b) by (try lia; intros; apply Hj; lia).
    rewrite app_assoc, slice_cat by lia. reflexivity.
Qed.
End Render.

Definition RESET : str := [ESC; LBR; CH_m].

Section RenderLoop.
Variable s : str.
Variable tb : fmts.
Hypothesis Hs : ssorted tb.
Hypothesis Hstrict : strict_ok tb = true.
Let A (k : nat) : list str := map stxt (active_at tb k).
Hypothesis HA : forall k, canonL (A k).

Let Pp := P s A.

Definition Lc (done : fmts) : list str := map stxt (trun [] done).

Definition Iv (done : fmts) (st : rstate) : Prop :=
  r_dict st = dl (Lc done) /\ r_exist st = negb (is_nil (Lc done))
  /\ ((done = [] /\ r_first st = true /\ r_last st = 0 /\ r_out st = [])
      \/ (r_first st = false /\ r_last st < length s /\ exists d0 p0, done = d0 ++ [(r_last st, p0)])).

Definition Q (done : fmts) (st : rstate) : str :=
  if r_first st then Pp 0 [] else str_slice s (r_last st) (S (r_last st)) ++ Pp (S (r_last st)) (Lc done).

Lemma A_between done rest j : tb = done ++ rest ->
  (forall kp, In kp done -> fst kp <= j) -> (forall kp, In kp rest -> j < fst kp) -> A j = Lc done.
Proof. intros E H1 H2. unfold A, Lc. rewrite E. rewrite active_at_between; auto. now rewrite <- E. Qed.

Lemma done_keys d0 k0 p0 rest kp : tb = (d0 ++ [(k0, p0)]) ++ rest -> In kp (d0 ++ [(k0, p0)]) -> fst kp <= k0.
Proof.
  intros E Hin. apply in_app_or in Hin as [Hin|[<-|[]]]; [|cbn; lia].
  rewrite E, <- app_assoc in Hs. pose proof (ssorted_app_lt d0 _ Hs kp (k0, p0) Hin (or_introl eq_refl)). cbn [fst] in *. lia.
Qed.

Lemma canon_Lc done rest : tb = done ++ rest -> canonL (Lc done).
Proof.
  intros E. destruct rest as [|[k p] rest'].
  - (* beyond all keys *)
    set (j := S (fold_right (fun kp m => Nat.max (fst kp) m) 0 done)).
    rewrite <- (A_between done [] j E); [apply HA| |intros kp []].
    intros kp Hin. unfold j. clear -Hin. induction done as [|x d IH]; [destruct Hin|].
    cbn [fold_right]. destruct Hin as [<-|Hin]; [lia|]. specialize (IH Hin). lia.
  - destruct done as [|x d] using rev_ind; [apply canonL_nil|]. clear IHd. destruct x as [k0 p0].
    rewrite <- (A_between (d ++ [(k0, p0)]) ((k, p) :: rest') k0 E); [apply HA| |].
    + intros kp Hin. eapply done_keys; eauto.
    + intros kp Hin. rewrite E in Hs. 
      pose proof (ssorted_app_lt _ _ Hs (k0, p0) kp ltac:(apply in_or_app; right; now left) Hin). exact H.
Qed.

(* from the current state to the next change point (or to the end) only text is produced *)
Lemma Q_to done rest st k : tb = done ++ rest -> Iv done st -> k <= length s ->
  (forall kp, In kp rest -> k <= fst kp) -> (forall kp, In kp done -> fst kp < k) ->
  Q done st = str_slice s (r_last st) k ++ Pp k (Lc done).
Proof.
  intros E (Hd & He & Hcase) Hk Hrest Hdone. unfold Q, Pp.
  pose proof (canon_Lc done rest E) as Hc.
  destruct Hcase as [(-> & Hf & Hl & Ho)|(Hf & Hl & d0 & p0 & Ed)]; rewrite Hf.
  - rewrite Hl. change (Lc []) with (@nil str) in *.
    apply (P_const s A HA [] Hc k 0 k); try lia.
    intros j Hj. apply (A_between [] rest j E); [intros kp []|]. intros kp Hin. specialize (Hrest kp Hin). lia.
  - assert (Hlt : r_last st < k). { apply (Hdone (r_last st, p0)). rewrite Ed. apply in_or_app. right. now left. }
    rewrite (P_const s A HA (Lc done) Hc k (S (r_last st)) k); try lia.
    + rewrite app_assoc, slice_cat by lia. reflexivity.
    + intros j Hj. apply (A_between done rest j E).
      * intros kp Hin. rewrite Ed in Hin, E. pose proof (done_keys _ _ _ _ kp E Hin). lia.
      * intros kp Hin. specialize (Hrest kp Hin). lia.
Qed.

Lemma Q_finish done rest st : tb = done ++ rest -> Iv done st ->
  (forall kp, In kp rest -> length s <= fst kp) -> (forall kp, In kp done -> fst kp < length s) ->
  Q done st = skipn (r_last st) s ++ (if r_exist st then RESET else []).
Proof.
  intros E Hi Hrest Hdone. rewrite (Q_to done rest st (length s) E Hi (le_n _) Hrest Hdone).
  rewrite slice_to_end. unfold Pp. rewrite P_end by lia. destruct Hi as (_ & He & _). rewrite He.
  now destruct (is_nil (Lc done)).
Qed.

Lemma bytes_of_app a b : bytes_of (a ++ b) = bytes_of a ++ bytes_of b.
Proof. unfold bytes_of. apply flat_map_app. Qed.

Lemma bytes_opt_text x : bytes_of (if is_nil x then [] else [OText x]) = x.
Proof. destruct x; [reflexivity|]. cbn [is_nil bytes_of flat_map bytes_of_tok]. now rewrite app_nil_r. Qed.

Lemma loop_spec : forall rest done st, tb = done ++ rest -> Iv done st ->
  (forall kp, In kp done -> fst kp < length s) ->
  let st' := render_loop s true false (iter_states rest (trun [] done)) st in
  bytes_of (r_out st') ++ skipn (r_last st') s ++ (if r_exist st' then RESET else [])
  = bytes_of (r_out st) ++ Q done st.
Proof.
  induction rest as [|[k p] rest IH]; intros done st E Hi Hdone.
  - cbn [iter_states render_loop]. f_equal. symmetry. apply (Q_finish done [] st E Hi); auto. intros kp [].
  - cbn [iter_states render_loop].
    assert (Hsort : ssorted (done ++ (k, p) :: rest)) by (now rewrite <- E).
    assert (Hrest_ge : forall kp, In kp ((k, p) :: rest) -> k <= fst kp).
    { intros kp [<-|Hin]; [cbn; lia|]. apply ssorted_app_r in Hsort. inversion Hsort; subst. specialize (H1 kp Hin). lia. }
    destruct (length s <=? k) eqn:Ek.
    + apply Nat.leb_le in Ek. f_equal. symmetry. apply (Q_finish done ((k, p) :: rest) st E Hi); auto.
      intros kp Hin. specialize (Hrest_ge kp Hin). lia.
    + apply Nat.leb_gt in Ek.
      assert (Hdone_lt : forall kp, In kp done -> fst kp < k).
      { intros kp Hin. exact (ssorted_app_lt _ _ Hsort kp (k, p) Hin (or_introl eq_refl)). }
      set (act := trun [] done). set (cur := step act p).
      assert (E' : tb = (done ++ [(k, p)]) ++ rest) by (rewrite <- app_assoc; exact E).
      assert (Hcur : map stxt cur = Lc (done ++ [(k, p)])) by (unfold Lc; now rewrite trun_snoc).
      assert (HAk : A k = map stxt cur).
      { rewrite Hcur. apply (A_between _ rest k E').
        - intros kp Hin. eapply done_keys; eauto.
        - intros kp Hin. apply ssorted_app_r in Hsort. inversion Hsort; subst. now apply H1. }
      assert (Hcn : canonL (map stxt cur)) by (rewrite <- HAk; apply HA).
      pose proof (canon_Lc done _ E) as Hcp.
      destruct Hi as (Hd & He & Hcase).
      (* the point's emission *)
      assert (Hem : em (negb (is_nil (prem p))) (Lc done) (map stxt cur) = emc (Lc done) (map stxt cur)).
      { apply em_emc; [exact Hcn| |].
        - intros Hp. apply negb_false_iff in Hp. destruct (prem p) eqn:Ep; [|discriminate].
          exists (map stxt (padd p)). unfold cur. rewrite (step_no_rem act p Ep), map_app. reflexivity.
        - intros Hp. apply negb_true_iff in Hp. destruct (prem p) as [|r rs] eqn:Ep; [discriminate|].
          apply strict_ok_from_run in Hstrict. rewrite E in Hstrict. apply strict_run_app in Hstrict as [_ Hst].
          cbn [strict_run] in Hst. destruct Hst as [Hst _]. rewrite Ep in Hst. cbn [strict_rems] in Hst.
          fold act in Hst. unfold Lc. fold act. destruct act; [cbn in Hst; congruence|discriminate]. }
      set (st1 := render_point s true false st k p cur).
      assert (Hst1 : st1 = {| r_out := r_out st ++ (if is_nil (str_slice s (r_last st) k) then [] else [OText (str_slice s (r_last st) k)])
                                          ++ (let ac := opt_pick (dl (Lc done)) (dl (map stxt cur)) (pt_codes p cur) in
                                              if fst ac then [OSgr (snd ac)] else []);
                              r_last := k; r_dict := dl (map stxt cur); r_exist := negb (is_nil cur); r_first := false |}).
      { unfold st1. rewrite render_point_opt. cbv zeta. rewrite (s2d_canon _ Hcn), Hd.
        unfold rs_wrap. rewrite !andb_false_r. cbn [app]. reflexivity. }
      assert (Hi1 : Iv (done ++ [(k, p)]) st1).
      { rewrite Hst1. unfold Iv. cbn [r_dict r_exist r_first r_last r_out]. rewrite <- Hcur.
        split; [reflexivity|]. split; [now destruct cur|]. right. split; [reflexivity|]. split; [exact Ek|].
        now exists done, p. }
      specialize (IH (done ++ [(k, p)]) st1 E' Hi1).
      rewrite trun_snoc in IH. fold act cur in IH. cbv zeta in IH. rewrite IH.
      2:{ intros kp Hin. apply in_app_or in Hin as [Hin|[<-|[]]]; [now apply Hdone|exact Ek]. }
      (* both sides *)
      rewrite (Q_to done ((k, p) :: rest) st k E (conj Hd (conj He Hcase)) ltac:(lia) Hrest_ge Hdone_lt).
      unfold Q. rewrite Hst1. cbn [r_first r_last r_out].
      rewrite !bytes_of_app, bytes_opt_text, (opt_pick_em (Lc done) p cur Hcp Hcn), Hem.
      unfold Pp at 2. rewrite (P_step s A k (Lc done) Ek). rewrite HAk, <- Hcur.
      rewrite <- !app_assoc. reflexivity.
Qed.

Theorem render_prender : is_parsable_tbl tb = true ->
  to_str (mkA s tb) true false true = prender s 0 [] A.
Proof.
  intros Hp. unfold to_str, to_str_toks. cbn [base tbl]. rewrite Hp. cbn [negb andb]. rewrite andb_true_r.
  assert (Hi0 : Iv [] {| r_out := []; r_last := 0; r_dict := []; r_exist := false; r_first := true |}).
  { unfold Iv. cbn. split; [reflexivity|]. split; [reflexivity|]. left. auto. }
  destruct (is_nil tb) eqn:En.
  - assert (HAnil : forall j, A j = []).
    { intros j. unfold A. clear -En. destruct tb; [reflexivity|discriminate]. }
    rewrite bytes_opt_text.
    change (prender s 0 [] A) with (P s A 0 []).
    rewrite (P_const s A HA [] canonL_nil (length s) 0 (length s)); try lia.
    + rewrite slice_to_end, P_end by lia. cbn [skipn is_nil]. now rewrite app_nil_r.
    + intros j _. apply HAnil.
  - pose proof (loop_spec tb [] _ eq_refl Hi0 ltac:(intros kp [])) as H. cbv zeta in H.
    change (trun [] []) with (@nil setting) in H.
    set (st' := render_loop s true false (iter_states tb []) _) in *.
    rewrite !bytes_of_app. rewrite andb_false_r. cbn [bytes_of flat_map app].
    rewrite bytes_opt_text. fold (bytes_of (r_out st')).
    replace (bytes_of (if r_exist st' && true then [OSgr []] else [])) with (if r_exist st' then RESET else [])
      by (destruct (r_exist st'); reflexivity).
    etransitivity; [exact H|reflexivity].
Qed.
End RenderLoop.

(* ====================================================================================== *)
(* (S) one parse step, exactly, on the lists of active texts                               *)
(* ====================================================================================== *)
Definition AT (s : astr) (k : nat) : list str := map stxt (active_at (tbl s) k).

Lemma map_keep sel L : map stxt (keep (Some sel) L) = filter (fun t => negb (mem t sel)) (map stxt L).
Proof.
  unfold keep. induction L as [|x L IH]; [reflexivity|]. cbn [filter map].
  change (selected (Some sel) x) with (mem (stxt x) sel). destruct (mem (stxt x) sel); cbn [negb map]; now rewrite IH.
Qed.

Lemma parse_step_exact s cur key body nid texts :
  PInv s cur key nid -> key < length (base s) -> pgs_str body false = OK texts ->
  forall k, key <= k < length (base s) ->
  AT (fst (fst (parse_step s cur key body nid))) k
  = filter (fun t => negb (mem t (step_rem cur nid texts))) (AT s k) ++ step_app cur nid texts.
Proof.
  intros (Hwf & Hids & Hcur & Hrep & Hmid) Hkey Hp k Hk.
  rewrite (parse_step_unfold _ _ _ _ _ _ Hp). cbv zeta. cbn [fst snd].
  set (to_rem := step_rem cur nid texts). set (to_app := step_app cur nid texts).
  pose proof (step_remove s to_rem key Hwf Hkey) as H1. cbv zeta in H1.
  set (s1 := if is_nil to_rem then s else remove_fmt s (Some to_rem) (Some (Z.of_nat key)) None) in *.
  destruct H1 as (Hb1 & Hwf1 & Hlo1 & Hin1 & Hhi1 & Hmid1).
  assert (Hids1 : ids_lt (tbl s1) nid).
  { intros j x Hx. destruct (lt_dec j key) as [Hl|Hl]; [rewrite Hlo1 in Hx by lia; eauto|].
    destruct (lt_dec j (length (base s))) as [Hl2|Hl2].
    - rewrite Hin1 in Hx by lia. apply keep_in in Hx as [Hx _]. eauto.
    - rewrite Hhi1 in Hx by lia. eauto. }
  set (nid1 := nid + length texts). set (nws := fst (fresh to_app nid1)).
  assert (Hfr : fresh_for nws (tbl s1)) by (apply fresh_fresh with nid; auto; unfold nid1; lia).
  assert (Hkey1 : key < length (base s1)) by (rewrite Hb1; auto).
  pose proof (step_apply s1 nws key Hwf1 Hfr Hkey1) as H2. cbv zeta in H2.
  destruct H2 as (Hb2 & Hwf2 & Hout2 & Hin2 & Hmid2). rewrite Hb1 in Hout2, Hin2.
  destruct (Hin2 k Hk) as (l1 & l2 & E1 & E2 & E3).
  assert (Hl2 : l2 = []).
  { apply E3. intros kp Hkp Hr. exfalso. destruct (Hmid1 Hmid kp Hkp) as [H|H]; [lia|]. rewrite Hb1 in H. lia. }
  subst l2. rewrite app_nil_r in E1, E2. unfold AT. rewrite E2, map_app. f_equal.
  - rewrite <- E1, (Hin1 k Hk). apply map_keep.
  - apply fresh_texts.
Qed.

(* ====================================================================================== *)
(* settings_to_dict as "last writer wins"                                                   *)
(* ====================================================================================== *)
Section LW.
Context {V : Type} (txt : V -> str).

Definition lw_step (e : effect) (acc : option (option V)) (v : V) : option (option V) :=
  match tk (txt v) with
  | KSet e' => if effect_beq e' e then Some (Some v) else acc
  | KClr e' => if effect_beq e' e then Some None else acc
  | KReset => Some None
  | KNone => acc
  end.
Definition lw (l : list V) (e : effect) : option (option V) := fold_left (lw_step e) l None.

Lemma lw_fold l e : forall acc, fold_left (lw_step e) l acc = match lw l e with Some r => Some r | None => acc end.
Proof.
  unfold lw. induction l as [|v l IH]; intros acc; [reflexivity|]. cbn [fold_left].
  rewrite (IH (lw_step e acc v)), (IH (lw_step e None v)).
  destruct (fold_left (lw_step e) l None); [reflexivity|].
  unfold lw_step. destruct (tk (txt v)) as [|e'|e'|]; try reflexivity; destruct (effect_beq e' e); reflexivity.
Qed.

Lemma lw_app a b e : lw (a ++ b) e = match lw b e with Some r => Some r | None => lw a e end.
Proof. unfold lw at 1. rewrite fold_left_app. fold (lw a e). apply lw_fold. Qed.

Lemma lw_cons v l e : lw (v :: l) e = match lw l e with Some r => Some r | None => lw_step e None v end.
Proof. change (v :: l) with ([v] ++ l). rewrite lw_app. reflexivity. Qed.

Lemma s2d_lw l : forall d e, nodupk d ->
  dget (s2d txt l d) e = match lw l e with Some r => r | None => dget d e end.
Proof.
  induction l as [|v l IH]; intros d e Hd; [reflexivity|].
  change (s2d txt (v :: l) d) with (s2d txt l (s2d_step txt d v)).
  rewrite IH by (now apply s2d_step_nodupk). rewrite lw_cons.
  destruct (lw l e); [reflexivity|]. rewrite s2d_step_tk. unfold lw_step.
  destruct (tk (txt v)) as [|e'|e'|]; try reflexivity.
  - rewrite dget_dset. now destruct (effect_beq e' e).
  - rewrite dget_ddel by exact Hd. now destruct (effect_beq e' e).
Qed.

(* a list of settings that all SET, pairwise different effects *)
Lemma lw_sets_none l e : (forall v, In v l -> tk (txt v) = KSet (eff0 (txt v)) /\ eff0 (txt v) <> e) -> lw l e = None.
Proof.
  induction l as [|v l IH]; intros H; [reflexivity|]. rewrite lw_cons, IH by (intros; apply H; now right).
  destruct (H v (or_introl eq_refl)) as [Hk Hne]. unfold lw_step. rewrite Hk.
  destruct (effect_beq (eff0 (txt v)) e) eqn:E; [|reflexivity]. apply effect_beq_eq in E. congruence.
Qed.

Lemma lw_sets_some l v : (forall v, In v l -> tk (txt v) = KSet (eff0 (txt v))) ->
  NoDup (map (fun v => eff0 (txt v)) l) -> In v l -> lw l (eff0 (txt v)) = Some (Some v).
Proof.
  induction l as [|a l IH]; intros Hk Hnd Hin; [destruct Hin|]. cbn [map] in Hnd. inversion Hnd as [|? ? Hn Hd]; subst.
  rewrite lw_cons. destruct Hin as [->|Hin].
  - rewrite lw_sets_none.
    + unfold lw_step. rewrite (Hk v (or_introl eq_refl)), effect_beq_refl. reflexivity.
    + intros w Hw. split; [apply Hk; now right|]. intros E. apply Hn. rewrite <- E. apply in_map_iff. now exists w.
  - rewrite IH; auto. intros; apply Hk; now right.
Qed.

(* a list of settings that all CLEAR *)
Lemma lw_clears l e : (forall v, In v l -> exists e', tk (txt v) = KClr e') ->
  lw l e = if existsb (fun v => match tk (txt v) with KClr e' => effect_beq e' e | _ => false end) l then Some None else None.
Proof.
  induction l as [|v l IH]; intros H; [reflexivity|]. rewrite lw_cons, IH by (intros; apply H; now right).
  cbn [existsb]. destruct (H v (or_introl eq_refl)) as (e' & Hk). unfold lw_step. rewrite Hk.
  destruct (existsb _ l); [now rewrite orb_true_r|]. rewrite orb_false_r. now destruct (effect_beq e' e).
Qed.
End LW.

(* ====================================================================================== *)
(* (J) what one parse step does to a canonical list of active texts                         *)
(* ====================================================================================== *)
Definition RepT (cur : dict vset) (L : list str) : Prop :=
  (forall t, In t L -> tk t = KSet (eff0 t) /\ exists i, dget cur (eff0 t) = Some (i, t))
  /\ (forall e i t, dget cur e = Some (i, t) -> In t L).

Lemma Rep_RepT cur act : Rep cur act -> RepT cur (map stxt act).
Proof.
  intros [R1 R2]. split.
  - intros t Ht. apply in_map_iff in Ht as (x & <- & Hx). destruct (R1 x Hx) as (e & i & Hk & Hg).
    unfold eff0. rewrite Hk. split; [reflexivity|]. now exists i.
  - exact R2.
Qed.

Lemma nodup_map_filter {A B} (f : A -> B) (p : A -> bool) l : NoDup (map f l) -> NoDup (map f (filter p l)).
Proof.
  induction l as [|x l IH]; intros H; [constructor|]. cbn [map] in H. inversion H as [|? ? Hn Hd]; subst.
  cbn [filter]. destruct (p x); [|now apply IH]. cbn [map]. constructor; [|now apply IH].
  intros Hin. apply Hn. apply in_map_iff in Hin as (y & E & Hy). apply filter_In in Hy as [Hy _].
  apply in_map_iff. now exists y.
Qed.

Section TStep.
Variables (cur : dict vset) (nid : nat) (texts : list str) (L : list str).
Hypothesis Hcur : cur_ok cur.
Hypothesis Htexts : Forall text_ok texts.
Hypothesis HL : RepT cur L.
Hypothesis HcL : canonL L.
Let S := step_settings nid texts.
Let new := step_new cur nid texts.
Let to_rem := step_rem cur nid texts.
Let to_app := step_app cur nid texts.

Definition stillb (t : str) : bool := match dget new (eff0 t) with Some v => str_eqb (snd v) t | None => false end.
Definition lastw (sv : vset) : bool :=
  match effect_of (snd sv) with
  | Some e => match dget new e with Some v => Nat.eqb (fst v) (fst sv) | None => false end
  | None => false end.

Lemma keep_still : filter (fun t => negb (mem t to_rem)) L = filter stillb L.
Proof.
  apply filter_ext_in. intros t Ht. destruct HL as [R1 R2]. destruct (R1 t Ht) as (Hk & i & Hg).
  destruct Hcur as [Hnd Hok]. unfold stillb. fold new.
  destruct (dget new (eff0 t)) as [v|] eqn:En.
  - destruct (new_get cur nid texts Hcur (eff0 t) v En) as [[Hv Hkv]|[Hc Hno]].
    + destruct (str_eqb (snd v) t) eqn:Es.
      * apply str_eqb_eq in Es. apply negb_true_iff, mem_false.
        apply (not_removed cur nid texts Hcur (eff0 t) v t En Hk). left. auto.
      * apply str_eqb_neq in Es. apply negb_false_iff, mem_In. unfold to_rem, step_rem. cbv zeta.
        apply in_or_app. left. apply in_flat_map. exists v. split; [exact Hv|].
        apply (rem_of_intro _ cur v (eff0 t) v (i, t));
          [rewrite effect_of_tk, Hkv; reflexivity|exact En|reflexivity|exact Hg|cbn [snd]; congruence].
    + rewrite Hg in Hc. inversion Hc; subst v. cbn [snd]. rewrite str_eqb_refl.
      apply negb_true_iff, mem_false.
      apply (not_removed cur nid texts Hcur (eff0 t) (i, t) t En Hk). right. exact Hno.
  - apply negb_false_iff, mem_In. unfold to_rem, step_rem. cbv zeta. apply in_or_app. right.
    apply in_flat_map. exists (eff0 t, (i, t)). split; [now apply dget_in|].
    unfold gone_of. cbn [fst snd]. fold new. rewrite En. now left.
Qed.

Lemma app_of_canon sv : In sv S ->
  app_of new cur sv = if lastw sv && negb (mem (snd sv) L) then [snd sv] else [].
Proof.
  intros Hsv. destruct HL as [R1 R2]. destruct Hcur as [Hnd Hok]. unfold app_of, lastw.
  destruct (effect_of (snd sv)) as [e|] eqn:He; [|reflexivity].
  destruct (dget new e) as [v|] eqn:En; [|reflexivity].
  destruct (Nat.eqb (fst v) (fst sv)) eqn:Ei; [|reflexivity]. apply Nat.eqb_eq in Ei. cbn [andb].
  destruct (new_entry cur nid texts Hcur e v sv En Hsv He Ei) as [-> Hk].
  assert (He0 : eff0 (snd sv) = e) by (unfold eff0; now rewrite Hk).
  destruct (dget cur e) as [o|] eqn:Ec.
  - destruct o as [io to]. cbn [snd]. pose proof (R2 e io to Ec) as Hin.
    destruct (str_eqb to (snd sv)) eqn:Es.
    + apply str_eqb_eq in Es. subst to. assert (M : mem (snd sv) L = true) by now apply mem_In. now rewrite M.
    + assert (M : mem (snd sv) L = false).
      { apply mem_false. intros Hin'. destruct (R1 _ Hin') as (_ & i' & Hg'). rewrite He0, Ec in Hg'.
        inversion Hg'; subst. rewrite str_eqb_refl in Es. discriminate. }
      now rewrite M.
  - assert (M : mem (snd sv) L = false).
    { apply mem_false. intros Hin'. destruct (R1 _ Hin') as (_ & i' & Hg'). rewrite He0, Ec in Hg'. discriminate. }
    now rewrite M.
Qed.

Definition appsel (sv : vset) : list str := if lastw sv && negb (mem (snd sv) L) then [snd sv] else [].

Lemma to_app_canon : to_app = flat_map appsel S.
Proof.
  unfold to_app, step_app. fold S new. clear -Hcur Htexts HL. 
  assert (H : forall sv, In sv S -> app_of new cur sv = appsel sv) by (intros; now apply app_of_canon).
  induction S as [|sv l IH]; [reflexivity|]. cbn [flat_map]. rewrite (H sv (or_introl eq_refl)).
  f_equal. apply IH. intros; apply H; now right.
Qed.

(* the new list *)
Definition Lnew : list str := filter stillb L ++ to_app.

Lemma in_to_app t : In t to_app -> ~ In t L /\ exists sv, In sv S /\ snd sv = t /\ dget new (eff0 t) = Some sv
                                   /\ tk t = KSet (eff0 t) /\ parsable t = true.
Proof.
  rewrite to_app_canon. intros H. apply in_flat_map in H as (sv & Hsv & Ht). unfold appsel in Ht.
  destruct (lastw sv && negb (mem (snd sv) L)) eqn:E; [|destruct Ht]. destruct Ht as [<-|[]].
  apply andb_true_iff in E as [E1 E2]. apply negb_true_iff, mem_false in E2. split; [exact E2|].
  unfold lastw in E1. destruct (effect_of (snd sv)) as [e|] eqn:He; [|discriminate].
  destruct (dget new e) as [v|] eqn:En; [|discriminate]. apply Nat.eqb_eq in E1.
  destruct (new_entry cur nid texts Hcur e v sv En Hsv He E1) as [-> Hk].
  assert (He0 : eff0 (snd sv) = e) by (unfold eff0; now rewrite Hk).
  exists sv. rewrite He0. repeat split; auto.
  destruct (S_text nid texts Htexts sv Hsv) as [Hp|Hz]; auto. rewrite Hz, tk_zero in Hk. discriminate.
Qed.

Lemma in_still t : In t (filter stillb L) -> In t L /\ exists v, dget new (eff0 t) = Some v /\ snd v = t.
Proof.
  intros H. apply filter_In in H as [H1 H2]. split; auto. unfold stillb in H2.
  destruct (dget new (eff0 t)) as [v|]; [|discriminate]. apply str_eqb_eq in H2. eauto.
Qed.

Lemma to_app_nodup : NoDup (map eff0 to_app).
Proof.
  rewrite to_app_canon.
  assert (Hinj : forall a b, In a S -> In b S -> appsel a <> [] -> appsel b <> [] ->
                   eff0 (snd a) = eff0 (snd b) -> a = b).
  { intros a b Ha Hb Na Nb E.
    assert (Hx : forall sv, In sv S -> appsel sv <> [] -> dget new (eff0 (snd sv)) = Some sv).
    { intros sv Hsv Hn. assert (Hin : In (snd sv) to_app).
      { rewrite to_app_canon. apply in_flat_map. exists sv. split; auto. unfold appsel in *.
        destruct (lastw sv && negb (mem (snd sv) L)); [now left|congruence]. }
      destruct (in_to_app _ Hin) as (_ & sv' & Hsv' & Es & Hg & _).
      unfold appsel, lastw in Hn. destruct (effect_of (snd sv)) as [e|] eqn:He; [|cbn in Hn; congruence].
      destruct (dget new e) as [v|] eqn:En; [|cbn in Hn; congruence].
      destruct (Nat.eqb (fst v) (fst sv)) eqn:Ei; [|cbn in Hn; congruence]. apply Nat.eqb_eq in Ei.
      destruct (new_entry cur nid texts Hcur e v sv En Hsv He Ei) as [-> Hk].
      unfold eff0. rewrite Hk. exact En. }
    pose proof (Hx a Ha Na) as H1. pose proof (Hx b Hb Nb) as H2. rewrite E in H1. congruence. }
  pose proof (S_nodup nid texts) as Hnd. apply NoDup_map_inv in Hnd. fold S in Hnd.
  clear -Hinj Hnd. induction S as [|sv l IH]; [constructor|]. cbn [flat_map]. inversion Hnd as [|? ? Hn Hd]; subst.
  assert (IH' : NoDup (map eff0 (flat_map appsel l))).
  { apply IH; auto. intros a b Ha Hb. apply Hinj; now right. }
  unfold appsel at 1. destruct (lastw sv && negb (mem (snd sv) L)) eqn:E; [|exact IH'].
  cbn [app map]. constructor; [|exact IH']. intros Hin. apply in_map_iff in Hin as (t & Et & Ht).
  apply in_flat_map in Ht as (b & Hb & Htb). unfold appsel in Htb.
  destruct (lastw b && negb (mem (snd b) L)) eqn:Eb; [|destruct Htb]. destruct Htb as [<-|[]].
  assert (sv = b).
  { apply Hinj; [now left|now right| | |congruence]; unfold appsel; [rewrite E|rewrite Eb]; discriminate. }
  subst b. contradiction.
Qed.

Theorem Lnew_canon : canonL Lnew.
Proof.
  destruct HcL as [Hnd Hk]. split.
  - unfold Lnew. rewrite map_app. apply nodup_app_iff. split; [now apply nodup_map_filter|]. split; [apply to_app_nodup|].
    intros e H1 H2. apply in_map_iff in H1 as (t & <- & Ht). apply in_map_iff in H2 as (a & Ea & Ha).
    destruct (in_still t Ht) as (HtL & v & Hg & Ev). destruct (in_to_app a Ha) as (HaL & sv & _ & Es & Hg' & _).
    rewrite Ea, Hg in Hg'. inversion Hg'; subst v. apply HaL. now rewrite <- Es, Ev.
  - intros t Ht. unfold Lnew in Ht. apply in_app_or in Ht as [Ht|Ht].
    + apply Hk. now apply in_still in Ht as [Ht _].
    + destruct (in_to_app t Ht) as (_ & _ & _ & _ & _ & H1 & H2). auto.
Qed.

(* kept settings keep their order, new ones are appended: (K3) *)
Theorem Lnew_K3 : Lnew = filter (fun t => mem t Lnew) L ++ news L Lnew.
Proof.
  unfold Lnew at 1. f_equal.
  - apply filter_ext_in. intros t Ht. destruct (stillb t) eqn:Es.
    + symmetry. apply mem_In. unfold Lnew. apply in_or_app. left. apply filter_In. auto.
    + symmetry. apply mem_false. intros Hin. unfold Lnew in Hin. apply in_app_or in Hin as [Hin|Hin].
      * apply filter_In in Hin as [_ Hin]. congruence.
      * now apply in_to_app in Hin as [Hin _].
  - unfold news, Lnew. rewrite filter_app. rewrite filter_none, filter_all; [reflexivity| |].
    + intros t Ht. apply negb_true_iff, mem_false. now apply in_to_app in Ht as [Ht _].
    + intros t Ht. apply negb_false_iff, mem_In. now apply filter_In in Ht as [Ht _].
Qed.
End TStep.

(* ====================================================================================== *)
(* parse_graphic_sequence on a join of normal-form groups returns the groups                *)
(* ====================================================================================== *)
Definition goodg (g : list N) : Prop := g = [0%N] \/ parsableN g = true.

Lemma group_shape g : group_ok g = true ->
  (exists v, g = [v] /\ forall e, gen_class v <> CIntro e)
  \/ (exists v e n, g = [v; 5%N; n] /\ gen_class v = CIntro e)
  \/ (exists v e a b c, g = [v; 2%N; a; b; c] /\ gen_class v = CIntro e).
Proof.
  unfold group_ok. destruct g as [|v [|x r]]; [discriminate| |].
  - intros H. left. exists v. split; auto. intros e E. rewrite E in H. discriminate.
  - intros H.
    assert (Hx : (x = 5 \/ x = 2)%N).
    { destruct x as [|p]; [discriminate|]. destruct p as [p|p|]; try discriminate;
      destruct p as [p|p|]; try discriminate; try destruct p as [p|p|]; try discriminate; auto. }
    destruct Hx as [-> | ->].
    + destruct r as [|n [|? ?]]; try discriminate. destruct (gen_class v) eqn:Ec; try discriminate.
      right. left. now exists v, e, n.
    + destruct r as [|a [|b [|d [|? ?]]]]; try discriminate. destruct (gen_class v) eqn:Ec; try discriminate.
      right. right. now exists v, e, a, b, d.
Qed.

Lemma pgs_gN_one g rest : goodg g -> pgs_gN (g ++ rest) 0 [] = g :: pgs_gN rest 0 [].
Proof.
  intros [->|Hp].
  - reflexivity.
  - assert (Hk : keepN g = true) by (unfold keepN; now rewrite Hp).
    unfold parsableN in Hp. apply andb_true_iff in Hp as [_ Hg].
    destruct (group_shape g Hg) as [(v & -> & Hv)|[(v & e & n & -> & Hv)|(v & e & a & b & c & -> & Hv)]].
    + cbn [app pgs_gN intro_kindN]. rewrite (class_nonintro v Hv). cbn [app]. now rewrite Hk.
    + cbn [app pgs_gN intro_kindN]. rewrite (class_intro_is_intro v e Hv).
      change (5 =? 5)%N with true. cbv iota. cbn [app]. now rewrite Hk.
    + cbn [app pgs_gN intro_kindN]. rewrite (class_intro_is_intro v e Hv).
      change (2 =? 5)%N with false. change (2 =? 2)%N with true. cbv iota. cbn [app]. now rewrite Hk.
Qed.

Lemma pgs_gN_groups gs : Forall goodg gs -> pgs_gN (concat gs) 0 [] = gs.
Proof.
  induction 1 as [|g gs Hg Hgs IH]; [reflexivity|]. cbn [concat]. rewrite pgs_gN_one by exact Hg. now rewrite IH.
Qed.

Lemma goodg_nonnil g : goodg g -> g <> [].
Proof. intros [->|H]; [discriminate|]. intros ->. discriminate. Qed.

Lemma codes_of_textN gs : Forall goodg gs -> codes_of_texts (map textN gs) = concat gs.
Proof.
  induction 1 as [|g gs Hg Hgs IH]; [reflexivity|]. cbn [map]. rewrite codes_of_texts_cons.
  rewrite params_of_textN by (now apply goodg_nonnil). cbn [concat]. now rewrite IH.
Qed.

Theorem pgs_join gs : gs <> [] -> Forall goodg gs ->
  pgs_str (jn (map textN gs)) false = OK (map textN gs).
Proof.
  intros Hne Hg.
  assert (Hp : params_of (jn (map textN gs)) = Some (concat gs)).
  { unfold jn. rewrite params_of_join.
    - now rewrite codes_of_textN.
    - destruct gs; [congruence|discriminate].
    - apply Forall_forall. intros t Ht. apply in_map_iff in Ht as (g & <- & Hin).
      rewrite Forall_forall in Hg. rewrite params_of_textN by (apply goodg_nonnil; auto). discriminate. }
  pose proof (params_numeric _ _ Hp) as Hnum. rewrite (pgs_str_numeric _ Hnum).
  rewrite (numeric_params _ Hnum) in Hp. inversion Hp as [Hc]. rewrite Hc, pgs_gN_groups by exact Hg. reflexivity.
Qed.

Lemma pgs_empty : pgs_str [] false = OK [[CH_0]].
Proof. reflexivity. Qed.

(* ====================================================================================== *)
(* (C) re-parsing what the renderer emitted for the change L -> Ln gives Ln                 *)
(* ====================================================================================== *)
Definition nfL (L : list str) : Prop := forall t, In t L -> exists g, t = textN g /\ parsableN g = true.
Definition clr_good (e : effect) : Prop :=
  exists c, clear_code e = Some c /\ tk (decN c) = KClr e /\ decN c = textN [c] /\ parsableN [c] = true.

Notation lwS := (@lw vset (@snd nat str)).

Lemma step_settings_cons n x X : step_settings n (x :: X) = (n, x) :: step_settings (S n) X.
Proof. reflexivity. Qed.

Lemma step_settings_app X : forall n Y, step_settings n (X ++ Y) = step_settings n X ++ step_settings (n + length X) Y.
Proof.
  induction X as [|x X IH]; intros n Y.
  - cbn [app length]. now rewrite Nat.add_0_r.
  - cbn [app]. rewrite !step_settings_cons, IH. cbn [app length]. now rewrite Nat.add_succ_r.
Qed.

Lemma SX_snd n X : map snd (step_settings n X) = X.
Proof. apply map_snd_combine. Qed.

Lemma SX_in n X sv : In sv (step_settings n X) -> In (snd sv) X.
Proof. intros H. rewrite <- (SX_snd n X). now apply in_map. Qed.

Lemma SX_in_conv n X t : In t X -> exists sv, In sv (step_settings n X) /\ snd sv = t.
Proof. intros H. rewrite <- (SX_snd n X) in H. apply in_map_iff in H as (sv & E & Hsv). eauto. Qed.

Lemma SX_flat (p : str -> bool) X : forall n,
  flat_map (fun sv : vset => if p (snd sv) then [snd sv] else []) (step_settings n X) = filter p X.
Proof.
  induction X as [|x X IH]; intros n; [reflexivity|]. rewrite step_settings_cons. cbn [flat_map filter snd].
  rewrite IH. now destruct (p x).
Qed.

Lemma SX_lw_some n X sv : canonL X -> In sv (step_settings n X) ->
  lwS (step_settings n X) (eff0 (snd sv)) = Some (Some sv).
Proof.
  intros [Hnd Hk] Hin. apply (@lw_sets_some vset (@snd nat str)); auto.
  - intros v Hv. apply Hk. now apply SX_in in Hv.
  - change (map (fun v : vset => eff0 (snd v)) (step_settings n X)) with (map (fun v : nat * str => eff0 (snd v)) (step_settings n X)).
    rewrite <- (map_map (@snd nat str) eff0), SX_snd. exact Hnd.
Qed.

Lemma SX_lw_none n X e : canonL X -> (forall t, In t X -> eff0 t <> e) ->
  lwS (step_settings n X) e = None.
Proof.
  intros [Hnd Hk] Hne. apply lw_sets_none. intros v Hv. apply SX_in in Hv. split; [now apply Hk|now apply Hne].
Qed.

Lemma flat_map_ext_in {A B} (f g : A -> list B) l : (forall x, In x l -> f x = g x) -> flat_map f l = flat_map g l.
Proof.
  induction l as [|a l IH]; intros H; [reflexivity|]. cbn [flat_map].
  rewrite (H a (or_introl eq_refl)), IH by (intros; apply H; now right). reflexivity.
Qed.

Lemma canonL_filter p L : canonL L -> canonL (filter p L).
Proof.
  intros [H1 H2]. split; [now apply nodup_map_filter|]. intros t Ht. apply filter_In in Ht as [Ht _]. now apply H2.
Qed.

Lemma effect_of_set t : tk t = KSet (eff0 t) -> effect_of t = Some (eff0 t).
Proof. intros H. rewrite effect_of_tk, H. reflexivity. Qed.

Section CStep.
Variables (cur : dict vset) (nid : nat) (L Ln : list str).
Hypothesis Hcur : cur_ok cur.
Hypothesis HL : RepT cur L.
Hypothesis HcL : canonL L.
Hypothesis HcN : canonL Ln.
Hypothesis HK3 : Ln = filter (fun t => mem t Ln) L ++ news L Ln.

Lemma texts_ok_canon X : canonL X -> Forall text_ok X.
Proof. intros [_ H]. apply Forall_forall. intros t Ht. left. now apply H. Qed.

(* ---------- shape 2: reset followed by the whole new list ---------- *)
Section Shape2.
Let texts := [CH_0] :: Ln.
Let S2 := step_settings (S nid) Ln.
Let new := step_new cur nid texts.

Lemma texts2_ok : Forall text_ok texts.
Proof. constructor; [now right|now apply texts_ok_canon]. Qed.

Lemma new2_lw e : dget new e = match lwS S2 e with Some r => r | None => None end.
Proof.
  unfold new, step_new, texts. rewrite step_settings_cons. fold S2.
  rewrite s2d_lw by apply Hcur. rewrite lw_cons. destruct (lwS S2 e); [reflexivity|].
  unfold lw_step. cbn [snd]. now rewrite tk_zero.
Qed.

Lemma new2_some sv : In sv S2 -> dget new (eff0 (snd sv)) = Some sv.
Proof. intros H. rewrite new2_lw. unfold S2. now rewrite (SX_lw_some _ _ sv HcN H). Qed.

Lemma new2_none e : (forall t, In t Ln -> eff0 t <> e) -> dget new e = None.
Proof. intros H. rewrite new2_lw. unfold S2. now rewrite (SX_lw_none _ _ e HcN H). Qed.

Lemma shape2 : Lnew cur nid texts L = Ln.
Proof.
  unfold Lnew. transitivity (filter (fun t => mem t Ln) L ++ news L Ln); [|symmetry; exact HK3]. f_equal.
  - apply filter_ext_in. intros t Ht. unfold stillb. fold new.
    destruct (mem t Ln) eqn:M.
    + apply mem_In in M. destruct (SX_in_conv (S nid) Ln t M) as (sv & Hsv & Es).
      rewrite <- Es at 1. fold S2 in Hsv. rewrite (new2_some sv Hsv), Es. apply str_eqb_refl.
    + apply mem_false in M. destruct (dget (dl Ln) (eff0 t)) as [t'|] eqn:Ed.
      * destruct (dget_dl_some _ _ _ Ed) as [Ht' Ee]. destruct (SX_in_conv (S nid) Ln t' Ht') as (sv & Hsv & Es).
        fold S2 in Hsv. rewrite <- Ee, <- Es, (new2_some sv Hsv), Es. apply str_eqb_neq. congruence.
      * rewrite new2_none; [reflexivity|]. now apply dget_dl_none.
  - rewrite (to_app_canon cur nid texts L Hcur HL). unfold texts at 2. rewrite step_settings_cons. fold S2.
    cbn [flat_map]. replace (appsel cur nid texts L (nid, [CH_0])) with (@nil str).
    2:{ unfold appsel, lastw. cbn [snd]. now rewrite effect_of_tk, tk_zero. }
    cbn [app]. rewrite (flat_map_ext_in _ (fun sv : vset => if negb (mem (snd sv) L) then [snd sv] else [])).
    + unfold S2. apply (SX_flat (fun t => negb (mem t L))).
    + intros sv Hsv. unfold appsel, lastw. fold new. destruct HcN as [_ Hk].
      rewrite (effect_of_set _ (proj2 (Hk _ (SX_in _ _ _ Hsv)))), (new2_some sv Hsv), Nat.eqb_refl. reflexivity.
Qed.
End Shape2.

(* ---------- shape 1: clears of the vanished effects, then the new texts ---------- *)
Section Shape1.
Hypothesis Hclr : forall t, In t L -> clr_good (eff0 t).
Let C := clears L Ln.
Let N := news L Ln.
Let texts := C ++ N.
Let SC := step_settings nid C.
Let SN := step_settings (nid + length C) N.
Let new := step_new cur nid texts.

Lemma in_C x : In x C -> exists t c, In t L /\ dget (dl Ln) (eff0 t) = None /\ clear_code (eff0 t) = Some c
                                      /\ x = decN c /\ tk x = KClr (eff0 t) /\ parsable x = true.
Proof.
  unfold C, clears. intros H. apply in_flat_map in H as (t & Ht & Hx).
  destruct (dget (dl Ln) (eff0 t)) eqn:Ed; [destruct Hx|].
  destruct (Hclr t Ht) as (c & Hc & Hk & Hn & Hp). rewrite Hc in Hx. destruct Hx as [<-|[]].
  exists t, c. repeat split; auto. rewrite Hn, parsable_textN by discriminate. exact Hp.
Qed.

Lemma canon_N : canonL N.
Proof. unfold N, news. now apply canonL_filter. Qed.

Lemma texts1_ok : Forall text_ok texts.
Proof.
  unfold texts. apply Forall_app. split; [|apply texts_ok_canon, canon_N].
  apply Forall_forall. intros x Hx. left. destruct (in_C x Hx) as (t & c & _ & _ & _ & _ & _ & Hp). exact Hp.
Qed.

Lemma SC_clr sv : In sv SC -> exists t, In t L /\ dget (dl Ln) (eff0 t) = None /\ tk (snd sv) = KClr (eff0 t).
Proof.
  intros H. apply SX_in in H. destruct (in_C _ H) as (t & c & Ht & Hd & _ & _ & Hk & _). eauto.
Qed.

Lemma lw_SC_gone e : (exists t, In t L /\ eff0 t = e /\ dget (dl Ln) e = None) -> lwS SC e = Some None.
Proof.
  intros (t & Ht & Ee & Hd). rewrite lw_clears.
  2:{ intros v Hv. destruct (SC_clr v Hv) as (t' & _ & _ & Hk). eauto. }
  replace (existsb _ SC) with true; [reflexivity|]. symmetry. apply existsb_exists.
  destruct (Hclr t Ht) as (c & Hc & Hk & _).
  assert (Hin : In (decN c) C).
  { unfold C, clears. apply in_flat_map. exists t. split; auto. rewrite Ee, Hd. rewrite <- Ee, Hc. now left. }
  destruct (SX_in_conv nid C _ Hin) as (sv & Hsv & Es). exists sv. split; [exact Hsv|].
  rewrite Es, Hk, Ee. apply effect_beq_refl.
Qed.

Lemma lw_SC_kept e : dget (dl Ln) e <> None -> lwS SC e = None.
Proof.
  intros Hd. rewrite lw_clears.
  2:{ intros v Hv. destruct (SC_clr v Hv) as (t' & _ & _ & Hk). eauto. }
  replace (existsb _ SC) with false; [reflexivity|]. symmetry. apply not_true_iff_false. intros H.
  apply existsb_exists in H as (sv & Hsv & Hb). destruct (SC_clr sv Hsv) as (t & _ & Hd' & Hk).
  rewrite Hk in Hb. apply effect_beq_eq in Hb. congruence.
Qed.

Lemma new1_lw e : dget new e = match lwS SN e with
                               | Some r => r
                               | None => match lwS SC e with Some r => r | None => dget cur e end end.
Proof.
  unfold new, step_new, texts. rewrite step_settings_app. fold SC SN.
  rewrite s2d_lw by apply Hcur. rewrite lw_app. destruct (lwS SN e); reflexivity.
Qed.

Lemma new1_some sv : In sv SN -> dget new (eff0 (snd sv)) = Some sv.
Proof. intros H. rewrite new1_lw. unfold SN. now rewrite (SX_lw_some _ _ sv canon_N H). Qed.

Lemma N_in t : In t N <-> In t Ln /\ ~ In t L.
Proof. unfold N, news. rewrite filter_In, negb_true_iff, mem_false. tauto. Qed.

Lemma shape1 : Lnew cur nid texts L = Ln.
Proof.
  unfold Lnew. transitivity (filter (fun t => mem t Ln) L ++ news L Ln); [|symmetry; exact HK3]. fold N. f_equal.
  - apply filter_ext_in. intros t Ht. unfold stillb. fold new. destruct HL as [R1 R2].
    destruct (R1 t Ht) as (Hk & i & Hg).
    destruct (mem t Ln) eqn:M.
    + apply mem_In in M. rewrite new1_lw.
      unfold SN. rewrite SX_lw_none; [|apply canon_N|].
      * rewrite lw_SC_kept by (now rewrite (dget_dl_in Ln t HcN M)). rewrite Hg. cbn [snd]. apply str_eqb_refl.
      * intros t' Ht' E. apply N_in in Ht' as [H1 H2]. apply H2.
        now rewrite (canonL_eff_inj Ln t' t HcN H1 M E).
    + apply mem_false in M. destruct (dget (dl Ln) (eff0 t)) as [t'|] eqn:Ed.
      * destruct (dget_dl_some _ _ _ Ed) as [Ht' Ee].
        assert (HN : In t' N).
        { apply N_in. split; auto. intros HtL. apply M. now rewrite <- (canonL_eff_inj L t' t HcL HtL Ht Ee). }
        destruct (SX_in_conv (nid + length C) N t' HN) as (sv & Hsv & Es). fold SN in Hsv.
        rewrite <- Ee, <- Es, (new1_some sv Hsv), Es. apply str_eqb_neq. congruence.
      * rewrite new1_lw. unfold SN. rewrite SX_lw_none; [|apply canon_N|].
        -- rewrite lw_SC_gone; [reflexivity|]. now exists t.
        -- intros t' Ht'. apply N_in in Ht' as [H1 _]. now apply (dget_dl_none _ _ Ed).
  - rewrite (to_app_canon cur nid texts L Hcur HL). unfold texts at 2. rewrite step_settings_app. fold SC SN.
    rewrite flat_map_app.
    rewrite (flat_map_ext_in (appsel cur nid texts L) (fun _ => []) SC).
    + replace (flat_map (fun _ : vset => @nil str) SC) with (@nil str) by (induction SC; auto).
      cbn [app]. rewrite (flat_map_ext_in _ (fun sv : vset => if (fun _ => true) (snd sv) then [snd sv] else [])).
      * unfold SN. rewrite (SX_flat (fun _ => true)). apply filter_all. reflexivity.
      * intros sv Hsv. unfold appsel, lastw. fold new. destruct canon_N as [_ Hk].
        pose proof (SX_in _ _ _ Hsv) as HinN.
        rewrite (effect_of_set _ (proj2 (Hk _ HinN))), (new1_some sv Hsv), Nat.eqb_refl.
        apply N_in in HinN as [_ HnL]. apply mem_false in HnL. now rewrite HnL.
    + intros sv Hsv. unfold appsel, lastw. fold new. destruct (SC_clr sv Hsv) as (t & Ht & Hd & Hk).
      rewrite effect_of_tk, Hk. rewrite new1_lw. unfold SN. rewrite SX_lw_none; [|apply canon_N|].
      * rewrite lw_SC_gone; [reflexivity|]. now exists t.
      * intros t' Ht'. apply N_in in Ht' as [H1 _]. now apply (dget_dl_none _ _ Hd).
Qed.
End Shape1.
End CStep.

(* ---------- the generated clear table ---------- *)
Lemma clr_good_all e : clr_good e.
Proof. destruct e; eexists; (split; [reflexivity|]); repeat split; vm_compute; reflexivity. Qed.

Lemma nfL_groups X : nfL X -> exists gs, X = map textN gs /\ Forall goodg gs.
Proof.
  induction X as [|t X IH]; intros H; [exists []; split; [reflexivity|constructor]|].
  destruct (H t (or_introl eq_refl)) as (g & -> & Hg). destruct IH as (gs & -> & Hgs); [intros x Hx; apply H; now right|].
  exists (g :: gs). split; [reflexivity|]. constructor; [now right|exact Hgs].
Qed.

Lemma nfL_app a b : nfL a -> nfL b -> nfL (a ++ b).
Proof. intros Ha Hb t Ht. apply in_app_or in Ht as [Ht|Ht]; auto. Qed.

Lemma nfL_clears L Ln : nfL (clears L Ln).
Proof.
  intros x Hx. unfold clears in Hx. apply in_flat_map in Hx as (t & _ & Hx).
  destruct (dget (dl Ln) (eff0 t)); [destruct Hx|].
  destruct (clr_good_all (eff0 t)) as (c & Hc & _ & Hn & Hp). rewrite Hc in Hx. destruct Hx as [<-|[]]. eauto.
Qed.

Lemma nfL_news L Ln : nfL Ln -> nfL (news L Ln).
Proof. intros H t Ht. apply filter_In in Ht as [Ht _]. now apply H. Qed.

Lemma numeric_jn_nf X : nfL X -> numeric (jn X) = true.
Proof.
  intros H. apply numeric_join. apply Forall_forall. intros t Ht. destruct (H t Ht) as (g & -> & Hg).
  rewrite params_of_textN; [discriminate|]. intros ->. discriminate.
Qed.

Lemma jn_nonnil X : nfL X -> X <> [] -> jn X <> [].
Proof.
  intros H Hne E. apply Hne. apply (join_nil X); [|exact E]. apply Forall_forall. intros t Ht.
  destruct (H t Ht) as (g & -> & Hg). intros E'.
  assert (Hp : params_of (textN g) = Some g) by (apply params_of_textN; intros ->; discriminate).
  rewrite E' in Hp. cbn in Hp. inversion Hp; subst. discriminate.
Qed.

Section CMain.
Variables (cur : dict vset) (nid : nat) (L Ln : list str).
Hypothesis Hcur : cur_ok cur.
Hypothesis HL : RepT cur L.
Hypothesis HcL : canonL L.
Hypothesis HcN : canonL Ln.
Hypothesis HnN : nfL Ln.
Hypothesis HK3 : Ln = filter (fun t => mem t Ln) L ++ news L Ln.

Theorem C_main b : emc L Ln = Some b ->
  numeric b = true /\ exists texts, pgs_str b false = OK texts /\ Forall text_ok texts /\ Lnew cur nid texts L = Ln.
Proof.
  unfold emc, em. cbv zeta. unfold dcodes.
  set (C := clears L Ln). set (N := news L Ln).
  assert (HnC : nfL (C ++ N)) by (apply nfL_app; [apply nfL_clears|now apply nfL_news]).
  assert (Hshape1 : C ++ N <> [] -> numeric (jn (C ++ N)) = true /\ exists texts, pgs_str (jn (C ++ N)) false = OK texts
                        /\ Forall text_ok texts /\ Lnew cur nid texts L = Ln).
  { intros Hne. split; [now apply numeric_jn_nf|]. destruct (nfL_groups _ HnC) as (gs & Eg & Hgs). exists (C ++ N). split.
    - rewrite Eg. apply pgs_join; [|exact Hgs]. intros ->. now rewrite Eg in Hne.
    - split; [apply texts1_ok; auto; intros; apply clr_good_all|].
      apply shape1; auto. intros; apply clr_good_all. }
  destruct (is_nil (jn (C ++ N))) eqn:En; [discriminate|].
  assert (Hne : C ++ N <> []) by (intros E; rewrite E in En; discriminate).
  destruct (length (jn (C ++ N)) <? length _) eqn:Elt.
  - intros H. inversion H; subst b. now apply Hshape1.
  - intros H. inversion H as [Hb]. clear H. destruct (is_nil L) eqn:EnL.
    + (* nothing was active: the full form is the difference *)
      assert (EL : L = []) by (clear -EnL; destruct L; [reflexivity|discriminate]).
      cbn [negb andb].
      assert (EC : C = []) by (unfold C, clears; now rewrite EL).
      assert (EN : N = Ln). { unfold N, news. rewrite EL. apply filter_all. reflexivity. }
      rewrite EC in Hshape1, Hne. cbn [app] in Hshape1, Hne. rewrite EN in Hshape1, Hne. now apply Hshape1.
    + cbn [negb andb]. destruct (is_nil Ln) eqn:EnN.
      * assert (ELn : Ln = []) by (clear -EnN; destruct Ln; [reflexivity|discriminate]).
        cbn [negb]. replace (jn Ln) with (@nil char) by (now rewrite ELn). split; [reflexivity|]. exists ([CH_0] :: Ln). split; [now rewrite ELn|].
        split; [now apply texts2_ok|now apply shape2].
      * cbn [negb].
        split.
        { rewrite jn_cons by (intros E; rewrite E in EnN; discriminate). cbn [app].
          apply numeric_zero_prefix. now apply numeric_jn_nf. }
        exists ([CH_0] :: Ln). split; [|split; [now apply texts2_ok|now apply shape2]].
        assert (Eg : exists gs, [CH_0] :: Ln = map textN gs /\ Forall goodg gs).
        { destruct (nfL_groups _ HnN) as (gs & Eg & Hgs). exists ([0%N] :: gs). split.
          - cbn [map]. rewrite <- Eg. reflexivity.
          - constructor; [now left|exact Hgs]. }
        destruct Eg as (gs & Eg & Hgs). rewrite Eg. apply pgs_join; [|exact Hgs]. intros ->. discriminate.
Qed.

Lemma emc_none : emc L Ln = None -> Ln = L.
Proof.
  unfold emc, em. cbv zeta. unfold dcodes. set (C := clears L Ln). set (N := news L Ln).
  assert (HnC : nfL (C ++ N)) by (apply nfL_app; [apply nfL_clears|now apply nfL_news]).
  destruct (is_nil (jn (C ++ N))) eqn:En; [|discriminate]. intros _.
  assert (E : C ++ N = []).
  { destruct (C ++ N) as [|a r] eqn:E; [reflexivity|]. exfalso. apply (jn_nonnil _ HnC); [discriminate|].
    destruct (jn (a :: r)); [reflexivity|discriminate]. }
  apply app_eq_nil in E as [EC EN]. rewrite HK3. fold N. rewrite EN, app_nil_r. apply filter_all.
  intros t Ht. apply mem_In.
  destruct (dget (dl Ln) (eff0 t)) as [t'|] eqn:Ed.
  - destruct (dget_dl_some _ _ _ Ed) as [Ht' Ee].
    assert (HtL : In t' L). { rewrite HK3 in Ht'. fold N in Ht'. rewrite EN, app_nil_r in Ht'. now apply filter_In in Ht' as [H _]. }
    now rewrite <- (canonL_eff_inj L t' t HcL HtL Ht Ee).
  - exfalso. assert (Hin : In (match clear_code (eff0 t) with Some c => decN c | None => [] end) C).
    { unfold C, clears. apply in_flat_map. exists t. split; auto. rewrite Ed.
      destruct (clr_good_all (eff0 t)) as (c & Hc & _). rewrite Hc. now left. }
    rewrite EC in Hin. destruct Hin.
Qed.
End CMain.

(* ====================================================================================== *)
(* (T2) parsing the canonical rendering reproduces the lists of active texts                *)
(* ====================================================================================== *)
Fixpoint ptoks (s : str) (k : nat) (Lp : list str) (A : nat -> list str) : list otok :=
  match s with
  | [] => if is_nil Lp then [] else [OSgr []]
  | ch :: s' => (match emc Lp (A k) with Some b => [OSgr b] | None => [] end)
                ++ OText [ch] :: ptoks s' (S k) (A k) A
  end.

Lemma ptoks_bytes A : forall s k Lp, bytes_of (ptoks s k Lp A) = prender s k Lp A.
Proof.
  induction s as [|ch s IH]; intros k Lp; cbn [ptoks prender].
  - now destruct (is_nil Lp).
  - rewrite bytes_of_app. cbn [bytes_of flat_map bytes_of_tok]. fold (bytes_of (ptoks s (S k) (A k) A)).
    rewrite IH. destruct (emc Lp (A k)); cbn [bytes_of flat_map bytes_of_tok emit app]; [|reflexivity].
    now rewrite app_nil_r.
Qed.

Lemma ptoks_text A : forall s k Lp, txt_of (ptoks s k Lp A) = s.
Proof.
  induction s as [|ch s IH]; intros k Lp; cbn [ptoks].
  - now destruct (is_nil Lp).
  - unfold txt_of. rewrite flat_map_app. cbn [flat_map]. fold (txt_of (ptoks s (S k) (A k) A)). rewrite IH.
    now destruct (emc Lp (A k)).
Qed.

Definition Ap (A : nat -> list str) (k : nat) : list str := match k with 0 => [] | S j => A j end.
Definition K3 (Lp Ln : list str) : Prop := Ln = filter (fun t => mem t Ln) Lp ++ news Lp Ln.

Lemma seqs_flat_chars (s : str) l pos : seqs_flat (map TChar s ++ l) pos = seqs_flat l (pos + length s).
Proof.
  revert pos. induction s as [|c s IH]; intros pos; cbn [map app seqs_flat length]; [now rewrite Nat.add_0_r|].
  rewrite IH. f_equal. lia.
Qed.

Section Reparse.
Variable text : str.
Variable A : nat -> list str.
Hypothesis HAc : forall k, canonL (A k).
Hypothesis HAn : forall k, nfL (A k).
Hypothesis HAk : forall k, k < length text -> K3 (Ap A k) (A k).
Hypothesis Hesc : no_esc text = true.

Lemma ptoks_ok : forall s k Lp, no_esc s = true -> canonL Lp -> nfL Lp ->
  (forall j, k <= j -> canonL (A j) /\ nfL (A j)) ->
  (forall j, k <= j < k + length s -> K3 (Ap A j) (A j)) -> Lp = Ap A k ->
  Forall tok_ok (ptoks s k Lp A) /\ Forall tok_num (ptoks s k Lp A).
Proof.
  induction s as [|ch s IH]; intros k Lp He Hc Hn Hall Hk3 ELp; cbn [ptoks].
  - destruct (is_nil Lp); split; repeat constructor.
  - unfold RenderProofs.no_esc in He. cbn [forallb] in He. apply andb_true_iff in He as [He1 He2].
    destruct (IH (S k) (A k) He2 (proj1 (Hall k (le_n _))) (proj2 (Hall k (le_n _)))) as [I1 I2].
    { intros j Hj. apply Hall. lia. }
    { intros j Hj. apply Hk3. cbn [length]. lia. }
    { reflexivity. }
    assert (Hb : forall b, emc Lp (A k) = Some b -> numeric b = true).
    { intros b Eb.
      (* the shapes of b do not depend on the dictionary: use C_main with an empty one when possible *)
      unfold emc, em in Eb. cbv zeta in Eb.
      assert (HnD : nfL (dcodes Lp (A k))) by (apply nfL_app; [apply nfL_clears|apply nfL_news, Hall; lia]).
      destruct (is_nil (jn (dcodes Lp (A k)))); [discriminate|]. inversion Eb as [Eb']. clear Eb.
      destruct (_ <? _); [now apply numeric_jn_nf|].
      destruct (negb (is_nil Lp) && negb (is_nil (A k))) eqn:E; [|apply numeric_jn_nf, Hall; lia].
      apply andb_true_iff in E as [_ E]. apply negb_true_iff in E.
      rewrite jn_cons by (intros E'; rewrite E' in E; discriminate). cbn [app].
      apply numeric_zero_prefix. apply numeric_jn_nf, Hall. lia. }
    split; apply Forall_app; split; try (constructor; [|assumption]).
    + destruct (emc Lp (A k)) as [b|]; [|constructor]. repeat constructor. cbn [tok_ok].
      apply dsc_nonfinal. exact (Hb b eq_refl).
    + cbn [tok_ok]. unfold RenderProofs.no_esc. cbn [forallb]. now rewrite He1.
    + destruct (emc Lp (A k)) as [b|]; [|constructor]. repeat constructor. cbn [tok_num]. exact (Hb b eq_refl).
    + exact I.
Qed.

Lemma reparse_loop : forall s k Lp sx cur nid,
  PInv sx cur k nid -> base sx = text -> length text = k + length s ->
  (forall j, k <= j < length text -> AT sx j = Lp) -> Lp = Ap A k ->
  let r := parse_fold text (seqs_flat (toks_of (ptoks s k Lp A)) k) (sx, cur, nid) in
  forall j, j < length text -> AT (fst (fst r)) j = if j <? k then AT sx j else A j.
Proof.
  induction s as [|ch s IH]; intros k Lp sx cur nid Hinv Hb Hlen HLp ELp r j Hj.
  - cbn [length] in Hlen. replace (j <? k) with true by (symmetry; apply Nat.ltb_lt; lia).
    unfold r. cbn [ptoks]. destruct (is_nil Lp); [reflexivity|].
    cbn [toks_of flat_map tok_of app seqs_flat]. rewrite parse_fold_cons. cbn [fst].
    replace (length text <=? k) with true by (symmetry; apply Nat.leb_le; lia). reflexivity.
  - cbn [length] in Hlen.
    assert (Hk : k < length text) by lia.
    assert (Hcur : cur_ok cur) by apply Hinv.
    assert (HRep : RepT cur Lp).
    { rewrite <- (HLp k) by lia. apply Rep_RepT. destruct Hinv as (_ & _ & _ & Hrep & _). apply Hrep. rewrite Hb. lia. }
    assert (HcLp : canonL Lp) by (rewrite ELp; destruct k; [apply canonL_nil|apply HAc]).
    pose proof (HAk k Hk) as HK. rewrite <- ELp in HK.
    unfold r. cbn [ptoks]. unfold toks_of. rewrite flat_map_app. cbn [flat_map tok_of map]. fold (toks_of (ptoks s (S k) (A k) A)).
    destruct (emc Lp (A k)) as [b|] eqn:Eb.
    + cbn [flat_map tok_of app seqs_flat]. rewrite parse_fold_cons. cbn [fst snd cs_body].
      replace (length text <=? k) with false by (symmetry; apply Nat.leb_gt; lia).
      destruct (C_main cur nid Lp (A k) Hcur HRep HcLp (HAc k) (HAn k) HK b Eb) as (Hnum & texts & Hp & Htx & HLn).
      pose proof (parse_step_inv sx cur k b nid Hinv ltac:(now rewrite Hb)) as Hst. cbv zeta in Hst.
      pose proof (parse_step_exact sx cur k b nid texts Hinv ltac:(now rewrite Hb) Hp) as Hex.
      destruct (parse_step sx cur k b nid) as [[s1 cur1] nid1]. cbn [fst snd] in Hst, Hex.
      destruct Hst as (Hinv1 & Hn1 & Hb1 & Hlo1).
      assert (Hnew : forall i, k <= i < length text -> AT s1 i = A k).
      { intros i Hi. rewrite Hex by (rewrite Hb; exact Hi). rewrite (HLp i Hi).
        rewrite (keep_still cur nid texts Lp Hcur HRep). exact HLn. }
      cbn [seqs_flat].
      rewrite (IH (S k) (A k) s1 cur1 nid1); try lia; auto.
      * destruct (j <? S k) eqn:E1; destruct (j <? k) eqn:E2; try reflexivity.
        -- unfold AT. rewrite Hlo1; [reflexivity|]. now apply Nat.ltb_lt.
        -- apply Nat.ltb_lt in E1. apply Nat.ltb_ge in E2. assert (j = k) by lia. subst j. apply Hnew. lia.
        -- apply Nat.ltb_ge in E1. apply Nat.ltb_lt in E2. lia.
      * eapply PInv_mono; eauto.
      * congruence.
      * intros i Hi. apply Hnew. lia.
    + cbn [app]. pose proof (emc_none Lp (A k) HcLp (HAn k) HK Eb) as EA.
      cbn [seqs_flat].
      rewrite (IH (S k) (A k) sx cur nid); try lia; auto.
      * destruct (j <? S k) eqn:E1; destruct (j <? k) eqn:E2; try reflexivity.
        -- apply Nat.ltb_lt in E1. apply Nat.ltb_ge in E2. assert (j = k) by lia. subst j. rewrite EA. apply HLp. lia.
        -- apply Nat.ltb_ge in E1. apply Nat.ltb_lt in E2. lia.
      * eapply PInv_mono; eauto.
      * intros i Hi. rewrite EA. apply HLp. lia.
Qed.
End Reparse.

(* ====================================================================================== *)
(* The rendering of a canonical value is a fixed point                                      *)
(* ====================================================================================== *)
Definition canonical (c : astr) : Prop :=
  rm_wf c /\ adds_parsable (tbl c) /\ no_esc (base c) = true
  /\ (forall k, canonL (AT c k)) /\ (forall k, nfL (AT c k))
  /\ (forall k, k < length (base c) -> K3 (Ap (AT c) k) (AT c k)).

Lemma AT_beyond c k : rm_wf c -> length (base c) <= k -> AT c k = [].
Proof.
  intros (Hs & _ & _ & Hkeys & Hfin) Hk. unfold AT. rewrite active_beyond; auto.
  - now rewrite Hfin.
  - intros kp Hin. specialize (Hkeys kp Hin). lia.
Qed.

Lemma prender_ext A A' : (forall j, A j = A' j) -> forall s k L, prender s k L A = prender s k L A'.
Proof. intros H. induction s as [|ch s IH]; intros k L; cbn [prender]; [reflexivity|]. now rewrite H, IH. Qed.

Lemma canonical_render c : canonical c -> render c = prender (base c) 0 [] (AT c).
Proof.
  intros ((Hs & _ & Hst & _) & Hp & _ & Hc & _). destruct c as [s tb]. cbn [base tbl] in *.
  unfold render. apply (render_prender s tb Hs Hst Hc). now apply adds_parsable_tbl.
Qed.

Theorem canonical_fixed_point c n : canonical c ->
  let c' := fst (parse (render c) n) in
  render c' = render c /\ canonical c' /\ base c' = base c /\ forall k, AT c' k = AT c k.
Proof.
  intros Hcan c'. pose proof Hcan as (Hwf & Hp & Hesc & Hc & Hn & Hk3).
  set (text := base c). set (A := AT c).
  assert (Hr : render c = bytes_of (ptoks text 0 [] A)) by (rewrite ptoks_bytes; now apply canonical_render).
  destruct (ptoks_ok text A Hc Hn Hk3 text 0 [] Hesc canonL_nil ltac:(intros t []) ltac:(intros j _; split; [apply Hc|apply Hn])
              ltac:(intros j Hj; apply Hk3; unfold text in Hj; cbn [plus] in Hj; lia) eq_refl) as [Hok Hnum].
  assert (Htk : tkz (render c) = toks_of (ptoks text 0 [] A)) by (rewrite Hr; now apply tokenize_bytes).
  assert (Hbase : base c' = text).
  { unfold c'. rewrite parse_base, Htk, unformatted_toks_of. apply ptoks_text. }
  assert (HAT : forall k, AT c' k = A k).
  { intros k. destruct (lt_dec k (length text)) as [Hlt|Hge].
    - unfold c'. rewrite parse_eq. cbv zeta. cbn [fst]. rewrite Htk, unformatted_toks_of, ptoks_text.
      pose proof (reparse_loop text A Hc Hn Hk3 text 0 [] (mkA text []) [] n (PInv_init _ _) eq_refl eq_refl
                 ltac:(intros j _; reflexivity) eq_refl k Hlt) as Hrp.
      cbv zeta in Hrp. etransitivity; [exact Hrp|reflexivity].
    - unfold A. rewrite (AT_beyond c k Hwf) by (fold text; lia).
      apply AT_beyond; [apply parse_wf|]. rewrite Hbase. lia. }
  assert (Hcan' : canonical c').
  { split; [apply parse_wf|]. split; [apply parse_adds_parsable|]. split; [now rewrite Hbase|].
    split; [intros k; rewrite HAT; apply Hc|]. split; [intros k; rewrite HAT; apply Hn|].
    intros k Hk. rewrite Hbase in Hk. rewrite HAT. replace (Ap (AT c') k) with (Ap A k).
    - now apply Hk3.
    - destruct k; [reflexivity|]. cbn [Ap]. now rewrite HAT. }
  split; [|split; [exact Hcan'|split; [exact Hbase|exact HAT]]].
  rewrite (canonical_render c' Hcan'), (canonical_render c Hcan), Hbase. fold text. now apply prender_ext.
Qed.

(* ====================================================================================== *)
(* (T1) parsing a string with at most one sequence per text position gives a canonical value *)
(* ====================================================================================== *)
Fixpoint sep (may : bool) (toks : list otok) : Prop :=
  match toks with
  | [] => True
  | OText [] :: r => sep may r
  | OText (_ :: _) :: r => sep true r
  | OSgr _ :: r => may = true /\ sep false r
  end.

Lemma K3_refl L : canonL L -> K3 L L.
Proof.
  intros Hc. unfold K3, news. rewrite filter_all, filter_none; [now rewrite app_nil_r| |].
  - intros t Ht. apply negb_false_iff. now apply mem_In.
  - intros t Ht. now apply mem_In.
Qed.

Lemma parsable_nf g : parsable (textN g) = true -> parsableN g = true.
Proof. intros H. destruct g as [|v r]; [vm_compute in H; discriminate|]. now rewrite <- parsable_textN. Qed.

Lemma numeric_texts b : numeric b = true -> exists gs, pgs_str b false = OK (map textN gs).
Proof. intros H. rewrite (pgs_str_numeric b H). eauto. Qed.

Definition TI (text : str) (sx : astr) (cur : dict vset) (pos nid : nat) (may : bool) : Prop :=
  PInv sx cur pos nid /\ base sx = text
  /\ (forall k, canonL (AT sx k)) /\ (forall k, nfL (AT sx k))
  /\ (forall k, k < pos -> k < length text -> K3 (Ap (AT sx) k) (AT sx k))
  /\ (pos < length text -> (may = true -> AT sx pos = Ap (AT sx) pos)
                           /\ (may = false -> K3 (Ap (AT sx) pos) (AT sx pos))).

Lemma AT_const sx cur pos nid k : PInv sx cur pos nid -> pos <= k < length (base sx) -> AT sx k = AT sx pos.
Proof. intros H Hk. unfold AT. now rewrite (PInv_const sx cur pos nid k H Hk). Qed.

Lemma TI_advance text sx cur pos nid may n : TI text sx cur pos nid may -> 0 < n -> pos + n <= length text ->
  TI text sx cur (pos + n) nid true.
Proof.
  intros (Hinv & Hb & Hc & Hn & Hk & Hp) Hn0 Hle. split; [eapply PInv_mono; eauto; lia|]. split; [exact Hb|].
  split; [exact Hc|]. split; [exact Hn|]. split.
  - intros k Hk1 Hk2. destruct (lt_dec k pos) as [Hl|Hl]; [now apply Hk|].
    destruct (Nat.eq_dec k pos) as [->|Hne].
    + destruct (Hp ltac:(lia)) as [Ht Hf]. destruct may; [|now apply Hf]. rewrite <- (Ht eq_refl). apply K3_refl, Hc.
    + destruct k as [|k']; [lia|]. cbn [Ap].
      rewrite (AT_const sx cur pos nid (S k') Hinv) by (rewrite Hb; lia).
      rewrite (AT_const sx cur pos nid k' Hinv) by (rewrite Hb; lia). apply K3_refl, Hc.
  - intros Hlt. split; [|discriminate]. intros _. destruct (pos + n) as [|m] eqn:E; [lia|]. cbn [Ap].
    rewrite (AT_const sx cur pos nid (S m) Hinv) by (rewrite Hb; lia).
    rewrite (AT_const sx cur pos nid m Hinv) by (rewrite Hb; lia). reflexivity.
Qed.

Lemma TI_step text sx cur pos nid b : TI text sx cur pos nid true -> pos < length text -> numeric b = true ->
  let r := parse_step sx cur pos b nid in TI text (fst (fst r)) (snd (fst r)) pos (snd r) false.
Proof.
  intros (Hinv & Hb & Hc & Hn & Hk & Hp) Hlt Hnum r.
  destruct (numeric_texts b Hnum) as (gs & Hpgs). pose proof (pgs_str_texts b _ Hpgs) as Htx.
  pose proof (parse_step_inv sx cur pos b nid Hinv ltac:(now rewrite Hb)) as Hst. cbv zeta in Hst.
  pose proof (parse_step_exact sx cur pos b nid _ Hinv ltac:(now rewrite Hb) Hpgs) as Hex.
  unfold r. destruct (parse_step sx cur pos b nid) as [[s1 cur1] nid1]. cbn [fst snd] in *.
  destruct Hst as (Hinv1 & Hn1 & Hb1 & Hlo1).
  assert (Hcur : cur_ok cur) by apply Hinv.
  set (L := AT sx pos).
  assert (HRep : RepT cur L).
  { apply Rep_RepT. destruct Hinv as (_ & _ & _ & Hrep & _). apply Hrep. rewrite Hb. lia. }
  assert (Hnew : forall k, pos <= k < length text -> AT s1 k = Lnew cur nid (map textN gs) L).
  { intros k Hk1. rewrite Hex by (rewrite Hb; exact Hk1). rewrite (AT_const sx cur pos nid k Hinv) by (rewrite Hb; exact Hk1).
    fold L. now rewrite (keep_still cur nid _ L Hcur HRep). }
  assert (Hold : forall k, k < pos -> AT s1 k = AT sx k) by (intros k Hk1; unfold AT; rewrite Hlo1 by exact Hk1; reflexivity).
  assert (Hwf1 : rm_wf s1) by apply Hinv1.
  assert (HcN : canonL (Lnew cur nid (map textN gs) L)) by (apply Lnew_canon; auto; apply Hc).
  assert (HnN : nfL (Lnew cur nid (map textN gs) L)).
  { intros t Ht. unfold Lnew in Ht. apply in_app_or in Ht as [Ht|Ht].
    - apply filter_In in Ht as [Ht _]. now apply (Hn pos).
    - destruct (in_to_app cur nid _ L Hcur Htx HRep t Ht) as (_ & sv & Hsv & Es & _ & _ & Hpar).
      apply SX_in in Hsv. rewrite Es in Hsv. apply in_map_iff in Hsv as (g & <- & _). exists g. split; auto.
      now apply parsable_nf. }
  assert (HAp : forall k, k <= pos -> Ap (AT s1) k = Ap (AT sx) k).
  { intros [|k'] Hk1; [reflexivity|]. cbn [Ap]. apply Hold. lia. }
  split; [exact Hinv1|]. split; [congruence|]. split; [|split; [|split]].
  - intros k. destruct (lt_dec k pos) as [H1|H1]; [rewrite Hold by exact H1; apply Hc|].
    destruct (lt_dec k (length text)) as [H2|H2]; [rewrite Hnew by lia; exact HcN|].
    rewrite AT_beyond; [apply canonL_nil|exact Hwf1|]. rewrite Hb1, Hb. lia.
  - intros k. destruct (lt_dec k pos) as [H1|H1]; [rewrite Hold by exact H1; apply Hn|].
    destruct (lt_dec k (length text)) as [H2|H2]; [rewrite Hnew by lia; exact HnN|].
    rewrite AT_beyond; [intros t []|exact Hwf1|]. rewrite Hb1, Hb. lia.
  - intros k H1 H2. rewrite HAp by lia. rewrite Hold by exact H1. now apply Hk.
  - intros _. split; [discriminate|]. intros _. rewrite HAp by lia. rewrite Hnew by lia.
    destruct (Hp Hlt) as [Ht _]. rewrite <- (Ht eq_refl). fold L. unfold K3. now apply Lnew_K3.
Qed.

Lemma parse_sep_loop text : forall toks pos sx cur nid may,
  TI text sx cur pos nid may -> sep may toks -> Forall tok_num toks -> length text = pos + length (txt_of toks) ->
  let s' := fst (fst (parse_fold text (seqs_flat (toks_of toks) pos) (sx, cur, nid))) in
  (forall k, canonL (AT s' k)) /\ (forall k, nfL (AT s' k))
  /\ (forall k, k < length text -> K3 (Ap (AT s') k) (AT s' k)).
Proof.
  induction toks as [|[s|b] toks IH]; intros pos sx cur nid may HTI Hsep Hnum Hlen.
  - cbn [txt_of flat_map length] in Hlen. destruct HTI as (_ & _ & Hc & Hn & Hk & _). cbn.
    split; [exact Hc|]. split; [exact Hn|]. intros k Hk1. apply Hk; lia.
  - inversion Hnum as [|? ? _ Hnum']; subst. unfold toks_of. cbn [flat_map tok_of]. fold (toks_of toks).
    rewrite seqs_flat_chars. unfold txt_of in Hlen. cbn [flat_map] in Hlen. fold (txt_of toks) in Hlen.
    rewrite app_length in Hlen. destruct s as [|c s].
    + cbn [length] in *. rewrite Nat.add_0_r. apply (IH pos sx cur nid may); auto.
    + apply (IH (pos + length (c :: s)) sx cur nid true); auto; [|lia].
      apply (TI_advance text sx cur pos nid may); auto; cbn [length] in *; lia.
  - inversion Hnum as [|? ? Hb Hnum']; subst. cbn [tok_num] in Hb. destruct Hsep as [-> Hsep].
    unfold toks_of. cbn [flat_map tok_of app seqs_flat]. fold (toks_of toks). rewrite parse_fold_cons. cbn [fst snd cs_body].
    unfold txt_of in Hlen. cbn [flat_map app] in Hlen. fold (txt_of toks) in Hlen.
    destruct (length text <=? pos) eqn:E.
    + apply Nat.leb_le in E. apply (IH pos sx cur nid false); auto.
      destruct HTI as (H1 & H2 & H3 & H4 & H5 & H6).
      split; [exact H1|]. split; [exact H2|]. split; [exact H3|]. split; [exact H4|]. split; [exact H5|]. intros; lia.
    + apply Nat.leb_gt in E. pose proof (TI_step text sx cur pos nid b HTI E Hb) as H. cbv zeta in H.
      destruct (parse_step sx cur pos b nid) as [[s1 cur1] nid1]. cbn [fst snd] in H.
      apply (IH pos s1 cur1 nid1 false); auto.
Qed.

Lemma no_esc_txt_of l : Forall tok_ok l -> no_esc (txt_of l) = true.
Proof.
  induction 1 as [|k l Hk Hl IH]; [reflexivity|].
  change (txt_of (k :: l)) with ((match k with OText s => s | OSgr _ => [] end) ++ txt_of l).
  unfold RenderProofs.no_esc in *. rewrite forallb_app. apply andb_true_iff. split; [|exact IH]. destruct k; [exact Hk|reflexivity].
Qed.

Theorem parse_canonical toks nid : Forall tok_ok toks -> Forall tok_num toks -> sep true toks ->
  canonical (fst (parse (bytes_of toks) nid)) /\ base (fst (parse (bytes_of toks) nid)) = txt_of toks.
Proof.
  intros Hok Hnum Hsep.
  assert (Htk : tkz (bytes_of toks) = toks_of toks) by now apply tokenize_bytes.
  assert (Hbase : base (fst (parse (bytes_of toks) nid)) = txt_of toks).
  { rewrite parse_base, Htk. apply unformatted_toks_of. }
  split; [|exact Hbase]. split; [apply parse_wf|]. split; [apply parse_adds_parsable|]. split.
  { rewrite Hbase. now apply no_esc_txt_of. }
  rewrite Hbase. rewrite parse_eq. cbv zeta. cbn [fst]. rewrite Htk, unformatted_toks_of.
  apply (parse_sep_loop (txt_of toks) toks 0 (mkA (txt_of toks) []) [] nid true); auto.
  split; [apply PInv_init|]. split; [reflexivity|]. split; [intros k; apply canonL_nil|]. split; [intros k t []|].
  split; [intros k Hk; lia|]. intros _. split; [reflexivity|discriminate].
Qed.

(* ====================================================================================== *)
(* (Sep) a rendering has at most one sequence per text position                             *)
(* ====================================================================================== *)
Fixpoint sepe (may : bool) (toks : list otok) : option bool :=
  match toks with
  | [] => Some may
  | OText [] :: r => sepe may r
  | OText (_ :: _) :: r => sepe true r
  | OSgr _ :: r => if may then sepe false r else None
  end.

Lemma sep_sepe toks : forall may, sep may toks <-> sepe may toks <> None.
Proof.
  induction toks as [|[[|c s]|b] toks IH]; intros may; cbn [sep sepe]; try apply IH.
  - split; [discriminate|auto].
  - destruct may; [rewrite IH; tauto|]. split; [intros [H _]; discriminate|congruence].
Qed.

Lemma sepe_app a : forall may b, sepe may (a ++ b) = match sepe may a with Some m => sepe m b | None => None end.
Proof.
  induction a as [|[[|c s]|x] a IH]; intros may b; cbn [app sepe]; auto. destruct may; auto.
Qed.

Lemma sepe_text may x : x <> [] -> sepe may [OText x] = Some true.
Proof. destruct x; [congruence|reflexivity]. Qed.

Lemma slice_nonnil (s : str) a b : a < b -> b <= length s -> str_slice s a b <> [].
Proof. intros H1 H2 E. pose proof (str_slice_length s a b H2) as Hl. rewrite E in Hl. cbn in Hl. lia. Qed.

Lemma render_point_shape s opt rs st idx p cur :
  exists e, r_out (render_point s opt rs st idx p cur)
            = r_out st ++ (if r_first st && (0 <? idx) && rs then [OSgr []] else [])
              ++ (if is_nil (str_slice s (r_last st) idx) then [] else [OText (str_slice s (r_last st) idx)]) ++ e
    /\ (e = [] \/ exists c, e = [OSgr c])
    /\ r_last (render_point s opt rs st idx p cur) = idx /\ r_first (render_point s opt rs st idx p cur) = false.
Proof.
  destruct opt.
  - rewrite render_point_opt. cbv zeta. cbn [r_out r_last r_first]. eexists. split; [reflexivity|].
    split; [|split; reflexivity]. destruct (fst _); [right; eauto|now left].
  - rewrite render_point_unopt. cbn [r_out r_last r_first]. eexists. split; [reflexivity|].
    split; [right; eauto|split; reflexivity].
Qed.

Definition Sv (s : str) (st : rstate) : Prop :=
  (exists m, sepe true (r_out st) = Some m)
  /\ (r_first st = true -> r_out st = [] /\ r_last st = 0 /\ r_exist st = false)
  /\ (r_first st = false -> r_last st < length s).

Lemma loop_sep s opt rs : forall t act st, ssorted t -> Sv s st ->
  (r_first st = false -> forall kp, In kp t -> r_last st < fst kp) ->
  Sv s (render_loop s opt rs (iter_states t act) st).
Proof.
  induction t as [|[k p] t IH]; intros act st Hs Hsv Hk; cbn [iter_states render_loop]; [exact Hsv|].
  destruct (length s <=? k) eqn:E; [exact Hsv|]. apply Nat.leb_gt in E.
  inversion Hs as [|? ? ? Hkt Hst]; subst.
  destruct (render_point_shape s opt rs st k p (step act p)) as (e & Eo & He & El & Ef).
  apply IH; [exact Hst| |].
  - destruct Hsv as ((m & Hm) & H1 & H2). split; [|split].
    + rewrite Eo. destruct (r_first st) eqn:Efst.
      * destruct (H1 eq_refl) as (-> & Hl0 & _). rewrite Hl0. cbn [app andb].
        destruct k as [|k'].
        -- change (0 <? 0) with false. cbn [andb app]. unfold str_slice. cbn [is_nil app].
           destruct He as [->|(c & ->)]; eexists; reflexivity.
        -- change (0 <? S k') with true. cbn [andb].
           pose proof (slice_nonnil s 0 (S k') ltac:(lia) ltac:(lia)) as Hne.
           destruct (str_slice s 0 (S k')) as [|c0 x] eqn:Ex; [congruence|]. cbn [is_nil].
           destruct rs; destruct He as [->|(c & ->)]; eexists; reflexivity.
      * cbn [andb app]. assert (Hlt : r_last st < k) by (apply (Hk eq_refl (k, p)); now left).
        pose proof (slice_nonnil s (r_last st) k Hlt ltac:(lia)) as Hne.
        destruct (str_slice s (r_last st) k) as [|c0 x] eqn:Ex; [congruence|]. cbn [is_nil].
        rewrite sepe_app, Hm. destruct He as [->|(c & ->)]; eexists; reflexivity.
    + rewrite Ef. discriminate.
    + intros _. now rewrite El.
  - intros _ kp Hin. rewrite El. now apply Hkt.
Qed.

Theorem to_str_toks_sep s opt rs re : ssorted (tbl s) -> sep true (to_str_toks s opt rs re).
Proof.
  intros Hs. apply sep_sepe. unfold to_str_toks. destruct (is_nil (tbl s) && negb rs).
  - destruct (base s); cbn; discriminate.
  - set (o := opt && is_parsable_tbl (tbl s)).
    assert (H0 : Sv (base s) {| r_out := []; r_last := 0; r_dict := []; r_exist := false; r_first := true |}).
    { split; [now exists true|]. split; [auto|discriminate]. }
    pose proof (loop_sep (base s) o rs (tbl s) [] _ Hs H0 ltac:(discriminate)) as ((m & Hm) & H1 & H2).
    set (st := render_loop _ _ _ _ _) in *. rewrite sepe_app, Hm.
    destruct (r_first st) eqn:Ef.
    + destruct (H1 eq_refl) as (Ho & Hl & Hex). rewrite Ho in Hm. inversion Hm; subst m. rewrite Hl, Hex. cbn [skipn andb].
      destruct rs; cbn [app sepe]; destruct (base s) as [|c x]; cbn [is_nil app sepe]; discriminate.
    + cbn [andb app]. pose proof (H2 eq_refl) as Hlt.
      assert (Hne : skipn (r_last st) (base s) <> []).
      { intros E. pose proof (skipn_length (r_last st) (base s)) as Hl. rewrite E in Hl. cbn in Hl. lia. }
      destruct (skipn (r_last st) (base s)) as [|c x]; [congruence|]. cbn [is_nil app sepe].
      destruct (r_exist st && re); discriminate.
Qed.

(* ====================================================================================== *)
(* Stability                                                                                 *)
(* ====================================================================================== *)
Theorem parse_to_str_canonical s opt rs re nid :
  ssorted (tbl s) -> no_esc (base s) = true -> adds_wf (tbl s) ->
  canonical (fst (parse (to_str s opt rs re) nid)).
Proof.
  intros Hs He Hwf. unfold to_str.
  apply parse_canonical; [now apply to_str_toks_ok|now apply to_str_toks_num|now apply to_str_toks_sep].
Qed.

Theorem simplify_canonical s nid :
  ssorted (tbl s) -> no_esc (base s) = true -> valid_adds_wf (tbl s) -> canonical (fst (simplify s nid)).
Proof.
  intros Hs He Hwf. rewrite simplify_def. apply parse_to_str_canonical; cbn [base tbl]; auto.
  - now apply drop_invalid_sorted.
  - now apply drop_invalid_wf.
Qed.

(* the rendering of a simplified value is a fixed point of parse-then-render *)
Theorem simplify_fixed_point s n1 n :
  ssorted (tbl s) -> no_esc (base s) = true -> valid_adds_wf (tbl s) ->
  let s1 := fst (simplify s n1) in
  render (fst (parse (render s1) n)) = render s1.
Proof. intros Hs He Hwf s1. apply canonical_fixed_point. now apply simplify_canonical. Qed.

(* more generally: AnsiString(str(x)) is such a fixed point for every x with well-formed settings *)
Theorem reparse_fixed_point s nid n :
  ssorted (tbl s) -> no_esc (base s) = true -> adds_wf (tbl s) ->
  let c := fst (parse (render s) nid) in
  render (fst (parse (render c) n)) = render c.
Proof. intros Hs He Hwf c. apply canonical_fixed_point. now apply parse_to_str_canonical. Qed.

(* ====================================================================================== *)
(* Every marker of a parse output is one of its settings' objects: markers are parsable     *)
(* ====================================================================================== *)
Definition psub (p : point) (U : setting -> Prop) : Prop := forall x, In x (padd p) \/ In x (prem p) -> U x.
Definition lsub (l : list setting) (U : setting -> Prop) : Prop := forall x, In x l -> U x.

Lemma remove_nth_in {A} (l : list A) : forall i y, In y (remove_nth i l) -> In y l.
Proof.
  induction l as [|a l IH]; intros [|i] y; cbn [remove_nth]; auto.
  - intros H. now right.
  - intros [->|H]; [now left|right; eauto].
Qed.

Lemma remove_at_start_sub sel U cur : forall p rd, lsub cur U -> psub p U -> lsub rd U ->
  psub (fst (remove_at_start sel cur p rd)) U /\ lsub (snd (remove_at_start sel cur p rd)) U.
Proof.
  unfold remove_at_start. induction cur as [|x cur IH]; intros p rd Hc Hp Hr; [now split|].
  cbn [fold_left]. assert (Hx : U x) by (apply Hc; now left).
  assert (Hc' : lsub cur U) by (intros y Hy; apply Hc; now right).
  assert (Hr' : lsub (rd ++ [x]) U) by (intros y Hy; apply in_app_or in Hy as [Hy|[<-|[]]]; auto).
  destruct (selected sel x); [|now apply IH]. destruct (find_ref x (padd p)) as [i|].
  - apply IH; auto. intros y Hy. cbn [padd prem] in Hy. apply Hp.
    destruct Hy as [Hy|Hy]; [left; eapply remove_nth_in; eauto|now right].
  - apply IH; auto. intros y [Hy|Hy]; cbn [padd prem] in Hy; [apply Hp; now left|].
    apply in_app_or in Hy as [Hy|[<-|[]]]; auto.
Qed.

Lemma rem_pass_sub U rems rd : lsub rems U -> lsub rd U ->
  lsub (fst (rem_pass rems rd)) U /\ lsub (snd (rem_pass rems rd)) U.
Proof.
  unfold rem_pass. induction rems as [|x rems IH]; intros Hm Hr; [now split|]. cbn [fold_right].
  destruct (IH (fun y Hy => Hm y (or_intror Hy)) Hr) as [I1 I2].
  destruct (fold_right _ _ rems) as [keep rd']. cbn [fst snd] in *.
  destruct (find_ref x rd') as [i|]; cbn [fst snd].
  - split; auto. intros y Hy. apply I2. eapply remove_nth_in; eauto.
  - split; auto. intros y [<-|Hy]; auto. apply Hm. now left.
Qed.

Lemma add_pass_sub sel U adds rd : lsub adds U -> lsub rd U ->
  lsub (fst (add_pass sel adds rd)) U /\ lsub (snd (add_pass sel adds rd)) U.
Proof.
  unfold add_pass. induction adds as [|x adds IH]; intros Ha Hr; [now split|]. cbn [fold_right].
  destruct (IH (fun y Hy => Ha y (or_intror Hy)) Hr) as [I1 I2].
  destruct (fold_right _ _ adds) as [keep rd']. cbn [fst snd] in *.
  assert (Hx : U x) by (apply Ha; now left).
  destruct (selected sel x); cbn [fst snd]; split; auto.
  - intros y Hy. apply in_app_or in Hy as [Hy|[<-|[]]]; auto.
  - intros y [<-|Hy]; auto.
Qed.

Lemma last_opt_in {A} (l : list A) x : last_opt l = Some x -> In x l.
Proof.
  induction l as [|a l IH]; [discriminate|]. cbn [last_opt]. destruct l as [|b l]; [intros H; inversion H; now left|].
  intros H. right. now apply IH.
Qed.

Lemma remove_at_end_sub len en U cur p rem' rd : lsub cur U -> psub p U -> lsub rem' U ->
  psub (remove_at_end len en cur p rem' rd) U.
Proof.
  intros Hc Hp Hr. unfold remove_at_end. destruct (negb (Nat.eqb en len) && negb (is_nil rd)).
  - set (original := firstn (length cur - length (padd p)) cur).
    assert (Ho : lsub original U) by (intros y Hy; apply Hc; eapply firstn_in; eauto).
    set (restart := match min_pos rd original with Some f => skipn f original
                    | None => match last_opt original with Some x => [x] | None => [] end end).
    assert (Hrs : lsub restart U).
    { unfold restart. destruct (min_pos rd original) as [f|].
      - intros y Hy. apply Ho. eapply skipn_in; eauto.
      - destruct (last_opt original) as [x|] eqn:E; [|intros y []]. intros y [<-|[]]. apply Ho. now apply last_opt_in. }
    intros y Hy. cbn [padd prem] in Hy. destruct Hy as [Hy|Hy]; apply in_app_or in Hy as [Hy|Hy].
    + now apply Hrs.
    + apply Hp. now left.
    + now apply Hr.
    + apply filter_In in Hy as [Hy _]. now apply Hrs.
  - intros y Hy. cbn [padd prem] in Hy. destruct Hy as [Hy|Hy]; [apply Hp; now left|now apply Hr].
Qed.

Lemma remove_loop_sub U len start en sel : forall states rd,
  (forall k p cur, In (k, p, cur) states -> psub p U /\ lsub cur U) -> lsub rd U ->
  forall kp, In kp (remove_loop states len start en sel rd) -> psub (snd kp) U.
Proof.
  induction states as [|[[k p] cur] states IH]; intros rd Hst Hr kp Hin; [destruct Hin|].
  destruct (Hst k p cur (or_introl eq_refl)) as [Hp Hc].
  assert (Hst' : forall k p cur, In (k, p, cur) states -> psub p U /\ lsub cur U) by (intros; eapply Hst; right; eauto).
  cbn [remove_loop] in Hin. destruct (k <? start).
  { destruct Hin as [<-|Hin]; [exact Hp|]. exact (IH rd Hst' Hr kp Hin). }
  destruct (en <? k).
  { destruct Hin as [<-|Hin]; [exact Hp|]. apply in_map_iff in Hin as ([[k' p'] cur'] & <- & Hin'). cbn [fst snd].
    now apply (Hst' k' p' cur'). }
  destruct (Nat.eqb k start).
  { destruct (remove_at_start_sub sel U cur p rd Hc Hp Hr) as [H1 H2].
    destruct (remove_at_start sel cur p rd) as [p' rd']. cbn [fst snd] in *.
    destruct Hin as [<-|Hin]; [exact H1|]. exact (IH rd' Hst' H2 kp Hin). }
  destruct (rem_pass_sub U (prem p) rd (fun y Hy => Hp y (or_intror Hy)) Hr) as [H1 H2].
  destruct (rem_pass (prem p) rd) as [rem' rd1]. cbn [fst snd] in *.
  destruct (Nat.eqb k en).
  { destruct Hin as [<-|Hin]; [now apply remove_at_end_sub|]. exact (IH rd1 Hst' H2 kp Hin). }
  destruct (add_pass_sub sel U (padd p) rd1 (fun y Hy => Hp y (or_introl Hy)) H2) as [H3 H4].
  destruct (add_pass sel (padd p) rd1) as [add' rd2]. cbn [fst snd] in *.
  destruct Hin as [<-|Hin]; [|exact (IH rd2 Hst' H4 kp Hin)].
  intros y [Hy|Hy]; cbn [padd prem snd] in Hy; auto.
Qed.

Definition marked (t : fmts) (x : setting) : Prop := exists kp, In kp t /\ (In x (padd (snd kp)) \/ In x (prem (snd kp))).

Lemma marked_all_marks t x : marked t x <-> In x (all_marks t).
Proof.
  unfold marked, all_marks. rewrite in_flat_map. split; intros (kp & H1 & H2); exists kp; split; auto.
  - apply in_or_app. tauto.
  - apply in_app_or in H2. tauto.
Qed.

Lemma tensure_in k t kp : In kp (tensure k t) -> kp = (k, empty_point) \/ In kp t.
Proof. unfold tensure. destruct (tmem k t); auto. apply tput_in_inv. Qed.

Theorem remove_core_marks s sel start en x :
  marked (tbl (remove_core s sel start en)) x -> marked (tbl s) x.
Proof.
  intros (kp & Hin & Hx). unfold remove_core in Hin. cbn [tbl] in Hin. unfold cleanup in Hin.
  apply filter_In in Hin as [Hin _].
  set (t := tensure en (tensure start (tbl s))) in *.
  assert (Ht : forall kq, In kq t -> psub (snd kq) (marked (tbl s))).
  { intros kq Hq. unfold t in Hq. apply tensure_in in Hq as [->|Hq]; [intros y [[]|[]]|].
    apply tensure_in in Hq as [->|Hq]; [intros y [[]|[]]|]. intros y Hy. now exists kq. }
  apply (remove_loop_sub (marked (tbl s)) (length (base s)) start en sel (iter_states t []) []) with (kp := kp); auto.
  - intros k p cur Hs. split.
    + assert (Hq : In (k, p) t).
      { rewrite <- (iter_states_proj t []). apply in_map_iff. exists (k, p, cur). split; [reflexivity|exact Hs]. }
      exact (Ht _ Hq).
    + intros y Hy. destruct (iter_states_in _ _ _ _ _ y Hs Hy) as [[]|Ha].
      apply in_all_adds in Ha as (k' & p' & Hq & Hy'). apply (Ht _ Hq). now left.
  - intros y [].
Qed.

Lemma tget_in k t p : tget k t = Some p -> In (k, p) t.
Proof.
  induction t as [|[k' p'] t IH]; cbn [tget]; [discriminate|].
  destruct (Nat.eqb k k') eqn:E; [apply Nat.eqb_eq in E; subst; intros H; inversion H; now left|].
  destruct (k <? k'); [discriminate|]. intros H. right. now apply IH.
Qed.

Lemma tget_or_empty_sub k t U : (forall kq, In kq t -> psub (snd kq) U) -> psub (tget_or_empty k t) U.
Proof.
  intros H. unfold tget_or_empty. destruct (tget k t) as [p|] eqn:E; [|intros y [[]|[]]].
  exact (H _ (tget_in _ _ _ E)).
Qed.

Theorem apply_core_marks s new start en x :
  marked (tbl (apply_core s new start en true)) x -> marked (tbl s) x \/ In x new.
Proof.
  intros (kp & Hin & Hx). unfold apply_core in Hin. cbn [tbl] in Hin. cbv zeta in Hin.
  set (U := fun y => marked (tbl s) y \/ In y new).
  change (U x).
  set (t := tensure start (tbl s)) in *.
  assert (Ht : forall kq, In kq t -> psub (snd kq) U).
  { intros kq Hq. unfold t in Hq. apply tensure_in in Hq as [->|Hq]; [intros y [[]|[]]|]. intros y Hy. left. now exists kq. }
  set (p := tget_or_empty start t) in *.
  assert (Hp : psub p U) by now apply tget_or_empty_sub.
  set (t1 := tput start (mkP (padd p ++ new) (prem p)) t) in *.
  assert (Ht1 : forall kq, In kq t1 -> psub (snd kq) U).
  { intros kq Hq. unfold t1 in Hq. apply tput_in_inv in Hq as [->|Hq]; [|now apply Ht].
    intros y [Hy|Hy]; cbn [snd padd prem] in Hy.
    - apply in_app_or in Hy as [Hy|Hy]; [apply Hp; now left|now right].
    - apply Hp. now right. }
  set (t3 := tensure en t1) in *.
  assert (Ht3 : forall kq, In kq t3 -> psub (snd kq) U).
  { intros kq Hq. unfold t3 in Hq. apply tensure_in in Hq as [->|Hq]; [intros y [[]|[]]|now apply Ht1]. }
  set (q := tget_or_empty en t3) in *.
  assert (Hq : psub q U) by now apply tget_or_empty_sub.
  apply tput_in_inv in Hin as [->|Hin]; [|exact (Ht3 _ Hin x Hx)].
  cbn [snd padd prem] in Hx. destruct Hx as [Hx|Hx]; [apply Hq; now left|].
  apply in_app_or in Hx as [Hx|Hx]; [apply Hq; now right|now right].
Qed.

Lemma remove_fmt_marks s sel st en x : marked (tbl (remove_fmt s sel st en)) x -> marked (tbl s) x.
Proof. unfold remove_fmt. destruct (range_empty _ _ _); auto. apply remove_core_marks. Qed.

Lemma apply_fmt_marks s new st en x : marked (tbl (apply_fmt s new st en true)) x -> marked (tbl s) x \/ In x new.
Proof. unfold apply_fmt. destruct (range_empty _ _ _ || is_nil new); auto. apply apply_core_marks. Qed.

Definition MV (t : fmts) : Prop := forall x, marked t x -> parsable (stxt x) = true.

Lemma parse_step_MV s cur key body nid : PInv s cur key nid -> key < length (base s) -> MV (tbl s) ->
  MV (tbl (fst (fst (parse_step s cur key body nid)))).
Proof.
  intros Hinv Hkey Hmv. destruct (pgs_str_ok body) as (texts & Hp). pose proof (pgs_str_texts body texts Hp) as Htx.
  rewrite (parse_step_unfold _ _ _ _ _ _ Hp). cbv zeta. cbn [fst].
  intros x Hx. apply apply_fmt_marks in Hx as [Hx|Hx].
  - apply Hmv. destruct (is_nil (step_rem cur nid texts)); [exact Hx|]. now apply remove_fmt_marks in Hx.
  - assert (Ht : In (stxt x) (step_app cur nid texts)).
    { rewrite <- (fresh_texts (step_app cur nid texts) (nid + length texts)). now apply in_map. }
    assert (HRep : RepT cur (AT s key)).
    { apply Rep_RepT. destruct Hinv as (_ & _ & _ & Hrep & _). apply Hrep. lia. }
    destruct (in_to_app cur nid texts (AT s key) ltac:(apply Hinv) Htx HRep _ Ht) as (_ & _ & _ & _ & _ & _ & Hpar).
    exact Hpar.
Qed.

Lemma parse_loop_MV text : forall l pos s cur nid,
  PInv s cur pos nid -> base s = text -> MV (tbl s) ->
  MV (tbl (fst (fst (parse_fold text (seqs_flat l pos) (s, cur, nid))))).
Proof.
  induction l as [|[c|q] l IH]; intros pos s cur nid Hinv Hb Hmv.
  - exact Hmv.
  - cbn [seqs_flat]. apply (IH (S pos) s cur nid); auto. eapply PInv_mono; eauto.
  - cbn [seqs_flat]. rewrite parse_fold_cons. cbn [fst snd].
    destruct (length text <=? pos) eqn:E; [now apply IH|]. apply Nat.leb_gt in E.
    pose proof (parse_step_inv s cur pos (cs_body q) nid Hinv ltac:(now rewrite Hb)) as Hst. cbv zeta in Hst.
    pose proof (parse_step_MV s cur pos (cs_body q) nid Hinv ltac:(now rewrite Hb) Hmv) as Hmv1.
    destruct (parse_step s cur pos (cs_body q) nid) as [[s1 cur1] nid1]. cbn [fst snd] in Hst, Hmv1.
    destruct Hst as (Hinv1 & Hn1 & Hb1 & Hlo1).
    apply (IH pos s1 cur1 nid1 Hinv1); [congruence|exact Hmv1].
Qed.

(* whatever the input: every start and stop marker of the constructed value is parsable *)
Theorem parse_marks_parsable w nid : MV (tbl (fst (parse w nid))).
Proof.
  rewrite parse_eq. cbv zeta. cbn [fst].
  apply (parse_loop_MV _ _ 0 _ [] nid (PInv_init _ _) eq_refl). intros x (kp & [] & _).
Qed.

Lemma drop_invalid_id t : MV t -> drop_invalid t = t.
Proof.
  intros H. unfold drop_invalid. rewrite <- (map_id t) at 2. apply map_ext_in. intros [k [pa pr]] Hin. cbn [fst snd padd prem].
  f_equal. f_equal; apply filter_all; intros x Hx; apply parsable_valid, H; exists (k, mkP pa pr); cbn [snd padd prem]; auto.
Qed.

Theorem simplify_of_parse w n1 n2 : simplify (fst (parse w n1)) n2 = parse (render (fst (parse w n1))) n2.
Proof.
  rewrite simplify_def, drop_invalid_id by apply parse_marks_parsable. now destruct (fst (parse w n1)).
Qed.

(* simplify twice = simplify once, as far as str() can see *)
Theorem simplify_idempotent s n1 n2 :
  ssorted (tbl s) -> no_esc (base s) = true -> valid_adds_wf (tbl s) ->
  render (fst (simplify (fst (simplify s n1)) n2)) = render (fst (simplify s n1)).
Proof.
  intros Hs He Hwf. rewrite (simplify_def s n1) at 1. rewrite simplify_of_parse. rewrite <- simplify_def.
  now apply simplify_fixed_point.
Qed.

(* ---------- the stability clauses on concrete values (vm_compute) ---------- *)
Definition stab_check (s : astr) : bool :=
  let s1 := fst (simplify s 100) in
  str_eqb (render (fst (simplify s1 200))) (render s1) && str_eqb (render (fst (parse (render s1) 300))) (render s1).
Module StabilityExamples.
Import String.
Definition S_ (i : nat) (x : string) : setting := mkS i (str_of_string x).
Definition T_ (x : string) : str := str_of_string x.
Definition E_ (x : string) : str := ESC :: LBR :: str_of_string x.
Arguments S_ i%nat x%string.
Arguments T_ x%string.
Arguments E_ x%string.
Definition sv1 := mkA (T_ "ABC") [(0, mkP [S_ 1 "1"; S_ 2 "3"; S_ 3 "38;2;1;2;3"] []); (1, mkP [S_ 4 "1"] [S_ 1 "1"]);
                                  (2, mkP [] [S_ 4 "1"; S_ 2 "3"]); (3, mkP [] [S_ 3 "38;2;1;2;3"])].
Definition sv2 := mkA (T_ "ABCD") [(0, mkP [S_ 1 "11"; S_ 2 "1"] []); (1, mkP [] [S_ 1 "11"]); (2, mkP [S_ 3 "4"] []);
                                   (3, mkP [S_ 5 "21"] [S_ 2 "1"]); (4, mkP [] [S_ 3 "4"; S_ 5 "21"])].
Definition sv3 := mkA (T_ "ABCD") [(0, mkP [S_ 1 "1;3"; S_ 2 "0"; S_ 3 "01"; S_ 6 "1A"] []); (1, mkP [S_ 4 "38;5;7"] [S_ 1 "1;3"]);
                                   (2, mkP [S_ 5 "2"] []); (4, mkP [] [S_ 2 "0"; S_ 3 "01"; S_ 4 "38;5;7"; S_ 5 "2"; S_ 6 "1A"])].
Definition sv4 := mkA (T_ "ABCDE") [(0, mkP [S_ 1 "31"; S_ 2 "1"] []); (1, mkP [S_ 3 "32"] []); (2, mkP [] [S_ 3 "32"]);
                                    (3, mkP [S_ 4 "22"] []); (5, mkP [] [S_ 1 "31"; S_ 2 "1"; S_ 4 "22"])].
Definition sv5 := mkA (T_ "ABCDE") [(1, mkP [S_ 1 "51"; S_ 2 "26"; S_ 7 "53"] []); (2, mkP [S_ 3 "52"] [S_ 2 "26"]);
                                    (3, mkP [] [S_ 1 "51"]); (4, mkP [] [S_ 3 "52"; S_ 7 "53"])].
Definition sv6 := mkA (T_ "AB") [(0, mkP [S_ 1 "11"; S_ 2 "1"; S_ 3 "38;2;1;2;3"; S_ 4 "3;4"] []); (1, mkP [] [S_ 1 "11"; S_ 2 "1"]);
                                 (2, mkP [] [S_ 3 "38;2;1;2;3"; S_ 4 "3;4"])].
Definition sv7 := mkA (T_ "ABC") [(0, mkP [S_ 1 "12"; S_ 2 "10"; S_ 3 "4"] []); (1, mkP [S_ 4 "13"] [S_ 2 "10"]);
                                  (2, mkP [] [S_ 1 "12"; S_ 4 "13"]); (3, mkP [] [S_ 3 "4"])].
Definition sv8 := mkA (T_ "ABCD") [(0, mkP [S_ 1 "1"; S_ 2 "3"; S_ 3 "4"; S_ 4 "9"; S_ 5 "31"] []);
                                   (2, mkP [] [S_ 1 "1"; S_ 2 "3"; S_ 3 "4"; S_ 4 "9"]); (4, mkP [] [S_ 5 "31"])].
Definition sv9 := mkA (T_ "") [(0, mkP [S_ 1 "1"] [])].

Example stability_examples :
  forallb stab_check [sv1; sv2; sv3; sv4; sv5; sv6; sv7; sv8; sv9; ex_inv; ex_unstable; ex_o; ex_f; ex_s] = true.
Proof. vm_compute. reflexivity. Qed.

(* non-vacuity of the hypotheses of simplify_fixed_point / simplify_idempotent: ex_inv (simplify_ex) and
   ex_unstable (simplify_stable_regression) satisfy them; sv3 has verbatim multi-group, reset, zero-padded and
   invalid settings *)
Example stability_hyps_sv3 :
  ssorted (tbl sv3) /\ no_esc (base sv3) = true /\ valid_adds_wf (tbl sv3) /\ is_valid_tbl (tbl sv3) = false
  /\ is_parsable_tbl (tbl sv3) = false.
Proof.
  split; [apply ssorted_check; reflexivity|]. split; [reflexivity|]. split; [|split; reflexivity].
  intros x H Hv. cbn in H.
  repeat (destruct H as [<-|H]; [first [reflexivity | (exfalso; vm_compute in Hv; discriminate)]|]). destruct H.
Qed.

(* parsing an arbitrary string is NOT in general a fixed point of render-then-parse (two sequences at one
   position: ESC[1;3;38;2;1;2;3m A ESC[22m ESC[1m B ESC[22;23m C); C03 claims it for simplified values only,
   and the Python code behaves the same *)
Example reparse_of_arbitrary_input_differs :
  let w := E_ "1;3;38;2;1;2;3m" ++ T_ "A" ++ E_ "22m" ++ E_ "1m" ++ T_ "B" ++ E_ "22;23m" ++ T_ "C" in
  let c := fst (parse w 10) in
  render c = E_ "1;3;38;2;1;2;3m" ++ T_ "AB" ++ E_ "23;22m" ++ T_ "C" ++ E_ "m"
  /\ render (fst (parse (render c) 50)) = E_ "1;3;38;2;1;2;3m" ++ T_ "AB" ++ E_ "22;23m" ++ T_ "C" ++ E_ "m".
Proof. split; vm_compute; reflexivity. Qed.
End StabilityExamples.



(* non-vacuity: a canonical value, and a token list with at most one sequence per position *)
Example canonical_ex : canonical (fst (simplify ex_inv 10)) /\ tbl (fst (simplify ex_inv 10)) <> [].
Proof.
  split; [|vm_compute; discriminate]. destruct simplify_ex as (H1 & H2 & H3 & _). now apply simplify_canonical.
Qed.
Example parse_canonical_ex :
  let l := [OSgr [49; 59; 51]%N; OText [65; 66]%N; OSgr []; OText [67]%N; OSgr [52]%N] in
  Forall tok_ok l /\ Forall tok_num l /\ sep true l /\ ~ sep true (OSgr [49]%N :: l).
Proof. cbv zeta. split; [repeat constructor|]. split; [repeat constructor|]. split; [cbn; auto|]. cbn. intros [_ [H _]]. discriminate. Qed.

(* ====================================================================================== *)
(* 5. C03, assembled                                                                         *)
(* ====================================================================================== *)
(* AnsiString(str(s)): same text, same effective style on every character (exactly), a well-formed value
   with parsable settings only, whose own rendering is a fixed point *)
Theorem C03_roundtrip s nid :
  ssorted (tbl s) -> no_esc (base s) = true -> adds_wf (tbl s) ->
  let s' := fst (parse (render s) nid) in
  base s' = base s
  /\ (forall i, i < length (base s) -> teq (style s' i) (style s i))
  /\ rm_wf s' /\ is_parsable_tbl (tbl s') = true /\ is_valid_tbl (tbl s') = true
  /\ (forall n, render (fst (parse (render s') n)) = render s').
Proof.
  intros Hs He Hwf s'. destruct (roundtrip_to_str_exact s true false true nid Hs He Hwf) as [B S].
  split; [exact B|]. split; [exact S|]. split; [apply parse_wf|].
  split; [apply parse_parsable|]. split; [apply parse_parsable|].
  intros n. now apply reparse_fixed_point.
Qed.

(* simplify(): text and effective style (of the valid settings) preserved exactly; afterwards the formatting is
   parsable and valid and the value is well formed; a second simplify() leaves str() unchanged; str() of the
   simplified value is a fixed point of parse-then-render *)
Theorem C03_simplify s n1 :
  ssorted (tbl s) -> no_esc (base s) = true -> valid_adds_wf (tbl s) ->
  let s1 := fst (simplify s n1) in
  base s1 = base s
  /\ (forall i, i < length (base s) -> teq (style s1 i) (style_of (map stxt (active_at (drop_invalid (tbl s)) i))))
  /\ (coh_marks (tbl s) -> forall i, i < length (base s) -> teq (style s1 i) (style_valid s i))
  /\ is_parsable_tbl (tbl s1) = true /\ is_valid_tbl (tbl s1) = true /\ rm_wf s1
  /\ (forall n2, render (fst (simplify s1 n2)) = render s1)
  /\ (forall n, render (fst (parse (render s1) n)) = render s1).
Proof.
  intros Hs He Hwf s1.
  destruct (simplify_spec s n1 Hs He Hwf) as (B & _ & _ & P & V & W & _).
  destruct (simplify_spec_exact s n1 Hs He Hwf) as (S1 & S2).
  split; [exact B|]. split; [exact S1|]. split; [exact S2|]. split; [exact P|]. split; [exact V|]. split; [exact W|].
  split; [intros n2; now apply simplify_idempotent|intros n; now apply simplify_fixed_point].
Qed.

(* ==== FOOTER ==== *)
Print Assumptions tokenize_bytes.
Print Assumptions tk_run_toks_of.
Print Assumptions to_str_toks_num.
Print Assumptions tokenize_to_str.
Print Assumptions roundtrip_to_str_opt.
Print Assumptions roundtrip_to_str_unopt.
Print Assumptions roundtrip_to_str.
Print Assumptions roundtrip_text.
Print Assumptions roundtrip_style.
Print Assumptions roundtrip_to_str_exact.
Print Assumptions roundtrip_style_exact.
Print Assumptions parse_adds_parsable.
Print Assumptions parse_parsable.
Print Assumptions drop_invalid_active.
Print Assumptions simplify_spec.
Print Assumptions simplify_spec_exact.
Print Assumptions render_prender.
Print Assumptions canonical_fixed_point.
Print Assumptions parse_canonical.
Print Assumptions to_str_toks_sep.
Print Assumptions simplify_canonical.
Print Assumptions simplify_fixed_point.
Print Assumptions reparse_fixed_point.
Print Assumptions remove_core_marks.
Print Assumptions apply_core_marks.
Print Assumptions parse_marks_parsable.
Print Assumptions simplify_of_parse.
Print Assumptions simplify_idempotent.
Print Assumptions C03_roundtrip.
Print Assumptions C03_simplify.
