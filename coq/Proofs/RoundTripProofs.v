(* C03: rendering a value and parsing the rendering back; simplify. *)
From AS Require Import Base Effects.
From AS.Spec Require Import Terminal.
From AS.Model Require Import Sgr Tokenizer Table Ops Render Parse.
From AS.Proofs Require Import TableProofs SliceProofs PadProofs DecProofs GenCodeTable TokenizerProofs
  SgrProofs SgrAlgebra BasicProofs ApplyProofs RemoveProofs RenderProofs FlagsProofs ParseBasics ParseProofs.
Local Open Scope nat_scope.

Notation no_esc := RenderProofs.no_esc.
Notation tkz := (tokenize false (Some [CH_m])).

(* ====================================================================================== *)
(* 1. Tokenising a rendering                                                                *)
(* ====================================================================================== *)
Definition tok_of (k : otok) : list tok :=
  match k with
  | OText s => map TChar s
  | OSgr c => [TSeq {| cs_body := c; cs_term := Some CH_m |}]
  end.
Definition toks_of (l : list otok) : list tok := flat_map tok_of l.

Lemma tkz_fuel_more ae acc : forall f s f', length s <= f -> length s <= f' ->
  tokenize_fuel f ae acc s = tokenize_fuel f' ae acc s.
Proof.
  induction f as [|f IH]; intros s f' Hf Hf'.
  - destruct s; simpl in Hf; [|lia]. destruct f'; reflexivity.
  - destruct s as [|c1 r1]. { destruct f'; reflexivity. }
    destruct f' as [|f']; [simpl in Hf'; lia|]. cbn [tokenize_fuel].
    destruct r1 as [|c2 r2]; [reflexivity|].
    destruct ((c1 =? ESC)%N && (c2 =? LBR)%N).
    + pose proof (span_body_len r2) as Hl.
      destruct (Tokenizer.span_body r2) as [b r3]. cbn [snd] in Hl.
      destruct r3 as [|fin r4].
      * destruct f, f'; reflexivity.
      * rewrite (IH r4 f') by (simpl in *; lia). reflexivity.
    + rewrite (IH (c2 :: r2) f') by (simpl in *; lia). reflexivity.
Qed.

Lemma tkz_plain ae acc c r : (c =? ESC)%N = false ->
  tokenize ae acc (c :: r) = TChar c :: tokenize ae acc r.
Proof.
  intros Hc. unfold tokenize. cbn [length tokenize_fuel]. destruct r as [|c2 r2]; [reflexivity|].
  rewrite Hc. cbn [andb]. reflexivity.
Qed.

Lemma tkz_sgr codes rest : nonfinal codes = true ->
  tkz (ESC :: LBR :: codes ++ CH_m :: rest) = TSeq {| cs_body := codes; cs_term := Some CH_m |} :: tkz rest.
Proof.
  intros Hc. unfold tokenize.
  assert (Hn : exists n, length (ESC :: LBR :: codes ++ CH_m :: rest) = S n /\ length rest <= n).
  { cbn [length]. rewrite app_length. cbn [length]. eexists; split; [reflexivity|lia]. }
  destruct Hn as (n & -> & Hn). cbn [tokenize_fuel].
  change ((ESC =? ESC)%N && (LBR =? LBR)%N) with true. cbv iota.
  rewrite (span_body_exact codes CH_m rest Hc eq_refl).
  change (accept false (Some [CH_m]) (Some CH_m)) with true. cbv iota.
  f_equal. apply tkz_fuel_more; lia.
Qed.

Theorem tokenize_bytes : forall toks, Forall tok_ok toks -> tkz (bytes_of toks) = toks_of toks.
Proof.
  induction toks as [|k toks IH]; intros Hok; [reflexivity|].
  inversion Hok as [|? ? Hk Hr]; subst. destruct k as [s|c]; cbn [tok_ok] in Hk.
  - unfold bytes_of, toks_of. cbn [flat_map bytes_of_tok tok_of]. fold (bytes_of toks) (toks_of toks).
    induction s as [|x s IHs].
    + cbn [app map]. now apply IH.
    + unfold RenderProofs.no_esc in Hk. cbn [forallb] in Hk. apply andb_true_iff in Hk as [H1 H2].
      apply negb_true_iff in H1. cbn [app map]. rewrite (tkz_plain _ _ x _ H1). f_equal. apply IHs.
      * constructor; auto.
      * exact H2.
  - unfold bytes_of, toks_of. cbn [flat_map bytes_of_tok tok_of]. fold (bytes_of toks) (toks_of toks).
    cbn [app]. rewrite <- app_assoc. cbn [app]. rewrite (tkz_sgr c _ Hk). f_equal. now apply IH.
Qed.

(* ---------- the obvious token list has the properties parse_style needs ---------- *)
Definition txt_of (l : list otok) : str := flat_map (fun k => match k with OText s => s | OSgr _ => [] end) l.
Definition tok_num (k : otok) : Prop := match k with OText _ => True | OSgr c => numeric c = true end.

Lemma unformatted_app a b : unformatted (a ++ b) = unformatted a ++ unformatted b.
Proof. unfold unformatted. apply flat_map_app. Qed.

Lemma unformatted_toks_of l : unformatted (toks_of l) = txt_of l.
Proof.
  induction l as [|k l IH]; [reflexivity|]. unfold toks_of, txt_of in *. cbn [flat_map].
  rewrite unformatted_app, IH. f_equal. destruct k as [s|c]; [apply unformatted_plain|reflexivity].
Qed.

Lemma numeric_toks_app a b : numeric_toks (a ++ b) = numeric_toks a && numeric_toks b.
Proof. apply forallb_app. Qed.

Lemma numeric_toks_of l : Forall tok_num l -> numeric_toks (toks_of l) = true.
Proof.
  induction 1 as [|k l Hk Hl IH]; [reflexivity|]. unfold toks_of in *. cbn [flat_map].
  rewrite numeric_toks_app, IH, andb_true_r. destruct k as [s|c]; cbn [tok_of tok_num] in *.
  - unfold numeric_toks. apply forallb_forall. intros x Hx. apply in_map_iff in Hx as (c & <- & _). reflexivity.
  - cbn [numeric_toks forallb cs_body]. now rewrite Hk.
Qed.

(* a token list without a literal ESC character has no raw "ESC [" left *)
Definition no_esc_tok (k : tok) : bool := match k with TChar c => negb (c =? ESC)%N | TSeq _ => true end.
Lemma only_sgr_no_esc l : forallb no_esc_tok l = true -> only_sgr l = true.
Proof.
  induction l as [|k l IH]; [reflexivity|]. cbn [forallb]. intros H. apply andb_true_iff in H as [H1 H2].
  destruct k as [a|q]; cbn [only_sgr]; [|now apply IH]. rewrite (IH H2), andb_true_r.
  destruct l as [|[b|q] l]; auto. cbn [no_esc_tok] in H1. apply negb_true_iff in H1. now rewrite H1.
Qed.

Lemma only_sgr_toks_of l : Forall tok_ok l -> only_sgr (toks_of l) = true.
Proof.
  intros H. apply only_sgr_no_esc. induction H as [|k l Hk Hl IH]; [reflexivity|].
  unfold toks_of in *. cbn [flat_map]. rewrite forallb_app, IH, andb_true_r.
  destruct k as [s|c]; cbn [tok_of tok_ok] in *; [|reflexivity].
  apply forallb_forall. intros x Hx. apply in_map_iff in Hx as (c & <- & Hc). cbn [no_esc_tok].
  unfold RenderProofs.no_esc in Hk. rewrite forallb_forall in Hk. now apply Hk.
Qed.

(* the token-level terminals of RenderProofs and ParseProofs agree *)
Lemma tk_run_app a : forall t b,
  tk_run t (a ++ b) = let '(d1, t1) := tk_run t a in let '(d2, t2) := tk_run t1 b in (d1 ++ d2, t2).
Proof.
  induction a as [|k a IH]; intros t b.
  - cbn [app tk_run]. destruct (tk_run t b); reflexivity.
  - destruct k as [c|q]; cbn [app tk_run].
    + rewrite IH. destruct (tk_run t a) as [d1 t1]. destruct (tk_run t1 b) as [d2 t2]. reflexivity.
    + apply IH.
Qed.

Lemma tk_run_chars t s : tk_run t (map TChar s) = (map (fun c => (c, t)) s, t).
Proof. induction s as [|c s IH]; [reflexivity|]. cbn [map tk_run]. now rewrite IH. Qed.

Theorem tk_run_toks_of : forall l t, tk_run t (toks_of l) = tok_run t l.
Proof.
  induction l as [|k l IH]; intros t; [reflexivity|]. unfold toks_of in *. cbn [flat_map].
  destruct k as [s|c]; cbn [tok_of tok_run].
  - rewrite tk_run_app, tk_run_chars, IH. reflexivity.
  - cbn [app tk_run cs_body]. apply IH.
Qed.

Example toks_of_ex :
  let l := [OSgr [49; 59; 51]%N; OText [65; 66]%N; OSgr []; OText [67]%N] in
  Forall tok_ok l /\ Forall tok_num l
  /\ tkz (bytes_of l) = toks_of l /\ unformatted (tkz (bytes_of l)) = [65; 66; 67]%N
  /\ numeric_toks (tkz (bytes_of l)) = true /\ only_sgr (tkz (bytes_of l)) = true.
Proof. repeat split; repeat constructor. Qed.

(* ---------- the renderer emits numeric sequences ---------- *)
Lemma numeric_of_params c : params_of c <> None -> numeric c = true.
Proof. destruct (params_of c) as [p|] eqn:E; [intros _; exact (params_numeric c p E)|congruence]. Qed.

Lemma numeric_join ts : Forall (fun t => params_of t <> None) ts -> numeric (join [SEMI] ts) = true.
Proof.
  intros H. destruct ts as [|t ts]; [reflexivity|]. apply numeric_of_params.
  rewrite params_of_join; [discriminate|discriminate|exact H].
Qed.

Lemma numeric_pt_codes p cur : set_wf cur -> numeric (pt_codes p cur) = true.
Proof. intros H. apply numeric_of_params. rewrite pt_codes_params by exact H. discriminate. Qed.

Lemma numeric_zero_prefix c : numeric c = true -> numeric (CH_0 :: SEMI :: c) = true.
Proof. intros H. unfold numeric. cbn [forallb]. exact H. Qed.

Lemma numeric_rs_codes idx rs c : numeric c = true -> numeric (rs_codes idx rs c) = true.
Proof.
  intros H. unfold rs_codes. destruct (Nat.eqb idx 0 && rs); auto.
  destruct (negb (is_nil c)); [now apply numeric_zero_prefix|reflexivity].
Qed.

Lemma numeric_opt_pick old cur p : set_parsable cur ->
  numeric (snd (opt_pick old (s2d (fun x => x) (map stxt cur) []) (pt_codes p cur))) = true.
Proof.
  intros Hc. destruct (s2d_of_set cur Hc) as (_ & _ & Hne).
  destruct (acts_of_txt_acts _ _ (diff_txt_acts old _ Hne)) as (_ & Hpar & _).
  assert (Hfull : numeric (pt_codes p cur) = true) by (apply numeric_pt_codes; now apply set_parsable_wf).
  assert (Hdiff : numeric (join [SEMI] (diff_codes old (s2d (fun x => x) (map stxt cur) []))) = true)
    by (apply numeric_join; exact Hpar).
  unfold opt_pick. cbv zeta. destruct (is_nil _); [exact Hfull|]. destruct (_ <? _); assumption.
Qed.

Lemma numeric_rs_wrap k rs ac : numeric (snd ac) = true -> numeric (snd (rs_wrap k rs ac)) = true.
Proof.
  intros H. unfold rs_wrap. destruct (Nat.eqb k 0 && rs); auto.
  destruct (fst ac && negb (is_nil (snd ac))); cbn [snd]; auto.
Qed.

Lemma tok_num_opt_text x : Forall tok_num (if is_nil x then [] else [OText x]).
Proof. destruct (is_nil x); repeat constructor. Qed.

Lemma render_point_unopt_num s rs st idx p cur : set_wf cur ->
  Forall tok_num (r_out st) -> Forall tok_num (r_out (render_point s false rs st idx p cur)).
Proof.
  intros Hc Ho. rewrite render_point_unopt. cbn [r_out].
  apply Forall_app. split; auto. apply Forall_app. split.
  { destruct (r_first st && (0 <? idx) && rs); repeat constructor. }
  apply Forall_app. split; [apply tok_num_opt_text|].
  repeat constructor. cbn [tok_num]. now apply numeric_rs_codes, numeric_pt_codes.
Qed.

Lemma render_point_opt_num s rs st idx p cur : set_parsable cur ->
  Forall tok_num (r_out st) -> Forall tok_num (r_out (render_point s true rs st idx p cur)).
Proof.
  intros Hc Ho. rewrite render_point_opt. cbv zeta. cbn [r_out].
  apply Forall_app. split; auto. apply Forall_app. split.
  { destruct (r_first st && (0 <? idx) && rs); repeat constructor. }
  apply Forall_app. split; [apply tok_num_opt_text|].
  destruct (fst _); [|constructor]. repeat constructor. cbn [tok_num].
  now apply numeric_rs_wrap, numeric_opt_pick.
Qed.

Lemma render_loop_P (P : otok -> Prop) s opt rs (Q : list setting -> Prop)
  (Hpoint : forall st idx p cur, Q cur -> Forall P (r_out st) ->
            Forall P (r_out (render_point s opt rs st idx p cur))) :
  forall states st, (forall idx p cur, In (idx, p, cur) states -> Q cur) ->
  Forall P (r_out st) -> Forall P (r_out (render_loop s opt rs states st)).
Proof.
  induction states as [|[[idx p] cur] states IH]; intros st Hc Ho; cbn [render_loop]; auto.
  destruct (length s <=? idx); auto. apply IH.
  - intros; eapply Hc; right; eauto.
  - apply Hpoint; auto. eapply Hc. left; reflexivity.
Qed.

Lemma to_str_toks_unopt_num s rs re : adds_wf (tbl s) -> Forall tok_num (to_str_toks s false rs re).
Proof.
  intros Hn. unfold to_str_toks. destruct (is_nil (tbl s) && negb rs).
  - apply tok_num_opt_text.
  - cbn [andb]. apply Forall_app. split.
    + apply (render_loop_P tok_num _ _ _ set_wf).
      * intros; now apply render_point_unopt_num.
      * intros idx p cur Hin x Hx. destruct (iter_states_in _ _ _ _ _ x Hin Hx) as [[]|H]. now apply Hn.
      * constructor.
    + apply Forall_app. split. { destruct (_ && rs); repeat constructor. }
      apply Forall_app. split; [apply tok_num_opt_text|].
      destruct (_ && re); repeat constructor.
Qed.

Theorem to_str_toks_num s opt rs re : adds_wf (tbl s) -> Forall tok_num (to_str_toks s opt rs re).
Proof.
  intros Hwf. pose proof (to_str_toks_unopt_num s rs re Hwf) as Hun.
  destruct opt; [|exact Hun]. destruct (is_parsable_tbl (tbl s)) eqn:Ep.
  2:{ replace (to_str_toks s true rs re) with (to_str_toks s false rs re); [exact Hun|].
      unfold to_str_toks. now rewrite Ep. }
  unfold to_str_toks. rewrite Ep. destruct (is_nil (tbl s) && negb rs).
  - apply tok_num_opt_text.
  - cbn [andb]. apply Forall_app. split.
    + apply (render_loop_P tok_num _ _ _ set_parsable).
      * intros; now apply render_point_opt_num.
      * intros idx p cur Hin x Hx. destruct (iter_states_in _ _ _ _ _ x Hin Hx) as [[]|H].
        now apply (is_parsable_tbl_spec _ Ep).
      * constructor.
    + apply Forall_app. split. { destruct (_ && rs); repeat constructor. }
      apply Forall_app. split; [apply tok_num_opt_text|].
      destruct (_ && re); repeat constructor.
Qed.

(* the tokens of a rendering *)
Theorem tokenize_to_str s opt rs re : no_esc (base s) = true -> adds_wf (tbl s) ->
  let toks := tkz (to_str s opt rs re) in
  toks = toks_of (to_str_toks s opt rs re) /\ numeric_toks toks = true /\ only_sgr toks = true
  /\ unformatted toks = txt_of (to_str_toks s opt rs re).
Proof.
  intros He Hwf toks. pose proof (to_str_toks_ok s opt rs re He Hwf) as Hok.
  assert (E : toks = toks_of (to_str_toks s opt rs re)) by (apply tokenize_bytes; exact Hok).
  split; [exact E|]. rewrite E. split; [apply numeric_toks_of; now apply to_str_toks_num|].
  split; [now apply only_sgr_toks_of|apply unformatted_toks_of].
Qed.
