(* C03: rendering a value and parsing the rendering back; simplify. *)
From AS Require Import Base Effects.
From AS.Spec Require Import Terminal.
From AS.Model Require Import Sgr Tokenizer Table Ops Render Parse.
From AS.Proofs Require Import TableProofs SliceProofs PadProofs DecProofs GenCodeTable TokenizerProofs
  SgrProofs SgrAlgebra BasicProofs ApplyProofs RemoveProofs RenderProofs FlagsProofs ParseBasics ParseProofs.
Local Open Scope nat_scope.

Notation no_esc := RenderProofs.no_esc.
Notation tkz := (tokenize false (Some [CH_m])).

(* ====================================================================================== *)
(* 1. Tokenising a rendering                                                                *)
(* ====================================================================================== *)
Definition tok_of (k : otok) : list tok :=
  match k with
  | OText s => map TChar s
  | OSgr c => [TSeq {| cs_body := c; cs_term := Some CH_m |}]
  end.
Definition toks_of (l : list otok) : list tok := flat_map tok_of l.

Lemma tkz_fuel_more ae acc : forall f s f', length s <= f -> length s <= f' ->
  tokenize_fuel f ae acc s = tokenize_fuel f' ae acc s.
Proof.
  induction f as [|f IH]; intros s f' Hf Hf'.
  - destruct s; simpl in Hf; [|lia]. destruct f'; reflexivity.
  - destruct s as [|c1 r1]. { destruct f'; reflexivity. }
    destruct f' as [|f']; [simpl in Hf'; lia|]. cbn [tokenize_fuel].
    destruct r1 as [|c2 r2]; [reflexivity|].
    destruct ((c1 =? ESC)%N && (c2 =? LBR)%N).
    + pose proof (span_body_len r2) as Hl.
      destruct (Tokenizer.span_body r2) as [b r3]. cbn [snd] in Hl.
      destruct r3 as [|fin r4].
      * destruct f, f'; reflexivity.
      * rewrite (IH r4 f') by (simpl in *; lia). reflexivity.
    + rewrite (IH (c2 :: r2) f') by (simpl in *; lia). reflexivity.
Qed.

Lemma tkz_plain ae acc c r : (c =? ESC)%N = false ->
  tokenize ae acc (c :: r) = TChar c :: tokenize ae acc r.
Proof.
  intros Hc. unfold tokenize. cbn [length tokenize_fuel]. destruct r as [|c2 r2]; [reflexivity|].
  rewrite Hc. cbn [andb]. reflexivity.
Qed.

Lemma tkz_sgr codes rest : nonfinal codes = true ->
  tkz (ESC :: LBR :: codes ++ CH_m :: rest) = TSeq {| cs_body := codes; cs_term := Some CH_m |} :: tkz rest.
Proof.
  intros Hc. unfold tokenize.
  assert (Hn : exists n, length (ESC :: LBR :: codes ++ CH_m :: rest) = S n /\ length rest <= n).
  { cbn [length]. rewrite app_length. cbn [length]. eexists; split; [reflexivity|lia]. }
  destruct Hn as (n & -> & Hn). cbn [tokenize_fuel].
  change ((ESC =? ESC)%N && (LBR =? LBR)%N) with true. cbv iota.
  rewrite (span_body_exact codes CH_m rest Hc eq_refl).
  change (accept false (Some [CH_m]) (Some CH_m)) with true. cbv iota.
  f_equal. apply tkz_fuel_more; lia.
Qed.

Theorem tokenize_bytes : forall toks, Forall tok_ok toks -> tkz (bytes_of toks) = toks_of toks.
Proof.
  induction toks as [|k toks IH]; intros Hok; [reflexivity|].
  inversion Hok as [|? ? Hk Hr]; subst. destruct k as [s|c]; cbn [tok_ok] in Hk.
  - unfold bytes_of, toks_of. cbn [flat_map bytes_of_tok tok_of]. fold (bytes_of toks) (toks_of toks).
    induction s as [|x s IHs].
    + cbn [app map]. now apply IH.
    + unfold RenderProofs.no_esc in Hk. cbn [forallb] in Hk. apply andb_true_iff in Hk as [H1 H2].
      apply negb_true_iff in H1. cbn [app map]. rewrite (tkz_plain _ _ x _ H1). f_equal. apply IHs.
      * constructor; auto.
      * exact H2.
  - unfold bytes_of, toks_of. cbn [flat_map bytes_of_tok tok_of]. fold (bytes_of toks) (toks_of toks).
    cbn [app]. rewrite <- app_assoc. cbn [app]. rewrite (tkz_sgr c _ Hk). f_equal. now apply IH.
Qed.

(* ---------- the obvious token list has the properties parse_style needs ---------- *)
Definition txt_of (l : list otok) : str := flat_map (fun k => match k with OText s => s | OSgr _ => [] end) l.
Definition tok_num (k : otok) : Prop := match k with OText _ => True | OSgr c => numeric c = true end.

Lemma unformatted_app a b : unformatted (a ++ b) = unformatted a ++ unformatted b.
Proof. unfold unformatted. apply flat_map_app. Qed.

Lemma unformatted_toks_of l : unformatted (toks_of l) = txt_of l.
Proof.
  induction l as [|k l IH]; [reflexivity|]. unfold toks_of, txt_of in *. cbn [flat_map].
  rewrite unformatted_app, IH. f_equal. destruct k as [s|c]; [apply unformatted_plain|reflexivity].
Qed.

Lemma numeric_toks_app a b : numeric_toks (a ++ b) = numeric_toks a && numeric_toks b.
Proof. apply forallb_app. Qed.

Lemma numeric_toks_of l : Forall tok_num l -> numeric_toks (toks_of l) = true.
Proof.
  induction 1 as [|k l Hk Hl IH]; [reflexivity|]. unfold toks_of in *. cbn [flat_map].
  rewrite numeric_toks_app, IH, andb_true_r. destruct k as [s|c]; cbn [tok_of tok_num] in *.
  - unfold numeric_toks. apply forallb_forall. intros x Hx. apply in_map_iff in Hx as (c & <- & _). reflexivity.
  - cbn [numeric_toks forallb cs_body]. now rewrite Hk.
Qed.

(* a token list without a literal ESC character has no raw "ESC [" left *)
Definition no_esc_tok (k : tok) : bool := match k with TChar c => negb (c =? ESC)%N | TSeq _ => true end.
Lemma only_sgr_no_esc l : forallb no_esc_tok l = true -> only_sgr l = true.
Proof.
  induction l as [|k l IH]; [reflexivity|]. cbn [forallb]. intros H. apply andb_true_iff in H as [H1 H2].
  destruct k as [a|q]; cbn [only_sgr]; [|now apply IH]. rewrite (IH H2), andb_true_r.
  destruct l as [|[b|q] l]; auto. cbn [no_esc_tok] in H1. apply negb_true_iff in H1. now rewrite H1.
Qed.

Lemma only_sgr_toks_of l : Forall tok_ok l -> only_sgr (toks_of l) = true.
Proof.
  intros H. apply only_sgr_no_esc. induction H as [|k l Hk Hl IH]; [reflexivity|].
  unfold toks_of in *. cbn [flat_map]. rewrite forallb_app, IH, andb_true_r.
  destruct k as [s|c]; cbn [tok_of tok_ok] in *; [|reflexivity].
  apply forallb_forall. intros x Hx. apply in_map_iff in Hx as (c & <- & Hc). cbn [no_esc_tok].
  unfold RenderProofs.no_esc in Hk. rewrite forallb_forall in Hk. now apply Hk.
Qed.

(* the token-level terminals of RenderProofs and ParseProofs agree *)
Lemma tk_run_app a : forall t b,
  tk_run t (a ++ b) = let '(d1, t1) := tk_run t a in let '(d2, t2) := tk_run t1 b in (d1 ++ d2, t2).
Proof.
  induction a as [|k a IH]; intros t b.
  - cbn [app tk_run]. destruct (tk_run t b); reflexivity.
  - destruct k as [c|q]; cbn [app tk_run].
    + rewrite IH. destruct (tk_run t a) as [d1 t1]. destruct (tk_run t1 b) as [d2 t2]. reflexivity.
    + apply IH.
Qed.

Lemma tk_run_chars t s : tk_run t (map TChar s) = (map (fun c => (c, t)) s, t).
Proof. induction s as [|c s IH]; [reflexivity|]. cbn [map tk_run]. now rewrite IH. Qed.

Theorem tk_run_toks_of : forall l t, tk_run t (toks_of l) = tok_run t l.
Proof.
  induction l as [|k l IH]; intros t; [reflexivity|]. unfold toks_of in *. cbn [flat_map].
  destruct k as [s|c]; cbn [tok_of tok_run].
  - rewrite tk_run_app, tk_run_chars, IH. reflexivity.
  - cbn [app tk_run cs_body]. apply IH.
Qed.

Example toks_of_ex :
  let l := [OSgr [49; 59; 51]%N; OText [65; 66]%N; OSgr []; OText [67]%N] in
  Forall tok_ok l /\ Forall tok_num l
  /\ tkz (bytes_of l) = toks_of l /\ unformatted (tkz (bytes_of l)) = [65; 66; 67]%N
  /\ numeric_toks (tkz (bytes_of l)) = true /\ only_sgr (tkz (bytes_of l)) = true.
Proof. repeat split; repeat constructor. Qed.

(* ---------- the renderer emits numeric sequences ---------- *)
Lemma numeric_of_params c : params_of c <> None -> numeric c = true.
Proof. destruct (params_of c) as [p|] eqn:E; [intros _; exact (params_numeric c p E)|congruence]. Qed.

Lemma numeric_join ts : Forall (fun t => params_of t <> None) ts -> numeric (join [SEMI] ts) = true.
Proof.
  intros H. destruct ts as [|t ts]; [reflexivity|]. apply numeric_of_params.
  rewrite params_of_join; [discriminate|discriminate|exact H].
Qed.

Lemma numeric_pt_codes p cur : set_wf cur -> numeric (pt_codes p cur) = true.
Proof. intros H. apply numeric_of_params. rewrite pt_codes_params by exact H. discriminate. Qed.

Lemma numeric_zero_prefix c : numeric c = true -> numeric (CH_0 :: SEMI :: c) = true.
Proof. intros H. unfold numeric. cbn [forallb]. exact H. Qed.

Lemma numeric_rs_codes idx rs c : numeric c = true -> numeric (rs_codes idx rs c) = true.
Proof.
  intros H. unfold rs_codes. destruct (Nat.eqb idx 0 && rs); auto.
  destruct (negb (is_nil c)); [now apply numeric_zero_prefix|reflexivity].
Qed.

Lemma numeric_opt_pick old cur p : set_parsable cur ->
  numeric (snd (opt_pick old (s2d (fun x => x) (map stxt cur) []) (pt_codes p cur))) = true.
Proof.
  intros Hc. destruct (s2d_of_set cur Hc) as (_ & _ & Hne).
  destruct (acts_of_txt_acts _ _ (diff_txt_acts old _ Hne)) as (_ & Hpar & _).
  assert (Hfull : numeric (pt_codes p cur) = true) by (apply numeric_pt_codes; now apply set_parsable_wf).
  assert (Hdiff : numeric (join [SEMI] (diff_codes old (s2d (fun x => x) (map stxt cur) []))) = true)
    by (apply numeric_join; exact Hpar).
  unfold opt_pick. cbv zeta. destruct (is_nil _); [exact Hfull|]. destruct (_ <? _); assumption.
Qed.

Lemma numeric_rs_wrap k rs ac : numeric (snd ac) = true -> numeric (snd (rs_wrap k rs ac)) = true.
Proof.
  intros H. unfold rs_wrap. destruct (Nat.eqb k 0 && rs); auto.
  destruct (fst ac && negb (is_nil (snd ac))); cbn [snd]; auto.
Qed.

Lemma tok_num_opt_text x : Forall tok_num (if is_nil x then [] else [OText x]).
Proof. destruct (is_nil x); repeat constructor. Qed.

Lemma render_point_unopt_num s rs st idx p cur : set_wf cur ->
  Forall tok_num (r_out st) -> Forall tok_num (r_out (render_point s false rs st idx p cur)).
Proof.
  intros Hc Ho. rewrite render_point_unopt. cbn [r_out].
  apply Forall_app. split; auto. apply Forall_app. split.
  { destruct (r_first st && (0 <? idx) && rs); repeat constructor. }
  apply Forall_app. split; [apply tok_num_opt_text|].
  repeat constructor. cbn [tok_num]. now apply numeric_rs_codes, numeric_pt_codes.
Qed.

Lemma render_point_opt_num s rs st idx p cur : set_parsable cur ->
  Forall tok_num (r_out st) -> Forall tok_num (r_out (render_point s true rs st idx p cur)).
Proof.
  intros Hc Ho. rewrite render_point_opt. cbv zeta. cbn [r_out].
  apply Forall_app. split; auto. apply Forall_app. split.
  { destruct (r_first st && (0 <? idx) && rs); repeat constructor. }
  apply Forall_app. split; [apply tok_num_opt_text|].
  destruct (fst _); [|constructor]. repeat constructor. cbn [tok_num].
  now apply numeric_rs_wrap, numeric_opt_pick.
Qed.

Lemma render_loop_P (P : otok -> Prop) s opt rs (Q : list setting -> Prop)
  (Hpoint : forall st idx p cur, Q cur -> Forall P (r_out st) ->
            Forall P (r_out (render_point s opt rs st idx p cur))) :
  forall states st, (forall idx p cur, In (idx, p, cur) states -> Q cur) ->
  Forall P (r_out st) -> Forall P (r_out (render_loop s opt rs states st)).
Proof.
  induction states as [|[[idx p] cur] states IH]; intros st Hc Ho; cbn [render_loop]; auto.
  destruct (length s <=? idx); auto. apply IH.
  - intros; eapply Hc; right; eauto.
  - apply Hpoint; auto. eapply Hc. left; reflexivity.
Qed.

Lemma to_str_toks_unopt_num s rs re : adds_wf (tbl s) -> Forall tok_num (to_str_toks s false rs re).
Proof.
  intros Hn. unfold to_str_toks. destruct (is_nil (tbl s) && negb rs).
  - apply tok_num_opt_text.
  - cbn [andb]. apply Forall_app. split.
    + apply (render_loop_P tok_num _ _ _ set_wf).
      * intros; now apply render_point_unopt_num.
      * intros idx p cur Hin x Hx. destruct (iter_states_in _ _ _ _ _ x Hin Hx) as [[]|H]. now apply Hn.
      * constructor.
    + apply Forall_app. split. { destruct (_ && rs); repeat constructor. }
      apply Forall_app. split; [apply tok_num_opt_text|].
      destruct (_ && re); repeat constructor.
Qed.

Theorem to_str_toks_num s opt rs re : adds_wf (tbl s) -> Forall tok_num (to_str_toks s opt rs re).
Proof.
  intros Hwf. pose proof (to_str_toks_unopt_num s rs re Hwf) as Hun.
  destruct opt; [|exact Hun]. destruct (is_parsable_tbl (tbl s)) eqn:Ep.
  2:{ replace (to_str_toks s true rs re) with (to_str_toks s false rs re); [exact Hun|].
      unfold to_str_toks. now rewrite Ep. }
  unfold to_str_toks. rewrite Ep. destruct (is_nil (tbl s) && negb rs).
  - apply tok_num_opt_text.
  - cbn [andb]. apply Forall_app. split.
    + apply (render_loop_P tok_num _ _ _ set_parsable).
      * intros; now apply render_point_opt_num.
      * intros idx p cur Hin x Hx. destruct (iter_states_in _ _ _ _ _ x Hin Hx) as [[]|H].
        now apply (is_parsable_tbl_spec _ Ep).
      * constructor.
    + apply Forall_app. split. { destruct (_ && rs); repeat constructor. }
      apply Forall_app. split; [apply tok_num_opt_text|].
      destruct (_ && re); repeat constructor.
Qed.

(* the tokens of a rendering *)
Theorem tokenize_to_str s opt rs re : no_esc (base s) = true -> adds_wf (tbl s) ->
  let toks := tkz (to_str s opt rs re) in
  toks = toks_of (to_str_toks s opt rs re) /\ numeric_toks toks = true /\ only_sgr toks = true
  /\ unformatted toks = txt_of (to_str_toks s opt rs re).
Proof.
  intros He Hwf toks. pose proof (to_str_toks_ok s opt rs re He Hwf) as Hok.
  assert (E : toks = toks_of (to_str_toks s opt rs re)) by (apply tokenize_bytes; exact Hok).
  split; [exact E|]. rewrite E. split; [apply numeric_toks_of; now apply to_str_toks_num|].
  split; [now apply only_sgr_toks_of|apply unformatted_toks_of].
Qed.

(* ====================================================================================== *)
(* 2. Round trip: parse (render s)                                                          *)
(* ====================================================================================== *)
Definition style (s : astr) (i : nat) : tstate := style_of (map stxt (active_at (tbl s) i)).

Lemma nth_error_map_snd {A B} (l : list (A * B)) i b :
  nth_error (map snd l) i = Some b -> exists a, nth_error l i = Some (a, b).
Proof.
  revert i. induction l as [|[a0 b0] l IH]; intros [|i] H; try discriminate.
  - cbn in H. inversion H; subst. now exists a0.
  - apply (IH i H).
Qed.

(* what the terminal shows on w, read back through parse *)
Lemma reparse_generic w s nid disp tfin (R : tstate -> tstate -> Prop) :
  numeric_toks (tkz w) = true -> only_sgr (tkz w) = true ->
  term_run tdefault w = (disp, tfin) -> map fst disp = base s ->
  (forall i, i < length (base s) -> exists st, nth_error (map snd disp) i = Some st /\ R st (style s i)) ->
  base (fst (parse w nid)) = base s
  /\ forall i, i < length (base s) -> exists st, teq st (style (fst (parse w nid)) i) /\ R st (style s i).
Proof.
  intros Hnum Hsgr Hrun Htxt Hsty. destruct (parse_style w nid Hnum Hsgr) as [P1 P2].
  rewrite Hrun in P1, P2. cbn [fst] in P1, P2. split; [congruence|].
  intros i Hi. destruct (Hsty i Hi) as (st & Hn & HR). exists st. split; [|exact HR].
  destruct (nth_error_map_snd _ _ _ Hn) as (c & Hc). exact (P2 i c st Hc).
Qed.

(* any flags, optimised renderer *)
Theorem roundtrip_to_str_opt s rs re nid :
  ssorted (tbl s) -> no_esc (base s) = true -> adds_wf (tbl s) ->
  let s' := fst (parse (to_str s true rs re) nid) in
  base s' = base s /\ forall i, i < length (base s) -> teq_disp (style s' i) (style s i).
Proof.
  intros Hs He Hwf s'.
  destruct (tokenize_to_str s true rs re He Hwf) as (_ & Hnum & Hsgr & _).
  destruct (render_opt_display_bytes s rs re tdefault Hs He Hwf (fun _ => eq_refl)) as (disp & tfin & H1 & H2 & H3 & _).
  destruct (reparse_generic _ s nid disp tfin teq_disp Hnum Hsgr H1 H2 H3) as [B S]. split; [exact B|].
  intros i Hi. destruct (S i Hi) as (st & Ha & Hb).
  eapply teq_disp_trans; [apply teq_disp_sym, teq_teq_disp; exact Ha|exact Hb].
Qed.

(* any flags, unoptimised renderer: the style comes back exactly *)
Theorem roundtrip_to_str_unopt s rs re nid :
  ssorted (tbl s) -> no_esc (base s) = true -> adds_wf (tbl s) ->
  let s' := fst (parse (to_str s false rs re) nid) in
  base s' = base s /\ forall i, i < length (base s) -> teq (style s' i) (style s i).
Proof.
  intros Hs He Hwf s'.
  destruct (tokenize_to_str s false rs re He Hwf) as (_ & Hnum & Hsgr & _).
  destruct (render_unopt_display_bytes s rs re tdefault Hs He Hwf (fun _ => eq_refl)) as (disp & tfin & H1 & H2 & H3 & _).
  destruct (reparse_generic _ s nid disp tfin teq Hnum Hsgr H1 H2 H3) as [B S]. split; [exact B|].
  intros i Hi. destruct (S i Hi) as (st & Ha & Hb).
  eapply teq_trans; [apply teq_sym; exact Ha|exact Hb].
Qed.

(* since F28 (code 10 clears FONT_TYPE) the optimised renderer is exact as well *)
Theorem roundtrip_to_str_opt_exact s rs re nid :
  ssorted (tbl s) -> no_esc (base s) = true -> adds_wf (tbl s) ->
  let s' := fst (parse (to_str s true rs re) nid) in
  base s' = base s /\ forall i, i < length (base s) -> teq (style s' i) (style s i).
Proof.
  intros Hs He Hwf s'.
  destruct (tokenize_to_str s true rs re He Hwf) as (_ & Hnum & Hsgr & _).
  destruct (render_opt_display_bytes_exact s rs re tdefault Hs He Hwf (fun _ => eq_refl)) as (disp & tfin & H1 & H2 & H3 & _).
  destruct (reparse_generic _ s nid disp tfin teq Hnum Hsgr H1 H2 H3) as [B S]. split; [exact B|].
  intros i Hi. destruct (S i Hi) as (st & Ha & Hb).
  eapply teq_trans; [apply teq_sym; exact Ha|exact Hb].
Qed.

Theorem roundtrip_to_str_exact s opt rs re nid :
  ssorted (tbl s) -> no_esc (base s) = true -> adds_wf (tbl s) ->
  let s' := fst (parse (to_str s opt rs re) nid) in
  base s' = base s /\ forall i, i < length (base s) -> teq (style s' i) (style s i).
Proof. destruct opt; [apply roundtrip_to_str_opt_exact|apply roundtrip_to_str_unopt]. Qed.

Theorem roundtrip_style_exact s nid : ssorted (tbl s) -> no_esc (base s) = true -> adds_wf (tbl s) ->
  forall i, i < length (base s) ->
  teq (style_of (map stxt (active_at (tbl (fst (parse (render s) nid))) i)))
      (style_of (map stxt (active_at (tbl s) i))).
Proof. intros Hs He Hwf. exact (proj2 (roundtrip_to_str_exact s true false true nid Hs He Hwf)). Qed.

Theorem roundtrip_to_str s opt rs re nid :
  ssorted (tbl s) -> no_esc (base s) = true -> adds_wf (tbl s) ->
  let s' := fst (parse (to_str s opt rs re) nid) in
  base s' = base s /\ forall i, i < length (base s) -> teq_disp (style s' i) (style s i).
Proof.
  intros Hs He Hwf. destruct opt; [now apply roundtrip_to_str_opt|].
  destruct (roundtrip_to_str_unopt s rs re nid Hs He Hwf) as [B S]. split; [exact B|].
  intros i Hi. apply teq_teq_disp. now apply S.
Qed.

Theorem roundtrip_text s nid : ssorted (tbl s) -> no_esc (base s) = true -> adds_wf (tbl s) ->
  base (fst (parse (render s) nid)) = base s.
Proof. intros Hs He Hwf. exact (proj1 (roundtrip_to_str s true false true nid Hs He Hwf)). Qed.

Theorem roundtrip_style s nid : ssorted (tbl s) -> no_esc (base s) = true -> adds_wf (tbl s) ->
  forall i, i < length (base s) ->
  teq_disp (style_of (map stxt (active_at (tbl (fst (parse (render s) nid))) i)))
           (style_of (map stxt (active_at (tbl s) i))).
Proof. intros Hs He Hwf. exact (proj2 (roundtrip_to_str s true false true nid Hs He Hwf)). Qed.

(* the result of the round trip is a well-formed value with parsable settings only: see section 3 *)

(* non-vacuity: RenderProofs.ex_o ("ABC": bold from 0, italic added at 1, bold off at 2) and ex_f (font) *)
Example roundtrip_ex :
  ssorted (tbl ex_o) /\ no_esc (base ex_o) = true /\ adds_wf (tbl ex_o)
  /\ base (fst (parse (render ex_o) 7)) = base ex_o
  /\ map (fun i => tstate_obs (style (fst (parse (render ex_o) 7)) i)) [0; 1; 2]
     = map (fun i => tstate_obs (style ex_o i)) [0; 1; 2].
Proof.
  destruct ex_o_hyps as (H1 & H2 & H3 & _). repeat split; auto; vm_compute; reflexivity.
Qed.

(* before F28 the optimised renderer's "10" (clear FONT_TYPE) came back as a setting "10" and only teq_disp
   held; now the font is cleared exactly *)
Example roundtrip_font_exact :
  style (fst (parse (render ex_f) 7)) 1 FONT_TYPE = None /\ style ex_f 1 FONT_TYPE = None
  /\ style (fst (parse (render ex_f) 7)) 0 FONT_TYPE = Some [11%N].
Proof. repeat split; vm_compute; reflexivity. Qed.

(* ====================================================================================== *)
(* 3. simplify                                                                               *)
(* ====================================================================================== *)

(* ---------- 3a. every value built by parse has parsable (hence valid) settings only ---------- *)
Definition AP (t : fmts) : Prop := forall k x, In x (active_at t k) -> parsable (stxt x) = true.

Lemma add_active_upto t : ssorted t -> forall k p x act, In (k, p) t -> In x (padd p) -> In x (active_upto t k act).
Proof.
  induction 1 as [|k' p' t Hk Hs IH]; intros k p x act Hin Hx; [destruct Hin|].
  cbn [active_upto]. destruct Hin as [E|Hin].
  - inversion E; subst k' p'. rewrite Nat.leb_refl. rewrite active_upto_all_gt by exact Hk.
    unfold step. apply in_or_app. now right.
  - pose proof (Hk _ Hin) as Hlt. cbn [fst] in Hlt.
    replace (k' <=? k) with true by (symmetry; apply Nat.leb_le; lia). now apply IH with p.
Qed.

Lemma add_active t k p x : ssorted t -> In (k, p) t -> In x (padd p) -> In x (active_at t k).
Proof. intros Hs Hin Hx. unfold active_at. now apply add_active_upto with p. Qed.

Lemma in_all_adds x t : In x (all_adds t) <-> exists k p, In (k, p) t /\ In x (padd p).
Proof.
  unfold all_adds. rewrite in_flat_map. split.
  - intros ([k p] & Hin & Hx). now exists k, p.
  - intros (k & p & Hin & Hx). now exists (k, p).
Qed.

Lemma AP_adds t : ssorted t -> AP t -> adds_parsable t.
Proof. intros Hs H x Hx. apply in_all_adds in Hx as (k & p & Hin & Hx). apply (H k). now apply add_active with p. Qed.

Lemma adds_parsable_tbl t : adds_parsable t -> is_parsable_tbl t = true.
Proof. intros H. unfold is_parsable_tbl. apply forallb_forall. exact H. Qed.

Lemma parsable_valid t : parsable t = true -> valid t = true.
Proof. unfold parsable. intros H. apply andb_true_iff in H as [H _]. now apply andb_true_iff in H as [H _]. Qed.

Lemma adds_parsable_valid_tbl t : adds_parsable t -> is_valid_tbl t = true.
Proof. intros H. unfold is_valid_tbl. apply forallb_forall. intros x Hx. now apply parsable_valid, H. Qed.

Lemma PInv_AP_hi s cur key nid k x : PInv s cur key nid -> key <= k ->
  In x (active_at (tbl s) k) -> parsable (stxt x) = true.
Proof.
  intros (Hwf & _ & (_ & Hok) & Hrep & _) Hk Hx.
  destruct (lt_dec k (length (base s))) as [Hl|Hl].
  - destruct (Hrep k (conj Hk Hl)) as [R1 _]. destruct (R1 x Hx) as (e & i & _ & Hg).
    now destruct (Hok e i _ Hg).
  - destruct Hwf as (Hs & _ & _ & Hkeys & Hfin). rewrite active_beyond in Hx; auto.
    + rewrite Hfin in Hx. destruct Hx.
    + intros kp Hin. specialize (Hkeys kp Hin). lia.
Qed.

Lemma parse_loop_AP text : forall l pos s cur nid,
  PInv s cur pos nid -> base s = text -> AP (tbl s) ->
  AP (tbl (fst (fst (parse_fold text (seqs_flat l pos) (s, cur, nid))))).
Proof.
  induction l as [|[c|q] l IH]; intros pos s cur nid Hinv Hb Hap.
  - exact Hap.
  - cbn [seqs_flat]. apply (IH (S pos) s cur nid); auto. eapply PInv_mono; eauto.
  - cbn [seqs_flat]. rewrite parse_fold_cons. cbn [fst snd].
    destruct (length text <=? pos) eqn:E; [now apply IH|]. apply Nat.leb_gt in E.
    pose proof (parse_step_inv s cur pos (cs_body q) nid Hinv ltac:(now rewrite Hb)) as Hst. cbv zeta in Hst.
    destruct (parse_step s cur pos (cs_body q) nid) as [[s1 cur1] nid1]. cbn [fst snd] in Hst.
    destruct Hst as (Hinv1 & Hn1 & Hb1 & Hlo1).
    apply (IH pos s1 cur1 nid1 Hinv1); [congruence|].
    intros k x Hx. destruct (lt_dec k pos) as [Hl|Hl].
    + rewrite Hlo1 in Hx by exact Hl. now apply (Hap k).
    + apply (PInv_AP_hi s1 cur1 pos nid1 k x Hinv1); [lia|exact Hx].
Qed.

(* whatever the input *)
Theorem parse_adds_parsable w nid : adds_parsable (tbl (fst (parse w nid))).
Proof.
  destruct (parse_wf w nid) as ((Hs & _) & _). apply AP_adds; [exact Hs|].
  rewrite parse_eq. cbv zeta. cbn [fst].
  apply (parse_loop_AP _ _ 0 _ [] nid (PInv_init _ _) eq_refl). intros k x [].
Qed.

Theorem parse_parsable w nid :
  is_parsable_tbl (tbl (fst (parse w nid))) = true /\ is_valid_tbl (tbl (fst (parse w nid))) = true.
Proof. split; [apply adds_parsable_tbl|apply adds_parsable_valid_tbl]; apply parse_adds_parsable. Qed.

(* ---------- 3b. dropping the invalid settings ---------- *)
Definition validS (x : setting) : bool := valid (stxt x).
Definition drop_pt (p : point) : point := mkP (filter validS (padd p)) (filter validS (prem p)).

Lemma drop_invalid_cons k p t : drop_invalid ((k, p) :: t) = (k, drop_pt p) :: drop_invalid t.
Proof. reflexivity. Qed.

Lemma drop_invalid_sorted t : ssorted t -> ssorted (drop_invalid t).
Proof.
  induction 1 as [|k p t Hk Hs IH]; [constructor|]. rewrite drop_invalid_cons. constructor; [|exact IH].
  intros kp Hin. unfold drop_invalid in Hin. apply in_map_iff in Hin as (kp' & <- & Hin'). cbn [fst]. now apply Hk.
Qed.

Lemma drop_invalid_adds x t : In x (all_adds (drop_invalid t)) <-> In x (all_adds t) /\ valid (stxt x) = true.
Proof.
  induction t as [|[k p] t IH]; [cbn; tauto|]. rewrite drop_invalid_cons. unfold all_adds in *.
  cbn [flat_map snd padd drop_pt]. rewrite !in_app_iff, IH, filter_In. unfold validS. tauto.
Qed.

(* identity determines text (true of Python objects: sid models `is`) *)
Definition all_marks (t : fmts) : list setting := flat_map (fun kp => padd (snd kp) ++ prem (snd kp)) t.
Definition cohL (L : list setting) : Prop := forall x y, In x L -> In y L -> sid x = sid y -> stxt x = stxt y.
Definition coh_marks (t : fmts) : Prop := cohL (all_marks t).

Lemma cohL_incl L L' : incl L' L -> cohL L -> cohL L'.
Proof. intros Hi H x y Hx Hy. apply H; now apply Hi. Qed.

Lemma filter_remove_ref r : forall act, (forall y, In y act -> sid r = sid y -> validS y = validS r) ->
  filter validS (remove_ref r act) = if validS r then remove_ref r (filter validS act) else filter validS act.
Proof.
  induction act as [|y l IH]; intros Hc. { cbn. now destruct (validS r). }
  assert (IH' := IH (fun z Hz => Hc z (or_intror Hz))). clear IH.
  cbn [remove_ref]. unfold same_ref. destruct (Nat.eqb_spec (sid r) (sid y)) as [E|E].
  - rewrite <- (Hc y (or_introl eq_refl) E). cbn [filter]. destruct (validS y) eqn:Ey; [|reflexivity].
    cbn [remove_ref]. unfold same_ref. apply Nat.eqb_eq in E. now rewrite E.
  - cbn [filter]. rewrite IH'. destruct (validS y) eqn:Ey; destruct (validS r) eqn:Er; try reflexivity.
    cbn [remove_ref]. unfold same_ref. apply Nat.eqb_neq in E. now rewrite E.
Qed.

Lemma filter_rmall : forall rems act, cohL (act ++ rems) ->
  filter validS (fold_left (fun a s => remove_ref s a) rems act)
  = fold_left (fun a s => remove_ref s a) (filter validS rems) (filter validS act).
Proof.
  induction rems as [|r rems IH]; intros act Hc; [reflexivity|]. cbn [fold_left filter].
  assert (Hr : filter validS (remove_ref r act)
               = if validS r then remove_ref r (filter validS act) else filter validS act).
  { apply filter_remove_ref. intros y Hy E. unfold validS. f_equal. symmetry. apply Hc; auto.
    - apply in_or_app. right. now left.
    - apply in_or_app. now left. }
  rewrite IH.
  - rewrite Hr. destruct (validS r); reflexivity.
  - eapply cohL_incl; [|exact Hc]. intros z Hz. apply in_app_or in Hz as [Hz|Hz]; apply in_or_app.
    + left. eapply in_remove_ref; eauto.
    + right. now right.
Qed.

Lemma filter_step act p : cohL (act ++ prem p) -> filter validS (step act p) = step (filter validS act) (drop_pt p).
Proof. intros Hc. unfold step. rewrite filter_app, filter_rmall by exact Hc. reflexivity. Qed.

Lemma drop_invalid_upto i : forall t act, cohL (act ++ all_marks t) ->
  active_upto (drop_invalid t) i (filter validS act) = filter validS (active_upto t i act).
Proof.
  induction t as [|[k p] t IH]; intros act Hc; [reflexivity|]. rewrite drop_invalid_cons. cbn [active_upto].
  destruct (k <=? i); [|reflexivity]. unfold all_marks in Hc. cbn [flat_map snd] in Hc. fold (all_marks t) in Hc.
  rewrite <- filter_step.
  - apply IH. eapply cohL_incl; [|exact Hc]. intros z Hz. rewrite !in_app_iff in *.
    destruct Hz as [Hz|Hz]; [|tauto]. apply in_step in Hz. tauto.
  - eapply cohL_incl; [|exact Hc]. intros z Hz. rewrite !in_app_iff in *. tauto.
Qed.

Theorem drop_invalid_active t i : coh_marks t ->
  active_at (drop_invalid t) i = filter validS (active_at t i).
Proof. intros Hc. unfold active_at. now apply (drop_invalid_upto i t []). Qed.

(* coherence is needed: a stop marker that shares the identity but not the (in)validity of the
   setting it stops survives or vanishes independently of it *)
Example drop_invalid_needs_coherence :
  let t := [(0, mkP [mkS 1 [49]%N] []); (1, mkP [] [mkS 1 [65]%N])] in
  strict_ok t = true /\ active_at (drop_invalid t) 1 = [mkS 1 [49]%N] /\ filter validS (active_at t 1) = [].
Proof. repeat split. Qed.

(* ---------- 3c. simplify ---------- *)
Definition valid_adds_wf (t : fmts) : Prop :=
  forall x, In x (all_adds t) -> valid (stxt x) = true -> wf_setting (stxt x) = true.
(* the style of the valid settings alone *)
Definition style_valid (s : astr) (i : nat) : tstate :=
  style_of (map stxt (filter validS (active_at (tbl s) i))).

Lemma drop_invalid_wf t : valid_adds_wf t -> adds_wf (drop_invalid t).
Proof. intros H x Hx. apply drop_invalid_adds in Hx as [Hx Hv]. now apply H. Qed.

Theorem simplify_spec s nid :
  ssorted (tbl s) -> no_esc (base s) = true -> valid_adds_wf (tbl s) ->
  let s' := fst (simplify s nid) in
  base s' = base s
  /\ (forall i, i < length (base s) ->
        teq_disp (style s' i) (style_of (map stxt (active_at (drop_invalid (tbl s)) i))))
  /\ (coh_marks (tbl s) -> forall i, i < length (base s) -> teq_disp (style s' i) (style_valid s i))
  /\ is_parsable_tbl (tbl s') = true /\ is_valid_tbl (tbl s') = true
  /\ rm_wf s' /\ nid <= snd (simplify s nid).
Proof.
  intros Hs He Hwf s'. unfold s'. rewrite simplify_def.
  set (s0 := mkA (base s) (drop_invalid (tbl s))).
  assert (H0 : ssorted (tbl s0)) by (apply drop_invalid_sorted; exact Hs).
  assert (H1 : adds_wf (tbl s0)) by (apply drop_invalid_wf; exact Hwf).
  destruct (roundtrip_to_str s0 true false true nid H0 He H1) as [B S]. fold (render s0) in B, S.
  cbn [base] in B, S. split; [exact B|]. split; [exact S|]. split.
  - intros Hc i Hi. unfold style_valid. rewrite <- drop_invalid_active by exact Hc. now apply S.
  - destruct (parse_parsable (render s0) nid) as [P V]. destruct (parse_wf (render s0) nid) as (W & N & _). auto.
Qed.

Theorem simplify_spec_exact s nid :
  ssorted (tbl s) -> no_esc (base s) = true -> valid_adds_wf (tbl s) ->
  let s' := fst (simplify s nid) in
  (forall i, i < length (base s) ->
        teq (style s' i) (style_of (map stxt (active_at (drop_invalid (tbl s)) i))))
  /\ (coh_marks (tbl s) -> forall i, i < length (base s) -> teq (style s' i) (style_valid s i)).
Proof.
  intros Hs He Hwf s'. unfold s'. rewrite simplify_def.
  set (s0 := mkA (base s) (drop_invalid (tbl s))).
  assert (H0 : ssorted (tbl s0)) by (apply drop_invalid_sorted; exact Hs).
  assert (H1 : adds_wf (tbl s0)) by (apply drop_invalid_wf; exact Hwf).
  destruct (roundtrip_to_str_exact s0 true false true nid H0 He H1) as [B S]. fold (render s0) in B, S.
  cbn [base] in B, S. split; [exact S|].
  intros Hc i Hi. unfold style_valid. rewrite <- drop_invalid_active by exact Hc. now apply S.
Qed.

(* a value with one valid and one invalid ("1A") setting; the stop markers share the identities *)
Definition ex_inv : astr :=
  mkA [65; 66; 67]%N
      [(0, mkP [mkS 1 [49]%N; mkS 2 [49; 65]%N] []);
       (1, mkP [mkS 3 [51; 56; 59; 53; 59; 49]%N] [mkS 2 [49; 65]%N]);
       (2, mkP [] [mkS 1 [49]%N]);
       (3, mkP [] [mkS 3 [51; 56; 59; 53; 59; 49]%N])].

Lemma cohL_check L : forallb (fun x => forallb (fun y => negb (Nat.eqb (sid x) (sid y)) || str_eqb (stxt x) (stxt y)) L) L = true
  -> cohL L.
Proof.
  intros H x y Hx Hy E. rewrite forallb_forall in H. specialize (H x Hx). rewrite forallb_forall in H.
  specialize (H y Hy). apply Nat.eqb_eq in E. rewrite E in H. cbn [negb orb] in H. now apply str_eqb_eq.
Qed.

Lemma ssorted_check t : (fix sortedb (l : list nat) : bool :=
                           match l with a :: ((b :: _) as r) => (a <? b) && sortedb r | _ => true end) (map fst t) = true
  -> ssorted t.
Proof.
  induction t as [|[k p] t IH]; intros H; [constructor|]. cbn [map fst] in H.
  destruct t as [|[k2 p2] t2]; [constructor; [intros kp []|constructor]|].
  cbn [map fst] in H. apply andb_true_iff in H as [H1 H2]. apply Nat.ltb_lt in H1.
  specialize (IH H2). constructor; [|exact IH].
  intros kp [<-|Hin]; [exact H1|]. inversion IH as [|? ? ? Hk _]; subst. specialize (Hk kp Hin). cbn [fst]. lia.
Qed.

Example simplify_ex :
  ssorted (tbl ex_inv) /\ no_esc (base ex_inv) = true /\ valid_adds_wf (tbl ex_inv) /\ coh_marks (tbl ex_inv)
  /\ is_valid_tbl (tbl ex_inv) = false
  /\ tbl (fst (simplify ex_inv 10))
     = [(0, mkP [mkS 11 [49]%N] []);
        (1, mkP [mkS 13 [51; 56; 59; 53; 59; 49]%N] []);
        (2, mkP [] [mkS 11 [49]%N]);
        (3, mkP [] [mkS 13 [51; 56; 59; 53; 59; 49]%N])]
  /\ map (fun i => tstate_obs (style (fst (simplify ex_inv 10)) i)) [0; 1; 2]
     = map (fun i => tstate_obs (style_valid ex_inv i)) [0; 1; 2].
Proof.
  split; [apply ssorted_check; reflexivity|]. split; [reflexivity|]. split.
  { intros x H Hv. cbn in H.
    repeat (destruct H as [<-|H]; [first [reflexivity | (exfalso; vm_compute in Hv; discriminate)]|]). destruct H. }
  split; [apply cohL_check; vm_compute; reflexivity|].
  split; [vm_compute; reflexivity|]. split; vm_compute; reflexivity.
Qed.

(* ====================================================================================== *)
(* 4. Stability                                                                              *)
(* ====================================================================================== *)
(* 4a. REGRESSION (finding F28).  Before F28 the clear code of FONT_TYPE (10) was itself a code that SET
   FONT_TYPE, and the stability clauses of C03 were false, in the model and in the Python code:
     s = AnsiString("AB"); s.apply_formatting("[11", 0, 1); s.apply_formatting("[1", 0, 1)
     s.apply_formatting("[3;4;9", 0, 2); s.simplify()
     str(s)                        was  ESC[11;1;3;4;9m A ESC[10;22m B ESC[m
     str(AnsiString(str(s)))       was  ESC[11;1;3;4;9m A ESC[22;10m B ESC[m      (not a fixed point)
     s.simplify(); str(s)          was  ESC[11;1;3;4;9m A ESC[22;10m B ESC[m      (not idempotent)
   (the table is not parsable - "3;4;9" is one setting of three groups - so the first rendering is
   unoptimised and drops font and bold by a reset; the simplified value has no font on "B"; its
   optimised rendering cleared the font with "10", which parsed back as a SETTING "10" appended after
   the others, and the next rendering listed the codes in a different order).
   With 10 = CLEAR of FONT_TYPE the three strings agree: *)
Definition ex_unstable : astr :=
  mkA [65; 66]%N
      [(0, mkP [mkS 1 [49; 49]%N; mkS 2 [49]%N; mkS 3 [51; 59; 52; 59; 57]%N] []);
       (1, mkP [] [mkS 1 [49; 49]%N; mkS 2 [49]%N]);
       (2, mkP [] [mkS 3 [51; 59; 52; 59; 57]%N])].

Example simplify_stable_regression :
  ssorted (tbl ex_unstable) /\ no_esc (base ex_unstable) = true /\ adds_wf (tbl ex_unstable)
  /\ coh_marks (tbl ex_unstable) /\ is_valid_tbl (tbl ex_unstable) = true /\ strict_ok (tbl ex_unstable) = true
  /\ is_parsable_tbl (tbl ex_unstable) = false
  /\ let s1 := fst (simplify ex_unstable 10) in
     render s1 = ESC :: LBR :: [49;49;59;49;59;51;59;52;59;57;109; 65]%N ++ ESC :: LBR :: [49;48;59;50;50;109; 66]%N ++ [ESC; LBR; CH_m]
     /\ render (fst (parse (render s1) 30)) = render s1
     /\ render (fst (simplify s1 30)) = render s1.
Proof.
  split; [apply ssorted_check; reflexivity|]. split; [reflexivity|]. split.
  { intros x H. cbn in H. repeat (destruct H as [<-|H]; [reflexivity|]). destruct H. }
  split; [apply cohL_check; vm_compute; reflexivity|]. split; [reflexivity|]. split; [reflexivity|].
  split; [reflexivity|].
  cbv zeta. split; [vm_compute; reflexivity|]. split; vm_compute; reflexivity.
Qed.

(* 4b. PLAN for the stability clauses.
   Write A_c(k) := map stxt (active_at (tbl c) k) for the list of active texts at position k, A_c(-1) := [].
   Canonical form of a value c (what `parse` produces from a rendering):
     (K1) rm_wf c, and every add text is parsable;
     (K2) every A_c(k) is a list of normal-form texts `textN g` of parsable groups that SET an effect
          (tk t = KSet e), with pairwise different effects (one setting per effect: ParseProofs.Rep);
     (K3) for every k < length (base c):  A_c(k) = filter (fun t => mem t (A_c(k))) (A_c(k-1))
                                                   ++ filter (fun t => negb (mem t (A_c(k-1)))) (A_c(k)),
          i.e. the kept settings keep their relative order and the new ones are appended.
          (K3) holds for parse w when w has at most one sequence per text position - renderings do.
   Steps:
     (R)  for canonical c, to_str c true false true = prender (base c) A_c, a function of the base and of the
          lists A_c(k) only: at position k it emits nothing if A_c(k) = A_c(k-1), else ESC [ em m where
          em = the shorter of join (clears of the effects that disappear ++ new texts) and
          join ("0" :: A_c(k)); the choice does not depend on whether the point has stop markers,
          because under strict_ok a point without stop markers only appends and a point with stop
          markers has a non-empty predecessor list.
     (S)  exact form of one parse step on the active lists:
          A_new(k) = filter (fun t => negb (mem t to_rem)) (A_old(k)) ++ to_app   for key <= k < len
          (from ParseProofs.step_remove / step_apply with no_mid).
     (C)  if A_old = L and the body is em(L, L') with (K2),(K3) for (L, L'), then A_new = L'
          (pgs_str on a join of normal-form groups returns the groups; s2d on them; Rep_step).
          This is where the clear code must re-parse as a clear: with 10 = CSet FONT_TYPE it failed (F28).
     Hence A_{parse (render c)} = A_c pointwise, parse (render c) is canonical, and by (R) it renders as c.
     Idempotence of simplify follows: drop_invalid is the identity on a table whose markers are valid. *)

(* ==== FOOTER ==== *)
Print Assumptions tokenize_bytes.
Print Assumptions tk_run_toks_of.
Print Assumptions to_str_toks_num.
Print Assumptions tokenize_to_str.
Print Assumptions roundtrip_to_str_opt.
Print Assumptions roundtrip_to_str_unopt.
Print Assumptions roundtrip_to_str.
Print Assumptions roundtrip_text.
Print Assumptions roundtrip_style.
Print Assumptions roundtrip_to_str_exact.
Print Assumptions roundtrip_style_exact.
Print Assumptions parse_adds_parsable.
Print Assumptions parse_parsable.
Print Assumptions drop_invalid_active.
Print Assumptions simplify_spec.
Print Assumptions simplify_spec_exact.
