(* __iadd__ / __add__ / join : text, per-character settings of both operands, well-formedness of
   the result; the seam merge. *)
From AS Require Import Base.
From AS.Model Require Import Table Ops.
From AS.Proofs Require Import TableProofs SliceProofs PadProofs.

Definition nodup_active (t : fmts) : Prop := forall k, NoDup (ids (active_at t k)).
Definition WF (s : astr) : Prop :=
  ssorted (tbl s) /\ keys_le (tbl s) (length (base s)) /\ strict_ok (tbl s) = true
  /\ nodup_active (tbl s) /\ final_active (tbl s) = [].

(* ---------- small helpers ---------- *)
Definition rmall (rems act : list setting) : list setting :=
  fold_left (fun a s => remove_ref s a) rems act.

Lemma step_rmall act p : step act p = rmall (prem p) act ++ padd p.
Proof. reflexivity. Qed.

Lemma rmall_app r1 r2 act : rmall (r1 ++ r2) act = rmall r2 (rmall r1 act).
Proof. unfold rmall. apply fold_left_app. Qed.

Lemma rmall_nil l : rmall l [] = [].
Proof. apply fold_remove_nil. Qed.

Lemma run_cons act k p t : run act ((k, p) :: t) = run (step act p) t.
Proof. reflexivity. Qed.

Lemma run_one act k p : run act [(k, p)] = step act p.
Proof. reflexivity. Qed.

Lemma shf_cons L k p t : shift_idx L false ((k, p) :: t) = (k + L, p) :: shift_idx L false t.
Proof. reflexivity. Qed.

Lemma upto_app k t1 t2 : upto k (t1 ++ t2) = upto k t1 ++ upto k t2.
Proof. unfold upto. apply filter_app. Qed.

Lemma upto_none k t : (forall kp, In kp t -> k < fst kp) -> upto k t = [].
Proof.
  intros H. unfold upto. induction t as [|kp t IH]; [reflexivity|]. cbn [filter].
  replace (fst kp <=? k) with false by (symmetry; apply Nat.leb_gt; apply H; now left).
  apply IH. intros; apply H; now right.
Qed.

Lemma shf_keys_ge L t kp : In kp (shift_idx L false t) -> L <= fst kp.
Proof.
  intros Hin. rewrite shift_idx_map in Hin. apply in_map_iff in Hin as (kp0 & <- & _).
  pose proof (sh_fst_bounds L false kp0). unfold sh in *. cbn [andb fst] in *. lia.
Qed.

Lemma shf_in L t kp : In kp (shift_idx L false t) -> exists kp0, In kp0 t /\ kp = (fst kp0 + L, snd kp0).
Proof.
  intros Hin. rewrite shift_idx_map in Hin. apply in_map_iff in Hin as (kp0 & <- & Hin).
  exists kp0. split; auto.
Qed.

Lemma tput_snoc_replace L p q t0 : keys_lt t0 L -> tput L p (t0 ++ [(L, q)]) = t0 ++ [(L, p)].
Proof.
  induction t0 as [|[k' p'] t0 IH]; intros H; cbn [app tput].
  - now rewrite Nat.eqb_refl.
  - assert (Hlt : k' < L) by (apply (H (k', p')); now left).
    replace (Nat.eqb L k') with false by (symmetry; apply Nat.eqb_neq; lia).
    replace (L <? k') with false by (symmetry; apply Nat.ltb_ge; lia).
    f_equal. apply IH. eapply keys_lt_tail; eauto.
Qed.

(* strict replay *)
Lemma strict_rems_some rems : forall act a, strict_rems rems act = Some a -> a = rmall rems act.
Proof.
  induction rems as [|s r IH]; intros act a H; cbn in *.
  - congruence.
  - destruct (in_ref s act); [|discriminate]. now apply IH.
Qed.

Lemma strict_rems_app r1 r2 : forall act,
  strict_rems (r1 ++ r2) act = match strict_rems r1 act with Some a => strict_rems r2 a | None => None end.
Proof.
  induction r1 as [|s r IH]; intros act; cbn [app strict_rems]; auto.
  destruct (in_ref s act); auto.
Qed.

Lemma sok_app t1 : forall t2 act,
  strict_ok_from (t1 ++ t2) act = strict_ok_from t1 act && strict_ok_from t2 (run act t1).
Proof.
  induction t1 as [|[k p] t1 IH]; intros t2 act; cbn [app strict_ok_from]; auto.
  destruct (strict_rems (prem p) act) as [a|] eqn:E; auto.
  rewrite IH, run_cons, step_rmall. apply strict_rems_some in E. now subst a.
Qed.

Lemma sok_shift n b t : forall act, strict_ok_from (shift_idx n b t) act = strict_ok_from t act.
Proof.
  rewrite shift_idx_map. induction t as [|[k p] t IH]; intros act; [reflexivity|].
  cbn [map]. destruct (sh n b (k, p)) as [k' p'] eqn:E.
  assert (p' = p) by (pose proof (sh_snd n b (k, p)) as H; rewrite E in H; exact H). subst p'.
  cbn [strict_ok_from]. destruct (strict_rems (prem p) act); auto.
Qed.

(* ---------- structure of the loop ---------- *)
(* once past the seam, every point of b lands on a fresh key: the loop only appends *)
Fixpoint tail_loop (inc : fmts) (L : nat) (find repl : list setting) : res fmts :=
  match inc with
  | [] => OK []
  | (k0, ip) :: rest =>
    match retarget (rev (find_refs find (prem ip))) (prem ip) find repl with
    | OK (rems, find', repl') =>
        match tail_loop rest L find' repl' with
        | OK r => OK ((k0 + L, mkP (padd ip) rems) :: r)
        | Err e => Err e end
    | Err e => Err e
    end
  end.

Lemma loop_tail L seam : forall inc t find repl, ssorted inc ->
  (forall kp kq, In kp inc -> In kq t -> fst kq < fst kp + L) ->
  iadd_loop inc L seam t find repl
  = match tail_loop inc L find repl with OK r => OK (t ++ r) | Err e => Err e end.
Proof.
  induction inc as [|[k0 ip] rest IH]; intros t find repl Hs Hlt.
  - cbn. now rewrite app_nil_r.
  - cbn [iadd_loop tail_loop].
    assert (Hn : tget (k0 + L) t = None).
    { apply tget_notin. intros kq Hin. specialize (Hlt (k0, ip) kq (or_introl eq_refl) Hin). cbn [fst] in Hlt. lia. }
    rewrite Hn.
    destruct (retarget _ _ _ _) as [[[rems f'] r']|e]; [|reflexivity].
    rewrite tput_snoc.
    2:{ intros kq Hin. specialize (Hlt (k0, ip) kq (or_introl eq_refl) Hin). exact Hlt. }
    inversion Hs as [|? ? ? Hk Hs']; subst.
    rewrite IH; auto.
    + destruct (tail_loop rest L f' r'); [|reflexivity]. now rewrite <- app_assoc.
    + intros kp kq Hp Hq. apply in_app_or in Hq as [Hq|[<-|[]]].
      * exact (Hlt kp kq (or_intror Hp) Hq).
      * cbn [fst]. specialize (Hk kp Hp). lia.
Qed.

Lemma tail_loop_nil L : forall inc, tail_loop inc L [] [] = OK (shift_idx L false inc).
Proof.
  induction inc as [|[k0 ip] rest IH]; [reflexivity|].
  cbn [tail_loop]. change (retarget (rev (find_refs [] (prem ip))) (prem ip) [] []) with (OK (prem ip, @nil setting, @nil setting)).
  cbv iota beta. rewrite IH. destruct ip; reflexivity.
Qed.

Definition seam_of (a : astr) : list setting :=
  match length (base a) with O => [] | S i => active_at (tbl a) i end.

Lemma iadd_unfold a b :
  iadd a b = match iadd_loop (tbl b) (length (base a)) (seam_of a) (tbl a) [] [] with
             | OK t => OK (mkA (base a ++ base b) t) | Err e => Err e end.
Proof.
  unfold iadd, seam_of, bind. destruct (length (base a)) as [|i] eqn:E; [reflexivity|].
  replace (i <? length (base a ++ base b)) with true; [reflexivity|].
  symmetry. apply Nat.ltb_lt. rewrite app_length. lia.
Qed.

(* the merge test of __iadd__ *)
Definition merge_cond (pa ip0 : point) (seam : list setting) : bool :=
  negb (is_nil (padd ip0))
  && list_eqb same_val (firstn (length (padd ip0)) (prem pa)) (padd ip0)
  && positions_sorted (firstn (length (padd ip0)) (prem pa)) seam.

Definition merges (a b : astr) : bool :=
  match tget (length (base a)) (tbl a), tget 0 (tbl b) with
  | Some pa, Some ip0 => merge_cond pa ip0 (seam_of a)
  | _, _ => false
  end.

(* case 1: no common key: plain concatenation of the tables *)
Lemma iadd_concat a b :
  ssorted (tbl a) -> keys_le (tbl a) (length (base a)) -> ssorted (tbl b) ->
  (keys_lt (tbl a) (length (base a)) \/ (forall kp, In kp (tbl b) -> 0 < fst kp)) ->
  iadd a b = OK (mkA (base a ++ base b) (tbl a ++ shift_idx (length (base a)) false (tbl b))).
Proof.
  intros Ha Hk Hb Hor. rewrite iadd_unfold, loop_tail, tail_loop_nil; auto.
  intros kp kq Hp Hq. destruct Hor as [H|H].
  - specialize (H kq Hq). lia.
  - specialize (H kp Hp). specialize (Hk kq Hq). lia.
Qed.

(* case 2: both have a point at the seam *)
Lemma iadd_seam a b t0 pa ip0 rest :
  tbl a = t0 ++ [(length (base a), pa)] -> keys_lt t0 (length (base a)) ->
  tbl b = (0, ip0) :: rest -> ssorted (tbl b) ->
  let L := length (base a) in
  iadd a b =
  if merge_cond pa ip0 (seam_of a) then
    let mine' := mkP (padd pa) (skipn (length (padd ip0)) (prem pa) ++ prem ip0) in
    match tail_loop rest L (padd ip0) (firstn (length (padd ip0)) (prem pa)) with
    | OK r => OK (mkA (base a ++ base b) ((if point_is_empty mine' then t0 else t0 ++ [(L, mine')]) ++ r))
    | Err e => Err e end
  else OK (mkA (base a ++ base b)
               (t0 ++ [(L, mkP (padd pa ++ padd ip0) (prem pa ++ prem ip0))] ++ shift_idx L false rest)).
Proof.
  intros Ea Hlt Eb Hb L. rewrite iadd_unfold, Ea, Eb. fold L. cbn [iadd_loop]. cbn [Nat.add].
  rewrite tget_snoc by exact Hlt. rewrite Nat.eqb_refl. cbn [andb].
  rewrite Eb in Hb. inversion Hb as [|? ? ? Hk Hs]; subst.
  unfold merge_cond.
  destruct (negb (is_nil (padd ip0)) && list_eqb same_val (firstn (length (padd ip0)) (prem pa)) (padd ip0)
            && positions_sorted (firstn (length (padd ip0)) (prem pa)) (seam_of a)) eqn:C.
  - cbv zeta.
    destruct (point_is_empty _) eqn:Em.
    + rewrite tdel_snoc by exact Hlt. rewrite loop_tail; [|exact Hs|].
      * destruct (tail_loop rest L _ _); reflexivity.
      * intros kp kq Hp Hq. specialize (Hlt kq Hq). fold L in Hlt. lia.
    + rewrite tput_snoc_replace by exact Hlt. rewrite loop_tail; [|exact Hs|].
      * destruct (tail_loop rest L _ _); reflexivity.
      * intros kp kq Hp Hq. apply in_app_or in Hq as [Hq|[<-|[]]].
        -- specialize (Hlt kq Hq). fold L in Hlt. lia.
        -- cbn [fst]. specialize (Hk kp Hp). lia.
  - rewrite tput_snoc_replace by exact Hlt. rewrite loop_tail, tail_loop_nil; [|exact Hs|].
    + now rewrite <- app_assoc.
    + intros kp kq Hp Hq. apply in_app_or in Hq as [Hq|[<-|[]]].
      * specialize (Hlt kq Hq). fold L in Hlt. lia.
      * cbn [fst]. specialize (Hk kp Hp). lia.
Qed.

(* ---------- gluing two tables at the seam ---------- *)
Definition keys_eq (t : fmts) (n : nat) : Prop := forall kp, In kp t -> fst kp = n.
Definition keys_gt (t : fmts) (n : nat) : Prop := forall kp, In kp t -> n < fst kp.

Lemma ssorted_app_inv t1 t2 : ssorted (t1 ++ t2) -> ssorted t1 /\ ssorted t2.
Proof.
  induction t1 as [|[k p] t1 IH]; cbn [app]; intros H.
  - split; [constructor|exact H].
  - inversion H as [|? ? ? Hk Hs]; subst. destruct (IH Hs) as [H1 H2]. split; auto.
    constructor; auto. intros kp Hin. apply Hk. apply in_or_app. now left.
Qed.

Lemma upto_keys_le k t : keys_le t k -> upto k t = t.
Proof. apply upto_all. Qed.

Section Glue.
Variables (ta P Ma M R' : fmts) (L : nat).
Hypothesis Eta : ta = P ++ Ma.
Hypothesis Sta : ssorted ta.
Hypothesis KP : keys_lt P L.
Hypothesis KMa : keys_eq Ma L.
Hypothesis KM : M = [] \/ exists p, M = [(L, p)].
Hypothesis SR : ssorted R'.
Hypothesis KR : keys_gt R' L.
Let c := P ++ M ++ R'.

Lemma glue_sorted : ssorted c.
Proof.
  unfold c. assert (SP : ssorted P) by (rewrite Eta in Sta; now apply ssorted_app_inv in Sta).
  apply ssorted_app; auto.
  - destruct KM as [->|(p & ->)]; cbn [app]; auto. constructor; auto.
  - intros x y Hx Hy. specialize (KP x Hx). apply in_app_or in Hy as [Hy|Hy].
    + destruct KM as [->|(p & ->)]; [destruct Hy|]. destruct Hy as [<-|[]]. cbn [fst]. lia.
    + specialize (KR y Hy). lia.
Qed.

Lemma glue_keys N : L <= N -> keys_le R' N -> keys_le c N.
Proof.
  intros HN HR kp Hin. unfold c in Hin. apply in_app_or in Hin as [Hin|Hin].
  - specialize (KP kp Hin). lia.
  - apply in_app_or in Hin as [Hin|Hin]; auto.
    destruct KM as [->|(p & ->)]; [destruct Hin|]. destruct Hin as [<-|[]]. cbn [fst]. lia.
Qed.

Lemma glue_left k : k < L -> active_at c k = active_at ta k.
Proof.
  intros Hk. rewrite (active_at_run c k glue_sorted), (active_at_run ta k Sta). f_equal.
  unfold c. rewrite Eta, !upto_app.
  rewrite (upto_none k Ma) by (intros kp Hin; specialize (KMa kp Hin); lia).
  rewrite (upto_none k R') by (intros kp Hin; specialize (KR kp Hin); lia).
  rewrite (upto_none k M); [reflexivity|].
  intros kp Hin. destruct KM as [->|(p & ->)]; [destruct Hin|]. destruct Hin as [<-|[]]. cbn [fst]. lia.
Qed.

Lemma glue_upto k : upto (L + k) c = P ++ M ++ upto (L + k) R'.
Proof.
  unfold c. rewrite !upto_app. f_equal; [|f_equal].
  - apply upto_all. intros kp Hin. specialize (KP kp Hin). lia.
  - apply upto_all. intros kp Hin. destruct KM as [->|(p & ->)]; [destruct Hin|]. destruct Hin as [<-|[]]. cbn [fst]. lia.
Qed.
End Glue.

(* the non-merging glue: the part of b after its point at 0 is appended unchanged *)
Section GlueShift.
Variables (ta tb P Ma M B0 R : fmts) (L : nat).
Hypothesis Eta : ta = P ++ Ma.
Hypothesis Etb : tb = B0 ++ R.
Hypothesis Sta : ssorted ta.
Hypothesis Stb : ssorted tb.
Hypothesis KP : keys_lt P L.
Hypothesis KMa : keys_eq Ma L.
Hypothesis KM : M = [] \/ exists p, M = [(L, p)].
Hypothesis KB0 : keys_eq B0 0.
Hypothesis KR : keys_gt R 0.
Hypothesis Hrun : run (run [] P) M = run [] B0.
Let c := P ++ M ++ shift_idx L false R.

Lemma gs_SR : ssorted (shift_idx L false R).
Proof. apply shift_sorted. rewrite Etb in Stb. now apply ssorted_app_inv in Stb. Qed.

Lemma gs_KR : keys_gt (shift_idx L false R) L.
Proof. intros kp Hin. apply shf_in in Hin as (kp0 & Hin & ->). specialize (KR kp0 Hin). cbn [fst]. lia. Qed.

Lemma gs_sorted : ssorted c.
Proof. apply (glue_sorted ta P Ma M _ L Eta Sta KP KM gs_SR gs_KR). Qed.

Lemma gs_keys n : keys_le tb n -> keys_le c (L + n).
Proof.
  intros H. apply (glue_keys P M _ L KP KM); [lia|].
  intros kp Hin. apply shf_in in Hin as (kp0 & Hin & ->). cbn [fst].
  assert (fst kp0 <= n) by (apply H; rewrite Etb; apply in_or_app; now right). lia.
Qed.

Lemma gs_left k : k < L -> active_at c k = active_at ta k.
Proof. apply (glue_left ta P Ma M _ L Eta Sta KP KMa KM gs_SR gs_KR). Qed.

Lemma gs_right k : active_at c (L + k) = active_at tb k.
Proof.
  rewrite (active_at_run c _ gs_sorted), (active_at_run tb k Stb).
  unfold c. rewrite (glue_upto P M _ L KP KM), upto_shift, !run_app, Hrun, run_shift_idx.
  rewrite Etb, upto_app, run_app. f_equal. f_equal. symmetry. apply upto_all.
  intros kp Hin. specialize (KB0 kp Hin). lia.
Qed.

Lemma gs_strict : strict_ok ta = true -> strict_ok_from M (run [] P) = true -> strict_ok tb = true ->
  strict_ok c = true.
Proof.
  unfold strict_ok, c. rewrite Eta, Etb, !sok_app, sok_shift, Hrun.
  intros H1 H2 H3. apply andb_true_iff in H1 as [H1 _]. apply andb_true_iff in H3 as [_ H3].
  now rewrite H1, H2, H3.
Qed.
End GlueShift.

(* ---------- consequences of well-formedness ---------- *)
Lemma WF_assemble a b tc :
  WF a -> WF b -> ssorted tc -> keys_le tc (length (base a) + length (base b)) ->
  (forall k, k < length (base a) -> active_at tc k = active_at (tbl a) k) ->
  (forall k, NoDup (ids (active_at tc (length (base a) + k)))) ->
  active_at tc (length (base a) + length (base b)) = [] ->
  strict_ok tc = true ->
  WF (mkA (base a ++ base b) tc).
Proof.
  intros (Sa & Ka & Oa & Na & Fa) (Sb & Kb & Ob & Nb & Fb) Sc Kc Hl Hr Hf Ho.
  unfold WF. cbn [base tbl]. rewrite app_length. repeat split; auto.
  - intros k. destruct (Nat.lt_ge_cases k (length (base a))) as [Hk|Hk].
    + rewrite Hl by exact Hk. apply Na.
    + replace k with (length (base a) + (k - length (base a))) by lia. apply Hr.
  - rewrite <- (active_beyond tc Sc _ Kc). exact Hf.
Qed.

Lemma glue_result a b P Ma M B0 R :
  let L := length (base a) in
  WF a -> WF b -> tbl a = P ++ Ma -> tbl b = B0 ++ R ->
  keys_lt P L -> keys_eq Ma L -> (M = [] \/ exists p, M = [(L, p)]) ->
  keys_eq B0 0 -> keys_gt R 0 ->
  run (run [] P) M = run [] B0 -> strict_ok_from M (run [] P) = true ->
  let c := mkA (base a ++ base b) (P ++ M ++ shift_idx L false R) in
  (forall k, k < L -> active_at (tbl c) k = active_at (tbl a) k)
  /\ (forall k, active_at (tbl c) (L + k) = active_at (tbl b) k)
  /\ WF c.
Proof.
  intros L Wa Wb Ea Eb KP KMa KM KB0 KR Hrun HsM c.
  pose proof Wa as (Sa & Ka & Oa & Na & Fa). pose proof Wb as (Sb & Kb & Ob & Nb & Fb).
  assert (Hl : forall k, k < L -> active_at (tbl c) k = active_at (tbl a) k).
  { intros k Hk. apply (gs_left (tbl a) (tbl b) P Ma M B0 R L); auto. }
  assert (Hr : forall k, active_at (tbl c) (L + k) = active_at (tbl b) k).
  { intros k. apply (gs_right (tbl a) (tbl b) P Ma M B0 R L); auto. }
  split; [exact Hl|]. split; [exact Hr|].
  apply WF_assemble; auto.
  - apply (gs_sorted (tbl a) (tbl b) P Ma M B0 R L); auto.
  - apply (gs_keys (tbl b) P M B0 R L); auto.
  - intros k. fold L. change (NoDup (ids (active_at (tbl c) (L + k)))). rewrite Hr. apply Nb.
  - fold L. change (active_at (tbl c) (L + length (base b)) = []). rewrite Hr.
    rewrite (active_beyond (tbl b) Sb _ Kb). exact Fb.
  - apply (gs_strict (tbl a) (tbl b) P Ma M B0 R L); auto.
Qed.

(* shape of a well-formed left operand at its end *)
Lemma WF_end a : WF a ->
  let L := length (base a) in
  (keys_lt (tbl a) L /\ tget L (tbl a) = None)
  \/ (exists t0 pa, tbl a = t0 ++ [(L, pa)] /\ keys_lt t0 L /\ tget L (tbl a) = Some pa
        /\ padd pa = [] /\ strict_rems (prem pa) (run [] t0) = Some []
        /\ rmall (prem pa) (run [] t0) = []).
Proof.
  intros (Sa & Ka & Oa & Na & Fa) L.
  destruct (last_decomp (tbl a) L Sa Ka) as [Hlt|(t0 & pa & E & S0 & Hlt)].
  - left. split; auto. apply tget_notin. intros kp Hin. specialize (Hlt kp Hin). lia.
  - right. exists t0, pa. split; [exact E|]. split; [exact Hlt|].
    split; [rewrite E; now apply tget_snoc|].
    rewrite final_active_run, E, run_app, run_one, step_rmall in Fa.
    apply app_eq_nil in Fa as [F1 F2]. split; [exact F2|].
    unfold strict_ok in Oa. rewrite E, sok_app in Oa. apply andb_true_iff in Oa as [_ Oa].
    cbn [strict_ok_from] in Oa. destruct (strict_rems (prem pa) (run [] t0)) as [x|] eqn:Ex; [|discriminate].
    pose proof (strict_rems_some _ _ _ Ex) as Hx. rewrite F1 in Hx. subst x. auto.
Qed.

(* shape of a sorted right operand at its beginning *)
Lemma sorted_begin tb : ssorted tb ->
  (keys_gt tb 0 /\ tget 0 tb = None)
  \/ (exists ip0 rest, tb = (0, ip0) :: rest /\ keys_gt rest 0 /\ tget 0 tb = Some ip0).
Proof.
  intros Sb. destruct tb as [|[k0 ip0] rest].
  - left. split; [intros kp []|reflexivity].
  - inversion Sb as [|? ? ? Hk Hs]; subst. destruct k0 as [|k0].
    + right. exists ip0, rest. repeat split; auto.
    + left. split; [|reflexivity]. intros kp [<-|Hin]; cbn [fst]; [lia|]. specialize (Hk kp Hin). lia.
Qed.

Lemma strict_first ip0 rest : strict_ok ((0, ip0) :: rest) = true -> prem ip0 = [].
Proof.
  unfold strict_ok. cbn [strict_ok_from]. destruct (prem ip0) as [|s r]; auto. cbn. discriminate.
Qed.

(* ---------- the non-merging case: identities of both operands are preserved ---------- *)
Theorem iadd_nomerge a b : WF a -> WF b -> merges a b = false ->
  let L := length (base a) in
  exists c, iadd a b = OK c /\ base c = base a ++ base b
    /\ (forall k, k < L -> active_at (tbl c) k = active_at (tbl a) k)
    /\ (forall k, active_at (tbl c) (L + k) = active_at (tbl b) k)
    /\ WF c.
Proof.
  intros Wa Wb Hm L.
  pose proof Wa as (Sa & Ka & Oa & Na & Fa). pose proof Wb as (Sb & Kb & Ob & Nb & Fb).
  destruct (WF_end a Wa) as [[Hlt Ga]|(t0 & pa & Ea & Hlt & Ga & Apa & Spa & Rpa)]; fold L in Hlt, Ga.
  - (* a has no point at its end *)
    eexists. split; [apply iadd_concat; auto|]. split; [reflexivity|]. fold L.
    destruct (sorted_begin (tbl b) Sb) as [[Hgt Gb]|(ip0 & rest & Eb & Hgt & Gb)].
    + replace (tbl a ++ shift_idx L false (tbl b)) with (tbl a ++ [] ++ shift_idx L false (tbl b)) by reflexivity.
      apply (glue_result a b (tbl a) [] [] [] (tbl b)); auto.
      * now rewrite app_nil_r.
      * intros kp [].
      * intros kp [].
    + assert (Et : tbl a ++ shift_idx L false (tbl b) = tbl a ++ [(L, ip0)] ++ shift_idx L false rest)
        by (rewrite Eb; reflexivity).
      rewrite Et.
      apply (glue_result a b (tbl a) [] [(L, ip0)] [(0, ip0)] rest); auto.
      * now rewrite app_nil_r.
      * intros kp [].
      * right. eauto.
      * intros kp [<-|[]]. reflexivity.
      * rewrite !run_one. change (run [] (tbl a)) with (final_active (tbl a)). now rewrite Fa.
      * change (run [] (tbl a)) with (final_active (tbl a)). rewrite Fa.
        rewrite Eb in Ob. unfold strict_ok in Ob. cbn [strict_ok_from] in *.
        destruct (strict_rems (prem ip0) []); [reflexivity|discriminate].
  - destruct (sorted_begin (tbl b) Sb) as [[Hgt Gb]|(ip0 & rest & Eb & Hgt & Gb)].
    + (* b has no point at 0 *)
      eexists. split; [apply iadd_concat; auto|]. split; [reflexivity|]. fold L.
      assert (Et : tbl a ++ shift_idx L false (tbl b) = t0 ++ [(L, pa)] ++ shift_idx L false (tbl b))
        by (rewrite Ea, <- app_assoc; reflexivity).
      rewrite Et.
      apply (glue_result a b t0 [(L, pa)] [(L, pa)] [] (tbl b)); auto.
      * intros kp [<-|[]]. reflexivity.
      * right. eauto.
      * intros kp [].
      * rewrite run_one, step_rmall, Rpa, Apa. reflexivity.
      * cbn [strict_ok_from]. now rewrite Spa.
    + (* both have a point at the seam, and the merge test fails *)
      unfold merges in Hm. fold L in Hm. rewrite Ga, Gb in Hm.
      pose proof (iadd_seam a b t0 pa ip0 rest Ea Hlt Eb Sb) as Hi. cbv zeta in Hi. fold L in Hi.
      rewrite Hm in Hi. eexists. split; [exact Hi|]. split; [reflexivity|].
      apply (glue_result a b t0 [(L, pa)] [(L, _)] [(0, ip0)] rest); auto.
      * intros kp [<-|[]]. reflexivity.
      * right. eauto.
      * intros kp [<-|[]]. reflexivity.
      * rewrite !run_one, !step_rmall. cbn [padd prem]. rewrite rmall_app, Rpa, Apa. reflexivity.
      * cbn [strict_ok_from prem padd]. rewrite strict_rems_app, Spa.
        rewrite Eb in Ob. unfold strict_ok in Ob. cbn [strict_ok_from] in Ob.
        destruct (strict_rems (prem ip0) []); [reflexivity|discriminate].
Qed.

(* ---------- the retargeting of stop markers ---------- *)
Lemma remove_nth_app {A} (pf l : list A) i : remove_nth (length pf + i) (pf ++ l) = pf ++ remove_nth i l.
Proof. induction pf as [|x pf IH]; cbn; [reflexivity|]. now rewrite IH. Qed.

Lemma set_nth_length {A} (l : list A) : forall i v, length (set_nth i v l) = length l.
Proof. induction l as [|x l IH]; intros [|i] v; cbn; auto. Qed.

Lemma retarget_app p1 : forall p2 rems find repl,
  retarget (p1 ++ p2) rems find repl
  = match retarget p1 rems find repl with
    | OK (rm, f, r) => retarget p2 rm f r
    | Err e => Err e end.
Proof.
  induction p1 as [|[fi ai] p1 IH]; intros p2 rems find repl; [reflexivity|].
  cbn [app retarget]. destruct (nth_error repl fi); [|reflexivity].
  destruct ((fi <? length find) && (ai <? length rems)); [|reflexivity]. apply IH.
Qed.

Definition shp (d : nat) (x : nat * nat) : nat * nat := (d + fst x, snd x).

Lemma retarget_shift pf pr : length pf = length pr -> forall pairs rems find repl,
  retarget (map (shp (length pf)) pairs) rems (pf ++ find) (pr ++ repl)
  = match retarget pairs rems find repl with
    | OK (rm, f, r) => OK (rm, pf ++ f, pr ++ r)
    | Err e => Err e end.
Proof.
  intros Hl. induction pairs as [|[fi ai] pairs IH]; intros rems find repl; [reflexivity|].
  cbn [map retarget shp fst snd].
  rewrite nth_error_app2 by lia. replace (length pf + fi - length pr) with fi by lia.
  destruct (nth_error repl fi) as [x|]; [|reflexivity].
  rewrite app_length.
  replace (length pf + fi <? length pf + length find) with (fi <? length find)
    by (apply Bool.eq_iff_eq_true; rewrite !Nat.ltb_lt; lia).
  destruct ((fi <? length find) && (ai <? length rems)); [|reflexivity].
  rewrite remove_nth_app. rewrite Hl at 2. rewrite remove_nth_app. apply IH.
Qed.

(* with duplicate-free stop markers every searched setting matches at most once *)
Fixpoint fr_simple (s : nat) (find l : list setting) : list (nat * nat) :=
  match find with
  | [] => []
  | x :: r => (match find_ref x l with Some p => [(s, p)] | None => [] end) ++ fr_simple (S s) r l
  end.

Lemma find_ref_ids_none x l : ~ In (sid x) (ids l) -> find_ref x l = None.
Proof.
  induction l as [|y l IH]; cbn; auto. intros H. unfold same_ref.
  destruct (Nat.eqb_spec (sid x) (sid y)) as [E|E]; [exfalso; apply H; left; congruence|].
  rewrite IH; auto.
Qed.

Lemma matches_simple (i : nat) (x : setting) : forall l s, NoDup (ids l) ->
  flat_map (fun '(i2, y) => if same_ref x y then [(i, i2)] else []) (combine (seq s (length l)) l)
  = match find_ref x l with Some p => [(i, s + p)] | None => [] end.
Proof.
  induction l as [|y l IH]; intros s Hnd; [reflexivity|].
  cbn [length seq combine flat_map find_ref]. inversion Hnd as [|? ? Hn Hd]; subst.
  rewrite (IH (S s) Hd). destruct (same_ref x y) eqn:E.
  - rewrite find_ref_ids_none; [cbn; now rewrite Nat.add_0_r|].
    unfold same_ref in E. apply Nat.eqb_eq in E. now rewrite E.
  - destruct (find_ref x l); cbn; [|reflexivity]. now rewrite Nat.add_succ_r.
Qed.

Lemma find_refs_simple find l : NoDup (ids l) -> find_refs find l = fr_simple 0 find l.
Proof.
  intros Hnd. unfold find_refs.
  enough (H : forall s,
    flat_map (fun '(i, x) =>
                flat_map (fun '(i2, y) => if same_ref x y then [(i, i2)] else [])
                         (combine (seq 0 (length l)) l))
             (combine (seq s (length find)) find) = fr_simple s find l) by apply H.
  induction find as [|x find IH]; intros s; [reflexivity|].
  cbn [length seq combine flat_map fr_simple]. rewrite IH. f_equal.
  rewrite (matches_simple s x l 0 Hnd). destruct (find_ref x l); reflexivity.
Qed.

Lemma fr_simple_shift find l : forall s, fr_simple (S s) find l = map (shp 1) (fr_simple s find l).
Proof.
  induction find as [|x find IH]; intros s; [reflexivity|].
  cbn [fr_simple]. rewrite map_app, <- IH. f_equal. destruct (find_ref x l); reflexivity.
Qed.

(* what the retargeting computes, as a recursion over the pending pairs *)
Fixpoint rt_spec (find repl l rems : list setting) : list setting * list setting * list setting :=
  match find, repl with
  | f :: find', r :: repl' =>
      let '(rems', fo, ro) := rt_spec find' repl' l rems in
      match find_ref f l with
      | Some p => (set_nth p r rems', fo, ro)
      | None => (rems', f :: fo, r :: ro)
      end
  | _, _ => (rems, [], [])
  end.

Lemma rt_spec_length find : forall repl l rems, length (fst (fst (rt_spec find repl l rems))) = length rems.
Proof.
  induction find as [|f find IH]; intros [|r repl] l rems; try reflexivity.
  cbn [rt_spec]. specialize (IH repl l rems). destruct (rt_spec find repl l rems) as [[rm fo] ro].
  cbn [fst] in IH. destruct (find_ref f l); cbn [fst]; auto. now rewrite set_nth_length.
Qed.

Lemma find_ref_lt x l : forall p, find_ref x l = Some p -> p < length l.
Proof.
  induction l as [|y l IH]; intros p; cbn; [discriminate|].
  destruct (same_ref x y); [intros H; inversion H; lia|].
  destruct (find_ref x l) as [q|]; cbn; [|discriminate]. intros H; inversion H. specialize (IH q eq_refl). lia.
Qed.

Lemma retarget_spec l rems : length rems = length l -> forall find repl, length find = length repl ->
  retarget (rev (fr_simple 0 find l)) rems find repl = OK (rt_spec find repl l rems).
Proof.
  intros Hlen. induction find as [|f find IH]; intros [|r repl] Hl; try discriminate; [reflexivity|].
  cbn [fr_simple rt_spec]. rewrite fr_simple_shift, rev_app_distr, <- map_rev, retarget_app.
  change (f :: find) with ([f] ++ find). change (r :: repl) with ([r] ++ repl).
  change 1 with (length [f]). rewrite retarget_shift by reflexivity.
  cbn in Hl. rewrite IH by lia. pose proof (rt_spec_length find repl l rems) as Hrl.
  destruct (rt_spec find repl l rems) as [[rm fo] ro]. cbn [fst] in Hrl.
  destruct (find_ref f l) as [p|] eqn:F; [|reflexivity].
  cbn [rev app retarget nth_error length]. apply find_ref_lt in F.
  replace (p <? length rm) with true by (symmetry; apply Nat.ltb_lt; lia). reflexivity.
Qed.

(* ---------- retargeting as a renaming of identities ---------- *)
Definition ren (FR : list (setting * setting)) (x : setting) : setting :=
  match List.find (fun fr => same_ref (fst fr) x) FR with Some fr => snd fr | None => x end.
Definition keep (l : list setting) (fr : setting * setting) : bool := negb (in_ref (fst fr) l).

Lemma find_ref_none_all f l : find_ref f l = None -> forall y, In y l -> same_ref f y = false.
Proof.
  induction l as [|z l IH]; cbn; [intros _ y []|].
  destruct (same_ref f z) eqn:E; [discriminate|]. destruct (find_ref f l); [discriminate|].
  intros _ y [<-|Hy]; auto.
Qed.

Lemma map_set_nth (f : setting) (r : setting) (g : setting -> setting) : forall l p,
  NoDup (ids l) -> find_ref f l = Some p ->
  map (fun y => if same_ref f y then r else g y) l = set_nth p r (map g l).
Proof.
  induction l as [|z l IH]; intros p Hnd; cbn [find_ref map]; [discriminate|].
  inversion Hnd as [|? ? Hn Hd]; subst. destruct (same_ref f z) eqn:E.
  - intros H; inversion H; subst. cbn [set_nth]. f_equal.
    apply map_ext_in. intros y Hy. replace (same_ref f y) with false; auto.
    symmetry. unfold same_ref in *. apply Nat.eqb_eq in E. apply Nat.eqb_neq. intros E2.
    apply Hn. unfold ids. apply in_map_iff. exists y. split; congruence.
  - destruct (find_ref f l) as [q|]; [|discriminate]. intros H; inversion H; subst.
    cbn [set_nth]. f_equal. now apply IH.
Qed.

Lemma rt_spec_ren l : NoDup (ids l) -> forall fnd repl, length fnd = length repl ->
  rt_spec fnd repl l l
  = (map (ren (combine fnd repl)) l,
     map fst (filter (keep l) (combine fnd repl)), map snd (filter (keep l) (combine fnd repl))).
Proof.
  intros Hnd. induction fnd as [|f fnd IH]; intros [|r repl] Hl; try discriminate.
  - cbn. now rewrite map_id.
  - cbn [rt_spec combine filter]. cbn in Hl. rewrite IH by lia.
    assert (Ek : keep l (f, r) = negb (in_ref f l)) by reflexivity. rewrite Ek. clear Ek. unfold in_ref.
    destruct (find_ref f l) as [p|] eqn:F; cbn [negb].
    + f_equal. f_equal. symmetry. rewrite <- (map_set_nth f r (ren (combine fnd repl)) l p Hnd F).
      apply map_ext. intros y. unfold ren. cbn [List.find fst snd]. destruct (same_ref f y); reflexivity.
    + cbn [map fst snd]. f_equal. f_equal. apply map_ext_in. intros y Hy. unfold ren. cbn [List.find fst snd].
      now rewrite (find_ref_none_all f l F y Hy).
Qed.

Lemma combine_fst_snd {A B} (l : list (A * B)) : combine (map fst l) (map snd l) = l.
Proof. induction l as [|[x y] l IH]; cbn; [reflexivity|]. now rewrite IH. Qed.

(* the loop after the seam, as a function *)
Fixpoint tail_spec (rest : fmts) (L : nat) (FR : list (setting * setting)) : fmts :=
  match rest with
  | [] => []
  | (k0, ip) :: rest' =>
      (k0 + L, mkP (padd ip) (map (ren FR) (prem ip))) :: tail_spec rest' L (filter (keep (prem ip)) FR)
  end.

Lemma tail_loop_spec L : forall rest FR,
  (forall kp, In kp rest -> NoDup (ids (prem (snd kp)))) ->
  tail_loop rest L (map fst FR) (map snd FR) = OK (tail_spec rest L FR).
Proof.
  induction rest as [|[k0 ip] rest IH]; intros FR Hnd; [reflexivity|].
  cbn [tail_loop tail_spec].
  assert (Hn : NoDup (ids (prem ip))) by (apply (Hnd (k0, ip)); now left).
  rewrite find_refs_simple by exact Hn. rewrite retarget_spec by (auto; now rewrite !map_length).
  rewrite rt_spec_ren by (auto; now rewrite !map_length). rewrite combine_fst_snd.
  rewrite IH; [reflexivity|]. intros kp Hin. apply Hnd. now right.
Qed.

Lemma tail_spec_keys L : forall rest FR kp, In kp (tail_spec rest L FR) ->
  exists kp0, In kp0 rest /\ fst kp = fst kp0 + L.
Proof.
  induction rest as [|[k0 ip] rest IH]; intros FR kp Hin; [destruct Hin|].
  cbn [tail_spec] in Hin. destruct Hin as [<-|Hin].
  - exists (k0, ip). split; [now left|reflexivity].
  - destruct (IH _ _ Hin) as (kp0 & H0 & E). exists kp0. split; [now right|exact E].
Qed.

Lemma tail_spec_sorted L : forall rest FR, ssorted rest -> ssorted (tail_spec rest L FR).
Proof.
  induction rest as [|[k0 ip] rest IH]; intros FR Hs; [constructor|].
  inversion Hs as [|? ? ? Hk Hs']; subst. cbn [tail_spec]. constructor; auto.
  intros kp Hin. apply tail_spec_keys in Hin as (kp0 & H0 & ->). specialize (Hk kp0 H0). lia.
Qed.

Lemma upto_cons k k0 p t : upto k ((k0, p) :: t) = if k0 <=? k then (k0, p) :: upto k t else upto k t.
Proof. reflexivity. Qed.

Lemma upto_tail_spec L k : forall rest, ssorted rest -> forall FR,
  upto (L + k) (tail_spec rest L FR) = tail_spec (upto k rest) L FR.
Proof.
  induction 1 as [|k0 ip rest Hk Hs IH]; intros FR; [reflexivity|].
  cbn [tail_spec]. rewrite !upto_cons.
  destruct (k0 <=? k) eqn:E.
  - apply Nat.leb_le in E. replace (k0 + L <=? L + k) with true by (symmetry; apply Nat.leb_le; lia).
    cbn [tail_spec]. f_equal. apply IH.
  - apply Nat.leb_gt in E. replace (k0 + L <=? L + k) with false by (symmetry; apply Nat.leb_gt; lia).
    rewrite (upto_all_gt k k0 rest Hk E). cbn [tail_spec]. apply upto_none.
    intros kp Hin. apply tail_spec_keys in Hin as (kp0 & H0 & ->). specialize (Hk kp0 H0). lia.
Qed.

(* ---------- list facts about removal by identity ---------- *)
Lemma rmall_subset l : forall B y, In y (rmall l B) -> In y B.
Proof.
  induction l as [|s l IH]; intros B y H; [exact H|]. cbn in H. apply IH in H. eapply remove_ref_subset; eauto.
Qed.

Lemma rmall_nodup l : forall B, NoDup (ids B) -> NoDup (ids (rmall l B)).
Proof. induction l as [|s l IH]; intros B H; [exact H|]. cbn. apply IH. now apply remove_ref_nodup. Qed.

Lemma remove_ref_gone s B : NoDup (ids B) -> ~ In (sid s) (ids (remove_ref s B)).
Proof.
  induction B as [|z B IH]; cbn; auto. intros Hnd. inversion Hnd as [|? ? Hn Hd]; subst.
  unfold same_ref. destruct (Nat.eqb_spec (sid s) (sid z)) as [E|E].
  - now rewrite E.
  - cbn. intros [H|H]; [congruence|]. now apply IH.
Qed.

Lemma ids_subset (X Y : list setting) : (forall y, In y X -> In y Y) -> forall i, In i (ids X) -> In i (ids Y).
Proof. intros H i Hi. unfold ids in *. apply in_map_iff in Hi as (y & <- & Hy). apply in_map. auto. Qed.

Lemma rmall_no_ids l : forall B s, NoDup (ids B) -> In s l -> ~ In (sid s) (ids (rmall l B)).
Proof.
  induction l as [|s0 l IH]; intros B s Hnd Hin; [destruct Hin|]. cbn. destruct Hin as [->|Hin].
  - intros H. apply (remove_ref_gone s B Hnd). revert H. apply ids_subset. apply rmall_subset.
  - apply IH; auto. now apply remove_ref_nodup.
Qed.

Lemma remove_ref_keep f s B : In f B -> sid s <> sid f -> In f (remove_ref s B).
Proof.
  induction B as [|z B IH]; cbn; auto. intros [->|H] Hne.
  - unfold same_ref. replace (Nat.eqb (sid s) (sid f)) with false by (symmetry; now apply Nat.eqb_neq). now left.
  - destruct (same_ref s z); auto. right. auto.
Qed.

Lemma rmall_keep f l : forall B, In f B -> (forall s, In s l -> sid s <> sid f) -> In f (rmall l B).
Proof.
  induction l as [|s l IH]; intros B H Hne; [exact H|]. cbn. apply IH.
  - apply remove_ref_keep; auto. apply Hne. now left.
  - intros s' Hs'. apply Hne. now right.
Qed.

Lemma nodup_ids_inj B x y : NoDup (ids B) -> In x B -> In y B -> sid x = sid y -> x = y.
Proof.
  induction B as [|z B IH]; cbn; [tauto|]. intros Hnd. inversion Hnd as [|? ? Hn Hd]; subst.
  intros [->|Hx] [->|Hy] E; auto.
  - exfalso. apply Hn. unfold ids. apply in_map_iff. exists y. split; congruence.
  - exfalso. apply Hn. unfold ids. apply in_map_iff. exists x. split; congruence.
Qed.

Lemma nodup_app_disjoint (X Y : list nat) i : NoDup (X ++ Y) -> In i X -> In i Y -> False.
Proof.
  induction X as [|z X IH]; cbn; [tauto|]. intros Hnd. inversion Hnd as [|? ? Hn Hd]; subst.
  intros [->|Hx] Hy; [apply Hn; apply in_or_app; now right|]. now apply IH.
Qed.

Lemma nodup_map_filter {A B} (g : A -> B) (h : A -> bool) l : NoDup (map g l) -> NoDup (map g (filter h l)).
Proof.
  induction l as [|z l IH]; cbn; auto. intros Hnd. inversion Hnd as [|? ? Hn Hd]; subst.
  destruct (h z); cbn; auto. constructor; auto. intros H. apply Hn.
  apply in_map_iff in H as (w & <- & Hw). apply in_map. apply filter_In in Hw. tauto.
Qed.

Lemma remove_ref_map (f : setting -> setting) s B :
  (forall x, In x B -> (sid (f x) = sid (f s) <-> sid x = sid s)) ->
  remove_ref (f s) (map f B) = map f (remove_ref s B).
Proof.
  induction B as [|z B IH]; intros H; [reflexivity|]. cbn [map remove_ref].
  assert (E : same_ref (f s) (f z) = same_ref s z).
  { unfold same_ref. apply Bool.eq_iff_eq_true. rewrite !Nat.eqb_eq.
    destruct (H z (or_introl eq_refl)) as [H1 H2]. split; intros E; symmetry; [apply H1|apply H2]; now symmetry. }
  rewrite E. destruct (same_ref s z); [reflexivity|]. cbn [map]. f_equal. apply IH. intros x Hx. apply H. now right.
Qed.

Lemma strict_rems_map (f : setting -> setting) l : forall B B1,
  (forall s x, In s l -> In x B -> (sid (f x) = sid (f s) <-> sid x = sid s)) ->
  strict_rems l B = Some B1 -> strict_rems (map f l) (map f B) = Some (map f B1).
Proof.
  induction l as [|s l IH]; intros B B1 H Hs; cbn in *; [congruence|].
  destruct (in_ref s B) eqn:E; [|discriminate].
  assert (E2 : in_ref (f s) (map f B) = true).
  { apply in_ref_spec in E as (y & Hy & Hsy). apply in_ref_spec. exists (f y). split; [now apply in_map|].
    apply (H s y); auto. }
  rewrite E2. rewrite remove_ref_map by (intros x Hx; apply H; auto).
  apply IH; auto. intros s' x Hs' Hx. apply H; auto. eapply remove_ref_subset; eauto.
Qed.

Lemma strict_rems_in l : forall B B1 s, strict_rems l B = Some B1 -> In s l -> In (sid s) (ids B).
Proof.
  induction l as [|s0 l IH]; intros B B1 s H Hin; [destruct Hin|]. cbn in H.
  destruct (in_ref s0 B) eqn:E; [|discriminate]. destruct Hin as [->|Hin].
  - apply in_ref_spec in E as (y & Hy & Hsy). rewrite <- Hsy. unfold ids. now apply in_map.
  - specialize (IH _ _ s H Hin). revert IH. apply ids_subset. intros y. apply remove_ref_subset.
Qed.

Lemma strict_rems_nodup l : forall B B1, strict_rems l B = Some B1 -> NoDup (ids B) -> NoDup (ids l).
Proof.
  induction l as [|s l IH]; intros B B1 H Hnd; [constructor|]. cbn in H.
  destruct (in_ref s B) eqn:E; [|discriminate]. cbn. constructor.
  - intros Hin. unfold ids in Hin. apply in_map_iff in Hin as (s' & Es & Hs').
    pose proof (strict_rems_in _ _ _ s' H Hs') as H1. rewrite Es in H1. now apply (remove_ref_gone s B Hnd).
  - apply (IH _ _ H). now apply remove_ref_nodup.
Qed.

Lemma find_ext {A} (f g : A -> bool) l : (forall a, f a = g a) -> List.find f l = List.find g l.
Proof. intros H. induction l as [|a l IH]; cbn; auto. rewrite H, IH. reflexivity. Qed.

Lemma ren_sid FR x y : sid x = sid y -> sid (ren FR x) = sid (ren FR y).
Proof.
  intros E. unfold ren. rewrite (find_ext (fun fr => same_ref (fst fr) x) (fun fr => same_ref (fst fr) y)).
  - destruct (List.find _ FR); auto.
  - intros fr. unfold same_ref. now rewrite E.
Qed.

Lemma ren_id FR y : (forall fr, In fr FR -> same_ref (fst fr) y = false) -> ren FR y = y.
Proof.
  intros H. unfold ren. destruct (List.find _ FR) as [fr|] eqn:F; auto.
  apply find_some in F as [F1 F2]. rewrite H in F2; [discriminate|exact F1].
Qed.

Lemma ren_filter (g : setting * setting -> bool) x : forall FR,
  (forall fr, In fr FR -> same_ref (fst fr) x = true -> g fr = true) -> ren (filter g FR) x = ren FR x.
Proof.
  unfold ren. induction FR as [|fr FR IH]; intros H; [reflexivity|]. cbn [filter List.find].
  destruct (g fr) eqn:G; cbn [List.find].
  - destruct (same_ref (fst fr) x); [reflexivity|]. apply IH. intros; apply H; auto. now right.
  - destruct (same_ref (fst fr) x) eqn:E.
    + rewrite (H fr (or_introl eq_refl) E) in G. discriminate.
    + apply IH. intros; apply H; auto. now right.
Qed.

Lemma nodup_snd_inj (FR : list (setting * setting)) fr1 fr2 : NoDup (ids (map snd FR)) -> In fr1 FR -> In fr2 FR ->
  sid (snd fr1) = sid (snd fr2) -> fr1 = fr2.
Proof.
  induction FR as [|z FR IH]; cbn; [tauto|]. intros Hnd. inversion Hnd as [|? ? Hn Hd]; subst.
  assert (Hx : forall w, In w FR -> sid (snd w) <> sid (snd z)).
  { intros w Hw E. apply Hn. unfold ids. rewrite map_map. apply in_map_iff. exists w. split; auto. }
  intros [->|H1] [->|H2] E; auto.
  - exfalso. apply (Hx fr2 H2). congruence.
  - exfalso. apply (Hx fr1 H1). congruence.
Qed.

Lemma nodup_map_inj (f : setting -> setting) B :
  (forall x y, In x B -> In y B -> sid (f x) = sid (f y) -> sid x = sid y) ->
  NoDup (ids B) -> NoDup (ids (map f B)).
Proof.
  induction B as [|z B IH]; intros H Hnd; [constructor|]. cbn. inversion Hnd as [|? ? Hn Hd]; subst. constructor.
  - intros Hi. unfold ids in Hi. rewrite map_map in Hi. apply in_map_iff in Hi as (w & E & Hw).
    apply Hn. unfold ids. apply in_map_iff. exists w. split; auto. apply H; auto. now right. now left.
  - apply IH; auto. intros x y Hx Hy. apply H; now right.
Qed.

(* ---------- simulation: the replay of c after the seam is the renamed replay of b ---------- *)
Section Sim.
Variable Pb : setting -> Prop.     (* "occurs in b" *)

Definition fresh (FR : list (setting * setting)) : Prop :=
  forall fr y, In fr FR -> Pb y -> sid y = sid (snd fr) -> sid y = sid (fst fr).

Definition Inv (FR : list (setting * setting)) (B C : list setting) : Prop :=
  C = map (ren FR) B
  /\ (forall fr, In fr FR -> In (fst fr) B)
  /\ NoDup (ids B)
  /\ NoDup (ids (map snd FR))
  /\ (forall fr, In fr FR -> stxt (fst fr) = stxt (snd fr))
  /\ (forall x, In x B -> Pb x)
  /\ fresh FR.

Lemma ren_inj FR x y : NoDup (ids (map snd FR)) -> fresh FR -> Pb x -> Pb y ->
  (sid (ren FR x) = sid (ren FR y) <-> sid x = sid y).
Proof.
  intros Hnd Hf Px Py. split; [|apply ren_sid].
  unfold ren. destruct (List.find (fun fr => same_ref (fst fr) x) FR) as [f1|] eqn:F1;
    destruct (List.find (fun fr => same_ref (fst fr) y) FR) as [f2|] eqn:F2; auto.
  - apply find_some in F1 as [I1 S1]. apply find_some in F2 as [I2 S2]. intros E.
    assert (f1 = f2) by (eapply nodup_snd_inj; eauto). subst f2.
    unfold same_ref in *. apply Nat.eqb_eq in S1, S2. congruence.
  - apply find_some in F1 as [I1 S1]. intros E. symmetry in E. pose proof (Hf f1 y I1 Py E) as E2.
    pose proof (find_none _ _ F2 f1 I1) as N. cbn in N. unfold same_ref in N. apply Nat.eqb_neq in N. congruence.
  - apply find_some in F2 as [I2 S2]. intros E. pose proof (Hf f2 x I2 Px E) as E2.
    pose proof (find_none _ _ F1 f2 I2) as N. cbn in N. unfold same_ref in N. apply Nat.eqb_neq in N. congruence.
Qed.

Lemma inv_nodup FR B C : Inv FR B C -> NoDup (ids C).
Proof.
  intros (-> & Hin & Hnd & Hns & Htx & HP & Hf).
  apply nodup_map_inj; auto. intros x y Hx Hy.
  apply (proj1 (ren_inj FR x y Hns Hf (HP x Hx) (HP y Hy))).
Qed.

Lemma inv_texts FR B C : Inv FR B C -> map stxt C = map stxt B.
Proof.
  intros (-> & Hin & Hnd & Hns & Htx & HP & Hf). rewrite map_map. apply map_ext_in. intros x Hx.
  unfold ren. destruct (List.find _ FR) as [fr|] eqn:F; auto.
  apply find_some in F as [I1 S1]. unfold same_ref in S1. apply Nat.eqb_eq in S1.
  assert (fst fr = x) by (apply (nodup_ids_inj B); auto). subst x. symmetry. auto.
Qed.

Lemma inv_step FR B C ip B1 :
  Inv FR B C -> strict_rems (prem ip) B = Some B1 -> NoDup (ids (B1 ++ padd ip)) ->
  (forall x, In x (padd ip) -> Pb x) -> (forall x, In x (prem ip) -> Pb x) ->
  strict_rems (map (ren FR) (prem ip)) C = Some (map (ren FR) B1)
  /\ Inv (filter (keep (prem ip)) FR) (B1 ++ padd ip) (map (ren FR) B1 ++ padd ip).
Proof.
  intros (-> & Hin & Hnd & Hns & Htx & HP & Hf) Hs Hnd' Pa Pr.
  pose proof (strict_rems_some _ _ _ Hs) as EB1.
  assert (Sub : forall y, In y B1 -> In y B) by (intros y; rewrite EB1; apply rmall_subset).
  split.
  - apply strict_rems_map; auto. intros s x Hs' Hx. apply ren_inj; auto.
  - set (FR' := filter (keep (prem ip)) FR).
    assert (InFR : forall fr, In fr FR' -> In fr FR) by (intros fr H; apply filter_In in H; tauto).
    assert (In1 : forall fr, In fr FR' -> In (fst fr) B1).
    { intros fr H. apply filter_In in H as [H1 H2]. rewrite EB1. apply rmall_keep; auto.
      intros s Hs'. unfold keep in H2. apply negb_true_iff in H2.
      rewrite in_ref_false in H2. apply H2; auto. }
    unfold Inv. repeat split.
    + rewrite map_app. f_equal.
      * apply map_ext_in. intros x Hx. symmetry. apply ren_filter. intros fr Hfr Sx.
        unfold keep. apply negb_true_iff. apply in_ref_false. intros s Hs' E.
        unfold same_ref in Sx. apply Nat.eqb_eq in Sx.
        apply (rmall_no_ids (prem ip) B s Hnd Hs'). rewrite <- EB1. unfold ids. apply in_map_iff.
        exists x. split; auto. congruence.
      * symmetry. rewrite <- (map_id (padd ip)) at 2. apply map_ext_in. intros y Hy. apply ren_id.
        intros fr Hfr. unfold same_ref. apply Nat.eqb_neq. intros E.
        apply (nodup_app_disjoint (ids B1) (ids (padd ip)) (sid y)).
        -- unfold ids in *. now rewrite <- map_app.
        -- rewrite <- E. unfold ids. apply in_map. auto.
        -- unfold ids. now apply in_map.
    + intros fr H. apply in_or_app. left. auto.
    + exact Hnd'.
    + unfold ids. rewrite map_map. apply nodup_map_filter. rewrite <- map_map. exact Hns.
    + intros fr H. auto.
    + intros x Hx. apply in_app_or in Hx as [Hx|Hx]; auto.
    + intros fr y Hfr. apply Hf. auto.
Qed.
End Sim.
