(* __iadd__ / __add__ / join : text, per-character settings of both operands, well-formedness of
   the result; the seam merge. *)
From AS Require Import Base.
From AS.Model Require Import Table Ops.
From AS.Proofs Require Import TableProofs SliceProofs PadProofs.

Definition nodup_active (t : fmts) : Prop := forall k, NoDup (ids (active_at t k)).
Definition WF (s : astr) : Prop :=
  ssorted (tbl s) /\ keys_le (tbl s) (length (base s)) /\ strict_ok (tbl s) = true
  /\ nodup_active (tbl s) /\ final_active (tbl s) = [].

(* ---------- small helpers ---------- *)
Definition rmall (rems act : list setting) : list setting :=
  fold_left (fun a s => remove_ref s a) rems act.

Lemma step_rmall act p : step act p = rmall (prem p) act ++ padd p.
Proof. reflexivity. Qed.

Lemma rmall_app r1 r2 act : rmall (r1 ++ r2) act = rmall r2 (rmall r1 act).
Proof. unfold rmall. apply fold_left_app. Qed.

Lemma rmall_nil l : rmall l [] = [].
Proof. apply fold_remove_nil. Qed.

Lemma run_cons act k p t : run act ((k, p) :: t) = run (step act p) t.
Proof. reflexivity. Qed.

Lemma run_one act k p : run act [(k, p)] = step act p.
Proof. reflexivity. Qed.

Lemma shf_cons L k p t : shift_idx L false ((k, p) :: t) = (k + L, p) :: shift_idx L false t.
Proof. reflexivity. Qed.

Lemma upto_app k t1 t2 : upto k (t1 ++ t2) = upto k t1 ++ upto k t2.
Proof. unfold upto. apply filter_app. Qed.

Lemma upto_none k t : (forall kp, In kp t -> k < fst kp) -> upto k t = [].
Proof.
  intros H. unfold upto. induction t as [|kp t IH]; [reflexivity|]. cbn [filter].
  replace (fst kp <=? k) with false by (symmetry; apply Nat.leb_gt; apply H; now left).
  apply IH. intros; apply H; now right.
Qed.

Lemma shf_keys_ge L t kp : In kp (shift_idx L false t) -> L <= fst kp.
Proof.
  intros Hin. rewrite shift_idx_map in Hin. apply in_map_iff in Hin as (kp0 & <- & _).
  pose proof (sh_fst_bounds L false kp0). unfold sh in *. cbn [andb fst] in *. lia.
Qed.

Lemma shf_in L t kp : In kp (shift_idx L false t) -> exists kp0, In kp0 t /\ kp = (fst kp0 + L, snd kp0).
Proof.
  intros Hin. rewrite shift_idx_map in Hin. apply in_map_iff in Hin as (kp0 & <- & Hin).
  exists kp0. split; auto.
Qed.

Lemma tput_snoc_replace L p q t0 : keys_lt t0 L -> tput L p (t0 ++ [(L, q)]) = t0 ++ [(L, p)].
Proof.
  induction t0 as [|[k' p'] t0 IH]; intros H; cbn [app tput].
  - now rewrite Nat.eqb_refl.
  - assert (Hlt : k' < L) by (apply (H (k', p')); now left).
    replace (Nat.eqb L k') with false by (symmetry; apply Nat.eqb_neq; lia).
    replace (L <? k') with false by (symmetry; apply Nat.ltb_ge; lia).
    f_equal. apply IH. eapply keys_lt_tail; eauto.
Qed.

(* strict replay *)
Lemma strict_rems_some rems : forall act a, strict_rems rems act = Some a -> a = rmall rems act.
Proof.
  induction rems as [|s r IH]; intros act a H; cbn in *.
  - congruence.
  - destruct (in_ref s act); [|discriminate]. now apply IH.
Qed.

Lemma strict_rems_app r1 r2 : forall act,
  strict_rems (r1 ++ r2) act = match strict_rems r1 act with Some a => strict_rems r2 a | None => None end.
Proof.
  induction r1 as [|s r IH]; intros act; cbn [app strict_rems]; auto.
  destruct (in_ref s act); auto.
Qed.

Lemma sok_app t1 : forall t2 act,
  strict_ok_from (t1 ++ t2) act = strict_ok_from t1 act && strict_ok_from t2 (run act t1).
Proof.
  induction t1 as [|[k p] t1 IH]; intros t2 act; cbn [app strict_ok_from]; auto.
  destruct (strict_rems (prem p) act) as [a|] eqn:E; auto.
  rewrite IH, run_cons, step_rmall. apply strict_rems_some in E. now subst a.
Qed.

Lemma sok_shift n b t : forall act, strict_ok_from (shift_idx n b t) act = strict_ok_from t act.
Proof.
  rewrite shift_idx_map. induction t as [|[k p] t IH]; intros act; [reflexivity|].
  cbn [map]. destruct (sh n b (k, p)) as [k' p'] eqn:E.
  assert (p' = p) by (pose proof (sh_snd n b (k, p)) as H; rewrite E in H; exact H). subst p'.
  cbn [strict_ok_from]. destruct (strict_rems (prem p) act); auto.
Qed.

(* ---------- checkable forms of the hypotheses ---------- *)
Lemma is_nil_true {A} (l : list A) : is_nil l = true -> l = [].
Proof. destruct l; [reflexivity|discriminate]. Qed.

Fixpoint ssortedb (t : fmts) : bool :=
  match t with
  | (k, _) :: (((k', _) :: _) as r) => (k <? k') && ssortedb r
  | _ => true
  end.

Lemma ssortedb_sound t : ssortedb t = true -> ssorted t.
Proof.
  induction t as [|[k p] t IH]; intros H; [constructor|].
  destruct t as [|[k' p'] t]; [constructor; [intros kp []|constructor]|].
  cbn [ssortedb] in H. apply andb_true_iff in H as [H1 H2]. apply Nat.ltb_lt in H1.
  specialize (IH H2). constructor; auto. inversion IH as [|? ? ? Hk Hs]; subst.
  intros kp [<-|Hin]; cbn [fst]; auto. specialize (Hk kp Hin). lia.
Qed.

Fixpoint nodupb (l : list nat) : bool :=
  match l with [] => true | x :: r => negb (existsb (Nat.eqb x) r) && nodupb r end.

Lemma nodupb_sound l : nodupb l = true -> NoDup l.
Proof.
  induction l as [|x l IH]; intros H; [constructor|]. cbn in H. apply andb_true_iff in H as [H1 H2].
  constructor; auto. intros Hin. apply negb_true_iff in H1.
  assert (existsb (Nat.eqb x) l = true) by (apply existsb_exists; exists x; split; auto; apply Nat.eqb_refl).
  congruence.
Qed.

Lemma nodup_upto_states : forall t act k, NoDup (ids act) ->
  (forall st, In st (iter_states t act) -> NoDup (ids (snd st))) -> NoDup (ids (active_upto t k act)).
Proof.
  induction t as [|[k0 p] t IH]; intros act k Ha Hst; [exact Ha|]. cbn [active_upto].
  destruct (k0 <=? k); [|exact Ha]. apply IH.
  - apply (Hst (k0, p, step act p)). now left.
  - intros st Hin. apply Hst. now right.
Qed.

Definition wfb (s : astr) : bool :=
  ssortedb (tbl s) && forallb (fun kp => fst kp <=? length (base s)) (tbl s) && strict_ok (tbl s)
  && forallb (fun st => nodupb (ids (snd st))) (iter_states (tbl s) []) && is_nil (final_active (tbl s)).

Lemma wfb_sound s : wfb s = true -> WF s.
Proof.
  unfold wfb. intros H.
  apply andb_true_iff in H as [H H5]. apply andb_true_iff in H as [H H4].
  apply andb_true_iff in H as [H H3]. apply andb_true_iff in H as [H1 H2].
  unfold WF. split; [|split; [|split; [|split]]].
  - now apply ssortedb_sound.
  - intros kp Hin. rewrite forallb_forall in H2. apply Nat.leb_le. auto.
  - exact H3.
  - intros k. apply nodup_upto_states; [constructor|]. intros st Hin.
    rewrite forallb_forall in H4. apply nodupb_sound. auto.
  - now apply is_nil_true.
Qed.

(* example operands, used below to show that the hypotheses of the theorems are satisfiable *)
Definition S_ (i : nat) (t : N) : setting := mkS i [t].
(* "ab" with two settings on both characters *)
Definition ex_a : astr :=
  mkA [97; 98]%N [(0, mkP [S_ 1 10; S_ 2 20] []); (2, mkP [] [S_ 1 10; S_ 2 20])].
(* "cde" starting with settings of the same values (other objects): merges with ex_a *)
Definition ex_b_same : astr :=
  mkA [99; 100; 101]%N [(0, mkP [S_ 3 10; S_ 4 20] []); (1, mkP [] [S_ 4 20]); (3, mkP [] [S_ 3 10])].
(* only the first of them: merges too *)
Definition ex_b_prefix : astr := mkA [99; 100; 101]%N [(0, mkP [S_ 3 10] []); (3, mkP [] [S_ 3 10])].
(* same values in the other order: no merge *)
Definition ex_b_swapped : astr :=
  mkA [99; 100; 101]%N [(0, mkP [S_ 4 20; S_ 3 10] []); (1, mkP [] [S_ 4 20]); (3, mkP [] [S_ 3 10])].
(* formatting that starts later *)
Definition ex_b_late : astr := mkA [99; 100; 101]%N [(1, mkP [S_ 3 10] []); (3, mkP [] [S_ 3 10])].

Example ex_a_WF : WF ex_a. Proof. apply wfb_sound. reflexivity. Qed.
Example ex_b_same_WF : WF ex_b_same. Proof. apply wfb_sound. reflexivity. Qed.
Example ex_b_prefix_WF : WF ex_b_prefix. Proof. apply wfb_sound. reflexivity. Qed.
Example ex_b_swapped_WF : WF ex_b_swapped. Proof. apply wfb_sound. reflexivity. Qed.
Example ex_b_late_WF : WF ex_b_late. Proof. apply wfb_sound. reflexivity. Qed.

(* ---------- structure of the loop ---------- *)
(* once past the seam, every point of b lands on a fresh key: the loop only appends *)
Fixpoint tail_loop (inc : fmts) (L : nat) (find repl : list setting) : res fmts :=
  match inc with
  | [] => OK []
  | (k0, ip) :: rest =>
    match retarget (rev (find_refs find (prem ip))) (prem ip) find repl with
    | OK (rems, find', repl') =>
        match tail_loop rest L find' repl' with
        | OK r => OK ((k0 + L, mkP (padd ip) rems) :: r)
        | Err e => Err e end
    | Err e => Err e
    end
  end.

Lemma loop_tail L seam : forall inc t find repl, ssorted inc ->
  (forall kp kq, In kp inc -> In kq t -> fst kq < fst kp + L) ->
  iadd_loop inc L seam t find repl
  = match tail_loop inc L find repl with OK r => OK (t ++ r) | Err e => Err e end.
Proof.
  induction inc as [|[k0 ip] rest IH]; intros t find repl Hs Hlt.
  - cbn. now rewrite app_nil_r.
  - cbn [iadd_loop tail_loop].
    assert (Hn : tget (k0 + L) t = None).
    { apply tget_notin. intros kq Hin. specialize (Hlt (k0, ip) kq (or_introl eq_refl) Hin). cbn [fst] in Hlt. lia. }
    rewrite Hn.
    destruct (retarget _ _ _ _) as [[[rems f'] r']|e]; [|reflexivity].
    rewrite tput_snoc.
    2:{ intros kq Hin. specialize (Hlt (k0, ip) kq (or_introl eq_refl) Hin). exact Hlt. }
    inversion Hs as [|? ? ? Hk Hs']; subst.
    rewrite IH; auto.
    + destruct (tail_loop rest L f' r'); [|reflexivity]. now rewrite <- app_assoc.
    + intros kp kq Hp Hq. apply in_app_or in Hq as [Hq|[<-|[]]].
      * exact (Hlt kp kq (or_intror Hp) Hq).
      * cbn [fst]. specialize (Hk kp Hp). lia.
Qed.

Lemma tail_loop_nil L : forall inc, tail_loop inc L [] [] = OK (shift_idx L false inc).
Proof.
  induction inc as [|[k0 ip] rest IH]; [reflexivity|].
  cbn [tail_loop]. change (retarget (rev (find_refs [] (prem ip))) (prem ip) [] []) with (OK (prem ip, @nil setting, @nil setting)).
  cbv iota beta. rewrite IH. destruct ip; reflexivity.
Qed.

Definition seam_of (a : astr) : list setting :=
  match length (base a) with O => [] | S i => active_at (tbl a) i end.

Lemma iadd_unfold a b :
  iadd a b = match iadd_loop (tbl b) (length (base a)) (seam_of a) (tbl a) [] [] with
             | OK t => OK (mkA (base a ++ base b) t) | Err e => Err e end.
Proof.
  unfold iadd, seam_of, bind. destruct (length (base a)) as [|i] eqn:E; [reflexivity|].
  replace (i <? length (base a ++ base b)) with true; [reflexivity|].
  symmetry. apply Nat.ltb_lt. rewrite app_length. lia.
Qed.

(* the merge test of __iadd__ *)
Definition merge_cond (pa ip0 : point) (seam : list setting) (inc : fmts) : bool :=
  negb (is_nil (padd ip0))
  && list_eqb same_val (firstn (length (padd ip0)) (prem pa)) (padd ip0)
  && positions_sorted (firstn (length (padd ip0)) (prem pa)) seam
  && seam_fresh_check (combine (prem pa) (padd ip0)) inc.

Definition merges (a b : astr) : bool :=
  match tget (length (base a)) (tbl a), tget 0 (tbl b) with
  | Some pa, Some ip0 => merge_cond pa ip0 (seam_of a) (tbl b)
  | _, _ => false
  end.

(* case 1: no common key: plain concatenation of the tables *)
Lemma iadd_concat a b :
  ssorted (tbl a) -> keys_le (tbl a) (length (base a)) -> ssorted (tbl b) ->
  (keys_lt (tbl a) (length (base a)) \/ (forall kp, In kp (tbl b) -> 0 < fst kp)) ->
  iadd a b = OK (mkA (base a ++ base b) (tbl a ++ shift_idx (length (base a)) false (tbl b))).
Proof.
  intros Ha Hk Hb Hor. rewrite iadd_unfold, loop_tail, tail_loop_nil; auto.
  intros kp kq Hp Hq. destruct Hor as [H|H].
  - specialize (H kq Hq). lia.
  - specialize (H kp Hp). specialize (Hk kq Hq). lia.
Qed.

(* case 2: both have a point at the seam *)
Lemma iadd_seam a b t0 pa ip0 rest :
  tbl a = t0 ++ [(length (base a), pa)] -> keys_lt t0 (length (base a)) ->
  tbl b = (0, ip0) :: rest -> ssorted (tbl b) ->
  let L := length (base a) in
  iadd a b =
  if merge_cond pa ip0 (seam_of a) (tbl b) then
    let mine' := mkP (padd pa) (skipn (length (padd ip0)) (prem pa) ++ prem ip0) in
    match tail_loop rest L (padd ip0) (firstn (length (padd ip0)) (prem pa)) with
    | OK r => OK (mkA (base a ++ base b) ((if point_is_empty mine' then t0 else t0 ++ [(L, mine')]) ++ r))
    | Err e => Err e end
  else OK (mkA (base a ++ base b)
               (t0 ++ [(L, mkP (padd pa ++ padd ip0) (prem pa ++ prem ip0))] ++ shift_idx L false rest)).
Proof.
  intros Ea Hlt Eb Hb L. rewrite iadd_unfold, Ea, Eb. fold L. cbn [iadd_loop]. cbn [Nat.add].
  rewrite tget_snoc by exact Hlt. rewrite Nat.eqb_refl. cbn [andb].
  rewrite Eb in Hb. inversion Hb as [|? ? ? Hk Hs]; subst.
  unfold merge_cond.
  destruct (negb (is_nil (padd ip0)) && list_eqb same_val (firstn (length (padd ip0)) (prem pa)) (padd ip0)
            && positions_sorted (firstn (length (padd ip0)) (prem pa)) (seam_of a)
            && seam_fresh_check (combine (prem pa) (padd ip0)) ((0, ip0) :: rest)) eqn:C.
  - cbv zeta.
    destruct (point_is_empty _) eqn:Em.
    + rewrite tdel_snoc by exact Hlt. rewrite loop_tail; [|exact Hs|].
      * destruct (tail_loop rest L _ _); reflexivity.
      * intros kp kq Hp Hq. specialize (Hlt kq Hq). fold L in Hlt. lia.
    + rewrite tput_snoc_replace by exact Hlt. rewrite loop_tail; [|exact Hs|].
      * destruct (tail_loop rest L _ _); reflexivity.
      * intros kp kq Hp Hq. apply in_app_or in Hq as [Hq|[<-|[]]].
        -- specialize (Hlt kq Hq). fold L in Hlt. lia.
        -- cbn [fst]. specialize (Hk kp Hp). lia.
  - rewrite tput_snoc_replace by exact Hlt. rewrite loop_tail, tail_loop_nil; [|exact Hs|].
    + now rewrite <- app_assoc.
    + intros kp kq Hp Hq. apply in_app_or in Hq as [Hq|[<-|[]]].
      * specialize (Hlt kq Hq). fold L in Hlt. lia.
      * cbn [fst]. specialize (Hk kp Hp). lia.
Qed.

(* ---------- gluing two tables at the seam ---------- *)
Definition keys_eq (t : fmts) (n : nat) : Prop := forall kp, In kp t -> fst kp = n.
Definition keys_gt (t : fmts) (n : nat) : Prop := forall kp, In kp t -> n < fst kp.

Lemma ssorted_app_inv t1 t2 : ssorted (t1 ++ t2) -> ssorted t1 /\ ssorted t2.
Proof.
  induction t1 as [|[k p] t1 IH]; cbn [app]; intros H.
  - split; [constructor|exact H].
  - inversion H as [|? ? ? Hk Hs]; subst. destruct (IH Hs) as [H1 H2]. split; auto.
    constructor; auto. intros kp Hin. apply Hk. apply in_or_app. now left.
Qed.

Lemma upto_keys_le k t : keys_le t k -> upto k t = t.
Proof. apply upto_all. Qed.

Section Glue.
Variables (ta P Ma M R' : fmts) (L : nat).
Hypothesis Eta : ta = P ++ Ma.
Hypothesis Sta : ssorted ta.
Hypothesis KP : keys_lt P L.
Hypothesis KMa : keys_eq Ma L.
Hypothesis KM : M = [] \/ exists p, M = [(L, p)].
Hypothesis SR : ssorted R'.
Hypothesis KR : keys_gt R' L.
Let c := P ++ M ++ R'.

Lemma glue_sorted : ssorted c.
Proof.
  unfold c. assert (SP : ssorted P) by (rewrite Eta in Sta; now apply ssorted_app_inv in Sta).
  apply ssorted_app; auto.
  - destruct KM as [->|(p & ->)]; cbn [app]; auto. constructor; auto.
  - intros x y Hx Hy. specialize (KP x Hx). apply in_app_or in Hy as [Hy|Hy].
    + destruct KM as [->|(p & ->)]; [destruct Hy|]. destruct Hy as [<-|[]]. cbn [fst]. lia.
    + specialize (KR y Hy). lia.
Qed.

Lemma glue_keys N : L <= N -> keys_le R' N -> keys_le c N.
Proof.
  intros HN HR kp Hin. unfold c in Hin. apply in_app_or in Hin as [Hin|Hin].
  - specialize (KP kp Hin). lia.
  - apply in_app_or in Hin as [Hin|Hin]; auto.
    destruct KM as [->|(p & ->)]; [destruct Hin|]. destruct Hin as [<-|[]]. cbn [fst]. lia.
Qed.

Lemma glue_left k : k < L -> active_at c k = active_at ta k.
Proof.
  intros Hk. rewrite (active_at_run c k glue_sorted), (active_at_run ta k Sta). f_equal.
  unfold c. rewrite Eta, !upto_app.
  rewrite (upto_none k Ma) by (intros kp Hin; specialize (KMa kp Hin); lia).
  rewrite (upto_none k R') by (intros kp Hin; specialize (KR kp Hin); lia).
  rewrite (upto_none k M); [reflexivity|].
  intros kp Hin. destruct KM as [->|(p & ->)]; [destruct Hin|]. destruct Hin as [<-|[]]. cbn [fst]. lia.
Qed.

Lemma glue_upto k : upto (L + k) c = P ++ M ++ upto (L + k) R'.
Proof.
  unfold c. rewrite !upto_app. f_equal; [|f_equal].
  - apply upto_all. intros kp Hin. specialize (KP kp Hin). lia.
  - apply upto_all. intros kp Hin. destruct KM as [->|(p & ->)]; [destruct Hin|]. destruct Hin as [<-|[]]. cbn [fst]. lia.
Qed.
End Glue.

(* the non-merging glue: the part of b after its point at 0 is appended unchanged *)
Section GlueShift.
Variables (ta tb P Ma M B0 R : fmts) (L : nat).
Hypothesis Eta : ta = P ++ Ma.
Hypothesis Etb : tb = B0 ++ R.
Hypothesis Sta : ssorted ta.
Hypothesis Stb : ssorted tb.
Hypothesis KP : keys_lt P L.
Hypothesis KMa : keys_eq Ma L.
Hypothesis KM : M = [] \/ exists p, M = [(L, p)].
Hypothesis KB0 : keys_eq B0 0.
Hypothesis KR : keys_gt R 0.
Hypothesis Hrun : run (run [] P) M = run [] B0.
Let c := P ++ M ++ shift_idx L false R.

Lemma gs_SR : ssorted (shift_idx L false R).
Proof. apply shift_sorted. rewrite Etb in Stb. now apply ssorted_app_inv in Stb. Qed.

Lemma gs_KR : keys_gt (shift_idx L false R) L.
Proof. intros kp Hin. apply shf_in in Hin as (kp0 & Hin & ->). specialize (KR kp0 Hin). cbn [fst]. lia. Qed.

Lemma gs_sorted : ssorted c.
Proof. apply (glue_sorted ta P Ma M _ L Eta Sta KP KM gs_SR gs_KR). Qed.

Lemma gs_keys n : keys_le tb n -> keys_le c (L + n).
Proof.
  intros H. apply (glue_keys P M _ L KP KM); [lia|].
  intros kp Hin. apply shf_in in Hin as (kp0 & Hin & ->). cbn [fst].
  assert (fst kp0 <= n) by (apply H; rewrite Etb; apply in_or_app; now right). lia.
Qed.

Lemma gs_left k : k < L -> active_at c k = active_at ta k.
Proof. apply (glue_left ta P Ma M _ L Eta Sta KP KMa KM gs_SR gs_KR). Qed.

Lemma gs_right k : active_at c (L + k) = active_at tb k.
Proof.
  rewrite (active_at_run c _ gs_sorted), (active_at_run tb k Stb).
  unfold c. rewrite (glue_upto P M _ L KP KM), upto_shift, !run_app, Hrun, run_shift_idx.
  rewrite Etb, upto_app, run_app. f_equal. f_equal. symmetry. apply upto_all.
  intros kp Hin. specialize (KB0 kp Hin). lia.
Qed.

Lemma gs_strict : strict_ok ta = true -> strict_ok_from M (run [] P) = true -> strict_ok tb = true ->
  strict_ok c = true.
Proof.
  unfold strict_ok, c. rewrite Eta, Etb, !sok_app, sok_shift, Hrun.
  intros H1 H2 H3. apply andb_true_iff in H1 as [H1 _]. apply andb_true_iff in H3 as [_ H3].
  now rewrite H1, H2, H3.
Qed.
End GlueShift.

(* ---------- consequences of well-formedness ---------- *)
Lemma WF_assemble a b tc :
  WF a -> WF b -> ssorted tc -> keys_le tc (length (base a) + length (base b)) ->
  (forall k, k < length (base a) -> active_at tc k = active_at (tbl a) k) ->
  (forall k, NoDup (ids (active_at tc (length (base a) + k)))) ->
  active_at tc (length (base a) + length (base b)) = [] ->
  strict_ok tc = true ->
  WF (mkA (base a ++ base b) tc).
Proof.
  intros (Sa & Ka & Oa & Na & Fa) (Sb & Kb & Ob & Nb & Fb) Sc Kc Hl Hr Hf Ho.
  unfold WF. cbn [base tbl]. rewrite app_length. repeat split; auto.
  - intros k. destruct (Nat.lt_ge_cases k (length (base a))) as [Hk|Hk].
    + rewrite Hl by exact Hk. apply Na.
    + replace k with (length (base a) + (k - length (base a))) by lia. apply Hr.
  - rewrite <- (active_beyond tc Sc _ Kc). exact Hf.
Qed.

Lemma glue_result a b P Ma M B0 R :
  let L := length (base a) in
  WF a -> WF b -> tbl a = P ++ Ma -> tbl b = B0 ++ R ->
  keys_lt P L -> keys_eq Ma L -> (M = [] \/ exists p, M = [(L, p)]) ->
  keys_eq B0 0 -> keys_gt R 0 ->
  run (run [] P) M = run [] B0 -> strict_ok_from M (run [] P) = true ->
  let c := mkA (base a ++ base b) (P ++ M ++ shift_idx L false R) in
  (forall k, k < L -> active_at (tbl c) k = active_at (tbl a) k)
  /\ (forall k, active_at (tbl c) (L + k) = active_at (tbl b) k)
  /\ WF c.
Proof.
  intros L Wa Wb Ea Eb KP KMa KM KB0 KR Hrun HsM c.
  pose proof Wa as (Sa & Ka & Oa & Na & Fa). pose proof Wb as (Sb & Kb & Ob & Nb & Fb).
  assert (Hl : forall k, k < L -> active_at (tbl c) k = active_at (tbl a) k).
  { intros k Hk. apply (gs_left (tbl a) (tbl b) P Ma M B0 R L); auto. }
  assert (Hr : forall k, active_at (tbl c) (L + k) = active_at (tbl b) k).
  { intros k. apply (gs_right (tbl a) (tbl b) P Ma M B0 R L); auto. }
  split; [exact Hl|]. split; [exact Hr|].
  apply WF_assemble; auto.
  - apply (gs_sorted (tbl a) (tbl b) P Ma M B0 R L); auto.
  - apply (gs_keys (tbl b) P M B0 R L); auto.
  - intros k. fold L. change (NoDup (ids (active_at (tbl c) (L + k)))). rewrite Hr. apply Nb.
  - fold L. change (active_at (tbl c) (L + length (base b)) = []). rewrite Hr.
    rewrite (active_beyond (tbl b) Sb _ Kb). exact Fb.
  - apply (gs_strict (tbl a) (tbl b) P Ma M B0 R L); auto.
Qed.

(* shape of a well-formed left operand at its end *)
Lemma WF_end a : WF a ->
  let L := length (base a) in
  (keys_lt (tbl a) L /\ tget L (tbl a) = None)
  \/ (exists t0 pa, tbl a = t0 ++ [(L, pa)] /\ keys_lt t0 L /\ tget L (tbl a) = Some pa
        /\ padd pa = [] /\ strict_rems (prem pa) (run [] t0) = Some []
        /\ rmall (prem pa) (run [] t0) = []).
Proof.
  intros (Sa & Ka & Oa & Na & Fa) L.
  destruct (last_decomp (tbl a) L Sa Ka) as [Hlt|(t0 & pa & E & S0 & Hlt)].
  - left. split; auto. apply tget_notin. intros kp Hin. specialize (Hlt kp Hin). lia.
  - right. exists t0, pa. split; [exact E|]. split; [exact Hlt|].
    split; [rewrite E; now apply tget_snoc|].
    rewrite final_active_run, E, run_app, run_one, step_rmall in Fa.
    apply app_eq_nil in Fa as [F1 F2]. split; [exact F2|].
    unfold strict_ok in Oa. rewrite E, sok_app in Oa. apply andb_true_iff in Oa as [_ Oa].
    cbn [strict_ok_from] in Oa. destruct (strict_rems (prem pa) (run [] t0)) as [x|] eqn:Ex; [|discriminate].
    pose proof (strict_rems_some _ _ _ Ex) as Hx. rewrite F1 in Hx. subst x. auto.
Qed.

(* shape of a sorted right operand at its beginning *)
Lemma sorted_begin tb : ssorted tb ->
  (keys_gt tb 0 /\ tget 0 tb = None)
  \/ (exists ip0 rest, tb = (0, ip0) :: rest /\ keys_gt rest 0 /\ tget 0 tb = Some ip0).
Proof.
  intros Sb. destruct tb as [|[k0 ip0] rest].
  - left. split; [intros kp []|reflexivity].
  - inversion Sb as [|? ? ? Hk Hs]; subst. destruct k0 as [|k0].
    + right. exists ip0, rest. repeat split; auto.
    + left. split; [|reflexivity]. intros kp [<-|Hin]; cbn [fst]; [lia|]. specialize (Hk kp Hin). lia.
Qed.

Lemma strict_first ip0 rest : strict_ok ((0, ip0) :: rest) = true -> prem ip0 = [].
Proof.
  unfold strict_ok. cbn [strict_ok_from]. destruct (prem ip0) as [|s r]; auto. cbn. discriminate.
Qed.

(* ---------- the non-merging case: identities of both operands are preserved ---------- *)
Theorem iadd_nomerge a b : WF a -> WF b -> merges a b = false ->
  let L := length (base a) in
  exists c, iadd a b = OK c /\ base c = base a ++ base b
    /\ (forall k, k < L -> active_at (tbl c) k = active_at (tbl a) k)
    /\ (forall k, active_at (tbl c) (L + k) = active_at (tbl b) k)
    /\ WF c.
Proof.
  intros Wa Wb Hm L.
  pose proof Wa as (Sa & Ka & Oa & Na & Fa). pose proof Wb as (Sb & Kb & Ob & Nb & Fb).
  destruct (WF_end a Wa) as [[Hlt Ga]|(t0 & pa & Ea & Hlt & Ga & Apa & Spa & Rpa)]; fold L in Hlt, Ga.
  - (* a has no point at its end *)
    eexists. split; [apply iadd_concat; auto|]. split; [reflexivity|]. fold L.
    destruct (sorted_begin (tbl b) Sb) as [[Hgt Gb]|(ip0 & rest & Eb & Hgt & Gb)].
    + replace (tbl a ++ shift_idx L false (tbl b)) with (tbl a ++ [] ++ shift_idx L false (tbl b)) by reflexivity.
      apply (glue_result a b (tbl a) [] [] [] (tbl b)); auto.
      * now rewrite app_nil_r.
      * intros kp [].
      * intros kp [].
    + assert (Et : tbl a ++ shift_idx L false (tbl b) = tbl a ++ [(L, ip0)] ++ shift_idx L false rest)
        by (rewrite Eb; reflexivity).
      rewrite Et.
      apply (glue_result a b (tbl a) [] [(L, ip0)] [(0, ip0)] rest); auto.
      * now rewrite app_nil_r.
      * intros kp [].
      * right. eauto.
      * intros kp [<-|[]]. reflexivity.
      * rewrite !run_one. change (run [] (tbl a)) with (final_active (tbl a)). now rewrite Fa.
      * change (run [] (tbl a)) with (final_active (tbl a)). rewrite Fa.
        rewrite Eb in Ob. unfold strict_ok in Ob. cbn [strict_ok_from] in *.
        destruct (strict_rems (prem ip0) []); [reflexivity|discriminate].
  - destruct (sorted_begin (tbl b) Sb) as [[Hgt Gb]|(ip0 & rest & Eb & Hgt & Gb)].
    + (* b has no point at 0 *)
      eexists. split; [apply iadd_concat; auto|]. split; [reflexivity|]. fold L.
      assert (Et : tbl a ++ shift_idx L false (tbl b) = t0 ++ [(L, pa)] ++ shift_idx L false (tbl b))
        by (rewrite Ea, <- app_assoc; reflexivity).
      rewrite Et.
      apply (glue_result a b t0 [(L, pa)] [(L, pa)] [] (tbl b)); auto.
      * intros kp [<-|[]]. reflexivity.
      * right. eauto.
      * intros kp [].
      * rewrite run_one, step_rmall, Rpa, Apa. reflexivity.
      * cbn [strict_ok_from]. now rewrite Spa.
    + (* both have a point at the seam, and the merge test fails *)
      unfold merges in Hm. fold L in Hm. rewrite Ga, Gb in Hm.
      pose proof (iadd_seam a b t0 pa ip0 rest Ea Hlt Eb Sb) as Hi. cbv zeta in Hi. fold L in Hi.
      rewrite Hm in Hi. eexists. split; [exact Hi|]. split; [reflexivity|].
      apply (glue_result a b t0 [(L, pa)] [(L, _)] [(0, ip0)] rest); auto.
      * intros kp [<-|[]]. reflexivity.
      * right. eauto.
      * intros kp [<-|[]]. reflexivity.
      * rewrite !run_one, !step_rmall. cbn [padd prem]. rewrite rmall_app, Rpa, Apa. reflexivity.
      * cbn [strict_ok_from prem padd]. rewrite strict_rems_app, Spa.
        rewrite Eb in Ob. unfold strict_ok in Ob. cbn [strict_ok_from] in Ob.
        destruct (strict_rems (prem ip0) []); [reflexivity|discriminate].
Qed.

(* the hypotheses of iadd_nomerge are satisfiable: the merge test fails (order), or there is no
   common key *)
Example ex_nomerge_swapped : WF ex_a /\ WF ex_b_swapped /\ merges ex_a ex_b_swapped = false.
Proof. split; [exact ex_a_WF|]. split; [exact ex_b_swapped_WF|reflexivity]. Qed.
Example ex_nomerge_late : WF ex_a /\ WF ex_b_late /\ merges ex_a ex_b_late = false.
Proof. split; [exact ex_a_WF|]. split; [exact ex_b_late_WF|reflexivity]. Qed.
Example ex_nomerge_result :
  iadd ex_a ex_b_swapped
  = OK (mkA [97; 98; 99; 100; 101]%N
            [(0, mkP [S_ 1 10; S_ 2 20] []);
             (2, mkP [S_ 4 20; S_ 3 10] [S_ 1 10; S_ 2 20]);
             (3, mkP [] [S_ 4 20]); (5, mkP [] [S_ 3 10])]).
Proof. reflexivity. Qed.

(* ---------- the retargeting of stop markers ---------- *)
Lemma remove_nth_app {A} (pf l : list A) i : remove_nth (length pf + i) (pf ++ l) = pf ++ remove_nth i l.
Proof. induction pf as [|x pf IH]; cbn; [reflexivity|]. now rewrite IH. Qed.

Lemma set_nth_length {A} (l : list A) : forall i v, length (set_nth i v l) = length l.
Proof. induction l as [|x l IH]; intros [|i] v; cbn; auto. Qed.

Lemma retarget_app p1 : forall p2 rems find repl,
  retarget (p1 ++ p2) rems find repl
  = match retarget p1 rems find repl with
    | OK (rm, f, r) => retarget p2 rm f r
    | Err e => Err e end.
Proof.
  induction p1 as [|[fi ai] p1 IH]; intros p2 rems find repl; [reflexivity|].
  cbn [app retarget]. destruct (nth_error repl fi); [|reflexivity].
  destruct ((fi <? length find) && (ai <? length rems)); [|reflexivity]. apply IH.
Qed.

Definition shp (d : nat) (x : nat * nat) : nat * nat := (d + fst x, snd x).

Lemma retarget_shift pf pr : length pf = length pr -> forall pairs rems find repl,
  retarget (map (shp (length pf)) pairs) rems (pf ++ find) (pr ++ repl)
  = match retarget pairs rems find repl with
    | OK (rm, f, r) => OK (rm, pf ++ f, pr ++ r)
    | Err e => Err e end.
Proof.
  intros Hl. induction pairs as [|[fi ai] pairs IH]; intros rems find repl; [reflexivity|].
  cbn [map retarget shp fst snd].
  rewrite nth_error_app2 by lia. replace (length pf + fi - length pr) with fi by lia.
  destruct (nth_error repl fi) as [x|]; [|reflexivity].
  rewrite app_length.
  replace (length pf + fi <? length pf + length find) with (fi <? length find)
    by (apply Bool.eq_iff_eq_true; rewrite !Nat.ltb_lt; lia).
  destruct ((fi <? length find) && (ai <? length rems)); [|reflexivity].
  rewrite remove_nth_app. rewrite Hl at 2. rewrite remove_nth_app. apply IH.
Qed.

(* with duplicate-free stop markers every searched setting matches at most once *)
Fixpoint fr_simple (s : nat) (find l : list setting) : list (nat * nat) :=
  match find with
  | [] => []
  | x :: r => (match find_ref x l with Some p => [(s, p)] | None => [] end) ++ fr_simple (S s) r l
  end.

Lemma find_ref_ids_none x l : ~ In (sid x) (ids l) -> find_ref x l = None.
Proof.
  induction l as [|y l IH]; cbn; auto. intros H. unfold same_ref.
  destruct (Nat.eqb_spec (sid x) (sid y)) as [E|E]; [exfalso; apply H; left; congruence|].
  rewrite IH; auto.
Qed.

Lemma matches_simple (i : nat) (x : setting) : forall l s, NoDup (ids l) ->
  flat_map (fun '(i2, y) => if same_ref x y then [(i, i2)] else []) (combine (seq s (length l)) l)
  = match find_ref x l with Some p => [(i, s + p)] | None => [] end.
Proof.
  induction l as [|y l IH]; intros s Hnd; [reflexivity|].
  cbn [length seq combine flat_map find_ref]. inversion Hnd as [|? ? Hn Hd]; subst.
  rewrite (IH (S s) Hd). destruct (same_ref x y) eqn:E.
  - rewrite find_ref_ids_none; [cbn; now rewrite Nat.add_0_r|].
    unfold same_ref in E. apply Nat.eqb_eq in E. now rewrite E.
  - destruct (find_ref x l); cbn; [|reflexivity]. now rewrite Nat.add_succ_r.
Qed.

Lemma find_refs_simple find l : NoDup (ids l) -> find_refs find l = fr_simple 0 find l.
Proof.
  intros Hnd. unfold find_refs.
  enough (H : forall s,
    flat_map (fun '(i, x) =>
                flat_map (fun '(i2, y) => if same_ref x y then [(i, i2)] else [])
                         (combine (seq 0 (length l)) l))
             (combine (seq s (length find)) find) = fr_simple s find l) by apply H.
  induction find as [|x find IH]; intros s; [reflexivity|].
  cbn [length seq combine flat_map fr_simple]. rewrite IH. f_equal.
  rewrite (matches_simple s x l 0 Hnd). destruct (find_ref x l); reflexivity.
Qed.

Lemma fr_simple_shift find l : forall s, fr_simple (S s) find l = map (shp 1) (fr_simple s find l).
Proof.
  induction find as [|x find IH]; intros s; [reflexivity|].
  cbn [fr_simple]. rewrite map_app, <- IH. f_equal. destruct (find_ref x l); reflexivity.
Qed.

(* what the retargeting computes, as a recursion over the pending pairs *)
Fixpoint rt_spec (find repl l rems : list setting) : list setting * list setting * list setting :=
  match find, repl with
  | f :: find', r :: repl' =>
      let '(rems', fo, ro) := rt_spec find' repl' l rems in
      match find_ref f l with
      | Some p => (set_nth p r rems', fo, ro)
      | None => (rems', f :: fo, r :: ro)
      end
  | _, _ => (rems, [], [])
  end.

Lemma rt_spec_length find : forall repl l rems, length (fst (fst (rt_spec find repl l rems))) = length rems.
Proof.
  induction find as [|f find IH]; intros [|r repl] l rems; try reflexivity.
  cbn [rt_spec]. specialize (IH repl l rems). destruct (rt_spec find repl l rems) as [[rm fo] ro].
  cbn [fst] in IH. destruct (find_ref f l); cbn [fst]; auto. now rewrite set_nth_length.
Qed.

Lemma find_ref_lt x l : forall p, find_ref x l = Some p -> p < length l.
Proof.
  induction l as [|y l IH]; intros p; cbn; [discriminate|].
  destruct (same_ref x y); [intros H; inversion H; lia|].
  destruct (find_ref x l) as [q|]; cbn; [|discriminate]. intros H; inversion H. specialize (IH q eq_refl). lia.
Qed.

Lemma retarget_spec l rems : length rems = length l -> forall find repl, length find = length repl ->
  retarget (rev (fr_simple 0 find l)) rems find repl = OK (rt_spec find repl l rems).
Proof.
  intros Hlen. induction find as [|f find IH]; intros [|r repl] Hl; try discriminate; [reflexivity|].
  cbn [fr_simple rt_spec]. rewrite fr_simple_shift, rev_app_distr, <- map_rev, retarget_app.
  change (f :: find) with ([f] ++ find). change (r :: repl) with ([r] ++ repl).
  change 1 with (length [f]). rewrite retarget_shift by reflexivity.
  cbn in Hl. rewrite IH by lia. pose proof (rt_spec_length find repl l rems) as Hrl.
  destruct (rt_spec find repl l rems) as [[rm fo] ro]. cbn [fst] in Hrl.
  destruct (find_ref f l) as [p|] eqn:F; [|reflexivity].
  cbn [rev app retarget nth_error length]. apply find_ref_lt in F.
  replace (p <? length rm) with true by (symmetry; apply Nat.ltb_lt; lia). reflexivity.
Qed.

(* ---------- retargeting as a renaming of identities ---------- *)
Definition ren (FR : list (setting * setting)) (x : setting) : setting :=
  match List.find (fun fr => same_ref (fst fr) x) FR with Some fr => snd fr | None => x end.
Definition keep (l : list setting) (fr : setting * setting) : bool := negb (in_ref (fst fr) l).

Lemma find_ref_none_all f l : find_ref f l = None -> forall y, In y l -> same_ref f y = false.
Proof.
  induction l as [|z l IH]; cbn; [intros _ y []|].
  destruct (same_ref f z) eqn:E; [discriminate|]. destruct (find_ref f l); [discriminate|].
  intros _ y [<-|Hy]; auto.
Qed.

Lemma map_set_nth (f : setting) (r : setting) (g : setting -> setting) : forall l p,
  NoDup (ids l) -> find_ref f l = Some p ->
  map (fun y => if same_ref f y then r else g y) l = set_nth p r (map g l).
Proof.
  induction l as [|z l IH]; intros p Hnd; cbn [find_ref map]; [discriminate|].
  inversion Hnd as [|? ? Hn Hd]; subst. destruct (same_ref f z) eqn:E.
  - intros H; inversion H; subst. cbn [set_nth]. f_equal.
    apply map_ext_in. intros y Hy. replace (same_ref f y) with false; auto.
    symmetry. unfold same_ref in *. apply Nat.eqb_eq in E. apply Nat.eqb_neq. intros E2.
    apply Hn. unfold ids. apply in_map_iff. exists y. split; congruence.
  - destruct (find_ref f l) as [q|]; [|discriminate]. intros H; inversion H; subst.
    cbn [set_nth]. f_equal. now apply IH.
Qed.

Lemma rt_spec_ren l : NoDup (ids l) -> forall fnd repl, length fnd = length repl ->
  rt_spec fnd repl l l
  = (map (ren (combine fnd repl)) l,
     map fst (filter (keep l) (combine fnd repl)), map snd (filter (keep l) (combine fnd repl))).
Proof.
  intros Hnd. induction fnd as [|f fnd IH]; intros [|r repl] Hl; try discriminate.
  - cbn. now rewrite map_id.
  - cbn [rt_spec combine filter]. cbn in Hl. rewrite IH by lia.
    assert (Ek : keep l (f, r) = negb (in_ref f l)) by reflexivity. rewrite Ek. clear Ek. unfold in_ref.
    destruct (find_ref f l) as [p|] eqn:F; cbn [negb].
    + f_equal. f_equal. symmetry. rewrite <- (map_set_nth f r (ren (combine fnd repl)) l p Hnd F).
      apply map_ext. intros y. unfold ren. cbn [List.find fst snd]. destruct (same_ref f y); reflexivity.
    + cbn [map fst snd]. f_equal. f_equal. apply map_ext_in. intros y Hy. unfold ren. cbn [List.find fst snd].
      now rewrite (find_ref_none_all f l F y Hy).
Qed.

Lemma combine_fst_snd {A B} (l : list (A * B)) : combine (map fst l) (map snd l) = l.
Proof. induction l as [|[x y] l IH]; cbn; [reflexivity|]. now rewrite IH. Qed.

(* the loop after the seam, as a function *)
Fixpoint tail_spec (rest : fmts) (L : nat) (FR : list (setting * setting)) : fmts :=
  match rest with
  | [] => []
  | (k0, ip) :: rest' =>
      (k0 + L, mkP (padd ip) (map (ren FR) (prem ip))) :: tail_spec rest' L (filter (keep (prem ip)) FR)
  end.

Lemma tail_loop_spec L : forall rest FR,
  (forall kp, In kp rest -> NoDup (ids (prem (snd kp)))) ->
  tail_loop rest L (map fst FR) (map snd FR) = OK (tail_spec rest L FR).
Proof.
  induction rest as [|[k0 ip] rest IH]; intros FR Hnd; [reflexivity|].
  cbn [tail_loop tail_spec].
  assert (Hn : NoDup (ids (prem ip))) by (apply (Hnd (k0, ip)); now left).
  rewrite find_refs_simple by exact Hn. rewrite retarget_spec by (auto; now rewrite !map_length).
  rewrite rt_spec_ren by (auto; now rewrite !map_length). rewrite combine_fst_snd.
  rewrite IH; [reflexivity|]. intros kp Hin. apply Hnd. now right.
Qed.

Lemma tail_spec_keys L : forall rest FR kp, In kp (tail_spec rest L FR) ->
  exists kp0, In kp0 rest /\ fst kp = fst kp0 + L.
Proof.
  induction rest as [|[k0 ip] rest IH]; intros FR kp Hin; [destruct Hin|].
  cbn [tail_spec] in Hin. destruct Hin as [<-|Hin].
  - exists (k0, ip). split; [now left|reflexivity].
  - destruct (IH _ _ Hin) as (kp0 & H0 & E). exists kp0. split; [now right|exact E].
Qed.

Lemma tail_spec_sorted L : forall rest FR, ssorted rest -> ssorted (tail_spec rest L FR).
Proof.
  induction rest as [|[k0 ip] rest IH]; intros FR Hs; [constructor|].
  inversion Hs as [|? ? ? Hk Hs']; subst. cbn [tail_spec]. constructor; auto.
  intros kp Hin. apply tail_spec_keys in Hin as (kp0 & H0 & ->). specialize (Hk kp0 H0). lia.
Qed.

Lemma upto_cons k k0 p t : upto k ((k0, p) :: t) = if k0 <=? k then (k0, p) :: upto k t else upto k t.
Proof. reflexivity. Qed.

Lemma upto_tail_spec L k : forall rest, ssorted rest -> forall FR,
  upto (L + k) (tail_spec rest L FR) = tail_spec (upto k rest) L FR.
Proof.
  induction 1 as [|k0 ip rest Hk Hs IH]; intros FR; [reflexivity|].
  cbn [tail_spec]. rewrite !upto_cons.
  destruct (k0 <=? k) eqn:E.
  - apply Nat.leb_le in E. replace (k0 + L <=? L + k) with true by (symmetry; apply Nat.leb_le; lia).
    cbn [tail_spec]. f_equal. apply IH.
  - apply Nat.leb_gt in E. replace (k0 + L <=? L + k) with false by (symmetry; apply Nat.leb_gt; lia).
    rewrite (upto_all_gt k k0 rest Hk E). cbn [tail_spec]. apply upto_none.
    intros kp Hin. apply tail_spec_keys in Hin as (kp0 & H0 & ->). specialize (Hk kp0 H0). lia.
Qed.

(* ---------- list facts about removal by identity ---------- *)
Lemma rmall_subset l : forall B y, In y (rmall l B) -> In y B.
Proof.
  induction l as [|s l IH]; intros B y H; [exact H|]. cbn in H. apply IH in H. eapply remove_ref_subset; eauto.
Qed.

Lemma rmall_nodup l : forall B, NoDup (ids B) -> NoDup (ids (rmall l B)).
Proof. induction l as [|s l IH]; intros B H; [exact H|]. cbn. apply IH. now apply remove_ref_nodup. Qed.

Lemma remove_ref_gone s B : NoDup (ids B) -> ~ In (sid s) (ids (remove_ref s B)).
Proof.
  induction B as [|z B IH]; cbn; auto. intros Hnd. inversion Hnd as [|? ? Hn Hd]; subst.
  unfold same_ref. destruct (Nat.eqb_spec (sid s) (sid z)) as [E|E].
  - now rewrite E.
  - cbn. intros [H|H]; [congruence|]. now apply IH.
Qed.

Lemma ids_subset (X Y : list setting) : (forall y, In y X -> In y Y) -> forall i, In i (ids X) -> In i (ids Y).
Proof. intros H i Hi. unfold ids in *. apply in_map_iff in Hi as (y & <- & Hy). apply in_map. auto. Qed.

Lemma rmall_no_ids l : forall B s, NoDup (ids B) -> In s l -> ~ In (sid s) (ids (rmall l B)).
Proof.
  induction l as [|s0 l IH]; intros B s Hnd Hin; [destruct Hin|]. cbn. destruct Hin as [->|Hin].
  - intros H. apply (remove_ref_gone s B Hnd). revert H. apply ids_subset. apply rmall_subset.
  - apply IH; auto. now apply remove_ref_nodup.
Qed.

Lemma remove_ref_keep f s B : In f B -> sid s <> sid f -> In f (remove_ref s B).
Proof.
  induction B as [|z B IH]; cbn; auto. intros [->|H] Hne.
  - unfold same_ref. replace (Nat.eqb (sid s) (sid f)) with false by (symmetry; now apply Nat.eqb_neq). now left.
  - destruct (same_ref s z); auto. right. auto.
Qed.

Lemma rmall_keep f l : forall B, In f B -> (forall s, In s l -> sid s <> sid f) -> In f (rmall l B).
Proof.
  induction l as [|s l IH]; intros B H Hne; [exact H|]. cbn. apply IH.
  - apply remove_ref_keep; auto. apply Hne. now left.
  - intros s' Hs'. apply Hne. now right.
Qed.

Lemma nodup_ids_inj B x y : NoDup (ids B) -> In x B -> In y B -> sid x = sid y -> x = y.
Proof.
  induction B as [|z B IH]; cbn; [tauto|]. intros Hnd. inversion Hnd as [|? ? Hn Hd]; subst.
  intros [->|Hx] [->|Hy] E; auto.
  - exfalso. apply Hn. unfold ids. apply in_map_iff. exists y. split; congruence.
  - exfalso. apply Hn. unfold ids. apply in_map_iff. exists x. split; congruence.
Qed.

Lemma nodup_app_disjoint (X Y : list nat) i : NoDup (X ++ Y) -> In i X -> In i Y -> False.
Proof.
  induction X as [|z X IH]; cbn; [tauto|]. intros Hnd. inversion Hnd as [|? ? Hn Hd]; subst.
  intros [->|Hx] Hy; [apply Hn; apply in_or_app; now right|]. now apply IH.
Qed.

Lemma nodup_map_filter {A B} (g : A -> B) (h : A -> bool) l : NoDup (map g l) -> NoDup (map g (filter h l)).
Proof.
  induction l as [|z l IH]; cbn; auto. intros Hnd. inversion Hnd as [|? ? Hn Hd]; subst.
  destruct (h z); cbn; auto. constructor; auto. intros H. apply Hn.
  apply in_map_iff in H as (w & <- & Hw). apply in_map. apply filter_In in Hw. tauto.
Qed.

Lemma remove_ref_map (f : setting -> setting) s B :
  (forall x, In x B -> (sid (f x) = sid (f s) <-> sid x = sid s)) ->
  remove_ref (f s) (map f B) = map f (remove_ref s B).
Proof.
  induction B as [|z B IH]; intros H; [reflexivity|]. cbn [map remove_ref].
  assert (E : same_ref (f s) (f z) = same_ref s z).
  { unfold same_ref. apply Bool.eq_iff_eq_true. rewrite !Nat.eqb_eq.
    destruct (H z (or_introl eq_refl)) as [H1 H2]. split; intros E; symmetry; [apply H1|apply H2]; now symmetry. }
  rewrite E. destruct (same_ref s z); [reflexivity|]. cbn [map]. f_equal. apply IH. intros x Hx. apply H. now right.
Qed.

Lemma strict_rems_map (f : setting -> setting) l : forall B B1,
  (forall s x, In s l -> In x B -> (sid (f x) = sid (f s) <-> sid x = sid s)) ->
  strict_rems l B = Some B1 -> strict_rems (map f l) (map f B) = Some (map f B1).
Proof.
  induction l as [|s l IH]; intros B B1 H Hs; cbn in *; [congruence|].
  destruct (in_ref s B) eqn:E; [|discriminate].
  assert (E2 : in_ref (f s) (map f B) = true).
  { apply in_ref_spec in E as (y & Hy & Hsy). apply in_ref_spec. exists (f y). split; [now apply in_map|].
    apply (H s y); auto. }
  rewrite E2. rewrite remove_ref_map by (intros x Hx; apply H; auto).
  apply IH; auto. intros s' x Hs' Hx. apply H; auto. eapply remove_ref_subset; eauto.
Qed.

Lemma strict_rems_in l : forall B B1 s, strict_rems l B = Some B1 -> In s l -> In (sid s) (ids B).
Proof.
  induction l as [|s0 l IH]; intros B B1 s H Hin; [destruct Hin|]. cbn in H.
  destruct (in_ref s0 B) eqn:E; [|discriminate]. destruct Hin as [->|Hin].
  - apply in_ref_spec in E as (y & Hy & Hsy). rewrite <- Hsy. unfold ids. now apply in_map.
  - specialize (IH _ _ s H Hin). revert IH. apply ids_subset. intros y. apply remove_ref_subset.
Qed.

Lemma strict_rems_nodup l : forall B B1, strict_rems l B = Some B1 -> NoDup (ids B) -> NoDup (ids l).
Proof.
  induction l as [|s l IH]; intros B B1 H Hnd; [constructor|]. cbn in H.
  destruct (in_ref s B) eqn:E; [|discriminate]. cbn. constructor.
  - intros Hin. unfold ids in Hin. apply in_map_iff in Hin as (s' & Es & Hs').
    pose proof (strict_rems_in _ _ _ s' H Hs') as H1. rewrite Es in H1. now apply (remove_ref_gone s B Hnd).
  - apply (IH _ _ H). now apply remove_ref_nodup.
Qed.

Lemma find_ext {A} (f g : A -> bool) l : (forall a, f a = g a) -> List.find f l = List.find g l.
Proof. intros H. induction l as [|a l IH]; cbn; auto. rewrite H, IH. reflexivity. Qed.

Lemma ren_sid FR x y : sid x = sid y -> sid (ren FR x) = sid (ren FR y).
Proof.
  intros E. unfold ren. rewrite (find_ext (fun fr => same_ref (fst fr) x) (fun fr => same_ref (fst fr) y)).
  - destruct (List.find _ FR); auto.
  - intros fr. unfold same_ref. now rewrite E.
Qed.

Lemma ren_id FR y : (forall fr, In fr FR -> same_ref (fst fr) y = false) -> ren FR y = y.
Proof.
  intros H. unfold ren. destruct (List.find _ FR) as [fr|] eqn:F; auto.
  apply find_some in F as [F1 F2]. rewrite H in F2; [discriminate|exact F1].
Qed.

Lemma ren_filter (g : setting * setting -> bool) x : forall FR,
  (forall fr, In fr FR -> same_ref (fst fr) x = true -> g fr = true) -> ren (filter g FR) x = ren FR x.
Proof.
  unfold ren. induction FR as [|fr FR IH]; intros H; [reflexivity|]. cbn [filter List.find].
  destruct (g fr) eqn:G; cbn [List.find].
  - destruct (same_ref (fst fr) x); [reflexivity|]. apply IH. intros; apply H; auto. now right.
  - destruct (same_ref (fst fr) x) eqn:E.
    + rewrite (H fr (or_introl eq_refl) E) in G. discriminate.
    + apply IH. intros; apply H; auto. now right.
Qed.

Lemma nodup_snd_inj (FR : list (setting * setting)) fr1 fr2 : NoDup (ids (map snd FR)) -> In fr1 FR -> In fr2 FR ->
  sid (snd fr1) = sid (snd fr2) -> fr1 = fr2.
Proof.
  induction FR as [|z FR IH]; cbn; [tauto|]. intros Hnd. inversion Hnd as [|? ? Hn Hd]; subst.
  assert (Hx : forall w, In w FR -> sid (snd w) <> sid (snd z)).
  { intros w Hw E. apply Hn. unfold ids. rewrite map_map. apply in_map_iff. exists w. split; auto. }
  intros [->|H1] [->|H2] E; auto.
  - exfalso. apply (Hx fr2 H2). congruence.
  - exfalso. apply (Hx fr1 H1). congruence.
Qed.

Lemma nodup_map_inj (f : setting -> setting) B :
  (forall x y, In x B -> In y B -> sid (f x) = sid (f y) -> sid x = sid y) ->
  NoDup (ids B) -> NoDup (ids (map f B)).
Proof.
  induction B as [|z B IH]; intros H Hnd; [constructor|]. cbn. inversion Hnd as [|? ? Hn Hd]; subst. constructor.
  - intros Hi. unfold ids in Hi. rewrite map_map in Hi. apply in_map_iff in Hi as (w & E & Hw).
    apply Hn. unfold ids. apply in_map_iff. exists w. split; auto. apply H; auto. now right. now left.
  - apply IH; auto. intros x y Hx Hy. apply H; now right.
Qed.

(* ---------- simulation: the replay of c after the seam is the renamed replay of b ---------- *)
Section Sim.
Variable Pb : setting -> Prop.     (* "occurs in b" *)

Definition fresh (FR : list (setting * setting)) : Prop :=
  forall fr y, In fr FR -> Pb y -> sid y = sid (snd fr) -> sid y = sid (fst fr).

Definition Inv (FR : list (setting * setting)) (B C : list setting) : Prop :=
  C = map (ren FR) B
  /\ (forall fr, In fr FR -> In (fst fr) B)
  /\ NoDup (ids B)
  /\ NoDup (ids (map snd FR))
  /\ (forall fr, In fr FR -> stxt (fst fr) = stxt (snd fr))
  /\ (forall x, In x B -> Pb x)
  /\ fresh FR.

Lemma ren_inj FR x y : NoDup (ids (map snd FR)) -> fresh FR -> Pb x -> Pb y ->
  (sid (ren FR x) = sid (ren FR y) <-> sid x = sid y).
Proof.
  intros Hnd Hf Px Py. split; [|apply ren_sid].
  unfold ren. destruct (List.find (fun fr => same_ref (fst fr) x) FR) as [f1|] eqn:F1;
    destruct (List.find (fun fr => same_ref (fst fr) y) FR) as [f2|] eqn:F2; auto.
  - apply find_some in F1 as [I1 S1]. apply find_some in F2 as [I2 S2]. intros E.
    assert (f1 = f2) by (eapply nodup_snd_inj; eauto). subst f2.
    unfold same_ref in *. apply Nat.eqb_eq in S1, S2. congruence.
  - apply find_some in F1 as [I1 S1]. intros E. symmetry in E. pose proof (Hf f1 y I1 Py E) as E2.
    pose proof (find_none _ _ F2 f1 I1) as N. cbn in N. unfold same_ref in N. apply Nat.eqb_neq in N. congruence.
  - apply find_some in F2 as [I2 S2]. intros E. pose proof (Hf f2 x I2 Px E) as E2.
    pose proof (find_none _ _ F1 f2 I2) as N. cbn in N. unfold same_ref in N. apply Nat.eqb_neq in N. congruence.
Qed.

Lemma inv_nodup FR B C : Inv FR B C -> NoDup (ids C).
Proof.
  intros (-> & Hin & Hnd & Hns & Htx & HP & Hf).
  apply nodup_map_inj; auto. intros x y Hx Hy.
  apply (proj1 (ren_inj FR x y Hns Hf (HP x Hx) (HP y Hy))).
Qed.

Lemma inv_texts FR B C : Inv FR B C -> map stxt C = map stxt B.
Proof.
  intros (-> & Hin & Hnd & Hns & Htx & HP & Hf). rewrite map_map. apply map_ext_in. intros x Hx.
  unfold ren. destruct (List.find _ FR) as [fr|] eqn:F; auto.
  apply find_some in F as [I1 S1]. unfold same_ref in S1. apply Nat.eqb_eq in S1.
  assert (fst fr = x) by (apply (nodup_ids_inj B); auto). subst x. symmetry. auto.
Qed.

Lemma inv_step FR B C ip B1 :
  Inv FR B C -> strict_rems (prem ip) B = Some B1 -> NoDup (ids (B1 ++ padd ip)) ->
  (forall x, In x (padd ip) -> Pb x) -> (forall x, In x (prem ip) -> Pb x) ->
  strict_rems (map (ren FR) (prem ip)) C = Some (map (ren FR) B1)
  /\ Inv (filter (keep (prem ip)) FR) (B1 ++ padd ip) (map (ren FR) B1 ++ padd ip).
Proof.
  intros (-> & Hin & Hnd & Hns & Htx & HP & Hf) Hs Hnd' Pa Pr.
  pose proof (strict_rems_some _ _ _ Hs) as EB1.
  assert (Sub : forall y, In y B1 -> In y B) by (intros y; rewrite EB1; apply rmall_subset).
  split.
  - apply strict_rems_map; auto. intros s x Hs' Hx. apply ren_inj; auto.
  - set (FR' := filter (keep (prem ip)) FR).
    assert (InFR : forall fr, In fr FR' -> In fr FR) by (intros fr H; apply filter_In in H; tauto).
    assert (In1 : forall fr, In fr FR' -> In (fst fr) B1).
    { intros fr H. apply filter_In in H as [H1 H2]. rewrite EB1. apply rmall_keep; auto.
      intros s Hs'. unfold keep in H2. apply negb_true_iff in H2.
      rewrite in_ref_false in H2. apply H2; auto. }
    unfold Inv. repeat split.
    + rewrite map_app. f_equal.
      * apply map_ext_in. intros x Hx. symmetry. apply ren_filter. intros fr Hfr Sx.
        unfold keep. apply negb_true_iff. apply in_ref_false. intros s Hs' E.
        unfold same_ref in Sx. apply Nat.eqb_eq in Sx.
        apply (rmall_no_ids (prem ip) B s Hnd Hs'). rewrite <- EB1. unfold ids. apply in_map_iff.
        exists x. split; auto. congruence.
      * symmetry. rewrite <- (map_id (padd ip)) at 2. apply map_ext_in. intros y Hy. apply ren_id.
        intros fr Hfr. unfold same_ref. apply Nat.eqb_neq. intros E.
        apply (nodup_app_disjoint (ids B1) (ids (padd ip)) (sid y)).
        -- unfold ids in *. now rewrite <- map_app.
        -- rewrite <- E. unfold ids. apply in_map. auto.
        -- unfold ids. now apply in_map.
    + intros fr H. apply in_or_app. left. auto.
    + exact Hnd'.
    + unfold ids. rewrite map_map. apply nodup_map_filter. rewrite <- map_map. exact Hns.
    + intros fr H. auto.
    + intros x Hx. apply in_app_or in Hx as [Hx|Hx]; auto.
    + intros fr y Hfr. apply Hf. auto.
Qed.
End Sim.

(* every state of the replay from `act` is duplicate free *)
Fixpoint nd_from (t : fmts) (act : list setting) : Prop :=
  NoDup (ids act) /\ match t with [] => True | (k, p) :: r => nd_from r (step act p) end.

Lemma nd_from_head t act : nd_from t act -> NoDup (ids act).
Proof. destruct t as [|[k p] r]; cbn; tauto. Qed.

Definition marks_in (P : setting -> Prop) (t : fmts) : Prop :=
  forall kp x, In kp t -> In x (padd (snd kp)) \/ In x (prem (snd kp)) -> P x.

Section SimRun.
Variable Pb : setting -> Prop.
Variable L : nat.

Lemma sim_run k : forall rest, ssorted rest -> forall FR B C,
  Inv Pb FR B C -> strict_ok_from rest B = true -> nd_from rest B -> marks_in Pb rest ->
  exists FR', Inv Pb FR' (run B (upto k rest)) (run C (upto (L + k) (tail_spec rest L FR))).
Proof.
  induction 1 as [|k0 ip rest Hk Hs IH]; intros FR B C HI Hso Hnd HP.
  - exists FR. exact HI.
  - cbn [strict_ok_from] in Hso. destruct (strict_rems (prem ip) B) as [B1|] eqn:E1; [|discriminate].
    cbn [nd_from] in Hnd. destruct Hnd as [NB Hnd].
    assert (Est : step B ip = B1 ++ padd ip) by (rewrite step_rmall; now rewrite (strict_rems_some _ _ _ E1)).
    rewrite Est in Hnd.
    destruct (inv_step Pb FR B C ip B1 HI E1 (nd_from_head _ _ Hnd)) as [Sc HI'].
    { intros x Hx. apply (HP (k0, ip) x); [now left|now left]. }
    { intros x Hx. apply (HP (k0, ip) x); [now left|now right]. }
    cbn [tail_spec]. rewrite !upto_cons. destruct (k0 <=? k) eqn:E.
    + apply Nat.leb_le in E. replace (k0 + L <=? L + k) with true by (symmetry; apply Nat.leb_le; lia).
      rewrite !run_cons, Est. rewrite step_rmall. cbn [prem padd].
      rewrite <- (strict_rems_some _ _ _ Sc).
      apply IH; auto. intros kp x Hin Hx. apply (HP kp x); auto. now right.
    + apply Nat.leb_gt in E. replace (k0 + L <=? L + k) with false by (symmetry; apply Nat.leb_gt; lia).
      rewrite (upto_all_gt k k0 rest Hk E). rewrite upto_none.
      * exists FR. exact HI.
      * intros kp Hin. apply tail_spec_keys in Hin as (kp0 & H0 & ->). specialize (Hk kp0 H0). lia.
Qed.

Lemma sim_strict : forall rest FR B C,
  Inv Pb FR B C -> strict_ok_from rest B = true -> nd_from rest B -> marks_in Pb rest ->
  strict_ok_from (tail_spec rest L FR) C = true.
Proof.
  induction rest as [|[k0 ip] rest IH]; intros FR B C HI Hso Hnd HP; [reflexivity|].
  cbn [strict_ok_from] in Hso. destruct (strict_rems (prem ip) B) as [B1|] eqn:E1; [|discriminate].
  cbn [nd_from] in Hnd. destruct Hnd as [NB Hnd].
  assert (Est : step B ip = B1 ++ padd ip) by (rewrite step_rmall; now rewrite (strict_rems_some _ _ _ E1)).
  rewrite Est in Hnd.
  destruct (inv_step Pb FR B C ip B1 HI E1 (nd_from_head _ _ Hnd)) as [Sc HI'].
  { intros x Hx. apply (HP (k0, ip) x); [now left|now left]. }
  { intros x Hx. apply (HP (k0, ip) x); [now left|now right]. }
  cbn [tail_spec strict_ok_from prem padd]. rewrite Sc.
  apply (IH _ _ _ HI' Hso Hnd). intros kp x Hin Hx. apply (HP kp x); auto. now right.
Qed.
End SimRun.

(* ---------- the order test at the seam ---------- *)
Fixpoint sortedb (l : list nat) : bool :=
  match l with
  | a :: ((b :: _) as r) => (a <=? b) && sortedb r
  | _ => true
  end.
Definition enc (S : list setting) (x : setting) : nat :=
  match find_ref x S with Some n => Datatypes.S n | None => O end.

Lemma positions_sorted_enc R S : positions_sorted R S = sortedb (map (enc S) R).
Proof. reflexivity. Qed.

Lemma sortedb_tail a l : sortedb (a :: l) = true -> sortedb l = true.
Proof. destruct l as [|b l]; [reflexivity|]. cbn. intros H. apply andb_true_iff in H. tauto. Qed.

Lemma sortedb_head_le : forall l a, sortedb (a :: l) = true -> forall x, In x l -> a <= x.
Proof.
  induction l as [|b l IH]; intros a H x Hx; [destruct Hx|].
  cbn [sortedb] in H. apply andb_true_iff in H as [H1 H2]. apply Nat.leb_le in H1.
  destruct Hx as [<-|Hx]; auto. specialize (IH b H2 x Hx). lia.
Qed.

Lemma sortedb_map_S l : sortedb (map Datatypes.S l) = sortedb l.
Proof.
  induction l as [|a l IH]; [reflexivity|]. destruct l as [|b l]; [reflexivity|].
  cbn [map sortedb] in *. now rewrite IH.
Qed.

Lemma enc_cons z S x : enc (z :: S) x = if same_ref x z then 1 else match enc S x with O => O | n => Datatypes.S n end.
Proof. unfold enc. cbn [find_ref]. destruct (same_ref x z); auto. destruct (find_ref x S); reflexivity. Qed.

Lemma enc_pos S x : In (sid x) (ids S) -> 0 < enc S x.
Proof.
  intros H. unfold enc. destruct (find_ref x S) eqn:F; [lia|]. exfalso.
  unfold ids in H. apply in_map_iff in H as (y & E & Hy).
  pose proof (find_ref_none_all x S F y Hy) as N. unfold same_ref in N. apply Nat.eqb_neq in N. congruence.
Qed.

Lemma in_ref_cons x s l : in_ref x (s :: l) = same_ref x s || in_ref x l.
Proof. unfold in_ref. cbn [find_ref]. destruct (same_ref x s); auto. destruct (find_ref x l); reflexivity. Qed.

Lemma in_ref_nil x : in_ref x [] = false.
Proof. reflexivity. Qed.

(* the settings of S whose identity is in R come in the order of R *)
Lemma seam_order : forall S R, NoDup (ids S) -> NoDup (ids R) ->
  (forall r, In r R -> In (sid r) (ids S)) -> sortedb (map (enc S) R) = true ->
  ids (filter (fun x => in_ref x R) S) = ids R.
Proof.
  induction S as [|z S IH]; intros R NS NR HR Hso.
  - destruct R as [|r R]; [reflexivity|]. destruct (HR r (or_introl eq_refl)).
  - inversion NS as [|? ? Hnz NS']; subst. cbn [filter].
    destruct (in_ref z R) eqn:Ez.
    + (* z is one of R: it must be the first *)
      destruct R as [|r R]; [discriminate|].
      assert (Erz : sid r = sid z).
      { destruct (Nat.eq_dec (sid r) (sid z)) as [E|NE]; auto. exfalso.
        rewrite in_ref_cons in Ez. unfold same_ref at 1 in Ez.
        replace (Nat.eqb (sid z) (sid r)) with false in Ez by (symmetry; apply Nat.eqb_neq; congruence).
        cbn [orb] in Ez. apply in_ref_spec in Ez as (r0 & Hr0 & E0).
        cbn [map] in Hso. pose proof (sortedb_head_le _ _ Hso (enc (z :: S) r0) (in_map _ _ _ Hr0)) as Hle.
        rewrite !enc_cons in Hle. unfold same_ref in Hle.
        replace (Nat.eqb (sid r0) (sid z)) with true in Hle by (symmetry; now apply Nat.eqb_eq).
        replace (Nat.eqb (sid r) (sid z)) with false in Hle by (symmetry; now apply Nat.eqb_neq).
        assert (0 < enc S r).
        { apply enc_pos. destruct (HR r (or_introl eq_refl)) as [H|H]; [congruence|exact H]. }
        destruct (enc S r); lia. }
      inversion NR as [|? ? Hnr NR']; subst. cbn [ids map]. f_equal; [congruence|].
      change (map sid R) with (ids R). rewrite <- (IH R NS' NR').
      * unfold ids. f_equal. apply filter_ext_in. intros x Hx. rewrite in_ref_cons.
        unfold same_ref. replace (Nat.eqb (sid x) (sid r)) with false; [reflexivity|].
        symmetry. apply Nat.eqb_neq. intros E. apply Hnz. unfold ids. apply in_map_iff. exists x. split; congruence.
      * intros r' Hr'. destruct (HR r' (or_intror Hr')) as [H|H]; auto. exfalso.
        apply Hnr. unfold ids. apply in_map_iff. exists r'. split; congruence.
      * cbn [map] in Hso. apply sortedb_tail in Hso.
        rewrite <- sortedb_map_S. rewrite map_map. erewrite map_ext_in; [exact Hso|].
        intros r' Hr'. cbn beta. rewrite enc_cons. unfold same_ref.
        replace (Nat.eqb (sid r') (sid z)) with false.
        2:{ symmetry. apply Nat.eqb_neq. intros E. apply Hnr. unfold ids. apply in_map_iff. exists r'. split; congruence. }
        assert (0 < enc S r').
        { apply enc_pos. destruct (HR r' (or_intror Hr')) as [H|H]; auto. exfalso.
          apply Hnr. unfold ids. apply in_map_iff. exists r'. split; congruence. }
        destruct (enc S r'); [lia|reflexivity].
    + (* z is not in R *)
      assert (Hz : forall r, In r R -> sid r <> sid z).
      { intros r Hr E. rewrite in_ref_false in Ez. apply (Ez r Hr). exact E. }
      apply IH; auto.
      * intros r Hr. destruct (HR r Hr) as [H|H]; auto. exfalso. apply (Hz r Hr). congruence.
      * rewrite <- sortedb_map_S. rewrite map_map. erewrite map_ext_in; [exact Hso|].
        intros r Hr. cbn beta. rewrite enc_cons. unfold same_ref.
        replace (Nat.eqb (sid r) (sid z)) with false by (symmetry; apply Nat.eqb_neq; auto).
        assert (0 < enc S r).
        { apply enc_pos. destruct (HR r Hr) as [H|H]; auto. exfalso. apply (Hz r Hr). congruence. }
        destruct (enc S r); [lia|reflexivity].
Qed.

(* removal from a duplicate-free list is a filter *)
Lemma remove_ref_filter s S : NoDup (ids S) -> remove_ref s S = filter (fun x => negb (same_ref s x)) S.
Proof.
  induction S as [|z S IH]; intros Hnd; [reflexivity|]. inversion Hnd as [|? ? Hn Hd]; subst.
  cbn [remove_ref filter]. destruct (same_ref s z) eqn:E; cbn [negb].
  - symmetry. apply filter_all_true. intros x Hx. apply negb_true_iff. unfold same_ref in *.
    apply Nat.eqb_eq in E. apply Nat.eqb_neq. intros E2. apply Hn. unfold ids. apply in_map_iff. exists x. split; congruence.
  - f_equal. auto.
Qed.

Lemma rmall_filter l : forall S, NoDup (ids S) -> rmall l S = filter (fun x => negb (in_ref x l)) S.
Proof.
  induction l as [|s l IH]; intros S Hnd.
  - cbn. symmetry. apply filter_all_true. intros; reflexivity.
  - cbn [rmall fold_left]. change (fold_left (fun a s0 => remove_ref s0 a) l (remove_ref s S)) with (rmall l (remove_ref s S)).
    rewrite IH by now apply remove_ref_nodup. rewrite remove_ref_filter by exact Hnd. rewrite filter_filter.
    apply filter_ext. intros x. rewrite in_ref_cons, negb_orb. unfold same_ref. rewrite (Nat.eqb_sym (sid x) (sid s)).
    apply andb_comm.
Qed.

Lemma same_ids_eq : forall X Y : list setting, ids X = ids Y ->
  (forall x y, In x X -> In y Y -> sid x = sid y -> x = y) -> X = Y.
Proof.
  induction X as [|x X IH]; intros [|y Y] E H; try discriminate; [reflexivity|].
  cbn in E. inversion E. f_equal.
  - apply H; auto; now left.
  - apply IH; auto. intros; apply H; auto; now right.
Qed.

Lemma map_ren_combine : forall F R, NoDup (ids F) -> length F = length R -> map (ren (combine F R)) F = R.
Proof.
  induction F as [|f F IH]; intros [|r R] Hnd Hl; try discriminate; [reflexivity|].
  inversion Hnd as [|? ? Hn Hd]; subst. cbn [combine map]. f_equal.
  - unfold ren. cbn [List.find fst snd]. unfold same_ref. now rewrite Nat.eqb_refl.
  - rewrite <- (IH R Hd) at 2 by (cbn in Hl; lia). apply map_ext_in. intros x Hx.
    unfold ren. cbn [List.find fst]. unfold same_ref at 1.
    replace (Nat.eqb (sid f) (sid x)) with false; [reflexivity|].
    symmetry. apply Nat.eqb_neq. intros E. apply Hn. unfold ids. apply in_map_iff. exists x. split; congruence.
Qed.

Lemma list_eqb_val_length : forall R F, list_eqb same_val R F = true -> length R = length F.
Proof.
  induction R as [|r R IH]; intros [|f F] H; cbn in *; try discriminate; auto.
  apply andb_true_iff in H as [_ H]. f_equal. auto.
Qed.

Lemma list_eqb_val_texts : forall R F, list_eqb same_val R F = true ->
  forall fr, In fr (combine F R) -> stxt (fst fr) = stxt (snd fr).
Proof.
  induction R as [|r R IH]; intros [|f F] H fr Hin; cbn in *; try discriminate; try tauto.
  apply andb_true_iff in H as [H1 H2]. destruct Hin as [<-|Hin]; [|eapply IH; eauto].
  cbn. unfold same_val in H1. apply str_eqb_eq in H1. auto.
Qed.

Lemma combine_firstn_r {A B} : forall (l : list A) (l' : list B), combine l (firstn (length l) l') = combine l l'.
Proof. induction l as [|x l IH]; intros [|y l']; cbn; auto. now rewrite IH. Qed.

Lemma nodup_app_l (X Y : list nat) : NoDup (X ++ Y) -> NoDup X.
Proof.
  induction X as [|x X IH]; cbn; intros H; [constructor|]. inversion H as [|? ? Hn Hd]; subst.
  constructor; auto. intros Hx. apply Hn. apply in_or_app. now left.
Qed.

Lemma nodup_app_r (X Y : list nat) : NoDup (X ++ Y) -> NoDup Y.
Proof. induction X as [|x X IH]; cbn; intros H; auto. inversion H; auto. Qed.

Lemma in_ref_app x l1 l2 : in_ref x (l1 ++ l2) = in_ref x l1 || in_ref x l2.
Proof.
  induction l1 as [|s l1 IH]; [reflexivity|]. cbn [app]. rewrite !in_ref_cons, IH. apply orb_assoc.
Qed.

Lemma setting_eq (x y : setting) : sid x = sid y -> stxt x = stxt y -> x = y.
Proof. destruct x, y; cbn; congruence. Qed.

Lemma ids_app X Y : ids (X ++ Y) = ids X ++ ids Y.
Proof. unfold ids. apply map_app. Qed.

(* what is left at the seam after a's non-merged stop markers: exactly the merged ones, in order *)
Lemma seam_state S pm n :
  NoDup (ids S) -> strict_rems pm S = Some [] ->
  positions_sorted (firstn n pm) S = true ->
  (forall x y, In x S -> In y pm -> sid x = sid y -> x = y) ->
  rmall (skipn n pm) S = firstn n pm /\ NoDup (ids (firstn n pm)) /\ NoDup (ids pm).
Proof.
  intros NS Hst Hpos Hco. set (R := firstn n pm) in *. set (Q := skipn n pm).
  assert (Epm : pm = R ++ Q) by (symmetry; apply firstn_skipn).
  assert (Npm : NoDup (ids pm)) by (eapply strict_rems_nodup; eauto).
  assert (NRQ : NoDup (ids R ++ ids Q)) by (rewrite <- ids_app, <- Epm; exact Npm).
  assert (NR : NoDup (ids R)) by (eapply nodup_app_l; eauto).
  split; [|split; auto].
  pose proof (strict_rems_some _ _ _ Hst) as Hall. rewrite (rmall_filter pm S NS) in Hall.
  rewrite (rmall_filter Q S NS).
  assert (Hx : forall x, In x S -> negb (in_ref x Q) = in_ref x R).
  { intros x Hx. assert (Hin : in_ref x pm = true).
    { destruct (in_ref x pm) eqn:E; auto. exfalso.
      assert (In x (filter (fun x => negb (in_ref x pm)) S)) by (apply filter_In; split; auto; now rewrite E).
      rewrite <- Hall in H. destruct H. }
    rewrite Epm, in_ref_app in Hin. destruct (in_ref x R) eqn:ER; destruct (in_ref x Q) eqn:EQ; auto; try discriminate.
    exfalso. apply in_ref_spec in ER as (r & Hr & Er). apply in_ref_spec in EQ as (q & Hq & Eq).
    apply (nodup_app_disjoint (ids R) (ids Q) (sid x) NRQ).
    - rewrite <- Er. unfold ids. now apply in_map.
    - rewrite <- Eq. unfold ids. now apply in_map. }
  rewrite (filter_ext_in _ _ _ Hx).
  apply same_ids_eq.
  - apply seam_order; auto. intros r Hr. eapply strict_rems_in; eauto. rewrite Epm. apply in_or_app. now left.
  - intros x y Hx' Hy. apply Hco.
    + apply filter_In in Hx'. tauto.
    + rewrite Epm. apply in_or_app. now left.
Qed.

Lemma remove_ref_ids_keep i s S : In i (ids S) -> i <> sid s -> In i (ids (remove_ref s S)).
Proof.
  intros H Hne. unfold ids in *. apply in_map_iff in H as (y & <- & Hy). apply in_map.
  apply remove_ref_keep; auto.
Qed.

Lemma strict_rems_total l : forall S, NoDup (ids l) -> (forall s, In s l -> In (sid s) (ids S)) ->
  strict_rems l S = Some (rmall l S).
Proof.
  induction l as [|s l IH]; intros S Nl Hin; [reflexivity|]. cbn [strict_rems].
  inversion Nl as [|? ? Hn Hd]; subst.
  assert (E : in_ref s S = true).
  { apply in_ref_spec. specialize (Hin s (or_introl eq_refl)). unfold ids in Hin.
    apply in_map_iff in Hin as (y & Ey & Hy). eauto. }
  rewrite E. apply IH; auto. intros s' Hs'. apply remove_ref_ids_keep; [apply Hin; now right|].
  intros E2. apply Hn. unfold ids. apply in_map_iff. exists s'. split; auto.
Qed.

Lemma map_fst_combine {A B} : forall (l : list A) (l' : list B), length l = length l' -> map fst (combine l l') = l.
Proof. induction l as [|x l IH]; intros [|y l'] H; cbn in *; try discriminate; auto. f_equal. auto. Qed.

Lemma map_snd_combine {A B} : forall (l : list A) (l' : list B), length l = length l' -> map snd (combine l l') = l'.
Proof. induction l as [|x l IH]; intros [|y l'] H; cbn in *; try discriminate; auto. f_equal. auto. Qed.

Lemma prems_nodup : forall rest B, strict_ok_from rest B = true -> nd_from rest B ->
  forall kp, In kp rest -> NoDup (ids (prem (snd kp))).
Proof.
  induction rest as [|[k0 ip] rest IH]; intros B Hso Hnd kp Hin; [destruct Hin|].
  cbn [strict_ok_from] in Hso. destruct (strict_rems (prem ip) B) as [B1|] eqn:E1; [|discriminate].
  cbn [nd_from] in Hnd. destruct Hnd as [NB Hnd]. destruct Hin as [<-|Hin].
  - cbn [snd]. eapply strict_rems_nodup; eauto.
  - apply (IH (step B ip)); auto. rewrite step_rmall. now rewrite <- (strict_rems_some _ _ _ E1).
Qed.

Lemma ssorted_app_lt t1 : forall t2, ssorted (t1 ++ t2) -> forall x y, In x t1 -> In y t2 -> fst x < fst y.
Proof.
  induction t1 as [|[k p] t1 IH]; intros t2 H x y Hx Hy; [destruct Hx|].
  cbn [app] in H. inversion H as [|? ? ? Hk Hs]; subst. destruct Hx as [<-|Hx].
  - apply Hk. apply in_or_app. now right.
  - eapply IH; eauto.
Qed.

Lemma nd_from_of : forall t2 t1, ssorted (t1 ++ t2) -> nodup_active (t1 ++ t2) ->
  NoDup (ids (run [] t1)) -> nd_from t2 (run [] t1).
Proof.
  induction t2 as [|[k p] r IH]; intros t1 Hs Hn H1; cbn [nd_from]; [tauto|].
  split; [exact H1|].
  change (step (run [] t1) p) with (run (run [] t1) [(k, p)]). rewrite <- run_app.
  assert (Eapp : (t1 ++ [(k, p)]) ++ r = t1 ++ (k, p) :: r) by (rewrite <- app_assoc; reflexivity).
  apply IH; rewrite ?Eapp; auto.
  specialize (Hn k). rewrite (active_at_run _ k Hs) in Hn.
  replace (upto k (t1 ++ (k, p) :: r)) with (t1 ++ [(k, p)]) in Hn; auto.
  rewrite upto_app, upto_cons, Nat.leb_refl. symmetry. f_equal.
  - apply upto_all. intros x Hx. assert (fst x < k); [|lia].
    apply (ssorted_app_lt t1 _ Hs x (k, p)); auto. now left.
  - f_equal. apply upto_none. apply ssorted_app_inv in Hs as [_ Hs]. inversion Hs; subst. auto.
Qed.

Definition occurs (x : setting) (t : fmts) : Prop :=
  exists kp, In kp t /\ (In x (padd (snd kp)) \/ In x (prem (snd kp))).

(* identity determines text, as far as the seam of a is concerned (true of Python objects) *)
Definition coherent_seam (a : astr) : Prop :=
  forall pa x y, tget (length (base a)) (tbl a) = Some pa ->
    In x (seam_of a) -> In y (prem pa) -> sid x = sid y -> stxt x = stxt y.

(* an identity of b that is the identity of one of a's merged stop markers is the identity of the
   corresponding start marker of b (vacuous when a and b share no identity) *)
Definition seam_fresh (a b : astr) : Prop :=
  forall pa ip0, tget (length (base a)) (tbl a) = Some pa -> tget 0 (tbl b) = Some ip0 ->
    forall fr y, In fr (combine (padd ip0) (prem pa)) -> occurs y (tbl b) ->
      sid y = sid (snd fr) -> sid y = sid (fst fr).

(* ---------- checkable forms of the seam hypotheses ---------- *)
Definition all_marks (t : fmts) : list setting := flat_map (fun kp => padd (snd kp) ++ prem (snd kp)) t.

Lemma occurs_marks x t : occurs x t <-> In x (all_marks t).
Proof.
  unfold occurs, all_marks. rewrite in_flat_map. split; intros (kp & H1 & H2); exists kp; split; auto.
  - now apply in_or_app.
  - now apply in_app_or.
Qed.

Definition coherentb (t : fmts) : bool :=
  forallb (fun x => forallb (fun y => negb (Nat.eqb (sid x) (sid y)) || str_eqb (stxt x) (stxt y))
                            (all_marks t)) (all_marks t).
Definition disjointb (ta tb : fmts) : bool :=
  forallb (fun x => forallb (fun y => negb (Nat.eqb (sid x) (sid y))) (all_marks tb)) (all_marks ta).

Lemma step_in x act p : In x (step act p) -> In x act \/ In x (padd p).
Proof.
  rewrite step_rmall. intros H. apply in_app_or in H as [H|H]; auto. left. eapply rmall_subset; eauto.
Qed.

Lemma active_upto_occurs x : forall t k act, In x (active_upto t k act) -> In x act \/ occurs x t.
Proof.
  induction t as [|[k0 p] t IH]; intros k act H; [now left|]. cbn [active_upto] in H.
  destruct (k0 <=? k); [|now left]. apply IH in H as [H|(kp & H1 & H2)].
  - apply step_in in H as [H|H]; auto. right. exists (k0, p). split; [now left|now left].
  - right. exists kp. split; [now right|exact H2].
Qed.

Lemma coherent_seam_check a : ssorted (tbl a) -> coherentb (tbl a) = true -> coherent_seam a.
Proof.
  intros Sa H pa x y Hg Hx Hy E. unfold coherentb in H. rewrite forallb_forall in H.
  assert (Ox : In x (all_marks (tbl a))).
  { apply occurs_marks. unfold seam_of in Hx. destruct (length (base a)); [destruct Hx|].
    apply active_upto_occurs in Hx as [[]|Hx]. exact Hx. }
  assert (Oy : In y (all_marks (tbl a))).
  { apply occurs_marks. exists (length (base a), pa). split; [now apply tget_In|now right]. }
  specialize (H x Ox). rewrite forallb_forall in H. specialize (H y Oy).
  apply orb_true_iff in H as [H|H].
  - apply negb_true_iff, Nat.eqb_neq in H. congruence.
  - now apply str_eqb_eq.
Qed.

Lemma seam_fresh_disjointb a b : ssorted (tbl a) -> disjointb (tbl a) (tbl b) = true -> seam_fresh a b.
Proof.
  intros Sa H pa ip0 Ga Gb fr y Hin Oy E. exfalso. unfold disjointb in H. rewrite forallb_forall in H.
  assert (Or : In (snd fr) (all_marks (tbl a))).
  { apply occurs_marks. exists (length (base a), pa). split; [now apply tget_In|]. right. cbn [snd].
    destruct fr as [f r]. eapply in_combine_r; eauto. }
  specialize (H _ Or). rewrite forallb_forall in H. apply occurs_marks in Oy. specialize (H y Oy).
  apply negb_true_iff, Nat.eqb_neq in H. congruence.
Qed.

(* Prop-level sufficient conditions *)
Definition coherent (t : fmts) : Prop :=
  forall x y, occurs x t -> occurs y t -> sid x = sid y -> stxt x = stxt y.
Definition ids_disjoint (ta tb : fmts) : Prop :=
  forall x y, occurs x ta -> occurs y tb -> sid x <> sid y.

Lemma coherent_seam_of a : ssorted (tbl a) -> coherent (tbl a) -> coherent_seam a.
Proof.
  intros Sa H pa x y Hg Hx Hy E. apply H; auto.
  - unfold seam_of in Hx. destruct (length (base a)); [destruct Hx|].
    apply active_upto_occurs in Hx as [[]|Hx]. exact Hx.
  - exists (length (base a), pa). split; [now apply tget_In|now right].
Qed.

Lemma seam_fresh_disjoint a b : ssorted (tbl a) -> ids_disjoint (tbl a) (tbl b) -> seam_fresh a b.
Proof.
  intros Sa H pa ip0 Ga Gb fr y Hin Oy E. exfalso. apply (H (snd fr) y); auto.
  exists (length (base a), pa). split; [now apply tget_In|]. right. cbn [snd].
  destruct fr as [f r]. eapply in_combine_r; eauto.
Qed.

(* the repaired merge test implies the freshness the simulation needs *)
Lemma in_combine_swap {A B} : forall (l : list A) (l' : list B) x y,
  In (x, y) (combine l l') -> In (y, x) (combine l' l).
Proof.
  induction l as [|a l IH]; intros [|b l'] x y H; cbn in *; try tauto.
  destruct H as [H|H]; [left; congruence|right; auto].
Qed.

Lemma seam_fresh_check_spec pairs inc : seam_fresh_check pairs inc = true ->
  forall y m t, occurs y inc -> In (m, t) pairs -> sid y = sid m -> sid y = sid t.
Proof.
  unfold seam_fresh_check. intros H y m t (kp & Hin & Hy) Hp E.
  rewrite forallb_forall in H. specialize (H kp Hin). rewrite forallb_forall in H.
  specialize (H y (in_or_app _ _ _ Hy)). rewrite forallb_forall in H. specialize (H (m, t) Hp).
  cbn beta iota in H. unfold same_ref in H. apply orb_true_iff in H as [H|H].
  - apply negb_true_iff, Nat.eqb_neq in H. congruence.
  - now apply Nat.eqb_eq.
Qed.

Lemma merges_seam_fresh a b : merges a b = true -> seam_fresh a b.
Proof.
  unfold merges. intros Hm pa ip0 Ga Gb. rewrite Ga, Gb in Hm. unfold merge_cond in Hm.
  apply andb_true_iff in Hm as [_ Hf]. intros [f r] y Hin Oy E. cbn [fst snd] in *.
  apply (seam_fresh_check_spec _ _ Hf y r f Oy); auto. now apply in_combine_swap.
Qed.

Lemma coherent_check t : coherentb t = true -> coherent t.
Proof.
  intros H x y Ox Oy E. unfold coherentb in H. rewrite forallb_forall in H.
  apply occurs_marks in Ox, Oy. specialize (H x Ox). rewrite forallb_forall in H. specialize (H y Oy).
  apply orb_true_iff in H as [H|H].
  - apply negb_true_iff, Nat.eqb_neq in H. congruence.
  - now apply str_eqb_eq.
Qed.

Lemma seam_of_run a t0 pa :
  tbl a = t0 ++ [(length (base a), pa)] -> ssorted (tbl a) -> keys_lt t0 (length (base a)) ->
  seam_of a = run [] t0.
Proof.
  unfold seam_of. remember (length (base a)) as L eqn:EL. intros E Hs Hlt. destruct L as [|i].
  - destruct t0 as [|kp t0]; [reflexivity|]. specialize (Hlt kp (or_introl eq_refl)). lia.
  - rewrite (active_at_run _ i Hs), E, upto_app. rewrite upto_all, upto_none; [now rewrite app_nil_r| |].
    + intros kp [<-|[]]. cbn. lia.
    + intros kp Hin. specialize (Hlt kp Hin). lia.
Qed.

Lemma seam_nodup a : nodup_active (tbl a) -> NoDup (ids (seam_of a)).
Proof. intros H. unfold seam_of. destruct (length (base a)); [constructor|apply H]. Qed.

(* ---------- the merging case ---------- *)
Theorem iadd_merge a b : WF a -> WF b -> merges a b = true -> coherent_seam a ->
  let L := length (base a) in
  exists c, iadd a b = OK c /\ base c = base a ++ base b
    /\ (forall k, k < L -> active_at (tbl c) k = active_at (tbl a) k)
    /\ (forall k, map stxt (active_at (tbl c) (L + k)) = map stxt (active_at (tbl b) k))
    /\ WF c.
Proof.
  intros Wa Wb Hm Hco L. pose proof (merges_seam_fresh a b Hm) as Hfr.
  pose proof Wa as (Sa & Ka & Oa & Na & Fa). pose proof Wb as (Sb & Kb & Ob & Nb & Fb).
  unfold merges in Hm. fold L in Hm.
  destruct (WF_end a Wa) as [[Hlt Ga]|(t0 & pa & Ea & Hlt & Ga & Apa & Spa & Rpa)]; fold L in Hlt, Ga;
    rewrite Ga in Hm; [discriminate|]. fold L in Ea.
  destruct (sorted_begin (tbl b) Sb) as [[Hgt Gb]|(ip0 & rest & Eb & Hgt & Gb)]; rewrite Gb in Hm; [discriminate|].
  pose proof (iadd_seam a b t0 pa ip0 rest Ea Hlt Eb Sb) as Hi. cbv zeta in Hi. fold L in Hi. rewrite Hm in Hi.
  unfold merge_cond in Hm. apply andb_true_iff in Hm as [Hm Hfc]. apply andb_true_iff in Hm as [Hm Hpos].
  apply andb_true_iff in Hm as [Hne Heq].
  assert (Ep0 : prem ip0 = []) by (apply (strict_first ip0 rest); rewrite <- Eb; exact Ob).
  assert (ES : seam_of a = run [] t0) by (apply (seam_of_run a t0 pa); auto).
  assert (NS : NoDup (ids (run [] t0))) by (rewrite <- ES; apply seam_nodup; auto).
  destruct (seam_state (run [] t0) (prem pa) (length (padd ip0)) NS Spa) as (EC0 & NR & Npm).
  { rewrite <- ES. exact Hpos. }
  { intros x y Hx Hy E. apply setting_eq; auto. apply (Hco pa x y); auto. rewrite ES. exact Hx. }
  remember (padd ip0) as F eqn:EF0. remember (firstn (length F) (prem pa)) as R eqn:ER0.
  remember (skipn (length F) (prem pa)) as Q eqn:EQ0.
  assert (Hlen : length F = length R) by (symmetry; apply list_eqb_val_length; exact Heq).
  set (FR0 := combine F R).
  assert (EF : map fst FR0 = F) by (apply map_fst_combine; exact Hlen).
  assert (ER : map snd FR0 = R) by (apply map_snd_combine; exact Hlen).
  (* the replay of b after its first point *)
  assert (Hndb : nd_from (tbl b) []) by (apply (nd_from_of (tbl b) []); auto; constructor).
  rewrite Eb in Hndb. cbn [nd_from] in Hndb. destruct Hndb as [_ Hndb].
  assert (EB0 : step [] ip0 = F) by (rewrite step_rmall, Ep0, EF0; reflexivity).
  rewrite EB0 in Hndb.
  assert (Hsob : strict_ok_from rest F = true).
  { unfold strict_ok in Ob. rewrite Eb in Ob. cbn [strict_ok_from] in Ob. rewrite Ep0 in Ob.
    cbn [strict_rems app] in Ob. rewrite <- EF0 in Ob. exact Ob. }
  pose proof (tail_loop_spec L rest FR0 (prems_nodup rest F Hsob Hndb)) as Etl. rewrite EF, ER in Etl.
  rewrite Etl in Hi.
  set (Pb := fun y => occurs y (tbl b)).
  assert (HPr : marks_in Pb rest).
  { intros kp x Hin Hx. exists kp. split; [rewrite Eb; now right|exact Hx]. }
  assert (HI0 : Inv Pb FR0 F R).
  { unfold Inv. repeat split.
    - symmetry. apply map_ren_combine; auto. exact (nd_from_head _ _ Hndb).
    - intros [f r] Hin. cbn [fst]. eapply in_combine_l; eauto.
    - exact (nd_from_head _ _ Hndb).
    - rewrite ER. exact NR.
    - apply list_eqb_val_texts. exact Heq.
    - intros x Hx. exists (0, ip0). split; [rewrite Eb; now left|]. left. cbn [snd]. now rewrite <- EF0.
    - intros fr y Hin Py E. apply (Hfr pa ip0 Ga Gb fr y); auto.
      unfold FR0 in Hin. rewrite ER0, combine_firstn_r, EF0 in Hin. exact Hin. }
  set (mine' := mkP (padd pa) (Q ++ prem ip0)) in *.
  set (M := if point_is_empty mine' then [] else [(L, mine')]).
  assert (EM : (if point_is_empty mine' then t0 else t0 ++ [(L, mine')]) = t0 ++ M).
  { unfold M. destruct (point_is_empty mine'); [now rewrite app_nil_r|reflexivity]. }
  rewrite EM, <- app_assoc in Hi.
  set (R' := tail_spec rest L FR0) in *.
  exists (mkA (base a ++ base b) (t0 ++ M ++ R')). split; [exact Hi|]. split; [reflexivity|]. cbn [tbl base].
  assert (KM : M = [] \/ exists p, M = [(L, p)]) by (unfold M; destruct (point_is_empty mine'); eauto).
  assert (KMa : keys_eq [(L, pa)] L) by (intros kp [<-|[]]; reflexivity).
  assert (Hsr : ssorted rest) by (rewrite Eb in Sb; now inversion Sb).
  assert (SR : ssorted R') by (now apply tail_spec_sorted).
  assert (KR : keys_gt R' L).
  { intros kp Hin. apply tail_spec_keys in Hin as (kp0 & H0 & ->). specialize (Hgt kp0 H0). lia. }
  pose proof (glue_sorted (tbl a) t0 [(L, pa)] M R' L Ea Sa Hlt KM SR KR) as Sc.
  assert (Kc : keys_le (t0 ++ M ++ R') (L + length (base b))).
  { apply (glue_keys t0 M R' L Hlt KM); [lia|]. intros kp Hin.
    apply tail_spec_keys in Hin as (kp0 & H0 & ->).
    assert (fst kp0 <= length (base b)) by (apply Kb; rewrite Eb; now right). lia. }
  assert (Hl : forall k, k < L -> active_at (t0 ++ M ++ R') k = active_at (tbl a) k).
  { intros k Hk. apply (glue_left (tbl a) t0 [(L, pa)] M R' L Ea Sa Hlt KMa KM SR KR k Hk). }
  assert (EC : run (run [] t0) M = R).
  { unfold M. destruct (point_is_empty mine') eqn:Em.
    - unfold point_is_empty, mine' in Em. cbn [padd prem] in Em. rewrite Ep0, app_nil_r in Em.
      apply andb_true_iff in Em as [_ Em]. apply is_nil_true in Em. rewrite Em in EC0. exact EC0.
    - rewrite run_one, step_rmall. unfold mine'. cbn [padd prem]. rewrite Ep0, Apa, !app_nil_r. exact EC0. }
  assert (Hsim : forall k, exists FR', Inv Pb FR' (active_at (tbl b) k) (active_at (t0 ++ M ++ R') (L + k))).
  { intros k. rewrite (active_at_run _ _ Sc), (active_at_run _ k Sb).
    rewrite (glue_upto t0 M R' L Hlt KM), !run_app, EC.
    rewrite Eb, upto_cons. cbn [Nat.leb]. rewrite run_cons, EB0.
    apply (sim_run Pb L k rest Hsr FR0 F R HI0 Hsob Hndb HPr). }
  split; [exact Hl|]. split.
  - intros k. destruct (Hsim k) as (FR' & HI). apply (inv_texts _ _ _ _ HI).
  - apply WF_assemble; auto.
    + intros k. destruct (Hsim k) as (FR' & HI). apply (inv_nodup _ _ _ _ HI).
    + destruct (Hsim (length (base b))) as (FR' & HI).
      rewrite (active_beyond (tbl b) Sb _ Kb), Fb in HI. destruct HI as (E & _). exact E.
    + unfold strict_ok. rewrite !sok_app. apply andb_true_iff. split; [|apply andb_true_iff; split].
      * unfold strict_ok in Oa. rewrite Ea, sok_app in Oa. apply andb_true_iff in Oa. tauto.
      * unfold M. destruct (point_is_empty mine'); [reflexivity|]. cbn [strict_ok_from]. unfold mine'. cbn [prem].
        rewrite Ep0, app_nil_r. rewrite strict_rems_total; [reflexivity| |].
        -- rewrite <- (firstn_skipn (length F) (prem pa)), ids_app, <- EQ0 in Npm.
           eapply nodup_app_r; eauto.
        -- intros s Hs. eapply strict_rems_in; eauto.
           rewrite <- (firstn_skipn (length F) (prem pa)). apply in_or_app. right. now rewrite <- EQ0.
      * rewrite EC. apply (sim_strict Pb L rest FR0 F R HI0 Hsob Hndb HPr).
Qed.

(* the hypotheses of iadd_merge are satisfiable: independent operands ... *)
Example ex_merge_same :
  WF ex_a /\ WF ex_b_same /\ merges ex_a ex_b_same = true /\ coherent_seam ex_a /\ seam_fresh ex_a ex_b_same.
Proof.
  split; [exact ex_a_WF|]. split; [exact ex_b_same_WF|]. split; [reflexivity|]. split.
  - apply coherent_seam_check; [apply ssortedb_sound|]; reflexivity.
  - apply seam_fresh_disjointb; [apply ssortedb_sound|]; reflexivity.
Qed.
Example ex_merge_same_result :
  iadd ex_a ex_b_same
  = OK (mkA [97; 98; 99; 100; 101]%N
            [(0, mkP [S_ 1 10; S_ 2 20] []); (3, mkP [] [S_ 2 20]); (5, mkP [] [S_ 1 10])]).
Proof. reflexivity. Qed.
Example ex_merge_prefix :
  WF ex_a /\ WF ex_b_prefix /\ merges ex_a ex_b_prefix = true /\ coherent_seam ex_a /\ seam_fresh ex_a ex_b_prefix.
Proof.
  split; [exact ex_a_WF|]. split; [exact ex_b_prefix_WF|]. split; [reflexivity|]. split.
  - apply coherent_seam_check; [apply ssortedb_sound|]; reflexivity.
  - apply seam_fresh_disjointb; [apply ssortedb_sound|]; reflexivity.
Qed.
Example ex_merge_prefix_result :
  iadd ex_a ex_b_prefix
  = OK (mkA [97; 98; 99; 100; 101]%N
            [(0, mkP [S_ 1 10; S_ 2 20] []); (2, mkP [] [S_ 2 20]); (5, mkP [] [S_ 1 10])]).
Proof. reflexivity. Qed.

(* ... and the two halves of one string, which share their objects: the seam merge restores the source *)
Definition ex_src : astr := mkA [97; 98; 99; 100]%N [(0, mkP [S_ 1 10] []); (4, mkP [] [S_ 1 10])].
Definition ex_half1 : astr := slice_core ex_src 0 2.
Definition ex_half2 : astr := slice_core ex_src 2 4.
Example ex_merge_halves :
  WF ex_half1 /\ WF ex_half2 /\ merges ex_half1 ex_half2 = true
  /\ coherent_seam ex_half1 /\ seam_fresh ex_half1 ex_half2 /\ iadd ex_half1 ex_half2 = OK ex_src.
Proof.
  split; [apply wfb_sound; reflexivity|]. split; [apply wfb_sound; reflexivity|]. split; [reflexivity|].
  split; [|split; [|reflexivity]].
  - apply coherent_seam_check; [apply ssortedb_sound|]; reflexivity.
  - intros pa ip0 Ga Gb. vm_compute in Ga, Gb. inversion Ga; inversion Gb; subst.
    intros fr y [<-|[]] _ E. exact E.
Qed.

(* what holds in the merging case without any assumption on shared identities *)
Lemma iadd_merge_shape a b : WF a -> WF b -> merges a b = true ->
  let L := length (base a) in
  exists c, iadd a b = OK c /\ base c = base a ++ base b
    /\ (forall k, k < L -> active_at (tbl c) k = active_at (tbl a) k)
    /\ ssorted (tbl c) /\ keys_le (tbl c) (L + length (base b)).
Proof.
  intros Wa Wb Hm L.
  pose proof Wa as (Sa & Ka & Oa & Na & Fa). pose proof Wb as (Sb & Kb & Ob & Nb & Fb).
  unfold merges in Hm. fold L in Hm.
  destruct (WF_end a Wa) as [[Hlt Ga]|(t0 & pa & Ea & Hlt & Ga & Apa & Spa & Rpa)]; fold L in Hlt, Ga;
    rewrite Ga in Hm; [discriminate|]. fold L in Ea.
  destruct (sorted_begin (tbl b) Sb) as [[Hgt Gb]|(ip0 & rest & Eb & Hgt & Gb)]; rewrite Gb in Hm; [discriminate|].
  pose proof (iadd_seam a b t0 pa ip0 rest Ea Hlt Eb Sb) as Hi. cbv zeta in Hi. fold L in Hi. rewrite Hm in Hi.
  unfold merge_cond in Hm. apply andb_true_iff in Hm as [Hm Hfc]. apply andb_true_iff in Hm as [Hm Hpos].
  apply andb_true_iff in Hm as [Hne Heq].
  assert (Ep0 : prem ip0 = []) by (apply (strict_first ip0 rest); rewrite <- Eb; exact Ob).
  remember (padd ip0) as F eqn:EF0. remember (firstn (length F) (prem pa)) as R eqn:ER0.
  assert (Hlen : length F = length R) by (symmetry; apply list_eqb_val_length; exact Heq).
  set (FR0 := combine F R).
  assert (EF : map fst FR0 = F) by (apply map_fst_combine; exact Hlen).
  assert (ER : map snd FR0 = R) by (apply map_snd_combine; exact Hlen).
  assert (Hndb : nd_from (tbl b) []) by (apply (nd_from_of (tbl b) []); auto; constructor).
  rewrite Eb in Hndb. cbn [nd_from] in Hndb. destruct Hndb as [_ Hndb].
  assert (EB0 : step [] ip0 = F) by (rewrite step_rmall, Ep0, EF0; reflexivity).
  rewrite EB0 in Hndb.
  assert (Hsob : strict_ok_from rest F = true).
  { unfold strict_ok in Ob. rewrite Eb in Ob. cbn [strict_ok_from] in Ob. rewrite Ep0 in Ob.
    cbn [strict_rems app] in Ob. rewrite <- EF0 in Ob. exact Ob. }
  pose proof (tail_loop_spec L rest FR0 (prems_nodup rest F Hsob Hndb)) as Etl. rewrite EF, ER in Etl.
  rewrite Etl in Hi.
  set (mine' := mkP (padd pa) (skipn (length F) (prem pa) ++ prem ip0)) in *.
  set (M := if point_is_empty mine' then [] else [(L, mine')]).
  assert (EM : (if point_is_empty mine' then t0 else t0 ++ [(L, mine')]) = t0 ++ M).
  { unfold M. destruct (point_is_empty mine'); [now rewrite app_nil_r|reflexivity]. }
  rewrite EM, <- app_assoc in Hi.
  set (R' := tail_spec rest L FR0) in *.
  exists (mkA (base a ++ base b) (t0 ++ M ++ R')). split; [exact Hi|]. split; [reflexivity|]. cbn [tbl base].
  assert (KM : M = [] \/ exists p, M = [(L, p)]) by (unfold M; destruct (point_is_empty mine'); eauto).
  assert (KMa : keys_eq [(L, pa)] L) by (intros kp [<-|[]]; reflexivity).
  assert (Hsr : ssorted rest) by (rewrite Eb in Sb; now inversion Sb).
  assert (SR : ssorted R') by (now apply tail_spec_sorted).
  assert (KR : keys_gt R' L).
  { intros kp Hin. apply tail_spec_keys in Hin as (kp0 & H0 & ->). specialize (Hgt kp0 H0). lia. }
  split; [|split].
  - intros k Hk. apply (glue_left (tbl a) t0 [(L, pa)] M R' L Ea Sa Hlt KMa KM SR KR k Hk).
  - apply (glue_sorted (tbl a) t0 [(L, pa)] M R' L Ea Sa Hlt KM SR KR).
  - apply (glue_keys t0 M R' L Hlt KM); [lia|]. intros kp Hin.
    apply tail_spec_keys in Hin as (kp0 & H0 & ->).
    assert (fst kp0 <= length (base b)) by (apply Kb; rewrite Eb; now right). lia.
Qed.

(* ---------- every setting of the result comes from one of the operands ---------- *)
Lemma tget_In_any k : forall t p, tget k t = Some p -> In (k, p) t.
Proof.
  induction t as [|[k' p'] t IH]; intros p; cbn [tget]; [discriminate|].
  destruct (Nat.eqb_spec k k') as [->|_]; [intros H; inversion H; now left|].
  destruct (k <? k'); [discriminate|]. intros H. right. auto.
Qed.

Lemma in_tput k p : forall t kp, In kp (tput k p t) -> kp = (k, p) \/ In kp t.
Proof.
  induction t as [|[k' p'] t IH]; intros kp; cbn [tput].
  - intros [<-|[]]. now left.
  - destruct (Nat.eqb k k'); [intros [<-|H]; [now left|right; now right]|].
    destruct (k <? k'); [intros [<-|H]; [now left|now right]|].
    intros [<-|H]; [right; now left|]. apply IH in H as [H|H]; auto. right. now right.
Qed.

Lemma in_tdel k : forall t kp, In kp (tdel k t) -> In kp t.
Proof.
  induction t as [|[k' p'] t IH]; intros kp; cbn [tdel]; auto.
  destruct (Nat.eqb k k'); [intros H; now right|]. intros [<-|H]; [now left|right; auto].
Qed.

Lemma in_set_nth {A} (v : A) : forall l i x, In x (set_nth i v l) -> x = v \/ In x l.
Proof.
  induction l as [|y l IH]; intros [|i] x; cbn; try tauto.
  - intros [<-|H]; auto.
  - intros [<-|H]; auto. apply IH in H. tauto.
Qed.

Lemma in_remove_nth {A} : forall (l : list A) i x, In x (remove_nth i l) -> In x l.
Proof.
  induction l as [|y l IH]; intros [|i] x; cbn; try tauto.
  intros [<-|H]; auto. apply IH in H. tauto.
Qed.

Lemma retarget_in : forall pairs rems fnd repl rems' f' r',
  retarget pairs rems fnd repl = OK (rems', f', r') ->
  (forall x, In x rems' -> In x rems \/ In x repl) /\ (forall x, In x r' -> In x repl).
Proof.
  induction pairs as [|[fi ai] pairs IH]; intros rems fnd repl rems' f' r' H; cbn [retarget] in H.
  - inversion H; subst. split; auto.
  - destruct (nth_error repl fi) as [v|] eqn:En; [|discriminate].
    destruct ((fi <? length fnd) && (ai <? length rems)); [|discriminate].
    apply IH in H as [H1 H2]. apply nth_error_In in En. split.
    + intros x Hx. apply H1 in Hx as [Hx|Hx].
      * apply in_set_nth in Hx as [->|Hx]; auto.
      * right. eapply in_remove_nth; eauto.
    + intros x Hx. apply H2 in Hx. eapply in_remove_nth; eauto.
Qed.

Lemma iadd_loop_occurs L seam : forall inc t fnd repl t',
  iadd_loop inc L seam t fnd repl = OK t' ->
  forall x, occurs x t' -> occurs x t \/ occurs x inc \/ In x repl.
Proof.
  induction inc as [|[k0 ip] rest IH]; intros t fnd repl t' H x Ox; cbn [iadd_loop] in H.
  - inversion H; subst. now left.
  - assert (Oip : forall y, In y (padd ip) \/ In y (prem ip) -> occurs y ((k0, ip) :: rest)).
    { intros y Hy. exists (k0, ip). split; [now left|exact Hy]. }
    assert (Orest : forall y, occurs y rest -> occurs y ((k0, ip) :: rest)).
    { intros y (kp & H1 & H2). exists kp. split; [now right|exact H2]. }
    destruct (tget (k0 + L) t) as [mine|] eqn:G.
    + apply tget_In_any in G.
      assert (Omine : forall y, In y (padd mine) \/ In y (prem mine) -> occurs y t).
      { intros y Hy. exists (k0 + L, mine). split; auto. }
      destruct (_ && _ : bool) in H.
      * apply (IH _ _ _ _ H) in Ox as [(kp & H1 & H2)|[Ox|Ox]].
        -- assert (Hkp : kp = (k0 + L, mkP (padd mine) (skipn (length (padd ip)) (prem mine) ++ prem ip)) \/ In kp t).
           { destruct (point_is_empty _) in H1; [right; eapply in_tdel; eauto|now apply in_tput in H1]. }
           destruct Hkp as [->|Hkp]; [|left; exists kp; auto]. cbn [snd padd prem] in H2.
           destruct H2 as [H2|H2]; [left; apply Omine; now left|].
           apply in_app_or in H2 as [H2|H2]; [|right; left; apply Oip; now right].
           left. apply Omine. right. rewrite <- (firstn_skipn (length (padd ip)) (prem mine)). apply in_or_app. now right.
        -- right. left. auto.
        -- left. apply Omine. right. rewrite <- (firstn_skipn (length (padd ip)) (prem mine)). apply in_or_app. now left.
      * apply (IH _ _ _ _ H) in Ox as [(kp & H1 & H2)|[Ox|Ox]]; [|right; left; auto|right; right; exact Ox].
        apply in_tput in H1 as [->|H1]; [|left; exists kp; auto]. cbn [snd padd prem] in H2.
        destruct H2 as [H2|H2]; apply in_app_or in H2 as [H2|H2];
          try (left; apply Omine; tauto); right; left; apply Oip; tauto.
    + destruct (retarget _ _ _ _) as [[[rems f'] r']|e] eqn:Ert; [|discriminate].
      apply retarget_in in Ert as [R1 R2].
      apply (IH _ _ _ _ H) in Ox as [(kp & H1 & H2)|[Ox|Ox]]; [|right; left; auto|right; right; auto].
      apply in_tput in H1 as [->|H1]; [|left; exists kp; auto]. cbn [snd padd prem] in H2.
      destruct H2 as [H2|H2]; [right; left; apply Oip; now left|].
      apply R1 in H2 as [H2|H2]; [right; left; apply Oip; now right|right; right; exact H2].
Qed.

Theorem iadd_occurs a b c : iadd a b = OK c ->
  forall x, occurs x (tbl c) -> occurs x (tbl a) \/ occurs x (tbl b).
Proof.
  unfold iadd, bind. destruct (iadd_loop _ _ _ _ _ _) as [t|e] eqn:E; [|discriminate].
  intros H x Ox. inversion H; subst. cbn [tbl] in Ox.
  apply (iadd_loop_occurs _ _ _ _ _ _ _ E) in Ox as [Ox|[Ox|[]]]; auto.
Qed.

(* identity determines text across the two operands *)
Definition coherent_pair (a b : astr) : Prop :=
  forall x y, occurs x (tbl a) -> occurs y (tbl b) -> sid x = sid y -> stxt x = stxt y.

Theorem iadd_coherent a b c :
  coherent (tbl a) -> coherent (tbl b) -> coherent_pair a b -> iadd a b = OK c -> coherent (tbl c).
Proof.
  intros Ca Cb Cab E x y Ox Oy Es.
  apply (iadd_occurs a b c E) in Ox, Oy. destruct Ox as [Ox|Ox], Oy as [Oy|Oy]; auto.
  symmetry. apply Cab; auto.
Qed.

(* ---------- main theorems ---------- *)
Section Main.
Variables a b : astr.
Hypothesis Wa : WF a.
Hypothesis Wb : WF b.
Let L := length (base a).

(* 1. the IndexError branch is unreachable; text; left operand; sortedness and key bound *)
Theorem iadd_shape :
  exists c, iadd a b = OK c /\ base c = base a ++ base b
    /\ (forall k, k < L -> active_at (tbl c) k = active_at (tbl a) k)
    /\ ssorted (tbl c) /\ keys_le (tbl c) (L + length (base b)).
Proof.
  destruct (merges a b) eqn:Hm.
  - apply iadd_merge_shape; auto.
  - destruct (iadd_nomerge a b Wa Wb Hm) as (c & H1 & H2 & H3 & H4 & (H5 & H6 & _)).
    exists c. repeat split; auto. rewrite H2, app_length in H6. exact H6.
Qed.

Theorem iadd_ok : exists c, iadd a b = OK c.
Proof. destruct iadd_shape as (c & H & _). eauto. Qed.

Theorem iadd_base c : iadd a b = OK c -> base c = base a ++ base b.
Proof. destruct iadd_shape as (c' & H & H2 & _). intros E. rewrite H in E. inversion E; subst. exact H2. Qed.

(* 2. the characters of the left operand keep their settings, same objects *)
Theorem iadd_left c : iadd a b = OK c -> forall k, k < L -> active_at (tbl c) k = active_at (tbl a) k.
Proof. destruct iadd_shape as (c' & H & _ & H3 & _). intros E. rewrite H in E. inversion E; subst. exact H3. Qed.

(* 3. the characters of the right operand keep the texts of their settings, in order.  The only
   assumption beyond well-formedness is that an identity has one text at the seam of a (coherent_seam),
   which follows from coherence of a's table. *)
Theorem iadd_right_seam c : coherent_seam a -> iadd a b = OK c ->
  forall k, map stxt (active_at (tbl c) (L + k)) = map stxt (active_at (tbl b) k).
Proof.
  intros Hco E k. destruct (merges a b) eqn:Hm.
  - destruct (iadd_merge a b Wa Wb Hm Hco) as (c' & H1 & _ & _ & H4 & _).
    rewrite H1 in E. inversion E; subst. apply H4.
  - destruct (iadd_nomerge a b Wa Wb Hm) as (c' & H1 & _ & _ & H4 & _).
    rewrite H1 in E. inversion E; subst. fold L. now rewrite H4.
Qed.

Theorem iadd_right c : coherent (tbl a) -> iadd a b = OK c ->
  forall k, map stxt (active_at (tbl c) (L + k)) = map stxt (active_at (tbl b) k).
Proof. intros Hco. apply iadd_right_seam. apply coherent_seam_of; auto. apply Wa. Qed.

(* 3'. without a merge the objects themselves are preserved *)
Theorem iadd_right_ident c : merges a b = false -> iadd a b = OK c ->
  forall k, active_at (tbl c) (L + k) = active_at (tbl b) k.
Proof.
  intros Hm E k. destruct (iadd_nomerge a b Wa Wb Hm) as (c' & H1 & _ & _ & H4 & _).
  rewrite H1 in E. inversion E; subst. apply H4.
Qed.

(* 4. the result is well formed *)
Theorem iadd_WF_seam c : coherent_seam a -> iadd a b = OK c -> WF c.
Proof.
  intros Hco E. destruct (merges a b) eqn:Hm.
  - destruct (iadd_merge a b Wa Wb Hm Hco) as (c' & H1 & _ & _ & _ & H5).
    rewrite H1 in E. inversion E; subst. exact H5.
  - destruct (iadd_nomerge a b Wa Wb Hm) as (c' & H1 & _ & _ & _ & H5).
    rewrite H1 in E. inversion E; subst. exact H5.
Qed.

Theorem iadd_WF c : coherent (tbl a) -> iadd a b = OK c -> WF c.
Proof. intros Hco. apply iadd_WF_seam. apply coherent_seam_of; auto. apply Wa. Qed.
End Main.

(* ---------- 5. special cases ---------- *)
Lemma merges_no_end a b : tget (length (base a)) (tbl a) = None -> merges a b = false.
Proof. intros H. unfold merges. now rewrite H. Qed.

Lemma merges_no_begin a b : tget 0 (tbl b) = None -> merges a b = false.
Proof. intros H. unfold merges. rewrite H. destruct (tget _ (tbl a)); reflexivity. Qed.

Lemma merges_test_fails a b pa ip0 :
  tget (length (base a)) (tbl a) = Some pa -> tget 0 (tbl b) = Some ip0 ->
  merge_cond pa ip0 (seam_of a) (tbl b) = false -> merges a b = false.
Proof. intros H1 H2 H3. unfold merges. now rewrite H1, H2. Qed.

(* plain text on the right: see also iadd_plain *)
Lemma iadd_no_fmt a b : tbl b = [] -> iadd a b = OK (mkA (base a ++ base b) (tbl a)).
Proof. destruct b as [bb tb]. cbn. intros ->. apply (iadd_plain a bb). Qed.

Lemma merges_nil_left a b : WF a -> base a = [] -> merges a b = false.
Proof.
  intros Wa E. destruct (WF_end a Wa) as [[_ Ga]|(t0 & pa & Ea & Hlt & Ga & Apa & Spa & Rpa)].
  - now apply merges_no_end.
  - unfold merges. rewrite Ga. destruct (tget 0 (tbl b)) as [ip0|]; [|reflexivity].
    rewrite E in Hlt. cbn [length] in Hlt.
    assert (t0 = []) by (destruct t0 as [|kp t0]; auto; specialize (Hlt kp (or_introl eq_refl)); lia). subst t0.
    assert (Ep : prem pa = []).
    { destruct (prem pa) as [|s r]; auto. cbn in Spa. discriminate. }
    unfold merge_cond. rewrite Ep, firstn_nil. destruct (padd ip0); reflexivity.
Qed.

Theorem iadd_nil_left a b : WF a -> WF b -> base a = [] ->
  exists c, iadd a b = OK c /\ base c = base b
    /\ (forall k, active_at (tbl c) k = active_at (tbl b) k) /\ WF c.
Proof.
  intros Wa Wb E. destruct (iadd_nomerge a b Wa Wb (merges_nil_left a b Wa E)) as (c & H1 & H2 & _ & H4 & H5).
  exists c. rewrite E in H2, H4. cbn [length app Nat.add] in H2, H4. auto.
Qed.

(* ---------- 6. add and join ---------- *)
Lemma add_is_iadd a b : add a b = iadd a b.
Proof. reflexivity. Qed.

Definition iadd_res (r : res astr) (x : astr) : res astr := do acc <- r; iadd acc x.

Lemma fold_iadd_err l e : fold_left iadd_res l (Err e) = Err e.
Proof. induction l as [|x l IH]; [reflexivity|]. cbn. exact IH. Qed.

Lemma join_from_fold : forall l acc, join_from acc l = fold_left iadd_res l (OK acc).
Proof.
  induction l as [|x l IH]; intros acc; [reflexivity|]. cbn [join_from fold_left].
  unfold iadd_res at 2. cbn [bind]. destruct (iadd acc x) as [c|e]; cbn [bind]; [apply IH|].
  now rewrite fold_iadd_err.
Qed.

Theorem join_astr_fold x xs : join_astr (x :: xs) = fold_left iadd_res xs (OK x).
Proof. apply join_from_fold. Qed.

Lemma join_astr_nil : join_astr [] = OK (mkA [] []).
Proof. reflexivity. Qed.

Lemma join_astr_two a b : join_astr [a; b] = iadd a b.
Proof. cbn. destruct (iadd a b); reflexivity. Qed.

(* join of well-formed operands whose tables are coherent together *)
Definition tbls (l : list astr) : fmts := flat_map tbl l.

Lemma occurs_app x t1 t2 : occurs x (t1 ++ t2) <-> occurs x t1 \/ occurs x t2.
Proof.
  unfold occurs. split.
  - intros (kp & H1 & H2). apply in_app_or in H1 as [H1|H1]; [left|right]; eauto.
  - intros [(kp & H1 & H2)|(kp & H1 & H2)]; exists kp; split; auto; apply in_or_app; auto.
Qed.

Lemma coherent_sub t t' : (forall x, occurs x t' -> occurs x t) -> coherent t -> coherent t'.
Proof. intros H C x y Ox Oy. apply C; auto. Qed.

Theorem join_from_WF : forall xs acc, WF acc -> Forall WF xs -> coherent (tbl acc ++ tbls xs) ->
  exists c, join_from acc xs = OK c /\ WF c /\ base c = base acc ++ concat (map base xs) /\ coherent (tbl c).
Proof.
  induction xs as [|x xs IH]; intros acc Wacc Wxs Hco.
  - exists acc. cbn. rewrite app_nil_r. split; [reflexivity|]. split; [exact Wacc|]. split; [reflexivity|].
    apply (coherent_sub _ _ (fun y Oy => proj2 (occurs_app y _ _) (or_introl Oy)) Hco).
  - inversion Wxs as [|? ? Wx Wxs']; subst. cbn [join_from].
    destruct (iadd_ok acc x Wacc Wx) as (c1 & E1). rewrite E1. cbn [bind].
    assert (Cacc : coherent (tbl acc)).
    { apply (coherent_sub _ _ (fun y Oy => proj2 (occurs_app y _ _) (or_introl Oy)) Hco). }
    assert (W1 : WF c1) by (apply (iadd_WF acc x Wacc Wx c1 Cacc E1)).
    assert (C1 : coherent (tbl c1 ++ tbls xs)).
    { apply (coherent_sub (tbl acc ++ tbls (x :: xs))); auto. intros y Oy.
      apply occurs_app. cbn [tbls flat_map]. apply occurs_app in Oy as [Oy|Oy].
      - apply (iadd_occurs acc x c1 E1) in Oy as [Oy|Oy]; auto. right. apply occurs_app. now left.
      - right. apply occurs_app. now right. }
    destruct (IH c1 W1 Wxs' C1) as (c & E & Wc & Bc & Cc). exists c.
    split; [exact E|]. split; [exact Wc|]. split; [|exact Cc].
    rewrite Bc, (iadd_base acc x Wacc Wx c1 E1). cbn [map concat]. now rewrite app_assoc.
Qed.

Theorem join_WF x xs : Forall WF (x :: xs) -> coherent (tbls (x :: xs)) ->
  exists c, join_astr (x :: xs) = OK c /\ WF c /\ base c = concat (map base (x :: xs)) /\ coherent (tbl c).
Proof.
  intros W Hco. inversion W; subst. cbn [join_astr]. apply join_from_WF; auto.
Qed.

(* ---------- the repaired seam test (F26) ---------- *)
(* b holds, later on, the very object of a whose stop marker would be merged at the seam.  Before the
   repair the merge happened, that object then stood for b's first setting as well, a stop marker of b
   removed the wrong one of the two and the order of the settings of b's last character changed
   ([30;10] instead of [10;30]).  The repaired test skips the merge: plain concatenation. *)
Definition cex_a : astr := mkA [97; 98]%N [(0, mkP [S_ 1 10] []); (2, mkP [] [S_ 1 10])].
Definition cex_b : astr :=
  mkA [99; 100; 101; 102]%N
      [(0, mkP [S_ 7 10] []); (1, mkP [S_ 8 30] []); (2, mkP [S_ 1 10] []); (3, mkP [] [S_ 1 10]);
       (4, mkP [] [S_ 7 10; S_ 8 30])].
Definition cex_c : astr :=
  mkA [97; 98; 99; 100; 101; 102]%N
      [(0, mkP [S_ 1 10] []); (2, mkP [S_ 7 10] [S_ 1 10]); (3, mkP [S_ 8 30] []); (4, mkP [S_ 1 10] []);
       (5, mkP [] [S_ 1 10]); (6, mkP [] [S_ 7 10; S_ 8 30])].

Example ex_shared_identity_repaired :
  WF cex_a /\ WF cex_b /\ coherent (tbl cex_a) /\ merges cex_a cex_b = false
  /\ iadd cex_a cex_b = OK cex_c /\ WF cex_c
  /\ map (fun k => map stxt (active_at (tbl cex_c) (2 + k))) (seq 0 4)
     = map (fun k => map stxt (active_at (tbl cex_b) k)) (seq 0 4)
  /\ map stxt (active_at (tbl cex_c) (2 + 3)) = [[10%N]; [30%N]].
Proof.
  split; [apply wfb_sound; reflexivity|]. split; [apply wfb_sound; reflexivity|].
  split; [apply coherent_check; reflexivity|]. split; [reflexivity|]. split; [reflexivity|].
  split; [apply wfb_sound; reflexivity|]. split; reflexivity.
Qed.

(* the same fact for every position, from the theorems *)
Example ex_shared_identity_all c : iadd cex_a cex_b = OK c ->
  WF c /\ forall k, active_at (tbl c) (2 + k) = active_at (tbl cex_b) k.
Proof.
  destruct ex_shared_identity_repaired as (Wa & Wb & Ca & Hm & _). intros E. split.
  - exact (iadd_WF cex_a cex_b Wa Wb c Ca E).
  - exact (iadd_right_ident cex_a cex_b Wa Wb c Hm E).
Qed.

(* ---------- counterexample: why iadd_right and iadd_WF need coherence of a ---------- *)
(* the model can represent a stop marker whose text differs from the text of the start marker
   with the same identity (a Python object cannot).  The merge test reads the stop marker, the
   display reads the start marker (coherent_seam fails). *)
Definition cex2_a : astr := mkA [97; 98]%N [(0, mkP [S_ 1 10] []); (2, mkP [] [S_ 1 99])].
Definition cex2_b : astr := mkA [99]%N [(0, mkP [S_ 5 99] []); (1, mkP [] [S_ 5 99])].
Example cex_incoherent :
  WF cex2_a /\ WF cex2_b /\ merges cex2_a cex2_b = true
  /\ iadd cex2_a cex2_b = OK (mkA [97; 98; 99]%N [(0, mkP [S_ 1 10] []); (3, mkP [] [S_ 1 99])])
  /\ map stxt (active_at (tbl cex2_b) 0) = [[99%N]]
  /\ ~ coherent_seam cex2_a /\ ~ coherent (tbl cex2_a).
Proof.
  split; [apply wfb_sound; reflexivity|]. split; [apply wfb_sound; reflexivity|]. split; [reflexivity|].
  split; [reflexivity|]. split; [reflexivity|].
  assert (N : ~ coherent_seam cex2_a).
  { intros H. specialize (H (mkP [] [S_ 1 99]) (S_ 1 10) (S_ 1 99) eq_refl).
    assert (E : [10%N] = [99%N]); [|discriminate]. apply H; [now left|now left|reflexivity]. }
  split; [exact N|]. intros H. apply N. apply coherent_seam_of; auto. apply ssortedb_sound. reflexivity.
Qed.

(* the main theorems are not vacuous *)
Example ex_main_applies : exists c, iadd ex_a ex_b_same = OK c /\ WF c
  /\ (forall k, map stxt (active_at (tbl c) (2 + k)) = map stxt (active_at (tbl ex_b_same) k))
  /\ coherent (tbl c).
Proof.
  destruct ex_merge_same as (Wa & Wb & _ & Hco).
  assert (Ca : coherent (tbl ex_a)) by (apply coherent_check; reflexivity).
  destruct (iadd_ok ex_a ex_b_same Wa Wb) as (c & E). exists c. split; [exact E|]. split; [|split].
  - exact (iadd_WF ex_a ex_b_same Wa Wb c Ca E).
  - exact (iadd_right ex_a ex_b_same Wa Wb c Ca E).
  - apply (iadd_coherent ex_a ex_b_same c Ca); auto.
    + apply coherent_check; reflexivity.
    + intros x y Ox Oy. apply (coherent_check (tbl ex_a ++ tbl ex_b_same) eq_refl); apply occurs_app; auto.
Qed.

Example ex_join : Forall WF [ex_a; ex_b_same; ex_b_late] /\ coherent (tbls [ex_a; ex_b_same; ex_b_late]).
Proof.
  split; [|apply coherent_check; reflexivity].
  constructor; [exact ex_a_WF|]. constructor; [exact ex_b_same_WF|]. constructor; [exact ex_b_late_WF|constructor].
Qed.

Example ex_nil_left :
  WF (mkA [] [(0, mkP [] [])]) /\ WF ex_b_same /\ iadd (mkA [] [(0, mkP [] [])]) ex_b_same = OK ex_b_same.
Proof. split; [apply wfb_sound; reflexivity|]. split; [apply wfb_sound; reflexivity|reflexivity]. Qed.

Print Assumptions iadd_shape.
Print Assumptions iadd_ok.
Print Assumptions iadd_base.
Print Assumptions iadd_left.
Print Assumptions iadd_right.
Print Assumptions iadd_right_seam.
Print Assumptions iadd_right_ident.
Print Assumptions iadd_WF.
Print Assumptions iadd_WF_seam.
Print Assumptions iadd_occurs.
Print Assumptions iadd_coherent.
Print Assumptions iadd_nomerge.
Print Assumptions iadd_merge.
Print Assumptions iadd_nil_left.
Print Assumptions join_astr_fold.
Print Assumptions join_WF.
Print Assumptions wfb_sound.
Print Assumptions coherent_check.
Print Assumptions coherent_seam_of.
Print Assumptions merges_seam_fresh.
Print Assumptions ex_shared_identity_repaired.
Print Assumptions cex_incoherent.
