(* apply_formatting: what every character reports after apply_core / apply_fmt, and which table
   invariants are preserved. *)
From AS Require Import Base.
From AS.Model Require Import Table Ops.
From AS.Proofs Require Import TableProofs SliceProofs PadProofs.

Definition all_ids (t : fmts) : list nat := flat_map (fun kp => ids (padd (snd kp)) ++ ids (prem (snd kp))) t.
Definition fresh_for (new : list setting) (t : fmts) : Prop :=
  NoDup (ids new) /\ forall x, In x new -> ~ In (sid x) (all_ids t).
Definition nodup_active (t : fmts) : Prop := forall k, NoDup (ids (active_at t k)).

(* ---------- generic list facts ---------- *)
Lemma filter_filter_id {A} (f g : A -> bool) l :
  (forall x, In x l -> g x = true -> f x = true) -> filter f (filter g l) = filter g l.
Proof.
  induction l as [|a l IH]; intros H; cbn [filter]; auto.
  assert (H' : forall x, In x l -> g x = true -> f x = true) by (intros; apply H; auto; now right).
  destruct (g a) eqn:E; cbn [filter]; auto. rewrite (H a) by (auto; now left). now rewrite IH.
Qed.

Lemma filter_filter_nil {A} (f g : A -> bool) l :
  (forall x, In x l -> g x = true -> f x = false) -> filter f (filter g l) = [].
Proof.
  induction l as [|a l IH]; intros H; cbn [filter]; auto.
  assert (H' : forall x, In x l -> g x = true -> f x = false) by (intros; apply H; auto; now right).
  destruct (g a) eqn:E; cbn [filter]; auto. rewrite (H a) by (auto; now left). now rewrite IH.
Qed.

Lemma filter_all_false {A} (f : A -> bool) l : (forall x, In x l -> f x = false) -> filter f l = [].
Proof.
  induction l as [|a l IH]; intros H; cbn [filter]; auto.
  rewrite (H a) by now left. apply IH. intros; apply H; now right.
Qed.

Lemma nodup_app_intro {A} (a b : list A) :
  NoDup a -> NoDup b -> (forall x, In x a -> ~ In x b) -> NoDup (a ++ b).
Proof.
  induction 1 as [|x a Hx Ha IH]; intros Hb Hd; cbn [app]; auto.
  constructor.
  - intros Hin. apply in_app_or in Hin as [Hin|Hin]; auto. apply (Hd x); auto. now left.
  - apply IH; auto. intros y Hy. apply Hd. now right.
Qed.

Lemma nodup_app_l {A} (a b : list A) : NoDup (a ++ b) -> NoDup a.
Proof.
  induction a as [|x a IH]; cbn [app]; intros H; [constructor|].
  inversion H; subst. constructor; auto. intros Hin. apply H2. apply in_or_app. now left.
Qed.

Lemma nodup_app_r {A} (a b : list A) : NoDup (a ++ b) -> NoDup b.
Proof. induction a as [|x a IH]; cbn [app]; intros H; auto. inversion H; auto. Qed.

Lemma nodup_app_disj {A} (a b : list A) x : NoDup (a ++ b) -> In x a -> ~ In x b.
Proof.
  induction a as [|y a IH]; cbn [app]; intros H Hin; [destruct Hin|].
  inversion H; subst. destruct Hin as [<-|Hin]; auto.
  intros Hb. apply H2. apply in_or_app. now right.
Qed.

(* ---------- dictionary operations ---------- *)
Definition tlt (k : nat) (t : fmts) : fmts := filter (fun kp => fst kp <? k) t.
Definition tgt (k : nat) (t : fmts) : fmts := filter (fun kp => k <? fst kp) t.

Lemma In_tput kp k p t : In kp (tput k p t) -> kp = (k, p) \/ In kp t.
Proof.
  induction t as [|[k' p'] t IH]; cbn [tput].
  - intros [<-|[]]. now left.
  - destruct (Nat.eqb k k') eqn:E.
    + intros [<-|H]; [now left|right; now right].
    + destruct (k <? k').
      * intros [<-|H]; [now left|now right].
      * intros [<-|H]; [right; now left|]. destruct (IH H); [now left|right; now right].
Qed.

Lemma ssorted_tput k p t : ssorted t -> ssorted (tput k p t).
Proof.
  induction 1 as [|k' p' t Hk Hs IH]; cbn [tput].
  - constructor; [intros kp []|constructor].
  - destruct (Nat.eqb k k') eqn:E.
    + apply Nat.eqb_eq in E. subst. constructor; auto.
    + apply Nat.eqb_neq in E. destruct (k <? k') eqn:E2.
      * apply Nat.ltb_lt in E2. constructor; [|constructor; auto].
        intros kp [<-|Hin]; cbn [fst]; auto. specialize (Hk kp Hin). lia.
      * apply Nat.ltb_ge in E2. constructor; auto.
        intros kp Hin. apply In_tput in Hin as [->|Hin]; cbn [fst]; auto. lia.
Qed.

Lemma tput_tput k p e t : tput k p (tput k e t) = tput k p t.
Proof.
  induction t as [|[k' p'] t IH]; cbn [tput].
  - now rewrite Nat.eqb_refl.
  - destruct (Nat.eqb k k') eqn:E; cbn [tput].
    + now rewrite Nat.eqb_refl.
    + destruct (k <? k') eqn:E2; cbn [tput].
      * now rewrite Nat.eqb_refl.
      * now rewrite E, E2, IH.
Qed.

Lemma tget_tput_same k p t : tget k (tput k p t) = Some p.
Proof.
  induction t as [|[k' p'] t IH]; cbn [tput tget].
  - now rewrite Nat.eqb_refl.
  - destruct (Nat.eqb k k') eqn:E; cbn [tget].
    + now rewrite Nat.eqb_refl.
    + destruct (k <? k') eqn:E2; cbn [tget].
      * now rewrite Nat.eqb_refl.
      * now rewrite E, E2.
Qed.

Lemma tget_tput_other j k p t : j <> k -> tget j (tput k p t) = tget j t.
Proof.
  intros Hne. induction t as [|[k' p'] t IH]; cbn [tput tget].
  - replace (Nat.eqb j k) with false by (symmetry; apply Nat.eqb_neq; lia). destruct (j <? k); reflexivity.
  - destruct (Nat.eqb k k') eqn:E; cbn [tget].
    + apply Nat.eqb_eq in E. subst.
      replace (Nat.eqb j k') with false by (symmetry; apply Nat.eqb_neq; lia). reflexivity.
    + apply Nat.eqb_neq in E. destruct (k <? k') eqn:E2; cbn [tget].
      * apply Nat.ltb_lt in E2.
        replace (Nat.eqb j k) with false by (symmetry; apply Nat.eqb_neq; lia).
        destruct (j <? k) eqn:E3; auto. apply Nat.ltb_lt in E3.
        replace (Nat.eqb j k') with false by (symmetry; apply Nat.eqb_neq; lia).
        replace (j <? k') with true by (symmetry; apply Nat.ltb_lt; lia). reflexivity.
      * rewrite IH. reflexivity.
Qed.

Lemma tput_same k p t : tget k t = Some p -> tput k p t = t.
Proof.
  induction t as [|[k' p'] t IH]; cbn [tput tget]; [discriminate|].
  destruct (Nat.eqb k k') eqn:E.
  - apply Nat.eqb_eq in E. subst. intros H. inversion H. reflexivity.
  - destruct (k <? k'); [discriminate|]. intros H. now rewrite IH.
Qed.

(* the table with an explicit (possibly empty) point at k *)
Definition norm (k : nat) (t : fmts) : fmts := tput k (tget_or_empty k t) t.

Lemma tensure_norm k t : tensure k t = norm k t.
Proof.
  unfold tensure, norm, tmem, tget_or_empty. destruct (tget k t) eqn:E; auto. symmetry. now apply tput_same.
Qed.

Lemma tget_norm_same k t : tget k (norm k t) = Some (tget_or_empty k t).
Proof. apply tget_tput_same. Qed.

Lemma tgoe_norm j k t : tget_or_empty j (norm k t) = tget_or_empty j t.
Proof.
  unfold tget_or_empty at 1. destruct (Nat.eq_dec j k) as [->|Hne].
  - now rewrite tget_norm_same.
  - unfold norm. rewrite tget_tput_other by exact Hne. reflexivity.
Qed.

Lemma tgoe_tput_same k p t : tget_or_empty k (tput k p t) = p.
Proof. unfold tget_or_empty. now rewrite tget_tput_same. Qed.

Lemma tgoe_tput_other j k p t : j <> k -> tget_or_empty j (tput k p t) = tget_or_empty j t.
Proof. intros H. unfold tget_or_empty. now rewrite tget_tput_other. Qed.

Lemma step_empty a : step a empty_point = a.
Proof. unfold step, empty_point. cbn [prem padd fold_left]. apply app_nil_r. Qed.

Lemma run_cons a kp t : run a (kp :: t) = run (step a (snd kp)) t.
Proof. reflexivity. Qed.

(* an empty point does not change any replay *)
Lemma run_filter_tput_empty f k t : tget k t = None ->
  forall a, run a (filter f (tput k empty_point t)) = run a (filter f t).
Proof.
  induction t as [|[k' p'] t IH]; cbn [tput tget]; intros H a.
  - cbn [filter]. destruct (f (k, empty_point)); auto. rewrite run_cons. cbn [snd]. now rewrite step_empty.
  - destruct (Nat.eqb k k') eqn:E; [discriminate|]. destruct (k <? k') eqn:E2.
    + cbn [filter]. destruct (f (k, empty_point)); auto. rewrite run_cons. cbn [snd]. now rewrite step_empty.
    + cbn [filter]. destruct (f (k', p')); auto. rewrite !run_cons. apply IH. exact H.
Qed.

Lemma run_filter_norm f k t a : run a (filter f (norm k t)) = run a (filter f t).
Proof.
  unfold norm, tget_or_empty. destruct (tget k t) eqn:E.
  - now rewrite tput_same.
  - now apply run_filter_tput_empty.
Qed.

Lemma filter_true {A} (l : list A) : filter (fun _ => true) l = l.
Proof. induction l; cbn [filter]; congruence. Qed.

Lemma run_norm k t a : run a (norm k t) = run a t.
Proof.
  pose proof (run_filter_norm (fun _ => true) k t a) as H. now rewrite !filter_true in H.
Qed.

Lemma ssorted_norm k t : ssorted t -> ssorted (norm k t).
Proof. apply ssorted_tput. Qed.

Lemma active_at_norm k t i : ssorted t -> active_at (norm k t) i = active_at t i.
Proof.
  intros Hs. rewrite (active_at_run (norm k t)) by now apply ssorted_norm.
  rewrite (active_at_run t i Hs). apply run_filter_norm.
Qed.

(* decomposition of tput on a sorted table *)
Lemma lt_all_gt k t : (forall kp, In kp t -> k < fst kp) -> tlt k t = [].
Proof.
  intros H. unfold tlt. apply filter_all_false. intros kp Hin. specialize (H kp Hin). apply Nat.ltb_ge. lia.
Qed.

Lemma gt_all_gt k t : (forall kp, In kp t -> k < fst kp) -> tgt k t = t.
Proof.
  intros H. unfold tgt. apply filter_all_true. intros kp Hin. specialize (H kp Hin). now apply Nat.ltb_lt.
Qed.

Lemma tput_decomp k p t : ssorted t -> tput k p t = tlt k t ++ (k, p) :: tgt k t.
Proof.
  induction 1 as [|k' p' t Hk Hs IH]; cbn [tput]; [reflexivity|].
  unfold tlt, tgt. cbn [filter fst]. fold (tlt k t) (tgt k t).
  destruct (Nat.eqb k k') eqn:E.
  - apply Nat.eqb_eq in E. subst k'. rewrite Nat.ltb_irrefl.
    rewrite (lt_all_gt k t Hk), (gt_all_gt k t Hk). reflexivity.
  - apply Nat.eqb_neq in E. destruct (k <? k') eqn:E2.
    + apply Nat.ltb_lt in E2. replace (k' <? k) with false by (symmetry; apply Nat.ltb_ge; lia).
      assert (Hk2 : forall kp, In kp t -> k < fst kp) by (intros kp Hin; specialize (Hk kp Hin); lia).
      rewrite (lt_all_gt k t Hk2), (gt_all_gt k t Hk2). reflexivity.
    + apply Nat.ltb_ge in E2. replace (k' <? k) with true by (symmetry; apply Nat.ltb_lt; lia).
      rewrite IH. reflexivity.
Qed.

(* the table after both rewrites *)
Definition shape (t : fmts) (a b : nat) (P Q : point) : fmts :=
  tlt a t ++ (a, P) :: between a b t ++ (b, Q) :: tgt b t.

Lemma tput_tput_shape t a b P Q : ssorted t -> a < b ->
  tput b Q (tput a P t) = shape t a b P Q.
Proof.
  intros Hs Hab. rewrite (tput_decomp b Q (tput a P t)) by now apply ssorted_tput.
  rewrite (tput_decomp a P t Hs). unfold shape, tlt, tgt, between.
  rewrite !filter_app. cbn [filter fst].
  replace (a <? b) with true by (symmetry; apply Nat.ltb_lt; lia).
  replace (b <? a) with false by (symmetry; apply Nat.ltb_ge; lia).
  assert (E1 : filter (fun kp : nat * point => fst kp <? b) (filter (fun kp => fst kp <? a) t)
               = filter (fun kp => fst kp <? a) t).
  { apply filter_filter_id. intros kp _ H. apply Nat.ltb_lt in H. apply Nat.ltb_lt. lia. }
  assert (E2 : filter (fun kp : nat * point => fst kp <? b) (filter (fun kp => a <? fst kp) t)
               = filter (fun kp => (a <? fst kp) && (fst kp <? b)) t).
  { rewrite filter_filter. apply filter_ext. intros kp. apply andb_comm. }
  assert (E3 : filter (fun kp : nat * point => b <? fst kp) (filter (fun kp => fst kp <? a) t) = []).
  { apply filter_filter_nil. intros kp _ H. apply Nat.ltb_lt in H. apply Nat.ltb_ge. lia. }
  assert (E4 : filter (fun kp : nat * point => b <? fst kp) (filter (fun kp => a <? fst kp) t)
               = filter (fun kp => b <? fst kp) t).
  { rewrite filter_filter. apply filter_ext. intros kp.
    apply Bool.eq_iff_eq_true. rewrite andb_true_iff, !Nat.ltb_lt. lia. }
  rewrite E1, E2, E3, E4. rewrite <- app_assoc. reflexivity.
Qed.

(* ---------- the table produced by apply_core ---------- *)
Definition start_point (t : fmts) (new : list setting) (start : nat) (top : bool) : point :=
  let p := tget_or_empty start t in
  if top then mkP (padd p ++ new) (prem p)
  else
    let p1 := mkP (new ++ padd p) (prem p) in
    let carried := filter (fun x => negb (in_ref x (padd p1))) (active_at (tput start p1 t) start) in
    if is_nil carried then p1 else mkP (insert_at (length new) carried (padd p1)) (prem p1 ++ carried).

Definition end_point (t : fmts) (new : list setting) (en : nat) (top : bool) : point :=
  let q := tget_or_empty en t in
  if top then mkP (padd q) (prem q ++ new) else mkP (padd q) (new ++ prem q).

Lemma apply_core_tbl s new start en top : ssorted (tbl s) -> start < en ->
  tbl (apply_core s new start en top)
  = shape (tbl s) start en (start_point (tbl s) new start top) (end_point (tbl s) new en top).
Proof.
  intros Hs Hlt. unfold apply_core, start_point, end_point. cbv zeta. cbn [tbl]. set (t := tbl s) in *.
  rewrite !tensure_norm. rewrite !tgoe_norm.
  assert (E1 : forall P, tput start P (norm start t) = tput start P t) by (intros; unfold norm; apply tput_tput).
  rewrite !E1.
  assert (E3 : forall P Q, tput en Q (norm en (tput start P t)) = shape t start en P Q).
  { intros P Q. unfold norm. rewrite tput_tput. now apply tput_tput_shape. }
  assert (E4 : forall P, tget_or_empty en (tput start P t) = tget_or_empty en t).
  { intros P. apply tgoe_tput_other. lia. }
  destruct top.
  - rewrite E3, E4. reflexivity.
  - destruct (is_nil _).
    + rewrite E3, E4. reflexivity.
    + rewrite tput_tput. rewrite E3, E4. reflexivity.
Qed.

Lemma norm_norm_shape t a b : ssorted t -> a < b ->
  norm b (norm a t) = shape t a b (tget_or_empty a t) (tget_or_empty b t).
Proof.
  intros Hs Hab. unfold norm at 1. rewrite tgoe_norm. unfold norm. now apply tput_tput_shape.
Qed.

Lemma upto_lt_low i a t : i < a -> upto i (tlt a t) = upto i t.
Proof.
  intros H. unfold upto, tlt. rewrite filter_filter. apply filter_ext. intros kp.
  apply Bool.eq_iff_eq_true. rewrite andb_true_iff, Nat.leb_le, Nat.ltb_lt. lia.
Qed.

Lemma upto_lt_all i a t : a <= i -> upto i (tlt a t) = tlt a t.
Proof.
  intros H. unfold upto, tlt. apply filter_filter_id. intros kp _ E. apply Nat.ltb_lt in E. apply Nat.leb_le. lia.
Qed.

Lemma upto_between_nil i a b t : i <= a -> upto i (between a b t) = [].
Proof.
  intros H. unfold upto, between. apply filter_filter_nil. intros kp _ E.
  apply andb_true_iff in E as [E _]. apply Nat.ltb_lt in E. apply Nat.leb_gt. lia.
Qed.

Lemma upto_between_all i a b t : b <= i -> upto i (between a b t) = between a b t.
Proof.
  intros H. unfold upto, between. apply filter_filter_id. intros kp _ E.
  apply andb_true_iff in E as [_ E]. apply Nat.ltb_lt in E. apply Nat.leb_le. lia.
Qed.

Lemma upto_gt_nil i b t : i <= b -> upto i (tgt b t) = [].
Proof.
  intros H. unfold upto, tgt. apply filter_filter_nil. intros kp _ E. apply Nat.ltb_lt in E. apply Nat.leb_gt. lia.
Qed.

Lemma upto_cons_in i k p t : k <= i -> upto i ((k, p) :: t) = (k, p) :: upto i t.
Proof. intros H. unfold upto. cbn [filter fst]. replace (k <=? i) with true by (symmetry; apply Nat.leb_le; lia). reflexivity. Qed.

Lemma upto_cons_out i k p t : i < k -> upto i ((k, p) :: t) = upto i t.
Proof. intros H. unfold upto. cbn [filter fst]. replace (k <=? i) with false by (symmetry; apply Nat.leb_gt; lia). reflexivity. Qed.

Lemma upto_app i t1 t2 : upto i (t1 ++ t2) = upto i t1 ++ upto i t2.
Proof. apply filter_app. Qed.

Lemma upto_shape_lo t a b P Q i : a < b -> i < a -> upto i (shape t a b P Q) = upto i t.
Proof.
  intros Hab Hi. unfold shape. rewrite upto_app, upto_cons_out, upto_app, upto_cons_out by lia.
  rewrite upto_lt_low, upto_between_nil, upto_gt_nil by lia. now rewrite app_nil_r.
Qed.

Lemma upto_shape_mid t a b P Q i : a <= i < b ->
  upto i (shape t a b P Q) = tlt a t ++ (a, P) :: upto i (between a b t).
Proof.
  intros Hi. unfold shape. rewrite upto_app, upto_cons_in, upto_app, upto_cons_out by lia.
  rewrite upto_lt_all, upto_gt_nil by lia. now rewrite app_nil_r.
Qed.

Lemma upto_shape_hi t a b P Q i : a < b -> b <= i ->
  upto i (shape t a b P Q) = tlt a t ++ (a, P) :: between a b t ++ (b, Q) :: upto i (tgt b t).
Proof.
  intros Hab Hi. unfold shape. rewrite upto_app, upto_cons_in, upto_app, upto_cons_in by lia.
  rewrite upto_lt_all, upto_between_all by lia. reflexivity.
Qed.

Lemma upto_tput_at k P t : ssorted t -> upto k (tput k P t) = tlt k t ++ [(k, P)].
Proof.
  intros Hs. rewrite tput_decomp by exact Hs. rewrite upto_app, upto_cons_in, upto_lt_all, upto_gt_nil by lia.
  reflexivity.
Qed.

(* ---------- removal by reference and insertion of a block of foreign settings ---------- *)
Definition rm (l a : list setting) : list setting := fold_left (fun a s => remove_ref s a) l a.

Lemma step_rm a p : step a p = rm (prem p) a ++ padd p.
Proof. reflexivity. Qed.

Lemma rm_cons x l a : rm (x :: l) a = rm l (remove_ref x a).
Proof. reflexivity. Qed.

Lemma rm_app l1 l2 a : rm (l1 ++ l2) a = rm l2 (rm l1 a).
Proof. unfold rm. apply fold_left_app. Qed.

Lemma rm_subset l : forall a x, In x (rm l a) -> In x a.
Proof.
  induction l as [|y l IH]; intros a x H; auto. rewrite rm_cons in H. apply IH in H.
  eapply remove_ref_subset; eauto.
Qed.

Lemma in_ref_cons x y l : in_ref x (y :: l) = same_ref x y || in_ref x l.
Proof. unfold in_ref. cbn [find_ref]. destruct (same_ref x y); auto. destruct (find_ref x l); reflexivity. Qed.

Lemma in_ref_nil x : in_ref x [] = false.
Proof. reflexivity. Qed.

Lemma in_ref_app x l1 l2 : in_ref x (l1 ++ l2) = in_ref x l1 || in_ref x l2.
Proof.
  induction l1 as [|y l1 IH]; cbn [app]; auto. rewrite !in_ref_cons, IH. now rewrite orb_assoc.
Qed.

Lemma in_ref_self x l : In x l -> in_ref x l = true.
Proof. intros H. apply in_ref_spec. exists x. auto. Qed.

Lemma remove_ref_app_in x l1 l2 : in_ref x l1 = true -> remove_ref x (l1 ++ l2) = remove_ref x l1 ++ l2.
Proof.
  induction l1 as [|y l1 IH]; [discriminate|]. rewrite in_ref_cons. cbn [app remove_ref].
  destruct (same_ref x y); cbn [orb]; auto. intros H. now rewrite IH.
Qed.

Lemma remove_ref_app_notin x l1 l2 : in_ref x l1 = false -> remove_ref x (l1 ++ l2) = l1 ++ remove_ref x l2.
Proof.
  induction l1 as [|y l1 IH]; auto. rewrite in_ref_cons. cbn [app remove_ref].
  destruct (same_ref x y); cbn [orb]; [discriminate|]. intros H. now rewrite IH.
Qed.

(* removing a block from the place where it sits *)
Lemma rm_block n : forall l1 l2, (forall x, In x n -> in_ref x l1 = false) -> rm n (l1 ++ n ++ l2) = l1 ++ l2.
Proof.
  induction n as [|x n IH]; intros l1 l2 H; auto.
  rewrite rm_cons, remove_ref_app_notin by (apply H; now left).
  cbn [app]. rewrite remove_ref_head. apply IH. intros y Hy. apply H. now right.
Qed.

Lemma rm_self l : rm l l = [].
Proof. pose proof (rm_block l [] [] (fun x _ => eq_refl)) as H. cbn [app] in H. now rewrite app_nil_r in H. Qed.

Lemma insert_at_app {A} (n c rest : list A) : insert_at (length n) c (n ++ rest) = n ++ c ++ rest.
Proof. induction n as [|x n IH]; cbn [length app insert_at]; [destruct rest; reflexivity|]. now rewrite IH. Qed.

Lemma run_In M : forall a x, In x (run a M) -> In x a \/ exists kp, In kp M /\ In x (padd (snd kp)).
Proof.
  induction M as [|kp M IH]; intros a x H; [now left|].
  rewrite run_cons in H. apply IH in H as [H|(kp' & Hin & Hx)].
  - rewrite step_rm in H. apply in_app_or in H as [H|H].
    + left. eapply rm_subset; eauto.
    + right. exists kp. split; auto. now left.
  - right. exists kp'. split; auto. now right.
Qed.

Lemma all_ids_add t kp x : In kp t -> In x (padd (snd kp)) -> In (sid x) (all_ids t).
Proof.
  intros Hin Hx. unfold all_ids. apply in_flat_map. exists kp. split; auto.
  apply in_or_app. left. unfold ids. now apply in_map.
Qed.

Lemma all_ids_rem t kp x : In kp t -> In x (prem (snd kp)) -> In (sid x) (all_ids t).
Proof.
  intros Hin Hx. unfold all_ids. apply in_flat_map. exists kp. split; auto.
  apply in_or_app. right. unfold ids. now apply in_map.
Qed.

Lemma run_ids t M x : (forall kp, In kp M -> In kp t) -> In x (run [] M) -> In (sid x) (all_ids t).
Proof.
  intros Hsub H. apply run_In in H as [[]|(kp & Hin & Hx)]. eapply all_ids_add; eauto.
Qed.

Lemma active_ids t k x : ssorted t -> In x (active_at t k) -> In (sid x) (all_ids t).
Proof.
  intros Hs H. rewrite (active_at_run t k Hs) in H. apply (run_ids t (upto k t) x); [|exact H].
  intros kp Hin. unfold upto in Hin. now apply filter_In in Hin as [Hin _].
Qed.

Section Insert.
Variable new : list setting.

(* a point none of whose stop markers refers to one of the new settings *)
Definition nm (pt : point) : Prop := forall x, In x (prem pt) -> in_ref x new = false.

Lemma rm_insert rems : (forall x, In x rems -> in_ref x new = false) -> forall l1 l2,
  exists l1' l2', rm rems (l1 ++ l2) = l1' ++ l2' /\ rm rems (l1 ++ new ++ l2) = l1' ++ new ++ l2'
    /\ incl l1' l1 /\ (l2 = [] -> l2' = []).
Proof.
  induction rems as [|x rems IH]; intros H l1 l2.
  - exists l1, l2. repeat split; auto. apply incl_refl.
  - assert (Hx : in_ref x new = false) by (apply H; now left).
    assert (H' : forall y, In y rems -> in_ref y new = false) by (intros; apply H; now right).
    rewrite !rm_cons. destruct (in_ref x l1) eqn:E.
    + rewrite !remove_ref_app_in by exact E.
      destruct (IH H' (remove_ref x l1) l2) as (l1' & l2' & E1 & E2 & Hi & Hn).
      exists l1', l2'. repeat split; auto. intros y Hy. eapply remove_ref_subset. apply Hi. exact Hy.
    + rewrite !remove_ref_app_notin by assumption.
      destruct (IH H' l1 (remove_ref x l2)) as (l1' & l2' & E1 & E2 & Hi & Hn).
      exists l1', l2'. repeat split; auto. intros ->. now apply Hn.
Qed.

Lemma step_insert pt : nm pt -> forall l1 l2,
  exists l1' l2', step (l1 ++ l2) pt = l1' ++ l2' /\ step (l1 ++ new ++ l2) pt = l1' ++ new ++ l2'
    /\ incl l1' l1 /\ (l2 = [] -> padd pt = [] -> l2' = []).
Proof.
  intros Hnm l1 l2. destruct (rm_insert (prem pt) Hnm l1 l2) as (l1' & l2' & E1 & E2 & Hi & Hn).
  exists l1', (l2' ++ padd pt). rewrite !step_rm, E1, E2. rewrite <- !app_assoc. repeat split; auto.
  intros H1 H2. now rewrite Hn, H2.
Qed.

Lemma run_insert M : (forall kp, In kp M -> nm (snd kp)) -> forall l1 l2,
  exists l1' l2', run (l1 ++ l2) M = l1' ++ l2' /\ run (l1 ++ new ++ l2) M = l1' ++ new ++ l2'
    /\ incl l1' l1 /\ (l2 = [] -> (forall kp, In kp M -> padd (snd kp) = []) -> l2' = []).
Proof.
  induction M as [|kp M IH]; intros H l1 l2.
  - exists l1, l2. repeat split; auto. apply incl_refl.
  - rewrite !run_cons.
    destruct (step_insert (snd kp) (H kp (or_introl eq_refl)) l1 l2) as (m1 & m2 & E1 & E2 & Hi & Hn).
    rewrite E1, E2.
    destruct (IH (fun kp' Hin => H kp' (or_intror Hin)) m1 m2) as (l1' & l2' & F1 & F2 & Hi' & Hn').
    exists l1', l2'. repeat split; auto.
    + eapply incl_tran; eauto.
    + intros H1 H2. apply Hn'.
      * apply Hn; auto. apply H2. now left.
      * intros kp' Hin. apply H2. now right.
Qed.

(* the closing point: after it, the new settings are gone and everything else is as before *)
Lemma end_top q l1 l2 : nm q -> (forall x, In x new -> in_ref x l1 = false) ->
  step (l1 ++ new ++ l2) (mkP (padd q) (prem q ++ new)) = step (l1 ++ l2) q.
Proof.
  intros Hnm Hf. rewrite !step_rm. cbn [padd prem]. rewrite rm_app.
  destruct (rm_insert (prem q) Hnm l1 l2) as (l1' & l2' & E1 & E2 & Hi & _).
  rewrite E1, E2. rewrite rm_block; auto.
  intros x Hx. apply in_ref_false. intros y Hy. specialize (Hf x Hx).
  rewrite in_ref_false in Hf. apply Hf. now apply Hi.
Qed.

Lemma end_bottom q l : step (new ++ l) (mkP (padd q) (new ++ prem q)) = step l q.
Proof.
  rewrite !step_rm. cbn [padd prem]. rewrite rm_app.
  pose proof (rm_block new [] l (fun x _ => eq_refl)) as H. cbn [app] in H. now rewrite H.
Qed.

End Insert.

Lemma carried_eq new c a : NoDup (ids (c ++ a)) ->
  (forall x, In x new -> forall y, In y c -> sid y <> sid x) ->
  filter (fun x => negb (in_ref x (new ++ a))) (c ++ new ++ a) = c.
Proof.
  intros Hnd Hf. rewrite filter_app.
  rewrite (filter_all_false _ (new ++ a)), app_nil_r.
  - apply filter_all_true. intros x Hx. apply negb_true_iff. rewrite in_ref_app. apply orb_false_iff. split.
    + apply in_ref_false. intros y Hy E. apply (Hf y Hy x Hx). congruence.
    + apply in_ref_false. intros y Hy E. unfold ids in Hnd. rewrite map_app in Hnd.
      apply (nodup_app_disj _ _ (sid x) Hnd); [now apply in_map|]. rewrite <- E. now apply in_map.
  - intros x Hx. apply negb_false_iff. now apply in_ref_self.
Qed.

(* ---------- the replay of the rewritten table ---------- *)
Section Core.
Variables (t : fmts) (new : list setting) (start en : nat).
Hypothesis Hs : ssorted t.
Hypothesis Hfr : fresh_for new t.
Hypothesis Hlt : start < en.

Let p := tget_or_empty start t.
Let q := tget_or_empty en t.
Let A0 := run [] (tlt start t).
Let M := between start en t.
Let X := step A0 p.

Lemma X_active : active_at t start = X.
Proof.
  rewrite <- (active_at_norm start t start Hs). rewrite active_at_run by now apply ssorted_norm.
  unfold norm. rewrite upto_tput_at by exact Hs. rewrite run_app. reflexivity.
Qed.

Lemma fresh_ids x y : In x new -> In (sid y) (all_ids t) -> sid y <> sid x.
Proof. intros Hx Hy E. destruct Hfr as [_ H]. apply (H x Hx). now rewrite <- E. Qed.

Lemma fresh_X x y : In x new -> In y X -> sid y <> sid x.
Proof. intros Hx Hy. apply fresh_ids; auto. apply (active_ids t start y Hs). now rewrite X_active. Qed.

Lemma nm_t kp : In kp t -> nm new (snd kp).
Proof.
  intros Hin x Hx. apply in_ref_false. intros y Hy E.
  apply (fresh_ids y x Hy); [eapply all_ids_rem; eauto|congruence].
Qed.

Lemma nm_q : nm new q.
Proof.
  unfold q, tget_or_empty. destruct (tget en t) as [pt|] eqn:E.
  - apply (nm_t (en, pt)). now apply tget_In.
  - intros x [].
Qed.

Lemma nm_M i kp : In kp (upto i M) -> nm new (snd kp).
Proof.
  intros Hin. apply nm_t. unfold upto, M, between in Hin.
  apply filter_In in Hin as [Hin _]. now apply filter_In in Hin as [Hin _].
Qed.

Lemma start_state_top : step A0 (start_point t new start true) = X ++ new.
Proof. unfold start_point. cbv zeta. fold p. unfold X. rewrite !step_rm. cbn [padd prem]. now rewrite app_assoc. Qed.

Lemma start_point_bottom : NoDup (ids (active_at t start)) ->
  start_point t new start false
  = if is_nil (rm (prem p) A0) then mkP (new ++ padd p) (prem p)
    else mkP (new ++ rm (prem p) A0 ++ padd p) (prem p ++ rm (prem p) A0).
Proof.
  intros Hnd. rewrite X_active in Hnd.
  unfold start_point. cbv zeta. fold p. cbn [padd prem].
  rewrite active_at_run by now apply ssorted_tput.
  rewrite upto_tput_at by exact Hs. rewrite run_app. fold A0. rewrite run_cons. cbn [snd run fold_left].
  rewrite (step_rm A0 (mkP _ _)). cbn [padd prem].
  assert (EX : X = rm (prem p) A0 ++ padd p) by reflexivity.
  rewrite carried_eq.
  - now rewrite insert_at_app.
  - now rewrite <- EX.
  - intros x Hx y Hy. apply fresh_X; auto. rewrite EX. apply in_or_app. now left.
Qed.

Lemma start_state_bottom : NoDup (ids (active_at t start)) ->
  step A0 (start_point t new start false) = new ++ X.
Proof.
  intros Hnd. rewrite start_point_bottom by exact Hnd.
  assert (EX : X = rm (prem p) A0 ++ padd p) by reflexivity.
  remember (rm (prem p) A0) as c eqn:Ec.
  destruct c as [|c0 c]; cbn [is_nil].
  - rewrite step_rm. cbn [padd prem]. rewrite <- Ec, EX. reflexivity.
  - rewrite step_rm. cbn [padd prem]. rewrite rm_app, <- Ec, rm_self, EX. reflexivity.
Qed.

Lemma active_shape k : active_at t k = run [] (upto k (shape t start en p q)).
Proof.
  rewrite <- (active_at_norm start t k Hs).
  rewrite <- (active_at_norm en (norm start t) k) by now apply ssorted_norm.
  rewrite active_at_run by (apply ssorted_norm; now apply ssorted_norm).
  now rewrite norm_norm_shape.
Qed.

Lemma run_shape_mid P Q k : start <= k < en ->
  run [] (upto k (shape t start en P Q)) = run (step A0 P) (upto k M).
Proof. intros Hk. rewrite upto_shape_mid by exact Hk. rewrite run_app, run_cons. reflexivity. Qed.

Lemma run_shape_hi P Q k : en <= k ->
  run [] (upto k (shape t start en P Q)) = run (step (run (step A0 P) M) Q) (upto k (tgt en t)).
Proof.
  intros Hk. rewrite upto_shape_hi by assumption. rewrite run_app, run_cons, run_app, run_cons. reflexivity.
Qed.

Lemma run_shape_all P Q :
  run [] (shape t start en P Q) = run (step (run (step A0 P) M) Q) (tgt en t).
Proof. unfold shape. rewrite run_app, run_cons, run_app, run_cons. reflexivity. Qed.

(* states between start and en *)
Lemma mid_top k :
  exists l1 l2, run X (upto k M) = l1 ++ l2
    /\ run (step A0 (start_point t new start true)) (upto k M) = l1 ++ new ++ l2
    /\ incl l1 X /\ ((forall kp, In kp (upto k M) -> padd (snd kp) = []) -> l2 = []).
Proof.
  rewrite start_state_top.
  destruct (run_insert new (upto k M) (nm_M k) X []) as (l1 & l2 & E1 & E2 & Hi & Hn).
  rewrite app_nil_r in E1, E2. exists l1, l2. repeat split; auto.
Qed.

Lemma mid_bottom k : NoDup (ids (active_at t start)) ->
  run (step A0 (start_point t new start false)) (upto k M) = new ++ run X (upto k M).
Proof.
  intros Hnd. rewrite start_state_bottom by exact Hnd.
  destruct (run_insert new (upto k M) (nm_M k) [] X) as (l1 & l2 & E1 & E2 & Hi & Hn).
  assert (l1 = []) by (destruct l1 as [|y l1]; auto; destruct (Hi y); now left). subst l1.
  cbn [app] in *. now rewrite E1, E2.
Qed.

Lemma M_upto_all : upto en M = M.
Proof. unfold M. apply upto_between_all. lia. Qed.

Lemma after_en_top :
  step (run (step A0 (start_point t new start true)) M) (end_point t new en true) = step (run X M) q.
Proof.
  destruct (mid_top en) as (l1 & l2 & E1 & E2 & Hi & _). rewrite M_upto_all in E1, E2.
  rewrite E1, E2. unfold end_point. cbv zeta. fold q. apply end_top; [apply nm_q|].
  intros x Hx. apply in_ref_false. intros y Hy. apply fresh_X; auto.
Qed.

Lemma after_en_bottom : NoDup (ids (active_at t start)) ->
  step (run (step A0 (start_point t new start false)) M) (end_point t new en false) = step (run X M) q.
Proof.
  intros Hnd. pose proof (mid_bottom en Hnd) as E. rewrite M_upto_all in E. rewrite E.
  unfold end_point. cbv zeta. fold q. apply end_bottom.
Qed.

End Core.

(* ====================== main theorems about apply_core ====================== *)

(* 1 *)
Theorem apply_core_base s new start en top : base (apply_core s new start en top) = base s.
Proof. reflexivity. Qed.

Theorem apply_core_sorted s new start en top : ssorted (tbl s) -> start < en ->
  ssorted (tbl (apply_core s new start en top)).
Proof.
  intros Hs Hlt. rewrite apply_core_tbl by assumption. rewrite <- tput_tput_shape by assumption.
  apply ssorted_tput. now apply ssorted_tput.
Qed.

Lemma apply_core_active s new start en top k : ssorted (tbl s) -> start < en ->
  active_at (tbl (apply_core s new start en top)) k
  = run [] (upto k (shape (tbl s) start en (start_point (tbl s) new start top) (end_point (tbl s) new en top))).
Proof.
  intros Hs Hlt. rewrite active_at_run by now apply apply_core_sorted. now rewrite apply_core_tbl.
Qed.

Lemma after_en s new start en top :
  ssorted (tbl s) -> (top = false -> NoDup (ids (active_at (tbl s) start))) -> fresh_for new (tbl s) -> start < en ->
  step (run (step (run [] (tlt start (tbl s))) (start_point (tbl s) new start top)) (between start en (tbl s)))
       (end_point (tbl s) new en top)
  = step (run (step (run [] (tlt start (tbl s))) (tget_or_empty start (tbl s))) (between start en (tbl s)))
         (tget_or_empty en (tbl s)).
Proof.
  intros Hs Hnd Hfr Hlt. destruct top.
  - now apply after_en_top.
  - apply after_en_bottom; auto.
Qed.

(* 2: outside [start, en) every character reports exactly what it reported before *)
Theorem apply_core_outside s new start en top :
  ssorted (tbl s) -> nodup_active (tbl s) -> fresh_for new (tbl s) -> start < en ->
  forall k, k < start \/ en <= k ->
  active_at (tbl (apply_core s new start en top)) k = active_at (tbl s) k.
Proof.
  intros Hs Hnd Hfr Hlt k Hk. rewrite apply_core_active by assumption.
  destruct Hk as [Hk|Hk].
  - rewrite upto_shape_lo by assumption. now rewrite active_at_run.
  - rewrite (active_shape (tbl s) start en Hs Hlt k).
    rewrite !run_shape_hi by assumption. f_equal. apply after_en; auto.
Qed.

(* 3: topmost=False puts the new settings below everything that is active in the range *)
Theorem apply_core_inside_bottom s new start en top :
  ssorted (tbl s) -> nodup_active (tbl s) -> fresh_for new (tbl s) -> start < en ->
  top = false -> forall k, start <= k < en ->
  active_at (tbl (apply_core s new start en top)) k = new ++ active_at (tbl s) k.
Proof.
  intros Hs Hnd Hfr Hlt -> k Hk. rewrite apply_core_active by assumption.
  rewrite (active_shape (tbl s) start en Hs Hlt k).
  rewrite !run_shape_mid by assumption. apply mid_bottom; auto.
Qed.

(* 4: topmost=True inserts the new settings above what was active at start and below whatever
   starts later inside the range *)
Theorem apply_core_inside_top s new start en top :
  ssorted (tbl s) -> fresh_for new (tbl s) -> start < en ->
  top = true -> forall k, start <= k < en ->
  exists l1 l2,
    active_at (tbl s) k = l1 ++ l2
    /\ active_at (tbl (apply_core s new start en top)) k = l1 ++ new ++ l2
    /\ (forall x, In x l1 -> In x (active_at (tbl s) start))
    /\ (k = start -> l2 = [])
    /\ ((forall kp, In kp (tbl s) -> start < fst kp <= k -> padd (snd kp) = []) -> l2 = []).
Proof.
  intros Hs Hfr Hlt -> k Hk. rewrite apply_core_active by assumption.
  rewrite (active_shape (tbl s) start en Hs Hlt k).
  rewrite !run_shape_mid by assumption.
  destruct (mid_top (tbl s) new start en Hfr k) as (l1 & l2 & E1 & E2 & Hi & Hn).
  assert (Hn' : (forall kp, In kp (tbl s) -> start < fst kp <= k -> padd (snd kp) = []) -> l2 = []).
  { intros H. apply Hn. intros kp Hin. unfold upto, between in Hin.
    apply filter_In in Hin as [Hin Hle]. apply filter_In in Hin as [Hin Hb].
    apply andb_true_iff in Hb as [Hb _]. apply Nat.ltb_lt in Hb. apply Nat.leb_le in Hle. apply H; auto. }
  exists l1, l2. split; [exact E1|]. split; [exact E2|]. split; [|split; [|exact Hn']].
  - intros x Hx. rewrite (X_active (tbl s) start Hs). now apply Hi.
  - intros ->. apply Hn'. intros kp _ H. lia.
Qed.

(* ---------- 5: preservation ---------- *)
Theorem apply_core_keys s new start en top n :
  ssorted (tbl s) -> start < en -> en <= n -> keys_le (tbl s) n ->
  keys_le (tbl (apply_core s new start en top)) n.
Proof.
  intros Hs Hlt Hen Hk kp Hin. rewrite apply_core_tbl in Hin by assumption.
  rewrite <- tput_tput_shape in Hin by assumption.
  apply In_tput in Hin as [->|Hin]; [cbn [fst]; lia|].
  apply In_tput in Hin as [->|Hin]; [cbn [fst]; lia|]. now apply Hk.
Qed.

Theorem apply_core_final s new start en top :
  ssorted (tbl s) -> nodup_active (tbl s) -> fresh_for new (tbl s) -> start < en ->
  final_active (tbl (apply_core s new start en top)) = final_active (tbl s).
Proof.
  intros Hs Hnd Hfr Hlt. rewrite !final_active_run. rewrite apply_core_tbl by assumption.
  transitivity (run [] (norm en (norm start (tbl s)))); [|now rewrite !run_norm].
  rewrite norm_norm_shape by assumption. rewrite !run_shape_all. f_equal. apply after_en; auto.
Qed.

Lemma fresh_active s new k x y : ssorted (tbl s) -> fresh_for new (tbl s) ->
  In x new -> In y (active_at (tbl s) k) -> sid y <> sid x.
Proof.
  intros Hs Hfr Hx Hy. eapply fresh_ids; eauto. eapply active_ids; eauto.
Qed.

Lemma nodup_middle {A} (n a b : list A) : NoDup n -> NoDup (a ++ b) ->
  (forall x, In x n -> ~ In x (a ++ b)) -> NoDup (a ++ n ++ b).
Proof.
  intros Hn. induction a as [|y a IH]; cbn [app]; intros Hab Hd.
  - apply nodup_app_intro; auto.
  - inversion Hab as [|? ? Hy Hab']; subst. constructor.
    + intros Hin. apply in_app_or in Hin as [Hin|Hin]; [apply Hy; apply in_or_app; now left|].
      apply in_app_or in Hin as [Hin|Hin]; [apply (Hd y Hin); now left|apply Hy; apply in_or_app; now right].
    + apply IH; auto. intros x Hx Hin. apply (Hd x Hx). now right.
Qed.

Lemma nodup_insert new l1 l2 : NoDup (ids new) -> NoDup (ids (l1 ++ l2)) ->
  (forall x y, In x new -> In y (l1 ++ l2) -> sid y <> sid x) -> NoDup (ids (l1 ++ new ++ l2)).
Proof.
  intros Hn Hl Hd. unfold ids in *. rewrite !map_app in *.
  apply nodup_middle; auto. intros i Hi Hj.
  apply in_map_iff in Hi as (x & <- & Hx). rewrite <- map_app in Hj. apply in_map_iff in Hj as (y & E & Hy).
  exact (Hd x y Hx Hy E).
Qed.

Theorem apply_core_nodup s new start en top :
  ssorted (tbl s) -> nodup_active (tbl s) -> fresh_for new (tbl s) -> start < en ->
  nodup_active (tbl (apply_core s new start en top)).
Proof.
  intros Hs Hnd Hfr Hlt k.
  destruct (Nat.lt_ge_cases k start) as [Hk|Hk]; [rewrite apply_core_outside; auto|].
  destruct (Nat.lt_ge_cases k en) as [Hk2|Hk2]; [|rewrite apply_core_outside; auto].
  assert (Hd : forall x y, In x new -> In y (active_at (tbl s) k) -> sid y <> sid x)
    by (intros; eapply fresh_active; eauto).
  destruct top.
  - destruct (apply_core_inside_top s new start en true Hs Hfr Hlt eq_refl k (conj Hk Hk2))
      as (l1 & l2 & E1 & E2 & _).
    rewrite E2. rewrite E1 in Hd. apply nodup_insert; auto; [apply Hfr|]. rewrite <- E1. apply Hnd.
  - rewrite (apply_core_inside_bottom s new start en false) by auto.
    apply (nodup_insert new [] (active_at (tbl s) k)); auto; [apply Hfr|apply Hnd].
Qed.

(* ---------- strict replay (WITH_ASSERTIONS = True) ---------- *)
Definition srok (rems a : list setting) : bool :=
  match strict_rems rems a with Some _ => true | None => false end.

Lemma strict_rems_cons x rems a :
  strict_rems (x :: rems) a = if in_ref x a then strict_rems rems (remove_ref x a) else None.
Proof. reflexivity. Qed.

Lemma srok_cons x rems a : srok (x :: rems) a = in_ref x a && srok rems (remove_ref x a).
Proof. unfold srok. rewrite strict_rems_cons. destruct (in_ref x a); reflexivity. Qed.

Lemma strict_rems_some rems : forall a, srok rems a = true -> strict_rems rems a = Some (rm rems a).
Proof.
  induction rems as [|x rems IH]; intros a H; [reflexivity|].
  rewrite srok_cons in H. apply andb_true_iff in H as [H1 H2].
  rewrite strict_rems_cons, H1, rm_cons. now apply IH.
Qed.

Lemma srok_app r1 : forall r2 a, srok (r1 ++ r2) a = srok r1 a && srok r2 (rm r1 a).
Proof.
  induction r1 as [|x r1 IH]; intros r2 a; [reflexivity|].
  cbn [app]. rewrite !srok_cons, IH, rm_cons. now rewrite andb_assoc.
Qed.

Lemma sok_cons k p t a : strict_ok_from ((k, p) :: t) a = srok (prem p) a && strict_ok_from t (step a p).
Proof.
  cbn [strict_ok_from]. destruct (srok (prem p) a) eqn:E.
  - rewrite (strict_rems_some _ _ E). reflexivity.
  - unfold srok in E. destruct (strict_rems (prem p) a); [discriminate|reflexivity].
Qed.

Lemma sok_app t1 : forall t2 a,
  strict_ok_from (t1 ++ t2) a = strict_ok_from t1 a && strict_ok_from t2 (run a t1).
Proof.
  induction t1 as [|[k p] t1 IH]; intros t2 a; [reflexivity|].
  cbn [app]. rewrite !sok_cons, IH, run_cons. cbn [snd]. now rewrite andb_assoc.
Qed.

Lemma sok_tput_empty k t : tget k t = None ->
  forall a, strict_ok_from (tput k empty_point t) a = strict_ok_from t a.
Proof.
  induction t as [|[k' p'] t IH]; cbn [tput tget]; intros H a.
  - rewrite sok_cons, step_empty. reflexivity.
  - destruct (Nat.eqb k k'); [discriminate|]. destruct (k <? k').
    + rewrite (sok_cons k), step_empty. reflexivity.
    + rewrite !sok_cons. now rewrite IH.
Qed.

Lemma sok_norm k t a : strict_ok_from (norm k t) a = strict_ok_from t a.
Proof.
  unfold norm, tget_or_empty. destruct (tget k t) eqn:E.
  - now rewrite tput_same.
  - now apply sok_tput_empty.
Qed.

Lemma srok_block n : forall l1 l2, (forall x, In x n -> in_ref x l1 = false) -> srok n (l1 ++ n ++ l2) = true.
Proof.
  induction n as [|x n IH]; intros l1 l2 H; [reflexivity|].
  rewrite srok_cons. apply andb_true_iff. split.
  - rewrite in_ref_app. cbn [app]. rewrite in_ref_cons. unfold same_ref. rewrite Nat.eqb_refl.
    cbn [orb]. apply orb_true_r.
  - rewrite remove_ref_app_notin by (apply H; now left). cbn [app]. rewrite remove_ref_head.
    apply IH. intros y Hy. apply H. now right.
Qed.

Section StrictInsert.
Variable new : list setting.

Lemma srok_insert rems : (forall x, In x rems -> in_ref x new = false) -> forall l1 l2,
  srok rems (l1 ++ l2) = true -> srok rems (l1 ++ new ++ l2) = true.
Proof.
  induction rems as [|x rems IH]; intros H l1 l2; [reflexivity|].
  assert (Hx : in_ref x new = false) by (apply H; now left).
  assert (H' : forall y, In y rems -> in_ref y new = false) by (intros; apply H; now right).
  rewrite !srok_cons, !in_ref_app, Hx. cbn [orb]. intros Hok. apply andb_true_iff in Hok as [H1 H2].
  rewrite H1. cbn [andb]. destruct (in_ref x l1) eqn:E.
  - rewrite remove_ref_app_in in * by exact E. now apply IH.
  - rewrite !remove_ref_app_notin in * by assumption. now apply IH.
Qed.

Lemma sok_insert M : (forall kp, In kp M -> nm new (snd kp)) -> forall l1 l2,
  strict_ok_from M (l1 ++ l2) = true -> strict_ok_from M (l1 ++ new ++ l2) = true.
Proof.
  induction M as [|[k pt] M IH]; intros H l1 l2; [reflexivity|].
  rewrite !sok_cons. intros Hok. apply andb_true_iff in Hok as [H1 H2].
  assert (Hnm : nm new pt) by (apply (H (k, pt)); now left).
  rewrite (srok_insert (prem pt) Hnm l1 l2 H1). cbn [andb].
  destruct (step_insert new pt Hnm l1 l2) as (m1 & m2 & E1 & E2 & _).
  rewrite E1 in H2. rewrite E2. apply IH; auto. intros kp Hin. apply H. now right.
Qed.

End StrictInsert.

Lemma srok_self l : srok l l = true.
Proof. pose proof (srok_block l [] [] (fun x _ => eq_refl)) as H. cbn [app] in H. now rewrite app_nil_r in H. Qed.

Section Strict.
Variables (t : fmts) (new : list setting) (start en : nat).
Hypothesis Hs : ssorted t.
Hypothesis Hfr : fresh_for new t.
Hypothesis Hlt : start < en.
Hypothesis Hnd : NoDup (ids (active_at t start)).

Let p := tget_or_empty start t.
Let q := tget_or_empty en t.
Let A0 := run [] (tlt start t).
Let M := between start en t.
Let X := step A0 p.

Lemma strict_start top : srok (prem p) A0 = true -> srok (prem (start_point t new start top)) A0 = true.
Proof.
  intros H. destruct top.
  - exact H.
  - rewrite start_point_bottom by assumption. fold p A0.
    destruct (is_nil (rm (prem p) A0)); cbn [prem]; auto.
    rewrite srok_app, H. cbn [andb]. apply srok_self.
Qed.

Lemma strict_mid top : strict_ok_from M X = true ->
  strict_ok_from M (step A0 (start_point t new start top)) = true.
Proof.
  intros H. assert (Hnm : forall kp, In kp M -> nm new (snd kp)).
  { intros kp Hin. apply (nm_M t new start en Hfr en). unfold M. now rewrite M_upto_all. }
  destruct top.
  - unfold A0. rewrite start_state_top. fold A0 p X.
    pose proof (sok_insert new M Hnm X []) as Hi. rewrite !app_nil_r in Hi. now apply Hi.
  - unfold A0. rewrite start_state_bottom by assumption. fold A0 p X.
    now apply (sok_insert new M Hnm [] X).
Qed.

Lemma strict_end top : srok (prem q) (run X M) = true ->
  srok (prem (end_point t new en top)) (run (step A0 (start_point t new start top)) M) = true.
Proof.
  intros H. pose proof (nm_q t new en Hs Hfr) as Hq. fold q in Hq.
  unfold end_point. cbv zeta. fold q. destruct top; cbn [prem].
  - destruct (mid_top t new start en Hfr en) as (l1 & l2 & E1 & E2 & Hi & _).
    rewrite M_upto_all in E1, E2 by exact Hlt. fold A0 p X M in E1, E2, Hi.
    rewrite E2. rewrite E1 in H. rewrite srok_app.
    rewrite (srok_insert new (prem q) Hq l1 l2 H). cbn [andb].
    destruct (rm_insert new (prem q) Hq l1 l2) as (m1 & m2 & _ & F2 & Hi2 & _).
    rewrite F2. apply srok_block. intros x Hx. apply in_ref_false. intros y Hy.
    apply (fresh_X t new start Hs Hfr x y Hx). fold A0 p X. apply Hi. now apply Hi2.
  - pose proof (mid_bottom t new start en Hs Hfr en Hnd) as E.
    rewrite M_upto_all in E by exact Hlt. fold A0 p X M in E. rewrite E.
    rewrite srok_app.
    pose proof (srok_block new [] (run X M) (fun x _ => eq_refl)) as B1.
    pose proof (rm_block new [] (run X M) (fun x _ => eq_refl)) as B2. cbn [app] in B1, B2.
    now rewrite B1, B2.
Qed.

End Strict.

Theorem apply_core_strict s new start en top :
  ssorted (tbl s) -> nodup_active (tbl s) -> fresh_for new (tbl s) -> start < en ->
  strict_ok (tbl s) = true -> strict_ok (tbl (apply_core s new start en top)) = true.
Proof.
  intros Hs Hnd Hfr Hlt H. unfold strict_ok in *. rewrite apply_core_tbl by assumption.
  rewrite <- (sok_norm start), <- (sok_norm en), norm_norm_shape in H by assumption.
  unfold shape in *.
  rewrite sok_app, sok_cons, sok_app, sok_cons in H.
  rewrite sok_app, sok_cons, sok_app, sok_cons.
  apply andb_true_iff in H as [H1 H]. apply andb_true_iff in H as [H2 H].
  apply andb_true_iff in H as [H3 H]. apply andb_true_iff in H as [H4 H5].
  rewrite H1. cbn [andb].
  rewrite (strict_start (tbl s) new start Hs Hfr (Hnd start) top H2). cbn [andb].
  rewrite (strict_mid (tbl s) new start en Hs Hfr Hlt (Hnd start) top H3). cbn [andb].
  rewrite (strict_end (tbl s) new start en Hs Hfr Hlt (Hnd start) top H4). cbn [andb].
  rewrite after_en; auto.
Qed.

(* ====================== 6: apply_fmt (the public entry point) ====================== *)
Theorem apply_fmt_noop s new st en top :
  new = [] \/ range_empty (length (base s)) (slice_idx (length (base s)) st 0)
                          (slice_idx (length (base s)) en (length (base s))) = true ->
  apply_fmt s new st en top = s.
Proof.
  intros H. unfold apply_fmt. cbv zeta. destruct H as [-> | ->]; [|reflexivity].
  cbn [is_nil]. now rewrite orb_true_r.
Qed.

Lemma apply_fmt_cases s new st en top :
  let len := length (base s) in
  let start := slice_idx len st 0 in
  let e := slice_idx len en len in
  apply_fmt s new st en top = s
  \/ (apply_fmt s new st en top = apply_core s new start e top /\ start < e /\ e <= len).
Proof.
  intros len start e. unfold apply_fmt. cbv zeta. fold len start e.
  destruct (range_empty len start e || is_nil new) eqn:E; [now left|right].
  apply orb_false_iff in E as [E _]. unfold range_empty in E. apply orb_false_iff in E as [E1 E2].
  apply Nat.leb_gt in E1, E2. split; [reflexivity|]. split; [exact E2|].
  apply slice_idx_le. lia.
Qed.

Lemma apply_fmt_core s new st en top :
  let len := length (base s) in
  let start := slice_idx len st 0 in
  let e := slice_idx len en len in
  new <> [] -> range_empty len start e = false ->
  apply_fmt s new st en top = apply_core s new start e top /\ start < e /\ e <= len.
Proof.
  intros len start e Hne Hre. unfold apply_fmt. cbv zeta. fold len start e. rewrite Hre.
  destruct new as [|x new']; [congruence|]. cbn [is_nil orb].
  unfold range_empty in Hre. apply orb_false_iff in Hre as [E1 E2].
  apply Nat.leb_gt in E1, E2. split; [reflexivity|]. split; [exact E2|].
  apply slice_idx_le. lia.
Qed.

Theorem apply_fmt_base s new st en top : base (apply_fmt s new st en top) = base s.
Proof. unfold apply_fmt. cbv zeta. destruct (_ || _); reflexivity. Qed.

Section ApplyFmt.
Variables (s : astr) (new : list setting) (st en : option Z) (top : bool).
Let len := length (base s).
Let start := slice_idx len st 0.
Let e := slice_idx len en len.
Let r := apply_fmt s new st en top.
Hypothesis Hs : ssorted (tbl s).
Hypothesis Hnd : nodup_active (tbl s).
Hypothesis Hfr : fresh_for new (tbl s).

(* preservation holds whether or not the call is a no-op *)
Theorem apply_fmt_sorted : ssorted (tbl r).
Proof.
  destruct (apply_fmt_cases s new st en top) as [E|(E & H1 & H2)]; unfold r; rewrite E; auto.
  now apply apply_core_sorted.
Qed.

Theorem apply_fmt_keys : keys_le (tbl s) len -> keys_le (tbl r) len.
Proof.
  intros Hk. destruct (apply_fmt_cases s new st en top) as [E|(E & H1 & H2)]; unfold r; rewrite E; auto.
  now apply apply_core_keys.
Qed.

Theorem apply_fmt_nodup : nodup_active (tbl r).
Proof.
  destruct (apply_fmt_cases s new st en top) as [E|(E & H1 & H2)]; unfold r; rewrite E; auto.
  now apply apply_core_nodup.
Qed.

Theorem apply_fmt_strict : strict_ok (tbl s) = true -> strict_ok (tbl r) = true.
Proof.
  intros Hk. destruct (apply_fmt_cases s new st en top) as [E|(E & H1 & H2)]; unfold r; rewrite E; auto.
  now apply apply_core_strict.
Qed.

Theorem apply_fmt_final : final_active (tbl r) = final_active (tbl s).
Proof.
  destruct (apply_fmt_cases s new st en top) as [E|(E & H1 & H2)]; unfold r; rewrite E; auto.
  now apply apply_core_final.
Qed.

Theorem apply_fmt_outside : forall k, k < start \/ e <= k -> active_at (tbl r) k = active_at (tbl s) k.
Proof.
  intros k Hk. destruct (apply_fmt_cases s new st en top) as [E|(E & H1 & H2)]; unfold r; rewrite E; auto.
  now apply apply_core_outside.
Qed.

Hypothesis Hne : new <> [].
Hypothesis Hre : range_empty len start e = false.

Theorem apply_fmt_inside_bottom : top = false -> forall k, start <= k < e ->
  active_at (tbl r) k = new ++ active_at (tbl s) k.
Proof.
  intros Ht k Hk. destruct (apply_fmt_core s new st en top Hne Hre) as (E & H1 & H2).
  unfold r. rewrite E. now apply apply_core_inside_bottom.
Qed.

Theorem apply_fmt_inside_top : top = true -> forall k, start <= k < e ->
  exists l1 l2,
    active_at (tbl s) k = l1 ++ l2
    /\ active_at (tbl r) k = l1 ++ new ++ l2
    /\ (forall x, In x l1 -> In x (active_at (tbl s) start))
    /\ (k = start -> l2 = [])
    /\ ((forall kp, In kp (tbl s) -> start < fst kp <= k -> padd (snd kp) = []) -> l2 = []).
Proof.
  intros Ht k Hk. destruct (apply_fmt_core s new st en top Hne Hre) as (E & H1 & H2).
  unfold r. rewrite E. now apply apply_core_inside_top.
Qed.

End ApplyFmt.

(* ====================== a concrete instance of all the hypotheses ====================== *)
Module ApplyExample.
Definition a1 := mkS 1 [49%N].
Definition a2 := mkS 2 [52%N].
Definition a3 := mkS 3 [51%N; 49%N].
Definition n1 := mkS 10 [55%N].
Definition n2 := mkS 11 [57%N].
Definition ex_s : astr :=
  mkA [97%N; 98%N; 99%N; 100%N; 101%N; 102%N]
      [(0, mkP [a1] []); (2, mkP [a2] []); (4, mkP [a3] [a2]); (6, mkP [] [a1; a3])].
Definition ex_new := [n1; n2].

Ltac sorted_tac :=
  repeat (constructor;
          [let kp := fresh "kp" in let Hin := fresh "Hin" in
           intros kp Hin; cbn in Hin; repeat (destruct Hin as [<-|Hin]; [cbn; lia|]); destruct Hin|]);
  constructor.
Ltac nodup_tac := repeat (constructor; [cbn; lia|]); constructor.

Example ex_sorted : ssorted (tbl ex_s).
Proof. unfold ex_s. cbn [tbl]. sorted_tac. Qed.

Example ex_keys : keys_le (tbl ex_s) (length (base ex_s)).
Proof. intros kp Hin. cbn in Hin. repeat (destruct Hin as [<-|Hin]; [cbn; lia|]). destruct Hin. Qed.

Example ex_nodup : nodup_active (tbl ex_s).
Proof.
  intros k. do 7 (destruct k as [|k]; [vm_compute; nodup_tac|]).
  rewrite active_beyond; [vm_compute; nodup_tac|exact ex_sorted|].
  intros kp Hin. pose proof (ex_keys kp Hin) as H. cbn in H. lia.
Qed.

Example ex_fresh : fresh_for ex_new (tbl ex_s).
Proof.
  split; [vm_compute; nodup_tac|]. intros x [<-|[<-|[]]]; vm_compute; lia.
Qed.

(* every hypothesis used by the theorems above holds for apply_core ex_s ex_new 1 5 _ *)
Example ex_hyps :
  ssorted (tbl ex_s) /\ nodup_active (tbl ex_s) /\ fresh_for ex_new (tbl ex_s) /\ ex_new <> []
  /\ 1 < 5 /\ 5 <= length (base ex_s) /\ keys_le (tbl ex_s) (length (base ex_s))
  /\ strict_ok (tbl ex_s) = true /\ final_active (tbl ex_s) = [].
Proof.
  split; [exact ex_sorted|]. split; [exact ex_nodup|]. split; [exact ex_fresh|].
  split; [discriminate|]. split; [lia|]. split; [cbn; lia|]. split; [exact ex_keys|].
  split; reflexivity.
Qed.

(* ... and for apply_fmt ex_s ex_new (Some 1) (Some (-1)) _ : the range is [1, 5) *)
Example ex_fmt_hyps :
  slice_idx 6 (Some 1%Z) 0 = 1 /\ slice_idx 6 (Some (-1)%Z) 6 = 5
  /\ range_empty (length (base ex_s)) (slice_idx 6 (Some 1%Z) 0) (slice_idx 6 (Some (-1)%Z) 6) = false.
Proof. repeat split. Qed.

(* what the two variants report (k = 0 and 5 outside, k = 1..4 inside) *)
Example ex_top :
  map (active_at (tbl (apply_fmt ex_s ex_new (Some 1%Z) (Some (-1)%Z) true))) [0; 1; 3; 4; 5]
  = [[a1]; [a1; n1; n2]; [a1; n1; n2; a2]; [a1; n1; n2; a3]; [a1; a3]].
Proof. vm_compute. reflexivity. Qed.

Example ex_bottom :
  map (active_at (tbl (apply_fmt ex_s ex_new (Some 1%Z) (Some (-1)%Z) false))) [0; 1; 3; 4; 5]
  = [[a1]; [n1; n2; a1]; [n1; n2; a1; a2]; [n1; n2; a1; a3]; [a1; a3]].
Proof. vm_compute. reflexivity. Qed.

(* in ex_top at k = 3 the decomposition of theorem 4 is l1 = [a1], l2 = [a2]; l2 is not empty
   because the point at 2 starts a setting *)
Example ex_top_l2 : exists kp, In kp (tbl ex_s) /\ 1 < fst kp <= 3 /\ padd (snd kp) <> [].
Proof. exists (2, mkP [a2] []). split; [right; now left|]. split; [cbn; lia|discriminate]. Qed.

(* why nodup_active is needed for topmost=False: if the object active before `start` is added a
   second time at `start`, the code does not carry it and the new settings end up in the middle *)
Definition dup_s : astr := mkA [97%N; 98%N; 99%N] [(0, mkP [a1] []); (1, mkP [a1] []); (3, mkP [] [a1; a1])].
Example bottom_needs_nodup :
  ssorted (tbl dup_s) /\ fresh_for ex_new (tbl dup_s) /\ strict_ok (tbl dup_s) = true
  /\ active_at (tbl dup_s) 1 = [a1; a1]
  /\ active_at (tbl (apply_core dup_s ex_new 1 2 false)) 1 = [a1; n1; n2; a1].
Proof.
  split; [unfold dup_s; cbn [tbl]; sorted_tac|].
  split; [split; [vm_compute; nodup_tac|intros x [<-|[<-|[]]]; vm_compute; lia]|].
  repeat split.
Qed.
End ApplyExample.

Print Assumptions apply_core_base.
Print Assumptions apply_core_outside.
Print Assumptions apply_core_inside_bottom.
Print Assumptions apply_core_inside_top.
Print Assumptions apply_core_sorted.
Print Assumptions apply_core_keys.
Print Assumptions apply_core_nodup.
Print Assumptions apply_core_strict.
Print Assumptions apply_core_final.
Print Assumptions apply_fmt_noop.
Print Assumptions apply_fmt_base.
Print Assumptions apply_fmt_outside.
Print Assumptions apply_fmt_inside_bottom.
Print Assumptions apply_fmt_inside_top.
Print Assumptions apply_fmt_sorted.
Print Assumptions apply_fmt_keys.
Print Assumptions apply_fmt_nodup.
Print Assumptions apply_fmt_strict.
Print Assumptions apply_fmt_final.
