(* C18 beyond pure integer lists: parse_graphic_sequence on item lists that also contain NON-NUMERIC
   items ('x', '+1', '1.5', non-ASCII digits ...), as repaired (F33/F34).  Such an item contributes
   nothing and ends the extended-colour group in progress, so the integers between two such items are
   read as code lists of their own, one after the other. *)
From AS Require Import Base Effects.
From AS.Spec Require Import Terminal.
From AS.Model Require Import Sgr.
From AS.Proofs Require Import DecProofs TokenizerProofs GenCodeTable SgrProofs.
Local Open Scope N_scope.

(* ---------- (0) vocabulary ---------- *)

(* an item that stays a string under the token conversion of parse_graphic_sequence *)
Definition junk (s : str) : Prop := norm_item_pgs (IStr s) = IStr s.
Definition junkb (s : str) : bool :=
  match norm_item_pgs (IStr s) with IStr _ => true | IInt _ => false end.

(* items as they are after the conversion: numbers are non-negative *)
Definition norm_ok (items : list item) : Prop :=
  Forall (fun it => match it with IInt z => (0 <= z)%Z | IStr _ => True end) items.
(* AnsiSetting('') raises: only matters with add_erroneous=True *)
Definition strs_nonempty (items : list item) : Prop :=
  Forall (fun it => match it with IInt _ => True | IStr s => s <> [] end) items.

(* the runs of numbers between string items, empty ones included: n string items give n+1 runs *)
Fixpoint runs_all (items : list item) : list (list N) :=
  match items with
  | [] => [[]]
  | IStr _ :: r => [] :: runs_all r
  | IInt z :: r => match runs_all r with
                   | run :: rs => (Z.to_N z :: run) :: rs
                   | [] => [[Z.to_N z]] end
  end.
(* the maximal (hence non-empty) runs of numbers *)
Definition runs_of (items : list item) : list (list N) :=
  filter (fun run => negb (is_nil run)) (runs_all items).

(* the same partition with the string items kept: runs and junk items in their order *)
Inductive piece := PRun (cs : list N) | PJunk (s : str).
Fixpoint pieces (items : list item) : list piece :=
  match items with
  | [] => []
  | IStr s :: r => PJunk s :: pieces r
  | IInt z :: r => match pieces r with
                   | PRun cs :: ps => PRun (Z.to_N z :: cs) :: ps
                   | ps => PRun [Z.to_N z] :: ps end
  end.
Definition piece_items (p : piece) : list item :=
  match p with PRun cs => itemsN cs | PJunk s => [IStr s] end.
Definition piece_runs (p : piece) : list (list N) :=
  match p with PRun cs => [cs] | PJunk _ => [] end.

(* what add_erroneous=True returns for one piece: a run comes back cut into non-empty groups that
   concatenate to the run (as in C18_erroneous_main), a junk item as itself *)
Definition renders (p : piece) (chunk : list str) : Prop :=
  match p with
  | PRun cs => exists gs, chunk = map textN gs /\ concat gs = cs /\ Forall (fun g => g <> []) gs
  | PJunk s => chunk = [s]
  end.

(* what one run contributes with add_erroneous=False *)
Definition run_texts (run : list N) : list str := map textN (pgs_gN run 0 []).

(* ---------- the structured form: a first run, then (string item, run) pairs ---------- *)
Fixpoint decomp (items : list item) : list N * list (str * list N) :=
  match items with
  | [] => ([], [])
  | IInt z :: r => let (cs, segs) := decomp r in (Z.to_N z :: cs, segs)
  | IStr s :: r => let (cs, segs) := decomp r in ([], (s, cs) :: segs)
  end.
Definition seg_items (sg : str * list N) : list item := IStr (fst sg) :: itemsN (snd sg).
Definition recomp (d : list N * list (str * list N)) : list item :=
  itemsN (fst d) ++ flat_map seg_items (snd d).

Lemma recomp_decomp items : norm_ok items -> recomp (decomp items) = items.
Proof.
  unfold recomp. induction items as [|[z|s] r IH]; intros H; [reflexivity| |].
  - inversion H as [|? ? Hz Hr]; subst. specialize (IH Hr). cbn [decomp].
    destruct (decomp r) as [cs segs]. cbn [fst snd] in *. cbn [itemsN map app].
    fold (itemsN cs). rewrite IH. now rewrite Z2N.id.
  - inversion H as [|? ? _ Hr]; subst. specialize (IH Hr). cbn [decomp].
    destruct (decomp r) as [cs segs]. cbn [fst snd] in *. cbn [itemsN map app flat_map seg_items fst snd].
    fold (itemsN cs). now rewrite IH.
Qed.

Lemma runs_all_decomp items : runs_all items = fst (decomp items) :: map snd (snd (decomp items)).
Proof.
  induction items as [|[z|s] r IH]; [reflexivity| |]; cbn [runs_all decomp]; rewrite IH;
    destruct (decomp r) as [cs segs]; reflexivity.
Qed.

Definition run_piece (cs : list N) : list piece := if is_nil cs then [] else [PRun cs].
Definition pieces_d (d : list N * list (str * list N)) : list piece :=
  run_piece (fst d) ++ flat_map (fun sg => PJunk (fst sg) :: run_piece (snd sg)) (snd d).

Lemma pieces_decomp items : pieces items = pieces_d (decomp items).
Proof.
  unfold pieces_d. induction items as [|[z|s] r IH]; [reflexivity| |]; cbn [pieces decomp]; rewrite IH;
    destruct (decomp r) as [cs segs]; cbn [fst snd].
  - destruct cs as [|c cs]; cbn [run_piece is_nil app].
    + destruct segs as [|[s0 c0] segs]; reflexivity.
    + reflexivity.
  - reflexivity.
Qed.

(* the partition loses nothing *)
Theorem pieces_items items : norm_ok items -> flat_map piece_items (pieces items) = items.
Proof.
  induction items as [|[z|s] r IH]; intros H; [reflexivity| |].
  - inversion H as [|? ? Hz Hr]; subst. specialize (IH Hr). cbn [pieces].
    destruct (pieces r) as [|[cs|s0] ps]; rewrite <- IH; cbn [flat_map piece_items itemsN map app];
      rewrite Z2N.id by exact Hz; reflexivity.
  - inversion H as [|? ? _ Hr]; subst. cbn [pieces flat_map piece_items app]. now rewrite (IH Hr).
Qed.

Theorem runs_of_pieces items : runs_of items = flat_map piece_runs (pieces items).
Proof.
  unfold runs_of. rewrite runs_all_decomp, pieces_decomp. unfold pieces_d.
  destruct (decomp items) as [cs segs]. cbn [fst snd]. rewrite flat_map_app. cbn [filter].
  assert (H1 : forall c, (if negb (is_nil c) then c :: @nil (list N) else []) = flat_map piece_runs (run_piece c)).
  { intros [|c0 c]; reflexivity. }
  assert (H2 : filter (fun run => negb (is_nil run)) (map snd segs)
               = flat_map piece_runs (flat_map (fun sg => PJunk (fst sg) :: run_piece (snd sg)) segs)).
  { induction segs as [|[s c] segs IH]; [reflexivity|]. cbn [map filter flat_map fst snd].
    rewrite flat_map_app. cbn [flat_map piece_runs app]. rewrite <- IH.
    destruct c; reflexivity. }
  rewrite <- H2, <- H1. destruct (negb (is_nil cs)); reflexivity.
Qed.

Theorem runs_of_nonempty items : Forall (fun run => run <> []) (runs_of items).
Proof.
  unfold runs_of. apply Forall_forall. intros run Hin. apply filter_In in Hin as [_ H].
  destruct run; [discriminate|congruence].
Qed.

(* ---------- one run followed by a string item ---------- *)
Lemma intro_kind_tail v r s tail :
  intro_kind (itemsN (v :: r) ++ IStr s :: tail) = intro_kindN (v :: r).
Proof.
  destruct r as [|x r'].
  - cbn [itemsN map app intro_kind intro_kindN z_is]. unfold item_is_intro. rewrite N2Z.id.
    replace (0 <=? Z.of_N v)%Z with true by (symmetry; apply Z.leb_le; lia). cbn [andb].
    destruct (is_intro v); reflexivity.
  - rewrite <- intro_kind_N. reflexivity.
Qed.

Lemma pgs_loop_run_false s tail out cs :
  pgs_loop tail 0 [] false = OK out ->
  forall left cur,
  pgs_loop (itemsN cs ++ IStr s :: tail) left (map Z.of_N cur) false
  = OK (map textN (pgs_gN cs left cur) ++ out).
Proof.
  intros Hout. induction cs as [|v rest IH]; intros left cur.
  - cbn [itemsN map app pgs_loop pgs_gN]. exact Hout.
  - assert (Hgo : forall l,
      (let cur' := map Z.of_N cur ++ [Z.of_N v] in
       match l with
       | S (S l0) => pgs_loop (itemsN rest ++ IStr s :: tail) (S l0) cur' false
       | _ => do r <- pgs_loop (itemsN rest ++ IStr s :: tail) 0 [] false;
              OK ((if keep_group false cur' then [text_of_items cur'] else []) ++ r)
       end) =
      OK (map textN (let cur' := cur ++ [v] in
                     match l with
                     | S (S l0) => pgs_gN rest (S l0) cur'
                     | _ => (if keepN cur' then [cur'] else []) ++ pgs_gN rest 0 []
                     end) ++ out)).
    { intros l. cbv zeta.
      assert (E : map Z.of_N cur ++ [Z.of_N v] = map Z.of_N (cur ++ [v])) by (now rewrite map_app).
      rewrite E. destruct l as [|[|l0]].
      - change (@nil Z) with (map Z.of_N []). rewrite IH. cbn [bind].
        rewrite keep_group_N by (destruct cur; simpl; congruence).
        destruct (keepN (cur ++ [v])); rewrite (map_app textN), <- app_assoc; reflexivity.
      - change (@nil Z) with (map Z.of_N []). rewrite IH. cbn [bind].
        rewrite keep_group_N by (destruct cur; simpl; congruence).
        destruct (keepN (cur ++ [v])); rewrite (map_app textN), <- app_assoc; reflexivity.
      - apply IH. }
    pose proof (intro_kind_tail v rest s tail) as Hik.
    change (itemsN (v :: rest) ++ IStr s :: tail)
      with (IInt (Z.of_N v) :: (itemsN rest ++ IStr s :: tail)) in *.
    cbn [pgs_loop pgs_gN]. rewrite Hik.
    destruct cur as [|c0 cur0].
    + cbn [map]. destruct (intro_kindN (v :: rest)) as [total| |].
      * apply (Hgo total).
      * cbn [andb]. change (@nil Z) with (map Z.of_N []). apply IH.
      * apply (Hgo 1%nat).
    + change (map Z.of_N (c0 :: cur0)) with (Z.of_N c0 :: map Z.of_N cur0).
      cbv iota beta. change (Z.of_N c0 :: map Z.of_N cur0) with (map Z.of_N (c0 :: cur0)). apply (Hgo left).
Qed.

(* the generalisation over left/cur in words: a pending, incomplete set is dropped when a string item arrives *)
Lemma pgs_loop_str_drops s tail left cur :
  pgs_loop (IStr s :: tail) left cur false = pgs_loop tail 0 [] false.
Proof. reflexivity. Qed.

Lemma pgs_loop_segs segs : forall cs,
  pgs_loop (itemsN cs ++ flat_map seg_items segs) 0 [] false
  = OK (concat (map run_texts (cs :: map snd segs))).
Proof.
  induction segs as [|[s c] segs IH]; intros cs.
  - cbn [flat_map map concat]. rewrite !app_nil_r. change (@nil Z) with (map Z.of_N []). apply pgs_loop_N.
  - cbn [flat_map seg_items fst snd app].
    change (@nil Z) with (map Z.of_N []).
    rewrite (pgs_loop_run_false s _ _ cs (IH c)). reflexivity.
Qed.

Lemma concat_filter_runs {B} (F : list N -> list B) (l : list (list N)) : F [] = [] ->
  concat (map F (filter (fun run => negb (is_nil run)) l)) = concat (map F l).
Proof.
  intros HF. induction l as [|a l IH]; [reflexivity|]. cbn [filter map concat].
  destruct a as [|a0 a]; cbn [is_nil negb map concat]; rewrite IH; [now rewrite HF|reflexivity].
Qed.

(* ---------- (1) add_erroneous=False: what parsing each run separately gives, in order ---------- *)
Theorem pgs_loop_runs : forall items, norm_ok items ->
  pgs_loop items 0 [] false = OK (concat (map (fun run => map textN (pgs_gN run 0 [])) (runs_of items))).
Proof.
  intros items Hn. fold run_texts. unfold runs_of. rewrite concat_filter_runs by reflexivity.
  rewrite runs_all_decomp. rewrite <- (recomp_decomp items Hn) at 1. unfold recomp.
  apply pgs_loop_segs.
Qed.

Import String.StringSyntax.
Local Delimit Scope string_scope with string.
Definition S_ (s : String.string) : str := str_of_string s.
Arguments S_ s%string.
Definition it_ (l : list String.string) : list item := map (fun s => norm_item_pgs (IStr (S_ s))) l.

Example pgs_loop_runs_hyp :
  norm_ok (it_ ["38"; "5"; "x"; "1"; "+1"; "1.5"]%string)
  /\ it_ ["38"; "5"; "x"; "1"; "+1"; "1.5"]%string
     = [IInt 38; IInt 5; IStr (S_ "x"); IInt 1; IStr (S_ "+1"); IStr (S_ "1.5")]
  /\ runs_of (it_ ["38"; "5"; "x"; "1"; "+1"; "1.5"]%string) = [[38; 5]; [1]].
Proof. split; [repeat constructor; vm_compute; congruence|split; vm_compute; reflexivity]. Qed.
Example pgs_loop_runs_ex1 :
  pgs_loop (it_ ["38"; "5"; "x"; "1"]%string) 0 [] false = OK [S_ "1"]
  /\ runs_of (it_ ["38"; "5"; "x"; "1"]%string) = [[38; 5]; [1]].
Proof. split; vm_compute; reflexivity. Qed.
Example pgs_loop_runs_ex2 :
  pgs_loop (it_ ["38"; "2"; "1"; "2"; "x"; "3"; "4"]%string) 0 [] false = OK [S_ "3"; S_ "4"]
  /\ runs_of (it_ ["38"; "2"; "1"; "2"; "x"; "3"; "4"]%string) = [[38; 2; 1; 2]; [3; 4]].
Proof. split; vm_compute; reflexivity. Qed.
(* without the string item the same numbers read differently: the group swallows 3 *)
Example pgs_loop_runs_contrast :
  pgs_loop (it_ ["38"; "2"; "1"; "2"; "3"; "4"]%string) 0 [] false = OK [S_ "38;2;1;2;3"; S_ "4"].
Proof. vm_compute. reflexivity. Qed.

(* ---------- (2) reduced on top of a prior state: the runs as separate SGR sequences ---------- *)
Lemma sgr_teq p t t' : teq t t' -> teq (sgr spec_class t p) (sgr spec_class t' p).
Proof. intros H. unfold sgr. now apply run_teq. Qed.

Lemma fold_sgr_teq runs : forall t t', teq t t' ->
  teq (fold_left (fun t run => sgr spec_class t run) runs t)
      (fold_left (fun t run => sgr spec_class t run) runs t').
Proof. induction runs as [|r runs IH]; intros t t' H; [exact H|]. cbn [fold_left]. apply IH. now apply sgr_teq. Qed.

Lemma run_s2d_sgr cs d : nodupk d ->
  teq (as_t (s2d (fun x => x) (run_texts cs) d)) (sgr spec_class (as_t d) cs)
  /\ nodupk (s2d (fun x => x) (run_texts cs) d).
Proof.
  intros Hd. destruct (pgs_s2d_is_sgr (length cs) cs d (le_n _) Hd) as [H1 H2]. split; [|exact H2].
  intros e. unfold run_texts. fold (s2dN (pgs_gN cs 0 []) d). rewrite H1. unfold sgr, acts.
  now rewrite (acts_ext gen_class spec_class gen_class_spec).
Qed.

Lemma runs_s2d_sgr runs : forall d, nodupk d ->
  teq (as_t (s2d (fun x => x) (concat (map run_texts runs)) d))
      (fold_left (fun t run => sgr spec_class t run) runs (as_t d))
  /\ nodupk (s2d (fun x => x) (concat (map run_texts runs)) d).
Proof.
  induction runs as [|r runs IH]; intros d Hd.
  - split; [intros e; reflexivity|exact Hd].
  - cbn [map concat fold_left]. unfold s2d. rewrite fold_left_app.
    fold (s2d (fun x : str => x) (run_texts r) d).
    fold (s2d (fun x : str => x) (concat (map run_texts runs)) (s2d (fun x : str => x) (run_texts r) d)).
    destruct (run_s2d_sgr r d Hd) as [H1 H2]. destruct (IH _ H2) as [H3 H4]. split; [|exact H4].
    intros e. rewrite H3. apply fold_sgr_teq. exact H1.
Qed.

Theorem pgs_runs_state : forall items d, norm_ok items -> nodupk d ->
  exists texts, pgs_loop items 0 [] false = OK texts /\
    teq (as_t (s2d (fun x => x) texts d))
        (fold_left (fun t run => sgr spec_class t run) (runs_of items) (as_t d)).
Proof.
  intros items d Hn Hd. eexists. split; [apply pgs_loop_runs; exact Hn|].
  fold run_texts. apply runs_s2d_sgr. exact Hd.
Qed.

(* bold, then (after the junk item) an incomplete colour introducer that must not swallow 4, on top of italic *)
Example pgs_runs_state_ex :
  let items := it_ ["1"; "38"; "5"; "x"; "4"; "38"; "y"; "31"]%string in
  let d : dict str := [(ITALICS, S_ "3")] in
  norm_ok items /\ nodupk d
  /\ runs_of items = [[1; 38; 5]; [4; 38]; [31]]
  /\ pgs_loop items 0 [] false = OK [S_ "1"; S_ "4"; S_ "31"]
  /\ map (fold_left (fun t run => sgr spec_class t run) (runs_of items) (as_t d)) [ITALICS; BOLDNESS; UNDERLINE; FG_COLOR]
     = [Some [3]; Some [1]; Some [4]; Some [31]].
Proof.
  cbv zeta. split; [repeat constructor; vm_compute; congruence|].
  split; [repeat constructor; simpl; tauto|]. repeat split; vm_compute; reflexivity.
Qed.

(* ---------- (3) add_erroneous=True: every token comes back, in order ---------- *)
Lemma pgs_loop_run_true s tail out cs : s <> [] ->
  pgs_loop tail 0 [] true = OK out ->
  forall left cur, exists gs,
  pgs_loop (itemsN cs ++ IStr s :: tail) left (map Z.of_N cur) true = OK (map textN gs ++ s :: out)
  /\ concat gs = cur ++ cs /\ Forall (fun g => g <> []) gs.
Proof.
  intros Hs Hout. induction cs as [|v rest IH]; intros left cur.
  - cbn [itemsN map app pgs_loop]. destruct s as [|s0 s']; [congruence|]. cbn [is_nil]. rewrite Hout. cbn [bind].
    destruct cur as [|c cur'].
    + exists []. repeat split; auto.
    + exists [c :: cur']. cbn [map is_nil]. split; [reflexivity|]. split.
      * cbn [concat]. now rewrite ?app_nil_r.
      * constructor; auto. congruence.
  - assert (Hgo : forall l, exists gs,
      (let cur' := map Z.of_N cur ++ [Z.of_N v] in
       match l with
       | S (S l0) => pgs_loop (itemsN rest ++ IStr s :: tail) (S l0) cur' true
       | _ => do r <- pgs_loop (itemsN rest ++ IStr s :: tail) 0 [] true;
              OK ((if keep_group true cur' then [text_of_items cur'] else []) ++ r)
       end) = OK (map textN gs ++ s :: out) /\ concat gs = cur ++ v :: rest /\ Forall (fun g => g <> []) gs).
    { intros l. cbv zeta.
      assert (E : map Z.of_N cur ++ [Z.of_N v] = map Z.of_N (cur ++ [v])) by (now rewrite map_app).
      rewrite E.
      assert (Hemit : exists gs,
        (do r <- pgs_loop (itemsN rest ++ IStr s :: tail) 0 [] true;
         OK ((if keep_group true (map Z.of_N (cur ++ [v])) then [text_of_items (map Z.of_N (cur ++ [v]))] else []) ++ r))
        = OK (map textN gs ++ s :: out) /\ concat gs = cur ++ v :: rest /\ Forall (fun g => g <> []) gs).
      { destruct (IH 0%nat []) as (gs & H1 & H2 & H3). cbn [map] in H1. rewrite H1. cbn [bind].
        exists ((cur ++ [v]) :: gs). unfold keep_group. cbn [orb map app]. repeat split; auto.
        - cbn [concat]. rewrite H2. cbn [app]. now rewrite <- app_assoc.
        - constructor; auto. destruct cur; simpl; congruence. }
      destruct l as [|[|l0]]; auto.
      destruct (IH (S l0) (cur ++ [v])) as (gs & H1 & H2 & H3). exists gs. repeat split; auto.
      rewrite H2, <- app_assoc. reflexivity. }
    pose proof (intro_kind_tail v rest s tail) as Hik.
    change (itemsN (v :: rest) ++ IStr s :: tail)
      with (IInt (Z.of_N v) :: (itemsN rest ++ IStr s :: tail)) in *.
    cbn [pgs_loop]. rewrite Hik.
    destruct cur as [|c0 cur0].
    + cbn [map]. destruct (intro_kindN (v :: rest)) as [total| |]; [apply (Hgo total)|apply (Hgo 1%nat)|apply (Hgo 1%nat)].
    + change (map Z.of_N (c0 :: cur0)) with (Z.of_N c0 :: map Z.of_N cur0).
      cbv iota beta. change (Z.of_N c0 :: map Z.of_N cur0) with (map Z.of_N (c0 :: cur0)). apply (Hgo left).
Qed.

Lemma concat_nil_nonempty {A} (gs : list (list A)) :
  concat gs = [] -> Forall (fun g => g <> []) gs -> gs = [].
Proof.
  destruct gs as [|g gs]; [reflexivity|]. cbn [concat]. intros H Hf. inversion Hf as [|? ? Hg _]; subst.
  destruct g; [congruence|discriminate].
Qed.

Lemma renders_run cs gs : concat gs = cs -> Forall (fun g => g <> []) gs ->
  exists chunks, concat chunks = map textN gs /\ Forall2 renders (run_piece cs) chunks.
Proof.
  intros Hc Hf. destruct cs as [|c cs].
  - rewrite (concat_nil_nonempty gs Hc Hf). exists []. split; [reflexivity|constructor].
  - exists [map textN gs]. split; [cbn [concat]; apply app_nil_r|]. cbn [run_piece is_nil].
    constructor; [|constructor]. exists gs. auto.
Qed.

Lemma pgs_loop_segs_true segs : Forall (fun sg => fst sg <> []) segs -> forall cs,
  exists chunks, pgs_loop (itemsN cs ++ flat_map seg_items segs) 0 [] true = OK (concat chunks)
                 /\ Forall2 renders (pieces_d (cs, segs)) chunks.
Proof.
  unfold pieces_d. induction segs as [|[s c] segs IH]; intros Hs cs; cbn [fst snd].
  - cbn [flat_map]. rewrite !app_nil_r.
    destruct (pgs_loop_ae cs 0%nat []) as (gs & H1 & H2 & H3). cbn [map app] in H1, H2.
    destruct (renders_run cs gs H2 H3) as (chunks & Hc & Hr). exists chunks. rewrite Hc. auto.
  - inversion Hs as [|? ? Hs1 Hs2]; subst. cbn [fst] in Hs1.
    destruct (IH Hs2 c) as (chunks' & Hl & Hr'). cbn [fst snd] in Hr'.
    cbn [flat_map seg_items fst snd app].
    destruct (pgs_loop_run_true s _ _ cs Hs1 Hl 0%nat []) as (gs & H1 & H2 & H3). cbn [map app] in H1, H2.
    destruct (renders_run cs gs H2 H3) as (chunks & Hc & Hr).
    exists (chunks ++ [s] :: chunks'). split.
    + rewrite H1, concat_app, Hc. reflexivity.
    + apply Forall2_app; [exact Hr|]. constructor; [reflexivity|exact Hr'].
Qed.

Lemma decomp_strs_nonempty items : strs_nonempty items -> Forall (fun sg => fst sg <> []) (snd (decomp items)).
Proof.
  induction items as [|[z|s] r IH]; intros H; [constructor| |]; inversion H as [|? ? H1 H2]; subst;
    specialize (IH H2); cbn [decomp]; destruct (decomp r) as [cs segs]; cbn [snd] in *; auto.
Qed.

Theorem pgs_loop_runs_erroneous : forall items, norm_ok items -> strs_nonempty items ->
  exists chunks, pgs_loop items 0 [] true = OK (concat chunks) /\ Forall2 renders (pieces items) chunks.
Proof.
  intros items Hn Hs. rewrite pieces_decomp. pose proof (recomp_decomp items Hn) as Hr.
  pose proof (decomp_strs_nonempty items Hs) as Hd. destruct (decomp items) as [cs segs].
  rewrite <- Hr. unfold recomp. cbn [fst snd] in *. apply pgs_loop_segs_true. exact Hd.
Qed.

(* read back: the numbers of the returned settings are the numbers of the input, in order *)
Definition item_ints (items : list item) : list N :=
  flat_map (fun it => match it with IInt z => [Z.to_N z] | IStr _ => [] end) items.

Theorem runs_of_ints items : concat (runs_of items) = item_ints items.
Proof.
  unfold runs_of. rewrite <- (map_id (filter _ _)). rewrite (concat_filter_runs (fun x => x)) by reflexivity.
  rewrite map_id. induction items as [|[z|s] r IH]; [reflexivity| |].
  - cbn [runs_all item_ints flat_map app]. fold (item_ints r). rewrite <- IH.
    destruct (runs_all r); reflexivity.
  - cbn [runs_all item_ints flat_map app concat]. exact IH.
Qed.

Example pgs_loop_runs_erroneous_ex :
  let items := it_ ["38"; "5"; "x"; "1"]%string in
  norm_ok items /\ strs_nonempty items
  /\ pieces items = [PRun [38; 5]; PJunk (S_ "x"); PRun [1]]
  /\ pgs_loop items 0 [] true = OK [S_ "38;5"; S_ "x"; S_ "1"].
Proof.
  cbv zeta. split; [repeat constructor; vm_compute; congruence|].
  split; [repeat constructor; vm_compute; congruence|]. split; vm_compute; reflexivity.
Qed.
Example pgs_loop_runs_erroneous_ex2 :
  let items := it_ ["1"; "38"; "2"; "7"; "+1"; "y"; "4"; "5"]%string in
  norm_ok items /\ strs_nonempty items
  /\ pieces items = [PRun [1; 38; 2; 7]; PJunk (S_ "+1"); PJunk (S_ "y"); PRun [4; 5]]
  /\ pgs_loop items 0 [] true = OK [S_ "1"; S_ "38;2;7"; S_ "+1"; S_ "y"; S_ "4"; S_ "5"].
Proof.
  cbv zeta. split; [repeat constructor; vm_compute; congruence|].
  split; [repeat constructor; vm_compute; congruence|]. split; vm_compute; reflexivity.
Qed.
(* the hypothesis on string items is needed: AnsiSetting('') raises *)
Example pgs_loop_erroneous_empty_string :
  pgs_loop [IInt 1; IStr []] 0 [] true = Err ValueError /\ pgs_loop [IInt 1; IStr []] 0 [] false = OK [S_ "1"].
Proof. split; vm_compute; reflexivity. Qed.

(* ---------- (4) the front ends ---------- *)
Lemma norm_item_pgs_cases s :
  (exists n, norm_item_pgs (IStr s) = IInt (Z.of_N n)) \/ norm_item_pgs (IStr s) = IStr s.
Proof.
  unfold norm_item_pgs. destruct (negb (is_nil (strip_ws s)) && forallb is_digit (strip_ws s)) eqn:E; [|now right].
  left. apply andb_true_iff in E as [E1 E2]. unfold norm_item, parse_int. rewrite (strip_ws_digits _ E2).
  destruct (strip_ws s) as [|c r] eqn:Es; [discriminate|].
  pose proof E2 as E3. cbn [forallb] in E3. apply andb_true_iff in E3 as [Hc _]. apply is_digit_spec in Hc.
  destruct (N.eqb_spec c CH_MINUS) as [->|_]; [unfold CH_MINUS in Hc; lia|].
  destruct (N.eqb_spec c CH_PLUS) as [->|_]; [unfold CH_PLUS in Hc; lia|].
  rewrite digits_val_digits by (auto; congruence). cbn [option_map]. eauto.
Qed.

Theorem junk_iff s : junk s <-> junkb s = true.
Proof.
  unfold junk, junkb. destruct (norm_item_pgs_cases s) as [[n ->]| ->]; split; congruence.
Qed.

Lemma norm_ok_norm items : norm_ok items -> norm_ok (map norm_item_pgs items).
Proof.
  intros H. induction H as [|[z|s] r Hx _ IH]; [constructor|constructor; auto|].
  cbn [map]. constructor; [|exact IH]. destruct (norm_item_pgs_cases s) as [[n ->]| ->]; [lia|exact I].
Qed.

Lemma strs_nonempty_norm items : strs_nonempty items -> strs_nonempty (map norm_item_pgs items).
Proof.
  intros H. induction H as [|[z|s] r Hx _ IH]; [constructor|constructor; auto|].
  cbn [map]. constructor; [|exact IH]. destruct (norm_item_pgs_cases s) as [[n ->]| ->]; [exact I|exact Hx].
Qed.

Lemma items_of_str_ok w : norm_ok (items_of_str w) /\ strs_nonempty (items_of_str w).
Proof.
  unfold items_of_str. induction (split_char SEMI w) as [|s l [IH1 IH2]]; [split; constructor|].
  cbn [map]. split; constructor; auto. destruct (strip_ws s); cbn [is_nil]; congruence.
Qed.

Theorem pgs_str_runs : forall w, w <> [] ->
  pgs_str w false
  = OK (concat (map (fun run => map textN (pgs_gN run 0 [])) (runs_of (map norm_item_pgs (items_of_str w))))).
Proof.
  intros w Hw. unfold pgs_str. destruct w as [|c w']; [congruence|].
  apply pgs_loop_runs. apply norm_ok_norm. apply items_of_str_ok.
Qed.

Theorem pgs_str_runs_erroneous : forall w, w <> [] ->
  exists chunks, pgs_str w true = OK (concat chunks)
    /\ Forall2 renders (pieces (map norm_item_pgs (items_of_str w))) chunks.
Proof.
  intros w Hw. unfold pgs_str. destruct w as [|c w']; [congruence|].
  apply pgs_loop_runs_erroneous; [apply norm_ok_norm|apply strs_nonempty_norm]; apply items_of_str_ok.
Qed.

Theorem pgs_str_runs_state : forall w d, w <> [] -> nodupk d ->
  exists texts, pgs_str w false = OK texts /\
    teq (as_t (s2d (fun x => x) texts d))
        (fold_left (fun t run => sgr spec_class t run) (runs_of (map norm_item_pgs (items_of_str w))) (as_t d)).
Proof.
  intros w d Hw Hd. unfold pgs_str. destruct w as [|c w']; [congruence|].
  apply pgs_runs_state; [|exact Hd]. apply norm_ok_norm. apply items_of_str_ok.
Qed.

(* list input: negative numbers are outside these statements; strings may be anything *)
Lemma norm_ok_prep items : norm_ok items -> norm_ok (map prep_item items).
Proof.
  unfold norm_ok. intros H. apply Forall_forall. intros it Hin. apply in_map_iff in Hin as (x & <- & Hx).
  rewrite Forall_forall in H. specialize (H x Hx). destruct x as [z|s0]; cbn [prep_item]; [exact H | exact I].
Qed.

(* (string items of a list are first normalised like the fields of a string: Sgr.prep_item, repair F36) *)
Theorem pgs_items_runs : forall items, items <> [] -> norm_ok items ->
  pgs_items items false
  = OK (concat (map (fun run => map textN (pgs_gN run 0 [])) (runs_of (map norm_item_pgs (map prep_item items))))).
Proof.
  intros items Hi Hn. unfold pgs_items. destruct items as [|i r]; [congruence|].
  apply pgs_loop_runs. apply norm_ok_norm. now apply norm_ok_prep.
Qed.

Example pgs_str_runs_ex :
  pgs_str (S_ "38;5;x;1") false = OK [S_ "1"]
  /\ pgs_str (S_ "1;x;31") false = OK [S_ "1"; S_ "31"]
  /\ pgs_str (S_ "+1;4") false = OK [S_ "4"]
  /\ pgs_str (S_ "38;2;1;2;x;3;4") false = OK [S_ "3"; S_ "4"]
  /\ pgs_str (S_ "38;5;x;1") true = OK [S_ "38;5"; S_ "x"; S_ "1"]
  /\ runs_of (map norm_item_pgs (items_of_str (S_ "38;5;x;1"))) = [[38; 5]; [1]]
  /\ runs_of (map norm_item_pgs (items_of_str (S_ "1;x;31"))) = [[1]; [31]]
  /\ runs_of (map norm_item_pgs (items_of_str (S_ "+1;4"))) = [[4]]
  /\ runs_of (map norm_item_pgs (items_of_str (S_ "38;2;1;2;x;3;4"))) = [[38; 2; 1; 2]; [3; 4]]
  /\ runs_of (map norm_item_pgs (items_of_str (S_ "x;;y; 7 "))) = [[0]; [7]].
Proof. repeat split; vm_compute; reflexivity. Qed.
Example junk_ex :
  junk (S_ "x") /\ junk (S_ "+1") /\ junk (S_ "1.5") /\ junk (S_ "1_0") /\ junk (S_ "-3") /\ junk [1637] /\ junk []
  /\ ~ junk (S_ " 12 ") /\ ~ junk (S_ "007").
Proof. repeat split; try (vm_compute; reflexivity); intros H; apply junk_iff in H; vm_compute in H; discriminate. Qed.
(* empty items of a string are "0"; blanks around digits are tolerated *)
Example pgs_str_runs_ex2 :
  pgs_str (S_ "x;;y; 7 ") false = OK [S_ "0"; S_ "7"]
  /\ pgs_str (S_ "1;38;5;x;4;38;y;31") false = OK [S_ "1"; S_ "4"; S_ "31"]
  /\ pgs_str (S_ "1;38;2;7;+1;y;4;5") true = OK [S_ "1"; S_ "38;2;7"; S_ "+1"; S_ "y"; S_ "4"; S_ "5"].
Proof. repeat split; vm_compute; reflexivity. Qed.
(* LIMIT OF THE MODEL, not of these theorems: is_ws knows the blanks up to U+00A0 only, so a list item such as
   '\u20031' (EM SPACE, '1') is junk here, whereas Python's str.strip() removes U+2003 and reads the number 1:
   parse_graphic_sequence(['\u20031', 4]) == ['1', '4'] but the model answers ['4'].  Cannot arise from text the
   library produces itself. *)
Example model_blank_fragment :
  junk [8195; 49] /\ pgs_items [IStr [8195; 49]; IInt 4] false = OK [S_ "4"].
Proof. split; vm_compute; reflexivity. Qed.
Example pgs_items_runs_ex :
  (* the empty item is 0 (repair F36), as in the ';'-separated form *)
  pgs_items [IInt 38; IInt 5; IStr (S_ "x"); IStr (S_ " 1 "); IStr []; IInt 4] false = OK [S_ "1"; S_ "0"; S_ "4"]
  /\ norm_ok [IInt 38; IInt 5; IStr (S_ "x"); IStr (S_ " 1 "); IStr []; IInt 4].
Proof. split; [vm_compute; reflexivity|repeat constructor; vm_compute; congruence]. Qed.

Print Assumptions pgs_loop_runs.
Print Assumptions pgs_runs_state.
Print Assumptions pgs_loop_runs_erroneous.
Print Assumptions pgs_str_runs.
Print Assumptions pgs_str_runs_erroneous.
Print Assumptions pgs_str_runs_state.
Print Assumptions pgs_items_runs.
Print Assumptions pieces_items.
Print Assumptions runs_of_pieces.
Print Assumptions runs_of_ints.
