(* The algebra of the specification terminal (Spec/Terminal.v): "last writer wins",
   compositionality of the reading of complete code lists, and the correspondence between
   ';'-joined setting texts and concatenated code lists.  Used by Proofs/RenderProofs.v. *)
From AS Require Import Base Effects.
From AS.Spec Require Import Terminal.
Local Open Scope N_scope.

(* ---------- teq is an equivalence, compatible with run ---------- *)
Lemma teq_refl t : teq t t. Proof. intros e; reflexivity. Qed.
Lemma teq_sym a b : teq a b -> teq b a. Proof. intros H e; now rewrite H. Qed.
Lemma teq_trans a b c : teq a b -> teq b c -> teq a c. Proof. intros H1 H2 e; now rewrite H1. Qed.

Lemma apply_act_teq t t' a : teq t t' -> teq (apply_act t a) (apply_act t' a).
Proof. intros H e. destruct a; simpl; unfold tset; auto; destruct (effect_beq _ _); auto. Qed.
Lemma run_teq_l l : forall t t', teq t t' -> teq (run t l) (run t' l).
Proof. unfold run. induction l as [|a l IH]; simpl; intros; auto. apply IH. now apply apply_act_teq. Qed.
Lemma run_app t l1 l2 : run t (l1 ++ l2) = run (run t l1) l2.
Proof. unfold run. apply fold_left_app. Qed.

Lemma teq_disp_refl t : teq_disp t t. Proof. intros e; reflexivity. Qed.
Lemma teq_disp_sym a b : teq_disp a b -> teq_disp b a. Proof. intros H e; now rewrite H. Qed.
Lemma teq_disp_trans a b c : teq_disp a b -> teq_disp b c -> teq_disp a c.
Proof. intros H1 H2 e; now rewrite H1. Qed.
Lemma teq_teq_disp a b : teq a b -> teq_disp a b. Proof. intros H e; now rewrite H. Qed.

(* ---------- last writer wins ---------- *)
Fixpoint last_write (l : list act) (e : effect) : option (option (list N)) :=
  match l with
  | [] => None
  | a :: r => match last_write r e with
              | Some v => Some v
              | None => match a with
                        | AReset => Some None
                        | ASet e' g => if effect_beq e' e then Some (Some g) else None
                        | AClr e' => if effect_beq e' e then Some None else None
                        | ANone => None end end end.

Lemma run_last : forall l t e, run t l e = match last_write l e with Some v => v | None => t e end.
Proof.
  induction l as [|a l IH]; intros t e; simpl; auto.
  unfold run in *. simpl. rewrite IH. destruct (last_write l e); auto.
  destruct a; simpl; unfold tset; auto; destruct (effect_beq e0 e); auto.
Qed.

Lemma last_write_app l1 l2 e :
  last_write (l1 ++ l2) e = match last_write l2 e with Some v => Some v | None => last_write l1 e end.
Proof.
  induction l1 as [|a l1 IH]; simpl. destruct (last_write l2 e); auto.
  rewrite IH. destruct (last_write l2 e); auto.
Qed.

Theorem run_idempotent l t : teq (run (run t l) l) (run t l).
Proof. intros e. rewrite !run_last. destruct (last_write l e); auto. Qed.

(* what the unoptimised renderer relies on: re-emitting everything already active, then more *)
Theorem run_replay l a t : teq (run (run t l) (l ++ a)) (run t (l ++ a)).
Proof.
  intros e. rewrite !run_last, !last_write_app. destruct (last_write a e); auto.
  destruct (last_write l e); auto.
Qed.

(* ---------- compositionality over complete code lists ---------- *)
Section WithClass.
Variable class : N -> cls.

Lemma next_act_shorter p a r ok : p <> [] -> next_act class p = (a, r, ok) -> (length r < length p)%nat.
Proof.
  destruct p as [|c p]; [congruence|]. intros _. unfold next_act.
  destruct (class c); try (intros H; inversion H; subst; simpl; lia).
  destruct p as [|x p]; [intros H; inversion H; simpl; lia|].
  destruct x as [|x]; [intros H; inversion H; simpl; lia|].
  destruct x as [x|x|]; try (intros H; inversion H; simpl; lia).
  - destruct x as [x|x|]; try (intros H; inversion H; simpl; lia).
    destruct x as [x|x|]; try (intros H; inversion H; simpl; lia).
    destruct p as [|n p]; intros H; inversion H; simpl; lia.
  - destruct x as [x|x|]; try (intros H; inversion H; simpl; lia).
    destruct p as [|a1 [|b1 [|d1 p]]]; intros H; inversion H; simpl; lia.
Qed.

(* a complete group followed by more codes is read the same way *)
Lemma next_act_app p q a r : p <> [] -> next_act class p = (a, r, true) ->
  next_act class (p ++ q) = (a, r ++ q, true).
Proof.
  destruct p as [|c p]; [congruence|]. intros _. unfold next_act. rewrite <- app_comm_cons. cbv iota beta.
  destruct (class c); try (intros H; inversion H; subst; reflexivity).
  destruct p as [|x p]; [cbn; intros H; discriminate H|].
  rewrite <- app_comm_cons.
  destruct x as [|x]; [intros H; inversion H; subst; reflexivity|].
  destruct x as [x|x|]; try (intros H; inversion H; subst; reflexivity).
  - destruct x as [x|x|]; try (intros H; inversion H; subst; reflexivity).
    destruct x as [x|x|]; try (intros H; inversion H; subst; reflexivity).
    destruct p as [|n p]; intros H; inversion H; subst; reflexivity.
  - destruct x as [x|x|]; try (intros H; inversion H; subst; reflexivity).
    destruct p as [|a1 [|b1 [|d1 p]]]; intros H; inversion H; subst; reflexivity.
Qed.

Lemma acts_fuel_more : forall f p, (length p <= f)%nat -> forall f', (length p <= f')%nat ->
  acts_fuel class f p = acts_fuel class f' p.
Proof.
  induction f as [|f IH]; intros p Hl f' Hl'.
  - destruct p; simpl in Hl; [|lia]. destruct f'; reflexivity.
  - destruct p as [|c p]. { destruct f'; reflexivity. }
    destruct f' as [|f']; [simpl in Hl'; lia|]. cbn [acts_fuel].
    destruct (next_act class (c :: p)) as [[a r] ok] eqn:E.
    assert (length r < length (c :: p))%nat by (eapply next_act_shorter; eauto; congruence).
    rewrite (IH r) with (f' := f') by (simpl in *; lia). reflexivity.
Qed.

Lemma acts_app_n : forall n p q, (length p <= n)%nat -> complete class p = true ->
  acts class (p ++ q) = acts class p ++ acts class q /\ complete class (p ++ q) = complete class q.
Proof.
  induction n as [|n IH]; intros p q Hl Hc.
  - destruct p; simpl in Hl; [|lia]. simpl. auto.
  - destruct p as [|c p]. { simpl. auto. }
    unfold complete, acts in *. simpl length in *. cbn [acts_fuel] in *.
    destruct (next_act class (c :: p)) as [[a r] ok] eqn:E.
    destruct (acts_fuel class (length p) r) as [l ok'] eqn:E2. simpl in Hc.
    apply andb_true_iff in Hc as [-> ->].
    assert (Hr: (length r < length (c :: p))%nat) by (eapply next_act_shorter; eauto; congruence).
    pose proof (next_act_app (c :: p) q a r) as Happ. rewrite <- app_comm_cons in Happ.
    rewrite app_length. simpl app. cbn [acts_fuel].
    rewrite Happ by (auto; congruence).
    assert (Hr1: acts_fuel class (length r) r = (l, true)).
    { rewrite <- E2. apply acts_fuel_more; simpl in *; lia. }
    destruct (IH r q) as [IH1 IH2]. { simpl in *; lia. } { unfold complete. now rewrite Hr1. }
    unfold acts, complete in IH1, IH2. rewrite Hr1 in IH1. simpl in IH1.
    assert (Hf: acts_fuel class (length p + length q) (r ++ q) = acts_fuel class (length (r ++ q)) (r ++ q)).
    { apply acts_fuel_more; rewrite ?app_length; simpl in *; lia. }
    rewrite Hf. destruct (acts_fuel class (length (r ++ q)) (r ++ q)) as [l2 ok2] eqn:E3. simpl in *.
    split. { now rewrite IH1. } { exact IH2. }
Qed.

Theorem acts_app p q : complete class p = true -> acts class (p ++ q) = acts class p ++ acts class q.
Proof. intros Hc. exact (proj1 (acts_app_n (length p) p q (le_n _) Hc)). Qed.

Theorem complete_app p q : complete class p = true -> complete class (p ++ q) = complete class q.
Proof. intros Hc. exact (proj2 (acts_app_n (length p) p q (le_n _) Hc)). Qed.

Corollary sgr_app p q t : complete class p = true -> sgr class t (p ++ q) = sgr class (sgr class t p) q.
Proof. intros Hc. unfold sgr. rewrite (acts_app p q Hc). apply run_app. Qed.

(* the renderer's re-emission step, on code lists *)
Corollary sgr_replay p q t : complete class p = true ->
  teq (sgr class (sgr class t p) (p ++ q)) (sgr class t (p ++ q)).
Proof. intros Hc. unfold sgr. rewrite (acts_app p q Hc). apply run_replay. Qed.

Lemma sgr_teq p t t' : teq t t' -> teq (sgr class t p) (sgr class t' p).
Proof. intros H. unfold sgr. now apply run_teq_l. Qed.

Lemma complete_nil : complete class [] = true. Proof. reflexivity. Qed.
Lemma acts_nil : acts class [] = []. Proof. reflexivity. Qed.
Lemma sgr_nil t : sgr class t [] = t. Proof. reflexivity. Qed.

Lemma complete_concat ls : Forall (fun p => complete class p = true) ls -> complete class (concat ls) = true.
Proof.
  induction 1 as [|p ls Hp Hls IH]; [reflexivity|]. cbn [concat]. now rewrite complete_app.
Qed.
End WithClass.

(* a leading reset: whatever the state was, the rest is read from the default state *)
Lemma acts_reset p : acts spec_class (0 :: p) = AReset :: acts spec_class p.
Proof.
  unfold acts. change (length (0 :: p)) with (S (length p)).
  generalize (length p). intros n. cbn [acts_fuel].
  change (next_act spec_class (0 :: p)) with (AReset, p, true). cbv iota beta.
  destruct (acts_fuel spec_class n p) as [l ok]. reflexivity.
Qed.
Lemma sgr_reset t p : sgr spec_class t (0 :: p) = sgr spec_class tdefault p.
Proof. unfold sgr. rewrite acts_reset. reflexivity. Qed.
Lemma sgr_reset_only t : sgr spec_class t [0] = tdefault.
Proof. reflexivity. Qed.

(* ---------- from texts to codes ---------- *)
Lemma codes_of_texts_app l1 l2 : codes_of_texts (l1 ++ l2) = codes_of_texts l1 ++ codes_of_texts l2.
Proof. unfold codes_of_texts. now rewrite map_app, concat_app. Qed.

Lemma codes_of_texts_cons t l :
  codes_of_texts (t :: l) = (match params_of t with Some p => p | None => [] end) ++ codes_of_texts l.
Proof. reflexivity. Qed.

Lemma wf_setting_inv t : wf_setting t = true ->
  exists p, params_of t = Some p /\ t <> [] /\ complete spec_class p = true.
Proof.
  unfold wf_setting. destruct (params_of t) as [p|]; [|discriminate]. intros H.
  apply andb_true_iff in H as [H1 H2]. exists p. repeat split; auto. intros ->. discriminate.
Qed.

Lemma complete_codes_of_texts l : Forall (fun t => wf_setting t = true) l ->
  complete spec_class (codes_of_texts l) = true.
Proof.
  intros H. unfold codes_of_texts. apply complete_concat.
  induction H as [|t l Ht Hl IH]; [constructor|]. cbn [map]. constructor; auto.
  destruct (wf_setting_inv t Ht) as (p & -> & _ & Hc). exact Hc.
Qed.

(* split on ';' distributes over a ';' *)
Lemma split_char_app c a b : split_char c (a ++ c :: b) = split_char c a ++ split_char c b.
Proof.
  induction a as [|x a IH].
  - cbn [app split_char]. now rewrite N.eqb_refl.
  - cbn [app split_char]. destruct (x =? c); [now rewrite IH|]. rewrite IH.
    destruct (split_char c a) as [|h tl] eqn:E; [|reflexivity].
    exfalso. clear -E. destruct a as [|y a]; [discriminate|]. cbn [split_char] in E.
    destruct (y =? c); [discriminate|]. destruct (split_char c a); discriminate.
Qed.

Lemma params_of_app a b pa pb : params_of a = Some pa -> params_of b = Some pb ->
  params_of (a ++ SEMI :: b) = Some (pa ++ pb).
Proof.
  unfold params_of. rewrite split_char_app, forallb_app, map_app.
  destruct (forallb all_digits (split_char SEMI a)); [|discriminate].
  destruct (forallb all_digits (split_char SEMI b)); [|discriminate].
  intros H1 H2. inversion H1; inversion H2; subst. reflexivity.
Qed.

(* one emitted sequence  ESC [ t1;t2;...;tn m  reads as the settings one after the other *)
Theorem params_of_join ts : ts <> [] -> Forall (fun t => params_of t <> None) ts ->
  params_of (join [SEMI] ts) = Some (codes_of_texts ts).
Proof.
  intros Hne H. induction H as [|t ts Ht Hts IH]; [congruence|].
  destruct (params_of t) as [p|] eqn:Ep; [|congruence].
  destruct ts as [|t' ts'].
  - cbn [join]. rewrite codes_of_texts_cons, Ep. cbn [codes_of_texts map concat]. now rewrite app_nil_r.
  - change (join [SEMI] (t :: t' :: ts')) with (t ++ SEMI :: join [SEMI] (t' :: ts')).
    rewrite codes_of_texts_cons, Ep. apply params_of_app; auto. apply IH. congruence.
Qed.

Lemma params_of_nil : params_of [] = Some [0]. Proof. reflexivity. Qed.
Lemma params_of_zero : params_of [CH_0] = Some [0]. Proof. reflexivity. Qed.
Lemma params_of_zero_prefix body p : params_of body = Some p ->
  params_of ([CH_0] ++ [SEMI] ++ body) = Some (0 :: p).
Proof. intros H. change ([CH_0] ++ [SEMI] ++ body) with ([CH_0] ++ SEMI :: body). now apply (params_of_app [CH_0] body [0] p). Qed.
Lemma params_of_zero_prefix_none body : params_of body = None -> params_of (CH_0 :: SEMI :: body) = None.
Proof.
  unfold params_of. change (CH_0 :: SEMI :: body) with ([CH_0] ++ SEMI :: body).
  rewrite split_char_app, forallb_app. destruct (forallb all_digits (split_char SEMI body)); [discriminate|].
  now rewrite andb_false_r.
Qed.

(* every character of a numeric text is a digit or ';' *)
Lemma params_of_chars t p : params_of t = Some p -> forallb (fun c => is_digit c || (c =? SEMI)) t = true.
Proof.
  unfold params_of. destruct (forallb all_digits (split_char SEMI t)) eqn:E; [|discriminate]. intros _.
  revert E. induction t as [|x t IH]; [reflexivity|]. cbn [split_char forallb].
  destruct (x =? SEMI) eqn:Ex.
  - cbn [forallb all_digits]. intros H. rewrite orb_true_r. cbn [andb]. apply IH. exact H.
  - destruct (split_char SEMI t) as [|h tl] eqn:Es.
    + exfalso. clear -Es. destruct t as [|y t]; [discriminate|]. cbn [split_char] in Es.
      destruct (y =? SEMI); [discriminate|]. destruct (split_char SEMI t); discriminate.
    + intros H.
      change (forallb all_digits ((x :: h) :: tl))
        with ((is_digit x && forallb is_digit h) && forallb all_digits tl) in H.
      apply andb_true_iff in H as [H1 H2]. apply andb_true_iff in H1 as [H0 H1].
      rewrite H0. cbn [orb andb]. apply IH.
      change (forallb all_digits (h :: tl)) with (forallb is_digit h && forallb all_digits tl).
      now rewrite H1, H2.
Qed.

(* ---------- styles ---------- *)
Lemma style_of_nil : style_of [] = tdefault. Proof. reflexivity. Qed.

Lemma style_of_app A B : Forall (fun t => wf_setting t = true) A ->
  style_of (A ++ B) = sgr spec_class (style_of A) (codes_of_texts B).
Proof.
  intros HA. unfold style_of. rewrite codes_of_texts_app. apply sgr_app. now apply complete_codes_of_texts.
Qed.

(* re-emitting everything that is active on top of the state it produced is harmless *)
Theorem style_replay A B : Forall (fun t => wf_setting t = true) A ->
  teq (sgr spec_class (style_of A) (codes_of_texts (A ++ B))) (style_of (A ++ B)).
Proof.
  intros HA. unfold style_of. rewrite codes_of_texts_app. apply sgr_replay. now apply complete_codes_of_texts.
Qed.

(* ---------- relations on states the rendering proofs can work modulo ---------- *)
Lemma apply_act_teq_disp t t' a : teq_disp t t' -> teq_disp (apply_act t a) (apply_act t' a).
Proof. intros H e. destruct a; simpl; unfold tset; auto; destruct (effect_beq _ _); auto. Qed.
Lemma run_teq_disp l : forall t t', teq_disp t t' -> teq_disp (run t l) (run t' l).
Proof. unfold run. induction l as [|a l IH]; simpl; intros; auto. apply IH. now apply apply_act_teq_disp. Qed.
Lemma sgr_teq_disp class p t t' : teq_disp t t' -> teq_disp (sgr class t p) (sgr class t' p).
Proof. intros H. unfold sgr. now apply run_teq_disp. Qed.

Record rel_ok (R : tstate -> tstate -> Prop) : Prop := {
  R_refl : forall t, R t t;
  R_trans : forall a b c, R a b -> R b c -> R a c;
  R_teq : forall a b, teq a b -> R a b;
  R_sgr : forall a b p, R a b -> R (sgr spec_class a p) (sgr spec_class b p) }.

Lemma teq_rel_ok : rel_ok teq.
Proof. constructor; [apply teq_refl|apply teq_trans|auto|intros; now apply sgr_teq]. Qed.
Lemma teq_disp_rel_ok : rel_ok teq_disp.
Proof. constructor; [apply teq_disp_refl|apply teq_disp_trans|apply teq_teq_disp|intros; now apply sgr_teq_disp]. Qed.

(* ---------- non-vacuity ---------- *)
Example wf_texts_ex :
  Forall (fun t => wf_setting t = true)
         [[49; 59; 51]; [51; 56; 59; 53; 59; 50; 48; 48]; [50; 50]]      (* "1;3", "38;5;200", "22" *)
  /\ params_of (join [SEMI] [[49; 59; 51]; [51; 56; 59; 53; 59; 50; 48; 48]; [50; 50]])
     = Some [1; 3; 38; 5; 200; 22].
Proof. split; [repeat constructor|reflexivity]. Qed.

Example complete_ex : complete spec_class [1; 38; 5; 200] = true /\ complete spec_class [1; 38; 5] = false.
Proof. split; reflexivity. Qed.

(* acts_app really needs completeness: a cut-off colour group swallows what follows *)
Example acts_app_needs_complete :
  acts spec_class ([38; 5] ++ [1]) <> acts spec_class [38; 5] ++ acts spec_class [1].
Proof. vm_compute. discriminate. Qed.

Print Assumptions run_replay.
Print Assumptions acts_app.
Print Assumptions complete_app.
Print Assumptions sgr_replay.
Print Assumptions params_of_join.
Print Assumptions style_replay.
