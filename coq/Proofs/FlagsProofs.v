(* AnsiSetting.valid / parsable are exact (C15). *)
From AS Require Import Base Effects.
From AS.Spec Require Import Terminal.
From AS.Model Require Import Sgr Scrub.
From AS.Proofs Require Import DecProofs GenCodeTable SgrProofs ScrubProofs.
Local Open Scope N_scope.

(* valid: no character in 0x40 - 0x7E *)
Theorem valid_spec t : valid t = true <-> forall c, In c t -> ~ (64 <= c <= 126).
Proof.
  unfold valid. rewrite negb_true_iff. split.
  - intros H c Hin [A B]. assert (existsb is_final t = true); [|congruence].
    apply existsb_exists. exists c. split; auto. unfold is_final. apply andb_true_iff. split; apply N.leb_le; lia.
  - intros H. destruct (existsb is_final t) eqn:E; auto. apply existsb_exists in E as (c & Hin & Hf).
    unfold is_final in Hf. apply andb_true_iff in Hf as [A B]. apply N.leb_le in A, B. exfalso. apply (H c Hin). lia.
Qed.

(* the strict grammar  [0-9]+(;[0-9]+)*  on the items between ';' *)
Definition strict_grammar (t : str) : bool :=
  forallb (fun d => negb (is_nil d) && all_digits d) (split_char SEMI t).

(* "one complete known SGR parameter group other than reset", in terms of the SPECIFICATION's
   classification of codes *)
Definition spec_group_ok (g : list N) : bool :=
  match g with
  | [v] => match spec_class v with CSet _ | CClr _ => true | _ => false end
  | [v; 5; _] => match spec_class v with CIntro _ => true | _ => false end
  | [v; 2; _; _; _] => match spec_class v with CIntro _ => true | _ => false end
  | _ => false
  end.
Lemma group_ok_spec g : group_ok g = spec_group_ok g.
Proof. unfold group_ok, spec_group_ok. destruct g as [|v r]; auto. now rewrite gen_class_spec. Qed.

(* --- split_char facts --- *)
Lemma split_char_nonnil c s : split_char c s <> [].
Proof. induction s as [|x r IH]; cbn [split_char]; [discriminate|]. destruct (x =? c); [discriminate|]. destruct (split_char c r); discriminate. Qed.

Lemma split_char_items c s (P : char -> bool) :
  forallb (fun x => P x || (x =? c)) s = true -> forallb (forallb P) (split_char c s) = true.
Proof.
  induction s as [|x r IH]; cbn [split_char forallb]; [reflexivity|]. intros H.
  apply andb_true_iff in H as [Hx Hr]. specialize (IH Hr).
  destruct (x =? c) eqn:E.
  - cbn [forallb]. exact IH.
  - rewrite orb_false_r in Hx. pose proof (split_char_nonnil c r) as Hn.
    destruct (split_char c r) as [|h t]; [congruence|]. cbn [forallb] in *. now rewrite Hx.
Qed.

Lemma split_char_items_conv c s (P : char -> bool) :
  forallb (forallb P) (split_char c s) = true -> forallb (fun x => P x || (x =? c)) s = true.
Proof.
  induction s as [|x r IH]; cbn [split_char forallb]; [reflexivity|].
  destruct (x =? c) eqn:E.
  - cbn [forallb]. intros H. rewrite orb_true_r. now apply IH.
  - pose proof (split_char_nonnil c r) as Hn. destruct (split_char c r) as [|h t] eqn:Es; [congruence|].
    cbn [forallb]. intros H. apply andb_true_iff in H as [H1 H2]. apply andb_true_iff in H1 as [Hx Hh].
    rewrite Hx. cbn [orb andb]. apply IH. cbn [forallb]. now rewrite Hh.
Qed.

Lemma strict_chars_items t : strict_chars t = forallb all_digits (split_char SEMI t).
Proof.
  unfold strict_chars. change (forallb all_digits) with (forallb (forallb is_digit)).
  destruct (forallb (forallb is_digit) (split_char SEMI t)) eqn:E.
  - apply (split_char_items_conv SEMI t is_digit E).
  - destruct (forallb (fun c => is_digit c || (c =? SEMI)) t) eqn:E2; auto.
    apply (split_char_items SEMI t is_digit) in E2. congruence.
Qed.

Lemma strict_grammar_split t :
  strict_grammar t = strict_chars t && forallb (fun d => negb (is_nil d)) (split_char SEMI t).
Proof.
  rewrite strict_chars_items. unfold strict_grammar.
  induction (split_char SEMI t) as [|d l IH]; [reflexivity|]. cbn [forallb]. rewrite IH.
  destruct (is_nil d), (all_digits d), (forallb all_digits l); reflexivity.
Qed.

Lemma num_of_dval d : num_of d = dval d 0. Proof. reflexivity. Qed.

Lemma norm_item_digits d : all_digits d = true -> d <> [] ->
  norm_item (IStr (strip_ws d)) = IInt (Z.of_N (num_of d)).
Proof.
  intros Hd Hne. unfold all_digits in Hd. rewrite (strip_ws_digits d Hd). cbn [norm_item].
  unfold parse_int. rewrite (strip_ws_digits d Hd). destruct d as [|c r]; [congruence|].
  assert (Hc : is_digit c = true) by (cbn [forallb] in Hd; now apply andb_true_iff in Hd as [? _]).
  apply is_digit_spec in Hc.
  replace (c =? CH_MINUS) with false by (symmetry; apply N.eqb_neq; unfold CH_MINUS; lia).
  replace (c =? CH_PLUS) with false by (symmetry; apply N.eqb_neq; unfold CH_PLUS; lia).
  rewrite (digits_val_digits (c :: r) 0 Hd Hne false). reflexivity.
Qed.

Lemma to_list_strict t : strict_grammar t = true ->
  to_list t = map (fun d => IInt (Z.of_N (num_of d))) (split_char SEMI t).
Proof.
  unfold strict_grammar, to_list. induction (split_char SEMI t) as [|d l IH]; [reflexivity|].
  cbn [forallb map]. intros H. apply andb_true_iff in H as [Hd Hl]. apply andb_true_iff in Hd as [Hn Hd].
  rewrite IH by exact Hl. f_equal. apply norm_item_digits; auto. destruct d; [discriminate | congruence].
Qed.

Lemma all_codes_nums (l : list str) :
  all_codes (map (fun d => IInt (Z.of_N (num_of d))) l) = if ok255 (map num_of l) then Some (map num_of l) else None.
Proof.
  induction l as [|d l IH]; [reflexivity|]. cbn [map all_codes ok255 forallb]. rewrite item_code_N, IH.
  destruct (num_of d <=? 255); [|reflexivity]. fold (ok255 (map num_of l)). destruct (ok255 (map num_of l)); reflexivity.
Qed.

Lemma valid_strict t : strict_chars t = true -> valid t = true.
Proof.
  unfold strict_chars, valid. intros H. apply negb_true_iff.
  induction t as [|c r IH]; [reflexivity|]. cbn [forallb existsb] in *. apply andb_true_iff in H as [Hc Hr].
  rewrite (IH Hr), orb_false_r. apply orb_true_iff in Hc as [Hd|Hs].
  - apply is_digit_spec in Hd. unfold is_final. apply andb_false_iff. left. apply N.leb_gt. lia.
  - apply N.eqb_eq in Hs. subst. reflexivity.
Qed.

Lemma empty_item_not_parsable t :
  forallb (fun d => negb (is_nil d)) (split_char SEMI t) = false -> all_codes (to_list t) = None.
Proof.
  unfold to_list. induction (split_char SEMI t) as [|d l IH]; [discriminate|]. cbn [forallb map all_codes].
  destruct d as [|c r].
  - intros _. reflexivity.
  - cbn [is_nil negb andb]. intros H. rewrite (IH H). destruct (item_code _); reflexivity.
Qed.

(* parsable is exact: the text is in the strict decimal grammar and its parameters, as a terminal
   reads them (params_of), are one complete known group other than reset with all values <= 255 *)
Theorem parsable_exact t :
  parsable t = strict_grammar t &&
               match params_of t with Some g => ok255 g && spec_group_ok g | None => false end.
Proof.
  unfold parsable. rewrite strict_grammar_split.
  destruct (strict_chars t) eqn:Es; [|now rewrite andb_false_r].
  rewrite (valid_strict t Es). cbn [andb].
  destruct (forallb (fun d => negb (is_nil d)) (split_char SEMI t)) eqn:En.
  - assert (Hg : strict_grammar t = true) by (rewrite strict_grammar_split, Es, En; reflexivity).
    rewrite (to_list_strict t Hg), all_codes_nums.
    unfold params_of. rewrite <- strict_chars_items, Es.
    destruct (ok255 (map num_of (split_char SEMI t))); [apply group_ok_spec | reflexivity].
  - now rewrite (empty_item_not_parsable t En).
Qed.

(* every setting of every AnsiFormat member is valid and parsable (by computation over the
   generated member table) *)
Theorem members_valid_parsable :
  forallb (fun n => match member_texts n with
                    | Some ts => forallb (fun t => valid t && parsable t) ts
                    | None => false end) names = true.
Proof. vm_compute. reflexivity. Qed.

(* helper results with in-range arguments *)
Theorem rgb3_valid_parsable r g b comp :
  forallb (fun t => valid t && parsable t) (rgb3 r g b comp) = true.
Proof.
  assert (H : forall z, (0 <= clamp255 z <= 255)%Z) by (intros z; unfold clamp255; lia).
  unfold rgb3, color_texts.
  set (r' := clamp255 r). set (g' := clamp255 g). set (b' := clamp255 b).
  pose proof (H r) as Hr. pose proof (H g) as Hg. pose proof (H b) as Hb. fold r' in Hr. fold g' in Hg. fold b' in Hb.
  assert (E : forall v, text_of_items [v; 2; r'; g'; b']%Z = textN [Z.to_N v; 2; Z.to_N r'; Z.to_N g'; Z.to_N b'] \/ (v < 0)%Z).
  { intros v. destruct (Z.ltb_spec v 0); [now right|left]. unfold textN. cbn [map]. rewrite !Z2N.id by lia. reflexivity. }
  assert (P : forall v, (v = 38 \/ v = 48 \/ v = 58)%Z -> valid (text_of_items [v; 2; r'; g'; b']%Z) && parsable (text_of_items [v; 2; r'; g'; b']%Z) = true).
  { intros v Hv. destruct (E v) as [-> | Hneg]; [|lia].
    rewrite valid_textN, parsable_textN by discriminate. unfold parsableN. cbn [andb].
    apply andb_true_iff. split.
    - cbn [ok255 forallb]. rewrite !andb_true_iff. repeat split; try apply N.leb_le; try lia; destruct Hv as [-> | [-> | ->]]; cbn; lia.
    - destruct Hv as [-> | [-> | ->]]; reflexivity. }
  destruct comp; cbn [forallb]; rewrite ?andb_true_r.
  - apply P; auto.
  - apply P; auto.
  - rewrite P by auto. reflexivity.
  - rewrite P by auto. reflexivity.
Qed.
