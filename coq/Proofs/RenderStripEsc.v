(* C15, rendering clause, with embedded control sequences that are not SGR.
   Proofs/RenderStrip.v proves "removing every ESC [ ... m from a rendering leaves the base text, and the removed
   sequences are exactly the emitted ones" under no_esc (base a).  Here the hypothesis is weakened to
   RoundTripEsc.cuts_closed a: the base text may contain complete control sequences with another final byte than m
   (ESC [ 2 J ...), as long as no change point of the table lies strictly inside one of them.

   1. tokenize_closed        : a closed text tokenises to its own characters in every context, for BOTH values of
                               allow_empty_terminator (RoundTripEsc.tkz_closed is the ae = false instance).
   2. tokenize_bytes_closed  : the parser applied to the bytes of a token list whose texts are closed and whose code
                               strings have no final byte gives back the token list (ae generic).
   3. to_str_toks_valid_ok'  : validity of the table + cuts_closed make every emitted token fine, for both renderers.
   4. render_strips_to_base_esc, render_strips_to_base_esc_WFv, render_sequences_esc.
   5. the theorems of RenderStrip.v are instances; non-vacuity; cuts_closed is needed. *)
From Coq Require Import List Arith NArith Bool Lia.
Import ListNotations.
From AS Require Import Base Effects.
From AS.Model Require Import Sgr Tokenizer Table Render.
From AS.Proofs Require Import TableProofs PadProofs RenderProofs RenderStrip RoundTripEsc.
From AS.Proofs Require InvariantProofs.
Local Open Scope nat_scope.

(* ====================================================================================== *)
(* 1. The tokenizer on a closed text, whatever allow_empty_terminator                       *)
(* ====================================================================================== *)
(* a complete sequence whose final byte is not m is rejected by acceptable = "m" and written back as characters;
   the flag ae is only consulted for a sequence WITHOUT final byte, so it plays no part here *)
Lemma tokenize_rejected ae b t rest : nonfinal b = true -> is_final t = true -> (t =? CH_m)%N = false ->
  tokenize ae (Some [CH_m]) (ESC :: LBR :: b ++ t :: rest)
  = map TChar (ESC :: LBR :: b ++ [t]) ++ tokenize ae (Some [CH_m]) rest.
Proof.
  intros Hb Ht Hm. unfold tokenize.
  assert (Hn : exists n, length (ESC :: LBR :: b ++ t :: rest) = S n /\ length rest <= n).
  { cbn [length]. rewrite app_length. cbn [length]. eexists; split; [reflexivity|lia]. }
  destruct Hn as (n & -> & Hn). cbn [tokenize_fuel].
  change ((ESC =? ESC)%N && (LBR =? LBR)%N) with true. cbv iota.
  rewrite (tk_span_body_stop b t rest Hb Ht).
  unfold accept, mem_char. cbn [existsb andb]. rewrite Hm. cbn [orb]. cbn [term_chars].
  f_equal. apply tokenize_fuel_more; lia.
Qed.

Lemma tokenize_closed_len ae : forall n x, length x <= n -> closed_text x = true ->
  forall rest, tokenize ae (Some [CH_m]) (x ++ rest) = map TChar x ++ tokenize ae (Some [CH_m]) rest.
Proof.
  unfold closed_text.
  induction n as [|n IH]; intros x Hl Hx rest.
  { destruct x; [reflexivity|cbn [length] in Hl; lia]. }
  destruct x as [|c r]; [reflexivity|]. cbn [length] in Hl. cbn [closed_st] in Hx.
  destruct (c =? ESC)%N eqn:Ec.
  - destruct r as [|c2 r2]; [discriminate|]. cbn [closed_st] in Hx. cbn [length] in Hl.
    destruct (c2 =? LBR)%N eqn:El.
    + apply N.eqb_eq in Ec, El. subst c c2.
      destruct (closed_body_inv r2 Hx) as (b & t & r4 & -> & Hb & Ht & Hm & Hr).
      cbn [app]. rewrite <- app_assoc. cbn [app]. rewrite (tokenize_rejected ae b t (r4 ++ rest) Hb Ht Hm).
      rewrite (IH r4) by (try exact Hr; rewrite app_length in Hl; cbn [length] in Hl; lia).
      rewrite app_assoc, <- map_app. f_equal. f_equal. cbn [app]. rewrite <- app_assoc. reflexivity.
    + cbn [app]. rewrite tkz_nonseq by (rewrite El; apply andb_false_r).
      change (map TChar (c :: c2 :: r2) ++ tokenize ae (Some [CH_m]) rest)
        with (TChar c :: (map TChar (c2 :: r2) ++ tokenize ae (Some [CH_m]) rest)).
      f_equal. change (c2 :: r2 ++ rest) with ((c2 :: r2) ++ rest).
      apply IH; [cbn [length]; lia|]. cbn [closed_st]. exact Hx.
  - cbn [app]. rewrite (tokenize_plain ae _ c _ Ec).
    change (map TChar (c :: r) ++ tokenize ae (Some [CH_m]) rest)
      with (TChar c :: (map TChar r ++ tokenize ae (Some [CH_m]) rest)).
    f_equal. apply IH; [lia|exact Hx].
Qed.

Theorem tokenize_closed ae x rest : closed_text x = true ->
  tokenize ae (Some [CH_m]) (x ++ rest) = map TChar x ++ tokenize ae (Some [CH_m]) rest.
Proof. intros H. now apply (tokenize_closed_len ae (length x) x (le_n _)). Qed.

(* in particular at the very end of the input (the last piece of a rendering without reset_end) *)
Corollary tokenize_closed_alone ae x : closed_text x = true -> tokenize ae (Some [CH_m]) x = map TChar x.
Proof. intros H. pose proof (tokenize_closed ae x [] H) as E. now rewrite !app_nil_r in E. Qed.

(* the flag does matter for a text that is not closed: an unterminated ESC [ 2 at the end *)
Example ae_matters_when_open :
  closed_text [65; 27; 91; 50]%N = false
  /\ tokenize false (Some [CH_m]) [65; 27; 91; 50]%N = map TChar [65; 27; 91; 50]%N
  /\ tokenize true (Some [CH_m]) [65; 27; 91; 50]%N = [TChar 65%N; TSeq {| cs_body := [50%N]; cs_term := None |}].
Proof. repeat split. Qed.

(* ====================================================================================== *)
(* 2. Tokenising the bytes of a token list whose text pieces are closed (ae generic)        *)
(* ====================================================================================== *)
Lemma tokenize_bytes_closed : forall toks ae, Forall tok_ok' toks ->
  tokenize ae (Some [CH_m]) (bytes_of toks) = flat_map toks_of_otok toks.
Proof.
  induction toks as [|k toks IH]; intros ae Hok; [reflexivity|].
  inversion Hok as [|? ? Hk Hr]; subst. destruct k as [s|c]; cbn [tok_ok'] in Hk.
  - unfold bytes_of. cbn [flat_map bytes_of_tok toks_of_otok]. fold (bytes_of toks).
    rewrite (tokenize_closed ae s _ Hk). f_equal. now apply IH.
  - unfold bytes_of. cbn [flat_map bytes_of_tok toks_of_otok]. fold (bytes_of toks).
    cbn [app]. rewrite <- app_assoc. cbn [app]. rewrite (tokenize_sgr ae c _ Hk). f_equal. now apply IH.
Qed.

Theorem tokenize_bytes_of_closed : forall toks ae, Forall tok_ok' toks ->
  unformatted (tokenize ae (Some [CH_m]) (bytes_of toks)) = texts_of toks
  /\ seqs_of (tokenize ae (Some [CH_m]) (bytes_of toks)) = map sgr_seq (codes_of toks).
Proof.
  intros toks ae Hok. rewrite (tokenize_bytes_closed toks ae Hok). split.
  - apply unformatted_toks.
  - apply seqs_of_toks.
Qed.

Example tokenize_bytes_of_closed_ex :               (* ESC[1m  A ESC[2J  ESC[m  B *)
  let l := [OSgr [49]%N; OText [65; 27; 91; 50; 74]%N; OSgr []; OText [66]%N] in
  Forall tok_ok' l /\ ~ Forall tok_ok l
  /\ unformatted (tokenize true (Some [CH_m]) (bytes_of l)) = [65; 27; 91; 50; 74; 66]%N
  /\ seqs_of (tokenize true (Some [CH_m]) (bytes_of l)) = [sgr_seq [49]%N; sgr_seq []].
Proof.
  cbv zeta. split; [repeat constructor|]. split; [|split; reflexivity].
  intros H. inversion H as [|? ? _ H2]; subst. inversion H2 as [|? ? H3 _]; subst.
  cbn [tok_ok] in H3. vm_compute in H3. discriminate.
Qed.

(* ====================================================================================== *)
(* 3. Every emitted token of a valid value with closed cuts is fine                         *)
(* ====================================================================================== *)
(* validity alone serves both renderers: the non-optimised one writes the setting texts (no final byte, by
   validity); the optimised one runs only when the whole table is parsable, and then writes numeric codes *)
Theorem to_str_toks_valid_ok' a o rs re : is_valid_tbl (tbl a) = true -> cuts_closed a = true ->
  Forall tok_ok' (to_str_toks a o rs re).
Proof.
  intros Hv Hcc.
  assert (Hun : Forall tok_ok' (to_str_toks a false rs re)).
  { apply to_str_toks_unopt_ok'; auto. intros x Hx. apply valid_nonfinal. now apply (is_valid_tbl_spec _ Hv). }
  destruct o; [|exact Hun]. destruct (is_parsable_tbl (tbl a)) eqn:Ep.
  - apply to_str_toks_ok'; auto. apply adds_parsable_wf. now apply is_parsable_tbl_spec.
  - rewrite to_str_toks_unopt_eq by now right. exact Hun.
Qed.

(* ====================================================================================== *)
(* 4. The rendering clause of C15 under cuts_closed                                         *)
(* ====================================================================================== *)
Theorem render_strips_to_base_esc : forall a o rs re ae,
  ssorted (tbl a) -> is_valid_tbl (tbl a) = true -> cuts_closed a = true ->
  unformatted (tokenize ae (Some [CH_m]) (to_str a o rs re)) = base a.
Proof.
  intros a o rs re ae Hs Hv Hcc. unfold to_str.
  destruct (tokenize_bytes_of_closed _ ae (to_str_toks_valid_ok' a o rs re Hv Hcc)) as [H _].
  rewrite H. now apply to_str_toks_texts.
Qed.

(* the removed sequences are exactly the emitted SGR sequences, each ended by m; the embedded sequences of the base
   text are not among them (they stay characters of the text) *)
Theorem render_sequences_esc : forall a o rs re ae,
  is_valid_tbl (tbl a) = true -> cuts_closed a = true ->
  seqs_of (tokenize ae (Some [CH_m]) (to_str a o rs re)) = map sgr_seq (codes_of (to_str_toks a o rs re)).
Proof.
  intros a o rs re ae Hv Hcc. unfold to_str.
  destruct (tokenize_bytes_of_closed _ ae (to_str_toks_valid_ok' a o rs re Hv Hcc)) as [_ H]. exact H.
Qed.

(* the whole token list, from which both follow *)
Theorem render_tokens_esc : forall a o rs re ae,
  is_valid_tbl (tbl a) = true -> cuts_closed a = true ->
  tokenize ae (Some [CH_m]) (to_str a o rs re) = flat_map toks_of_otok (to_str_toks a o rs re).
Proof.
  intros a o rs re ae Hv Hcc. unfold to_str. apply tokenize_bytes_closed. now apply to_str_toks_valid_ok'.
Qed.

(* the same under the value invariants used elsewhere *)
Corollary render_strips_to_base_esc_wf : forall a o rs re ae,
  PadProofs.wf a -> is_valid_tbl (tbl a) = true -> cuts_closed a = true ->
  unformatted (tokenize ae (Some [CH_m]) (to_str a o rs re)) = base a.
Proof. intros a o rs re ae (Hs & _) Hv Hcc. now apply render_strips_to_base_esc. Qed.
Corollary render_strips_to_base_esc_WFv : forall a o rs re ae,
  InvariantProofs.WFv a -> is_valid_tbl (tbl a) = true -> cuts_closed a = true ->
  unformatted (tokenize ae (Some [CH_m]) (to_str a o rs re)) = base a.
Proof. intros a o rs re ae (Hs & _) Hv Hcc. now apply render_strips_to_base_esc. Qed.

(* ====================================================================================== *)
(* 5. The theorems of RenderStrip.v are the instances without ESC                           *)
(* ====================================================================================== *)
Corollary render_strips_to_base_esc_covers : forall a o rs re ae,
  ssorted (tbl a) -> is_valid_tbl (tbl a) = true -> no_esc (base a) = true ->
  unformatted (tokenize ae (Some [CH_m]) (to_str a o rs re)) = base a.
Proof. intros a o rs re ae Hs Hv He. apply render_strips_to_base_esc; auto. now apply no_esc_cuts_closed. Qed.
Corollary render_strips_to_base_esc_WFv_covers : forall a o rs re ae,
  InvariantProofs.WFv a -> is_valid_tbl (tbl a) = true -> no_esc (base a) = true ->
  unformatted (tokenize ae (Some [CH_m]) (to_str a o rs re)) = base a.
Proof. intros a o rs re ae Hw Hv He. apply render_strips_to_base_esc_WFv; auto. now apply no_esc_cuts_closed. Qed.
Corollary render_sequences_esc_covers : forall a o rs re ae,
  is_valid_tbl (tbl a) = true -> no_esc (base a) = true ->
  seqs_of (tokenize ae (Some [CH_m]) (to_str a o rs re)) = map sgr_seq (codes_of (to_str_toks a o rs re)).
Proof. intros a o rs re ae Hv He. apply render_sequences_esc; auto. now apply no_esc_cuts_closed. Qed.

(* ====================================================================================== *)
(* 6. Non-vacuity, and the hypothesis is needed                                             *)
(* ====================================================================================== *)
(* RoundTripEsc.ex_e: "A" ESC [ 2 J "B", bold on "A", italic from "B" -- parsable, so the optimiser runs *)
Lemma ex_e_sorted : ssorted (tbl ex_e).
Proof.
  repeat constructor; cbn [In fst]; intros kp H;
    repeat (destruct H as [<-|H]; [cbn [fst]; lia|]); destruct H.
Qed.

Example ex_e_hyps' :
  ssorted (tbl ex_e) /\ is_valid_tbl (tbl ex_e) = true /\ is_parsable_tbl (tbl ex_e) = true
  /\ cuts_closed ex_e = true /\ no_esc (base ex_e) = false.
Proof. split; [exact ex_e_sorted|]. repeat split; vm_compute; reflexivity. Qed.

Example ex_e_stripped :
  to_str_toks ex_e true false true
  = [OSgr [49]%N; OText [65]%N; OSgr []; OText [27; 91; 50; 74]%N; OSgr [51]%N; OText [66]%N; OSgr []]
  /\ unformatted (tokenize false (Some [CH_m]) (to_str ex_e true false true)) = [65; 27; 91; 50; 74; 66]%N
  /\ seqs_of (tokenize false (Some [CH_m]) (to_str ex_e true false true))
     = [sgr_seq [49]%N; sgr_seq []; sgr_seq [51]%N; sgr_seq []]
  /\ unformatted (tokenize true (Some [CH_m]) (to_str ex_e true true false)) = base ex_e
  /\ seqs_of (tokenize true (Some [CH_m]) (to_str ex_e true true false))
     = [sgr_seq [48; 59; 49]%N; sgr_seq []; sgr_seq [51]%N].
Proof. repeat split; vm_compute; reflexivity. Qed.

(* the same text with verbatim settings: "1;31" on "A", "4:3" (valid, not parsable) on "B" -- the whole table goes
   through the non-optimised renderer, and the setting texts come out as given; every setting is closed again, so
   the value also satisfies InvariantProofs.WFv *)
Definition ex_ev : astr :=
  mkA [65; 27; 91; 50; 74; 66]%N
      [(0, mkP [S131] []); (1, mkP [] [S131]); (5, mkP [S43] []); (6, mkP [] [S43])].

Lemma ex_ev_sorted : ssorted (tbl ex_ev).
Proof.
  repeat constructor; cbn [In fst]; intros kp H;
    repeat (destruct H as [<-|H]; [cbn [fst]; lia|]); destruct H.
Qed.

Example ex_ev_hyps :
  ssorted (tbl ex_ev) /\ InvariantProofs.WFv ex_ev
  /\ is_valid_tbl (tbl ex_ev) = true /\ is_parsable_tbl (tbl ex_ev) = false
  /\ cuts_closed ex_ev = true /\ no_esc (base ex_ev) = false.
Proof.
  split; [exact ex_ev_sorted|]. split.
  { split; [exact ex_ev_sorted|]. split.
    { intros kp H. cbn in H. repeat (destruct H as [<-|H]; [cbn; lia|]). destruct H. }
    split; [vm_compute; reflexivity|]. split; [|vm_compute; reflexivity].
    intros k. do 6 (destruct k as [|k]; [vm_compute; repeat constructor; cbn; intuition discriminate|]).
    vm_compute. repeat constructor; cbn; intuition discriminate. }
  repeat split; vm_compute; reflexivity.
Qed.

Example ex_ev_stripped :
  to_str_toks ex_ev true true true
  = [OSgr [48; 59; 49; 59; 51; 49]%N; OText [65]%N; OSgr []; OText [27; 91; 50; 74]%N;
     OSgr [52; 58; 51]%N; OText [66]%N; OSgr []]
  /\ unformatted (tokenize false (Some [CH_m]) (to_str ex_ev true true true)) = [65; 27; 91; 50; 74; 66]%N
  /\ seqs_of (tokenize false (Some [CH_m]) (to_str ex_ev true true true))
     = [sgr_seq [48; 59; 49; 59; 51; 49]%N; sgr_seq []; sgr_seq [52; 58; 51]%N; sgr_seq []]
  /\ unformatted (tokenize true (Some [CH_m]) (to_str ex_ev false false false)) = base ex_ev.
Proof. repeat split; vm_compute; reflexivity. Qed.

(* cuts_closed is needed, closed_text (base a) alone is not enough.  RoundTripEsc.ex_inside: bold on "A" ESC [, off
   from "2" -- a change point strictly inside ESC [ 2 J.  The rendering is ESC[1m A ESC [ ESC[m 2 J B; the parser
   reads ESC [ ESC [ as a rejected sequence (body ESC, final byte [) and keeps it and the following "m" as text *)
Example cuts_closed_needed :
  ssorted (tbl ex_inside) /\ is_valid_tbl (tbl ex_inside) = true /\ closed_text (base ex_inside) = true
  /\ cuts_closed ex_inside = false
  /\ unformatted (tokenize false (Some [CH_m]) (to_str ex_inside true false true))
     = [65; 27; 91; 27; 91; 109; 50; 74; 66]%N
  /\ unformatted (tokenize false (Some [CH_m]) (to_str ex_inside true false true)) <> base ex_inside
  /\ seqs_of (tokenize false (Some [CH_m]) (to_str ex_inside true false true))
     <> map sgr_seq (codes_of (to_str_toks ex_inside true false true)).
Proof.
  split.
  { repeat constructor; cbn [In fst]; intros kp H;
      repeat (destruct H as [<-|H]; [cbn [fst]; lia|]); destruct H. }
  split; [reflexivity|]. split; [reflexivity|]. split; [reflexivity|]. split; [vm_compute; reflexivity|].
  split; vm_compute; discriminate.
Qed.

(* an unterminated ESC [ at the end of the text (base not closed): the final reset completes it into an SGR
   sequence, which is then removed together with the tail of the text *)
Example closed_base_needed :
  ssorted (tbl ex_open) /\ is_valid_tbl (tbl ex_open) = true /\ cuts_closed ex_open = false
  /\ unformatted (tokenize false (Some [CH_m]) (to_str ex_open true false true)) <> base ex_open.
Proof.
  split.
  { repeat constructor; cbn [In fst]; intros kp H;
      repeat (destruct H as [<-|H]; [cbn [fst]; lia|]); destruct H. }
  split; [reflexivity|]. split; [reflexivity|]. vm_compute. discriminate.
Qed.

(* ==== FOOTER ==== *)
Print Assumptions tokenize_closed.
Print Assumptions tokenize_bytes_of_closed.
Print Assumptions to_str_toks_valid_ok'.
Print Assumptions render_tokens_esc.
Print Assumptions render_strips_to_base_esc.
Print Assumptions render_strips_to_base_esc_wf.
Print Assumptions render_strips_to_base_esc_WFv.
Print Assumptions render_sequences_esc.
Print Assumptions render_strips_to_base_esc_covers.
Print Assumptions render_strips_to_base_esc_WFv_covers.
Print Assumptions render_sequences_esc_covers.
