(* set_ansi_str / simplify: the text of the parsed value, and input without escape sequences. *)
From AS Require Import Base Effects.
From AS.Model Require Import Sgr Tokenizer Table Ops Render Parse.
From AS.Proofs Require Import TableProofs BasicProofs TokenizerProofs.
Local Open Scope N_scope.

Lemma parse_step_base s cur key body nid :
  base (fst (fst (parse_step s cur key body nid))) = base s.
Proof.
  unfold parse_step. destruct (pgs_str body false) as [texts|e]; [|reflexivity].
  destruct (fold_left _ _ _) as [to_rem to_app].
  set (rm := to_rem ++ _).
  destruct (is_nil to_app) eqn:Ea; cbn [fst].
  - destruct (is_nil rm); [reflexivity | apply remove_fmt_base].
  - destruct (fresh to_app _) as [news nid']. cbn [fst]. rewrite apply_fmt_base.
    destruct (is_nil rm); [reflexivity | apply remove_fmt_base].
Qed.

Lemma parse_fold_base (text : str) (seqs : list (nat * cseq)) : forall (s : astr) (cur : dict vset) (nid : nat),
  base (fst (fst (fold_left (fun '(s, cur, nid) kq =>
                 if (length text <=? fst kq)%nat then (s, cur, nid)
                 else parse_step s cur (fst kq) (cs_body (snd kq)) nid) seqs (s, cur, nid)))) = base s.
Proof.
  induction seqs as [|kq seqs IH]; intros s cur nid; cbn [fold_left]; [reflexivity|].
  destruct (length text <=? fst kq)%nat.
  - apply IH.
  - destruct (parse_step s cur (fst kq) (cs_body (snd kq)) nid) as [[s' cur'] nid'] eqn:E.
    rewrite IH. pose proof (parse_step_base s cur (fst kq) (cs_body (snd kq)) nid) as H. now rewrite E in H.
Qed.

(* base_str of AnsiString(w): w with exactly the accepted (SGR, final byte m) sequences removed *)
Theorem parse_base w nid : base (fst (parse w nid)) = unformatted (tokenize false (Some [CH_m]) w).
Proof.
  unfold parse.
  set (text := unformatted _). set (seqs := flat_sequences _).
  pose proof (parse_fold_base text seqs (mkA text []) [] nid) as H.
  destruct (fold_left _ seqs _) as [[s cur] nid']. exact H.
Qed.

(* input without ESC: kept unchanged and unformatted *)
Definition no_esc (s : str) : bool := forallb (fun c => negb (c =? ESC)) s.

Lemma tokenize_fuel_plain ae acc : forall fuel s, (length s <= fuel)%nat -> no_esc s = true ->
  tokenize_fuel fuel ae acc s = map TChar s.
Proof.
  induction fuel as [|f IH]; intros s Hl Hn.
  - destruct s; [reflexivity | cbn [length] in Hl; lia].
  - destruct s as [|c1 r1]; [reflexivity|]. cbn [tokenize_fuel].
    cbn [no_esc forallb] in Hn. apply andb_true_iff in Hn as [H1 H2]. apply negb_true_iff in H1.
    destruct r1 as [|c2 r2]; [reflexivity|].
    rewrite H1. cbn [andb]. cbn [map]. f_equal. apply IH; [cbn [length] in *; lia | exact H2].
Qed.

Lemma sequences_from_plain s : forall pos d, sequences_from (map TChar s) pos d = d.
Proof. induction s as [|c s IH]; intros pos d; cbn [map sequences_from]; auto. Qed.

Lemma unformatted_plain s : unformatted (map TChar s) = s.
Proof. unfold unformatted. induction s as [|c s IH]; cbn [map flat_map app]; [reflexivity | now rewrite IH]. Qed.

Theorem parse_plain w nid : no_esc w = true -> parse w nid = (mkA w [], nid).
Proof.
  intros H. unfold parse, tokenize. rewrite (tokenize_fuel_plain false (Some [CH_m]) (length w) w (le_n _) H).
  unfold sequences. rewrite sequences_from_plain, unformatted_plain. reflexivity.
Qed.

(* simplify never changes ... the text is that of the parsed rendering *)
Lemma simplify_def s nid : simplify s nid = parse (render (mkA (base s) (drop_invalid (tbl s)))) nid.
Proof. reflexivity. Qed.

Lemma drop_invalid_valid t : is_valid_tbl (drop_invalid t) = true.
Proof.
  unfold is_valid_tbl, all_adds, drop_invalid. induction t as [|[k p] t IH]; [reflexivity|].
  cbn [map flat_map fst snd padd]. rewrite forallb_app. rewrite IH, andb_true_r.
  induction (padd p) as [|x l IHl]; [reflexivity|]. cbn [filter].
  destruct (valid (stxt x)) eqn:E; [cbn [forallb]; now rewrite E | exact IHl].
Qed.
