(* remove_formatting / clear_formatting: text, per-character settings before, inside and after the
   range (same objects, same order), sortedness, key bound, strict replay, duplicate freedom and
   closedness of the result. *)
From AS Require Import Base.
From AS.Model Require Import Table Ops.
From AS.Proofs Require Import TableProofs SliceProofs PadProofs.

Definition nodup_active (t : fmts) : Prop := forall k, NoDup (ids (active_at t k)).
Definition keep (sel : option (list str)) (l : list setting) : list setting :=
  filter (fun x => negb (selected sel x)) l.

(* ---------- generic list facts ---------- *)
Lemma nodup_app_iff {A} (a b : list A) :
  NoDup (a ++ b) <-> NoDup a /\ NoDup b /\ (forall x, In x a -> ~ In x b).
Proof.
  induction a as [|y a IH]; cbn [app].
  - split; [intros H; repeat split; auto; constructor | intros (_ & H & _); auto].
  - split.
    + intros H. inversion H as [|? ? Hn Hd]; subst. apply IH in Hd as (Ha & Hb & Hab).
      split; [constructor; auto; intros Hi; apply Hn; apply in_or_app; auto|].
      split; auto. intros x [<-|Hx]; auto. intros Hi. apply Hn. apply in_or_app; auto.
    + intros (Ha & Hb & Hab). inversion Ha as [|? ? Hn Hd]; subst. constructor.
      * intros Hi. apply in_app_or in Hi as [Hi|Hi]; auto. apply (Hab y); auto. now left.
      * apply IH. repeat split; auto. intros x Hx. apply Hab. now right.
Qed.

Lemma filter_none {A} (f : A -> bool) l : (forall x, In x l -> f x = false) -> filter f l = [].
Proof. induction l as [|a l IH]; cbn [filter]; auto. intros H. rewrite (H a) by now left. apply IH. intros; apply H; now right. Qed.

Lemma ids_app a b : ids (a ++ b) = ids a ++ ids b.
Proof. unfold ids. apply map_app. Qed.

Lemma in_ids x l : In x l -> In (sid x) (ids l).
Proof. unfold ids. apply in_map. Qed.

Lemma in_ids_inv n l : In n (ids l) -> exists y, In y l /\ sid y = n.
Proof. unfold ids. intros H. apply in_map_iff in H as (y & E & Hy). eauto. Qed.

Lemma nodup_ids_filter f l : NoDup (ids l) -> NoDup (ids (filter f l)).
Proof.
  induction l as [|x l IH]; cbn [filter ids map]; auto. intros H. inversion H as [|? ? Hn Hd]; subst.
  destruct (f x); cbn [ids map]; auto. constructor; auto.
  intros Hi. apply Hn. apply in_ids_inv in Hi as (y & Hy & E). apply filter_In in Hy as [Hy _].
  rewrite <- E. now apply in_ids.
Qed.

Lemma nodup_ids_same l x y : NoDup (ids l) -> In x l -> In y l -> sid x = sid y -> x = y.
Proof.
  induction l as [|z l IH]; cbn [ids map]; intros Hnd Hx Hy E; [destruct Hx|].
  inversion Hnd as [|? ? Hn Hd]; subst. destruct Hx as [<-|Hx], Hy as [<-|Hy]; auto.
  - exfalso. apply Hn. rewrite E. now apply in_ids.
  - exfalso. apply Hn. rewrite <- E. now apply in_ids.
Qed.

(* ---------- removal by reference ---------- *)
Lemma in_ref_cons y z l : in_ref y (z :: l) = same_ref y z || in_ref y l.
Proof. unfold in_ref. cbn [find_ref]. destruct (same_ref y z); auto. destruct (find_ref y l); reflexivity. Qed.

Lemma in_ref_ids x l : in_ref x l = true <-> In (sid x) (ids l).
Proof.
  rewrite in_ref_spec. split.
  - intros (y & Hy & E). rewrite <- E. now apply in_ids.
  - intros H. apply in_ids_inv in H as (y & Hy & E). eauto.
Qed.

Lemma in_ref_ids_false x l : in_ref x l = false <-> ~ In (sid x) (ids l).
Proof. rewrite <- in_ref_ids. destruct (in_ref x l); split; congruence. Qed.

Lemma find_ref_remove_nth x l : forall i, find_ref x l = Some i -> remove_nth i l = remove_ref x l.
Proof.
  induction l as [|y l IH]; intros i; cbn [find_ref remove_ref]; [discriminate|].
  destruct (same_ref x y).
  - intros H; inversion H; subst. reflexivity.
  - destruct (find_ref x l) as [j|]; cbn [option_map]; [|discriminate].
    intros H; inversion H; subst. cbn [remove_nth]. f_equal. now apply IH.
Qed.

Lemma find_ref_none_remove x l : find_ref x l = None -> remove_ref x l = l.
Proof. intros H. apply remove_ref_notin. unfold in_ref. now rewrite H. Qed.

Lemma remove_ref_sid x y l : sid x = sid y -> remove_ref x l = remove_ref y l.
Proof. intros E. induction l as [|z l IH]; cbn [remove_ref]; auto. unfold same_ref. rewrite E, IH. reflexivity. Qed.

Lemma remove_ref_comm x y l : remove_ref x (remove_ref y l) = remove_ref y (remove_ref x l).
Proof.
  induction l as [|z l IH]; [reflexivity|]. cbn [remove_ref].
  destruct (same_ref y z) eqn:Ey, (same_ref x z) eqn:Ex; cbn [remove_ref]; rewrite ?Ey, ?Ex; auto.
  - apply remove_ref_sid. unfold same_ref in *. apply Nat.eqb_eq in Ey, Ex. congruence.
  - now rewrite IH.
Qed.

Lemma in_remove_ref_iff x l z : NoDup (ids l) -> (In z (remove_ref x l) <-> In z l /\ sid z <> sid x).
Proof.
  induction l as [|y l IH]; cbn [remove_ref ids map]; intros Hnd.
  - cbn [In]. tauto.
  - inversion Hnd as [|? ? Hn Hd]; subst. unfold same_ref. destruct (Nat.eqb_spec (sid x) (sid y)) as [E|E].
    + split.
      * intros Hz. split; [now right|]. intros Hs. apply Hn. rewrite <- E, <- Hs. now apply in_ids.
      * intros ([<-|Hz] & Hs); [congruence|auto].
    + cbn [In]. rewrite (IH Hd). split.
      * intros [<-|(Hz & Hs)]; auto.
      * intros ([<-|Hz] & Hs); auto.
Qed.

Lemma remove_ref_app_r x a b : ~ In (sid x) (ids a) -> remove_ref x (a ++ b) = a ++ remove_ref x b.
Proof.
  induction a as [|y a IH]; cbn [app remove_ref ids map]; auto. intros H. unfold same_ref.
  destruct (Nat.eqb_spec (sid x) (sid y)) as [E|E]; [exfalso; apply H; left; congruence|].
  f_equal. apply IH. intros Hi. apply H. now right.
Qed.

Lemma remove_ref_app_l x a b : In (sid x) (ids a) -> remove_ref x (a ++ b) = remove_ref x a ++ b.
Proof.
  induction a as [|y a IH]; cbn [app remove_ref ids map]; [intros []|]. intros H. unfold same_ref.
  destruct (Nat.eqb_spec (sid x) (sid y)) as [E|E]; auto.
  cbn [app]. f_equal. apply IH. destruct H as [H|H]; [congruence|auto].
Qed.

Lemma in_ref_remove_other x y l : sid y <> sid x -> in_ref y (remove_ref x l) = in_ref y l.
Proof.
  intros Hne. induction l as [|z l IH]; [reflexivity|]. cbn [remove_ref]. destruct (same_ref x z) eqn:E.
  - rewrite in_ref_cons. unfold same_ref in *. apply Nat.eqb_eq in E.
    replace (Nat.eqb (sid y) (sid z)) with false by (symmetry; apply Nat.eqb_neq; congruence). reflexivity.
  - now rewrite !in_ref_cons, IH.
Qed.

Lemma remove_ref_ids_subset x l n : In n (ids (remove_ref x l)) -> In n (ids l).
Proof. intros H. apply in_ids_inv in H as (y & Hy & <-). apply in_ids. eapply remove_ref_subset; eauto. Qed.

Lemma remove_ref_not_in x l : NoDup (ids l) -> ~ In (sid x) (ids (remove_ref x l)).
Proof.
  intros Hnd Hi. apply in_ids_inv in Hi as (y & Hy & E). apply in_remove_ref_iff in Hy; auto. tauto.
Qed.

Lemma in_ids_remove_other x l n : In n (ids l) -> n <> sid x -> In n (ids (remove_ref x l)).
Proof.
  induction l as [|z l IH]; cbn [remove_ref ids map]; [intros []|]. intros H Hne. unfold same_ref.
  destruct (Nat.eqb_spec (sid x) (sid z)) as [E|E].
  - destruct H as [H|H]; [congruence|auto].
  - cbn [ids map]. destruct H as [H|H]; [now left|right]. now apply IH.
Qed.

(* the lenient removal of a list of stop markers *)
Fixpoint rmall (rems act : list setting) : list setting :=
  match rems with [] => act | x :: r => rmall r (remove_ref x act) end.

Lemma rmall_fold rems : forall act, fold_left (fun a s => remove_ref s a) rems act = rmall rems act.
Proof. induction rems as [|x r IH]; intros act; cbn [fold_left rmall]; auto. Qed.

Lemma step_rmall act p : step act p = rmall (prem p) act ++ padd p.
Proof. unfold step. now rewrite rmall_fold. Qed.

Lemma rmall_remove_comm x r : forall a, rmall r (remove_ref x a) = remove_ref x (rmall r a).
Proof.
  induction r as [|y r IH]; intros a; [reflexivity|]. cbn [rmall].
  rewrite (remove_ref_comm y x a). apply IH.
Qed.

Lemma rmall_cons_out x r a : rmall (x :: r) a = remove_ref x (rmall r a).
Proof. cbn [rmall]. apply rmall_remove_comm. Qed.

Lemma rmall_app r1 r2 a : rmall (r1 ++ r2) a = rmall r2 (rmall r1 a).
Proof. revert a. induction r1 as [|x r1 IH]; intros a; cbn [app rmall]; auto. Qed.

Lemma rmall_nodup r : forall a, NoDup (ids a) -> NoDup (ids (rmall r a)).
Proof. induction r as [|x r IH]; intros a H; cbn [rmall]; auto. apply IH. now apply remove_ref_nodup. Qed.

Lemma rmall_subset r : forall a y, In y (rmall r a) -> In y a.
Proof. induction r as [|x r IH]; intros a y H; cbn [rmall] in H; auto. apply IH in H. eapply remove_ref_subset; eauto. Qed.

Lemma rmall_ids_subset r a n : In n (ids (rmall r a)) -> In n (ids a).
Proof. intros H. apply in_ids_inv in H as (y & Hy & <-). apply in_ids. eapply rmall_subset; eauto. Qed.

Lemma rmall_disjoint r : forall a, (forall x, In x r -> ~ In (sid x) (ids a)) -> rmall r a = a.
Proof.
  induction r as [|x r IH]; intros a H; cbn [rmall]; auto.
  rewrite remove_ref_ids_notin by (apply H; now left). apply IH. intros y Hy. apply H. now right.
Qed.

Lemma rmall_keeps r : forall a y, In y a -> ~ In (sid y) (ids r) -> In y (rmall r a).
Proof.
  induction r as [|x r IH]; intros a y Hy Hn; cbn [rmall]; auto. cbn [ids map] in Hn.
  rewrite rmall_remove_comm.
  assert (Hy' : In y (rmall r a)) by (apply IH; auto; intros Hi; apply Hn; now right).
  clear IH. revert Hy'. generalize (rmall r a) as l. intros l. induction l as [|z l IHl]; cbn [remove_ref]; auto.
  intros [<-|Hz].
  - unfold same_ref. destruct (Nat.eqb_spec (sid x) (sid z)) as [E|E]; [exfalso; apply Hn; now left|now left].
  - destruct (same_ref x z); [auto|right; auto].
Qed.

(* a marker that was processed is gone afterwards *)
Lemma rmall_removed r : forall a x, NoDup (ids a) -> In x r -> ~ In (sid x) (ids (rmall r a)).
Proof.
  induction r as [|y r IH]; intros a x Hnd Hx; [destruct Hx|destruct Hx as [<-|Hx]].
  - rewrite rmall_cons_out. apply remove_ref_not_in. now apply rmall_nodup.
  - cbn [rmall]. apply IH; auto. now apply remove_ref_nodup.
Qed.

Lemma rmall_self l : forall pre, NoDup (ids (pre ++ l)) -> rmall l (pre ++ l) = pre.
Proof.
  induction l as [|x l IH]; intros pre H; cbn [rmall]; [apply app_nil_r|].
  rewrite ids_app in H. cbn [ids map] in H. apply NoDup_remove in H as [H Hn].
  rewrite remove_ref_app_r by (intros Hi; apply Hn; apply in_or_app; now left).
  rewrite remove_ref_head. apply IH. now rewrite ids_app.
Qed.

Lemma rmall_filter f l : forall pre, NoDup (ids (pre ++ l)) ->
  rmall (filter f l) (pre ++ l) = pre ++ filter (fun x => negb (f x)) l.
Proof.
  induction l as [|x l IH]; intros pre H; cbn [filter rmall]; auto.
  destruct (f x) eqn:E; cbn [negb rmall].
  - pose proof H as H'. rewrite ids_app in H'. cbn [ids map] in H'. apply NoDup_remove in H' as [H' Hn].
    rewrite remove_ref_app_r by (intros Hi; apply Hn; apply in_or_app; now left).
    rewrite remove_ref_head. apply IH. now rewrite ids_app.
  - replace (pre ++ x :: l) with ((pre ++ [x]) ++ l) in * by (rewrite <- app_assoc; reflexivity).
    rewrite IH by exact H. rewrite <- app_assoc. reflexivity.
Qed.

(* ---------- keep ---------- *)
Lemma keep_cons sel z l : keep sel (z :: l) = if selected sel z then keep sel l else z :: keep sel l.
Proof. unfold keep. cbn [filter]. destruct (selected sel z); reflexivity. Qed.

Lemma keep_app sel a b : keep sel (a ++ b) = keep sel a ++ keep sel b.
Proof. unfold keep. apply filter_app. Qed.

Lemma keep_in sel l y : In y (keep sel l) <-> In y l /\ selected sel y = false.
Proof. unfold keep. rewrite filter_In, negb_true_iff. tauto. Qed.

Lemma keep_id sel l : (forall y, In y l -> selected sel y = false) -> keep sel l = l.
Proof. intros H. unfold keep. apply filter_all_true. intros y Hy. rewrite (H y Hy). reflexivity. Qed.

Lemma keep_nodup sel l : NoDup (ids l) -> NoDup (ids (keep sel l)).
Proof. apply nodup_ids_filter. Qed.

Lemma keep_remove_sel sel x y B : NoDup (ids B) -> In y B -> sid y = sid x -> selected sel y = true ->
  keep sel (remove_ref x B) = keep sel B.
Proof.
  induction B as [|z B IH]; intros Hnd Hy Hs Hsel; [destruct Hy|].
  cbn [ids map] in Hnd. inversion Hnd as [|? ? Hn Hd]; subst.
  cbn [remove_ref]. unfold same_ref. destruct (Nat.eqb_spec (sid x) (sid z)) as [E|E].
  - destruct Hy as [->|Hy].
    + rewrite keep_cons, Hsel. reflexivity.
    + exfalso. apply Hn. rewrite <- E, <- Hs. now apply in_ids.
  - destruct Hy as [->|Hy]; [congruence|]. rewrite !keep_cons, IH by auto. reflexivity.
Qed.

Lemma keep_remove_nonsel sel x B : (forall y, In y B -> sid y = sid x -> selected sel y = false) ->
  remove_ref x (keep sel B) = keep sel (remove_ref x B).
Proof.
  induction B as [|z B IH]; intros H; [reflexivity|].
  assert (H' : forall y, In y B -> sid y = sid x -> selected sel y = false) by (intros; apply H; auto; now right).
  cbn [remove_ref]. rewrite keep_cons. destruct (same_ref x z) eqn:E.
  - unfold same_ref in E. apply Nat.eqb_eq in E. rewrite (H z) by (auto; now left).
    cbn [remove_ref]. unfold same_ref. rewrite E, Nat.eqb_refl. reflexivity.
  - rewrite keep_cons. destruct (selected sel z); [now apply IH|].
    cbn [remove_ref]. rewrite E. f_equal. now apply IH.
Qed.

(* ---------- the bookkeeping invariant of the loop ----------
   [rd] (removed_settings) holds exactly the selected settings that are active in the old table *)
Definition Inv (sel : option (list str)) (A rd : list setting) : Prop :=
  NoDup (ids A) /\ NoDup (ids rd) /\ forall z, In z rd <-> In z A /\ selected sel z = true.

Lemma Inv_remove sel x B rd : Inv sel B rd -> Inv sel (remove_ref x B) (remove_ref x rd).
Proof.
  intros (N1 & N2 & H). split; [now apply remove_ref_nodup|]. split; [now apply remove_ref_nodup|].
  intros z. rewrite !in_remove_ref_iff by auto. rewrite H. tauto.
Qed.

Lemma Inv_add sel B rd adds : Inv sel B rd -> NoDup (ids (B ++ adds)) ->
  Inv sel (B ++ adds) (rd ++ rev (filter (selected sel) adds)).
Proof.
  intros (N1 & N2 & H) Hnd. split; [exact Hnd|]. split.
  - rewrite ids_app. apply nodup_app_iff. split; [exact N2|]. split.
    + unfold ids. rewrite map_rev. apply NoDup_rev. apply nodup_ids_filter.
      rewrite ids_app in Hnd. apply nodup_app_iff in Hnd. tauto.
    + intros n Hn Hn'. apply in_ids_inv in Hn as (z & Hz & <-). apply in_ids_inv in Hn' as (w & Hw & E).
      apply in_rev in Hw. apply filter_In in Hw as [Hw _]. apply H in Hz as [Hz _].
      rewrite ids_app in Hnd. apply nodup_app_iff in Hnd as (_ & _ & Hd).
      apply (Hd (sid z)); [now apply in_ids|]. rewrite <- E. now apply in_ids.
  - intros z. rewrite !in_app_iff, <- in_rev, filter_In, H. tauto.
Qed.

Lemma Inv_init sel A : NoDup (ids A) -> Inv sel A (filter (selected sel) A).
Proof.
  intros H. split; auto. split; [now apply nodup_ids_filter|]. intros z. now rewrite filter_In.
Qed.

Lemma Inv_in_ref sel A rd y : Inv sel A rd -> In y A -> in_ref y rd = selected sel y.
Proof.
  intros (N1 & N2 & H) Hy. destruct (selected sel y) eqn:E.
  - apply in_ref_ids. apply in_ids. apply H. auto.
  - apply in_ref_ids_false. intros Hi. apply in_ids_inv in Hi as (z & Hz & Es).
    apply H in Hz as [Hz Hsel]. assert (z = y) by (apply (nodup_ids_same A); auto). congruence.
Qed.

(* ---------- rem_pass ---------- *)
Lemma rem_pass_cons x r rd :
  rem_pass (x :: r) rd =
  let '(kp, rd1) := rem_pass r rd in
  match find_ref x rd1 with Some i => (kp, remove_nth i rd1) | None => (x :: kp, rd1) end.
Proof. reflexivity. Qed.

Lemma rem_pass_spec sel rems : forall A rd kp rd', Inv sel A rd -> rem_pass rems rd = (kp, rd') ->
  rmall kp (keep sel A) = keep sel (rmall rems A) /\ Inv sel (rmall rems A) rd'.
Proof.
  induction rems as [|x r IH]; intros A rd kp rd' HI E.
  - cbn in E. inversion E; subst. cbn [rmall]. auto.
  - rewrite rem_pass_cons in E. destruct (rem_pass r rd) as [kp1 rd1] eqn:E1.
    destruct (IH A rd kp1 rd1 HI E1) as (IH1 & IH2). rewrite rmall_cons_out.
    destruct (find_ref x rd1) as [i|] eqn:F; injection E as E2 E3; subst kp rd'.
    + rewrite (find_ref_remove_nth _ _ _ F). split; [|now apply Inv_remove].
      assert (Hin : in_ref x rd1 = true) by (unfold in_ref; now rewrite F).
      apply in_ref_spec in Hin as (y & Hy & Es). destruct IH2 as (N1 & N2 & H). apply H in Hy as [Hy Hsel].
      rewrite IH1. symmetry. eapply keep_remove_sel; eauto.
    + rewrite rmall_cons_out, IH1. split.
      * apply keep_remove_nonsel. intros y Hy Es. destruct (selected sel y) eqn:Hsel; auto.
        exfalso. destruct IH2 as (N1 & N2 & H). assert (Hr : In y rd1) by (apply H; auto).
        assert (Hin : in_ref x rd1 = true) by (apply in_ref_spec; eauto).
        unfold in_ref in Hin. rewrite F in Hin. discriminate.
      * rewrite <- (find_ref_none_remove _ _ F). now apply Inv_remove.
Qed.

(* ---------- add_pass ---------- *)
Lemma add_pass_spec sel adds rd :
  add_pass sel adds rd = (keep sel adds, rd ++ rev (filter (selected sel) adds)).
Proof.
  induction adds as [|x r IH]; [cbn; now rewrite app_nil_r|].
  unfold add_pass in *. cbn [fold_right]. rewrite IH. rewrite keep_cons. cbn [filter].
  destruct (selected sel x); auto. cbn [rev]. now rewrite app_assoc.
Qed.

(* ---------- remove_at_start ---------- *)
Lemma remove_at_start_cons sel x r p rd :
  remove_at_start sel (x :: r) p rd =
  if selected sel x then
    match find_ref x (padd p) with
    | Some i => remove_at_start sel r (mkP (remove_nth i (padd p)) (prem p)) (rd ++ [x])
    | None => remove_at_start sel r (mkP (padd p) (prem p ++ [x])) (rd ++ [x])
    end
  else remove_at_start sel r p rd.
Proof.
  unfold remove_at_start. cbn [fold_left]. destruct (selected sel x); [destruct (find_ref x (padd p))|]; reflexivity.
Qed.

Lemma remove_at_start_spec sel : forall l p rd, NoDup (ids l) ->
  remove_at_start sel l p rd =
  (mkP (rmall (filter (selected sel) l) (padd p))
       (prem p ++ filter (fun x => selected sel x && negb (in_ref x (padd p))) l),
   rd ++ filter (selected sel) l).
Proof.
  induction l as [|x r IH]; intros p rd Hnd.
  - cbn. rewrite !app_nil_r. destruct p; reflexivity.
  - cbn [ids map] in Hnd. inversion Hnd as [|? ? Hn Hd]; subst.
    rewrite remove_at_start_cons. cbn [filter]. destruct (selected sel x) eqn:Hsel; cbn [andb].
    + destruct (find_ref x (padd p)) as [i|] eqn:F.
      * rewrite IH by exact Hd. cbn [padd prem]. rewrite (find_ref_remove_nth _ _ _ F).
        assert (Hin : in_ref x (padd p) = true) by (unfold in_ref; now rewrite F). rewrite Hin. cbn [negb rmall].
        rewrite <- app_assoc. cbn [app]. f_equal. f_equal. f_equal.
        apply filter_ext_in. intros y Hy. rewrite in_ref_remove_other; auto.
        intros Es. apply Hn. rewrite <- Es. now apply in_ids.
      * rewrite IH by exact Hd. cbn [padd prem].
        assert (Hin : in_ref x (padd p) = false) by (unfold in_ref; now rewrite F). rewrite Hin. cbn [negb rmall].
        rewrite (find_ref_none_remove _ _ F). rewrite <- !app_assoc. reflexivity.
    + now rewrite IH.
Qed.

(* the point at [start]: every selected setting stops here, the others go on unchanged *)
Lemma remove_at_start_sem sel A0 p p' rd' :
  NoDup (ids (step A0 p)) ->
  remove_at_start sel (step A0 p) p [] = (p', rd') ->
  step A0 p' = keep sel (step A0 p) /\ rd' = filter (selected sel) (step A0 p)
  /\ prem p' = prem p ++ filter (selected sel) (rmall (prem p) A0)
  /\ padd p' = keep sel (padd p).
Proof.
  intros Hnd E. rewrite remove_at_start_spec in E by exact Hnd. inversion E; subst; clear E.
  cbn [app]. rewrite !step_rmall in *. cbn [padd prem].
  set (O := rmall (prem p) A0) in *. set (P := padd p) in *.
  pose proof Hnd as Hnd'. rewrite ids_app in Hnd'. apply nodup_app_iff in Hnd' as (NO & NP & Hd).
  assert (EP : rmall (filter (selected sel) (O ++ P)) P = keep sel P).
  { rewrite filter_app, rmall_app. rewrite (rmall_disjoint (filter (selected sel) O)).
    - apply (rmall_filter (selected sel) P []). exact NP.
    - intros x Hx Hi. apply filter_In in Hx as [Hx _]. apply (Hd (sid x)); auto. now apply in_ids. }
  assert (ER : filter (fun x => selected sel x && negb (in_ref x P)) (O ++ P) = filter (selected sel) O).
  { rewrite filter_app.
    replace (filter (fun x => selected sel x && negb (in_ref x P)) P) with (@nil setting).
    - rewrite app_nil_r. apply filter_ext_in. intros x Hx.
      replace (in_ref x P) with false; [now rewrite andb_true_r|].
      symmetry. apply in_ref_ids_false. apply Hd. now apply in_ids.
    - symmetry. apply filter_none. intros x Hx.
      replace (in_ref x P) with true; [now rewrite andb_false_r|].
      symmetry. apply in_ref_ids. now apply in_ids. }
  rewrite EP, ER. repeat split; auto.
  rewrite rmall_app. fold O. pose proof (rmall_filter (selected sel) O [] NO) as HO. cbn [app] in HO. rewrite HO.
  rewrite keep_app. reflexivity.
Qed.


Lemma run_cons A k p t : run A ((k, p) :: t) = run (step A p) t.
Proof. reflexivity. Qed.

(* every active list met while replaying [t] from [A] is free of duplicate identities *)
Fixpoint nd_run (t : fmts) (A : list setting) : Prop :=
  match t with [] => True | (k, p) :: r => NoDup (ids (step A p)) /\ nd_run r (step A p) end.

(* ---------- strict replay ---------- *)
Fixpoint strict_run (t : fmts) (A : list setting) : Prop :=
  match t with [] => True | (k, p) :: r => strict_rems (prem p) A <> None /\ strict_run r (step A p) end.

Lemma strict_rems_some r : forall A B, strict_rems r A = Some B -> B = rmall r A.
Proof.
  induction r as [|x r IH]; intros A B; cbn [strict_rems rmall].
  - intros H; now inversion H.
  - destruct (in_ref x A); [apply IH|discriminate].
Qed.

Lemma strict_ok_from_run t : forall A, strict_ok_from t A = true <-> strict_run t A.
Proof.
  induction t as [|[k p] t IH]; intros A; cbn [strict_ok_from strict_run]; [tauto|].
  destruct (strict_rems (prem p) A) as [a|] eqn:E.
  - apply strict_rems_some in E. subst a. rewrite <- step_rmall, IH. split; [intros H; split; [discriminate|auto]|tauto].
  - split; [discriminate|intros [H _]; congruence].
Qed.

Lemma strict_run_app a : forall b A, strict_run (a ++ b) A <-> strict_run a A /\ strict_run b (run A a).
Proof.
  induction a as [|[k p] a IH]; intros b A; cbn [app strict_run].
  - cbn. tauto.
  - rewrite run_cons, IH. tauto.
Qed.

Lemma strict_rems_ok r : forall A, NoDup (ids r) -> (forall x, In x r -> In (sid x) (ids A)) ->
  strict_rems r A <> None.
Proof.
  induction r as [|x r IH]; intros A Hnd H; cbn [strict_rems]; [discriminate|].
  cbn [ids map] in Hnd. inversion Hnd as [|? ? Hn Hd]; subst.
  replace (in_ref x A) with true by (symmetry; apply in_ref_ids; apply H; now left).
  apply IH; auto. intros y Hy. apply in_ids_remove_other; [apply H; now right|].
  intros E. apply Hn. rewrite <- E. now apply in_ids.
Qed.

Lemma strict_rems_inv r : forall A, NoDup (ids A) -> strict_rems r A <> None ->
  NoDup (ids r) /\ forall x, In x r -> In (sid x) (ids A).
Proof.
  induction r as [|x r IH]; intros A Hnd H; cbn [strict_rems] in H.
  - split; [constructor|intros x []].
  - destruct (in_ref x A) eqn:E; [|congruence]. apply in_ref_ids in E.
    destruct (IH (remove_ref x A) (remove_ref_nodup x A Hnd) H) as (N & Hall). split.
    + cbn [ids map]. constructor; auto. intros Hi. apply in_ids_inv in Hi as (y & Hy & Es).
      apply Hall in Hy. rewrite Es in Hy. revert Hy. now apply remove_ref_not_in.
    + intros y [<-|Hy]; auto. eapply remove_ref_ids_subset. eauto.
Qed.

Lemma rem_pass_strict sel rems : forall A rd kp rd', Inv sel A rd -> NoDup (ids rems) ->
  (forall x, In x rems -> In (sid x) (ids A)) -> rem_pass rems rd = (kp, rd') ->
  NoDup (ids kp) /\ forall x, In x kp -> In x rems /\ In (sid x) (ids (keep sel A)).
Proof.
  induction rems as [|x r IH]; intros A rd kp rd' HI Hnd Hall E.
  - cbn in E. inversion E; subst. split; [constructor|intros x []].
  - rewrite rem_pass_cons in E. destruct (rem_pass r rd) as [kp1 rd1] eqn:E1.
    cbn [ids map] in Hnd. inversion Hnd as [|? ? Hn Hd]; subst.
    assert (Hall' : forall y, In y r -> In (sid y) (ids A)) by (intros; apply Hall; now right).
    destruct (IH A rd kp1 rd1 HI Hd Hall' E1) as (N & H).
    destruct (rem_pass_spec sel r A rd kp1 rd1 HI E1) as (_ & (NB & Nrd1 & Hrd1)).
    destruct (find_ref x rd1) as [i|] eqn:F; injection E as E2 E3; subst kp rd'.
    + split; auto. intros y Hy. destruct (H y Hy). split; auto. now right.
    + split.
      * cbn [ids map]. constructor; auto. intros Hi. apply in_ids_inv in Hi as (y & Hy & Es).
        apply Hn. rewrite <- Es. apply in_ids. now apply H.
      * intros y [<-|Hy]; [|destruct (H y Hy); split; auto; now right].
        split; [now left|].
        destruct (in_ids_inv _ _ (Hall x (or_introl eq_refl))) as (y & Hy & Es).
        assert (HyB : In y (rmall r A)) by (apply rmall_keeps; auto; now rewrite Es).
        assert (Hsel : selected sel y = false).
        { destruct (selected sel y) eqn:Hsel; auto. exfalso.
          assert (Hr : In y rd1) by (apply Hrd1; auto).
          assert (Hin : in_ref x rd1 = true) by (apply in_ref_spec; eauto).
          unfold in_ref in Hin. rewrite F in Hin. discriminate. }
        rewrite <- Es. apply in_ids. apply keep_in. auto.
Qed.

Lemma nd_run_last t : forall A, nd_run t A -> NoDup (ids A) -> NoDup (ids (run A t)).
Proof.
  induction t as [|[k p] t IH]; intros A H N; auto. cbn [nd_run] in H. destruct H as [H1 H2].
  rewrite run_cons. now apply IH.
Qed.

(* ---------- the point at [en] ---------- *)
Lemma min_pos_fold O : forall rd m0, (forall x, In x rd -> in_ref x O = true) ->
  exists f, fold_left (fun m x => match m, find_ref x O with
                                  | Some a, Some b => Some (Nat.min a b)
                                  | _, _ => None end) rd (Some m0) = Some f
            /\ f <= m0 /\ forall x, In x rd -> exists j, find_ref x O = Some j /\ f <= j.
Proof.
  induction rd as [|x r IH]; intros m0 H.
  - exists m0. cbn [fold_left]. split; auto. split; auto. intros x [].
  - cbn [fold_left]. assert (Hx : in_ref x O = true) by (apply H; now left).
    unfold in_ref in Hx. destruct (find_ref x O) as [j|] eqn:F; [|discriminate].
    destruct (IH (Nat.min m0 j)) as (f & E & Hle & Hall); [intros; apply H; now right|].
    exists f. split; [exact E|]. split; [lia|]. intros y [<-|Hy].
    + exists j. split; auto. lia.
    + auto.
Qed.

Lemma min_pos_spec rd O : (forall x, In x rd -> in_ref x O = true) ->
  exists f, min_pos rd O = Some f /\ forall x, In x rd -> exists j, find_ref x O = Some j /\ f <= j.
Proof.
  intros H. destruct (min_pos_fold O rd (length O) H) as (f & E & _ & Hall). exists f. split; auto.
Qed.

Lemma find_ref_firstn y l : forall f, In y (firstn f l) -> exists j, find_ref y l = Some j /\ j < f.
Proof.
  induction l as [|z l IH]; intros f Hy.
  - rewrite firstn_nil in Hy. destruct Hy.
  - destruct f as [|f]; [destruct Hy|]. cbn [firstn find_ref] in *. destruct (same_ref y z) eqn:E.
    + exists 0. split; auto. lia.
    + destruct Hy as [->|Hy]; [unfold same_ref in E; rewrite Nat.eqb_refl in E; discriminate|].
      destruct (IH f Hy) as (j & F & Hj). rewrite F. exists (S j). split; auto. lia.
Qed.

Lemma firstn_in {A} (l : list A) n y : In y (firstn n l) -> In y l.
Proof. intros H. rewrite <- (firstn_skipn n l). apply in_or_app. now left. Qed.

Lemma skipn_in {A} (l : list A) n y : In y (skipn n l) -> In y l.
Proof. intros H. rewrite <- (firstn_skipn n l). apply in_or_app. now right. Qed.

Lemma firstn_original {A} (O P : list A) : firstn (length (O ++ P) - length P) (O ++ P) = O.
Proof.
  rewrite app_length. replace (length O + length P - length P) with (length O) by lia.
  rewrite firstn_app, firstn_all, Nat.sub_diag. cbn [firstn]. apply app_nil_r.
Qed.

Lemma remove_at_end_sem sel len en A p rem' rd1 :
  NoDup (ids (step A p)) ->
  rmall rem' (keep sel A) = keep sel (rmall (prem p) A) ->
  Inv sel (rmall (prem p) A) rd1 ->
  (en = len -> step A p = []) ->
  step (keep sel A) (remove_at_end len en (step A p) p rem' rd1) = step A p.
Proof.
  intros Hnd HR HI Hlen. rewrite (step_rmall A p) in *. set (O := rmall (prem p) A) in *. set (P := padd p) in *.
  pose proof HI as (NO & Nrd & Hrd).
  unfold remove_at_end. destruct (negb (Nat.eqb en len) && negb (is_nil rd1)) eqn:Ec.
  - apply andb_true_iff in Ec as [_ Ec]. fold P. rewrite firstn_original.
    destruct (min_pos_spec rd1 O) as (f & Ef & Hf).
    { intros x Hx. apply in_ref_ids. apply in_ids. now apply Hrd. }
    rewrite Ef. set (S := skipn f O). set (F := firstn f O).
    assert (HF : forall y, In y F -> selected sel y = false).
    { intros y Hy. destruct (selected sel y) eqn:Hsel; auto. exfalso.
      assert (Hr : In y rd1) by (apply Hrd; split; auto; eapply firstn_in; eauto).
      destruct (Hf y Hr) as (j & F1 & Hj). destruct (find_ref_firstn y O f Hy) as (j' & F2 & Hj').
      rewrite F1 in F2. inversion F2. lia. }
    assert (EFR : filter (fun x => negb (in_ref x rd1)) S = keep sel S).
    { unfold keep. apply filter_ext_in. intros y Hy. f_equal. eapply Inv_in_ref; eauto. eapply skipn_in; eauto. }
    rewrite EFR. rewrite step_rmall. cbn [prem padd]. rewrite rmall_app, HR.
    assert (EO : keep sel O = F ++ keep sel S).
    { rewrite <- (firstn_skipn f O) at 1. rewrite keep_app. fold F S. now rewrite (keep_id sel F HF). }
    rewrite EO. rewrite rmall_self.
    + rewrite app_assoc. unfold F, S. now rewrite firstn_skipn.
    + rewrite <- EO. now apply keep_nodup.
  - rewrite step_rmall. cbn [prem padd]. rewrite HR. fold P. f_equal. apply keep_id.
    intros y Hy. apply andb_false_iff in Ec as [Ec|Ec].
    + apply negb_false_iff, Nat.eqb_eq in Ec. apply Hlen in Ec. apply app_eq_nil in Ec as [Ec _].
      rewrite Ec in Hy. destruct Hy.
    + apply negb_false_iff in Ec. destruct rd1; [|discriminate].
      destruct (selected sel y) eqn:Hsel; auto. exfalso. apply (proj2 (Hrd y)). auto.
Qed.


Lemma start_strict sel A0 p p' : NoDup (ids A0) -> strict_rems (prem p) A0 <> None ->
  prem p' = prem p ++ filter (selected sel) (rmall (prem p) A0) -> strict_rems (prem p') A0 <> None.
Proof.
  intros N H E. rewrite E. destruct (strict_rems_inv _ _ N H) as (Np & Hall). apply strict_rems_ok.
  - rewrite ids_app. apply nodup_app_iff. split; auto.
    split; [apply nodup_ids_filter; apply rmall_nodup; auto|].
    intros n Hn Hn'. apply in_ids_inv in Hn as (x & Hx & <-). apply in_ids_inv in Hn' as (y & Hy & Es).
    apply filter_In in Hy as [Hy _]. apply (rmall_removed (prem p) A0 x N Hx). rewrite <- Es. now apply in_ids.
  - intros x Hx. apply in_app_or in Hx as [Hx|Hx]; auto. apply filter_In in Hx as [Hx _].
    eapply rmall_ids_subset. apply in_ids. eauto.
Qed.

Lemma nodup_ids_skipn n l : NoDup (ids l) -> NoDup (ids (skipn n l)).
Proof. intros H. rewrite <- (firstn_skipn n l), ids_app in H. apply nodup_app_iff in H. tauto. Qed.

Lemma remove_at_end_strict sel len en A p rem' rd1 :
  NoDup (ids A) -> Inv sel (rmall (prem p) A) rd1 -> NoDup (ids rem') ->
  (forall x, In x rem' -> In x (prem p) /\ In (sid x) (ids (keep sel A))) ->
  strict_rems (prem (remove_at_end len en (step A p) p rem' rd1)) (keep sel A) <> None.
Proof.
  intros NA HI Nr Hr. rewrite (step_rmall A p). set (O := rmall (prem p) A) in *.
  pose proof HI as (NO & Nrd & Hrd).
  unfold remove_at_end. destruct (negb (Nat.eqb en len) && negb (is_nil rd1)).
  - rewrite firstn_original.
    destruct (min_pos_spec rd1 O) as (f & Ef & Hf).
    { intros x Hx. apply in_ref_ids. apply in_ids. now apply Hrd. }
    rewrite Ef. cbn [prem]. set (S := skipn f O). apply strict_rems_ok.
    + rewrite ids_app. apply nodup_app_iff. split; auto.
      split; [apply nodup_ids_filter; now apply nodup_ids_skipn|].
      intros n Hn Hn'. apply in_ids_inv in Hn as (x & Hx & <-). apply in_ids_inv in Hn' as (y & Hy & Es).
      apply filter_In in Hy as [Hy _]. apply skipn_in in Hy.
      apply (rmall_removed (prem p) A x NA (proj1 (Hr x Hx))). fold O. rewrite <- Es. now apply in_ids.
    + intros x Hx. apply in_app_or in Hx as [Hx|Hx]; [now apply Hr|].
      apply filter_In in Hx as [Hx Hn]. apply skipn_in in Hx. apply negb_true_iff in Hn.
      rewrite (Inv_in_ref sel O rd1 x HI Hx) in Hn. apply in_ids. apply keep_in. split; auto.
      eapply rmall_subset; eauto.
  - cbn [prem]. apply strict_rems_ok; auto. intros x Hx. now apply Hr.
Qed.

(* ---------- the structure of the loop ---------- *)
Lemma upto_cons i k p t : upto i ((k, p) :: t) = if k <=? i then (k, p) :: upto i t else upto i t.
Proof. reflexivity. Qed.

Lemma upto_app i a b : upto i (a ++ b) = upto i a ++ upto i b.
Proof. unfold upto. apply filter_app. Qed.

Lemma upto_none i t : (forall kp, In kp t -> i < fst kp) -> upto i t = [].
Proof. intros H. unfold upto. apply filter_none. intros kp Hin. apply Nat.leb_gt. auto. Qed.

Lemma keys_transfer (P : nat -> Prop) (a b : fmts) : map fst a = map fst b ->
  (forall kp, In kp b -> P (fst kp)) -> forall kp, In kp a -> P (fst kp).
Proof.
  intros E H kp Hin. apply (in_map fst) in Hin. rewrite E in Hin.
  apply in_map_iff in Hin as (kp' & E' & Hin'). rewrite <- E'. auto.
Qed.

Lemma iter_states_proj t : forall A, map (fun x => (fst (fst x), snd (fst x))) (iter_states t A) = t.
Proof. induction t as [|[k p] r IH]; intros A; cbn [iter_states map fst snd]; [reflexivity|]. f_equal. apply IH. Qed.

Lemma loop_pre len start en sel rd pre : forall r A, keys_lt pre start ->
  remove_loop (iter_states (pre ++ r) A) len start en sel rd
  = pre ++ remove_loop (iter_states r (run A pre)) len start en sel rd.
Proof.
  induction pre as [|[k p] pre IH]; intros r A H; [reflexivity|].
  assert (Hk : k < start) by (apply (H (k, p)); now left).
  cbn [app iter_states remove_loop].
  replace (k <? start) with true by (symmetry; apply Nat.ltb_lt; lia).
  rewrite run_cons. f_equal. apply IH. eapply keys_lt_tail; eauto.
Qed.

Lemma loop_post len start en sel rd post A : start < en -> (forall kp, In kp post -> en < fst kp) ->
  remove_loop (iter_states post A) len start en sel rd = post.
Proof.
  intros Hse H. destruct post as [|[k p] r]; [reflexivity|].
  assert (Hk : en < k) by (apply (H (k, p)); now left).
  cbn [iter_states remove_loop].
  replace (k <? start) with false by (symmetry; apply Nat.ltb_ge; lia).
  replace (en <? k) with true by (symmetry; apply Nat.ltb_lt; lia).
  f_equal. apply iter_states_proj.
Qed.

Fixpoint mid_tr (sel : option (list str)) (mid : fmts) (rd : list setting) : fmts * list setting :=
  match mid with
  | [] => ([], rd)
  | (k, p) :: r =>
    let '(rem', rd1) := rem_pass (prem p) rd in
    let '(add', rd2) := add_pass sel (padd p) rd1 in
    let '(r', rd3) := mid_tr sel r rd2 in
    ((k, mkP add' rem') :: r', rd3)
  end.

Lemma loop_mid len start en sel mid : forall rd r A, (forall kp, In kp mid -> start < fst kp < en) ->
  remove_loop (iter_states (mid ++ r) A) len start en sel rd
  = fst (mid_tr sel mid rd)
    ++ remove_loop (iter_states r (run A mid)) len start en sel (snd (mid_tr sel mid rd)).
Proof.
  induction mid as [|[k p] mid IH]; intros rd r A H; [reflexivity|].
  assert (Hk : start < k < en) by (apply (H (k, p)); now left).
  cbn [app iter_states remove_loop mid_tr].
  replace (k <? start) with false by (symmetry; apply Nat.ltb_ge; lia).
  replace (en <? k) with false by (symmetry; apply Nat.ltb_ge; lia).
  replace (Nat.eqb k start) with false by (symmetry; apply Nat.eqb_neq; lia).
  destruct (rem_pass (prem p) rd) as [rem' rd1].
  replace (Nat.eqb k en) with false by (symmetry; apply Nat.eqb_neq; lia).
  destruct (add_pass sel (padd p) rd1) as [add' rd2].
  rewrite IH by (intros; apply H; now right).
  destruct (mid_tr sel mid rd2) as [r' rd3]. cbn [fst snd app]. rewrite run_cons. reflexivity.
Qed.

Lemma nd_run_app a : forall b A, nd_run (a ++ b) A <-> nd_run a A /\ nd_run b (run A a).
Proof.
  induction a as [|[k p] a IH]; intros b A; cbn [app nd_run].
  - cbn. tauto.
  - rewrite run_cons, IH. tauto.
Qed.

Lemma mid_sem sel mid : forall A rd mid' rd', ssorted mid -> nd_run mid A -> Inv sel A rd ->
  mid_tr sel mid rd = (mid', rd') ->
  map fst mid' = map fst mid /\ Inv sel (run A mid) rd' /\ run (keep sel A) mid' = keep sel (run A mid)
  /\ (forall i, run (keep sel A) (upto i mid') = keep sel (run A (upto i mid)))
  /\ (strict_run mid A -> strict_run mid' (keep sel A)).
Proof.
  induction mid as [|[k p] mid IH]; intros A rd mid' rd' Hs HN HI E.
  - inversion E; subst. cbn. auto.
  - cbn [mid_tr] in E. destruct (rem_pass (prem p) rd) as [rem' rd1] eqn:ER.
    rewrite add_pass_spec in E. destruct (mid_tr sel mid _) as [r' rd3] eqn:EM. injection E as E2 E3; subst mid' rd'.
    destruct HN as [HN1 HN2]. inversion Hs as [|? ? ? Hk Hs']; subst.
    destruct (rem_pass_spec sel (prem p) A rd rem' rd1 HI ER) as (R1 & R2).
    assert (HI2 : Inv sel (step A p) (rd1 ++ rev (filter (selected sel) (padd p)))).
    { rewrite step_rmall in *. now apply Inv_add. }
    assert (Hstep : step (keep sel A) (mkP (keep sel (padd p)) rem') = keep sel (step A p)).
    { rewrite !step_rmall. cbn [prem padd]. now rewrite R1, keep_app. }
    destruct (IH (step A p) _ r' rd3 Hs' HN2 HI2 EM) as (I1 & I2 & I3 & I4 & I5).
    split; [cbn [map fst]; now f_equal|]. split; [now rewrite run_cons|].
    split; [now rewrite !run_cons, Hstep|].
    split.
    2:{ cbn [strict_run prem]. intros [Q1 Q2]. rewrite Hstep. split; [|now apply I5].
        destruct (strict_rems_inv _ _ (proj1 HI) Q1) as (Np & Hall).
        destruct (rem_pass_strict sel (prem p) A rd rem' rd1 HI Np Hall ER) as (N' & H').
        apply strict_rems_ok; auto. intros x Hx. now apply H'. }
    intros i. rewrite !upto_cons. destruct (k <=? i) eqn:Eki.
    + rewrite !run_cons, Hstep. apply I4.
    + apply Nat.leb_gt in Eki. rewrite (upto_none i mid), (upto_none i r'); [reflexivity| |].
      * apply (keys_transfer (fun n => i < n) r' mid I1). intros kp Hin. specialize (Hk kp Hin). lia.
      * intros kp Hin. specialize (Hk kp Hin). lia.
Qed.

(* ---------- the whole loop on a table that has both [start] and [en] as keys ---------- *)
Definition shaped (start en : nat) (pre : fmts) (ps : point) (mid : fmts) (pe : point) (post : fmts) : Prop :=
  start < en /\ keys_lt pre start /\ (forall kp, In kp mid -> start < fst kp < en)
  /\ (forall kp, In kp post -> en < fst kp) /\ ssorted mid.

Lemma loop_shape sel len start en pre ps mid pe post :
  shaped start en pre ps mid pe post ->
  nd_run (pre ++ (start, ps) :: mid ++ (en, pe) :: post) [] ->
  (en = len -> step (run (step (run [] pre) ps) mid) pe = []) ->
  exists ps' mid' pe',
    remove_loop (iter_states (pre ++ (start, ps) :: mid ++ (en, pe) :: post) []) len start en sel []
    = pre ++ (start, ps') :: mid' ++ (en, pe') :: post
    /\ step (run [] pre) ps' = keep sel (step (run [] pre) ps)
    /\ map fst mid' = map fst mid
    /\ run (keep sel (step (run [] pre) ps)) mid' = keep sel (run (step (run [] pre) ps) mid)
    /\ (forall i, run (keep sel (step (run [] pre) ps)) (upto i mid')
                  = keep sel (run (step (run [] pre) ps) (upto i mid)))
    /\ step (keep sel (run (step (run [] pre) ps) mid)) pe' = step (run (step (run [] pre) ps) mid) pe
    /\ (strict_run (pre ++ (start, ps) :: mid ++ (en, pe) :: post) [] ->
        strict_rems (prem ps') (run [] pre) <> None
        /\ strict_run mid' (keep sel (step (run [] pre) ps))
        /\ strict_rems (prem pe') (keep sel (run (step (run [] pre) ps) mid)) <> None).
Proof.
  intros (Hse & Hpre & Hmid & Hpost & Hsm) Hnd Hlen.
  rewrite loop_pre by exact Hpre. set (A0 := run [] pre) in *.
  apply nd_run_app in Hnd as [Npre Hnd]. fold A0 in Hnd. cbn [nd_run] in Hnd. destruct Hnd as [Ncs Hnd].
  assert (NA0 : NoDup (ids A0)) by (apply nd_run_last; [exact Npre|constructor]).
  set (cs := step A0 ps) in *.
  apply nd_run_app in Hnd as [Nmid Hnd]. set (Ae := run cs mid) in *. cbn [nd_run] in Hnd. destruct Hnd as [Nce _].
  cbn [iter_states remove_loop]. fold cs.
  replace (start <? start) with false by (symmetry; apply Nat.ltb_ge; lia).
  replace (en <? start) with false by (symmetry; apply Nat.ltb_ge; lia).
  rewrite Nat.eqb_refl.
  destruct (remove_at_start sel cs ps []) as [ps' rd0] eqn:ES.
  destruct (remove_at_start_sem sel A0 ps ps' rd0 Ncs ES) as (S1 & S2 & S3 & S4). fold cs in S1, S2.
  rewrite loop_mid by exact Hmid. destruct (mid_tr sel mid rd0) as [mid' rdm] eqn:EM. cbn [fst snd].
  assert (HI0 : Inv sel cs rd0) by (rewrite S2; now apply Inv_init).
  destruct (mid_sem sel mid cs rd0 mid' rdm Hsm Nmid HI0 EM) as (M1 & M2 & M3 & M4 & M5). fold Ae in M2, M3.
  fold Ae. cbn [iter_states remove_loop].
  replace (en <? start) with false by (symmetry; apply Nat.ltb_ge; lia).
  replace (en <? en) with false by (symmetry; apply Nat.ltb_ge; lia).
  replace (Nat.eqb en start) with false by (symmetry; apply Nat.eqb_neq; lia).
  destruct (rem_pass (prem pe) rdm) as [rem' rd1] eqn:ER. rewrite Nat.eqb_refl.
  rewrite loop_post by assumption.
  destruct (rem_pass_spec sel (prem pe) Ae rdm rem' rd1 M2 ER) as (R1 & R2).
  exists ps', mid', (remove_at_end len en (step Ae pe) pe rem' rd1).
  split; [reflexivity|]. split; [exact S1|]. split; [exact M1|]. split; [exact M3|]. split; [exact M4|].
  split; [apply remove_at_end_sem; auto|].
  intros HS. apply strict_run_app in HS as [_ HS]. fold A0 in HS. cbn [strict_run] in HS. destruct HS as [HSs HS].
  fold cs in HS. apply strict_run_app in HS as [HSm HS]. fold Ae in HS. cbn [strict_run] in HS. destruct HS as [HSe _].
  split; [eapply start_strict; eauto|]. split; [now apply M5|].
  destruct (strict_rems_inv _ _ (proj1 M2) HSe) as (Np & Hall).
  destruct (rem_pass_strict sel (prem pe) Ae rdm rem' rd1 M2 Np Hall ER) as (N' & H').
  apply remove_at_end_strict; auto. exact (proj1 M2).
Qed.

(* ---------- sorted tables: decomposition, key transfer ---------- *)
Lemma ssorted_app_inv a : forall b, ssorted (a ++ b) ->
  ssorted a /\ ssorted b /\ forall x y, In x a -> In y b -> fst x < fst y.
Proof.
  induction a as [|[k p] a IH]; intros b H; cbn [app] in *.
  - split; [constructor|]. split; auto. intros x y [].
  - inversion H as [|? ? ? Hk Hs]; subst. destruct (IH b Hs) as (Ha & Hb & Hab). split.
    + constructor; auto. intros kp Hin. apply Hk. apply in_or_app; now left.
    + split; auto. intros x y [<-|Hx] Hy; auto. cbn [fst]. apply Hk. apply in_or_app; now right.
Qed.

Lemma ssorted_cons_inv k p t : ssorted ((k, p) :: t) -> (forall kp, In kp t -> k < fst kp) /\ ssorted t.
Proof. inversion 1; auto. Qed.

Lemma decompose t k p : ssorted t -> In (k, p) t ->
  exists a b, t = a ++ (k, p) :: b /\ keys_lt a k /\ (forall kp, In kp b -> k < fst kp) /\ ssorted a /\ ssorted b.
Proof.
  intros Hs Hin. apply in_split in Hin as (a & b & ->). exists a, b. split; auto.
  apply ssorted_app_inv in Hs as (Ha & Hb & Hab). apply ssorted_cons_inv in Hb as [Hk Hb].
  repeat split; auto. intros kp Hin. apply (Hab kp (k, p)); auto. now left.
Qed.

Lemma ssorted_keys a : forall b, map fst a = map fst b -> ssorted a -> ssorted b.
Proof.
  intros b E Hs. revert b E. induction Hs as [|k p t Hk Hs IH]; intros b E;
    destruct b as [|[k' p'] b]; cbn [map fst] in E; try discriminate; [constructor|].
  injection E as E1 E2; subst. constructor; [|apply IH; auto].
  apply (keys_transfer (fun n => k' < n) b t); auto.
Qed.

Lemma shaped_decompose t start ps en pe : ssorted t -> start < en -> In (start, ps) t -> In (en, pe) t ->
  exists pre mid post, t = pre ++ (start, ps) :: mid ++ (en, pe) :: post
                       /\ shaped start en pre ps mid pe post.
Proof.
  intros Hs Hse H1 H2. destruct (decompose t start ps Hs H1) as (a & b & -> & Ha & Hb & Sa & Sb).
  apply in_app_or in H2 as [H2|[H2|H2]].
  - specialize (Ha _ H2). cbn [fst] in Ha. lia.
  - inversion H2. lia.
  - destruct (decompose b en pe Sb H2) as (c & d & -> & Hc & Hd & Sc & Sd).
    exists a, c, d. split; auto. repeat split; auto.
    apply Hb. apply in_or_app. now left.
Qed.

Lemma shaped_upto start en pre ps mid pe post i : shaped start en pre ps mid pe post ->
  upto i (pre ++ (start, ps) :: mid ++ (en, pe) :: post) =
  if i <? start then upto i pre
  else if i <? en then pre ++ (start, ps) :: upto i mid
  else pre ++ (start, ps) :: mid ++ (en, pe) :: upto i post.
Proof.
  intros (Hse & Hpre & Hmid & Hpost & Hsm).
  rewrite upto_app, upto_cons, upto_app, upto_cons.
  destruct (i <? start) eqn:E1; [apply Nat.ltb_lt in E1|apply Nat.ltb_ge in E1].
  - replace (start <=? i) with false by (symmetry; apply Nat.leb_gt; lia).
    replace (en <=? i) with false by (symmetry; apply Nat.leb_gt; lia).
    rewrite (upto_none i mid), (upto_none i post); [now rewrite app_nil_r| |].
    + intros kp Hin. specialize (Hpost kp Hin). lia.
    + intros kp Hin. specialize (Hmid kp Hin). lia.
  - replace (start <=? i) with true by (symmetry; apply Nat.leb_le; lia).
    rewrite (upto_all i pre) by (intros kp Hin; specialize (Hpre kp Hin); lia).
    destruct (i <? en) eqn:E2; [apply Nat.ltb_lt in E2|apply Nat.ltb_ge in E2].
    + replace (en <=? i) with false by (symmetry; apply Nat.leb_gt; lia).
      rewrite (upto_none i post); [now rewrite app_nil_r|].
      intros kp Hin. specialize (Hpost kp Hin). lia.
    + replace (en <=? i) with true by (symmetry; apply Nat.leb_le; lia).
      rewrite (upto_all i mid) by (intros kp Hin; specialize (Hmid kp Hin); lia). reflexivity.
Qed.

(* ---------- the result of the loop, before clean-up ---------- *)
Lemma core_active sel len start en pre ps mid pe post :
  let t' := pre ++ (start, ps) :: mid ++ (en, pe) :: post in
  let T := remove_loop (iter_states t' []) len start en sel [] in
  shaped start en pre ps mid pe post -> ssorted t' -> nd_run t' [] ->
  keys_le t' len -> run [] t' = [] ->
  ssorted T /\ map fst T = map fst t'
  /\ (forall i, i < start -> run [] (upto i T) = run [] (upto i t'))
  /\ (forall i, start <= i < en -> run [] (upto i T) = keep sel (run [] (upto i t')))
  /\ (forall i, en <= i -> run [] (upto i T) = run [] (upto i t'))
  /\ run [] T = run [] t'
  /\ (strict_run t' [] -> strict_run T []).
Proof.
  intros t' T Hsh Hs Hnd Hkeys Hfin. pose proof Hsh as (Hse0 & _).
  assert (Hlen : en = len -> step (run (step (run [] pre) ps) mid) pe = []).
  { intros ->. destruct post as [|kp post].
    - unfold t' in Hfin. rewrite run_app, run_cons, run_app, run_cons in Hfin. exact Hfin.
    - exfalso. destruct Hsh as (_ & _ & _ & Hpost & _).
      assert (len < fst kp) by (apply Hpost; now left).
      assert (fst kp <= len) by (apply Hkeys; unfold t'; apply in_or_app; right; right; apply in_or_app; right; right; now left).
      lia. }
  destruct (loop_shape sel len start en pre ps mid pe post Hsh Hnd Hlen)
    as (ps' & mid' & pe' & ET & S1 & M1 & M3 & M4 & E1 & St).
  fold t' in ET. fold T in ET.
  assert (Hkeys' : map fst T = map fst t').
  { rewrite ET. unfold t'. rewrite !map_app. cbn [map fst]. rewrite !map_app. cbn [map fst]. now rewrite M1. }
  assert (HsT : ssorted T) by (apply (ssorted_keys t'); auto).
  assert (Hsh' : shaped start en pre ps' mid' pe' post).
  { destruct Hsh as (Hse & Hpre & Hmid & Hpost & Hsm). repeat split; auto.
    - apply (keys_transfer (fun n => start < n) mid' mid M1); auto. intros kp0 Hin. apply Hmid; auto.
    - apply (keys_transfer (fun n => n < en) mid' mid M1); auto. intros kp0 Hin. apply Hmid; auto.
    - apply (ssorted_keys mid); auto. }
  split; [exact HsT|]. split; [exact Hkeys'|].
  set (A0 := run [] pre) in *. set (cs := step A0 ps) in *. set (Ae := run cs mid) in *.
  split; [|split; [|split; [|split]]].
  - intros i Hi. rewrite ET. unfold t'. rewrite !shaped_upto by assumption.
    replace (i <? start) with true by (symmetry; apply Nat.ltb_lt; lia). reflexivity.
  - intros i Hi. rewrite ET. unfold t'. rewrite !shaped_upto by assumption.
    replace (i <? start) with false by (symmetry; apply Nat.ltb_ge; lia).
    replace (i <? en) with true by (symmetry; apply Nat.ltb_lt; lia).
    rewrite !run_app, !run_cons. fold A0. rewrite S1. fold cs. apply M4.
  - intros i Hi. rewrite ET. unfold t'. rewrite !shaped_upto by assumption.
    replace (i <? start) with false by (symmetry; apply Nat.ltb_ge; lia).
    replace (i <? en) with false by (symmetry; apply Nat.ltb_ge; lia).
    rewrite !run_app, !run_cons, !run_app, !run_cons. fold A0. rewrite S1. fold cs. rewrite M3. fold Ae.
    rewrite E1. reflexivity.
  - rewrite ET. unfold t'. rewrite !run_app, !run_cons, !run_app, !run_cons. fold A0. rewrite S1. fold cs.
    rewrite M3. fold Ae. rewrite E1. reflexivity.
  - intros HS. destruct (St HS) as (Q1 & Q2 & Q3). rewrite ET. unfold t' in HS.
    apply strict_run_app in HS as [HSpre HS]. fold A0 in HS. cbn [strict_run] in HS. destruct HS as [_ HS].
    fold cs in HS. apply strict_run_app in HS as [_ HS]. fold Ae in HS. cbn [strict_run] in HS. destruct HS as [_ HSpost].
    apply strict_run_app. split; [exact HSpre|]. fold A0. cbn [strict_run]. split; [exact Q1|].
    rewrite S1. apply strict_run_app. split; [exact Q2|]. rewrite M3. cbn [strict_run]. split; [exact Q3|].
    rewrite E1. exact HSpost.
Qed.

(* ---------- tput / tensure / cleanup ---------- *)
Lemma step_empty A : step A empty_point = A.
Proof. unfold step. cbn. apply app_nil_r. Qed.

Lemma tput_in_inv k p t kp : In kp (tput k p t) -> kp = (k, p) \/ In kp t.
Proof.
  induction t as [|[k' p'] t IH]; cbn [tput].
  - intros [<-|[]]; auto.
  - destruct (Nat.eqb k k'); [intros [<-|H]; auto; right; now right|].
    destruct (k <? k'); [intros [<-|H]; auto|].
    intros [<-|H]; [right; now left|]. apply IH in H as [->|H]; auto. right; now right.
Qed.

Lemma tput_in k p t : In (k, p) (tput k p t).
Proof.
  induction t as [|[k' p'] t IH]; cbn [tput]; [now left|].
  destruct (Nat.eqb k k'); [now left|]. destruct (k <? k'); [now left|now right].
Qed.

Lemma tput_in_other x k p t : In x t -> fst x <> k -> In x (tput k p t).
Proof.
  induction t as [|[k' p'] t IH]; [intros []|]. cbn [tput]. intros [<-|H] Hne.
  - cbn [fst] in Hne. destruct (Nat.eqb_spec k k'); [congruence|]. destruct (k <? k'); [right; now left|now left].
  - destruct (Nat.eqb k k'); [now right|]. destruct (k <? k'); [right; now right|right; auto].
Qed.

Lemma tput_sorted k p t : ssorted t -> ssorted (tput k p t).
Proof.
  induction 1 as [|k' p' t Hk Hs IH]; cbn [tput].
  - constructor; [intros kp []|constructor].
  - destruct (Nat.eqb_spec k k') as [->|Hne]; [constructor; auto|].
    destruct (Nat.ltb_spec k k') as [Hlt|Hge].
    + constructor; [|constructor; auto]. intros kp [<-|Hin]; cbn [fst]; auto. specialize (Hk kp Hin). lia.
    + constructor; auto. intros kp Hin. apply tput_in_inv in Hin as [->|Hin]; cbn [fst]; auto. lia.
Qed.

Lemma active_upto_all_gt t i A : (forall kp, In kp t -> i < fst kp) -> active_upto t i A = A.
Proof.
  destruct t as [|[k p] t]; auto. intros H. cbn [active_upto].
  assert (i < k) by (apply (H (k, p)); now left).
  replace (k <=? i) with false by (symmetry; apply Nat.leb_gt; lia). reflexivity.
Qed.

Lemma active_upto_tput_empty k t : tget k t = None ->
  forall i A, active_upto (tput k empty_point t) i A = active_upto t i A.
Proof.
  induction t as [|[k' p'] t IH]; cbn [tget tput]; intros Hg i A.
  - cbn [active_upto]. rewrite step_empty. destruct (k <=? i); reflexivity.
  - destruct (Nat.eqb k k') eqn:E1; [discriminate|]. destruct (k <? k') eqn:E2.
    + apply Nat.ltb_lt in E2. cbn [active_upto]. rewrite step_empty. destruct (k <=? i) eqn:E3; auto.
      apply Nat.leb_gt in E3. replace (k' <=? i) with false by (symmetry; apply Nat.leb_gt; lia). reflexivity.
    + cbn [active_upto]. destruct (k' <=? i); auto.
Qed.

Lemma run_tput_empty k t : tget k t = None -> forall A, run A (tput k empty_point t) = run A t.
Proof.
  induction t as [|[k' p'] t IH]; cbn [tget tput]; intros Hg A.
  - rewrite run_cons, step_empty. reflexivity.
  - destruct (Nat.eqb k k') eqn:E1; [discriminate|]. destruct (k <? k') eqn:E2.
    + rewrite run_cons, step_empty. reflexivity.
    + rewrite !run_cons. auto.
Qed.

Lemma tensure_props k t : ssorted t ->
  ssorted (tensure k t) /\ (exists p, In (k, p) (tensure k t))
  /\ (forall i, active_at (tensure k t) i = active_at t i)
  /\ run [] (tensure k t) = run [] t
  /\ (forall x, In x t -> fst x <> k -> In x (tensure k t))
  /\ (forall x, In x (tensure k t) -> fst x = k \/ In x t).
Proof.
  intros Hs. unfold tensure, tmem. destruct (tget k t) as [p|] eqn:E.
  - split; auto. split; [exists p; now apply tget_In|]. repeat split; auto.
  - split; [now apply tput_sorted|]. split; [exists empty_point; apply tput_in|].
    split; [intros i; unfold active_at; now apply active_upto_tput_empty|].
    split; [now apply run_tput_empty|]. split; [intros; now apply tput_in_other|].
    intros x Hx. apply tput_in_inv in Hx as [->|Hx]; auto.
Qed.

Lemma empty_point_eq p : point_is_empty p = true -> p = empty_point.
Proof. destruct p as [[|a l] [|b m]]; cbn; intros H; try discriminate; reflexivity. Qed.

Lemma run_cleanup t : forall A, run A (cleanup t) = run A t.
Proof.
  induction t as [|[k p] t IH]; intros A; [reflexivity|]. unfold cleanup in *. cbn [filter snd].
  destruct (point_is_empty p) eqn:E; cbn [negb].
  - apply empty_point_eq in E. subst p. rewrite run_cons, step_empty. apply IH.
  - rewrite !run_cons. apply IH.
Qed.

Lemma upto_cleanup i t : upto i (cleanup t) = cleanup (upto i t).
Proof. unfold upto, cleanup. rewrite !filter_filter. apply filter_ext. intros a. apply andb_comm. Qed.

Lemma cleanup_sorted t : ssorted t -> ssorted (cleanup t).
Proof. apply ssorted_filter. Qed.

Lemma cleanup_active t i : ssorted t -> active_at (cleanup t) i = run [] (upto i t).
Proof.
  intros Hs. rewrite active_at_run by now apply cleanup_sorted. now rewrite upto_cleanup, run_cleanup.
Qed.

Lemma strict_run_cleanup t : forall A, strict_run t A -> strict_run (cleanup t) A.
Proof.
  induction t as [|[k p] t IH]; intros A H; [exact I|]. unfold cleanup in *. cbn [filter snd].
  cbn [strict_run] in H. destruct H as [H1 H2].
  destruct (point_is_empty p) eqn:E; cbn [negb].
  - apply empty_point_eq in E. subst p. rewrite step_empty in H2. now apply IH.
  - cbn [strict_run]. split; auto.
Qed.

Lemma strict_run_tput_empty k t : tget k t = None -> forall A, strict_run t A -> strict_run (tput k empty_point t) A.
Proof.
  induction t as [|[k' p'] t IH]; cbn [tget tput]; intros Hg A H.
  - cbn [strict_run]. split; [cbn; discriminate|exact I].
  - destruct (Nat.eqb k k') eqn:E1; [discriminate|]. destruct (k <? k') eqn:E2.
    + cbn [strict_run] in *. split; [cbn; discriminate|]. rewrite step_empty. exact H.
    + cbn [strict_run] in *. destruct H as [H1 H2]. split; auto.
Qed.

Lemma tensure_strict k t A : strict_run t A -> strict_run (tensure k t) A.
Proof.
  intros H. unfold tensure, tmem. destruct (tget k t) eqn:E; auto. now apply strict_run_tput_empty.
Qed.

Lemma nd_run_of_nodup t : ssorted t -> forall A, (forall i, NoDup (ids (active_upto t i A))) -> nd_run t A.
Proof.
  induction 1 as [|k p t Hk Hs IH]; intros A H; cbn [nd_run]; auto.
  assert (N : NoDup (ids (step A p))).
  { specialize (H k). cbn [active_upto] in H. rewrite Nat.leb_refl in H. rewrite active_upto_all_gt in H; auto. }
  split; auto. apply IH. intros i. destruct (k <=? i) eqn:E.
  - specialize (H i). cbn [active_upto] in H. rewrite E in H. exact H.
  - apply Nat.leb_gt in E. rewrite active_upto_all_gt; auto. intros kp Hin. specialize (Hk kp Hin). lia.
Qed.

(* ---------- remove_core ---------- *)
(* the well-formedness conditions on the receiver *)
Definition rm_wf (s : astr) : Prop :=
  ssorted (tbl s) /\ nodup_active (tbl s) /\ strict_ok (tbl s) = true
  /\ keys_le (tbl s) (length (base s)) /\ final_active (tbl s) = [].
(* ... and on the (already normalised, non-empty) range *)
Definition rm_hyps (s : astr) (start en : nat) : Prop :=
  rm_wf s /\ start < en /\ en <= length (base s) /\ start < length (base s).

Theorem remove_core_base s sel start en : base (remove_core s sel start en) = base s.
Proof. reflexivity. Qed.

(* everything about the active lists of the result, in one statement *)
Lemma remove_core_main s sel start en : rm_hyps s start en ->
  let r := remove_core s sel start en in
  ssorted (tbl r) /\ keys_le (tbl r) (length (base s))
  /\ (forall k, k < start -> active_at (tbl r) k = active_at (tbl s) k)
  /\ (forall k, start <= k < en -> active_at (tbl r) k = keep sel (active_at (tbl s) k))
  /\ (forall k, en <= k -> active_at (tbl r) k = active_at (tbl s) k)
  /\ final_active (tbl r) = [] /\ strict_ok (tbl r) = true.
Proof.
  intros ((Hs & Hnd & Hst & Hk & Hf) & Hse & Hen & Hstart) r.
  set (t := tbl s) in *. set (len := length (base s)) in *.
  destruct (tensure_props start t Hs) as (Ts1 & (ps & Tin1) & Ta1 & Tr1 & To1 & Ti1).
  set (t1 := tensure start t) in *.
  destruct (tensure_props en t1 Ts1) as (Ts2 & (pe & Tin2) & Ta2 & Tr2 & To2 & Ti2).
  set (t2 := tensure en t1) in *.
  assert (Tin1' : In (start, ps) t2) by (apply To2; auto; cbn [fst]; lia).
  destruct (shaped_decompose t2 start ps en pe Ts2 Hse Tin1' Tin2) as (pre & mid & post & Et2 & Hsh).
  assert (Hact : forall i, active_at t2 i = active_at t i) by (intros i; now rewrite Ta2, Ta1).
  assert (Hnd2 : nd_run t2 []).
  { apply nd_run_of_nodup; auto. intros i. fold (active_at t2 i). rewrite Hact. apply Hnd. }
  assert (Hk2 : keys_le t2 len).
  { intros x Hx. apply Ti2 in Hx as [Hx|Hx]; [lia|]. apply Ti1 in Hx as [Hx|Hx]; [lia|]. now apply Hk. }
  assert (Hf2 : run [] t2 = []) by (rewrite Tr2, Tr1; exact Hf).
  assert (Hst2 : strict_run t2 []) by (apply tensure_strict, tensure_strict; now apply strict_ok_from_run).
  assert (Er : tbl r = cleanup (remove_loop (iter_states t2 []) len start en sel [])) by reflexivity.
  rewrite Er. clear Er. rewrite Et2 in *.
  destruct (core_active sel len start en pre ps mid pe post Hsh Ts2 Hnd2 Hk2 Hf2)
    as (HsT & HkT & C1 & C2 & C3 & C4 & C5).
  set (T := remove_loop _ len start en sel []) in *.
  split; [now apply cleanup_sorted|]. split.
  { intros x Hx. unfold cleanup in Hx. apply filter_In in Hx as [Hx _]. revert x Hx.
    apply (keys_transfer (fun n => n <= len) T _ HkT). exact Hk2. }
  split; [|split; [|split; [|split]]].
  - intros k Hkk. rewrite cleanup_active by exact HsT. rewrite C1 by exact Hkk.
    rewrite <- active_at_run by exact Ts2. apply Hact.
  - intros k Hkk. rewrite cleanup_active by exact HsT. rewrite C2 by exact Hkk.
    rewrite <- active_at_run by exact Ts2. now rewrite Hact.
  - intros k Hkk. rewrite cleanup_active by exact HsT. rewrite C3 by exact Hkk.
    rewrite <- active_at_run by exact Ts2. apply Hact.
  - rewrite final_active_run, run_cleanup, C4. exact Hf2.
  - apply strict_ok_from_run. apply strict_run_cleanup. now apply C5.
Qed.

Section RemoveCore.
Variables (s : astr) (sel : option (list str)) (start en : nat).
Hypothesis H : rm_hyps s start en.
Let r := remove_core s sel start en.

(* 3. before the range nothing changes (same objects, same order) *)
Theorem remove_core_before : forall k, k < start -> active_at (tbl r) k = active_at (tbl s) k.
Proof. apply (remove_core_main s sel start en H). Qed.

(* 2. inside the range exactly the unselected settings survive, in their old relative order *)
Theorem remove_core_inside : forall k, start <= k < en ->
  active_at (tbl r) k = keep sel (active_at (tbl s) k).
Proof. apply (remove_core_main s sel start en H). Qed.

(* 4. from [en] on every character has its old settings again: same objects, same order *)
Theorem remove_core_after : forall k, en <= k -> active_at (tbl r) k = active_at (tbl s) k.
Proof. apply (remove_core_main s sel start en H). Qed.

Corollary remove_core_after_txt : forall k, en <= k ->
  map stxt (active_at (tbl r) k) = map stxt (active_at (tbl s) k).
Proof. intros k Hk. now rewrite remove_core_after. Qed.

(* 5. preservation *)
Theorem remove_core_sorted : ssorted (tbl r).
Proof. apply (remove_core_main s sel start en H). Qed.

Theorem remove_core_keys : keys_le (tbl r) (length (base r)).
Proof. apply (remove_core_main s sel start en H). Qed.

Theorem remove_core_strict : strict_ok (tbl r) = true.
Proof. apply (remove_core_main s sel start en H). Qed.

Theorem remove_core_final : final_active (tbl r) = [].
Proof. apply (remove_core_main s sel start en H). Qed.

Theorem remove_core_nodup : nodup_active (tbl r).
Proof.
  intros k. destruct H as ((_ & Hnd & _) & _).
  destruct (lt_dec k start) as [H1|H1]; [rewrite remove_core_before by exact H1; apply Hnd|].
  destruct (lt_dec k en) as [H2|H2].
  - rewrite remove_core_inside by lia. apply keep_nodup, Hnd.
  - rewrite remove_core_after by lia. apply Hnd.
Qed.

Theorem remove_core_wf : rm_wf r.
Proof.
  split; [apply remove_core_sorted|]. split; [apply remove_core_nodup|]. split; [apply remove_core_strict|].
  split; [apply remove_core_keys|apply remove_core_final].
Qed.
End RemoveCore.

(* with settings=None everything is removed inside the range *)
Lemma keep_none l : keep None l = [].
Proof. unfold keep. apply filter_none. reflexivity. Qed.

Corollary remove_core_all s start en : rm_hyps s start en ->
  forall k, start <= k < en -> active_at (tbl (remove_core s None start en)) k = [].
Proof. intros H k Hk. rewrite remove_core_inside by assumption. apply keep_none. Qed.

(* ---------- remove_formatting at the API level ---------- *)
Lemma remove_fmt_noop s sel st en :
  range_empty (length (base s)) (slice_idx (length (base s)) st 0)
              (slice_idx (length (base s)) en (length (base s))) = true ->
  remove_fmt s sel st en = s.
Proof. intros H. unfold remove_fmt. now rewrite H. Qed.

Lemma remove_fmt_core s sel st en :
  let len := length (base s) in
  let start := slice_idx len st 0 in
  let e := slice_idx len en len in
  range_empty len start e = false ->
  remove_fmt s sel st en = remove_core s sel start e /\ start < e /\ e <= len /\ start < len.
Proof.
  intros len start e H. unfold remove_fmt. fold len start e. rewrite H. split; auto.
  unfold range_empty in H. apply orb_false_iff in H as [H1 H2]. apply Nat.leb_gt in H1, H2.
  split; auto. split; auto. apply slice_idx_le. lia.
Qed.

Theorem remove_fmt_spec s sel st en :
  let len := length (base s) in
  let start := slice_idx len st 0 in
  let e := slice_idx len en len in
  let r := remove_fmt s sel st en in
  rm_wf s -> range_empty len start e = false ->
  base r = base s
  /\ (forall k, k < start -> active_at (tbl r) k = active_at (tbl s) k)
  /\ (forall k, start <= k < e -> active_at (tbl r) k = keep sel (active_at (tbl s) k))
  /\ (forall k, e <= k -> active_at (tbl r) k = active_at (tbl s) k)
  /\ rm_wf r.
Proof.
  intros len start e r Hwf Hre.
  destruct (remove_fmt_core s sel st en Hre) as (Er & H1 & H2 & H3). fold len start e in Er, H1, H2, H3.
  assert (Hh : rm_hyps s start e) by (split; auto).
  unfold r. rewrite Er. split; [reflexivity|].
  split; [now apply remove_core_before|]. split; [now apply remove_core_inside|].
  split; [now apply remove_core_after|]. now apply remove_core_wf.
Qed.

(* ---------- clear_formatting ---------- *)
Theorem clear_fmt_full s :
  base (clear_fmt s) = base s /\ (forall k, active_at (tbl (clear_fmt s)) k = []) /\ rm_wf (clear_fmt s).
Proof.
  split; [reflexivity|]. split; [reflexivity|]. unfold rm_wf, clear_fmt. cbn [tbl base].
  split; [constructor|]. split; [intros k; constructor|]. split; [reflexivity|]. split; [intros kp []|reflexivity].
Qed.

(* ---------- the hypotheses are satisfiable: a concrete, non-trivial instance ---------- *)
Module Ex.
Definition a := mkS 1 [1%N].      (* two equal-valued settings with different identities *)
Definition b := mkS 2 [1%N].
Definition c := mkS 3 [4%N].
Definition s0 : astr :=
  mkA (repeat 65%N 6)
      [(0, mkP [c; a] []); (2, mkP [b] []); (3, mkP [] [a]); (5, mkP [] [c]); (6, mkP [] [b])].

Example s0_wf : rm_wf s0.
Proof.
  unfold rm_wf, s0. cbn [tbl base]. split; [|split; [|split; [|split]]].
  - repeat (constructor; [intros kp Hin; cbn in Hin; intuition (subst; cbn; lia)|]). constructor.
  - intros k. do 7 (destruct k as [|k]; [vm_compute; repeat (constructor; [cbn; intuition lia|]); constructor|]).
    cbn. constructor.
  - reflexivity.
  - intros kp Hin. cbn in Hin. intuition (subst; cbn; lia).
  - reflexivity.
Qed.

Example s0_hyps : rm_hyps s0 1 4.
Proof. split; [exact s0_wf|]. cbn. lia. Qed.

(* "1" removed from [1,4): a (starts before, ends inside) is stopped at 1 and its old stop marker at 3
   disappears; b (starts inside, ends outside) now starts at 4, behind c as before *)
Example s0_result :
  tbl (remove_core s0 (Some [[1%N]]) 1 4)
  = [(0, mkP [c; a] []); (1, mkP [] [a]); (4, mkP [b] []); (5, mkP [] [c]); (6, mkP [] [b])].
Proof. vm_compute. reflexivity. Qed.

Example s0_api : range_empty 6 (slice_idx 6 (Some 1%Z) 0) (slice_idx 6 (Some (-2)%Z) 6) = false
  /\ remove_fmt s0 (Some [[1%N]]) (Some 1%Z) (Some (-2)%Z) = remove_core s0 (Some [[1%N]]) 1 4.
Proof. split; vm_compute; reflexivity. Qed.

Example s0_noop : range_empty 6 (slice_idx 6 (Some 4%Z) 0) (slice_idx 6 (Some 2%Z) 6) = true.
Proof. vm_compute. reflexivity. Qed.

(* clause 4 really needs closedness when the range ends at the end of the text: with en = len the
   loop does not restart anything, so a setting left open by the receiver is closed for good *)
Example open_receiver :
  let s := mkA (repeat 65%N 3) [(0, mkP [a] [])] in
  final_active (tbl s) = [a]
  /\ active_at (tbl (remove_core s None 0 3)) 3 = [] /\ active_at (tbl s) 3 = [a].
Proof. vm_compute. repeat split. Qed.
End Ex.

Print Assumptions remove_core_base.
Print Assumptions remove_core_before.
Print Assumptions remove_core_inside.
Print Assumptions remove_core_after.
Print Assumptions remove_core_after_txt.
Print Assumptions remove_core_wf.
Print Assumptions remove_core_all.
Print Assumptions remove_fmt_noop.
Print Assumptions remove_fmt_spec.
Print Assumptions clear_fmt_full.
