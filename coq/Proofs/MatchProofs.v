(* format_matching / unformat_matching: the loop over the match spans (Exec.op_22 / op_23). *)
From AS Require Import Base Effects.
From AS.Model Require Import Sgr Table Ops Scrub Parse Exec.
From AS.Proofs Require Import BasicProofs.
Local Open Scope Z_scope.

(* the explicit loop of the property: apply_formatting(fmt, m.start(), m.end()) for each match span *)
Definition apply_spans (a : astr) (f : form) (spans : list (Z * Z)) (nid : nat) : res (astr * nat) :=
  fold_left (fun acc sp => do (a, n) <- acc; do_apply a f (Some (fst sp)) (Some (snd sp)) true n) spans (OK (a, nid)).
Definition remove_spans (a : astr) (f : option form) (spans : list (Z * Z)) : res astr :=
  fold_left (fun acc sp => do a <- acc; do_remove a f (Some (fst sp)) (Some (snd sp))) spans (OK a).

Definition sx_of_span (sp : Z * Z) : sx := L [A (fst sp); A (snd sp)].

Lemma do_apply_base a f st en top nid a' nid' : do_apply a f st en top nid = OK (a', nid') -> base a' = base a.
Proof.
  unfold do_apply. destruct (_ || _); [intros H; inversion H; reflexivity|].
  destruct (scrub f) as [texts|e]; cbn [bind]; [|discriminate].
  destruct (fresh texts nid) as [news n']. intros H. inversion H. apply apply_fmt_base.
Qed.

Lemma do_remove_base a f st en a' : do_remove a f st en = OK a' -> base a' = base a.
Proof.
  unfold do_remove. destruct (_ || _); [intros H; inversion H; reflexivity|].
  destruct f as [f|].
  - destruct (scrub f) as [texts|e]; cbn [bind]; [|discriminate]. intros H. inversion H. apply remove_fmt_base.
  - intros H. inversion H. apply remove_fmt_base.
Qed.

Lemma fold_err {A B} (g : res A -> B -> res A) (Hg : forall e b, g (Err e) b = Err e) l e : fold_left g l (Err e) = Err e.
Proof. induction l as [|b l IH]; cbn [fold_left]; [reflexivity | now rewrite Hg]. Qed.

Theorem apply_spans_base f spans : forall a nid a' nid', apply_spans a f spans nid = OK (a', nid') -> base a' = base a.
Proof.
  unfold apply_spans. induction spans as [|sp spans IH]; intros a nid a' nid'; cbn [fold_left].
  - intros H. inversion H. reflexivity.
  - cbn [bind]. destruct (do_apply a f (Some (fst sp)) (Some (snd sp)) true nid) as [[a1 n1]|e] eqn:E.
    + intros H. rewrite (IH _ _ _ _ H). eapply do_apply_base; eauto.
    + rewrite fold_err by reflexivity. discriminate.
Qed.

Theorem remove_spans_base f spans : forall a a', remove_spans a f spans = OK a' -> base a' = base a.
Proof.
  unfold remove_spans. induction spans as [|sp spans IH]; intros a a'; cbn [fold_left].
  - intros H. inversion H. reflexivity.
  - cbn [bind]. destruct (do_remove a f (Some (fst sp)) (Some (snd sp))) as [a1|e] eqn:E.
    + intros H. rewrite (IH _ _ H). eapply do_remove_base; eauto.
    + rewrite fold_err by reflexivity. discriminate.
Qed.

(* the pool-level operations are exactly these loops *)
Lemma fold_spans_apply f spans : forall acc,
  fold_left (fun acc sp => do (a, n) <- acc;
               match sp with L [A s; A e] => do_apply a f (Some s) (Some e) true n | _ => Err TypeError end)
            (map sx_of_span spans) acc
  = fold_left (fun acc sp => do (a, n) <- acc; do_apply a f (Some (fst sp)) (Some (snd sp)) true n) spans acc.
Proof. induction spans as [|sp spans IH]; intros acc; cbn [map fold_left]; [reflexivity|]. now rewrite IH. Qed.

Lemma fold_spans_remove f spans : forall acc,
  fold_left (fun acc sp => do a <- acc;
               match sp with L [A s; A e] => do_remove a f (Some s) (Some e) | _ => Err TypeError end)
            (map sx_of_span spans) acc
  = fold_left (fun acc sp => do a <- acc; do_remove a f (Some (fst sp)) (Some (snd sp))) spans acc.
Proof. induction spans as [|sp spans IH]; intros acc; cbn [map fold_left]; [reflexivity|]. now rewrite IH. Qed.

Theorem op_22_is_loop p nid i spans fx o : get p (Z.to_nat i) = Some o ->
  op_22 p nid [A i; L (map sx_of_span spans); fx]
  = (do (a, nid') <- apply_spans (o_val o) (form_of_sx fx) spans nid;
     store (with_id p nid') (Z.to_nat i) o true a).
Proof. intros H. unfold op_22, apply_spans. rewrite H, fold_spans_apply. reflexivity. Qed.

Theorem op_23_is_loop p nid i spans fx o : get p (Z.to_nat i) = Some o ->
  op_23 p nid [A i; L (map sx_of_span spans); fx]
  = (do a <- remove_spans (o_val o) (optform_of_sx fx) spans; store p (Z.to_nat i) o true a).
Proof. intros H. unfold op_23, remove_spans. rewrite H, fold_spans_remove. reflexivity. Qed.

(* no match: nothing changes *)
Lemma apply_spans_nil a f nid : apply_spans a f [] nid = OK (a, nid). Proof. reflexivity. Qed.
Lemma remove_spans_nil a f : remove_spans a f [] = OK a. Proof. reflexivity. Qed.
