(* Obligations tying the model's range guards and the division of the fill in center() to the Gallina text
   REGENERATED from the Python source (tools/translate_fns.py -> Gen/Fns.v):
     AnsiString.apply_formatting   `if not settings or start >= len(self._s) or end <= start: return`
     AnsiString.remove_formatting  `if (settings is not None and not settings) or start >= len(self._s) or end <= start: return`
     AnsiString.find_settings      `if end < start: return (None, None)`
     AnsiString.center             `left_spaces = math.floor(num / 2); right_spaces = num - left_spaces`
   (the two statements before each guard are checked by the translator to be the slice normalisation of start and end,
   which Proofs/GenFns.v ties to Base.slice_idx).  The proofs are shape-independent: case split on every test, then
   linear arithmetic, so that a behaviour-preserving rewrite of a guard still satisfies them. *)
From Coq Require Import ZArith List Bool Lia ZifyBool Arith.
From AS Require Import Base.
From AS.Gen Require Import Fns.
From AS.Model Require Import Table Ops.
Import ListNotations.

Ltac Zify.zify_post_hook ::= Z.div_mod_to_equations.

Ltac split_tests :=
  repeat match goal with
         | |- context [if ?b then _ else _] => destruct b eqn:?
         | |- context [(?a <=? ?b)%nat] => destruct (Nat.leb_spec a b)
         | |- context [(?a <? ?b)%nat] => destruct (Nat.ltb_spec a b)
         | |- context [(?a <=? ?b)%Z] => destruct (Z.leb_spec a b)
         | |- context [(?a <? ?b)%Z] => destruct (Z.ltb_spec a b)
         | |- context [(?a =? ?b)%Z] => destruct (Z.eqb_spec a b)
         end.

(* apply_formatting: with a truthy settings argument the call is skipped exactly when the model's range is empty;
   a falsy settings argument always skips *)
Lemma apply_guard_is_code : forall len start e : nat,
  range_empty len start e = gen_apply_skip true (Z.of_nat start) (Z.of_nat e) (Z.of_nat len).
Proof. intros. unfold range_empty, gen_apply_skip. split_tests; cbn; try reflexivity; lia. Qed.

Lemma apply_guard_falsy : forall start e len : Z, gen_apply_skip false start e len = true.
Proof. intros. unfold gen_apply_skip. split_tests; cbn; try reflexivity; lia. Qed.

(* remove_formatting: settings None (remove everything) or a truthy selection - skipped exactly on an empty range;
   a selection that is given and falsy always skips *)
Lemma remove_guard_is_code : forall (len start e : nat) (none truthy : bool),
  none = true \/ truthy = true ->
  range_empty len start e = gen_remove_skip none truthy (Z.of_nat start) (Z.of_nat e) (Z.of_nat len).
Proof.
  intros len start e none truthy H. unfold range_empty, gen_remove_skip.
  destruct none, truthy; try (destruct H; discriminate); split_tests; cbn; try reflexivity; lia.
Qed.

Lemma remove_guard_falsy : forall start e len : Z, gen_remove_skip false false start e len = true.
Proof. intros. unfold gen_remove_skip. split_tests; cbn; try reflexivity; lia. Qed.

(* find_settings: the inclusive range is invalid exactly when end < start *)
Lemma find_guard_is_code : forall start e : nat,
  (e <? start)%nat = gen_find_invalid (Z.of_nat start) (Z.of_nat e).
Proof. intros. unfold gen_find_invalid. split_tests; cbn; try reflexivity; lia. Qed.

(* center: the extra fill character of an odd surplus goes to the right (Ops.center uses Nat.div2 n and n - Nat.div2 n).
   Python computes math.floor(num / 2) in floating point, which is the integer quotient for num < 2^53. *)
Lemma center_split_is_code : forall n : nat,
  gen_center_split (Z.of_nat n) = (Z.of_nat (Nat.div2 n), Z.of_nat (n - Nat.div2 n)).
Proof.
  intros n. unfold gen_center_split. cbv zeta. rewrite Nat.div2_div.
  assert (H : Z.of_nat (n / 2) = (Z.of_nat n / 2)%Z) by (rewrite Nat2Z.inj_div; reflexivity).
  f_equal; try lia.
  all: rewrite ?Nat2Z.inj_sub by (apply Nat.div_le_upper_bound; lia); lia.
Qed.

Example guards_examples :
  gen_apply_skip true 2 5 6 = false /\ gen_apply_skip true 6 9 6 = true /\ gen_apply_skip true 3 3 6 = true
  /\ gen_remove_skip true false 0 1 1 = false /\ gen_find_invalid 3 3 = false /\ gen_find_invalid 4 3 = true
  /\ gen_center_split 5 = (2, 3)%Z.
Proof. repeat split; reflexivity. Qed.

Print Assumptions apply_guard_is_code.
Print Assumptions remove_guard_is_code.
Print Assumptions find_guard_is_code.
Print Assumptions center_split_is_code.
