(* Every value of every pool reachable by successful operations satisfies the hypotheses of the
   per-operation theorems (C04 - C07, C11, C12, C16, C17 and the structural premises of C01 / C03), so those
   theorems speak about "every reachable value" as the property statements do. *)
From AS Require Import Base Effects.
From AS.Model Require Import Sgr Tokenizer Table Ops Render Scrub Parse StrOps FormatSpec Exec.
From AS.Proofs Require Import TableProofs SliceProofs PadProofs ExecProofs InvariantProofs.

Lemma Forall_In {A} (P : A -> Prop) l x : Forall P l -> In x l -> P x.
Proof. intros H. rewrite Forall_forall in H. apply H. Qed.

Theorem reachable_value : forall p o, reachable_ok p -> In o (objs p) ->
  let s := o_val o in
  (* the invariant in all the forms the theorem files use *)
  WFv s /\ ConcatProofs.WF s /\ RemoveProofs.rm_wf s /\ PadProofs.wf s
  (* its clauses one by one *)
  /\ ssorted (tbl s) /\ keys_le (tbl s) (length (base s)) /\ strict_ok (tbl s) = true
  /\ ApplyProofs.nodup_active (tbl s) /\ final_active (tbl s) = []
  (* an identity determines its text; every identity in use was handed out by the allocator *)
  /\ ConcatProofs.coherent (tbl s) /\ ids_below (next_id p) (tbl s).
Proof.
  intros p o Hr Hin s. destruct (reachable_ok_inv p Hr) as (Hw & Hb & f & Hc).
  pose proof (Forall_In _ _ _ Hw Hin) as W. pose proof (Forall_In _ _ _ Hb Hin) as B.
  pose proof (Forall_In _ _ _ Hc Hin) as C. cbv beta in W, B, C. fold s in W, B, C.
  pose proof W as (S1 & K1 & O1 & N1 & F1).
  split; [exact W|]. split; [exact W|]. split; [now apply WFv_rm_wf|]. split; [now apply WFv_wf|].
  repeat (split; [assumption|]). split; [now apply (coherent_concat f)|exact B].
Qed.

(* two values of one reachable pool are coherent with each other (needed when they are concatenated) *)
Theorem reachable_pair_coherent : forall p o1 o2, reachable_ok p -> In o1 (objs p) -> In o2 (objs p) ->
  ConcatProofs.coherent_pair (o_val o1) (o_val o2).
Proof.
  intros p o1 o2 Hr H1 H2. destruct (reachable_ok_inv p Hr) as (_ & _ & f & Hc).
  pose proof (Forall_In _ _ _ Hc H1) as C1. pose proof (Forall_In _ _ _ Hc H2) as C2. cbv beta in C1, C2.
  rewrite coherent_occ in C1, C2. intros x y Hx Hy E.
  apply occ_occurs in Hx, Hy. rewrite (C1 x Hx), (C2 y Hy). now rewrite E.
Qed.
