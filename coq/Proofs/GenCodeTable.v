(* Obligations on the GENERATED code table: it classifies every code exactly as the
   specification's terminal does.  Re-checked whenever /repo's ansi_param.py changes. *)
From AS Require Import Base Effects.
From AS.Gen Require Import CodeTable CtrlFns.
From AS.Spec Require Import Terminal.
From AS.Model Require Import Sgr.
Local Open Scope N_scope.

Scheme Equality for cls.

Lemma cls_beq_eq a b : cls_beq a b = true -> a = b.
Proof. apply internal_cls_dec_bl. Qed.

(* the multi-code function table is the one the model's grouping logic hard-codes *)
Lemma ctrl_fns_expected :
  gen_ctrl_fns = [([38; 5], 1%nat); ([38; 2], 3%nat); ([48; 5], 1%nat); ([48; 2], 3%nat);
                  ([58; 5], 1%nat); ([58; 2], 3%nat)].
Proof. reflexivity. Qed.

Lemma class_agree_small :
  forallb (fun n => cls_beq (gen_class (N.of_nat n)) (spec_class (N.of_nat n))) (seq 0 256) = true.
Proof. vm_compute. reflexivity. Qed.

Lemma params_small : forallb (fun kv => snd kv <? 256) gen_params = true.
Proof. vm_compute. reflexivity. Qed.

Lemma is_param_large c : 256 <= c -> is_param c = false.
Proof.
  intros Hc. unfold is_param. pose proof params_small as H.
  induction gen_params as [|kv l IH]; simpl in *; auto.
  apply andb_true_iff in H as [H1 H2]. apply N.ltb_lt in H1.
  rewrite (IH H2), orb_false_r. apply N.eqb_neq. lia.
Qed.

Lemma spec_class_large c : 256 <= c -> spec_class c = CUnknown.
Proof.
  intros Hc. destruct c as [|p]; [lia|].
  do 8 (destruct p as [p|p|]; [ | | exfalso; lia ]).
  all: reflexivity.
Qed.

Theorem gen_class_spec : forall c, gen_class c = spec_class c.
Proof.
  intros c. destruct (N.lt_ge_cases c 256) as [Hlt|Hge].
  - pose proof class_agree_small as H. rewrite forallb_forall in H.
    specialize (H (N.to_nat c)). rewrite N2Nat.id in H. apply cls_beq_eq, H.
    apply in_seq. lia.
  - rewrite spec_class_large by exact Hge. unfold gen_class. now rewrite is_param_large.
Qed.
